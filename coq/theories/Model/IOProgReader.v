(* C17: the I/O skeleton of the CURRENT reader as reader programs (Model/IOProg.v).
   Every r.ReadAt call site, every place where io.EOF / a short count is tolerated and every place where an error
   is dropped or converted appears as ReadAt / ReadAtShort / Swallow with a comment naming file:line of /repo.
   Pure decoding of bytes that have been read is done by the decoder models of C11 (Model/Codec*.v) where they
   exist and by small projections elsewhere.  All uint64 arithmetic of the Go code is wrap64.
   Loops carry explicit fuel (an argument; running out of fuel is Fail); the theorems hold for every fuel.
   No proofs here (Proofs/IOProgReader.v). *)
From HV Require Import Base.Prelude Base.Outcome Base.Bytes Model.IOProg.
From HV Require Import Model.CodecSuper Model.CodecOhdr Model.CodecMsg Model.CodecType Model.CodecAttr Model.CodecFilter.

Definition lenN' {A} (l : list A) : N := N.of_nat (length l).
Definition MAXI64 : N := 9223372036854775807.

(* readAddress(data, size) of internal/core (always little endian; size clamped to len(data)) *)
Definition read_addr_le (data : bytes) (size : N) : N :=
  let size := N.min size (blen data) in
  unle (firstn 8 (firstn (N.to_nat size) data)).

(* ------------------------------------------------------------------ utils.ReadBytesAt (internal/utils/saferead.go:13) *)
Definition p_read_bytes_at (off size : N) : prog bytes :=
  if size =? 0 then Ret [] else
  (* saferead.go:19  end := off + size; if end < off || end > MaxInt64 { error } *)
  if MAXI64 <? off + size then Fail else
  (* saferead.go:25  probe of the last byte first:  if n, err := r.ReadAt(probe[:], end-1); n < 1 { error } *)
  ReadAt (off + size - 1) 1 (fun _ =>
  (* saferead.go:32  r.ReadAt(buf, off) *)
  ReadAt off size (fun b => Ret b)).

(* ------------------------------------------------------------------ ReadSuperblock (internal/core/superblock.go:43) *)

(* the decoding of the 128-byte buffer buf of which n bytes were read: the body of CodecSuper.dec_superblock
   (= dec_superblock_gen true, the code with notes/fixes/c06-superblock-sizes.patch; Proofs/IOProgReader.v dec_superblock_is_dec_sb_buf) *)
Definition dec_sb_buf (buf : bytes) (n : N) : outcome superblock' :=
  if n <? 48 then Err else                                   (* superblock.go:51 *)
  sig <- slice buf 0 8;;
  if negb (bytes_eqb sig signature) then Err else
  version <- index buf 8;;
  if negb ((version =? 0) || (version =? 2) || (version =? 3)) then Err else
  if (version =? 0) && (n <? 96) then Err else               (* superblock.go:68, since /repo 07228cc *)
  '(bigendian, offsetSize, lengthSize) <-
    (if version =? 0 then
       o <- index buf 13;; l <- index buf 14;; Ok (false, o, l)
     else
       b9 <- index buf 9;;
       sizesByte <- index buf 10;;
       if spec_size b9 && spec_size sizesByte then Ok (false, b9, sizesByte) else   (* since notes/fixes/c06-superblock-sizes.patch *)
       let be := N.testbit b9 0 in
       if valid_size sizesByte then Ok (be, sizesByte, 8)
       else
         match size_code (N.land sizesByte 15) with
         | None => Err
         | Some o =>
             match size_code (N.land (N.shiftr sizesByte 4) 15) with
             | None => Err
             | Some l => Ok (be, o, l)
             end
         end);;
  let offsetSize := if offsetSize =? 0 then 8 else offsetSize in
  let lengthSize := if lengthSize =? 0 then 8 else lengthSize in
  if negb (valid_size offsetSize && valid_size lengthSize) then Err else
  if version =? 0 then
    root <- read_value buf (24 + 4 * offsetSize + offsetSize) offsetSize bigendian;;           (* 64, 80, 88 for 8-byte offsets *)
    bt <- read_value buf (24 + 4 * offsetSize + 2 * offsetSize + 8) offsetSize bigendian;;
    hp <- read_value buf (24 + 4 * offsetSize + 2 * offsetSize + 8 + offsetSize) offsetSize bigendian;;
    Ok {| spp_version := version; spp_offsize := offsetSize; spp_lensize := lengthSize;
          spp_bigendian := bigendian; spp_base := 0; spp_root := root; spp_superext := 0;
          spp_driverinfo := 0; spp_rootbtree := bt; spp_rootheap := hp |}
  else
    base <- read_value buf 12 offsetSize bigendian;;
    ext <- read_value buf (12 + offsetSize) offsetSize bigendian;;
    root <- read_value buf (12 + 3 * offsetSize) offsetSize bigendian;;
    Ok {| spp_version := version; spp_offsize := offsetSize; spp_lensize := lengthSize;
          spp_bigendian := bigendian; spp_base := base; spp_root := root; spp_superext := ext;
          spp_driverinfo := 0; spp_rootbtree := 0; spp_rootheap := 0 |}.

(* superblock.go:47  n, err := r.ReadAt(buf, 0); if err != nil && !errors.Is(err, io.EOF) { return err }  -- io.EOF tolerated *)
Definition p_superblock : prog superblock' :=
  ReadAtShort 0 128 (fun b g => lift (dec_sb_buf b g)).

Section WithSuperblock.
Variable sb : superblock'.
Let o := spp_offsize sb.
Let l := spp_lensize sb.
Let be_ := spp_bigendian sb.
Definition sbp : sbparams :=
  {| sb_version := spp_version sb; sb_offsize := spp_offsize sb; sb_lensize := spp_lensize sb; sb_bigendian := spp_bigendian sb |}.

(* ------------------------------------------------------------------ object header, version 1 (objectheader_v1.go) *)

(* parseContinuationMessage (objectheader_v1.go:142) *)
Definition cont_info (data : bytes) : outcome (N * N) :=
  if blen data <? o + l then Err else
  if negb (valid_size o) then Err else
  address <- rd_end data 0 o be_;;
  if negb (valid_size l) then Err else
  size <- rd_end data o l be_;;
  if size =? 0 then Err else Ok (address, size).

(* findContinuations (objectheader_v1.go:120): an unparsable continuation message is skipped (pure: bytes already read) *)
Definition find_conts (ms : list hmsg') : list (N * N) :=
  flat_map (fun m => if (hmp_type m =? MSG_CONT) && (0 <? blen (hmp_data m))
                     then match cont_info (hmp_data m) with Ok c => [c] | _ => [] end
                     else []) ms.

(* parseV1MessagesInBlock (objectheader_v1.go:205) *)
Fixpoint p_v1_block (fuel : nat) (cur end_ count max : N) : prog (list hmsg') :=
  match fuel with
  | O => Fail
  | S fuel' =>
      if cur <? end_ then
        if max <=? count then Ret [] else
        if end_ <? wrap64 (cur + 8) then Ret [] else
        (* objectheader_v1.go:225  r.ReadAt(msgHeaderBuf, current): strict since /repo 2f75958 *)
        ReadAt cur 8 (fun h =>
          bind (lift (ty <- rd_end h 0 2 be_;; sz <- rd_end h 2 2 be_;; Ok (ty, sz))) (fun ts =>
          let ty := fst ts in let sz := snd ts in
          if sz =? 0 then p_v1_block fuel' (wrap64 (cur + 8)) end_ count max else
          if end_ <? wrap64 (cur + 8 + sz) then Ret [] else
          (* objectheader_v1.go:251  r.ReadAt(data, current+8) *)
          ReadAt (wrap64 (cur + 8)) sz (fun data =>
            bind (p_v1_block fuel' (wrap64 (cur + pad_to8 (8 + sz))) end_ (wrap16 (count + 1)) max) (fun rest =>
            Ret ({| hmp_type := ty; hmp_offset := cur; hmp_data := data |} :: rest)))))
      else Ret []
  end.

(* the continuation queue of parseV1Header (objectheader_v1.go:77-105) *)
Fixpoint p_v1_conts (fuel fuelb : nat) (visited : list N) (queue : list (N * N)) (msgs : list hmsg') (name : bytes)
  : prog (list hmsg' * bytes) :=
  match fuel with
  | O => Fail
  | S fuel' =>
      match queue with
      | [] => Ret (msgs, name)
      | (a, sz) :: q =>
          if existsb (N.eqb a) visited then Fail else           (* objectheader_v1.go:82 *)
          bind (p_v1_block fuelb a (wrap64 (a + sz)) 0 65535) (fun cm =>
            let msgs' := msgs ++ cm in
            if 65535 <? lenN' msgs' then Fail else               (* objectheader_v1.go:95 *)
            let cn := name_v1 cm in
            let name' := if negb (blen cn =? 0) && (blen name =? 0) then cn else name in
            p_v1_conts fuel' fuelb (a :: visited) (q ++ find_conts cm) msgs' name')
      end
  end.

(* parseV1Header (objectheader_v1.go:33): (messages, name, refcount) *)
Definition p_v1_header (fuel : nat) (addr : N) : prog (list hmsg' * bytes * N) :=
  (* objectheader_v1.go:39  r.ReadAt(headerBuf, headerAddr), 16 bytes *)
  ReadAt addr 16 (fun hb =>
    bind (lift (index hb 0)) (fun v =>
    (* objectheader_v1.go:46  utils.WrapError("invalid v1 header version", nil) is nil: an empty header is returned *)
    if negb (v =? 1) then Ret ([], [], 0) else
    bind (lift (num <- rd_end hb 2 2 be_;; refc <- rd_end hb 4 4 be_;; hs <- rd_end hb 8 4 be_;; Ok (num, refc, hs))) (fun x =>
    let num := fst (fst x) in let refc := snd (fst x) in let hsize := snd x in
    let cur := wrap64 (addr + 16) in
    let end_ := wrap64 (addr + 16 + hsize) in
    bind (p_v1_block fuel cur end_ 0 num) (fun ms =>
    bind (p_v1_conts fuel fuel [cur] (find_conts ms) ms (name_v1 ms)) (fun r =>
    Ret (fst r, snd r, refc)))))).

(* ------------------------------------------------------------------ object header, version 2 (objectheader.go:185) *)

Definition OCHK : bytes := [79; 67; 72; 75].

(* the message loop over the first chunk and the queued continuation chunks (objectheader.go:271-353) *)
Fixpoint p_v2_loop (fuel : nat) (isBE : bool) (hdr : N) (cur end_ : N) (isCont : bool)
         (visited : list N) (pending : list (N * N)) (acc : list hmsg') : prog (list hmsg') :=
  match fuel with
  | O => Fail
  | S fuel' =>
      let next :=
        match pending with
        | [] => Ret acc
        | (s, e) :: q => p_v2_loop fuel' isBE hdr s e true visited q acc
        end in
      if cur <? end_ then
        if isCont && (end_ <? wrap64 (cur + hdr)) then next else       (* objectheader.go:280 *)
        (* objectheader.go:287  r.ReadAt(headerBuf, current), always 6 bytes *)
        ReadAt cur 6 (fun h =>
          bind (lift (ty <- index h 0;; sz <- (if isBE then rd_be h 1 2 else rd_le h 1 2);; Ok (ty, sz))) (fun ts =>
          let ty := fst ts in let sz := snd ts in
          if sz =? 0 then p_v2_loop fuel' isBE hdr (wrap64 (cur + hdr)) end_ isCont visited pending acc else
          (* objectheader.go:316  r.ReadAt(data, current+msgHeaderSize) *)
          ReadAt (wrap64 (cur + hdr)) sz (fun data =>
            let acc' := acc ++ [{| hmp_type := ty; hmp_offset := cur; hmp_data := data |}] in
            let cur' := wrap64 (cur + hdr + sz) in
            if ty =? MSG_CONT then
              (* objectheader.go:330-348, since /repo 57823d4 *)
              bind (lift (cont_info data)) (fun c =>
              let a := fst c in let csz := snd c in
              if (csz <? 8) || existsb (N.eqb a) visited || (1024 <=? lenN' visited) then Fail else
              (* objectheader.go:342  r.ReadAt(sig, cont.Address), 4 bytes *)
              ReadAt a 4 (fun sg =>
                if negb (bytes_eqb sg OCHK) then Fail else
                p_v2_loop fuel' isBE hdr cur' end_ isCont (a :: visited)
                          (pending ++ [(wrap64 (a + 4), sub64 (wrap64 (a + csz)) 4)]) acc'))
            else p_v2_loop fuel' isBE hdr cur' end_ isCont visited pending acc')))
      else next
  end.

(* parseV2Header: (messages, name) *)
Definition p_v2_header (fuel : nat) (addr flags : N) (isBE : bool) : prog (list hmsg' * bytes) :=
  let current := wrap64 (addr + 6) in
  let current := if N.testbit flags 5 then wrap64 (current + 16) else current in
  let current := if N.testbit flags 4 then wrap64 (current + 4) else current in
  let csb := N.shiftl 1 (N.land flags 3) in
  (* objectheader.go:221  r.ReadAt(sizeBuf, current) *)
  ReadAt current csb (fun s =>
    bind (lift (if isBE && negb (csb =? 1) then rd_be s 0 csb else rd_le s 0 csb)) (fun chunkSize =>
    let current := wrap64 (current + csb) in
    let end_ := sub64 (wrap64 (current + chunkSize)) 4 in
    let hdr := if N.testbit flags 2 then 6 else 4 in
    bind (p_v2_loop fuel isBE hdr current end_ false [] [] []) (fun ms =>
    Ret (ms, name_v2 ms)))).

(* ------------------------------------------------------------------ ReadObjectHeader: the header part (objectheader.go:75-146) *)

Definition p_ohdr (fuel : nat) (addr : N) : prog ohdr' :=
  if 9223372036854775808 <=? addr then Fail else                (* objectheader.go:78 *)
  (* objectheader.go:85  r.ReadAt(prefix, offset), 8 bytes *)
  ReadAt addr 8 (fun p =>
    let v1 := fun flags =>
      bind (p_v1_header fuel addr) (fun r =>
      Ret {| ohp_version := 1; ohp_flags := flags; ohp_refcount := snd r; ohp_name := snd (fst r); ohp_msgs := fst (fst r) |}) in
    let v2 := fun version flags isBE =>
      bind (p_v2_header fuel addr flags isBE) (fun r =>
      Ret {| ohp_version := version; ohp_flags := flags; ohp_refcount := refcount_v2 (fst r) be_;
             ohp_name := snd r; ohp_msgs := fst r |}) in
    if bytes_eqb (firstn 4 p) OHDR then
      bind (lift (version <- index p 4;; flags <- index p 5;; Ok (version, flags))) (fun vf =>
      if fst vf =? 1 then v1 (snd vf) else if fst vf =? 2 then v2 (fst vf) (snd vf) false else Fail)
    else if bytes_eqb (rev (firstn 4 p)) OHDR then
      bind (lift (version <- index p 7;; flags <- index p 6;; Ok (version, flags))) (fun vf =>
      if fst vf =? 1 then v1 (snd vf) else if fst vf =? 2 then v2 (fst vf) (snd vf) true else Fail)
    else
      bind (lift (p0 <- index p 0;; p1 <- index p 1;; Ok (p0, p1))) (fun pp =>
      if (fst pp =? 1) && (snd pp =? 0) then v1 0 else Fail)).

(* ------------------------------------------------------------------ attributes (internal/core/attribute.go) *)

(* an attribute as the tie observes it: name and raw value bytes *)
Definition attr := (bytes * bytes)%type.
Definition attr_of (a : attribute') : attr := (atp_name a, match atp_data a with Some d => d | None => [] end).

(* ParseAttributeInfoMessage (attribute.go:982): (fractal heap address, name index B-tree address) *)
Definition dec_attrinfo (data : bytes) : outcome (N * N) :=
  if blen data <? 2 then Err else
  flags <- index data 1;;
  let off := if N.testbit flags 0 then 6 else 2 in
  if N.testbit flags 0 && (blen data <? 6) then Err else
  if blen data <? off + o then Err else
  h <- slice data off (off + o);;
  if blen data <? off + o + o then Err else
  b <- slice data (off + o) (off + o + o);;
  if N.testbit flags 1 && (blen data <? off + 3 * o) then Err else
  Ok (read_addr_le h o, read_addr_le b o).

(* readBTreeV2HeaderRaw (attribute.go:580): (root node address, number of records in the root) *)
Definition dec_bt2hdr (buf : bytes) (n : N) : outcome (N * N) :=
  if n <? 16 + o + 2 + 8 then Err else                        (* attribute.go:589, since /repo d9e66d7 *)
  sg <- slice buf 0 4;;
  if negb (bytes_eqb sg [66; 84; 72; 68]) then Err else
  if 38 <? 16 + o then Err else
  a <- slice buf 16 (16 + o);;
  if 38 <? 16 + o + 2 then Err else
  nr <- rd_end buf (16 + o) 2 be_;;
  if 38 <? 16 + o + 2 + 8 then Err else
  Ok (read_addr_le a o, nr).
Definition p_bt2hdr (addr : N) : prog (N * N) :=
  (* attribute.go:584  n, err := r.ReadAt(buf, addr) with a 38-byte buffer -- io.EOF tolerated *)
  ReadAtShort addr 38 (fun b g => lift (dec_bt2hdr b g)).

(* readBTreeV2LeafRecords (attribute.go:656): the 7-byte heap ids *)
Fixpoint leaf_ids (buf : bytes) (n : nat) (off : N) : outcome (list bytes) :=
  match n with
  | O => Ok []
  | S n' => if blen buf <? off + 11 then Err else
            id <- slice buf (off + 4) (off + 11);; rest <- leaf_ids buf n' (off + 11);; Ok (id :: rest)
  end.
Definition dec_bt2leaf (nrec : N) (buf : bytes) (n : N) : outcome (list bytes) :=
  if (n <? 6 + nrec * 11) || (n <? 10) then Err else           (* attribute.go:669, since /repo d9e66d7 *)
  sg <- slice buf 0 4;;
  if negb (bytes_eqb sg [66; 84; 76; 70]) then Err else
  leaf_ids buf (N.to_nat nrec) 6.
Definition p_bt2leaf (addr nrec : N) : prog (list bytes) :=
  (* attribute.go:664  n, err := r.ReadAt(buf, addr) with 6 + nrec*11 + 4 bytes -- io.EOF tolerated *)
  ReadAtShort addr (6 + nrec * 11 + 4) (fun b g => lift (dec_bt2leaf nrec b g)).

(* readFractalHeapHeaderRaw (attribute.go:724): (root block address, heap offset size, heap length size) *)
Definition compute_offset_size (v : N) : N := if v =? 0 then 1 else (N.size v + 7) / 8.
Definition dec_fheaphdr (buf : bytes) (n : N) : outcome (N * N * N) :=
  if n <? 132 + o then Err else                                (* attribute.go:734, since /repo d9e66d7 *)
  sg <- slice buf 0 4;;
  if negb (bytes_eqb sg [70; 82; 72; 80]) then Err else
  maxman <- rd_end buf 10 4 be_;;
  md <- slice buf (112 + l) (112 + l + l);;
  let maxdir := wrap64 (unle (firstn 8 md)) in
  if 144 <? 112 + l + l + 2 then Err else
  mhs <- rd_end buf (112 + l + l) 2 be_;;
  let hos := wrap8 (wrap16 (mhs + 7) / 8) in
  let hls := N.min (compute_offset_size maxdir) (compute_offset_size maxman) in
  if 144 <? 132 + o then Err else
  ra <- slice buf 132 (132 + o);;
  Ok (read_addr_le ra o, hos, hls).
Definition p_fheaphdr (addr : N) : prog (N * N * N) :=
  (* attribute.go:729  n, err := r.ReadAt(buf, addr) with a 144-byte buffer -- io.EOF tolerated *)
  ReadAtShort addr 144 (fun b g => lift (dec_fheaphdr b g)).

(* parseHeapID (attribute.go:846) *)
Definition parse_heap_id (id : bytes) (hos hls : N) : outcome (N * N) :=
  b0 <- index id 0;;
  if negb (N.shiftr (N.land b0 48) 4 =? 0) then Err else
  let no := N.min hos 6 in
  let offs := unle (firstn 8 (firstn (N.to_nat no) (skipn 1 id))) in
  let nl := N.min hls (6 - no) in
  let len := unle (firstn 8 (firstn (N.to_nat nl) (skipn (1 + N.to_nat no) id))) in
  Ok (offs, len).

(* readHeapObject (attribute.go:880) *)
Definition dec_dblock (hos : N) (buf : bytes) (n : N) : outcome N :=
  let hsz := 5 + o + hos in
  if n <? hsz then Err else                                    (* attribute.go:890 *)
  sg <- slice buf 0 4;;
  if negb (bytes_eqb sg [70; 72; 68; 66]) then Err else
  bo <- slice buf (5 + o) (5 + o + hos);;
  Ok (wrap64 (unle (firstn 8 bo))).
Definition p_heap_object (blockAddr offs len hos : N) : prog bytes :=
  let hsz := 5 + o + hos in
  (* attribute.go:886  n, err := r.ReadAt(headerBuf, blockAddr) with headerSize+16 bytes -- io.EOF tolerated *)
  ReadAtShort blockAddr (hsz + 16) (fun b g =>
    bind (lift (dec_dblock hos b g)) (fun blockOffset =>
    if offs <? blockOffset then Fail else
    (* attribute.go:924  utils.ReadBytesAt(r, objectAddr, length) *)
    p_read_bytes_at (wrap64 (blockAddr + hsz + (offs - blockOffset))) len)).

(* readDenseAttributes (attribute.go:491) *)
Fixpoint p_dense_objs (ids : list bytes) (root hos hls : N) : prog (list attr) :=
  match ids with
  | [] => Ret []
  | id :: rest =>
      bind (lift (parse_heap_id id hos hls)) (fun ol =>
      bind (p_heap_object root (fst ol) (snd ol) hos) (fun obj =>
      bind (lift (dec_attribute be_ obj)) (fun a =>          (* attribute.go:542: a parse error is returned *)
      bind (p_dense_objs rest root hos hls) (fun r => Ret (attr_of a :: r)))))
  end.
Definition p_dense (heapAddr btAddr : N) : prog (list attr) :=
  if (heapAddr =? 0) || (btAddr =? 0) then Fail else
  bind (p_bt2hdr btAddr) (fun h =>
  bind (p_bt2leaf (fst h) (snd h)) (fun ids =>
  match ids with
  | [] => Ret []
  | _ => bind (p_fheaphdr heapAddr) (fun hh =>
         p_dense_objs ids (fst (fst hh)) (snd (fst hh)) (snd hh))
  end)).

(* ParseAttributesFromMessages (attribute.go:423).  Pure decisions on bytes already read (no I/O, the same on a
   damaged file): attribute.go:433 an unparsable Attribute Info message means "compact only"; attribute.go:446 a
   compact attribute message that does not parse is skipped. *)
Fixpoint first_ainfo (ms : list hmsg') : option (N * N) :=
  match ms with
  | [] => None
  | m :: r => if hmp_type m =? 21
              then match dec_attrinfo (hmp_data m) with Ok x => Some x | _ => None end
              else first_ainfo r
  end.
Fixpoint compact_attrs (ms : list hmsg') : prog (list attr) :=
  match ms with
  | [] => Ret []
  | m :: r => if hmp_type m =? 12
              then match dec_attribute be_ (hmp_data m) with
                   | Ok a => bind (compact_attrs r) (fun x => Ret (attr_of a :: x))
                   | Err => compact_attrs r
                   | Panic => Crash
                   end
              else compact_attrs r
  end.
Definition p_attrs (ms : list hmsg') : prog (list attr) :=
  bind (compact_attrs ms) (fun ca =>
  match first_ainfo ms with
  | Some (h, b) => if negb (h =? 0) && negb (h =? UNDEF)
                   then bind (p_dense h b) (fun d => Ret (ca ++ d))    (* attribute.go:460: the error is returned *)
                   else Ret ca
  | None => Ret ca
  end).

(* ReadObjectHeader as a whole (objectheader.go:149-156): the attribute error is KEPT in the header (AttributesErr),
   not returned: modelled as Swallow with the distinguishable default None. *)
Definition p_read_object_header (fuel : nat) (addr : N) : prog (ohdr' * option (list attr)) :=
  bind (p_ohdr fuel addr) (fun h =>
  Swallow (bind (p_attrs (ohp_msgs h)) (fun a => Ret (Some a))) None (fun oa => Ret (h, oa))).

(* Dataset.Attributes / Group.Attributes (group.go:60, group.go:182): AttributesErr is returned *)
Definition api_attributes (fuel : nat) (addr : N) : prog (list attr) :=
  bind (p_ohdr fuel addr) (fun h =>
  Swallow (bind (p_attrs (ohp_msgs h)) (fun a => Ret (Some a))) None
          (fun oa => match oa with Some a => Ret a | None => Fail end)).

(* ------------------------------------------------------------------ global heap collection (globalheap.go:53) *)

Fixpoint gcol_objs (fuel : nat) (os : N) (data : bytes) (off : N) : outcome (list (N * bytes)) :=
  match fuel with
  | O => Err
  | S fuel' =>
      if off <? blen data then
        let ohs := 8 + os in
        if blen data <? off + ohs then Ok [] else
        id <- rd_le data off 2;;
        osz <- rd_le data (off + 8) os;;
        if blen data - off - ohs <? osz then (if id =? 0 then Ok [] else Err) else
        let al := if osz mod 8 =? 0 then osz else osz + (8 - osz mod 8) in
        if id =? 0 then gcol_objs fuel' os data (off + ohs + al) else
        d <- slice data (off + ohs) (off + ohs + osz);;
        rest <- gcol_objs fuel' os data (off + ohs + al);;
        Ok ((id, d) :: rest)
      else Ok []
  end.
Definition p_gheap (fuel : nat) (addr : N) : prog (list (N * bytes)) :=
  if negb ((o =? 4) || (o =? 8)) then Fail else
  (* globalheap.go:62  r.ReadAt(headerBuf, address), 8 + offsetSize bytes *)
  ReadAt addr (8 + o) (fun h =>
    if negb (bytes_eqb (firstn 4 h) [71; 67; 79; 76]) then Fail else
    bind (lift (v <- index h 4;; cs <- rd_le h 8 o;; Ok (v, cs))) (fun vc =>
    if negb (fst vc =? 1) then Fail else
    if snd vc <? 8 + o then Fail else
    (* globalheap.go:91  utils.ReadBytesAt(r, address, collectionSize) *)
    bind (p_read_bytes_at addr (snd vc)) (fun data =>
    lift (gcol_objs fuel o data (let s := 8 + o in if s mod 8 =? 0 then s else s + (8 - s mod 8)))))).

(* Attribute.readVariableLengthString (attribute.go:373) and readVariableString (dataset_reader_compound.go:262):
   a global heap reference resolved through its collection; data is the reference (after the 4-byte length for
   attributes) *)
Definition api_vlen_string (fuel : nat) (ref : bytes) : prog bytes :=
  if negb ((o =? 4) || (o =? 8)) then Fail else
  if blen ref <? o + 4 then Fail else
  bind (lift (a <- rd_le ref 0 o;; i <- rd_le ref o 4;; Ok (a, i))) (fun ai =>
  if fst ai =? 0 then Ret [] else
  bind (p_gheap fuel (fst ai)) (fun objs =>
  match find (fun x => fst x =? snd ai) objs with
  | Some x => Ret (snd x)
  | None => Fail
  end)).

(* ------------------------------------------------------------------ traditional groups (internal/structures) *)

(* LoadLocalHeap (localheap.go:41): the data segment *)
Definition p_local_heap (addr : N) : prog bytes :=
  let hs := 8 + 2 * l + o in
  (* localheap.go:51  r.ReadAt(headerBuf, address) *)
  ReadAt addr hs (fun h =>
    if negb (bytes_eqb (firstn 4 h) [72; 69; 65; 80]) then Fail else
    bind (lift (sz <- (if (l =? 2) || (l =? 4) || (l =? 8) then rd_end h 8 l be_ else Ok 0);;
                da <- (if (o =? 2) || (o =? 4) || (o =? 8) then rd_end h (8 + 2 * l) o be_ else Ok 0);;
                Ok (sz, da))) (fun x =>
    (* localheap.go:94  utils.ReadBytesAt(r, dataSegmentAddr, dataSegmentSize) *)
    p_read_bytes_at (snd x) (fst x))).

(* readAddressFromBytes / readAddress of internal/structures: sizes 1,2,4,8 in the file's byte order *)
Definition read_addr_end (data : bytes) (size : N) : outcome N :=
  let size := N.min size (blen data) in
  if valid_size size then rd_end data 0 size be_
  else Ok (let buf := firstn 8 (firstn (N.to_nat size) data ++ zeros 8) in if be_ then unbe buf else unle buf).

(* SymbolTableEntry: (link name offset, object address, cache type, cached B-tree, cached heap) *)
Definition stentry := (N * N * N * N * N)%type.
Fixpoint snod_entries (n : nat) (data : bytes) (off : N) : outcome (list stentry) :=
  match n with
  | O => Ok []
  | S n' =>
      let es := 2 * o + 24 in
      if blen data <? off + es then Err else
      d0 <- slice_from data off;; lo <- read_addr_end d0 o;;
      d1 <- slice_from data (off + o);; oa <- read_addr_end d1 o;;
      ct <- rd_end data (off + 2 * o) 4 be_;;
      cb <- (if ct =? 1 then d <- slice_from data (off + 2 * o + 8);; read_addr_end d o else Ok 0);;
      ch <- (if ct =? 1 then d <- slice_from data (off + 2 * o + 8 + o);; read_addr_end d o else Ok 0);;
      rest <- snod_entries n' data (off + es);;
      Ok ((lo, oa, ct, cb, ch) :: rest)
  end.
(* ParseSymbolTableNode (symboltable_node.go:27) *)
Definition p_snod (addr : N) : prog (list stentry) :=
  (* symboltable_node.go:33  r.ReadAt(header, address), 8 bytes *)
  ReadAt addr 8 (fun h =>
    if negb (bytes_eqb (firstn 4 h) [83; 78; 79; 68]) then Fail else
    bind (lift (v <- index h 4;; n <- rd_end h 6 2 be_;; Ok (v, n))) (fun vn =>
    if negb (fst vn =? 1) then Fail else
    if snd vn =? 0 then Ret [] else
    (* symboltable_node.go:83  r.ReadAt(data, address+8), numSymbols*entrySize bytes *)
    ReadAt (addr + 8) (snd vn * (2 * o + 24)) (fun data =>
    lift (snod_entries (N.to_nat (snd vn)) data 0)))).

(* ReadGroupBTreeEntries (btree_group.go:21) *)
Fixpoint btree_children (n : nat) (data : bytes) (pos : N) : outcome (list N) :=
  match n with
  | O => Ok []
  | S n' => d <- slice_from data (pos + o);; c <- read_addr_end d o;;
            rest <- btree_children n' data (pos + 2 * o);;
            Ok (if negb (c =? 0) && negb (c =? UNDEF) then c :: rest else rest)
  end.
Fixpoint p_snods (addrs : list N) : prog (list stentry) :=
  match addrs with
  | [] => Ret []
  | a :: r => bind (p_snod a) (fun es => bind (p_snods r) (fun rest => Ret (es ++ rest)))   (* btree_group.go:106 *)
  end.
Definition p_group_btree (addr : N) : prog (list stentry) :=
  let hs := 8 + 2 * o in
  (* btree_group.go:36  r.ReadAt(header, address) *)
  ReadAt addr hs (fun h =>
    if negb (bytes_eqb (firstn 4 h) [84; 82; 69; 69]) then Fail else
    bind (lift (t <- index h 4;; lv <- index h 5;; n <- rd_end h 6 2 be_;; Ok (t, lv, n))) (fun x =>
    if negb (fst (fst x) =? 0) then Fail else
    if negb (snd (fst x) =? 0) then Fail else
    if snd x =? 0 then Ret [] else
    (* btree_group.go:83  r.ReadAt(data, address+headerSize), (2*entriesUsed + 1) * offsetSize bytes *)
    ReadAt (addr + hs) (snd x * 2 * o + o) (fun data =>
    bind (lift (btree_children (N.to_nat (snd x)) data 0)) p_snods))).

(* LocalHeap.GetString (localheap.go:105) *)
Definition heap_string (heap : bytes) (off : N) : outcome bytes :=
  if blen heap <=? off then Err else
  let e := find0 heap off in
  if blen heap <=? e then Err else slice heap off e.

(* ------------------------------------------------------------------ dataset raw data (dataset_reader.go, btree_v1.go) *)

Definition find_msg (ty : N) (ms : list hmsg') : option bytes :=
  fold_left (fun acc m => if hmp_type m =? ty then Some (hmp_data m) else acc) ms None.

(* one chunk B-tree node: (level, keys (nbytes, byte offsets), children)  --  ParseBTreeV1Node (btree_v1.go:41) *)
Fixpoint bt1_keys (n : nat) (ndims : nat) (data : bytes) (off : N) : outcome (list (N * list N * N)) :=
  match n with
  | O => Ok []
  | S n' =>
      let ks := 8 + 8 * N.of_nat ndims in
      if blen data <? off + ks then Err else
      nb <- rd_le data off 4;;
      '(co, _) <- read_dims data 8 ndims (off + 8);;
      if (n' =? 0)%nat then Ok [(nb, co, 0)]                              (* the final key has no child *)
      else
        if blen data <? off + ks + o then Err else
        d <- slice_from data (off + ks);;
        rest <- bt1_keys n' ndims data (off + ks + o);;
        Ok ((nb, co, read_addr_le d o) :: rest)
  end.
Definition p_bt1_node (addr : N) (ndims : nat) (cdims : list N) : prog (N * list (N * list N * N)) :=
  let hs := 8 + 2 * o in
  (* btree_v1.go:48  r.ReadAt(header, address) *)
  ReadAt addr hs (fun h =>
    if negb (bytes_eqb (firstn 4 h) [84; 82; 69; 69]) then Fail else
    bind (lift (lv <- index h 5;; n <- rd_le h 6 2;; Ok (lv, n))) (fun x =>
    if snd x =? 0 then Ret (fst x, []) else
    let ks := 8 + 8 * N.of_nat ndims in
    (* btree_v1.go:107  utils.ReadBytesAt(r, address+headerSize, entriesUsed*entrySize + keySize) *)
    bind (p_read_bytes_at (wrap64 (addr + hs)) (snd x * (ks + o) + ks)) (fun data =>
    if existsb (N.eqb 0) (firstn ndims cdims) then Fail else          (* btree_v1.go:141 *)
    bind (lift (bt1_keys (S (N.to_nat (snd x))) ndims data 0)) (fun ks => Ret (fst x, removelast ks))))).

(* CollectAllChunks (btree_v1.go:252): depth first, a child must be below its parent, no node twice *)
Fixpoint p_collect (fuel : nat) (ndims : nat) (cdims : list N) (level : N) (ents : list (N * list N * N)) (visited : list N)
  : prog (list (N * list N * N) * list N) :=
  match fuel with
  | O => Fail
  | S fuel' =>
      if level =? 0 then Ret (ents, visited) else
      (fix children (es : list (N * list N * N)) (visited : list N) {struct es} : prog (list (N * list N * N) * list N) :=
         match es with
         | [] => Ret ([], visited)
         | (_, _, ca) :: rest =>
             if existsb (N.eqb ca) visited then Fail else            (* btree_v1.go:279 *)
             bind (p_bt1_node ca ndims cdims) (fun nd =>
             if level <=? fst nd then Fail else                      (* btree_v1.go:289 *)
             bind (p_collect fuel' ndims cdims (fst nd) (snd nd) (ca :: visited)) (fun r1 =>
             bind (children rest (snd r1)) (fun r2 => Ret (fst r1 ++ fst r2, snd r2))))
         end) ents visited
  end.

(* the chunk reads of readChunkedData (dataset_reader.go:282-295): (byte-offset key, stored bytes) per chunk *)
Fixpoint p_chunks (cs : list (N * list N * N)) : prog (list (list N * bytes)) :=
  match cs with
  | [] => Ret []
  | (nb, co, a) :: rest =>
      if (nb =? 0) || (1073741824 <? nb) then Fail else             (* dataset_reader.go:287 utils.ValidateBufferSize *)
      (* dataset_reader.go:292  utils.ReadBytesAt(r, chunkAddr, uint64(chunkKey.Nbytes)) *)
      bind (p_read_bytes_at a nb) (fun d => bind (p_chunks rest) (fun r => Ret ((co, d) :: r)))
  end.

Inductive rawdata := RawBytes (b : bytes) | RawChunks (cs : list (list N * bytes)).

(* the layout dispatch of ReadDatasetFloat64 / ReadDatasetStrings / ReadDatasetCompound (dataset_reader.go:78-103):
   what is read from the file for the dataset whose header messages are ms; filters and the scatter into the
   array are pure functions of these bytes (C01, C08) *)
Definition p_dataset_raw (fuel : nat) (ms : list hmsg') : prog rawdata :=
  match find_msg 3 ms, find_msg 1 ms, find_msg 8 ms with
  | Some dtd, Some dsd, Some lyd =>
      bind (lift (dt <- dec_datatype dtd;; ds <- dec_dataspace dsd;; ly <- dec_layout sbp lyd;; Ok (dt, ds, ly))) (fun x =>
      let dt := fst (fst x) in let ds := snd (fst x) in let ly := snd x in
      let total := if dsp_type ds =? 2 then 0 else fold_left (fun a d => wrap64 (a * d)) (dsp_dims ds) 1 in
      if total =? 0 then Ret (RawBytes []) else
      if ly_class ly =? 0 then Ret (RawBytes (match ly_compact ly with Some c => c | None => [] end))
      else if ly_class ly =? 1 then
        if 18446744073709551616 <=? total * dt_size dt then Fail else        (* utils.SafeMultiply *)
        (* dataset_reader.go:89  utils.ReadBytesAt(r, layout.DataAddress, dataSize) *)
        bind (p_read_bytes_at (ly_addr ly) (total * dt_size dt)) (fun b => Ret (RawBytes b))
      else if ly_class ly =? 2 then
        let cd := match ly_chunk ly with Some c => c | None => [] end in
        if (length cd <? length (dsp_dims ds))%nat then Fail else
        bind (p_bt1_node (ly_addr ly) (length cd) cd) (fun nd =>
        let tb := total * dt_size dt in
        if (18446744073709551616 <=? tb) || (tb =? 0) || (1099511627776 <? tb) then Fail else   (* dataset_reader.go:262-270 *)
        bind (p_collect fuel (length cd) cd (fst nd) (snd nd) []) (fun r =>
        bind (p_chunks (fst r)) (fun cs => Ret (RawChunks cs))))
      else Fail)
  | _, _, _ => Fail
  end.

(* Dataset.Read & co. (group.go:105-141): ReadObjectHeader, then the dataset reader; the attribute part of the header
   (and its possible error) is not used *)
Definition api_read_raw (fuel : nat) (addr : N) : prog rawdata :=
  bind (p_ohdr fuel addr) (fun h =>
  Swallow (bind (p_attrs (ohp_msgs h)) (fun a => Ret (Some a))) None
          (fun _ => p_dataset_raw fuel (ohp_msgs h))).

End WithSuperblock.
