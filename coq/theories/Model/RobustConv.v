(* C07 datatype conversion LOOPS of the dataset readers, transcribed iteration by iteration (no proofs here:
   Proofs/RobustConv.v).  Sources (current /repo):
     internal/core/dataset_reader.go           convertToFloat64   (the four cases float64/int64: 8, float32/int32: 4
                                                                   run the same loop with a different element size)
     internal/core/dataset_reader_strings.go   convertToStrings   (fixed-length strings)
     internal/core/dataset_reader_compound.go  parseCompoundData  (outer element loop, per-member slicing)
     internal/utils/overflow.go                ValidateBufferSize, MaxStringSize

   Every function returns (result, allocation log).
     result : option (outcome N).   None = the MODEL ran out of fuel (an artefact; Proofs/RobustConv.v shows it never
              happens with the fuel given here);  Some (Ok n) = Go returned a slice of n converted elements;
              Some Err = Go returned an error;  Some Panic = Go run-time panic (slice bounds out of range).
     log    : the make() requests of the path, in BYTES, in order:
              make([]float64, n) = 8 n;  make([]string, n) = 16 n (string header);  make([]CompoundValue, n) = 8 n
              (a map value is one pointer).  NOT logged: the per-element `make(CompoundValue)` maps and the string
              copies `string(data)` of decodeFixedString: each is bounded by the element it is built from.
   uint64 arithmetic is written out with wrap64:  i * size, offset + size, i++.
   The element decode itself (byteOrder.Uint64 on an 8-byte slice, Float64frombits, decodeFixedString =
   bytes.IndexByte / bytes.TrimRight / string()) is total on a slice of the right length and is not modelled;
   parseMemberValue is abstracted as always succeeding (its own bounds checks are `len(data) < k => error`). *)
From HV Require Import Base.Prelude Base.Outcome Base.Bytes Model.RobustAlloc.

(*  for i := uint64(0); i < numElements; i++ {
        offset := i * size
        if offset+size > uint64(len(rawData)) { return nil, errors.New("data truncated") }
        elem := rawData[offset : offset+size]          // checked slice: panics when out of range
        ... body(elem) ...
    }
    return result, nil
   [body] is the per-element work on the slice (nothing for the scalar and string loops, the member loop for compounds). *)
Fixpoint elem_loop (body : bytes -> outcome unit) (fuel : nat) (raw : bytes) (size n i : N) {struct fuel}
  : option (outcome N) :=
  match fuel with
  | O => None
  | S fuel' =>
      if i <? n then
        let offset := wrap64 (i * size) in
        let end_ := wrap64 (offset + size) in
        if blen raw <? end_ then Some Err
        else match slice raw offset end_ with
             | Ok elem =>
                 match body elem with
                 | Ok _ => elem_loop body fuel' raw size n (wrap64 (i + 1))
                 | Err => Some Err
                 | Panic => Some Panic
                 end
             | Err => Some Err
             | Panic => Some Panic
             end
      else Some (Ok n)
  end.

Definition no_body (elem : bytes) : outcome unit := Ok tt.

(* one iteration per element and one more to see i = numElements *)
Definition conv_fuel (n : N) : nat := S (N.to_nat n).

(* ---- convertToFloat64.  elemSize: 8 for IsFloat64 / IsInt64, 4 for IsFloat32 / IsInt32; any other datatype
        takes the `default:` branch (error) AFTER the make(). ---- *)
Definition conv_float64 (raw : bytes) (elemSize numElements : N) : option (outcome N) * alog :=
  if blen raw <? numElements then (Some Err, [])                  (* numElements > uint64(len(rawData)) *)
  else
    let log := [8 * numElements] in                               (* result := make([]float64, numElements) *)
    if negb ((elemSize =? 8) || (elemSize =? 4)) then (Some Err, log)
    else (elem_loop no_body (conv_fuel numElements) raw elemSize numElements 0, log).

(* ---- convertToStrings, datatype.IsFixedString().  stringSize = uint64(datatype.Size) ---- *)
Definition MaxStringSize : N := 16777216.

Definition conv_strings (raw : bytes) (stringSize numElements : N) : option (outcome N) * alog :=
  if blen raw <? numElements then (Some Err, [])
  else
    let log := [16 * numElements] in                              (* result := make([]string, numElements) *)
    match validate_buffer_size stringSize MaxStringSize with
    | Ok _ => (elem_loop no_body (conv_fuel numElements) raw stringSize numElements 0, log)
    | Err => (Some Err, log)
    | Panic => (Some Panic, log)
    end.

(* ---- parseCompoundData.
        for _, member := range compoundType.Members {
            if uint64(member.Offset) > structSize { return error }
            memberData := structData[member.Offset:]               // checked
            parseMemberValue(memberData, ...)                      // abstracted: succeeds
        }
      members = the member offsets (uint32 each). ---- *)
Fixpoint member_loop (structSize : N) (members : list N) (structData : bytes) : outcome unit :=
  match members with
  | [] => Ok tt
  | off :: rest =>
      if structSize <? off then Err
      else match slice_from structData off with
           | Ok _ => member_loop structSize rest structData
           | Err => Err
           | Panic => Panic
           end
  end.

Definition conv_compound (raw : bytes) (structSize : N) (members : list N) (numElements : N)
  : option (outcome N) * alog :=
  if structSize =? 0 then (Some Err, [])
  else if blen raw / structSize <? numElements then (Some Err, [])  (* numElements > uint64(len(rawData))/structSize *)
  else
    (elem_loop (member_loop structSize members) (conv_fuel numElements) raw structSize numElements 0,
     [8 * numElements]).                                            (* result := make([]CompoundValue, numElements) *)

(* ---- what a tie would compare: class/value and the log ---- *)
Definition val_conv (r : option (outcome N) * alog) : val :=
  VL [vopt (oval VN) (fst r); vlistN (snd r)].
