(* Store model shared by C04 / C05 (extent part) / C10 / C16.

   Transcription, at the granularity "which extent is allocated with which size and which byte
   ranges are written, in which order, and where the call can fail", of
     internal/writer/allocator.go   Allocate / EndOfFile / blocks
     internal/writer/writer.go      NewFileWriter / OpenFileWriter (allocator seed), WriteAt
     dataset_write.go               CreateForWrite (+ createRootGroupStructureV0/V2), CreateDataset,
                                    DatasetWriter.Write/WriteRaw/Resize, OpenForWrite, Close
     dataset_write_chunked.go       createChunkedDataset, writeChunkedData
     group_write.go                 createGroupStructures, CreateGroup, linkToParent
     attribute_write.go             writeAttribute / writeCompactAttribute / upsertAttributeMessage /
                                    transitionToDenseAttributes / writeDenseAttribute / delete*
     internal/core/objectheader_write.go   AddMessageToObjectHeader (255 limit), writeToV2 (255 check
                                    before the write), WriteObjectHeader
     link_write.go                  CreateHardLink (+ reference-count message, roll-back),
                                    CreateSoftLink / CreateExternalLink (link object header)
     internal/writer/densegroup_writer.go  DenseGroupWriter.WriteToFile / createObjectHeader (CreateDenseGroup,
                                    CreateGroupWithLinks with more than 8 links): fractal heap header + 512 KiB direct
                                    block, B-tree v2 leaf + header, object header (Link Info + dataspace)
     global_heap_write.go           WriteToGlobalHeap / createNewHeap / flushCurrentHeap (variable-length data): collection
                                    sizes by the formulas of Model/GHeap.v, flush at roll-over and at Close
   Other public creation paths are instances of the operations below: CreateCompoundDataset and the array / enum / opaque /
   reference / variable-length datatypes = OpMkContig / OpMkChunked with the length of their datatype message;
   CreateGroupWithLinks = OpMkGroup (no link), OpReject (1..8 links), OpMkDense (more than 8); filtered chunks = OpWrite
   with the filtered length of every chunk; the rebalancing calls do not touch the file.
   Not modelled: byte contents (C11, C12), fractal-heap / B-tree v2 internals beyond their extents (C14, C15),
   what the filters compute (C08: the stored length of every chunk is a parameter of the history).

   No proofs in this file. *)
From HV Require Import Base.Prelude.
From HV Require Model.GHeap.

(* ------------------------------------------------------------------ identifiers *)

Definition oid := N.            (* 0 = the root group / file level; object created by history op #i has oid i+1 *)

Inductive kind :=
| KSuper        (* superblock, never allocated (the allocator starts after it) *)
| KRootHdr      (* root group object header: exact size, never rewritten *)
| KRootBtV0     (* superblock v0: the 56 bytes left for the root B-tree node (WriteAt writes btree_size bytes,
                   the symbol node written next overwrites the tail); never rewritten *)
| KHeader       (* object header of a group / dataset *)
| KLinkHdr      (* object header of a soft / external link object *)
| KHeap | KSnod | KBtree                 (* symbol-table group: local heap, symbol node, B-tree v1 *)
| KData                                   (* contiguous raw data *)
| KChunk | KChunkIdx                      (* one chunk; chunk index node (B-tree v1 type 1) *)
| KFHeapHdr | KFHeapBlk | KBt2Leaf | KBt2Hdr   (* dense attribute storage *)
| KSpill                                  (* allocator advanced past a header end (transitionToDenseAttributes) *)
| KLinkHeapBlk                            (* dense group: the 512 KiB direct block of its fractal heap *)
| KGCol (sz : N).                         (* global heap collection created with size sz (owner 0: one writer per file) *)

Definition kind_eqb (a b : kind) : bool :=
  match a, b with
  | KSuper, KSuper | KRootHdr, KRootHdr | KRootBtV0, KRootBtV0 | KHeader, KHeader | KLinkHdr, KLinkHdr | KHeap, KHeap
  | KSnod, KSnod | KBtree, KBtree | KData, KData | KChunk, KChunk | KChunkIdx, KChunkIdx
  | KFHeapHdr, KFHeapHdr | KFHeapBlk, KFHeapBlk | KBt2Leaf, KBt2Leaf | KBt2Hdr, KBt2Hdr
  | KSpill, KSpill | KLinkHeapBlk, KLinkHeapBlk => true
  | KGCol x, KGCol y => x =? y
  | _, _ => false
  end.

Record extent := mkExt { start : N; len : N; owner : oid; kind_of : kind }.
Record alloc := mkAlloc { next : N }.

(* blocks = Allocator.blocks (most recent first); exts = typed ownership view of the same space;
   wlog = byte ranges written since the log was last cleared (most recent first);
   ovf  = ghost flag: some nextOffset computation exceeded 2^64 (Go wraps silently). *)
Record store := mkStore {
  al : alloc; exts : list extent; fsize : N; wlog : list (N * N); blocks : list (N * N); ovf : bool }.

(* ------------------------------------------------------------------ sizes (same formulas as the Go code) *)

Definition max_chunk : N := 255.                     (* 1-byte chunk size field of the v2 header *)
Definition hdr_prefix : N := 4 + 1 + 1 + 1.          (* OHDR, version, flags, chunk size; no checksum is written *)
Definition max_hdr : N := 7 + 255.                   (* maxObjectHeaderV2Size *)
Definition msg := (N * N)%type.                      (* (message type, length of the message data) *)
Definition hdr_chunk (m : list msg) : N := fold_right (fun p acc => 4 + snd p + acc) 0 m.
Definition hdr_size (m : list msg) : N := hdr_prefix + hdr_chunk m.

Definition heap_hdr : N := 32.
Definition heap_data : N := 256.                     (* NewLocalHeap(256) *)
Definition heap_size : N := heap_hdr + heap_data.    (* LocalHeap.Size *)
Definition snod_cap : N := 32.
Definition snod_size : N := 8 + 32 * (2 * 8 + 4 + 4 + 16).
Definition btree_size : N := 24 + (2 * 16 + 1) * 8 + 2 * 16 * 8.
Definition fh_hdr_size : N := 22 + 12 * 8 + 3 * 8 + 4.
Definition fh_blk_size : N := 64 * 1024.
Definition lheap_blk_size : N := 512 * 1024.         (* NewDenseGroupWriter: NewWritableFractalHeap(512 * 1024) *)
Definition linkinfo_len : N := 1 + 1 + 8 + 8.        (* EncodeLinkInfoMessage without creation order *)
Definition max_chunk_entries : N := 65535.           (* structures.MaxChunkBTreeEntries *)
Definition gcol_min : N := 4096.                     (* globalHeapWriter.minCollectionSize = rounding unit of createNewHeap *)
Definition bt2_node : N := 4096.
Definition bt2_hdr_size : N := 4 + 1 + 1 + 4 + 2 + 2 + 1 + 1 + 8 + 2 + 8 + 4.
Definition bt2_maxrec : N := (bt2_node - 10) / 11.   (* calculateMaxRecords *)
Definition leaf_size (n : N) : N := 4 + 1 + 1 + n * 11 + 4.
Definition idx_size (rank n : N) : N := 24 + (n + 1) * (4 + 4 + rank * 8) + n * 8.
Definition max_compact : N := 8.                     (* MaxCompactAttributes *)
Definition attrinfo_len : N := 1 + 1 + 8 + 8.

Definition sb_size (sb : N) : N := if sb =? 0 then 96 else 48.
(* superblock v0: fixed layout written by createRootGroupStructureV0 *)
Definition v0_hdr_addr : N := 96.
Definition v0_hdr_size : N := 16 + 20 + 4.
Definition v0_bt_addr : N := v0_hdr_addr + v0_hdr_size.
Definition v0_bt_size : N := 56.                    (* space left for the B-tree; WriteAt writes btree_size bytes *)
Definition v0_snod_addr : N := v0_bt_addr + v0_bt_size.
Definition v0_heap_addr : N := v0_snod_addr + snod_size.

(* message type numbers *)
Definition M_LINKINFO : N := 2.
Definition M_DATASPACE : N := 1.   Definition M_DATATYPE : N := 3.   Definition M_LINK : N := 6.
Definition M_LAYOUT : N := 8.      Definition M_PIPELINE : N := 11.  Definition M_ATTR : N := 12.
Definition M_SYMTAB : N := 17.     Definition M_ATTRINFO : N := 21.  Definition M_REFCOUNT : N := 22.

(* ------------------------------------------------------------------ configuration (which repairs are in) *)

Record cfg := mkCfg {
  c_reserve_hdr : bool;     (* group / dataset headers allocated at max_hdr (fix 9ee6197); false = exact size *)
  c_reserve_link : bool;    (* link object headers allocated at max_hdr (fix 0d24a11) *)
  c_extend_close : bool;    (* Close extends the file to the allocator's end of file (fix 72cccd1) *)
  c_reserve_v0 : bool;      (* superblock v0 root structures reserved in the allocator (fix 3905a26) *)
  c_precheck : bool;        (* creations / hard links check linkToParent's conditions before allocating or writing
                               (fix e5d916a, link pre-check) *)
  c_attrinfo : bool;        (* transitionToDenseAttributes checks that the attribute info message fits before it
                               allocates the dense storage (fix 8199862) *)
  c_reserve_dense : bool }. (* CreateDenseGroup allocates its object header at max_hdr (fix 18bfe7a); false = exact size *)

(* the configurations the theorems are about: all extent-related repairs in, the two error-path patches
   present or not *)
Definition gcfg (pre ai : bool) := mkCfg true true true true pre ai true.
Definition cfg_fixed := gcfg true true.
Definition cfg_head := gcfg false true.                           (* /repo before e5d916a (link pre-check not yet in) *)
Definition cfg_repo := mkCfg true false true true false false true.     (* before 0d24a11 (link object headers at exact size) *)
Definition cfg_exact_hdr := mkCfg false false true true false false true.   (* before 9ee6197 *)
Definition cfg_no_extend := mkCfg true true false true false false true.
Definition cfg_exact_dense := mkCfg true true true true true true false.  (* /repo before 18bfe7a *)    (* before 72cccd1 *)

(* fixed-size kinds: allocation size = every later rewrite bound *)
Definition sized (c : cfg) (k : kind) : option N :=
  match k with
  | KHeader => if c_reserve_hdr c then Some max_hdr else None
  | KLinkHdr => if c_reserve_link c then Some max_hdr else None
  | KHeap => Some heap_size | KSnod => Some snod_size | KBtree => Some btree_size
  | KFHeapHdr => Some fh_hdr_size | KFHeapBlk => Some fh_blk_size
  | KBt2Leaf => Some bt2_node | KBt2Hdr => Some bt2_hdr_size
  | KLinkHeapBlk => Some lheap_blk_size
  | KGCol sz => Some sz
  | _ => None
  end.

Definition hdr_alloc (c : cfg) (k : kind) (m : list msg) : N :=
  match sized c k with Some n => n | None => hdr_size m end.
(* DenseGroupWriter.createObjectHeader: max(headerSize, 7 + 255) since 18bfe7a, headerSize before *)
Definition dense_hdr_alloc (c : cfg) (m : list msg) : N :=
  if c_reserve_dense c then N.max (hdr_size m) max_hdr else hdr_size m.

(* ------------------------------------------------------------------ allocator and primitive store actions *)

(* Allocator.Allocate: error on 0, address = nextOffset, nextOffset = addr + size (uint64); no alignment *)
Definition allocate (a : alloc) (n : N) : option (N * alloc) :=
  if n =? 0 then None else Some (next a, mkAlloc (wrap64 (next a + n))).

Definition alloc_ext (s : store) (o : oid) (k : kind) (n : N) : option (extent * store) :=
  match allocate (al s) n with
  | None => None
  | Some (a, al') =>
      let e := mkExt a n o k in
      Some (e, mkStore al' (e :: exts s) (fsize s) (wlog s) ((a, n) :: blocks s)
                       (ovf s || (18446744073709551616 <=? a + n)))
  end.

(* FileWriter.WriteAt: nothing for empty data, else the bytes [a, a+n) are touched (the file grows) *)
Definition write (s : store) (a n : N) : store :=
  if n =? 0 then s
  else mkStore (al s) (exts s) (N.max (fsize s) (a + n)) ((a, n) :: wlog s) (blocks s) (ovf s).

Definition clear_log (s : store) : store := mkStore (al s) (exts s) (fsize s) [] (blocks s) (ovf s).

(* most recently allocated extent of (owner, kind): the address a handle / group record holds *)
Fixpoint find_ext (l : list extent) (o : oid) (k : kind) : option extent :=
  match l with
  | [] => None
  | e :: r => if (owner e =? o) && kind_eqb (kind_of e) k then Some e else find_ext r o k
  end.

(* the store commands an API call is made of *)
Inductive cmd :=
| CAlloc (o : oid) (k : kind) (n : N)              (* addr := Allocate(n) *)
| CAllocWrite (o : oid) (k : kind) (n : N)         (* addr := Allocate(len(buf)); WriteAt(buf, addr) *)
| CWrite (o : oid) (k : kind) (off n : N)          (* WriteAt(n bytes, addr(o,k) + off) *)
| CWriteWhole (o : oid) (k : kind)                 (* WriteAt(buf, dataAddress), len(buf) = dataSize = allocated size *)
| CAdvance (o : oid) (k : kind) (hsz : N)          (* if EndOfFile < addr(o,k)+hsz then Allocate(the difference) *)
| CWriteRaw (a n : N)                              (* fixed-offset write (superblock, v0 root structures) *)
| CSplit (o : oid) (parts : list (kind * N)).      (* one Allocate covering consecutive typed structures (v0 reservation) *)

Fixpoint split_exts (o : oid) (a : N) (parts : list (kind * N)) : list extent :=
  match parts with
  | [] => []
  | (k, n) :: r => split_exts o (a + n) r ++ [mkExt a n o k]
  end.
Definition parts_total (parts : list (kind * N)) : N := fold_right (fun p acc => snd p + acc) 0 parts.

(* None = the Go call returned an error at this point (zero-size allocation) or the model has no such extent *)
Definition exec_cmd (s : store) (c : cmd) : option store :=
  match c with
  | CAlloc o k n => match alloc_ext s o k n with Some (_, s') => Some s' | None => None end
  | CAllocWrite o k n =>
      match alloc_ext s o k n with Some (e, s') => Some (write s' (start e) n) | None => None end
  | CWrite o k off n =>
      match find_ext (exts s) o k with Some e => Some (write s (start e + off) n) | None => None end
  | CWriteWhole o k =>
      match find_ext (exts s) o k with Some e => Some (write s (start e) (len e)) | None => None end
  | CAdvance o k hsz =>
      match find_ext (exts s) o k with
      | Some e => if next (al s) <? start e + hsz
                  then match alloc_ext s o KSpill (start e + hsz - next (al s)) with
                       | Some (_, s') => Some s' | None => None end
                  else Some s
      | None => None
      end
  | CWriteRaw a n => Some (write s a n)
  | CSplit o parts =>
      match allocate (al s) (parts_total parts) with
      | None => None
      | Some (a, al') =>
          Some (mkStore al' (split_exts o a parts ++ exts s) (fsize s) (wlog s)
                        ((a, parts_total parts) :: blocks s)
                        (ovf s || (18446744073709551616 <=? a + parts_total parts)))
      end
  end.

Fixpoint exec (s : store) (l : list cmd) : store * bool :=
  match l with
  | [] => (s, true)
  | c :: r => match exec_cmd s c with Some s' => exec s' r | None => (s, false) end
  end.

(* ------------------------------------------------------------------ logical bookkeeping (what the handles know) *)

Inductive okind := OGroup | OContig | OChunked | OLink | ODense.   (* ODense: group made by CreateDenseGroup *)

Record obj := mkObj {
  o_id : oid; o_kind : okind;
  o_msgs : list msg;      (* messages of the object header, in order *)
  o_poff : N;             (* chunked: layoutBTreeOffset - header address *)
  o_rank : N;
  o_nent : N;             (* group: symbol-table entries in use *)
  o_hused : N;            (* group: bytes of the local heap data segment in use *)
  o_nrec : N }.           (* dense attribute storage: records in the name index *)

Record state := mkState {
  st : store; objs : list obj; opidx : N; closed : bool; session : N; sbv : N; conf : cfg;
  sbeof : N;              (* end-of-file address stored in the superblock on disk *)
  gh : option (N * N) }.  (* globalHeapWriter.currentHeap: (size, freeSpace) of the collection being filled *)

Fixpoint get_obj (l : list obj) (x : oid) : option obj :=
  match l with [] => None | ob :: r => if o_id ob =? x then Some ob else get_obj r x end.
Fixpoint set_obj (l : list obj) (nb : obj) : list obj :=
  match l with [] => [] | ob :: r => if o_id ob =? o_id nb then nb :: r else ob :: set_obj r nb end.

Definition with_msgs (ob : obj) (m : list msg) (nrec : N) : obj :=
  mkObj (o_id ob) (o_kind ob) m (o_poff ob) (o_rank ob) (o_nent ob) (o_hused ob) nrec.
Definition with_link (ob : obj) (nl : N) : obj :=
  mkObj (o_id ob) (o_kind ob) (o_msgs ob) (o_poff ob) (o_rank ob) (o_nent ob + 1) (o_hused ob + (nl + 1)) (o_nrec ob).

(* replace the message list of the object currently recorded under x *)
Definition set_msgs (l : list obj) (x : oid) (m : list msg) : list obj :=
  match get_obj l x with Some cur => set_obj l (with_msgs cur m (o_nrec cur)) | None => l end.

Definition hdr_kind (ob : obj) : kind := match o_kind ob with OLink => KLinkHdr | _ => KHeader end.
Definition has_type (t : N) (m : list msg) : bool := existsb (fun p => fst p =? t) m.
Definition count_type (t : N) (m : list msg) : N := N.of_nat (List.length (filter (fun p => fst p =? t) m)).
Definition drop_type (t : N) (m : list msg) : list msg := filter (fun p => negb (fst p =? t)) m.

(* replace / remove the i-th message of type t *)
Fixpoint replace_nth_type (t : N) (i : nat) (l : N) (m : list msg) : list msg :=
  match m with
  | [] => []
  | p :: r => if fst p =? t then match i with O => (t, l) :: r | S i' => p :: replace_nth_type t i' l r end
              else p :: replace_nth_type t i l r
  end.
Fixpoint remove_nth_type (t : N) (i : nat) (m : list msg) : list msg :=
  match m with
  | [] => []
  | p :: r => if fst p =? t then match i with O => r | S i' => p :: remove_nth_type t i' r end
              else p :: remove_nth_type t i r
  end.

(* ------------------------------------------------------------------ operations *)

Inductive op :=
| OpMkGroup (p : oid) (nl : N) (dup : bool)
| OpMkContig (p : oid) (nl : N) (dup : bool) (ldt rank dsize : N)
| OpMkChunked (p : oid) (nl : N) (dup : bool) (ldt rank : N) (hasmax : bool) (lpipe : N)
| OpMkLink (p : oid) (nl : N) (dup : bool) (mlen : N)         (* soft / external link object *)
| OpWrite (x : oid) (chunks : list N)                         (* stored size of every chunk (ignored for contiguous) *)
| OpResize (x : oid)
| OpAttrSet (x : oid) (idx : option nat) (alen : N) (hfit : bool)
      (* idx = position among the attributes when the name exists; alen = attribute message length;
         hfit = the fractal heap accepts the object (its capacity rules belong to C15) *)
| OpAttrDel (x : oid) (idx : option nat)
| OpHardLink (p : oid) (nl : N) (dup : bool) (tgt : oid)
| OpMkDense (p : oid) (nl : N) (dup : bool) (nlinks : N) (fit : bool)
      (* CreateDenseGroup (also CreateGroupWithLinks with more than 8 links): nlinks = number of links;
         fit = every target resolves, no two names share a hash, the link messages fit the heap block (C14 / C15) *)
| OpWriteVL (x : oid) (lens : list N) (chunks : list N)
      (* Write of variable-length data: byte length of every element (each goes to the global heap), then the
         heap IDs are stored like fixed-size data (chunks: stored size of every chunk, ignored for contiguous) *)
| OpReject                                                    (* refused by argument validation: no allocation, no write *)
| OpClose
| OpReopen.

Definition no_obj : oid := 4294967295.      (* a path that does not resolve *)

(* result of compiling one call: commands executed (in order, up to the failure point if any),
   whether the call succeeds, and the bookkeeping update applied on success *)
Definition compiled := (list cmd * bool * (list obj -> list obj))%type.
Definition reject : compiled := ([], false, fun l => l).

(* core.ObjectHeaderWriter.writeToV2: the 255 check comes before the write *)
Definition hdr_write (x : oid) (k : kind) (m : list msg) : option cmd :=
  if max_chunk <? hdr_chunk m then None else Some (CWrite x k 0 (hdr_size m)).

(* FileWriter.linkToParent: parent lookup, read heap + node, duplicate check, AddString, AddEntry, then the
   two in-place writes (heap header + data segment, full symbol node) *)
Definition link_to_parent (s : state) (p : oid) (nl : N) (dup : bool) : compiled :=
  if negb (session s =? 0) then reject            (* after OpenForWrite: rootStNodeAddr = 0, groups = nil *)
  else match get_obj (objs s) p with
  | None => reject
  | Some po =>
      match o_kind po with
      | OGroup =>
          if dup then reject
          else if heap_data <? o_hused po + (nl + 1) then reject           (* local heap is full *)
          else if snod_cap <=? o_nent po then reject                        (* symbol table node is full *)
          else ([CWrite p KHeap 0 heap_hdr; CWrite p KHeap heap_hdr heap_data; CWrite p KSnod 0 snod_size],
                true, fun l => set_obj l (with_link po nl))
      | _ => reject
      end
  end.

(* "parent group %q does not exist (create it first)": checked before anything else by CreateGroup,
   CreateHardLink, CreateSoftLink, CreateExternalLink (not by CreateDataset) *)
Definition parent_known (s : state) (p : oid) : bool :=
  (p =? 0) || ((session s =? 0) && match get_obj (objs s) p with
                                   | Some po => match o_kind po with OGroup => true | _ => false end
                                   | None => false end).

(* checkLinkable: the outcome linkToParent would have, computed without writing *)
Definition link_refused (s : state) (p : oid) (nl : N) (dup : bool) : bool :=
  c_precheck (conf s) && negb (snd (fst (link_to_parent s p nl dup))).

Definition new_obj (x : oid) (k : okind) (m : list msg) (poff rank : N) : obj := mkObj x k m poff rank 0 0 0.

Definition seq_link (pre : list cmd) (lk : compiled) (nb : obj) : compiled :=
  let '(lc, lok, upd) := lk in
  (pre ++ lc, lok, fun l => upd l ++ [nb]).

Definition dense_writes (x : oid) (nrec : N) : list cmd :=
  [CWrite x KFHeapHdr 0 fh_hdr_size; CWrite x KFHeapBlk 0 fh_blk_size;
   CWrite x KBt2Leaf 0 (leaf_size nrec); CWrite x KBt2Hdr 0 bt2_hdr_size].

(* transitionToDenseAttributes *)
Definition transition (c : cfg) (ob : obj) (hfit again : bool) : compiled :=
  let x := o_id ob in
  let k := hdr_kind ob in
  if negb hfit then reject
  else
    let nattr := count_type M_ATTR (o_msgs ob) in
    let rest := drop_type M_ATTR (o_msgs ob) in
    let tmp := rest ++ [(M_ATTRINFO, attrinfo_len)] in
    if c_attrinfo c && (max_hdr <? hdr_size tmp) then reject else
    let pre := [CAdvance x k (hdr_size tmp);
                CAlloc x KFHeapHdr fh_hdr_size; CAlloc x KFHeapBlk fh_blk_size;
                CWrite x KFHeapHdr 0 fh_hdr_size; CWrite x KFHeapBlk 0 fh_blk_size;
                CAlloc x KBt2Leaf bt2_node; CWrite x KBt2Leaf 0 (leaf_size (nattr + 1));
                CAllocWrite x KBt2Hdr bt2_hdr_size] in
    if max_chunk <? hdr_chunk rest + (4 + attrinfo_len) then (pre, false, fun l => l)   (* AddMessageToObjectHeader *)
    else match hdr_write x k tmp with
         | None => (pre, false, fun l => l)
         | Some w => (pre ++ [w] ++ (if again then [w] else []), true,
                      fun l => set_obj l (with_msgs ob tmp (nattr + 1)))
         end.

Definition attr_set (c : cfg) (ob : obj) (idx : option nat) (alen : N) (hfit : bool) : compiled :=
  let x := o_id ob in
  let k := hdr_kind ob in
  let m := o_msgs ob in
  if has_type M_ATTRINFO m then
    (* writeDenseAttribute: everything is prepared in memory, then four in-place writes *)
    match idx with
    | Some _ => if hfit then (dense_writes x (o_nrec ob), true, fun l => l) else reject
    | None => if negb hfit then reject
              else if bt2_maxrec <=? o_nrec ob then reject          (* ErrBTreeNodeFull *)
              else (dense_writes x (o_nrec ob + 1), true, fun l => set_obj l (with_msgs ob m (o_nrec ob + 1)))
    end
  else if count_type M_ATTR m <? max_compact then
    match idx with
    | Some i =>
        let m' := replace_nth_type M_ATTR i alen m in
        (match hdr_write x k m' with             (* size check of upsertAttributeMessage = check of writeToV2 *)
         | None => reject
         | Some w => ([w], true, fun l => set_obj l (with_msgs ob m' 0))
         end)
    | None =>
        if max_chunk <? hdr_chunk m + (4 + alen) then transition c ob hfit true     (* "object header full" *)
        else match hdr_write x k (m ++ [(M_ATTR, alen)]) with
             | None => reject
             | Some w => ([w], true, fun l => set_obj l (with_msgs ob (m ++ [(M_ATTR, alen)]) 0))
             end
    end
  else match idx with
       | Some _ => reject                 (* DenseAttributeWriter.AddAttribute: "already exists" *)
       | None => transition c ob hfit false
       end.

Definition attr_del (ob : obj) (idx : option nat) : compiled :=
  let x := o_id ob in
  let m := o_msgs ob in
  match idx with
  | None => reject                          (* attribute not found *)
  | Some i =>
      if has_type M_ATTRINFO m then
        if o_nrec ob =? 0 then reject
        else (dense_writes x (o_nrec ob - 1), true, fun l => set_obj l (with_msgs ob m (o_nrec ob - 1)))
      else
        let m' := remove_nth_type M_ATTR i m in
        match hdr_write x (hdr_kind ob) m' with
        | None => reject
        | Some w => ([w], true, fun l => set_obj l (with_msgs ob m' 0))
        end
  end.

Fixpoint chunk_cmds (x : oid) (sizes : list N) : list cmd * bool :=
  match sizes with
  | [] => ([], true)
  | n :: r => if n =? 0 then ([], false)            (* Allocate(0) fails; chunks written so far stay *)
              else let '(c, ok) := chunk_cmds x r in (CAllocWrite x KChunk n :: c, ok)
  end.

(* WriteToGlobalHeap for every element in turn.  g = (size, freeSpace) of the current collection.
   A new collection is needed when there is none or the object (16-byte header + data padded to 8) does not fit:
   the current one is flushed (whole buffer of its recorded size, at its address), a new one is allocated
   (GHeap.new_size) and the object is added to it. *)
Fixpoint vl_walk (g : option (N * N)) (lens : list N) : list cmd * option (N * N) :=
  match lens with
  | [] => ([], g)
  | l :: r =>
      let tot := GHeap.obj_total l in
      let roll := match g with None => true | Some (_, free) => free <? tot end in
      if roll then
        let fl := match g with Some (sz, _) => [CWrite 0 (KGCol sz) 0 sz] | None => [] end in
        let nsz := GHeap.new_size gcol_min gcol_min tot in
        let '(c, g') := vl_walk (Some (nsz, nsz - 16 - tot)) r in
        (fl ++ CAlloc 0 (KGCol nsz) nsz :: c, g')
      else vl_walk (match g with Some (sz, free) => Some (sz, free - tot) | None => None end) r
  end.

(* writeChunkedData: every chunk is allocated and written, then the index, then the address patch in the header *)
Definition chunked_write (y : oid) (ob : obj) (sizes : list N) : compiled :=
  if max_chunk_entries <? N.of_nat (List.length sizes) then reject       (* "the chunk index holds at most 65535" *)
  else
  let '(cc, ok) := chunk_cmds y sizes in
  if ok then (cc ++ [CAllocWrite y KChunkIdx (idx_size (o_rank ob) (N.of_nat (List.length sizes)));
                     CWrite y KHeader (o_poff ob) 8], true, fun l => l)
  else (cc, false, fun l => l).

(* DatasetWriter.writeVLen; second component = the heap writer's current collection afterwards *)
Definition vl_compile (s : state) (y : oid) (lens sizes : list N) : compiled * option (N * N) :=
  if closed s then (reject, gh s) else
  match get_obj (objs s) y with
  | None => (reject, gh s)
  | Some ob =>
      let '(hc, g') := vl_walk (gh s) lens in
      match o_kind ob with
      | OContig => ((hc ++ [CWriteWhole y KData], true, fun l => l), g')
      | OChunked =>
          if negb (session s =? 0) then (reject, gh s)               (* dataNotOverwritable on OpenDataset handles *)
          else match sizes with
               | [] => (reject, gh s)
               | _ => let '(cc, ok, upd) := chunked_write y ob sizes in ((hc ++ cc, ok, upd), g')
               end
      | _ => (reject, gh s)
      end
  end.

Definition dense_msgs : list msg := [(M_LINKINFO, linkinfo_len); (M_DATASPACE, 8)].

Definition compile (s : state) (o : op) : compiled :=
  let c := conf s in
  let x := opidx s + 1 in
  if closed s then reject                            (* FileWriter.Allocate / WriteAt / ReadAt: "writer is closed" *)
  else match o with
  | OpReject | OpClose | OpReopen => reject
  | OpMkGroup p nl dup =>
      if negb (parent_known s p) then reject
      else if link_refused s p nl dup then reject
      else
        let m := [(M_SYMTAB, 16)] in
        match hdr_write x KHeader m with
        | None => reject
        | Some w =>
            seq_link [CAlloc x KHeap heap_size; CAlloc x KSnod snod_size; CWrite x KSnod 0 snod_size;
                      CAlloc x KBtree btree_size; CWrite x KBtree 0 btree_size;
                      CWrite x KHeap 0 heap_hdr; CWrite x KHeap heap_hdr heap_data;
                      CAlloc x KHeader (hdr_alloc c KHeader m); w]
                     (link_to_parent s p nl dup) (new_obj x OGroup m 0 0)
        end
  | OpMkContig p nl dup ldt rank dsize =>
      if dsize =? 0 then reject
      else if link_refused s p nl dup then reject
      else
        let m := [(M_DATATYPE, ldt); (M_DATASPACE, 8 + 8 * rank); (M_LAYOUT, 18)] in
        match hdr_write x KHeader m with
        | None => ([CAlloc x KData dsize], false, fun l => l)     (* calculateObjectHeaderSize after the data allocation *)
        | Some w =>
            seq_link [CAlloc x KData dsize; CAlloc x KHeader (hdr_alloc c KHeader m); w]
                     (link_to_parent s p nl dup) (new_obj x OContig m 0 rank)
        end
  | OpMkChunked p nl dup ldt rank hasmax lpipe =>
      let lds := 8 + 8 * rank + (if hasmax then 8 * rank else 0) in
      let m := [(M_DATATYPE, ldt); (M_DATASPACE, lds); (M_LAYOUT, 3 + 8 + 4 * rank)]
               ++ (if lpipe =? 0 then [] else [(M_PIPELINE, lpipe)]) in
      match hdr_write x KHeader m with
      | None => reject                                             (* calculateObjectHeaderSize before any allocation *)
      | Some w =>
          if link_refused s p nl dup then reject else
          seq_link [CAlloc x KHeader (hdr_alloc c KHeader m); w]
                   (link_to_parent s p nl dup)
                   (new_obj x OChunked m (hdr_prefix + (4 + ldt) + (4 + lds) + 4 + 3) rank)
      end
  | OpMkLink p nl dup mlen =>
      if negb (parent_known s p) then reject
      else
        let m := [(M_LINK, mlen)] in
        match hdr_write x KLinkHdr m with
        | None => reject
        | Some w =>
            if link_refused s p nl dup then reject else
            seq_link [CAlloc x KLinkHdr (hdr_alloc c KLinkHdr m); w]
                     (link_to_parent s p nl dup) (new_obj x OLink m 0 0)
        end
  | OpWrite y sizes =>
      match get_obj (objs s) y with
      | None => reject
      | Some ob =>
          match o_kind ob with
          | OContig => ([CWriteWhole y KData], true, fun l => l)
          | OChunked =>
              if negb (session s =? 0) then reject                 (* dataNotOverwritable on OpenDataset handles *)
              else match sizes with
                   | [] => reject
                   | _ => chunked_write y ob sizes
                   end
          | _ => reject
          end
      end
  | OpWriteVL y lens sizes => fst (vl_compile s y lens sizes)
  | OpMkDense p nl dup nlinks fit =>
      (* links are resolved and inserted into the in-memory heap / B-tree first (resolveObjectAddress fails after
         OpenForWrite; "dense group must have at least one link"; ErrBTreeNodeFull above 371 records) *)
      if (nlinks =? 0) || negb (session s =? 0) || negb fit || (bt2_maxrec <? nlinks) then reject
      else
        match hdr_write x KHeader dense_msgs with
        | None => reject
        | Some w =>
            let pre := [CAlloc x KFHeapHdr fh_hdr_size; CAlloc x KLinkHeapBlk lheap_blk_size;
                        CWrite x KFHeapHdr 0 fh_hdr_size; CWrite x KLinkHeapBlk 0 lheap_blk_size;
                        CAlloc x KBt2Leaf bt2_node; CWrite x KBt2Leaf 0 (leaf_size nlinks);
                        CAllocWrite x KBt2Hdr bt2_hdr_size;
                        CAlloc x KHeader (dense_hdr_alloc c dense_msgs); w] in
            (* the parent is looked up only now; there is no link pre-check on this path *)
            if negb (parent_known s p) then (pre, false, fun l => l)
            else seq_link pre (link_to_parent s p nl dup) (new_obj x ODense dense_msgs 0 0)
        end
  | OpResize y =>
      match get_obj (objs s) y with
      | None => reject
      | Some ob =>
          match o_kind ob with
          | OChunked => if negb (session s =? 0) then reject
                        else match hdr_write y KHeader (o_msgs ob) with
                             | None => reject
                             | Some w => ([w], true, fun l => l)
                             end
          | _ => reject
          end
      end
  | OpAttrSet y idx alen hfit =>
      match get_obj (objs s) y with
      | None => reject
      | Some ob => match o_kind ob with OLink => reject | _ => attr_set c ob idx alen hfit end
      end
  | OpAttrDel y idx =>
      match get_obj (objs s) y with
      | None => reject
      | Some ob => match o_kind ob with OLink => reject | _ => attr_del ob idx end
      end
  | OpHardLink p nl dup tgt =>
      if negb (parent_known s p) then reject
      else if negb (session s =? 0) then reject                    (* resolveObjectAddress fails after OpenForWrite *)
      else match get_obj (objs s) tgt with
      | None => reject
      | Some tb =>
          if link_refused s p nl dup then reject else
          let k := hdr_kind tb in
          let m := o_msgs tb in
          let m' := if has_type M_REFCOUNT m then Some m
                    else if max_chunk <? hdr_chunk m + (4 + 4) then None      (* AddMessageToObjectHeader *)
                    else Some (m ++ [(M_REFCOUNT, 4)]) in
          match m' with
          | None => reject
          | Some m' =>
              match hdr_write tgt k m' with
              | None => reject
              | Some w =>
                  let '(lc, lok, upd) := link_to_parent s p nl dup in
                  (* the reference-count message stays in the target header when the link fails:
                     the roll-back rewrites the header with the message still present *)
                  (* (the target may be the parent group itself: both updates apply to the current record) *)
                  if lok then ([w] ++ lc, true, fun l => set_msgs (upd l) tgt m')
                  else ([w; w], false, fun l => set_msgs l tgt m')
              end
          end
      end
  end.

(* globalHeapWriter.Flush: the current collection (if any) is written as a whole buffer of its recorded size *)
Definition gflush (g : option (N * N)) (s : store) : store :=
  match g with
  | Some (sz, _) => match find_ext (exts s) 0 (KGCol sz) with Some e => write s (start e) sz | None => s end
  | None => s
  end.

(* FileWriter.Close: global heap flush, update the superblock's
   end-of-file field, extend the file to the allocator's end of file, close.  A second Close does nothing. *)
Definition close_store (c : cfg) (s : store) : store :=
  if c_extend_close c
  then mkStore (al s) (exts s) (N.max (fsize s) (next (al s))) (wlog s) (blocks s) (ovf s)
  else s.

(* OpenForWrite -> writer.OpenFileWriter: a new allocator seeded at max(file size, superblock size) *)
Definition reopen_store (sb : N) (s : store) : store :=
  mkStore (mkAlloc (N.max (fsize s) (sb_size sb))) (exts s) (fsize s) (wlog s) [] (ovf s).

(* Superblock.UpdateEndOfFile (fix 34f7371): when the stored end-of-file address is below the allocator's,
   the first 48 bytes of the file are rewritten in place (field + checksum) *)
Definition sb_update_len : N := 48.

Definition do_close (s : state) : state :=
  if closed s then s
  else
    let st0 := gflush (gh s) (st s) in
    let st1 := if sbeof s <? next (al (st s)) then write st0 0 sb_update_len else st0 in
    mkState (close_store (conf s) st1) (objs s) (opidx s) true (session s) (sbv s) (conf s)
            (N.max (sbeof s) (next (al (st s)))) (gh s).

(* a failing call keeps its store effects; the bookkeeping of a failed call is that of the
   hard-link roll-back only (see compile) *)
Definition step (s : state) (o : op) : state * bool :=
  let s0 := mkState (clear_log (st s)) (objs s) (opidx s) (closed s) (session s) (sbv s) (conf s) (sbeof s) (gh s) in
  match o with
  | OpClose =>
      let s1 := do_close s0 in
      (mkState (st s1) (objs s1) (opidx s + 1) (closed s1) (session s1) (sbv s1) (conf s1) (sbeof s1) (gh s1), true)
  | OpReopen =>
      (* the harness (and any sane caller) closes the previous writer first *)
      let s1 := do_close s0 in
      (* OpenForWrite: a new global heap writer without a current collection *)
      (mkState (reopen_store (sbv s) (st s1)) (objs s1) (opidx s + 1) false (session s + 1) (sbv s) (conf s) (sbeof s1) None, true)
  | _ =>
      let '(cmds, ok, upd) := compile s0 o in
      let '(st', done) := exec (st s0) cmds in
      let applies := match o with OpHardLink _ _ _ _ => done | _ => ok && done end in
      let g' := match o with OpWriteVL y lens sizes => snd (vl_compile s0 y lens sizes) | _ => gh s end in
      (mkState st' (if applies then upd (objs s) else objs s) (opidx s + 1) (closed s) (session s) (sbv s) (conf s) (sbeof s) g',
       ok && done)
  end.

Definition run (s : state) (h : list op) : state := fold_left (fun s o => fst (step s o)) h s.

(* ------------------------------------------------------------------ CreateForWrite *)

Definition empty_store (sb : N) : store := mkStore (mkAlloc (sb_size sb)) [] 0 [] [] false.

Definition init_cmds (c : cfg) (sb : N) : list cmd :=
  if sb =? 0 then
    (* createRootGroupStructureV0: fixed offsets, written before anything is allocated *)
    [CWriteRaw v0_hdr_addr v0_hdr_size; CWriteRaw v0_bt_addr btree_size; CWriteRaw v0_snod_addr snod_size;
     CWriteRaw v0_heap_addr heap_hdr; CWriteRaw (v0_heap_addr + heap_hdr) heap_data]
    ++ (if c_reserve_v0 c
        then [CSplit 0 [(KRootHdr, v0_hdr_size); (KRootBtV0, v0_bt_size); (KSnod, snod_size); (KHeap, heap_size)]]
        else [])
    ++ [CWriteRaw 0 (sb_size sb)]
  else
    (* createRootGroupStructureV2 *)
    [CAlloc 0 KHeap heap_size; CAllocWrite 0 KSnod snod_size; CAllocWrite 0 KBtree btree_size;
     CWrite 0 KHeap 0 heap_hdr; CWrite 0 KHeap heap_hdr heap_data;
     CAllocWrite 0 KRootHdr (hdr_size [(M_SYMTAB, 16)]);
     CWriteRaw 0 (sb_size sb)].

Definition root_obj : obj := mkObj 0 OGroup [(M_SYMTAB, 16)] 0 0 0 0 0.

Definition init (c : cfg) (sb : N) : state :=
  let s0 := empty_store sb in
  let s1 := mkStore (al s0) [mkExt 0 (sb_size sb) 0 KSuper] 0 [] [] false in
  let st1 := fst (exec s1 (init_cmds c sb)) in
  (* CreateForWrite: v0 records heap address + heap data size, v2/v3 the allocator's end of file *)
  mkState st1 [root_obj] 0 false 0 sb c (if sb =? 0 then v0_heap_addr + heap_data else next (al st1)) None.

(* ------------------------------------------------------------------ what an operation may touch *)

Definition is_heap_snod (k : kind) : bool := match k with KHeap | KSnod => true | _ => false end.
Definition is_hdr (k : kind) : bool := match k with KHeader | KLinkHdr => true | _ => false end.
Definition is_gcol (k : kind) : bool := match k with KGCol _ => true | _ => false end.

(* extents (owner, kind) an operation issued in state s may write to, besides the ones it allocates *)
Definition targets (s : state) (o : op) (w : oid) (k : kind) : bool :=
  let x := opidx s + 1 in
  match o with
  | OpMkGroup p _ _ | OpMkContig p _ _ _ _ _ | OpMkChunked p _ _ _ _ _ _ | OpMkLink p _ _ _ | OpMkDense p _ _ _ _ =>
      (w =? x) || ((w =? p) && is_heap_snod k)
  (* a variable-length write may flush the file's current global heap collection, whoever filled it *)
  | OpWriteVL y _ _ => (w =? y) || ((w =? 0) && is_gcol k)
  | OpWrite y _ | OpResize y | OpAttrSet y _ _ _ | OpAttrDel y _ => (w =? y)
  | OpHardLink p _ _ t => ((w =? t) && is_hdr k) || ((w =? p) && is_heap_snod k)
  | OpClose | OpReopen => (w =? 0) && (kind_eqb k KSuper || is_gcol k)   (* Close may update the superblock, flushes the heap *)
  | OpReject => false
  end.

(* ------------------------------------------------------------------ executable predicates (tie, witnesses) *)

Definition ext_end (e : extent) : N := start e + len e.
Definition disj (e1 e2 : extent) : bool := (ext_end e1 <=? start e2) || (ext_end e2 <=? start e1).
Fixpoint no_overlap_b (l : list extent) : bool :=
  match l with [] => true | e :: r => forallb (disj e) r && no_overlap_b r end.
Definition inside (w : N * N) (e : extent) : bool := (start e <=? fst w) && (fst w + snd w <=? ext_end e).
Definition misses (w : N * N) (e : extent) : bool := (fst w + snd w <=? start e) || (ext_end e <=? fst w).

Definition store_ok_b (s : store) : bool :=
  no_overlap_b (exts s) && forallb (fun e => ext_end e <=? next (al s)) (exts s).

(* the frame check of one step: every write misses every pre-existing extent outside the targets *)
Definition frame_b (s : state) (o : op) : bool :=
  let s' := fst (step s o) in
  forallb (fun w => forallb (fun e => targets s o (owner e) (kind_of e) || misses w e) (exts (st s))) (wlog (st s')).

(* trace for the unit-level tie: per step  ok, allocator end, file size, blocks allocated, bytes written *)
Definition flat (l : list (N * N)) : list N := flat_map (fun p => [fst p; snd p]) l.
Definition step_trace (s s' : state) (ok : bool) : list N :=
  let old := if session s' =? session s then List.length (blocks (st s)) else O in
  let nb := Nat.sub (List.length (blocks (st s'))) old in
  let newb := rev (firstn nb (blocks (st s'))) in
  let wr := rev (wlog (st s')) in
  [if ok then 1 else 0; next (al (st s')); fsize (st s'); N.of_nat (List.length newb)] ++ flat newb
  ++ [N.of_nat (List.length wr)] ++ flat wr.
Fixpoint trace (s : state) (h : list op) : list N :=
  match h with
  | [] => []
  | o :: r => let '(s', ok) := step s o in step_trace s s' ok ++ trace s' r
  end.
Definition init_trace (c : cfg) (sb : N) : list N :=
  let s := init c sb in
  let b := rev (blocks (st s)) in let wr := rev (wlog (st s)) in
  [1; next (al (st s)); fsize (st s); N.of_nat (List.length b)] ++ flat b ++ [N.of_nat (List.length wr)] ++ flat wr.
