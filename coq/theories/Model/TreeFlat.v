(* C03 end to end, depth 1: the vocabulary of the theorem C03_file_tree_depth1_partial (Props/C03File.v).
   A history is FLAT when every call either leaves the writer's state exactly as it was (any refused call: duplicate, missing
   parent, missing target, capacity, malformed path ...) or is a CreateGroup / CreateDataset whose parent is the root group, with
   arguments the model covers and a file that stays below 2^62 bytes.  flat_nodes lists what such a history builds: one child per
   SUCCESSFUL call, in call order, named by the link name the call parses, of the call's kind, at the address the allocator
   gave its object header.  No proofs here. *)
From HV Require Import Base.Prelude Base.Outcome Base.Bytes Model.IOProgOpen Model.TreeImage.
From HV Require Model.GroupNS.

Definition FLAT_LIM : N := 4611686018427387904.

Definition op_parent_name (o : top) : bytes * bytes :=
  match o with
  | TGroup p => NS.parse_path (NS.trim_suffix_slash p)
  | TDataset p _ _ _ => NS.parse_path p
  | THardLink p _ => NS.parse_path p
  end.
Definition op_extent (o : top) : N := match o with TDataset _ _ _ data => blen data + 3000 | _ => 3000 end.
Definition is_creation (o : top) : bool := match o with THardLink _ _ => false | _ => true end.

Definition flat_step (st : tstate) (o : top) : Prop :=
  t_step st o = (st, false) \/
  (is_creation o = true /\ NS.is_root_parent (fst (op_parent_name o)) = true /\ op_args_ok o = true /\
   blen (t_file st) + op_extent o < FLAT_LIM).
Fixpoint flat_hist (st : tstate) (h : list top) : Prop :=
  match h with [] => True | o :: r => flat_step st o /\ flat_hist (fst (t_step st o)) r end.

Definition flat_child (st : tstate) (o : top) : node :=
  match o with
  | TGroup _ => Grp (snd (op_parent_name o)) (blen (t_file st) + 2120) []
  | TDataset _ _ _ data => Dset (snd (op_parent_name o)) (blen (t_file st) + blen data)
  | THardLink _ _ => Dset (snd (op_parent_name o)) 0
  end.
Fixpoint flat_nodes (st : tstate) (h : list top) : list node :=
  match h with
  | [] => []
  | o :: r => (if snd (t_step st o) then [flat_child st o] else []) ++ flat_nodes (fst (t_step st o)) r
  end.

(* ------------------------------------------------------------------ the full statement, for the record (NOT proved) *)
(* the tree of the abstract specification (Model/GroupNS.v spec_tree) as hdf5.Open reports it: children in insertion order, an
   object's identity (the index of the call that created it) mapped to the address of its object header *)
Fixpoint node_of_tree (addr : N -> N) (nm : bytes) (t : NS.tree) {struct t} : node :=
  match t with
  | NS.TNode id NS.KGroup ch => Grp nm (addr id) (map (fun nc => node_of_tree addr (fst nc) (snd nc)) ch)
  | NS.TNode id _ _ => Dset nm (addr id)
  end.
(* for ALL admissible histories (Props/C03.v: paths in the specification's syntax, hard-link targets are datasets, nesting below
   the reader's limit) with dataset arguments the model covers: the calls answer as the specification does and hdf5.Open on
   the image returns the specification's tree, for some assignment of header addresses to the creating calls *)
Definition C03_file_tree_full : Prop :=
  forall (h : list top) (fuel hfuel : nat),
    forallb op_args_ok h = true ->
    NS.adm NS.go_cfg NS.s_empty (map ns_op h) = true ->
    blen (tree_image h) < FLAT_LIM -> (3 * length h + 5 <= fuel)%nat -> (4 < hfuel)%nat ->
    tree_oks h = map NS.is_ok (snd (NS.run (NS.spec_step NS.go_cfg) NS.s_empty (map ns_op h))) /\
    exists addr tr,
      NS.spec_tree (fst (NS.run (NS.spec_step NS.go_cfg) NS.s_empty (map ns_op h))) = Some tr /\
      IOProg.run0 (tree_image h) (p_open true (blen (tree_image h)) fuel hfuel) = Ok (node_of_tree addr [47] tr).

(* ------------------------------------------------------------------ the syntactic class of C03_file_tree_depth1 *)
(* every call is a CreateGroup / CreateDataset whose path is "/" name in the specification's syntax (one component: non-empty, no
   NUL, no '/'), with dataset arguments the model covers.  Such calls may well be REFUSED (duplicate name, heap full, node
   full): the theorem says the library's model and the specification refuse the same ones. *)
Definition one_component (p : bytes) : bool := match NS.split_path p with Some [_] => true | _ => false end.
Definition d1_op (o : top) : bool :=
  match o with
  | TGroup p => one_component p
  | TDataset p _ _ _ => one_component p && op_args_ok o
  | THardLink _ _ => false
  end.
(* the file stays below 2^62 bytes at every call *)
Fixpoint bounded (st : tstate) (h : list top) : Prop :=
  match h with [] => True | o :: r => blen (t_file st) + op_extent o < FLAT_LIM /\ bounded (fst (t_step st o)) r end.
