(* C07, symbol-table group walk: byte-level models with CHECKED slicing (out of range = Panic) and allocation logs of
     internal/structures/btree_group.go      ReadGroupBTreeEntries, readAddress
     internal/structures/symboltable_node.go ParseSymbolTableNode, readAddressFromBytes
     internal/utils/bufferpool.go            GetBuffer
   (local heap: Model/RobustAlloc.v local_heap_load / heap_get_string).  Little-endian files (sb.Endianness = LE).
   A reader call `r.ReadAt(buf, int64(off))` whose error is returned is [read_at]: an error unless all len(buf) bytes exist.
   Loops are counted loops over 16-bit counts: structural recursion on the count, no fuel needed.
   ReadGroupBTreeEntries is modelled in two variants selected by [capped]:
     capped = false   the code before notes/fixes/c07-group-node-entry-budget.patch: every child pointer of the node is
                      followed, the entries of all symbol table nodes are concatenated (children may repeat / overlap);
     capped = true    the repaired code: the entries collected so far must fit into the bytes up to the highest end of a
                      symbol table node read so far (nodes of one group never overlap), otherwise an error.
   No proofs here (Proofs/RobustGroup.v). *)
From HV Require Import Base.Prelude Base.Outcome Base.Bytes Model.RobustAlloc.

(* r.ReadAt(buf, int64(off)), len(buf) = n >= 1, `if err != nil { return err }`: negative offset, short read => error *)
Definition read_at (file : bytes) (off n : N) : outcome bytes :=
  if (MaxInt64 <? off) || (blen file <? off + n) then Err else slice file off (off + n).

(* utils.GetBuffer(n): a pooled buffer of capacity 4096 (pool.New) or make([]byte, n, 2n) *)
Definition get_buffer (n : N) : N := if n <=? 4096 then 4096 else 2 * n.

(* readAddress / readAddressFromBytes(data, size, LittleEndian) *)
Definition read_address (data : bytes) (size : N) : outcome N :=
  let size := if blen data <? size then blen data else size in
  if size =? 1 then index data 0
  else if (size =? 2) || (size =? 4) || (size =? 8) then rd_le data 0 size
  else s <- slice data 0 size;; Ok (unle (firstn 8 s)).          (* copy(buf[:8], data[:size]); LE.Uint64(buf) *)

Definition sigTREE : bytes := [84; 82; 69; 69].
Definition sigSNOD : bytes := [83; 78; 79; 68].

(* the loop collecting child (SNOD) addresses: pos += O (skip key); childAddr := readAddress(data[pos:], O); pos += O *)
Fixpoint gnode_children (n : nat) (data : bytes) (pos O : N) : outcome (list N) :=
  match n with
  | O => Ok []
  | S n' =>
      d <- slice_from data (pos + O);;
      a <- read_address d O;;
      rest <- gnode_children n' data (pos + O + O) O;;
      Ok (if (a =? 0) || (a =? MaxUint64) then rest else a :: rest)
  end.

(* ReadGroupBTreeEntries up to the list of SNOD addresses.  Log: GetBuffer(header), GetBuffer(dataSize + O),
   snodAddresses (append growth: capacity <= 2 x length, 8 bytes each) *)
Definition gnode_read (file : bytes) (addr O : N) : outcome (list N) * alog :=
  let hs := 8 + 2 * O in
  let log0 := [get_buffer hs] in
  match read_at file addr hs with
  | Ok h =>
      if negb (bytes_eqb (firstn 4 h) sigTREE) then (Err, log0)
      else match index h 4, index h 5, rd_le h 6 2 with
           | Ok ty, Ok lv, Ok used =>
               if negb (ty =? 0) then (Err, log0)
               else if negb (lv =? 0) then (Err, log0)          (* non-leaf nodes are refused: no descent *)
               else if used =? 0 then (Ok [], log0)
               else
                 let dataSize := used * 2 * O in
                 let log1 := log0 ++ [get_buffer (dataSize + O)] in
                 (* int64(address) + int64(headerSize): no wrap, the header read bounded address by the file length *)
                 match read_at file (addr + hs) (dataSize + O) with
                 | Ok data =>
                     match gnode_children (N.to_nat used) data 0 O with
                     | Ok kids => (Ok kids, log1 ++ [16 * N.of_nat (length kids)])
                     | Err => (Err, log1)
                     | Panic => (Panic, log1)
                     end
                 | Err => (Err, log1)
                 | Panic => (Panic, log1)
                 end
           | Panic, _, _ | _, Panic, _ | _, _, Panic => (Panic, log0)
           | _, _, _ => (Err, log0)
           end
  | Err => (Err, log0)
  | Panic => (Panic, log0)
  end.

(* ---- ParseSymbolTableNode ---- *)
Record sentry := mk_sentry { se_name : N; se_obj : N; se_cache : N; se_bt : N; se_heap : N }.

Fixpoint snod_entries (n : nat) (data : bytes) (offset O : N) : outcome (list sentry) :=
  match n with
  | O => Ok []
  | S n' =>
      let es := 2 * O + 24 in
      if blen data <? offset + es then Err                       (* "SNOD data truncated at entry i" *)
      else
        d0 <- slice_from data offset;;
        name <- read_address d0 O;;
        d1 <- slice_from data (offset + O);;
        obj <- read_address d1 O;;
        ct <- rd_le data (offset + 2 * O) 4;;
        _ <- rd_le data (offset + 2 * O + 4) 4;;
        ' (bt, hp) <- (if ct =? 1 then
                         d2 <- slice_from data (offset + 2 * O + 8);;
                         bt <- read_address d2 O;;
                         d3 <- slice_from data (offset + 2 * O + 8 + O);;
                         hp <- read_address d3 O;;
                         Ok (bt, hp)
                       else Ok (0, 0));;
        rest <- snod_entries n' data (offset + es) O;;
        Ok (mk_sentry name obj ct bt hp :: rest)
  end.

(* sizeof(SymbolTableEntry) = sizeof(BTreeEntry) = 48.  Log: GetBuffer(8), make([]SymbolTableEntry, 0, max(32, numSymbols))
   BEFORE the entries are read, GetBuffer(numSymbols * entrySize) *)
Definition snod_parse (file : bytes) (addr O : N) : outcome (list sentry) * alog :=
  let log0 := [get_buffer 8] in
  match read_at file addr 8 with
  | Ok h =>
      if negb (bytes_eqb (firstn 4 h) sigSNOD) then (Err, log0)
      else match index h 4, rd_le h 6 2 with
           | Ok ver, Ok nsym =>
               if negb (ver =? 1) then (Err, log0)
               else
                 let cap := if 32 <? nsym then nsym else 32 in
                 let log1 := log0 ++ [48 * cap] in
                 if nsym =? 0 then (Ok [], log1)
                 else
                   let dataSize := nsym * (2 * O + 24) in
                   let log2 := log1 ++ [get_buffer dataSize] in
                   match read_at file (addr + 8) dataSize with
                   | Ok data => (snod_entries (N.to_nat nsym) data 0 O, log2)
                   | Err => (Err, log2)
                   | Panic => (Panic, log2)
                   end
           | Panic, _ | _, Panic => (Panic, log0)
           | _, _ => (Err, log0)
           end
  | Err => (Err, log0)
  | Panic => (Panic, log0)
  end.

(* ---- the loop `for _, snodAddr := range snodAddresses` of ReadGroupBTreeEntries: total = len(allEntries).
   After each node the log records the capacity bound of allEntries (append growth: <= 2 x 48 bytes x length). *)
Fixpoint gwalk (capped : bool) (file : bytes) (O : N) (kids : list N) (total spanEnd : N) : outcome N * alog :=
  match kids with
  | [] => (Ok total, [])
  | a :: r =>
      match snod_parse file a O with
      | (Ok es, l) =>
          let m := N.of_nat (length es) in
          let es_size := 2 * O + 24 in
          let spanEnd' := N.max spanEnd (wrap64 (a + 8 + m * es_size)) in
          if capped && (spanEnd' <? (total + m) * es_size) then (Err, l)
          else let '(res, l2) := gwalk capped file O r (total + m) spanEnd' in (res, l ++ [96 * (total + m)] ++ l2)
      | (Err, l) => (Err, l)
      | (Panic, l) => (Panic, l)
      end
  end.

Definition group_btree_entries (capped : bool) (file : bytes) (addr O : N) : outcome N * alog :=
  match gnode_read file addr O with
  | (Ok kids, l) => let '(r, l2) := gwalk capped file O kids 0 0 in (r, l ++ l2)
  | (Err, l) => (Err, l)
  | (Panic, l) => (Panic, l)
  end.

(* ---- what the tie compares ---- *)
Definition sentry_val (e : sentry) : val := vlistN [se_name e; se_obj e; se_cache e; se_bt e; se_heap e].
Definition snod_val (r : outcome (list sentry) * alog) : val :=
  oval (fun l => vlistN (flat_map (fun e => [se_name e; se_obj e; se_cache e; se_bt e; se_heap e]) l)) (fst r).
Definition gnode_val (r : outcome (list N) * alog) : val := oval vlistN (fst r).
Definition gwalk_val (r : outcome N * alog) : val := oval (fun n => vlistN [n]) (fst r).
