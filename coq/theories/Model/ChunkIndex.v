(* C01: the chunk INDEX between the chunk writer and the chunk reader - byte-level model of the version 1
   B-tree (node type 1) that maps chunk offsets to (address, stored size, filter mask).

   Writer:  internal/structures/btree_chunk.go   ChunkBTreeWriter.AddChunkWithSize, WriteToFile,
            serializeChunkBTreeNode, compareChunkCoords;
            dataset_write_chunked.go writeChunkedData (allocate + write every chunk, add it to the index, write the
            index, all through the end-of-file allocator internal/writer/allocator.go Allocate).
   Reader:  internal/core/btree_v1.go  ParseBTreeV1Node, readAddress, CollectAllChunks/collectAllChunks;
            internal/utils/saferead.go ReadBytesAt; internal/core/dataset_reader.go readChunkedData
            (index -> chunk bytes -> copyChunkToArray, Model/Chunk.v);
            dataset_read_hyperslab.go (chunkIndex map built from CollectAllChunks, looked up per chunk coordinate).

   What the writer emits (transcribed as it is):
   * ONE leaf node for every number of chunks (no split, no internal nodes): signature "TREE", node type 1, level 0,
     entries used = uint16(len(entries)) (more than 65535 entries are refused since /repo 18c9d53; before that commit
     the count was stored modulo 65536 - the switch `rep` below), both sibling addresses
     0xFFFFFFFFFFFFFFFF, then key_0 child_0 ... key_{n-1} child_{n-1} key_n.  The node is allocated at its used size
     (24 + (n+1)*keySize + n*8 bytes), not at the capacity 2K the format asks for (KNOWN_FINDINGS
     C05-btree1-node-truncated / C05-btree1-node-over-capacity; neither matters to the reader below).
   * key = chunk size in bytes (4, little endian) + filter mask (4, ALWAYS 0) + one 8-byte offset per dataset
     dimension.  The extra element-size dimension of the HDF5 format is NOT emitted: dimensionality = len(dims), and
     the layout message carries the same number of chunk extents, so the reader's ndims agrees.
   * the final key has all offsets 0xFFFFFFFFFFFFFFFF, size 0, mask 0.
   * entries are sorted with sort.Slice by compareChunkCoords (lexicographic on the offsets, dimension 0 first).
     sort.Slice is not stable; for entry lists whose coordinates are pairwise different every sorting algorithm
     returns the same list, and those are the only lists the dataset writer builds (different grid chunks have
     different offsets: Proofs/ChunkIndex.v grid_keys_injective).  The model sorts by insertion.

   The in-memory file is `bytes`; write_at = os.File.WriteAt (zero fill when writing beyond the end), read_at =
   io.ReaderAt.ReadAt of exactly n bytes (short read = error).  int64(address) conversions: an address above
   MaxInt64 is a negative offset, which ReadAt rejects.

   The switch `rep : bool` (first argument of every function that depends on it): true = the code since /repo commit
   18c9d53 "fix: keep the chunk B-tree entry count within its 16-bit field" (ParseBTreeV1Node sizes Keys with
   int(EntriesUsed)+1; WriteToFile refuses more than MaxChunkBTreeEntries = 65535 entries; writeChunkedData checks the
   chunk count before the first chunk is written), false = the code before it (Keys sized with EntriesUsed+1 in uint16,
   count stored modulo 65536, no check).  tools/props/c01unit.py reads the switch from the source tree under test;
   the theorems of Props/C01.v are about rep = true (index_repaired), the _refuted ones about rep = false.

   Node invariant of ParseBTreeV1Node: len(Children) = EntriesUsed and len(Keys) = EntriesUsed + 1 (or both empty
   when EntriesUsed = 0; with rep = false EntriesUsed = 65535 never yields a node, see parse_entries).  The loops `for i := 0; i < int(node.EntriesUsed); i++ { node.Keys[i] .. node.Children[i] }`
   of collectAllChunks are therefore structural over the children list here.
   int arithmetic on sizes (keySize, dataSize <= 65535 * (8 + 8*255 + 255) + ..) cannot overflow 64 bits and is left
   unwrapped; uint64 address arithmetic is wrapped.
   No proofs in this file. *)
From HV Require Import Base.Prelude Model.Chunk Base.Outcome Base.Bytes Model.RobustTerm.

Definition U64MAX : N := 18446744073709551615.
Definition MAXINT64 : N := 9223372036854775807.
Definition MAX_CHUNK : N := 1073741824.            (* utils.MaxChunkSize *)
Definition SIG_TREE : bytes := [84; 82; 69; 69].
Definition MAX_ENTRIES : N := 65535.               (* structures.MaxChunkBTreeEntries (since 18c9d53) *)
(* the tree under test is the repaired one (checked against the source by tools/props/c01unit.py source_switch) *)
Definition index_repaired : bool := true.

(* ---------------------------------------------------------------------------------------------- *)
(* The file                                                                                       *)
(* ---------------------------------------------------------------------------------------------- *)

(* os.File.WriteAt(buf, a): bytes between the old end and a read as zero *)
Definition write_at (f : bytes) (a : N) (buf : bytes) : bytes :=
  match buf with
  | [] => f
  | _ => let g := f ++ zeros (N.to_nat (a + blen buf - blen f)) in
         firstn (N.to_nat a) g ++ buf ++ skipn (N.to_nat (a + blen buf)) g
  end.

(* r.ReadAt(make([]byte, n), int64(off)) with err == nil *)
Definition read_at (f : bytes) (off n : N) : option bytes :=
  if (off <=? MAXINT64) && (off + n <=? blen f)
  then Some (firstn (N.to_nat n) (skipn (N.to_nat off) f)) else None.

(* utils.ReadBytesAt: size 0 -> empty; end overflow / above MaxInt64 -> error; probe of the last byte; read *)
Definition read_bytes_at (f : bytes) (off size : N) : option bytes :=
  if size =? 0 then Some []
  else
    let e := wrap64 (off + size) in
    if (e <? off) || (MAXINT64 <? e) then None
    else match read_at f (e - 1) 1 with
         | None => None
         | Some _ => read_at f off size
         end.

(* internal/writer/allocator.go Allocate: at the current end of file; size 0 is an error *)
Definition alloc (eof size : N) : option (N * N) :=
  if size =? 0 then None else Some (eof, wrap64 (eof + size)).

(* ---------------------------------------------------------------------------------------------- *)
(* Writer: ChunkBTreeWriter                                                                       *)
(* ---------------------------------------------------------------------------------------------- *)

(* ChunkBTreeEntry: Coordinate (element offsets of the chunk's first element), Address, Nbytes *)
Definition wentry := (list N * N * N)%type.
Definition w_coord (e : wentry) : list N := fst (fst e).
Definition w_addr (e : wentry) : N := snd (fst e).
Definition w_nbytes (e : wentry) : N := snd e.

(* compareChunkCoords a b < 0 *)
Fixpoint coords_lt (a b : list N) : bool :=
  match a, b with
  | x :: a', y :: b' => if x <? y then true else if y <? x then false else coords_lt a' b'
  | _, _ => false
  end.

(* sort.Slice(entries, less = coords_lt) - see the header *)
Fixpoint insert_entry (e : wentry) (l : list wentry) : list wentry :=
  match l with
  | [] => [e]
  | x :: r => if coords_lt (w_coord e) (w_coord x) then e :: x :: r else x :: insert_entry e r
  end.
Definition sort_entries (es : list wentry) : list wentry := fold_right insert_entry [] es.

(* one key: nbytes, filter mask, offsets *)
Definition enc_key (nbytes mask : N) (coords : list N) : bytes :=
  le 4 nbytes ++ le 4 mask ++ flat_map (le 8) coords.
(* key i followed by child i *)
Definition enc_entry (e : wentry) : bytes := enc_key (w_nbytes e) 0 (w_coord e) ++ le 8 (w_addr e).

(* serializeChunkBTreeNode of the node WriteToFile builds from the sorted entries *)
Definition node_header (n : N) : bytes :=
  SIG_TREE ++ [1] ++ [0] ++ le 2 (wrap16 n) ++ le 8 U64MAX ++ le 8 U64MAX.
Definition serialize_leaf (dim : nat) (es : list wentry) : bytes :=
  node_header (N.of_nat (length es)) ++ flat_map enc_entry es ++ enc_key 0 0 (repeat U64MAX dim).

(* A writer call is modelled with the state it leaves behind: (file, end of file of the allocator, result).  A refused
   call returns the state it was given exactly when the Go code has neither allocated nor written before returning
   the error. *)
Definition wstate (A : Type) : Type := (bytes * N * outcome A)%type.
Definition st_result {A} (s : wstate A) : outcome (bytes * N * A) :=
  let '(f, eof, r) := s in
  match r with Ok a => Ok (f, eof, a) | Err => Err | Panic => Panic end.

(* AddChunkWithSize for every entry (dimensionality check), then WriteToFile with the allocator's end of file:
   empty list refused; rep: more than MaxChunkBTreeEntries refused; sort, serialize, Allocate, WriteAtAddress.
   Result = root address.  Every error return precedes Allocate. *)
Definition write_index_st (rep : bool) (dim : nat) (es : list wentry) (f : bytes) (eof : N) : wstate N :=
  if negb (forallb (fun e => Nat.eqb (length (w_coord e)) dim) es) then (f, eof, Err)
  else match es with
       | [] => (f, eof, Err)
       | _ =>
           if rep && (MAX_ENTRIES <? N.of_nat (length es)) then (f, eof, Err)
           else
           let buf := serialize_leaf dim (sort_entries es) in
           match alloc eof (blen buf) with
           | None => (f, eof, Err)
           | Some (addr, eof') => (write_at f addr buf, eof', Ok addr)
           end
       end.
(* (file, new end of file, root address) of a successful call *)
Definition write_index (rep : bool) (dim : nat) (es : list wentry) (f : bytes) (eof : N) : outcome (bytes * N * N) :=
  st_result (write_index_st rep dim es f eof).

(* the chunk loop of writeChunkedData: chunks = (GetChunkOffset coord, chunk bytes after the filter pipeline) in
   the order of the linear chunk index; each is allocated, written, and added with uint32(len).  A failing Allocate
   leaves the chunks written so far in the file. *)
Fixpoint write_chunk_loop_st (chunks : list (list N * bytes)) (f : bytes) (eof : N) (acc : list wentry)
  : wstate (list wentry) :=
  match chunks with
  | [] => (f, eof, Ok acc)
  | (key, data) :: r =>
      match alloc eof (blen data) with
      | None => (f, eof, Err)
      | Some (addr, eof') =>
          write_chunk_loop_st r (write_at f addr data) eof' (acc ++ [(key, addr, wrap32 (blen data))])
      end
  end.
Definition write_chunk_loop (chunks : list (list N * bytes)) (f : bytes) (eof : N) (acc : list wentry)
  : outcome (bytes * N * list wentry) := st_result (write_chunk_loop_st chunks f eof acc).

(* writeChunkedData without filters; result = B-tree address.  rep: GetTotalChunks() > MaxChunkBTreeEntries is
   refused before the loop (nothing allocated, nothing written). *)
Definition write_chunked_file_st (rep : bool) (dims cdims : list N) (esz : N) (data : bytes) (f : bytes) (eof : N)
  : wstate N :=
  if negb (lenN data =? vol dims esz) then (f, eof, Err)
  else if rep && (MAX_ENTRIES <? total_chunks (num_chunks dims cdims)) then (f, eof, Err)
  else
    match write_chunk_loop_st (write_chunks dims cdims esz data) f eof [] with
    | (f1, eof1, Ok es) => write_index_st rep (length dims) es f1 eof1
    | (f1, eof1, Err) => (f1, eof1, Err)
    | (f1, eof1, Panic) => (f1, eof1, Panic)
    end.
(* (file, end of file, B-tree address) of a successful call *)
Definition write_chunked_file (rep : bool) (dims cdims : list N) (esz : N) (data : bytes) (f : bytes) (eof : N)
  : outcome (bytes * N * N) := st_result (write_chunked_file_st rep dims cdims esz data f eof).

(* ---------------------------------------------------------------------------------------------- *)
(* Reader: ParseBTreeV1Node                                                                       *)
(* ---------------------------------------------------------------------------------------------- *)

(* readAddress(data, size) *)
Definition read_address (data : bytes) (size : N) : N :=
  let size := N.min size (blen data) in
  unle (firstn (N.to_nat (N.min size 8)) data).

(* ChunkKey: Scaled, Nbytes, FilterMask *)
Definition ckey := (list N * N * N)%type.
Definition k_scaled (k : ckey) : list N := fst (fst k).
Definition k_nbytes (k : ckey) : N := snd (fst k).
Definition k_mask (k : ckey) : N := snd k.

Record bnode : Type := mk_bnode {
  n_type : N; n_level : N; n_used : N; n_left : N; n_right : N;
  n_keys : list ckey; n_children : list N }.

(* for j := 0; j < ndims; j++ { byteOffset := Uint64(data[off:off+8]); off += 8;
     if chunkDims[j] == 0 { error }; Scaled[j] = byteOffset / chunkDims[j] }
   cs = chunkDims[j:]; chunkDims[j] with j >= len(chunkDims) is an index panic *)
Fixpoint parse_coords (n : nat) (cs : list N) (data : bytes) (off : N) : outcome (list N) :=
  match n with
  | O => Ok []
  | S n' =>
      bo <- rd_le data off 8;;
      match cs with
      | [] => Panic
      | c :: cs' => if c =? 0 then Err
                    else r <- parse_coords n' cs' data (off + 8);; Ok (bo / c :: r)
      end
  end.

(* for i := 0; i <= EntriesUsed; i++: key i, and child i when i < EntriesUsed; k = EntriesUsed - i.
   klen = len(node.Keys) (key_slots): before 18c9d53 Keys was made with EntriesUsed+1 elements COMPUTED IN uint16, so for
   EntriesUsed = 65535 it was empty and `node.Keys[i] = key` an index panic in the first iteration (after key 0 has
   been decoded); since then int(EntriesUsed)+1 and the guard never fires. *)
Fixpoint parse_entries (k : nat) (i klen : N) (ndims : nat) (osz : N) (cdims : list N) (data : bytes) (off : N)
  : outcome (list ckey * list N) :=
  let keySize := 8 + 8 * N.of_nat ndims in
  if blen data <? off + keySize then Err
  else
    nb <- rd_le data off 4;;
    fm <- rd_le data (off + 4) 4;;
    sc <- parse_coords ndims cdims data (off + 8);;
    if klen <=? i then Panic
    else
    let off' := off + keySize in
    match k with
    | O => Ok ([(sc, nb, fm)], [])
    | S k' =>
        if blen data <? off' + osz then Err
        else
          tl <- slice_from data off';;
          let child := read_address tl osz in
          r <- parse_entries k' (i + 1) klen ndims osz cdims data (off' + osz);;
          Ok ((sc, nb, fm) :: fst r, child :: snd r)
    end.

(* len(node.Keys) *)
Definition key_slots (rep : bool) (eu : N) : N := if rep then eu + 1 else wrap16 (eu + 1).

Definition parse_node (rep : bool) (f : bytes) (address osz : N) (ndims : nat) (cdims : list N) : outcome bnode :=
  let headerSize := 8 + osz * 2 in
  match read_at f address headerSize with
  | None => Err
  | Some h =>
      sg <- slice h 0 4;;
      if negb (bytes_eqb sg SIG_TREE) then Err
      else
        ty <- index h 4;;
        lv <- index h 5;;
        eu <- rd_le h 6 2;;
        t1 <- slice_from h 8;;
        t2 <- slice_from h (8 + osz);;
        let left := read_address t1 osz in
        let right := read_address t2 osz in
        if eu =? 0 then Ok (mk_bnode ty lv eu left right [] [])
        else
          let keySize := 8 + 8 * N.of_nat ndims in
          let dataSize := eu * (keySize + osz) + keySize in
          match read_bytes_at f (wrap64 (address + headerSize)) dataSize with
          | None => Err
          | Some data =>
              r <- parse_entries (N.to_nat eu) 0 (key_slots rep eu) ndims osz cdims data 0;;
              Ok (mk_bnode ty lv eu left right (fst r) (snd r))
          end
  end.

(* ---------------------------------------------------------------------------------------------- *)
(* Reader: CollectAllChunks                                                                       *)
(* ---------------------------------------------------------------------------------------------- *)

Inductive cres (A : Type) : Type := COk (a : A) | CErr | CPanic | CFuel.
Arguments COk {A} a. Arguments CErr {A}. Arguments CPanic {A}. Arguments CFuel {A}.

(* ChunkEntry: Key, Address *)
Definition centry := (ckey * N)%type.

(* collectAllChunks(node, visited): same recursion as Model/RobustTerm.v bt_collect (level guard, visited set
   threaded through the whole walk) with the node graph given by parse_node on the file and the entries returned *)
Fixpoint collect (rep : bool) (f : bytes) (osz : N) (cdims : list N) (fuel : nat) (level : N) (keys : list ckey)
         (children visited : list N) : cres (list centry * list N) :=
  match fuel with
  | O => CFuel
  | S fuel' =>
      if level =? 0 then COk (combine keys children, visited)
      else
        (fix each (cs : list N) (acc : list centry) (visited : list N) {struct cs} : cres (list centry * list N) :=
           match cs with
           | [] => COk (acc, visited)
           | c :: r =>
               if memN c visited then CErr
               else match parse_node rep f c osz (length cdims) cdims with
                    | Err => CErr
                    | Panic => CPanic
                    | Ok nd =>
                        if level <=? n_level nd then CErr
                        else match collect rep f osz cdims fuel' (n_level nd) (n_keys nd) (n_children nd) (c :: visited) with
                             | COk (ch, v') => each r (acc ++ ch) v'
                             | CErr => CErr
                             | CPanic => CPanic
                             | CFuel => CFuel
                             end
                    end
           end) children [] visited
  end.

(* NodeLevel is a uint8 and strictly decreases along the descent: 256 units of fuel (same recursion as bt_collect,
   C07_btree_descent_terminates; the correspondence node_graph / tres_of below is stated, not proved) *)
Definition collect_all_chunks (rep : bool) (f : bytes) (osz : N) (cdims : list N) (nd : bnode) : cres (list centry) :=
  match collect rep f osz cdims 256 (n_level nd) (n_keys nd) (n_children nd) [] with
  | COk (ch, _) => COk ch
  | CErr => CErr
  | CPanic => CPanic
  | CFuel => CFuel
  end.

(* ParseBTreeV1Node(root) + CollectAllChunks, as every read path starts *)
Definition read_index (rep : bool) (f : bytes) (root osz : N) (cdims : list N) : cres (list centry) :=
  match parse_node rep f root osz (length cdims) cdims with
  | Err => CErr
  | Panic => CPanic
  | Ok nd => collect_all_chunks rep f osz cdims nd
  end.

(* the abstract node graph of C07 that this file induces *)
Definition node_graph (rep : bool) (f : bytes) (osz : N) (cdims : list N) (a : N) : option (N * list N) :=
  match parse_node rep f a osz (length cdims) cdims with
  | Ok nd => Some (n_level nd, n_children nd)
  | _ => None
  end.
Definition tres_of {A} (r : cres (list A * list N)) : tres (N * list N) :=
  match r with
  | COk (ch, v) => TDone (N.of_nat (length ch), v)
  | CErr | CPanic => TErr
  | CFuel => TOutOfFuel
  end.

(* ---------------------------------------------------------------------------------------------- *)
(* Reader: readChunkedData (no filter pipeline: filterPipeline == nil)                            *)
(* ---------------------------------------------------------------------------------------------- *)

(* utils.ValidateBufferSize *)
Definition validate_size (size max : N) : bool := negb (size =? 0) && (size <=? max).

(* dataspace.TotalElements: total *= dim in uint64 *)
Definition total_elements (dims : list N) : N := fold_left (fun t d => wrap64 (t * d)) dims 1.

(* the loop over the collected chunks; rank = len(dataspace.Dimensions) *)
Fixpoint place_chunks (f : bytes) (dims cdims : list N) (esz : N) (chunks : list centry) (raw : bytes) : cres bytes :=
  match chunks with
  | [] => COk raw
  | (key, addr) :: r =>
      if negb (validate_size (k_nbytes key) MAX_CHUNK) then CErr
      else match read_bytes_at f addr (k_nbytes key) with
           | None => CErr
           | Some chunkData =>
               let rank := length dims in
               match copy_chunk_to_array chunkData raw (firstn rank (k_scaled key)) (firstn rank cdims) dims esz with
               | Chunk.Ok raw' => place_chunks f dims cdims esz r raw'
               | Chunk.Err code => if code =? E_RANK0 then CPanic else CErr
               end
           end
  end.

Definition read_chunked_file (rep : bool) (f : bytes) (root osz : N) (dims cdims : list N) (esz : N) : cres bytes :=
  if Nat.ltb (length cdims) (length dims) then CErr
  else match parse_node rep f root osz (length cdims) cdims with
       | Err => CErr
       | Panic => CPanic
       | Ok nd =>
           let total := total_elements dims in
           (* utils.SafeMultiply *)
           if negb (total =? 0) && negb (esz =? 0) && (U64MAX / esz <? total) then CErr
           else
             let totalBytes := total * esz in
             if negb (validate_size totalBytes (MAX_CHUNK * 1024)) then CErr
             else match collect_all_chunks rep f osz cdims nd with
                  | COk chunks => place_chunks f dims cdims esz chunks (zerosN totalBytes)
                  | CErr => CErr
                  | CPanic => CPanic
                  | CFuel => CFuel
                  end
       end.

(* ---------------------------------------------------------------------------------------------- *)
(* Reader: coordinate lookup (dataset_read_hyperslab.go)                                          *)
(*   chunkIndex[chunkCoordsToKey(chunk.Key.Scaled[:rank])] = {Address, Nbytes} for every collected chunk, in order *)
(*   (a later entry with the same coordinates replaces an earlier one), then chunkIndex[chunkCoordsToKey(coord)].  *)
(*   The map key is the decimal rendering of the coordinates joined by ","; two coordinate lists of the same      *)
(*   length have the same rendering only when they are equal, so the map is modelled as keyed by the list.       *)
(* ---------------------------------------------------------------------------------------------- *)
Definition coords_eqb : list N -> list N -> bool := list_eqb N.eqb.

Fixpoint lookup_chunk (rank : nat) (chunks : list centry) (coord : list N) : option (N * N) :=
  match chunks with
  | [] => None
  | (key, addr) :: r =>
      match lookup_chunk rank r coord with
      | Some x => Some x
      | None => if coords_eqb (firstn rank (k_scaled key)) coord then Some (addr, k_nbytes key) else None
      end
  end.

(* ---------------------------------------------------------------------------------------------- *)
(* Specification vocabulary and the writer's preconditions as executable predicates               *)
(* ---------------------------------------------------------------------------------------------- *)

(* what the reader must report for a written entry: offsets divided by the chunk extents, size, mask 0, address *)
Definition expected_entry (cdims : list N) (e : wentry) : centry :=
  ((scaled_of_key cdims (w_coord e), w_nbytes e, 0), w_addr e).

(* one entry fits the fields it is written to *)
Definition entry_ok (dim : nat) (e : wentry) : bool :=
  Nat.eqb (length (w_coord e)) dim && forallb (fun x => x <=? U64MAX) (w_coord e)
  && (w_addr e <=? U64MAX) && (w_nbytes e <? 4294967296).

(* pairwise different coordinates *)
Fixpoint distinct_coords (es : list wentry) : bool :=
  match es with
  | [] => true
  | e :: r => negb (existsb (fun x => coords_eqb (w_coord x) (w_coord e)) r) && distinct_coords r
  end.

(* well-formed input of the index writer/reader pair: non-empty, well-formed entries, different coordinates, positive
   chunk extents of the same rank, and the node ends below 2^63 (file offsets are int64) *)
Definition index_wf (cdims : list N) (es : list wentry) (eof : N) : bool :=
  negb (Nat.eqb (length es) 0) && forallb (entry_ok (length cdims)) es && distinct_coords es
  && all_pos cdims
  && (eof + blen (serialize_leaf (length cdims) es) <=? MAXINT64).
(* the number of entries the single leaf can hold: MaxChunkBTreeEntries for the repaired code (more: refused by the
   writer, nothing written - index_refused_unchanged); 65534 before 18c9d53 (65535: the reader panicked, 65536 and
   more: the 16-bit count wrapped; Proofs/ChunkIndex.v index_*_refuted) *)
Definition index_capacity (rep : bool) : N := if rep then MAX_ENTRIES else 65534.
Definition index_pre (rep : bool) (cdims : list N) (es : list wentry) (eof : N) : bool :=
  index_wf cdims es eof && (N.of_nat (length es) <=? index_capacity rep).

(* bytes writeChunkedData appends to the file: every padded chunk and the index node *)
Definition chunked_file_growth (dims cdims : list N) (esz : N) : N :=
  let n := total_chunks (num_chunks dims cdims) in
  let r := N.of_nat (length dims) in
  n * vol cdims esz + (24 + n * (16 + 8 * r) + (8 + 8 * r)).

(* the entries writeChunkedData builds for a data set, by the chunk loop from the end of file eof0 *)
Fixpoint chunk_addrs (sizes : list N) (eof : N) : list N :=
  match sizes with [] => [] | s :: r => eof :: chunk_addrs r (eof + s) end.

(* executable check used by the tie: the model reader on the model writer's file *)
Definition cres_val {A} (f : A -> val) (r : cres A) : val :=
  match r with COk a => VL [VN 0; f a] | CErr => VL [VN 1] | CPanic => VL [VN 2] | CFuel => VL [VN 3] end.
Definition centry_val (e : centry) : val :=
  VL [vlistN (k_scaled (fst e)); VN (k_nbytes (fst e)); VN (k_mask (fst e)); VN (snd e)].
