(* Model of the element encoders of the writer and the element decoders of the reader (C01).

   Writer:  dataset_write.go  encodeFixedPointData / encode{1,2,4,8}ByteIntegers (little endian,
            uintK(val) for signed values = two's complement), encodeFloatData (bit pattern, little
            endian), encodeStringData (truncate to elemSize or NUL-pad).
   Reader:  internal/core/dataset_reader.go convertToFloat64: float64 (bits), float32 -> float64,
            4- and 8-byte fixed point: raw := LittleEndian.UintK; if datatype.IsSigned()
            (class bit field & 0x08, written by the registry for Int8..Int64) float64(intK(raw))
            else float64(raw);  1- and 2-byte integers have no typed read (error).
            internal/core/dataset_reader_strings.go decodeFixedString, padding type 0
            (what stringTypeHandler writes): cut at the first NUL.
   Integers are Z values; bytes are N < 256.  The int -> float64 conversion of the Go compiler
   (round to nearest even) is written out on bit patterns in pure N arithmetic (f64_of_Z); Flocq is
   not used, so nothing here depends on the axioms of Reals.  The theorems are stated on the integer
   the reader recovers; f64_of_Z itself is validated against Go by the tie.
   No proofs in this file. *)
From HV Require Import Base.Prelude.

(* ---- fixed point ---- *)
Definition wbits (w : nat) : Z := 8 * Z.of_nat w.

(* PutUintK(buf, uintK(val)) *)
Definition enc_int (w : nat) (v : Z) : bytes := le w (Z.to_N (v mod 2 ^ wbits w)).

(* raw := UintK(bytes); signed ? intK(raw) : raw *)
Definition dec_int (w : nat) (signed : bool) (b : bytes) : Z :=
  let raw := Z.of_N (unle (firstn w b)) in
  if signed && (2 ^ (wbits w - 1) <=? raw)%Z then (raw - 2 ^ wbits w)%Z else raw.

Definition in_range (w : nat) (signed : bool) (v : Z) : Prop :=
  if signed then (- 2 ^ (wbits w - 1) <= v < 2 ^ (wbits w - 1))%Z else (0 <= v < 2 ^ wbits w)%Z.
Definition in_rangeb (w : nat) (signed : bool) (v : Z) : bool :=
  if signed then (- 2 ^ (wbits w - 1) <=? v)%Z && (v <? 2 ^ (wbits w - 1))%Z
  else (0 <=? v)%Z && (v <? 2 ^ wbits w)%Z.

(* ---- integer -> binary64 bit pattern, round to nearest even (what float64(x) compiles to) ---- *)
Definition rne_div2k (x k : N) : N :=
  let q := x / 2 ^ k in
  let r := x mod 2 ^ k in
  let h := 2 ^ k / 2 in
  if k =? 0 then x
  else if r <? h then q else if h <? r then q + 1 else if N.even q then q else q + 1.

Definition f64_of_N (m : N) : N :=
  if m =? 0 then 0
  else
    let l := N.log2 m in
    if l <=? 52 then (1023 + l) * 2 ^ 52 + (m * 2 ^ (52 - l) - 2 ^ 52)
    else (1023 + l) * 2 ^ 52 + (rne_div2k m (l - 52) - 2 ^ 52).   (* a carry to 2^53 bumps the exponent *)

Definition f64_of_Z (z : Z) : N :=
  if (z <? 0)%Z then 2 ^ 63 + f64_of_N (Z.to_N (- z)) else f64_of_N (Z.to_N z).

(* value of a finite binary64 pattern as (sign, m, e): (-1)^sign * m * 2^e, for the exactness lemma *)
Definition f64_fields (b : N) : bool * N * Z :=
  let s := negb (b / 2 ^ 63 =? 0) in
  let e := (b / 2 ^ 52) mod 2048 in
  let f := b mod 2 ^ 52 in
  if e =? 0 then (s, f, (-1074)%Z) else (s, 2 ^ 52 + f, (Z.of_N e - 1075)%Z).

(* the four typed integer reads *)
Definition to_f64_i32 (b : bytes) : N := f64_of_Z (dec_int 4 true b).
Definition to_f64_u32 (b : bytes) : N := f64_of_Z (dec_int 4 false b).
Definition to_f64_i64 (b : bytes) : N := f64_of_Z (dec_int 8 true b).
Definition to_f64_u64 (b : bytes) : N := f64_of_Z (dec_int 8 false b).

(* ---- floats ---- *)
Definition enc_f64 (bits : N) : bytes := le 8 bits.
Definition enc_f32 (bits : N) : bytes := le 4 bits.
Definition to_f64_f64 (b : bytes) : N := unle (firstn 8 b).
(* float64(math.Float32frombits(x)): exact; a signalling NaN comes out quiet *)
Definition f64_of_f32 (x : N) : N :=
  let s := (x / 2 ^ 31) mod 2 in
  let e := (x / 2 ^ 23) mod 256 in
  let f := x mod 2 ^ 23 in
  s * 2 ^ 63 +
  (if e =? 255 then (if f =? 0 then 2047 * 2 ^ 52 else 2047 * 2 ^ 52 + N.lor (f * 2 ^ 29) (2 ^ 51))
   else if e =? 0 then
     (if f =? 0 then 0
      else let l := N.log2 f in (l + 874) * 2 ^ 52 + (f * 2 ^ (52 - l) - 2 ^ 52))
   else (e + 896) * 2 ^ 52 + f * 2 ^ 29).
Definition to_f64_f32 (b : bytes) : N := f64_of_f32 (unle (firstn 4 b)).

(* convertToFloat64 on one element: class 0 = fixed, 1 = float; None = "unsupported datatype" *)
Definition conv_elem (class : N) (size : nat) (bits : N) (b : bytes) : option N :=
  let signed := negb (N.land bits 8 =? 0) in
  if class =? 1 then
    match size with 8%nat => Some (to_f64_f64 b) | 4%nat => Some (to_f64_f32 b) | _ => None end
  else if class =? 0 then
    match size with
    | 4%nat => Some (f64_of_Z (dec_int 4 signed b))
    | 8%nat => Some (f64_of_Z (dec_int 8 signed b))
    | _ => None
    end
  else None.

(* ---- fixed-length strings ---- *)
(* encodeStringData: len(s) >= n ? s[:n] : s followed by zeros *)
Definition enc_string (n : nat) (s : bytes) : bytes :=
  if Nat.leb n (length s) then firstn n s else s ++ repeat 0 (n - length s).

(* decodeFixedString, padding 0: up to the first NUL *)
Fixpoint until_nul (b : bytes) : bytes :=
  match b with [] => [] | x :: r => if x =? 0 then [] else x :: until_nul r end.
Definition dec_string (n : nat) (b : bytes) : bytes := until_nul (firstn n b).

(* ---- executable checks used by the tie (hex transport) ---- *)
Fixpoint split_every (n : nat) (fuel : nat) (b : bytes) : list bytes :=
  match fuel with
  | O => []
  | S fuel' => match b with [] => [] | _ => firstn n b :: split_every n fuel' (skipn n b) end
  end.
(* all elements of a raw buffer converted; [] when unsupported *)
Definition conv_all (class : N) (size : nat) (bits : N) (raw : bytes) : list N :=
  flat_map (fun e => match conv_elem class size bits e with Some x => [x] | None => [] end)
           (split_every size (length raw) raw).
