(* C05 - the link message the library stores in the fractal heap of a new-style ("dense") group: transcription of
   internal/writer/densegroup_writer.go createLinkMessage, compactUint64Size, encodeCompactUint64 (proof-free).
     buf[0] = 1 (version)  buf[1] = 0 (link type: hard)  buf[2] = 0x04 (flags)  buf[3] = 0 (character set)
     name length in compactUint64Size(len) bytes, little-endian | name | target address (OffsetSize bytes, little-endian)
   The whole-file walker decodes exactly this layout under the deviation X_dense_link_private_layout (Spec/Walk.v
   dec_link_private); theorems Props/C05Walk.v. *)
From HV Require Import Base.Prelude Base.Bytes.

(* for value > 0 { size++; value >>= 8 }  (a uint64 has at most 8 bytes) *)
Fixpoint compact_loop (fuel : nat) (v : N) : nat :=
  match fuel with
  | O => O
  | S n => if v =? 0 then O else S (compact_loop n (v / 256))
  end.
Definition compact_size (v : N) : nat := if v =? 0 then 1%nat else compact_loop 8 v.

Definition enc_dense_link (name : bytes) (addr : N) (osz : nat) : bytes :=
  [1; 0; 4; 0] ++ le (compact_size (blen name)) (blen name) ++ name ++ le osz addr.
