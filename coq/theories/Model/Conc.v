(* C18 - the synchronisation skeleton: threads, locks, accesses, an interleaving semantics.

   This is NOT a model of the Go memory model or scheduler.  It is the abstract setting in which the
   lockset discipline is proved sound: threads are sequences of synchronisation actions and accesses;
   a state steps when ANY running thread performs its next action (all interleavings, no fairness, no
   bound on the number of threads or the length of the run).  A loop of the Go code is covered by
   quantifying over all programs: every finite prefix of an unbounded execution of a loop is a list.

   No proofs in this file (Proofs/Conc.v). *)
From HV Require Import Base.Prelude.

Inductive action :=
| ALock (m : N) | AUnlock (m : N)          (* sync.Mutex.Lock / RWMutex.Lock and their Unlock *)
| ARLock (m : N) | ARUnlock (m : N)        (* RWMutex.RLock / RUnlock *)
| ARead (x : N) | AWrite (x : N)           (* plain memory access to location x *)
| AAtomic (x : N)                          (* access through sync/atomic *)
| ASpawn (t : nat)                         (* go f(): thread t of the pool starts running *)
| AClose (c : N) | ARecv (c : N)           (* close(c) ; <-c on a channel that is only ever closed *)
| AWgAdd (w : N) | AWgDone (w : N) | AWgWait (w : N)
| ASkip.

(* A thread: is it running (spawned), what is left of its program, the locks it holds for writing /
   reading, and a label (its role; confinement is by label). *)
Record thread := mkT { t_run : bool; t_lab : nat; t_prog : list action; t_w : list N; t_r : list N }.

Record state := mkS { s_pool : list thread; s_closed : list N; s_wg : list N; s_panic : bool }.

Definition memN (m : N) (l : list N) : bool := existsb (N.eqb m) l.
Fixpoint removeN (m : N) (l : list N) : list N :=
  match l with [] => [] | a :: r => if N.eqb m a then removeN m r else a :: removeN m r end.
Fixpoint remove1N (m : N) (l : list N) : list N :=
  match l with [] => [] | a :: r => if N.eqb m a then r else a :: remove1N m r end.

(* effect of an action on the acting thread's own lock sets *)
Definition w_after (a : action) (w : list N) : list N :=
  match a with ALock m => m :: w | AUnlock m => removeN m w | _ => w end.
Definition r_after (a : action) (r : list N) : list N :=
  match a with ARLock m => m :: r | ARUnlock m => removeN m r | _ => r end.

Definition nobody_w (m : N) (pool : list thread) : bool := forallb (fun th => negb (memN m (t_w th))) pool.
Definition nobody_r (m : N) (pool : list thread) : bool := forallb (fun th => negb (memN m (t_r th))) pool.

(* blocking conditions *)
Definition guard (a : action) (s : state) : bool :=
  match a with
  | ALock m => nobody_w m (s_pool s) && nobody_r m (s_pool s)
  | ARLock m => nobody_w m (s_pool s)
  | ARecv c => memN c (s_closed s)
  | AWgWait w => negb (memN w (s_wg s))
  | _ => true
  end.

Fixpoint upd {A} (l : list A) (i : nat) (v : A) : list A :=
  match l, i with
  | [], _ => []
  | _ :: r, O => v :: r
  | a :: r, S i' => a :: upd r i' v
  end.

Definition set_run (th : thread) : thread := mkT true (t_lab th) (t_prog th) (t_w th) (t_r th).

(* Go run-time failures of the synchronisation primitives are a flag, not an assumption:
   close of a closed channel, negative WaitGroup counter, unlock of a mutex the thread does not hold *)
Definition panics (a : action) (s : state) (th : thread) : bool :=
  match a with
  | AClose c => memN c (s_closed s)
  | AWgDone w => negb (memN w (s_wg s))
  | AUnlock m => negb (memN m (t_w th))
  | ARUnlock m => negb (memN m (t_r th))
  | _ => false
  end.

(* global effect, applied after the acting thread has been replaced *)
Definition effect (a : action) (s : state) (pool' : list thread) : state :=
  match a with
  | ASpawn t =>
      mkS (match nth_error pool' t with Some th0 => upd pool' t (set_run th0) | None => pool' end)
          (s_closed s) (s_wg s) (s_panic s)
  | AClose c => mkS pool' (c :: s_closed s) (s_wg s) (s_panic s)
  | AWgAdd w => mkS pool' (s_closed s) (w :: s_wg s) (s_panic s)
  | AWgDone w => mkS pool' (s_closed s) (remove1N w (s_wg s)) (s_panic s)
  | _ => mkS pool' (s_closed s) (s_wg s) (s_panic s)
  end.

Definition step_fn (s : state) (i : nat) : option state :=
  if s_panic s then None else
  match nth_error (s_pool s) i with
  | None => None
  | Some th =>
      if negb (t_run th) then None else
      match t_prog th with
      | [] => None
      | a :: rest =>
          if negb (guard a s) then None else
          if panics a s th then Some (mkS (s_pool s) (s_closed s) (s_wg s) true) else
          let th' := mkT true (t_lab th) rest (w_after a (t_w th)) (r_after a (t_r th)) in
          Some (effect a s (upd (s_pool s) i th'))
      end
  end.

Definition step (s : state) (i : nat) (s' : state) : Prop := step_fn s i = Some s'.

Inductive reachable (s0 : state) : state -> Prop :=
| R_refl : reachable s0 s0
| R_step s i s' : reachable s0 s -> step s i s' -> reachable s0 s'.

(* run a schedule (list of thread indices); None when some step is not enabled *)
Fixpoint run_sched (s : state) (sch : list nat) : option state :=
  match sch with
  | [] => Some s
  | i :: r => match step_fn s i with Some s' => run_sched s' r | None => None end
  end.

(* ---------------------------------------------------------------- races *)
Inductive akind := KR | KW | KA.
Definition akind_eqb (a b : akind) : bool :=
  match a, b with KR, KR | KW, KW | KA, KA => true | _, _ => false end.
Definition conflict (a b : akind) : bool :=
  match a, b with KR, KR => false | KA, KA => false | _, _ => true end.

Definition next_access (th : thread) : option (N * akind) :=
  if t_run th then
    match t_prog th with
    | ARead x :: _ => Some (x, KR) | AWrite x :: _ => Some (x, KW) | AAtomic x :: _ => Some (x, KA)
    | _ => None
    end
  else None.

(* two distinct running threads are both about to access the same location, not both reading and not
   both atomically *)
Definition race (s : state) : Prop :=
  exists i j thi thj x k1 k2, i <> j /\
    nth_error (s_pool s) i = Some thi /\ nth_error (s_pool s) j = Some thj /\
    next_access thi = Some (x, k1) /\ next_access thj = Some (x, k2) /\ conflict k1 k2 = true.

(* decidable version for examples *)
Definition race_pairb (thi thj : thread) : bool :=
  match next_access thi, next_access thj with
  | Some (x, k1), Some (y, k2) => N.eqb x y && conflict k1 k2
  | _, _ => false
  end.

(* ---------------------------------------------------------------- the discipline *)
Inductive prot :=
| PLock (m : N)            (* every access holds m: writes and atomics the write lock, reads either *)
| PConfined (lab : nat)    (* only the (single) thread labelled lab touches it *)
| PHandoff (ip ic : nat)   (* happens-before by spawn: pool index ip owns it until it executes `ASpawn ic`
                              (go f()), afterwards only the spawned thread ic touches it; nobody else ever *)
| PReadOnly                (* never written (after construction) *)
| PAtomic.                 (* only accessed through sync/atomic *)

Definition pmap := N -> option prot.

Definition access_ok (P : pmap) (lab : nat) (w r : list N) (a : action) : bool :=
  match a with
  | ARead x => match P x with
               | Some (PLock m) => memN m w || memN m r
               | Some (PConfined t) => Nat.eqb t lab
               | Some (PHandoff _ _) => true
               | Some PReadOnly => true
               | Some PAtomic => false
               | None => false end
  | AWrite x => match P x with
                | Some (PLock m) => memN m w
                | Some (PConfined t) => Nat.eqb t lab
                | Some (PHandoff _ _) => true
                | _ => false end
  | AAtomic x => match P x with
                 | Some (PLock m) => memN m w
                 | Some (PConfined t) => Nat.eqb t lab
                 | Some (PHandoff _ _) => true
                 | Some PAtomic => true
                 | _ => false end
  | _ => true
  end.

(* the static check of one thread program: simulate the thread's own lock operations *)
Fixpoint scan (P : pmap) (lab : nat) (w r : list N) (p : list action) : bool :=
  match p with
  | [] => true
  | a :: p' => access_ok P lab w r a && scan P lab (w_after a w) (r_after a r) p'
  end.

Definition init_thread (run : bool) (lab : nat) (p : list action) : thread := mkT run lab p [] [].
Definition init_state (ths : list (bool * nat * list action)) : state :=
  mkS (map (fun '(run, lab, p) => init_thread run lab p) ths) [] [] false.

Definition labels_of (ths : list (bool * nat * list action)) : list nat := map (fun '(_, lab, _) => lab) ths.

(* a label used for confinement belongs to at most one thread *)
Definition unique_label (lab : nat) (labs : list nat) : Prop :=
  forall i j, nth_error labs i = Some lab -> nth_error labs j = Some lab -> i = j.

(* --- happens-before by spawn (checked on the whole pool, not per thread) *)
Definition accesses (x : N) (a : action) : bool :=
  match a with ARead y | AWrite y | AAtomic y => N.eqb x y | _ => false end.
Definition spawns (c : nat) (a : action) : bool :=
  match a with ASpawn t => Nat.eqb t c | _ => false end.
(* the parent's program: no access to x once `ASpawn c` has been executed (sp = it has been) *)
Fixpoint hs_ok (x : N) (c : nat) (sp : bool) (p : list action) : bool :=
  match p with
  | [] => true
  | a :: r => (if accesses x a then negb sp else true) && hs_ok x c (sp || spawns c a) r
  end.
Fixpoint indexed {A} (i : nat) (l : list A) : list (nat * A) :=
  match l with [] => [] | a :: r => (i, a) :: indexed (S i) r end.
Definition handoff_ok (x : N) (ip ic : nat) (ths : list (bool * nat * list action)) : bool :=
  negb (Nat.eqb ip ic) &&
  match nth_error ths ic with Some (run, _, _) => negb run | None => true end &&
  forallb (fun '(j, (_, _, p)) =>
             if Nat.eqb j ip then hs_ok x ic false p
             else negb (existsb (spawns ic) p) && (Nat.eqb j ic || negb (existsb (accesses x) p)))
          (indexed O ths).

Definition well_locked (P : pmap) (ths : list (bool * nat * list action)) : Prop :=
  (forall run lab p, In (run, lab, p) ths -> scan P lab [] [] p = true) /\
  (forall x t, P x = Some (PConfined t) -> unique_label t (labels_of ths)) /\
  (forall x ip ic, P x = Some (PHandoff ip ic) -> handoff_ok x ip ic ths = true).

(* ---------------------------------------------------------------- access tables *)
(* One entry per access SITE of the source: location, kind, role of the code that contains the site,
   mutexes certainly held there for writing / for reading.  Role 0 is "constructor: the object is not
   shared yet" and is not part of the concurrent program (stated assumption).  *)
Record access := mkA { a_loc : N; a_kind : akind; a_role : nat; a_w : list N; a_r : list N }.
Definition table := list access.

Definition ctor_role : nat := O.
Definition live (e : access) : bool := negb (Nat.eqb (a_role e) ctor_role).

Definition act_of (e : access) : action :=
  match a_kind e with KR => ARead (a_loc e) | KW => AWrite (a_loc e) | KA => AAtomic (a_loc e) end.

(* the code around a site: acquire what the extractor saw held, access, release *)
Definition block (e : access) : list action :=
  map ALock (a_w e) ++ map ARLock (a_r e) ++ [act_of e] ++ map ARUnlock (a_r e) ++ map AUnlock (a_w e).

Definition entries_of (t : table) (x : N) : list access := filter (fun e => live e && N.eqb (a_loc e) x) t.

Definition lock_covers (m : N) (e : access) : bool :=
  match a_kind e with KR => memN m (a_w e) || memN m (a_r e) | _ => memN m (a_w e) end.

Definition common_lock (es : list access) : option N :=
  match es with
  | [] => None
  | e0 :: _ => find (fun m => forallb (lock_covers m) es) (a_w e0 ++ a_r e0)
  end.

(* roles that are executed by at most one thread (background loops); the foreground API role is not *)
Definition prot_of (single : nat -> bool) (t : table) (x : N) : option prot :=
  let es := entries_of t x in
  match es with
  | [] => None
  | e0 :: _ =>
      if forallb (fun e => akind_eqb (a_kind e) KR) es then Some PReadOnly
      else if forallb (fun e => akind_eqb (a_kind e) KA) es then Some PAtomic
      else match common_lock es with
           | Some m => Some (PLock m)
           | None => if single (a_role e0) && forallb (fun e => Nat.eqb (a_role e) (a_role e0)) es
                     then Some (PConfined (a_role e0)) else None
           end
  end.

Definition entry_ok (P : pmap) (e : access) : bool :=
  negb (live e) || access_ok P (a_role e) (a_w e) (a_r e) (act_of e).

(* the decidable side condition evaluated on the table regenerated from the source *)
Definition locktable_ok (single : nat -> bool) (t : table) : bool :=
  forallb (entry_ok (prot_of single t)) t.

(* entries that break it (for the report) *)
Definition bad_entries (single : nat -> bool) (t : table) : list access :=
  filter (fun e => negb (entry_ok (prot_of single t) e)) t.

(* a thread of role r runs any sequence of blocks of sites of role r *)
Inductive from_blocks (t : table) (r : nat) : list action -> Prop :=
| FB_nil : from_blocks t r []
| FB_cons e p : In e t -> live e = true -> a_role e = r -> from_blocks t r p -> from_blocks t r (block e ++ p).

(* a pool conforms to the table: every thread is made of blocks of its role, single roles are single *)
Definition conforms (single : nat -> bool) (t : table) (ths : list (bool * nat * list action)) : Prop :=
  (forall run lab p, In (run, lab, p) ths -> from_blocks t lab p) /\
  (forall r, single r = true -> unique_label r (labels_of ths)).

(* canonical program: one thread per role 1..n, all sites of the role in table order, all running *)
Definition nroles (t : table) : nat := S (fold_right Nat.max O (map a_role t)).
Definition prog_of_role (t : table) (r : nat) : list action :=
  flat_map block (filter (fun e => live e && Nat.eqb (a_role e) r) t).
Definition program_of (t : table) : list (bool * nat * list action) :=
  map (fun r => (true, r, prog_of_role t r)) (seq 1 (nroles t - 1)).
