(* C11 codec models, group 7b: compound datatypes as TREES (a list of members at every level, members that
   are themselves compounds), the well-formedness predicate of the compound round trip, and the recursive
   reader.  Go: a nested compound member is a *DatatypeMessage whose Properties were produced by
   EncodeCompoundDatatypeV3/V1 + ParseDatatypeMessage (CreateCompoundTypeFromFields does exactly that);
   the reader calls ParseCompoundType again on every member of class compound
   (internal/core/dataset_reader_compound.go:55 and :215).  No proofs here (Proofs/CodecCompoundTree*.v). *)
From HV Require Import Base.Prelude Base.Outcome Base.Bytes Model.CodecType Model.CodecCompound.

Inductive ctype :=
| CLeaf (d : datatype)                                  (* any non-compound member type, properties given *)
| CComp (version size : N) (fs : cfields)               (* EncodeCompoundDatatypeV1 / V3 of the members *)
with cfields :=
| CNil
| CCons (name : bytes) (offset : N) (t : ctype) (rest : cfields).

(* the Properties of the DatatypeMessage of a compound: everything after the 8-byte header *)
Definition comp_props (version : N) (fs : list field) : bytes :=
  if version =? 1 then concat (map enc_field_v1 fs)
  else le 4 (wrap32 (N.of_nat (length fs))) ++ concat (map enc_field_v3 fs).
(* its ClassBitField: version 1 keeps the member count there *)
Definition comp_cbf (version : N) (fs : list field) : N :=
  if version =? 1 then wrap16 (N.of_nat (length fs)) else 0.

Fixpoint flat (t : ctype) : datatype :=
  match t with
  | CLeaf d => d
  | CComp v s fs =>
      {| dt_class := DT_COMPOUND; dt_version := v; dt_size := s;
         dt_cbf := comp_cbf v (flat_fields fs); dt_props := comp_props v (flat_fields fs) |}
  end
with flat_fields (fs : cfields) : list field :=
  match fs with
  | CNil => []
  | CCons n o t r => {| fd_name := n; fd_offset := o; fd_type := flat t |} :: flat_fields r
  end.

(* the argument of EncodeCompoundDatatypeV1/V3 *)
Definition to_compound (v s : N) (fs : cfields) : compound :=
  {| cp_version := v; cp_size := s; cp_fields := flat_fields fs |}.

Fixpoint depth (t : ctype) : nat :=
  match t with
  | CLeaf _ => O
  | CComp _ _ fs => S (depth_fields fs)
  end
with depth_fields (fs : cfields) : nat :=
  match fs with
  | CNil => O
  | CCons _ _ t r => Nat.max (depth t) (depth_fields r)
  end.

Fixpoint nfs (fs : cfields) : N := match fs with CNil => 0 | CCons _ _ _ r => 1 + nfs r end.

(* ---- the recursive reader: ParseCompoundType on the message and again on every compound member ---- *)
Fixpoint dec_tree (fuel : nat) (d : datatype) : outcome ctype :=
  if negb (dt_class d =? DT_COMPOUND) then Ok (CLeaf d) else
  match fuel with
  | O => Err
  | S fuel' =>
      c <- parse_compound d;;
      fs <- (fix go (l : list field) : outcome cfields :=
               match l with
               | [] => Ok CNil
               | f :: r => t <- dec_tree fuel' (fd_type f);; rs <- go r;;
                           Ok (CCons (fd_name f) (fd_offset f) t rs)
               end) (cpp_members c);;
      Ok (CComp (cpp_version c) (cpp_size c) fs)
  end.

(* ---- well-formedness ---- *)

Definition name_ok (n : bytes) : bool :=
  negb (length n =? 0)%nat && forallb (fun b => negb (b =? 0)) n.

Definition hdr_ok (d : datatype) : bool :=
  (dt_class d <? 16) && (dt_version d <? 16) && (dt_cbf d <? 16777216) && (dt_size d <? 4294967296).

(* classes whose property length ParseDatatypeMessage knows *)
Definition fixed_plen (c : N) : option N :=
  if c =? DT_FIXED then Some 4 else if c =? DT_FLOAT then Some 12
  else if c =? DT_BITFIELD then Some 4 else if c =? DT_TIME then Some 2 else None.

(* a leaf member type: header fields in range, not a compound, and for the four classes with a fixed
   property length exactly that many property bytes *)
Definition leaf_ok (d : datatype) : bool :=
  hdr_ok d && negb (dt_class d =? DT_COMPOUND) &&
  match fixed_plen (dt_class d) with Some n => blen (dt_props d) =? n | None => true end.
(* a leaf whose end the decoder can find: fixed-point, float, bitfield, time *)
Definition leaf_sd (d : datatype) : bool :=
  hdr_ok d && match fixed_plen (dt_class d) with Some n => blen (dt_props d) =? n | None => false end.

Definition size_ok (s : N) : bool := negb (s =? 0) && (s <? 4294967296).
Definition nonempty (fs : cfields) : bool := match fs with CNil => false | _ => true end.

(* SELF-DELIMITING member types: the decoder finds where the member type ends whatever follows it.
   Fixed-point / float / bitfield / time leaves, and version-3 compounds ALL of whose members are
   self-delimiting.  Everything else (string, reference, opaque, array, enum, variable-length, version-1
   compounds, version-3 compounds ending in such a member) is given "all remaining bytes" by
   ParseDatatypeMessage: the known finding C11-compound-member-extent. *)
Fixpoint sd (t : ctype) : bool :=
  match t with
  | CLeaf d => leaf_sd d
  | CComp v s fs => (v =? 3) && size_ok s && (nfs fs <? 4294967296) && nonempty fs && sd_fields fs
  end
with sd_fields (fs : cfields) : bool :=
  match fs with
  | CNil => true
  | CCons n o t r => name_ok n && (o <? 4294967296) && sd t && sd_fields r
  end.

(* WELL-FORMED compound trees: at every level every member but the last is self-delimiting; the last member
   may be anything well-formed. *)
Fixpoint wf_ctype (t : ctype) : bool :=
  match t with
  | CLeaf d => leaf_ok d
  | CComp v s fs =>
      ((v =? 1) || (v =? 3)) && size_ok s &&
      (if v =? 1 then nfs fs <=? 65535 else nfs fs <? 4294967296) && nonempty fs && wf_fields fs
  end
with wf_fields (fs : cfields) : bool :=
  match fs with
  | CNil => true
  | CCons n o t r =>
      name_ok n && (o <? 4294967296) &&
      (match r with CNil => wf_ctype t | _ => sd t end) && wf_fields r
  end.

(* what ParseCompoundType returns for the encoded tree (one level) *)
Definition proj_compound (v s : N) (fs : cfields) : compound' :=
  {| cpp_version := v; cpp_cbf := comp_cbf v (flat_fields fs); cpp_size := s; cpp_members := flat_fields fs |}.

(* ---- examples / witnesses ---- *)
Definition dt_f64 : datatype :=
  {| dt_class := DT_FLOAT; dt_version := 1; dt_size := 8; dt_cbf := 32;
     dt_props := [0; 64; 0; 11; 52; 127; 0; 0; 0; 0; 0; 0] |}.
Definition dt_ref : datatype :=
  {| dt_class := DT_REFERENCE; dt_version := 1; dt_size := 8; dt_cbf := 0; dt_props := [] |}.

(* inner { int32 a; float64 b }  (version 3, self-delimiting) *)
Definition inner_example : ctype :=
  CComp 3 12 (CCons [97] 0 (CLeaf dt_int32) (CCons [98] 4 (CLeaf dt_f64) CNil)).
(* { int32 id; inner pos; float64 w; string name[8] }: 4 members, a nested compound in the middle, a string last *)
Definition tree_example (v : N) : ctype :=
  CComp v 32 (CCons [105; 100] 0 (CLeaf dt_int32)
             (CCons [112; 111; 115] 4 inner_example
             (CCons [119] 16 (CLeaf dt_f64)
             (CCons [110; 97; 109; 101; 95; 108; 111; 110; 103] 24 (CLeaf dt_str8) CNil)))).
(* three levels; the innermost compound is version 1 and last at its level *)
Definition deep_example : ctype :=
  CComp 3 40 (CCons [120] 0 (CLeaf dt_int32)
             (CCons [121] 4 (CComp 3 36 (CCons [117] 0 inner_example
                                        (CCons [118] 12 (CComp 1 24 (CCons [112] 0 (CLeaf dt_f64)
                                                                    (CCons [113; 113; 113; 113; 113; 113; 113; 113] 8 (CLeaf dt_ref) CNil))) CNil))) CNil)).

(* the two shapes excluded beyond the leaf classes of the known finding: same cause *)
(* a version-1 compound member that is not the last member *)
Definition v1_member_witness : ctype :=
  CComp 3 16 (CCons [97] 0 (CComp 1 4 (CCons [112] 0 (CLeaf dt_int32) CNil))
             (CCons [98] 4 (CLeaf dt_int32) CNil)).
(* a version-3 compound member ending in a string, not the last member *)
Definition greedy_tail_witness : ctype :=
  CComp 3 16 (CCons [97] 0 (CComp 3 8 (CCons [115] 0 (CLeaf dt_str8) CNil))
             (CCons [98] 8 (CLeaf dt_int32) CNil)).

(* ---- tie: ParseDatatypeMessage + recursive ParseCompoundType on a byte string (every nesting level costs
   at least 8 bytes, so S (length data) levels are never exhausted) and the canonical value the harness
   prints for a tree ---- *)
Definition dec_compound_tree (data : bytes) : outcome ctype :=
  t <- dec_datatype data;; dec_tree (S (length data)) t.

Fixpoint val_ctype (t : ctype) : val :=
  match t with
  | CLeaf d => VL [VN 0; val_datatype d]
  | CComp v s fs => VL [VN 1; VN v; VN s; VL (val_cfields fs)]
  end
with val_cfields (fs : cfields) : list val :=
  match fs with
  | CNil => []
  | CCons n o t r => VL [VB n; VN o; val_ctype t] :: val_cfields r
  end.
