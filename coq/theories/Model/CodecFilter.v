(* C11 codec models, group 8: filter pipeline message (parse of encode only; the filters themselves are C08).
   Transcription of internal/writer/filter_pipeline.go EncodePipelineMessage / encodeFilter and
   internal/core/filterpipeline.go ParseFilterPipelineMessage.  No proofs here (Proofs/CodecFilter.v). *)
From HV Require Import Base.Prelude Base.Outcome Base.Bytes.

(* what a writer.Filter contributes to the message: ID(), Name(), Encode() = (flags, cdValues) *)
Record wfilter := { wf_id : N; wf_name : bytes; wf_flags : N; wf_cd : list N }.
(* core.Filter as parsed; ClientData nil = None *)
Record rfilter := { rf_id : N; rf_namelen : N; rf_flags : N; rf_ncd : N; rf_name : bytes; rf_cd : option (list N) }.
Record pipeline' := { pl_version : N; pl_nfilters : N; pl_filters : list rfilter }.

Definition encok_pipeline (fs : list wfilter) : bool := negb (length fs =? 0)%nat.

(* uint16 arithmetic: paddedNameLen = ((nameLen + 7) / 8) * 8 *)
Definition padded_name_w (nameLen : N) : N :=
  if 0 <? nameLen then wrap16 ((wrap16 (nameLen + 7) / 8) * 8) else 0.

Definition enc_filter (f : wfilter) : bytes :=
  let nameLen := wrap16 (blen (wf_name f)) in
  let padded := padded_name_w nameLen in
  le 2 (wrap16 (wf_id f)) ++ le 2 nameLen ++ le 2 (wrap16 (wf_flags f)) ++ le 2 (wrap16 (blen (wf_cd f)))
  (* copy(buf[8:], name) into a buffer of 8 + padded + 4*ncd bytes, the client values then written from
     8 + padded on: the name field is the first [padded] bytes of the name followed by zeros (a name longer
     than [padded] - possible only when the uint16 arithmetic wraps, len(name) > 65528 - is cut) *)
  ++ (if 0 <? nameLen then firstn (N.to_nat padded) (wf_name f ++ zeros (N.to_nat (padded - blen (wf_name f)))) else [])
  ++ concat (map (fun v => le 4 (wrap32 v)) (wf_cd f)).

Definition enc_pipeline (fs : list wfilter) : bytes :=
  [2; wrap8 (N.of_nat (length fs))] ++ zeros 6 ++ concat (map enc_filter fs).

(* the client-data loop *)
Fixpoint read_cd (data : bytes) (n : nat) (offset : N) : outcome (list N) :=
  match n with
  | O => Ok []
  | S n' => v <- rd_le data offset 4;; r <- read_cd data n' (offset + 4);; Ok (v :: r)
  end.

(* name = bytes before the first NUL; if that is empty (no NUL, or NUL first) the whole field *)
Definition filter_name (nameBytes : bytes) : bytes :=
  let k := find0 nameBytes 0 in
  let nm := if k <? blen nameBytes then firstn (N.to_nat k) nameBytes else [] in
  match nm with [] => nameBytes | _ => nm end.

(* Switch for the repair notes/fixes/c06-pipeline-v2-filter-name.patch (property C06, Props/C06Reader.v):
   [false] = the code before it: outside the version 1 layout no filter has a name-length field;
   [true]  = the repaired code: a filter has a name-length field (and a name, unpadded outside the version 1 layout) when
             the layout is version 1 or its identifier is >= 256 (user-defined filter), as a genuine version 2 message has it.
   [parse_filters] / [dec_pipeline] are the variants of [pipeline_v2_names]; the ties of C11 / C07 read from the source tree
   under test which variant it implements (tools/props/c06switch.py) and compare with dec_pipeline_gen of that variant. *)
Definition pipeline_v2_names : bool := true.

Fixpoint parse_filters_gen (repaired : bool) (n : nat) (data : bytes) (version : N) (v1 : bool) (offset : N)
  : outcome (list rfilter) :=
  match n with
  | O => Ok []
  | S n' =>
      if blen data <? offset + 8 then Err else
      id <- rd_le data offset 2;;
      let offset := offset + 2 in
      let hasName := v1 || (repaired && (256 <=? id)) in
      '(nameLength, offset) <- (if hasName then nl <- rd_le data offset 2;; Ok (nl, offset + 2) else Ok (0, offset));;
      flags <- rd_le data offset 2;;
      let offset := offset + 2 in
      ncd <- rd_le data offset 2;;
      let offset := offset + 2 in
      '(name, offset) <-
        (if hasName && (0 <? nameLength) then
           let padded := if v1 then (if nameLength mod 8 =? 0 then nameLength else nameLength + (8 - nameLength mod 8))
                         else nameLength in
           if blen data <? offset + padded then Err else
           nb <- slice data offset (offset + nameLength);;
           Ok (filter_name nb, offset + padded)
         else Ok ([], offset));;
      '(cd, offset) <-
        (if 0 <? ncd then
           let dataSize := ncd * 4 in
           if blen data <? offset + dataSize then Err else
           c <- read_cd data (N.to_nat ncd) offset;;
           let offset := offset + dataSize in
           let offset := if (version =? 1) && negb (dataSize mod 8 =? 0) then offset + (8 - dataSize mod 8) else offset in
           Ok (Some c, offset)
         else Ok (None, offset));;
      rest <- parse_filters_gen repaired n' data version v1 offset;;
      Ok ({| rf_id := id; rf_namelen := nameLength; rf_flags := flags; rf_ncd := ncd; rf_name := name; rf_cd := cd |} :: rest)
  end.

Definition dec_pipeline_gen (repaired : bool) (data : bytes) : outcome pipeline' :=
  if blen data <? 2 then Err else
  version <- index data 0;;
  numFilters <- index data 1;;
  if (version <? 1) || (2 <? version) then Err else
  let zero6 := match slice data 2 8 with Ok s => forallb (fun b => b =? 0) s | _ => false end in
  let v1 := (version =? 1) || ((version =? 2) && (0 <? numFilters) && (8 <=? blen data) && zero6) in
  let offset := if v1 then 8 else 2 in
  fs <- parse_filters_gen repaired (N.to_nat numFilters) data version v1 offset;;
  Ok {| pl_version := version; pl_nfilters := numFilters; pl_filters := fs |}.

Definition parse_filters (n : nat) (data : bytes) (version : N) (v1 : bool) (offset : N) : outcome (list rfilter) :=
  parse_filters_gen pipeline_v2_names n data version v1 offset.
Definition dec_pipeline (data : bytes) : outcome pipeline' := dec_pipeline_gen pipeline_v2_names data.

(* well-formed: 1..255 filters, 16-bit ids/flags, names without NUL of at most 65528 bytes, at most 65535
   32-bit client values *)
Definition wf_filter (f : wfilter) : bool :=
  (wf_id f <? 65536) && (wf_flags f <? 65536) && (blen (wf_name f) <=? 65528) &&
  forallb (fun b => negb (b =? 0) && (b <? 256)) (wf_name f) &&
  (blen (wf_cd f) <=? 65535) && forallb (fun v => v <? 4294967296) (wf_cd f).
Definition wf_pipeline (fs : list wfilter) : bool :=
  encok_pipeline fs && (length fs <=? 255)%nat && forallb wf_filter fs.

Definition proj_filter (f : wfilter) : rfilter :=
  {| rf_id := wf_id f; rf_namelen := blen (wf_name f); rf_flags := wf_flags f; rf_ncd := blen (wf_cd f);
     rf_name := wf_name f; rf_cd := match wf_cd f with [] => None | c => Some c end |}.
Definition proj_pipeline (fs : list wfilter) : pipeline' :=
  {| pl_version := 2; pl_nfilters := N.of_nat (length fs); pl_filters := map proj_filter fs |}.

Definition val_rfilter (f : rfilter) : val :=
  VL [VN (rf_id f); VN (rf_namelen f); VN (rf_flags f); VN (rf_ncd f); VB (rf_name f); vopt vlistN (rf_cd f)].
Definition val_pipeline' (p : pipeline') : val :=
  VL [VN (pl_version p); VN (pl_nfilters p); VL (map val_rfilter (pl_filters p))].
