(* C07, dense attribute storage: byte-level models with CHECKED slicing and allocation logs of the self-contained readers in
   internal/core/attribute.go: readBTreeV2HeaderRaw, readBTreeV2LeafRecords, readFractalHeapHeaderRaw, computeOffsetSize,
   parseHeapID, readHeapObject, readDenseAttributes (current /repo).  Little-endian files.
   These readers tolerate io.EOF: `n, err := r.ReadAt(buf, addr); if err != nil && !errors.Is(err, io.EOF) {error}` followed
   by a check of n; [read_at_eof] returns the zero-initialised buffer with the n bytes that exist copied in, and n.
   No proofs here (Proofs/RobustDense.v). *)
From HV Require Import Base.Prelude Base.Outcome Base.Bytes Model.RobustAlloc Model.RobustGroup Model.CodecAttr.

Definition read_at_eof (file : bytes) (off size : N) : outcome (bytes * N) :=
  if MaxInt64 <? off then Err                                     (* negative offset: an error other than io.EOF *)
  else if blen file <=? off then Ok (repeat 0 (N.to_nat size), 0)
  else
    let n := N.min size (blen file - off) in
    s <- slice file off (off + n);;
    Ok (s ++ repeat 0 (N.to_nat (size - n)), n).

Definition sigBTHD : bytes := [66; 84; 72; 68].
Definition sigBTLF : bytes := [66; 84; 76; 70].
Definition sigFRHP : bytes := [70; 82; 72; 80].
Definition sigFHDB : bytes := [70; 72; 68; 66].

(* ---- readBTreeV2HeaderRaw: (root node address, records in root, total records) ---- *)
Definition bt2_header_raw (file : bytes) (addr O : N) : outcome (N * N * N) * alog :=
  let log := [38] in                                              (* buf := make([]byte, 38) *)
  match read_at_eof file addr 38 with
  | Ok (buf, n) =>
      if n <? 16 + O + 2 + 8 then (Err, log)
      else if negb (bytes_eqb (firstn 4 buf) sigBTHD) then (Err, log)
      else
        (_ <- index buf 4;; _ <- index buf 5;; _ <- rd_le buf 6 4;; _ <- rd_le buf 10 2;; _ <- rd_le buf 12 2;;
         if 38 <? 16 + O then Err
         else
           s <- slice buf 16 (16 + O);;
           root <- read_address s O;;
           if 38 <? 16 + O + 2 then Err
           else
             nroot <- rd_le buf (16 + O) 2;;
             if 38 <? 16 + O + 2 + 8 then Err
             else total <- rd_le buf (16 + O + 2) 8;; Ok (root, nroot, total), log)
  | Err => (Err, log)
  | Panic => (Panic, log)
  end.

(* ---- readBTreeV2LeafRecords: the 7-byte heap ids of numRecords records of 11 bytes ---- *)
Fixpoint bt2_leaf_loop (n : nat) (buf : bytes) (offset : N) : outcome (list bytes) :=
  match n with
  | O => Ok []
  | S n' =>
      if blen buf <? offset + 11 then Err
      else id <- slice buf (offset + 4) (offset + 11);;
           rest <- bt2_leaf_loop n' buf (offset + 11);;
           Ok (id :: rest)
  end.

Definition bt2_leaf_records (file : bytes) (addr nrec : N) : outcome (list bytes) * alog :=
  let bufSize := 6 + nrec * 11 + 4 in
  let log0 := [bufSize] in                                        (* make([]byte, bufSize) BEFORE the read *)
  match read_at_eof file addr bufSize with
  | Ok (buf, n) =>
      if (n <? 6 + nrec * 11) || (n <? 10) then (Err, log0)
      else if negb (bytes_eqb (firstn 4 buf) sigBTLF) then (Err, log0)
      else (bt2_leaf_loop (N.to_nat nrec) buf 6, log0 ++ [7 * nrec])   (* make([][7]byte, numRecords) *)
  | Err => (Err, log0)
  | Panic => (Panic, log0)
  end.

(* ---- readFractalHeapHeaderRaw: (root block address, HeapOffsetSize, HeapLengthSize) ---- *)
Definition compute_offset_size (v : N) : N := if v =? 0 then 1 else (N.size v + 7) / 8.

Definition fh_header_raw (file : bytes) (addr O L : N) : outcome (N * N * N) * alog :=
  let log := [144] in
  match read_at_eof file addr 144 with
  | Ok (buf, n) =>
      if n <? 132 + O then (Err, log)
      else if negb (bytes_eqb (firstn 4 buf) sigFRHP) then (Err, log)
      else
        (_ <- index buf 4;; _ <- rd_le buf 5 2;; _ <- rd_le buf 7 2;; _ <- index buf 9;;
         maxman <- rd_le buf 10 4;;
         let offset := 110 + 2 + L in
         mdb <- slice buf offset (offset + L);;                   (* buf[offset : offset+sizeofSize] *)
         let maxdir := unle (firstn 8 mdb) in                     (* |= uint64(b[i]) << (8*i): shifts >= 64 give 0 *)
         let offset2 := offset + L in
         if 144 <? offset2 + 2 then Err
         else
           mhs <- rd_le buf offset2 2;;
           let hos := wrap8 (wrap16 (mhs + 7) / 8) in             (* uint8((MaxHeapSize + 7) / 8), uint16 arithmetic *)
           let a := compute_offset_size maxdir in
           let b := compute_offset_size maxman in
           let hls := if a <? b then a else b in
           if 144 <? 132 + O then Err
           else s <- slice buf 132 (132 + O);;
                root <- read_address s O;;
                Ok (root, hos, hls), log)
  | Err => (Err, log)
  | Panic => (Panic, log)
  end.

(* ---- parseHeapID: id is a [7]byte ---- *)
Definition parse_heap_id (id : bytes) (hos hls : N) : outcome (N * N) :=
  b0 <- index id 0;;
  if negb ((b0 / 16) mod 4 =? 0) then Err                         (* (heapID[0] & 0x30) >> 4 != 0 *)
  else
    let no := N.min hos 6 in                                      (* for i < HeapOffsetSize && idx < 7 *)
    o <- slice id 1 (1 + no);;
    let nl := N.min hls (6 - no) in
    l <- slice id (1 + no) (1 + no + nl);;
    Ok (unle o, unle l).

(* ---- readHeapObject ---- *)
Definition read_heap_object (file : bytes) (blockAddr offset length O hos : N) : outcome bytes * alog :=
  let hs := 4 + 1 + O + hos in
  let log0 := [hs + 16] in
  match read_at_eof file blockAddr (hs + 16) with
  | Ok (hb, n) =>
      if n <? hs then (Err, log0)
      else if negb (bytes_eqb (firstn 4 hb) sigFHDB) then (Err, log0)
      else match slice hb (5 + O) (5 + O + hos) with
           | Ok bo =>
               let blockOffset := unle (firstn 8 bo) in
               if offset <? blockOffset then (Err, log0)
               else
                 let objAddr := wrap64 (blockAddr + (5 + O + hos) + (offset - blockOffset)) in
                 let '(r, l) := read_bytes_at file objAddr length in (r, log0 ++ l)
           | Err => (Err, log0)
           | Panic => (Panic, log0)
           end
  | Err => (Err, log0)
  | Panic => (Panic, log0)
  end.

(* ---- readDenseAttributes: the loop over the heap ids (object read, then ParseAttributeMessage = dec_attribute) ---- *)
Fixpoint dense_loop (file : bytes) (root O hos hls : N) (ids : list bytes) : outcome N * alog :=
  match ids with
  | [] => (Ok 0, [])
  | id :: r =>
      match parse_heap_id id hos hls with
      | Ok (off, len) =>
          match read_heap_object file root off len O hos with
          | (Ok obj, l) =>
              match dec_attribute false obj with
              | Ok _ => let '(res, l2) := dense_loop file root O hos hls r in
                        (match res with Ok t => Ok (1 + t) | Err => Err | Panic => Panic end, l ++ l2)
              | Err => (Err, l)
              | Panic => (Panic, l)
              end
          | (Err, l) => (Err, l)
          | (Panic, l) => (Panic, l)
          end
      | Err => (Err, [])
      | Panic => (Panic, [])
      end
  end.

Definition dense_read (file : bytes) (fhAddr btAddr O L : N) : outcome N * alog :=
  if (fhAddr =? 0) || (btAddr =? 0) then (Err, [])
  else
    match bt2_header_raw file btAddr O with
    | (Ok (root, nroot, _), l1) =>
        match bt2_leaf_records file root nroot with
        | (Ok ids, l2) =>
            match ids with
            | [] => (Ok 0, l1 ++ l2)
            | _ =>
                match fh_header_raw file fhAddr O L with
                | (Ok (hroot, hos, hls), l3) =>
                    let '(r, l4) := dense_loop file hroot O hos hls ids in
                    (r, l1 ++ l2 ++ l3 ++ [8 * N.of_nat (length ids)] ++ l4)   (* make([]*Attribute, 0, len(heapIDs)) *)
                | (Err, l3) => (Err, l1 ++ l2 ++ l3)
                | (Panic, l3) => (Panic, l1 ++ l2 ++ l3)
                end
            end
        | (Err, l2) => (Err, l1 ++ l2)
        | (Panic, l2) => (Panic, l1 ++ l2)
        end
    | (Err, l1) => (Err, l1)
    | (Panic, l1) => (Panic, l1)
    end.

(* ---- what the tie compares ---- *)
Definition bt2_val (file : bytes) (addr O : N) : val :=
  match bt2_header_raw file addr O with
  | (Ok (root, nroot, total), _) =>
      match fst (bt2_leaf_records file root nroot) with
      | Ok ids => VL [VN 0; vlistN ([nroot; total; root] ++ concat ids)]
      | Err => VL [VN 1]
      | Panic => VL [VN 2]
      end
  | (Err, _) => VL [VN 1]
  | (Panic, _) => VL [VN 2]
  end.

Definition fheap_val (file : bytes) (addr : N) (id : bytes) (O L : N) : val :=
  match fh_header_raw file addr O L with
  | (Ok (root, hos, hls), _) =>
      match parse_heap_id id hos hls with
      | Ok (off, len) => oval vlistN (fst (read_heap_object file root off len O hos))
      | Err => VL [VN 1]
      | Panic => VL [VN 2]
      end
  | (Err, _) => VL [VN 1]
  | (Panic, _) => VL [VN 2]
  end.

Definition dense_val (r : outcome N * alog) : val := oval (fun n => vlistN [n]) (fst r).
