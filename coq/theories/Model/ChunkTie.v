(* Executable predicates evaluated by the unit-level tie of C01/C13 (tools/props/c01unit.py) on the
   outputs of the Go code (harness subcommand c01unit).  No proofs. *)
From HV Require Import Base.Prelude Model.Chunk Model.Elem.
From Coq Require Import Uint63.

(* transport of byte strings: (length, little-endian 7-byte groups as primitive integers).
   String literals cost Coq about 100 microseconds per character to parse; primitive integer
   literals are more than ten times cheaper per byte. *)
Definition packed := (N * list int)%type.
Definition unpack (p : packed) : bytes :=
  firstn (N.to_nat (fst p)) (flat_map (fun i => le 7 (Z.to_N (Uint63.to_Z i))) (snd p)).

Definition nlist_eqb : list N -> list N -> bool := list_eqb N.eqb.

(* one chunk as reported by Go: coordinate, key, clipped size, padded bytes (hex) *)
Definition gochunk := (list N * list N * list N * packed)%type.

Definition chunk_ok (dims cdims : list N) (esz : N) (data : bytes) (g : gochunk) (c : list N) : bool :=
  let '(coord, key, size, hx) := g in
  nlist_eqb coord c && nlist_eqb key (chunk_key cdims c) && nlist_eqb size (chunk_size dims cdims c)
  && bytes_eqb (unpack hx) (extract_padded dims cdims esz data c).

Fixpoint forallb2 {A B} (f : A -> B -> bool) (a : list A) (b : list B) : bool :=
  match a, b with
  | [], [] => true
  | x :: a', y :: b' => f x y && forallb2 f a' b'
  | _, _ => false
  end.

(* (dims, cdims, dims the chunks are read under, esz, data, Go chunks, placement order
   ([] = index order), Go read ok, Go read bytes or None when they equal the data) *)
Definition tilecase := (list N * list N * list N * N * packed * list gochunk * list N * bool * option packed)%type.
Definition read_bytes (data : bytes) (r : option packed) : bytes :=
  match r with Some p => unpack p | None => data end.

Definition tile_ok (t : tilecase) : bool :=
  let '(dims, cdims, rdims, esz, dhx, gos, perm, ok, rhx) := t in
  let data := unpack dhx in
  let coords := all_chunk_coords dims cdims in
  let chunks := write_chunks dims cdims esz data in
  let ordered := match perm with
                 | [] => chunks
                 | _ => map (fun i => nth (N.to_nat i) chunks ([], [])) perm
                 end in
  forallb2 (chunk_ok dims cdims esz data) gos coords
  && match read_chunked rdims cdims esz ordered with
     | Ok r => ok && bytes_eqb r (read_bytes data rhx)
     | Err _ => negb ok
     end.

(* the specification evaluated by Coq on the Go output: tiling = identity, resize = resize_arr *)
Definition tile_spec_ok (t : tilecase) : bool :=
  let '(dims, cdims, rdims, esz, dhx, gos, perm, ok, rhx) := t in
  ok && bytes_eqb (read_bytes (unpack dhx) rhx) (resize_arr dims rdims esz (unpack dhx)).

(* (class, size, class bit field, raw hex, Go ok, Go float64 bit patterns) *)
Definition convcase := (N * nat * N * packed * bool * list N)%type.
Definition conv_supported (class : N) (size : nat) : bool :=
  ((class =? 0) || (class =? 1)) && (Nat.eqb size 4 || Nat.eqb size 8).
Definition conv_ok (c : convcase) : bool :=
  let '(class, size, bits, hx, ok, outs) := c in
  if conv_supported class size then ok && nlist_eqb (conv_all class size bits (unpack hx)) outs
  else negb ok.

(* (width, values, Go bytes hex) *)
Definition encintcase := (nat * list Z * packed)%type.
Definition encint_ok (c : encintcase) : bool :=
  let '(w, vals, hx) := c in bytes_eqb (flat_map (enc_int w) vals) (unpack hx).

(* (size, strings hex, Go bytes hex) / (size, raw hex, Go decoded strings hex) *)
Definition encstr_ok (c : nat * list string * string) : bool :=
  let '(n, strs, hx) := c in bytes_eqb (flat_map (fun s => enc_string n (unhex s)) strs) (unhex hx).
Definition decstr_ok (c : nat * string * list string) : bool :=
  let '(n, hx, outs) := c in
  let raw := unhex hx in
  forallb2 (fun e o => bytes_eqb (dec_string n e) (unhex o)) (split_every n (length raw) raw) outs.
