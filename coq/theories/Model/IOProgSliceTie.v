(* C17: executable predicate of the tie for the entry points of Model/IOProgSlice.v: the reader programs run on the
   same image, cut, failing call and kind as Dataset.ReadSlice / ReadHyperslab / ChunkIterator; compared: ok/err/panic
   class, the SEQUENCE of (offset, length) of the I/O calls made (the pread64 calls strace records for the Go call),
   and the value where the model carries it.  No proofs here. *)
From HV Require Import Base.Prelude Base.Outcome Base.Bytes Model.IOProg Model.IOProgReader Model.IOProgSlice Model.IOProgTie.
From HV Require Import Model.CodecSuper Model.CodecOhdr Model.CodecMsg.

(* run, recording the I/O calls in order (the failing call included) *)
Fixpoint runt {A} (f : bytes) (fl : oracle) (c : nat) (p : prog A) {struct p} : outcome A * nat * list (N * N) :=
  match p with
  | Ret a => (Ok a, c, [])
  | Fail => (Err, c, [])
  | Crash => (Panic, c, [])
  | ReadAt off len k =>
      let go := match fl c with
                | FailIO => false
                | ShortRead n => (len <=? n) && in_range f off len
                | NoFault => in_range f off len
                end in
      if go then match runt f fl (S c) (k (rd f off len)) with (o, c', t) => (o, c', (off, len) :: t) end
      else (Err, S c, [(off, len)])
  | ReadAtShort off len k =>
      match fl c with
      | FailIO => (Err, S c, [(off, len)])
      | ft => let g := limit ft f off len in
              match runt f fl (S c) (k (firstn (N.to_nat g) (rd f off len) ++ zeros (N.to_nat (len - g))) g) with
              | (o, c', t) => (o, c', (off, len) :: t)
              end
      end
  | Swallow p d k =>
      match runt f fl c p with
      | (Ok b, c', t) => match runt f fl c' (k b) with (o, c'', t') => (o, c'', t ++ t') end
      | (Err, c', t) => match runt f fl c' (k d) with (o, c'', t') => (o, c'', t ++ t') end
      | (Panic, c', t) => (Panic, c', t)
      end
  end.

Definition val_slice (x : slicedata) : option val :=
  match x with
  | SlEmpty => Some (VB [])
  | SlRun b => Some (VB b)
  | SlElems es => Some (VB (concat es))
  | _ => None
  end.

Definition val_iter (x : list (list N) * list N * list N) : option val :=
  Some (VL [VL (map (fun c => VL (map VN c)) (fst (fst x))); VL (map VN (snd (fst x))); VL (map VN (snd x))]).

(* op: 0 ReadSlice, 1 ReadHyperslab, 2 ChunkIterator (coordinates), 3 ChunkIterator + Chunk of every chunk *)
Definition slice_run (op : N) (sb : superblock') (img : bytes) (addr : N) (s : selection) (cut k : Z) (kind : N)
  : outcome (option val) * list (N * N) :=
  let f := if (cut <? 0)%Z then img else firstn (Z.to_nat cut) img in
  let fl := if (k <? 0)%Z then nofault else fault_at (Z.to_nat k) (fault_of kind) in
  let rc {A} (p : prog A) (g : A -> option val) := match runt f fl 0 p with (o, _, t) => (omap g o, t) end in
  if op =? 0 then rc (api_read_slice sb TIE_FUEL addr (s_start s) (s_count s)) val_slice
  else if op =? 1 then rc (api_read_hyperslab sb TIE_FUEL addr s) val_slice
  else if op =? 2 then rc (api_chunk_iterator sb TIE_FUEL addr) val_iter
  else if op =? 3 then rc (api_chunk_iterate sb TIE_FUEL addr) (fun _ => None)
  else (Err, []).

Fixpoint trace_eqb (a b : list (N * N)) : bool :=
  match a, b with
  | [], [] => true
  | (x, y) :: a', (x', y') :: b' => (x =? x') && (y =? y') && trace_eqb a' b'
  | _, _ => false
  end.

(* the Go trace is transported as (number of calls, checksum): string and list literals are slow to elaborate *)
Definition trace_sum (t : list (N * N)) : N :=
  fold_left (fun acc x => wrap64 (acc * 1000003 + fst x * 4099 + snd x + 1)) t 7.

(* case = (cut, failing call, kind code, Go class, Go trace (None: not recorded), Go value (None: not compared)) *)
Definition slice_tie_ok (op : N) (img : bytes) (addr : N) (s : selection)
  : (Z * Z * N * N * option (N * N) * option val) -> bool :=
  let sbo := run0 img p_superblock in
  fun case =>
    match case with
    | (cut, k, kind, cls, tr, v) =>
        match sbo with
        | Ok sb =>
            let r := slice_run op sb img addr s cut k kind in
            (oclass (fst r) =? cls) &&
            match tr with Some (n, cs) => (lenN' (snd r) =? n) && (trace_sum (snd r) =? cs) | None => true end &&
            match fst r, v with Ok (Some mv), Some gv => val_eqb mv gv | _, _ => true end
        | _ => false
        end
    end.

(* ---- Attribute.ReadValue of a variable-length string attribute (in process: the attribute keeps the reader) ---- *)
Fixpoint strip0r (b : bytes) : bytes :=      (* rev b without its leading zeros *)
  match b with 0 :: r => strip0r r | _ => b end.
Definition strip0 (b : bytes) : bytes := rev (strip0r (rev b)).

(* case = (cut, failing call, kind code, Go class, Go call count); vint = the Go value on the intact file *)
Definition attrval_tie_ok (img : bytes) (addr : N) (idx n : N) (vint : val) : (Z * Z * N * N * N) -> bool :=
  let sbo := run0 img p_superblock in
  fun case =>
    match case with
    | (cut, k, kind, cls, ncalls) =>
        match sbo with
        | Ok sb =>
            let r := run_case img cut k kind (api_read_attribute sb TIE_FUEL addr (vlen_walk sb (N.to_nat idx) n)) in
            (oclass (fst r) =? cls) && (N.of_nat (snd r) =? ncalls) &&
            match fst r with Ok x => val_eqb (VL (map (fun s => VB (strip0 s)) (snd x))) vint | _ => true end
        | _ => false
        end
    end.

(* ---- Dataset.ReadStrings / ReadCompound (in process through ReadDatasetStrings / ReadDatasetCompound): class and call
   count.  op 9 = strings, 10 = compound without variable-length members (the walk fetches nothing) ---- *)
Definition read2_tie_ok (op : N) (img : bytes) (addr : N) (vint : val) : (Z * Z * N * N * N) -> bool :=
  let sbo := run0 img p_superblock in
  fun case =>
    match case with
    | (cut, k, kind, cls, ncalls) =>
        match sbo with
        | Ok sb =>
            let r := if op =? 9 then let x := run_case img cut k kind (api_read_strings sb TIE_FUEL addr) in (omap (fun _ => tt) (fst x), snd x)
                     else let x := run_case img cut k kind (api_read_compound sb TIE_FUEL addr (fun _ => true) (fun _ => [])) in (omap (fun _ => tt) (fst x), snd x) in
            (oclass (fst r) =? cls) && (N.of_nat (snd r) =? ncalls)
        | _ => false
        end
    end.
