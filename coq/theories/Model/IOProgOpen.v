(* C17: hdf5.Open -- loading the object tree (file.go, group.go) as a reader program.
   The loader's mutable state (visitedBTrees, the set of objects being loaded, the load counter) is threaded
   explicitly.  [repaired] selects how readSignature (file.go:193) treats a failed read:
     false = /repo before 216d529 (notes/fixes/c17-read-signature-error.patch): "" is returned (an error is dropped),
     true  = since 216d529: the error is returned.
   No proofs here (Proofs/IOProgOpen.v). *)
From HV Require Import Base.Prelude Base.Outcome Base.Bytes Model.IOProg Model.IOProgReader.
From HV Require Import Model.CodecSuper Model.CodecOhdr Model.CodecMsg Model.CodecType Model.CodecLink.

Inductive node :=
| Grp (name : bytes) (addr : N) (children : list node)
| Dset (name : bytes) (addr : N)
| Dtyp (name : bytes) (addr : N).

Record lstate := { vbt : list N; loading : list N; cnt : N }.

Inductive req :=
| RObject (addr : N) (name : bytes)              (* loadObject *)
| RGroup (addr : N)                              (* loadGroup *)
| RModern (addr : N)                             (* loadModernGroup *)
| RTrad (addr : N)                               (* loadTraditionalGroup *)
| RCached (addr : N) (name : bytes) (bt hp : N). (* loadGroupWithCachedSymbolTable *)

Definition SNOD : bytes := [83; 78; 79; 68].
Definition rename (name : bytes) (n : node) : node :=
  match n with Grp _ a c => Grp name a c | Dset _ a => Dset name a | Dtyp _ a => Dtyp name a end.
Definition rename_nonempty (name : bytes) (n : node) : node := if blen name =? 0 then n else rename name n.
Definition mem (a : N) (l : list N) : bool := existsb (N.eqb a) l.

Section Loader.
Variable repaired : bool.
Variable sb : superblock'.
Variable budget : N.          (* File.maxLoads = fileSize/8 + 1024 (file.go:105) *)
Variable hfuel : nat.         (* fuel of the object header / dataset loops *)
Let be_ := spp_bigendian sb.
Let v0 := spp_version sb =? 0.

(* readSignature (file.go:193) *)
Definition p_sig {A} (addr : N) (k : bytes -> prog A) : prog A :=
  if repaired then ReadAt addr 4 k
  else Swallow (ReadAt addr 4 (fun b => Ret b)) [] k.       (* file.go:196  err != nil => return "" (before /repo 216d529) *)

(* ReadObjectHeader where only Messages / Type / Name are used afterwards: the attribute error kept in the header
   (objectheader.go:153) is not looked at *)
Definition with_header {A} (addr : N) (k : ohdr' -> prog A) : prog A :=
  bind (p_ohdr sb hfuel addr) (fun h =>
  Swallow (bind (p_attrs sb (ohp_msgs h)) (fun a => Ret (Some a))) None (fun _ => k h)).

(* determineObjectType (objectheader.go:161): 0 group, 1 dataset, 2 datatype, 3 unknown *)
Fixpoint det_type1 (ms : list hmsg') : option N :=
  match ms with
  | [] => None
  | m :: r => let t := hmp_type m in
              if (t =? 17) || (t =? 2) || (t =? 6) then Some 0 else if t =? 1 then Some 1 else det_type1 r
  end.
Definition det_type (ms : list hmsg') : N :=
  match det_type1 ms with
  | Some t => t
  | None => if existsb (fun m => hmp_type m =? 3) ms then 2 else 3
  end.

(* enterLoad (file.go:46) *)
Inductive entered := ECycle | ERefused | EOk (st : lstate).
Definition enter (st : lstate) (addr : N) : entered :=
  if mem addr (loading st) then ECycle
  else if 1024 <=? lenN' (loading st) then ERefused
  else if budget <? cnt st + 1 then ERefused
  else EOk {| vbt := vbt st; loading := addr :: loading st; cnt := cnt st + 1 |}.
Definition leave (st : lstate) (addr : N) : lstate :=
  {| vbt := vbt st; loading := filter (fun a => negb (a =? addr)) (loading st); cnt := cnt st |}.

(* first Symbol Table message with at least 16 bytes: (btree, heap)  (group.go:347, 546) *)
Fixpoint first_symtab (ms : list hmsg') : option (N * N) :=
  match ms with
  | [] => None
  | m :: r => if (hmp_type m =? 17) && (16 <=? blen (hmp_data m))
              then match dec_symtab be_ (hmp_data m) with Ok s => Some (st_btree s, st_heap s) | _ => None end
              else first_symtab r
  end.
(* loadModernGroup's loop keeps the LAST one (group.go:280) *)
Definition last_symtab (ms : list hmsg') : option (N * N) := first_symtab (rev ms).

(* ReadBTreeEntries (btree.go:31), "BTRE" nodes *)
Fixpoint p_btre_entries (n : nat) (addr : N) (i : N) : prog (list stentry) :=
  match n with
  | O => Ret []
  | S n' =>
      (* btree.go:68  r.ReadAt(entryBuf, offset), 24 bytes *)
      ReadAt (wrap64 (addr + 8 + i * 24)) 24 (fun e =>
        bind (lift (lo <- rd_end e 0 8 be_;; oa <- rd_end e 8 8 be_;; ct <- rd_end e 16 4 be_;; Ok (lo, oa, ct, 0, 0))) (fun x =>
        bind (p_btre_entries n' addr (i + 1)) (fun r => Ret (x :: r))))
  end.
Definition p_btre (addr : N) : prog (list stentry) :=
  (* btree.go:36  r.ReadAt(buf, address), 6 bytes *)
  ReadAt addr 6 (fun h =>
    if negb (bytes_eqb (firstn 4 h) [66; 84; 82; 69]) then Fail else
    bind (lift (index h 5)) (fun lv =>
    if negb (lv =? 0) then Fail else
    (* btree.go:53  r.ReadAt(entryCountBuf, address+6), 2 bytes *)
    ReadAt (wrap64 (addr + 6)) 2 (fun c =>
    bind (lift (rd_end c 0 2 be_)) (fun n => p_btre_entries (N.to_nat n) addr 0)))).

Fixpoint find_msg_first (ty : N) (ms : list hmsg') : option bytes :=
  match ms with [] => None | m :: r => if hmp_type m =? ty then Some (hmp_data m) else find_msg_first ty r end.

Definition is_soft (e : stentry) : bool := match e with (_, _, ct, _, _) => ct =? 2 end.

Section WithRec.
(* the recursive calls of the loader *)
Variable rec : req -> lstate -> prog (node * lstate).

Definition load_entry (heap : bytes) (e : stentry) (st : lstate) : prog (node * lstate) :=
  match e with
  | (lo, oa, ct, cb, ch) =>
      bind (lift (heap_string heap lo)) (fun name =>           (* group.go:465 / 487: the error is returned *)
      if (ct =? 1) && negb (cb =? 0) then rec (RCached oa name cb ch) st else rec (RObject oa name) st)
  end.

Fixpoint load_entries (heap : bytes) (es : list stentry) (st : lstate) : prog (list node * lstate) :=
  match es with
  | [] => Ret ([], st)
  | e :: r =>
      if is_soft e then load_entries heap r st else          (* group.go:461: soft links are skipped *)
      bind (load_entry heap e st) (fun x =>                     (* group.go:478 / 501: since /repo a539b60 the error is returned *)
      bind (load_entries heap r (snd x)) (fun y => Ret (fst x :: fst y, snd y)))
  end.

(* the entry loop of loadChildren (group.go:435-506) *)
Fixpoint children_loop (heap : bytes) (es : list stentry) (st : lstate) : prog (list node * lstate) :=
  match es with
  | [] => Ret ([], st)
  | e :: r =>
      if is_soft e then children_loop heap r st else          (* group.go:440 *)
      match e with
      | (lo, oa, ct, cb, ch) =>
          (* group.go:447  sig, err := readSignature(g.file.osFile, entry.ObjectAddress) *)
          p_sig oa (fun sg =>
            if (lo =? 0) && bytes_eqb sg SNOD then
              (* an unnamed symbol table node: its entries are listed in this group (group.go:451-484) *)
              bind (p_snod sb oa) (fun nes =>
              bind (load_entries heap nes st) (fun x =>
              bind (children_loop heap r (snd x)) (fun y => Ret (fst x ++ fst y, snd y))))
            else
              bind (load_entry heap e st) (fun x =>
              bind (children_loop heap r (snd x)) (fun y => Ret (fst x :: fst y, snd y))))
      end
  end.

(* Group.loadChildren (group.go:394) *)
Definition p_children (bt hp : N) (st : lstate) : prog (list node * lstate) :=
  if mem bt (vbt st) then Ret ([], st) else                    (* group.go:402: already visited: no children *)
  let st := {| vbt := bt :: vbt st; loading := loading st; cnt := cnt st |} in
  bind (p_local_heap sb hp) (fun heap =>
  (* group.go:414  btreeSig, err := readSignature(g.file.osFile, btreeAddr) *)
  p_sig bt (fun sg =>
    if bytes_eqb sg [84; 82; 69; 69] then bind (p_group_btree sb bt) (fun es => children_loop heap es st)
    else if bytes_eqb sg [66; 84; 82; 69] then bind (p_btre bt) (fun es => children_loop heap es st)
    else Fail)).                                              (* group.go:428: unknown signature (also "") *)

(* the local heap of the root group, looked up again (group.go:344-361, 540-555) *)
Definition root_heap (h : ohdr') : prog (option bytes) :=
  match first_symtab (ohp_msgs h) with
  | Some (_, ha) => bind (p_local_heap sb ha) (fun d => Ret (Some d))
  | None => Ret None
  end.

(* the child loop of loadTraditionalGroup (group.go:371-389): always loadObject *)
Fixpoint load_entries_trad (heap : bytes) (es : list stentry) (st : lstate) : prog (list node * lstate) :=
  match es with
  | [] => Ret ([], st)
  | e :: r =>
      if is_soft e then load_entries_trad heap r st else
      match e with
      | (lo, oa, _, _, _) =>
          bind (lift (heap_string heap lo)) (fun name =>
          bind (rec (RObject oa name) st) (fun x =>
          bind (load_entries_trad heap r (snd x)) (fun y => Ret (fst x :: fst y, snd y))))
      end
  end.

(* loadTraditionalGroup (group.go:324) *)
Definition p_trad (addr : N) (st : lstate) : prog (node * lstate) :=
  bind (p_snod sb addr) (fun es =>
  (* group.go:344  rootHeader, err := core.ReadObjectHeader(root); if err == nil {...}: the error is dropped here,
     group.go:359  if heap == nil { return error }: and converted to a failure there *)
  Swallow (with_header (spp_root sb) (fun h => Ret (Some h))) None (fun oh =>
    match oh with
    | None => Fail
    | Some h =>
        bind (root_heap h) (fun oheap =>
        match oheap with
        | None => Fail
        | Some heap => bind (load_entries_trad heap es st) (fun x => Ret (Grp [47] 0 (fst x), snd x))
        end)
    end)).

(* the link messages of loadModernGroup (group.go:249-275) *)
Fixpoint load_links (ms : list hmsg') (st : lstate) : prog (list node * lstate) :=
  match ms with
  | [] => Ret ([], st)
  | m :: r =>
      if negb (hmp_type m =? 6) then load_links r st else
      bind (lift (dec_link (spp_offsize sb) (hmp_data m))) (fun lk =>        (* group.go:254: a parse error is returned *)
      if lk_type lk =? 0 then
        bind (lift (read_uint (lk_value lk) (spp_offsize sb) be_)) (fun oa =>
        bind (rec (RObject oa (lk_name lk)) st) (fun x =>                    (* group.go:262: since /repo a539b60 the error is returned *)
        bind (load_links r (snd x)) (fun y => Ret (fst x :: fst y, snd y))))
      else load_links r st)                                                 (* soft / external links are not listed *)
  end.

(* loadModernGroup (group.go:226) *)
Definition p_modern (addr : N) (st : lstate) : prog (node * lstate) :=
  with_header addr (fun h =>
    let ty := det_type (ohp_msgs h) in
    let isGroup := (ty =? 0) || ((ty =? 3) && v0) in
    if negb isGroup then Ret (Grp (ohp_name h) addr [], st) else
    if existsb (fun m => hmp_type m =? 6) (ohp_msgs h) then
      bind (load_links (ohp_msgs h) st) (fun x => Ret (Grp (ohp_name h) addr (fst x), snd x))
    else
      let stab := match last_symtab (ohp_msgs h) with
                  | Some x => Some x
                  | None => if v0 && (addr =? spp_root sb) && negb (spp_rootbtree sb =? 0) && negb (spp_rootheap sb =? 0)
                            then Some (spp_rootbtree sb, spp_rootheap sb) else None      (* group.go:302 *)
                  end in
      match stab with
      | Some (bt, hp) => bind (p_children bt hp st) (fun x => Ret (Grp (ohp_name h) addr (fst x), snd x))
      | None => Ret (Grp (ohp_name h) addr [], st)
      end).

(* loadObject (group.go:511) *)
Definition p_object (addr : N) (name : bytes) (st0 : lstate) : prog (node * lstate) :=
  match enter st0 addr with
  | ECycle => Ret (Grp name addr [], st0)                        (* group.go:513: a link back to an enclosing group *)
  | ERefused => Fail
  | EOk st =>
      let done := fun (x : node * lstate) => Ret (fst x, leave (snd x) addr) in       (* defer file.leaveLoad(address) *)
      (* group.go:523  sig, err := readSignature(file.osFile, address) *)
      p_sig addr (fun sg =>
        if bytes_eqb sg SNOD then
          bind (p_snod sb addr) (fun es =>
          let trad := bind (p_trad addr st) (fun x => done (rename_nonempty name (fst x), snd x)) in
          match es with
          | [(lo, oa, _, _, _)] =>
              (* group.go:540  rootHeader, err := core.ReadObjectHeader(root); if err != nil { return nil, err } *)
              with_header (spp_root sb) (fun h =>
              bind (root_heap h) (fun oheap =>
              match oheap with
              | Some heap =>
                  (* group.go:559  linkName, err := heap.GetString(...); if err == nil && linkName == name: pure, on bytes read *)
                  match heap_string heap lo with
                  | Ok nm => if bytes_eqb nm name then bind (rec (RObject oa name) st) done else trad
                  | _ => trad
                  end
              | None => trad
              end))
          | _ => trad
          end)
        else
          (* group.go:580  header, err := core.ReadObjectHeader(file.osFile, address, file.sb) *)
          with_header addr (fun h =>
            let ty := det_type (ohp_msgs h) in
            if ty =? 0 then bind (rec (RGroup addr) st) (fun x => done (rename_nonempty name (fst x), snd x))
            else if ty =? 1 then done (Dset name addr, st)
            else if ty =? 2 then
              match find_msg_first 3 (ohp_msgs h) with
              | Some d => bind (lift (dec_datatype d)) (fun _ => done (Dtyp name addr, st))   (* group.go:608 *)
              | None => done (Dtyp name addr, st)
              end
            else if v0 then
              (* group.go:626  group, err := loadGroup(file, address); if err == nil { return group }: dropped,
                 group.go:635  return error: and converted *)
              Swallow (bind (rec (RGroup addr) st) (fun x => Ret (Some x))) None (fun ox =>
                match ox with
                | Some x => done (rename_nonempty name (fst x), snd x)
                | None => Fail
                end)
            else Fail))
  end.

(* loadGroup (group.go:205) *)
Definition p_group (addr : N) (st : lstate) : prog (node * lstate) :=
  if addr =? 0 then Fail else
  (* group.go:211  sig, err := readSignature(file.osFile, address) *)
  p_sig addr (fun sg => if bytes_eqb sg SNOD then rec (RTrad addr) st else rec (RModern addr) st).

(* loadGroupWithCachedSymbolTable (group.go:644) *)
Definition p_cached (addr : N) (name : bytes) (bt hp : N) (st : lstate) : prog (node * lstate) :=
  bind (p_children bt hp st) (fun x => Ret (Grp name addr (fst x), snd x)).

Definition dispatch (r : req) (st : lstate) : prog (node * lstate) :=
  match r with
  | RObject a n => p_object a n st
  | RGroup a => p_group a st
  | RModern a => p_modern a st
  | RTrad a => p_trad a st
  | RCached a n bt hp => p_cached a n bt hp st
  end.
End WithRec.

Fixpoint p_load (fuel : nat) (r : req) (st : lstate) : prog (node * lstate) :=
  match fuel with
  | O => Fail
  | S fuel' => dispatch (p_load fuel') r st
  end.
End Loader.

(* hdf5.Open (file.go:72).  fsize is what f.Stat() reports (file.go:87). *)
Definition p_open (repaired : bool) (fsize : N) (fuel hfuel : nat) : prog node :=
  (* file.go:134  isHDF5File: r.ReadAt(buf, 0), 8 bytes; an error means "not an HDF5 file" *)
  ReadAt 0 8 (fun s =>
    if negb (bytes_eqb s signature) then Fail else
    bind p_superblock (fun sb =>
    if fsize <=? spp_root sb then Fail else                       (* file.go:110 *)
    bind (p_load repaired sb (fsize / 8 + 1024) hfuel fuel (RGroup (spp_root sb)) {| vbt := []; loading := []; cnt := 0 |}) (fun x =>
    Ret (rename [47] (fst x))))).

Fixpoint val_node (n : node) : val :=
  match n with
  | Grp name _ ch => VL [VN 0; VB name; VL (map val_node ch)]
  | Dset name a => VL [VN 1; VB name; VN a]
  | Dtyp name a => VL [VN 2; VB name; VN a]
  end.
