(* C15 - executable model of the writable fractal heap
   (internal/structures/fractalheap_write.go, fractalheap_indirect.go), of the two read-only readers
   (internal/structures/fractalheap.go ReadObject, internal/core/attribute.go minimal dense-attribute
   reader) and the specification it is compared with.  No proofs here (Proofs/FHeap.v).

   Fixed context, as in every file the library writes (file_write.go / dataset_write.go): superblock with
   8-byte offsets, 8-byte lengths, little endian.  Heap parameters as set by NewWritableFractalHeap:
   heap id length 8, max heap size 16 bits (offset size 2), max managed object size 65536, table width 2.

   The capacity rule is a parameter [cap : N -> N] (object bytes a direct block of a given size accepts):
     cap_old size = size          the pinned tree (defect D12)
     cap_new size = size - 19     the repaired rule (prefix 5+8+2, checksum 4)
   Theorems are proved for cap_new; cap_old is kept to state the refutation. *)
From HV Require Import Base.Prelude Base.Crc32.

(* ------------------------------------------------------------------ small list vocabulary *)
Definition len {A} (l : list A) : N := N.of_nat (length l).
Definition zeros (n : N) : bytes := repeat 0 (N.to_nat n).
Definition take {A} (n : N) (l : list A) : list A := firstn (N.to_nat n) l.
Definition drop {A} (n : N) (l : list A) : list A := skipn (N.to_nat n) l.
(* s[off : off+n] when it is known to be in range *)
Definition slice {A} (l : list A) (off n : N) : list A := take n (drop off l).

(* Go's copy(dst, src): overwrites min(len dst, len src) leading bytes of dst *)
Fixpoint copy_into (dst src : bytes) : bytes :=
  match dst, src with
  | _ :: dr, s :: sr => s :: copy_into dr sr
  | _, _ => dst
  end.
(* copy(dst[off:], src), off <= len dst *)
Definition copy_at (dst : bytes) (off : N) (src : bytes) : bytes :=
  take off dst ++ copy_into (drop off dst) src.

Inductive res (A : Type) : Type := Ok (a : A) | Err.
Arguments Ok {A} a.
Arguments Err {A}.

(* ------------------------------------------------------------------ constants *)
Definition ID_LEN : N := 8.
Definition OFF_SZ : N := 2.          (* (MaxHeapSize 16 + 7) / 8 *)
Definition MAX_OBJ : N := 65536.
Definition TABLE_WIDTH : N := 2.
Definition MAX_HEAP_BITS : N := 16.
Definition PREFIX : N := 15.         (* "FHDB" 4 + version 1 + heap header address 8 + block offset 2 *)
Definition CKSUM : N := 4.
Definition HDR_BODY : N := 142.      (* 22 + 12*8 + 3*8 *)
Definition HDR_SIZE : N := 146.

Definition cap_old (size : N) : N := size.
Definition cap_new (size : N) : N := if size <? PREFIX + CKSUM then 0 else size - (PREFIX + CKSUM).

(* computeOffsetSize: bytes needed to store a value *)
Definition offset_size (v : N) : N := if v =? 0 then 1 else (N.size v + 7) / 8.
(* heap length size as the readers (and hence a loaded heap) compute it *)
Definition lensz_of (maxdb maxobj : N) : N := N.min (offset_size maxdb) (offset_size maxobj).

(* ------------------------------------------------------------------ state *)
Record dblock := mkDB {
  db_hdraddr : N;      (* HeapHeaderAddress *)
  db_boff : N;         (* BlockOffset *)
  db_size : N;         (* Size *)
  db_objs : bytes;     (* Objects *)
  db_free : N          (* FreeOffset *)
}.

Record heap := mkHeap {
  h_free : N;          (* Header.FreeSpace *)
  h_mansize : N;       (* Header.ManagedSpaceSize *)
  h_alloc : N;         (* Header.AllocatedManagedSpace *)
  h_manoff : N;        (* Header.ManagedSpaceOffset *)
  h_nobj : N;          (* Header.NumManagedObjects *)
  h_start : N;         (* Header.StartingBlockSize *)
  h_maxdb : N;         (* Header.MaxDirectBlockSize *)
  h_root : N;          (* Header.RootBlockAddress *)
  h_rows : N;          (* Header.CurrentNumRows *)
  h_lensz : N;         (* Header.HeapLengthSize *)
  h_blk : dblock;      (* fh.DirectBlock *)
  h_ind : option (list N);        (* fh.RootIndirectBlock: child addresses *)
  h_fhmax : N;         (* fh.MaxDirectBlockSize *)
  h_others : list (N * dblock);   (* fh.DirectBlocks without the entry that aliases fh.DirectBlock *)
  h_loaded : option (N * N)       (* loadedHeaderAddress, loadedDirectBlockAddress (0 = not loaded) *)
}.

Definition new_heap (bs : N) : heap :=
  mkHeap bs bs bs 0 0 bs bs 0 0 (offset_size MAX_OBJ)
         (mkDB 0 0 bs [] 0) None bs [] None.

(* fh.DirectBlocks as a list: after the transition the first entry IS fh.DirectBlock (same pointer) *)
Definition blocks_view (h : heap) : list (N * dblock) :=
  match h_ind h with
  | Some _ => (db_boff (h_blk h), h_blk h) :: h_others h
  | None => h_others h
  end.

Definition set_blk (h : heap) (b : dblock) : heap :=
  mkHeap (h_free h) (h_mansize h) (h_alloc h) (h_manoff h) (h_nobj h) (h_start h) (h_maxdb h) (h_root h)
         (h_rows h) (h_lensz h) b (h_ind h) (h_fhmax h) (h_others h) (h_loaded h).
Definition set_others (h : heap) (o : list (N * dblock)) : heap :=
  mkHeap (h_free h) (h_mansize h) (h_alloc h) (h_manoff h) (h_nobj h) (h_start h) (h_maxdb h) (h_root h)
         (h_rows h) (h_lensz h) (h_blk h) (h_ind h) (h_fhmax h) o (h_loaded h).
(* header statistics after a successful insertion of n bytes *)
Definition bump_stats (h : heap) (n : N) : heap :=
  mkHeap (sub64 (h_free h) n) (h_mansize h) (h_alloc h) (wrap64 (h_manoff h + n)) (wrap64 (h_nobj h + 1))
         (h_start h) (h_maxdb h) (h_root h) (h_rows h) (h_lensz h) (h_blk h) (h_ind h) (h_fhmax h)
         (h_others h) (h_loaded h).

(* ------------------------------------------------------------------ heap ids *)
(* encodeHeapID: 0x00, offset in OFF_SZ bytes (uint16 truncation), length in HeapLengthSize bytes, zero padding *)
Definition encode_id (lensz off n : N) : bytes :=
  0 :: le 2 off ++ le (N.to_nat lensz) n ++ zeros (ID_LEN - 1 - OFF_SZ - lensz).

(* common prefix of GetObject / OverwriteObject / DeleteObject *)
Definition parse_id (h : heap) (id : bytes) : res (N * N) :=
  match id with
  | [] => Err
  | flags :: _ =>
    if negb (N.shiftr (N.land flags 192) 6 =? 0) then Err
    else if negb (N.land flags 48 =? 0) then Err
    else if negb (len id =? ID_LEN) then Err
    else Ok (unle (slice id 1 OFF_SZ), unle (slice id (1 + OFF_SZ) (h_lensz h)))
  end.

(* ------------------------------------------------------------------ insertion *)
Definition needs_transition (cap : N -> N) (h : heap) (n : N) : bool :=
  match h_ind h with
  | Some _ => false
  | None => negb (db_free (h_blk h) + n <=? cap (db_size (h_blk h)))
  end.

(* transitionToIndirectRoot (cannot fail when called from InsertObject) *)
Definition transition (h : heap) : heap :=
  mkHeap (h_free h) (h_mansize h) (h_alloc h) (h_manoff h) (h_nobj h) (h_start h) (h_maxdb h) (h_root h)
         1 (h_lensz h) (h_blk h) (Some (zeros (1 * TABLE_WIDTH))) (h_fhmax h) (h_others h) (h_loaded h).

(* write n bytes of data at FreeOffset of a block *)
Definition blk_put (b : dblock) (data : bytes) : dblock :=
  let off := db_free b in
  let needed := off + len data in
  let objs := if len (db_objs b) <? needed then db_objs b ++ zeros (needed - len (db_objs b)) else db_objs b in
  mkDB (db_hdraddr b) (db_boff b) (db_size b) (copy_at objs off data) (db_free b + len data).

(* insertViaDirect *)
Definition insert_direct (cap : N -> N) (h : heap) (data : bytes) : heap * res bytes :=
  let b := h_blk h in
  let n := len data in
  if cap (db_size b) <? db_free b + n then (h, Err)
  else
    let off := db_free b in
    let h1 := bump_stats (set_blk h (blk_put b data)) n in
    (h1, Ok (encode_id (h_lensz h) off n)).

Fixpoint update_block (l : list (N * dblock)) (key : N) (b : dblock) : list (N * dblock) :=
  match l with
  | [] => []
  | (k, x) :: r => if k =? key then (k, b) :: r else (k, x) :: update_block r key b
  end.

(* store a modified block back under its key (the first block is fh.DirectBlock itself) *)
Definition put_block (h : heap) (key : N) (b : dblock) : heap :=
  if key =? db_boff (h_blk h) then set_blk h b else set_others h (update_block (h_others h) key b).

Definition fits (cap : N -> N) (n : N) (kb : N * dblock) : bool :=
  db_free (snd kb) + n <=? cap (db_size (snd kb)).

(* insertViaIndirect.  Go iterates the map fh.DirectBlocks in an unspecified order and takes the first
   block with room: ANY fitting block may be chosen.  [pick] selects among the fitting candidates. *)
Definition insert_indirect (cap : N -> N) (h : heap) (data : bytes) (pick : nat) : heap * res bytes :=
  let n := len data in
  let cands := filter (fits cap n) (blocks_view h) in
  match nth_error cands (Nat.modulo pick (Nat.max 1 (length cands))) with
  | Some (key, b) =>
      let off := db_free b in
      let h1 := bump_stats (put_block h key (blk_put b data)) n in
      (h1, Ok (encode_id (h_lensz h) (wrap64 (key + off)) n))
  | None =>
      let key := h_mansize h in
      let nb := mkDB 0 key (h_fhmax h) [] 0 in
      let existing := len (blocks_view h) in
      (* map insertion and statistics happen BEFORE the room check of the indirect block *)
      let h1 := mkHeap (wrap64 (h_free h + h_fhmax h)) (wrap64 (h_mansize h + h_fhmax h))
                       (wrap64 (h_alloc h + h_fhmax h)) (h_manoff h) (h_nobj h) (h_start h) (h_maxdb h)
                       (h_root h) (h_rows h) (h_lensz h) (h_blk h) (h_ind h) (h_fhmax h)
                       (h_others h ++ [(key, nb)]) (h_loaded h) in
      match h_ind h with
      | Some addrs =>
          if len addrs <=? existing then (h1, Err)
          else
            let h2 := bump_stats (put_block h1 key (blk_put nb data)) n in
            (h2, Ok (encode_id (h_lensz h) (wrap64 (key + 0)) n))
      | None => (h1, Err)
      end
  end.

(* InsertObject *)
Definition insert (cap : N -> N) (h : heap) (data : bytes) (pick : nat) : heap * res bytes :=
  let n := len data in
  if n =? 0 then (h, Err)
  else if MAX_OBJ <? n then (h, Err)
  else
    let h1 := if needs_transition cap h n then transition h else h in
    match h_ind h1 with
    | Some _ => insert_indirect cap h1 data pick
    | None => insert_direct cap h1 data
    end.

(* number of blocks that could take the object: > 1 means the Go result depends on map iteration order *)
Definition insert_choices (cap : N -> N) (h : heap) (data : bytes) : N :=
  let n := len data in
  if (n =? 0) || (MAX_OBJ <? n) then 0
  else
    let h1 := if needs_transition cap h n then transition h else h in
    match h_ind h1 with
    | Some _ => len (filter (fits cap n) (blocks_view h1))
    | None => 1
    end.

(* ------------------------------------------------------------------ get / overwrite / delete *)
Definition get_in (objs : bytes) (off n : N) : res bytes :=
  if len objs <=? off then Err
  else if len objs <? off + n then Err
  else Ok (slice objs off n).

Fixpoint get_indirect (l : list (N * dblock)) (goff n : N) : res bytes :=
  match l with
  | [] => Err
  | (k, b) :: r =>
      if (k <=? goff) && (goff <? k + db_size b) then get_in (db_objs b) (goff - k) n
      else get_indirect r goff n
  end.

Definition get (h : heap) (id : bytes) : res bytes :=
  match parse_id h id with
  | Err => Err
  | Ok (off, n) =>
      match h_ind h with
      | Some _ => get_indirect (blocks_view h) off n
      | None => get_in (db_objs (h_blk h)) off n
      end
  end.

Definition set_objs (b : dblock) (o : bytes) : dblock :=
  mkDB (db_hdraddr b) (db_boff b) (db_size b) o (db_free b).

(* OverwriteObject: always addresses fh.DirectBlock *)
Definition overwrite (h : heap) (id data : bytes) : heap * res unit :=
  match parse_id h id with
  | Err => (h, Err)
  | Ok (off, n) =>
      let objs := db_objs (h_blk h) in
      if negb (len data =? n) then (h, Err)
      else if len objs <=? off then (h, Err)
      else if len objs <? off + n then (h, Err)
      else
        let objs' := take off objs ++ copy_into (slice objs off n) data ++ drop (off + n) objs in
        (set_blk h (set_objs (h_blk h) objs'), Ok tt)
  end.

(* DeleteObject: zero-fill, count - 1, free space + length; nothing is remembered about the id *)
Definition delete (h : heap) (id : bytes) : heap * res unit :=
  match parse_id h id with
  | Err => (h, Err)
  | Ok (off, n) =>
      let objs := db_objs (h_blk h) in
      if len objs <=? off then (h, Err)
      else if len objs <? off + n then (h, Err)
      else
        let objs' := take off objs ++ zeros n ++ drop (off + n) objs in
        let h1 := set_blk h (set_objs (h_blk h) objs') in
        (mkHeap (wrap64 (h_free h1 + n)) (h_mansize h1) (h_alloc h1) (h_manoff h1) (sub64 (h_nobj h1) 1)
                (h_start h1) (h_maxdb h1) (h_root h1) (h_rows h1) (h_lensz h1) (h_blk h1) (h_ind h1)
                (h_fhmax h1) (h_others h1) (h_loaded h1), Ok tt)
  end.

(* ------------------------------------------------------------------ serialisation *)
Definition SIG_FRHP : bytes := [70;82;72;80].
Definition SIG_FHDB : bytes := [70;72;68;66].

(* writeHeaderAt: 142 bytes of fields + CRC-32 *)
Definition header_body (h : heap) : bytes :=
  SIG_FRHP ++ [0] ++ le 2 ID_LEN ++ le 2 0 ++ [0] ++ le 4 MAX_OBJ
  ++ le 8 0 ++ le 8 0                                   (* next huge id, huge b-tree address *)
  ++ le 8 (h_free h) ++ le 8 0                          (* free space, free section address *)
  ++ le 8 (h_mansize h) ++ le 8 (h_alloc h) ++ le 8 (h_manoff h) ++ le 8 (h_nobj h)
  ++ le 8 0 ++ le 8 0 ++ le 8 0 ++ le 8 0               (* huge / tiny statistics *)
  ++ le 2 TABLE_WIDTH ++ le 8 (h_start h) ++ le 8 (h_maxdb h) ++ le 2 MAX_HEAP_BITS ++ le 2 0
  ++ le 8 (h_root h) ++ le 2 (h_rows h).
Definition encode_header (h : heap) : bytes :=
  let b := header_body h in b ++ le 4 (crc32 b).

(* writeDirectBlockAt: a buffer of Size bytes; prefix; copy(buf[15:], Objects) TRUNCATES at the end of the
   buffer; the checksum then overwrites the last four bytes *)
Definition encode_dblock (b : dblock) : bytes :=
  let pre := SIG_FHDB ++ [0] ++ le 8 (db_hdraddr b) ++ le 2 (db_boff b) in
  let buf := pre ++ copy_into (zeros (db_size b - PREFIX)) (db_objs b) in
  let body := take (db_size b - CKSUM) buf in
  body ++ le 4 (crc32 body).

(* the byte file behind Writer / io.ReaderAt, and the bump allocator of the harness *)
Record fstate := mkFS { f_bytes : bytes; f_next : N }.
Definition fs0 : fstate := mkFS [] 2048.

Definition write_at (f : bytes) (addr : N) (data : bytes) : bytes :=
  let e := addr + len data in
  let f' := if len f <? e then f ++ zeros (e - len f) else f in
  take addr f' ++ data ++ drop e f'.
(* ReadAt that must fill the buffer *)
Definition read_at (f : bytes) (addr n : N) : res bytes :=
  if addr + n <=? len f then Ok (slice f addr n) else Err.
(* ReadAt tolerating io.EOF: whatever is there *)
Definition read_some (f : bytes) (addr n : N) : bytes := slice f addr n.

Definition set_addrs (h : heap) (ha ba : N) : heap :=
  let b := h_blk h in
  mkHeap (h_free h) (h_mansize h) (h_alloc h) (h_manoff h) (h_nobj h) (h_start h) (h_maxdb h) ba
         (h_rows h) (h_lensz h) (mkDB ha (db_boff b) (db_size b) (db_objs b) (db_free b)) (h_ind h)
         (h_fhmax h) (h_others h) (h_loaded h).

(* WriteAt for a loaded heap, WriteToFile otherwise: header and fh.DirectBlock only *)
Definition store_direct (h : heap) (fs : fstate) : heap * fstate * N :=
  match h_loaded h with
  | Some (ha, ba) =>
      let h1 := set_addrs h ha ba in
      let f1 := write_at (f_bytes fs) ha (encode_header h1) in
      let f2 := write_at f1 ba (encode_dblock (h_blk h1)) in
      (h1, mkFS f2 (f_next fs), ha)
  | None =>
      let ha := f_next fs in
      let ba := ha + HDR_SIZE in
      let h1 := set_addrs h ha ba in
      let f1 := write_at (f_bytes fs) ha (encode_header h1) in
      let f2 := write_at f1 ba (encode_dblock (h_blk h1)) in
      (h1, mkFS f2 (ba + db_size (h_blk h)), ha)
  end.

(* WriteToFile / WriteAt: a heap that moved to an indirect root is refused (ErrHeapFull) before anything is
   allocated, updated or written; otherwise header and root direct block are written *)
Definition store (h : heap) (fs : fstate) : res (heap * fstate * N) :=
  match h_ind h with
  | Some _ => Err
  | None => Ok (store_direct h fs)
  end.

(* ---- parsing *)
Definition get_le (n : N) (bs : bytes) : N * bytes := (unle (take n bs), drop n bs).

Record rhdr := mkRH {
  r_idlen : N; r_filt : N; r_flags : N; r_maxobj : N;
  r_free : N; r_mansize : N; r_alloc : N; r_manoff : N; r_nobj : N;
  r_tw : N; r_start : N; r_maxdb : N; r_maxheap : N; r_root : N; r_rows : N
}.

(* parseFractalHeapHeader on the 142 bytes read at the header address *)
Definition parse_header (buf : bytes) : res rhdr :=
  if negb (bytes_eqb (take 4 buf) SIG_FRHP) then Err
  else
    let b := drop 4 buf in
    let '(ver, b) := get_le 1 b in
    if negb (ver =? 0) then Err
    else
      let '(idlen, b) := get_le 2 b in
      let '(filt, b) := get_le 2 b in
      let '(flags, b) := get_le 1 b in
      let '(maxobj, b) := get_le 4 b in
      let '(_, b) := get_le 8 b in
      let '(_, b) := get_le 8 b in
      let '(free, b) := get_le 8 b in
      let '(_, b) := get_le 8 b in
      let '(mansize, b) := get_le 8 b in
      let '(alloc, b) := get_le 8 b in
      let '(manoff, b) := get_le 8 b in
      let '(nobj, b) := get_le 8 b in
      let '(_, b) := get_le 8 b in
      let '(_, b) := get_le 8 b in
      let '(_, b) := get_le 8 b in
      let '(_, b) := get_le 8 b in
      let '(tw, b) := get_le 2 b in
      let '(start, b) := get_le 8 b in
      let '(maxdb, b) := get_le 8 b in
      let '(maxheap, b) := get_le 2 b in
      let '(_, b) := get_le 2 b in
      let '(root, b) := get_le 8 b in
      let '(rows, _) := get_le 2 b in
      Ok (mkRH idlen filt flags maxobj free mansize alloc manoff nobj tw start maxdb maxheap root rows).

Definition ALL_ONES : N := 18446744073709551615.

(* readDirectBlockFromFile: (heap header address, block offset, data without the last 4 bytes) *)
Definition read_dblock_w (f : bytes) (addr size haddr : N) : res (N * N * bytes) :=
  if (addr =? 0) || (addr =? ALL_ONES) then Err
  else match read_at f addr size with
  | Err => Err
  | Ok buf =>
      if negb (bytes_eqb (take 4 buf) SIG_FHDB) then Err
      else if negb (unle (slice buf 4 1) =? 0) then Err
      else
        let ha := unle (slice buf 5 8) in
        if negb (ha =? haddr) then Err
        else
          let boff := unle (slice buf 13 OFF_SZ) in
          Ok (ha, boff, slice buf PREFIX (size - CKSUM - PREFIX))
  end.

(* NewWritableFractalHeap(bs) followed by LoadFromFile(file, addr) *)
Definition load (bs : N) (f : bytes) (addr : N) : res heap :=
  if (addr =? 0) || (addr =? ALL_ONES) then Err
  else match read_at f addr HDR_BODY with
  | Err => Err
  | Ok hb =>
    match parse_header hb with
    | Err => Err
    | Ok r =>
      if negb (r_rows r =? 0) then Err
      else match read_dblock_w f (r_root r) (r_start r) addr with
      | Err => Err
      | Ok (ha, boff, data) =>
          Ok (mkHeap (r_free r) (r_mansize r) (r_alloc r) (r_manoff r) (r_nobj r) (r_start r) (r_maxdb r)
                     (r_root r) (r_rows r) (lensz_of (r_maxdb r) (r_maxobj r))
                     (mkDB ha boff (r_start r) data (r_manoff r)) None bs [] (Some (addr, r_root r)))
      end
    end
  end.

(* ------------------------------------------------------------------ read-only readers *)
(* structures.FractalHeap.ReadObject *)
Definition ro_read (f : bytes) (addr : N) (id : bytes) : res bytes :=
  if (addr =? 0) || (addr =? ALL_ONES) then Err
  else match read_at f addr HDR_BODY with
  | Err => Err
  | Ok hb =>
    match parse_header hb with
    | Err => Err
    | Ok r =>
      match id with
      | [] => Err
      | flags :: rest =>
        if negb (N.shiftr (N.land flags 192) 6 =? 0) then Err
        else
          let ty := N.land flags 48 in
          let offsz := wrap8 (wrap16 (r_maxheap r + 7) / 8) in
          let lensz := lensz_of (r_maxdb r) (r_maxobj r) in
          if ty =? 0 then
            if len id <? 1 + offsz + lensz then Err
            else
              let off := unle (slice id 1 offsz) in
              let n := unle (slice id (1 + offsz) lensz) in
              if negb (r_rows r =? 0) then Err
              else if (r_root r =? 0) || (r_root r =? ALL_ONES) then Err
              else match read_at f (r_root r) (r_start r) with
              | Err => Err
              | Ok buf =>
                if negb (bytes_eqb (take 4 buf) SIG_FHDB) then Err
                else if negb (unle (slice buf 4 1) =? 0) then Err
                else if negb (unle (slice buf 5 8) =? addr) then Err
                else
                  let boff := unle (slice buf 13 offsz) in
                  let dend := if N.land (r_flags r) 2 =? 0 then r_start r else r_start r - 4 in
                  let data := slice buf (13 + offsz) (dend - (13 + offsz)) in
                  if off <? boff then Err
                  else
                    let rel := off - boff in
                    if len data <? rel then Err
                    else if len data <? rel + n then Err
                    else Ok (slice data rel n)
              end
          else if ty =? 32 then Ok rest      (* tiny: the id minus its first byte *)
          else Err
      end
    end
  end.

(* core.readDenseAttributes steps 3-4: readFractalHeapHeaderRaw + parseHeapID + readHeapObject.
   Fixed header offsets 110 / 132 (8-byte sizes); the id is cut to 7 bytes as the name index stores it. *)
Definition core_read (f : bytes) (addr : N) (id : bytes) : res bytes :=
  let got := read_some f addr 144 in
  if len got <? 20 then Err
  else
    let buf := got ++ zeros (144 - len got) in
    if negb (bytes_eqb (take 4 buf) SIG_FRHP) then Err
    else
      let maxobj := unle (slice buf 10 4) in
      let maxdb := unle (slice buf 120 8) in
      let maxheap := unle (slice buf 128 2) in
      let offsz := wrap8 ((wrap16 (maxheap + 7)) / 8) in
      let lensz := lensz_of maxdb maxobj in
      let root := unle (slice buf 132 8) in
      let id7 := take 7 (id ++ zeros 7) in
      let flags := nth 0 id7 0 in
      if negb (N.shiftr (N.land flags 48) 4 =? 0) then Err
      else
        let ob := take (N.min offsz 6) (drop 1 id7) in
        let lb := take lensz (drop (1 + N.min offsz 6) id7) in
        let off := unle ob in
        let n := unle lb in
        let hsz := 5 + 8 + offsz in
        let hb := read_some f root (hsz + 16) in
        if len hb <? hsz then Err
        else if negb (bytes_eqb (take 4 hb) SIG_FHDB) then Err
        else
          let boff := unle (slice hb 13 offsz) in
          if off <? boff then Err
          else
            let data := read_some f (root + hsz + (off - boff)) n in
            if len data <? n then Err else Ok data.

(* ------------------------------------------------------------------ histories *)
Inductive op :=
| Ins (d : bytes) (pick : nat)
| Get (id : bytes)
| Ovw (id d : bytes)
| Del (id : bytes)
| SL.                      (* write the heap out, load it back into a fresh heap *)

Inductive out := OId (id : bytes) | OData (d : bytes) | OUnit | OErr.

Definition out_of_unit (r : res unit) : out := match r with Ok _ => OUnit | Err => OErr end.

Definition step (cap : N -> N) (bs : N) (st : heap * fstate) (o : op) : heap * fstate * out :=
  let '(h, fs) := st in
  match o with
  | Ins d pick => let '(h1, r) := insert cap h d pick in
                  (h1, fs, match r with Ok id => OId id | Err => OErr end)
  | Get id => (h, fs, match get h id with Ok d => OData d | Err => OErr end)
  | Ovw id d => let '(h1, r) := overwrite h id d in (h1, fs, out_of_unit r)
  | Del id => let '(h1, r) := delete h id in (h1, fs, out_of_unit r)
  | SL => match store h fs with
          | Err => (h, fs, OErr)            (* write-out refused: nothing changed, nothing written *)
          | Ok (h1, fs1, ha) =>
              match load bs (f_bytes fs1) ha with
              | Ok h2 => (h2, fs1, OUnit)
              | Err => (h1, fs1, OErr)      (* the harness keeps working on the heap it stored *)
              end
          end
  end.

Fixpoint run (cap : N -> N) (bs : N) (st : heap * fstate) (hist : list op) : heap * fstate * list out :=
  match hist with
  | [] => (st, [])
  | o :: r => let '(h1, fs1, x) := step cap bs st o in
              let '(st2, xs) := run cap bs (h1, fs1) r in (st2, x :: xs)
  end.

(* ------------------------------------------------------------------ specification *)
(* Reference semantics: a finite map id -> bytes over an append-only address space.  An id is the pair
   (offset, length) in its 8-byte external form; space is never reused (MVP), so an insert fits iff
   vol + n <= usable, where vol is the volume of everything ever inserted. *)
Definition mkid (off n : N) : bytes := 0 :: le 2 off ++ le 3 n ++ [0; 0].

Record spec := mkSpec { sp_live : list (bytes * bytes); sp_vol : N }.
Definition spec0 : spec := mkSpec [] 0.

Fixpoint lookup (id : bytes) (l : list (bytes * bytes)) : option bytes :=
  match l with
  | [] => None
  | (k, v) :: r => if bytes_eqb k id then Some v else lookup id r
  end.
Fixpoint remove_id (id : bytes) (l : list (bytes * bytes)) : list (bytes * bytes) :=
  match l with
  | [] => []
  | (k, v) :: r => if bytes_eqb k id then r else (k, v) :: remove_id id r
  end.
Fixpoint replace_id (id d : bytes) (l : list (bytes * bytes)) : list (bytes * bytes) :=
  match l with
  | [] => []
  | (k, v) :: r => if bytes_eqb k id then (k, d) :: r else (k, v) :: replace_id id d r
  end.
Fixpoint sum_len (l : list (bytes * bytes)) : N :=
  match l with [] => 0 | (_, v) :: r => len v + sum_len r end.

Definition spec_count (sp : spec) : N := len (sp_live sp).
Definition spec_free (bs : N) (sp : spec) : N := bs - sum_len (sp_live sp).

(* None = the operation is outside the class the theorems cover (see the named predicates below) *)
Definition spec_step (bs : N) (sp : spec) (o : op) : option (spec * out) :=
  match o with
  | Ins d _ =>
      let n := len d in
      if (n =? 0) || (MAX_OBJ <? n) then Some (sp, OErr)
      else if cap_new bs <? sp_vol sp + n then None            (* does not fit one direct block *)
      else let id := mkid (sp_vol sp) n in
           Some (mkSpec (sp_live sp ++ [(id, d)]) (sp_vol sp + n), OId id)
  | Get id =>
      match lookup id (sp_live sp) with
      | Some d => Some (sp, OData d)
      | None => None                                            (* dead / foreign id: unspecified *)
      end
  | Ovw id d =>
      match lookup id (sp_live sp) with
      | Some old => if len d =? len old then Some (mkSpec (replace_id id d (sp_live sp)) (sp_vol sp), OUnit)
                    else Some (sp, OErr)
      | None => None
      end
  | Del id =>
      match lookup id (sp_live sp) with
      | Some _ => Some (mkSpec (remove_id id (sp_live sp)) (sp_vol sp), OUnit)
      | None => None
      end
  | SL => Some (sp, OUnit)
  end.

Fixpoint spec_run (bs : N) (sp : spec) (hist : list op) : option (spec * list out) :=
  match hist with
  | [] => Some (sp, [])
  | o :: r =>
      match spec_step bs sp o with
      | None => None
      | Some (sp1, x) =>
          match spec_run bs sp1 r with
          | None => None
          | Some (sp2, xs) => Some (sp2, x :: xs)
          end
      end
  end.

(* ---- the named exclusions (hypotheses of the theorems; each has a ..._refuted lemma) *)
(* total volume of the successful inserts stays within one direct block *)
Fixpoint one_block_from (bs vol : N) (hist : list op) : bool :=
  match hist with
  | [] => true
  | Ins d _ :: r =>
      let n := len d in
      if (n =? 0) || (MAX_OBJ <? n) then one_block_from bs vol r
      else (vol + n <=? cap_new bs) && one_block_from bs (vol + n) r
  | _ :: r => one_block_from bs vol r
  end.
Definition one_block (bs : N) (hist : list op) : bool := one_block_from bs 0 hist.

(* get / overwrite / delete only address ids that are live at that point *)
Fixpoint targets_live_from (bs : N) (sp : spec) (hist : list op) : bool :=
  match hist with
  | [] => true
  | o :: r =>
      let ok := match o with
                | Get id | Ovw id _ | Del id => match lookup id (sp_live sp) with Some _ => true | None => false end
                | _ => true
                end in
      ok && match spec_step bs sp o with
            | Some (sp1, _) => targets_live_from bs sp1 r
            | None => true
            end
  end.
Definition targets_live (bs : N) (hist : list op) : bool := targets_live_from bs spec0 hist.

(* block sizes for which 2-byte offsets address every byte *)
Definition bs_ok (bs : N) : bool := (PREFIX + CKSUM <? bs) && (bs <=? 65536).

(* decoded byte range of an id *)
Definition id_off (id : bytes) : N := unle (slice id 1 2).
Definition id_len (id : bytes) : N := unle (slice id 3 3).
Definition disjoint_ids (a b : bytes) : bool :=
  (id_off a + id_len a <=? id_off b) || (id_off b + id_len b <=? id_off a).


(* ------------------------------------------------------------------ vocabulary of the theorem statements *)
(* what the property asks of a heap state h that stands for the specification state sp *)
Definition observables (bs : N) (h : heap) (sp : spec) : Prop :=
  (forall id d, lookup id (sp_live sp) = Some d -> get h id = Ok d)
  /\ NoDup (map fst (sp_live sp))
  /\ ForallOrdPairs (fun a b => disjoint_ids (fst a) (fst b) = true) (sp_live sp)
  /\ h_nobj h = spec_count sp /\ h_free h = spec_free bs sp.


(* test objects: n bytes b, b+1, ... (mod 256) *)
Definition ramp_nat (b : N) (k : nat) : bytes :=
  (fix go (b : N) (k : nat) := match k with O => [] | S k' => (b mod 256) :: go (b + 1) k' end) b k.
Definition obj (b n : N) : bytes := ramp_nat b (N.to_nat n).

Definition outs_of (cap : N -> N) (bs : N) (hist : list op) : list out :=
  let '(_, _, outs) := run cap bs (new_heap bs, fs0) hist in outs.
Definition heap_of (cap : N -> N) (bs : N) (hist : list op) : heap :=
  let '(h, _, _) := run cap bs (new_heap bs, fs0) hist in h.
Definition file_of (cap : N -> N) (bs : N) (hist : list op) : fstate :=
  let '(_, fs, _) := run cap bs (new_heap bs, fs0) hist in fs.

