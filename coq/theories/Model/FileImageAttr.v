(* C02 at byte level: the byte image of the file that

     fw := CreateForWrite(file, CreateTruncate, WithSuperblockVersion(2))
     ds := fw.CreateDataset("/"+name, dtype, dims)
     ds.Write(data)
     ds.WriteAttribute(aname, value)                       (attribute_write.go:54 -> writeAttribute:211 -> writeCompactAttribute:251)
     fw.Close()

   leaves behind.  It is the image of Model/FileImage.v (image_v2) with ONE difference: WriteAttribute reads the dataset's
   object header back (core.ReadObjectHeader), appends one attribute message (type 12, flags 0) behind the datatype, dataspace
   and layout messages (core.AddMessageToObjectHeader, objectheader_write.go:366: refused beyond 255 message bytes - the writer
   then moves the attributes to dense storage, another file layout, not modelled here) and rewrites the header IN PLACE at the
   same address (core.WriteObjectHeader) inside the block of 7+255 bytes CreateDataset reserved for it; nothing else is allocated,
   no Attribute Info message is added, so every other block, every address and the end of file are those of image_v2.

   The attribute message is EncodeAttributeMessage (Model/CodecAttr.v enc_attribute: version 3, flags 0, name NUL-terminated,
   datatype, dataspace, value) of what inferDatatypeFromValue / encodeAttributeValue (attribute_write.go:961, :1139) make of the
   Go value:   intN / uintN / floatN  -> the registry datatype of that width, dataspace [1]  (sic: rank 1, extent 1), LE bytes
               []int32 []int64 []float32 []float64 (non-empty) -> element datatype, dataspace [len], LE bytes
               string s   -> (class 3 string, size len(s)+1, bit field 0), dataspace [1], s NUL
   The image is parametrised by (attribute name, datatype message, dataspace extents, value bytes); attr_of_kind gives these
   parameters for the value kinds above (the tie's kinds).

   The whole image is compared byte for byte with files written by the library on every run (tools/props/c02file.py).
   No proofs here (Proofs/FileImageAttr*.v; theorems Props/C02File.v). *)
From HV Require Import Base.Prelude Base.Outcome Base.Bytes.
From HV Require Import Model.CodecSuper Model.CodecOhdr Model.CodecMsg Model.CodecType Model.CodecLink Model.GroupWire
  Model.CodecAttr Model.FileImage.

Section ImageAttr.
Variable name : bytes.            (* the link name, without the leading "/" *)
Variables class size cbf : N.     (* the registry entry of the dataset's dtype *)
Variable dims : list N.
Variable data : bytes.
Variable aname : bytes.           (* the attribute's name *)
Variable adt : datatype.          (* what inferDatatypeFromValue returns: datatype ... *)
Variable adims : list N.          (* ... and the extents of the dataspace (MaxDims nil) *)
Variable adata : bytes.           (* encodeAttributeValue *)

(* the core.Attribute handed to EncodeAttributeFromStruct (attribute_write.go:265) *)
Definition attr_msg : attribute :=
  {| at_name := aname; at_dt := adt; at_ds := {| ds_dims := adims; ds_maxdims := [] |}; at_data := adata |}.

(* the header after AddMessageToObjectHeader: the three messages of CreateDataset, then the attribute message *)
Definition dset_ohdr_attr : ohdr :=
  {| oh_version := 2; oh_flags := 0; oh_refcount := 1;
     oh_msgs := [ {| hm_type := 3; hm_data := enc_datatype (dtype_msg class size cbf) |};
                  {| hm_type := 1; hm_data := enc_dataspace {| ds_dims := dims; ds_maxdims := [] |} |};
                  {| hm_type := 8; hm_data := enc_layout SBP (LContig (data_size size dims) DATA_ADDR) |};
                  {| hm_type := 12; hm_data := enc_attribute attr_msg |} ] |}.

(* WriteObjectHeader at the same address: the rewritten header is longer than the old one, the rest of the reserve stays zero *)
Definition dset_block_attr : bytes :=
  enc_ohdr_v2 dset_ohdr_attr ++ zeros (N.to_nat (OHDR_RESERVE - size_ohdr_v2 dset_ohdr_attr)).

Definition blocks_v2_attr : list bytes :=
  [ enc_superblock (final_sb data);
    heap_image (final_heap name) HEAP_ADDR;
    snod_block data;
    bt_write_at final_btnode 8 GROUP_K;
    enc_ohdr_v2 root_ohdr;
    data;
    dset_block_attr ].

Definition image_v2_attr : bytes := place_all blocks_v2_attr.

(* the compact path is taken iff the four messages fit the 255-byte chunk (objectheader_write.go:394) *)
Definition attr_fits : bool := chunk_size_v2 (oh_msgs dset_ohdr_attr) <=? 255.
End ImageAttr.

(* ------------------------------------------------------------------ the value kinds of WriteAttribute (the tie's kinds) *)

(* kind codes: 0..9 = int8 int16 int32 int64 uint8 uint16 uint32 uint64 float32 float64 (dtype_of_code);
   10..13 = []int32 []int64 []float32 []float64; 14 = string.  raw = the little-endian value bytes (string: its bytes) *)
Definition slice_elem_code (k : N) : N := match k with 10 => 2 | 11 => 3 | 12 => 8 | _ => 9 end.
Definition string_dt (n : N) : datatype :=
  {| dt_class := DT_STRING; dt_version := 1; dt_size := n; dt_cbf := 0; dt_props := [] |}.
Definition attr_of_kind (k : N) (raw : bytes) : datatype * list N * bytes :=
  if k <? 10 then let '(c, s, b) := dtype_of_code k in (dtype_msg c s b, [1], raw)
  else if k <? 14 then let '(c, s, b) := dtype_of_code (slice_elem_code k) in (dtype_msg c s b, [blen raw / s], raw)
  else (string_dt (blen raw + 1), [1], raw ++ [0]).
(* the raw bytes a value of that kind has *)
Definition attr_kind_raw_ok (k : N) (raw : bytes) : bool :=
  bytes_ok raw &&
  (if k <? 10 then let '(_, s, _) := dtype_of_code k in blen raw =? s
   else if k <? 14 then let '(_, s, _) := dtype_of_code (slice_elem_code k) in (0 <? blen raw) && (blen raw mod s =? 0)
   else (k =? 14) && forallb (fun b => negb (b =? 0)) raw).

(* an attribute name the compact path accepts: not empty (attribute.go:958) *)
Definition attr_name_ok (aname : bytes) : bool := negb (length aname =? 0)%nat && bytes_ok aname.

(* ------------------------------------------------------------------ tie (tools/props/c02file.py) *)
Definition image_attr_case_ok
  (c : list string * N * list N * list string * list string * N * list string * list string) : bool :=
  match c with
  | (name, code, dims, data, aname, akind, aval, file) =>
      let '(class, size, cbf) := dtype_of_code code in
      let '(adt, adims, adata) := attr_of_kind akind (unhex_parts aval) in
      bytes_eqb (image_v2_attr (unhex_parts name) class size cbf dims (unhex_parts data) (unhex_parts aname) adt adims adata)
                (unhex_parts file)
  end.
