(* Executable predicates evaluated by the correspondence check of C09 on implementation outputs. *)
From HV Require Import Base.Prelude Model.Hyperslab.

Definition olist_eqb (a b : option (list N)) : bool :=
  match a, b with
  | Some x, Some y => list_eqb N.eqb x y
  | None, None => true
  | _, _ => false
  end.

Inductive call := CallH (h : hsel) | CallS (start count : list N).

(* the model's answer *)
Definition run_call (lay : layout) (full dims : list N) (c : call) : option (list N) :=
  match c with
  | CallH h => read_hyperslab lay full dims h
  | CallS s n => read_slice lay full dims s n
  end.

(* the specification's answer (rank >= 1; the generated cases stay below MaxHyperslabElements) *)
Definition spec_call (full dims : list N) (c : call) : option (list N) :=
  match c with
  | CallH h => if validb h dims then Some (select full dims (axes_of h (length dims))) else None
  | CallS s n => if slice_validb s n dims then Some (select full dims (slice_axes s n)) else None
  end.

(* observation = what the Go code returned: Some values / None for an error *)
Definition model_ok (lay : layout) (full dims : list N) (co : call * option (list N)) : bool :=
  olist_eqb (run_call lay full dims (fst co)) (snd co).
Definition spec_ok (full dims : list N) (co : call * option (list N)) : bool :=
  olist_eqb (spec_call full dims (fst co)) (snd co).

(* chunk iterator: visited coordinates and pieces, in order *)
Definition piece_eqb (a b : list N * option (list N)) : bool :=
  list_eqb N.eqb (fst a) (fst b) && olist_eqb (snd a) (snd b).
Definition iter_ok (full dims cdims : list N) (obs : list (list N * option (list N))) : bool :=
  list_eqb piece_eqb (chunk_iterator full dims cdims) obs.

(* one dataset with its calls: indices (0-based) of the calls that disagree *)
Definition bad_model lay full dims (cs : list (call * option (list N))) : list N :=
  mismatches (model_ok lay full dims) cs.
Definition bad_spec full dims (cs : list (call * option (list N))) : list N :=
  mismatches (spec_ok full dims) cs.
