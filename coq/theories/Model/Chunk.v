(* Model of chunk extraction (writer) and chunk placement (reader); anchored in C01 and C13.

   Writer:  internal/writer/chunk_coordinator.go  NewChunkCoordinator (numChunks), GetTotalChunks,
            GetChunkCoordinate, GetChunkSize, ExtractPaddedChunkData/extractPaddedRecursive,
            GetChunkOffset;  dataset_write_chunked.go writeChunkedData (loop over all chunk indices).
   Reader:  internal/core/btree_v1.go (key.Scaled[j] = offset / chunkDims[j]),
            internal/core/dataset_reader.go readChunkedData, copyChunkToArray, copyNDChunk,
            copyNDChunkRecursive.

   Buffers are `list N` of bytes; dims / chunk dims / coordinates are `list N`; esz = element size.
   The Go code recurses over a dimension counter `dim` that indexes several slices; here the same
   recursion is structural over the dims list (head = dimension `dim`, tail = the later dimensions).
   Buffers are updated in place in Go; here every update is `blit` (Go: copy(dst[off:off+n], src)).
   copyNDChunkRecursive keeps an `indices` array and sums indices[i]*stride[i] in its base case; the
   model carries the two partial sums (coff, doff) instead - same values at the base case.

   uint64 arithmetic: every quantity computed below is bounded by the length of a Go slice that was
   allocated before (len(data) = prod dims * esz, len(chunk) = prod cdims * esz), or by
   dim + chunkDim; none can reach 2^64, so wrap64 would be the identity and is left out.  The one
   exception is `end - start` in GetChunkSize for a coordinate >= numChunks (never produced by the
   writer): Go wraps, the model truncates to 0.
   Go run-time panics (slice out of range in extractPaddedRecursive, index -1 for rank 0 in
   copyNDChunk) are outside the domain the writer/reader reach: the writer checks
   len(buf) = dataSize first.  The model is total there (rank 0 read = Err 4).
   No proofs in this file. *)
From HV Require Import Base.Prelude.

(* ---- small list vocabulary (N-indexed) ---- *)
Definition lenN {A} (l : list A) : N := N.of_nat (length l).
Definition takeN {A} (n : N) (l : list A) : list A := firstn (N.to_nat n) l.
Definition dropN {A} (n : N) (l : list A) : list A := skipn (N.to_nat n) l.
(* l[off : off+len] *)
Definition slice {A} (l : list A) (off len : N) : list A := takeN len (dropN off l).
Definition zerosN (n : N) : bytes := repeat 0 (N.to_nat n).
(* [0; 1; ...; n-1] *)
Definition rangeN (n : N) : list N := map N.of_nat (seq 0 (N.to_nat n)).
Definition prodN (l : list N) : N := fold_right N.mul 1 l.
(* copy(dst[off : off+len(src)], src) *)
Definition blit (dst : bytes) (off : N) (src : bytes) : bytes :=
  takeN off dst ++ src ++ dropN (off + lenN src) dst.
(* block k of a buffer made of blocks of B bytes *)
Definition blk (B k : N) (l : bytes) : bytes := slice l (k * B) B.

Fixpoint zipWith {A B C} (f : A -> B -> C) (a : list A) (b : list B) : list C :=
  match a, b with x :: a', y :: b' => f x y :: zipWith f a' b' | _, _ => [] end.

Inductive res (A : Type) : Type := Ok (a : A) | Err (code : N).
Arguments Ok {A} a. Arguments Err {A} code.
(* error codes of the reader model *)
Definition E_DIM_MISMATCH : N := 1.   (* "dimension mismatch" *)
Definition E_CHUNK_TRUNC  : N := 2.   (* "chunk data truncated" *)
Definition E_FULL_OVER    : N := 3.   (* "full data overflow" *)
Definition E_RANK0        : N := 4.   (* Go: index out of range [-1] (panic) *)
Definition E_ZERO_CDIM    : N := 5.   (* btree_v1.go: "chunk dimension is zero" *)

(* ---------------------------------------------------------------------------------------------- *)
(* Writer: ChunkCoordinator                                                                       *)
(* ---------------------------------------------------------------------------------------------- *)

(* numChunks[i] = (datasetDims[i] + chunkDims[i] - 1) / chunkDims[i] *)
Definition num_chunks (dims cdims : list N) : list N :=
  zipWith (fun d c => (d + c - 1) / c) dims cdims.

(* GetTotalChunks *)
Definition total_chunks (nc : list N) : N := prodN nc.

(* GetChunkCoordinate: for i := n-1 .. 0 { coord[i] = remaining % nc[i]; remaining /= nc[i] } *)
Fixpoint coord_rev (nc_rev : list N) (remaining : N) : list N :=
  match nc_rev with
  | [] => []
  | n :: r => (remaining mod n) :: coord_rev r (remaining / n)
  end.
Definition chunk_coord (nc : list N) (idx : N) : list N := rev (coord_rev (rev nc) idx).

(* GetChunkSize: start = coord*chunkDim; end = min(start+chunkDim, dim); size = end - start *)
Fixpoint chunk_size (dims cdims coord : list N) : list N :=
  match dims, cdims, coord with
  | d :: ds, c :: cs, x :: xs =>
      let start := x * c in
      let e := start + c in
      let e' := if d <? e then d else e in
      (e' - start) :: chunk_size ds cs xs
  | _, _, _ => []
  end.

(* extractPaddedRecursive; the lists are the suffixes [dim..] of datasetDims, chunkDims, validSize,
   coord; dsStride = esz * prod dims[dim+1..], chunkStride = esz * prod chunkDims[dim+1..] *)
Fixpoint extract_rec (dims cdims valid coord : list N) (esz : N) (src dst : bytes)
         (srcOff dstOff : N) {struct dims} : bytes :=
  match dims with
  | [] => blit dst dstOff (slice src srcOff esz)
  | _ :: dims' =>
      match cdims, valid, coord with
      | cd :: cdims', v :: valid', c :: coord' =>
          let dsStride := esz * prodN dims' in
          let chunkStride := esz * prodN cdims' in
          let start := c * cd in
          fold_left (fun dst i =>
                       extract_rec dims' cdims' valid' coord' esz src dst
                                   (srcOff + (start + i) * dsStride) (dstOff + i * chunkStride))
                    (rangeN v) dst
      | _, _, _ => dst
      end
  end.

(* ExtractPaddedChunkData *)
Definition extract_padded (dims cdims : list N) (esz : N) (data : bytes) (coord : list N) : bytes :=
  extract_rec dims cdims (chunk_size dims cdims coord) coord esz data
              (zerosN (prodN cdims * esz)) 0 0.

(* GetChunkOffset: the key stored in the chunk index (element offsets) *)
Definition chunk_key (cdims coord : list N) : list N := zipWith (fun x c => x * c) coord cdims.

(* writeChunkedData: for i := 0 .. total-1: coord = GetChunkCoordinate(i);
   (GetChunkOffset coord, ExtractPaddedChunkData buf coord) goes to the index *)
Definition all_chunk_coords (dims cdims : list N) : list (list N) :=
  let nc := num_chunks dims cdims in map (chunk_coord nc) (rangeN (total_chunks nc)).
Definition write_chunks (dims cdims : list N) (esz : N) (data : bytes) : list (list N * bytes) :=
  map (fun c => (chunk_key cdims c, extract_padded dims cdims esz data c)) (all_chunk_coords dims cdims).

(* ---------------------------------------------------------------------------------------------- *)
(* Reader                                                                                         *)
(* ---------------------------------------------------------------------------------------------- *)

(* btree_v1.go: key.Scaled[j] = byteOffset / chunkDims[j] *)
Definition scaled_of_key (cdims key : list N) : list N := zipWith (fun k c => k / c) key cdims.

(* strides[i] = prod dims[i+1..] *)
Fixpoint strides (dims : list N) : list N :=
  match dims with [] => [] | _ :: r => prodN r :: strides r end.

(* copyDims loop of copyNDChunk; None = the early `return nil` (chunk starts outside the extent) *)
Fixpoint copy_dims (coords csize dims : list N) : option (list N) :=
  match coords, csize, dims with
  | x :: xs, c :: cs, d :: ds =>
      let startPos := x * c in
      if d <=? startPos then None
      else
        let maxCopy := if d <? startPos + c then d - startPos else c in
        match copy_dims xs cs ds with
        | None => None
        | Some r => Some (maxCopy :: r)
        end
  | _, _, _ => Some []
  end.

(* dataOffset += chunkCoords[i] * chunkSize[i] * dataStrides[i] *)
Fixpoint data_offset (coords csize dstr : list N) : N :=
  match coords, csize, dstr with
  | x :: xs, c :: cs, s :: ss => x * c * s + data_offset xs cs ss
  | _, _, _ => 0
  end.

Definition bind_fold {A B} (f : A -> B -> res A) (l : list B) (a : A) : res A :=
  fold_left (fun acc b => match acc with Ok x => f x b | Err e => Err e end) l (Ok a).

(* copyNDChunkRecursive; lists are the suffixes [dim..]; coff = sum indices[i]*chunkStrides[i],
   doff = dataBaseOffset + sum indices[i]*dataStrides[i] over the dimensions already fixed *)
Fixpoint copy_rec (copyDims cstr dstr : list N) (chunk full : bytes) (coff doff esz : N)
         {struct copyDims} : res bytes :=
  match copyDims with
  | [] => Err E_RANK0
  | n :: rest =>
      match rest with
      | [] =>
          (* base case: one contiguous row *)
          let chunkOffset := coff * esz in
          let dataOffset := doff * esz in
          let numBytes := n * esz in
          if lenN chunk <? chunkOffset + numBytes then Err E_CHUNK_TRUNC
          else if lenN full <? dataOffset + numBytes then Err E_FULL_OVER
          else Ok (blit full dataOffset (slice chunk chunkOffset numBytes))
      | _ :: _ =>
          match cstr, dstr with
          | cs :: cstr', ds :: dstr' =>
              bind_fold (fun full i => copy_rec rest cstr' dstr' chunk full (coff + i * cs) (doff + i * ds) esz)
                        (rangeN n) full
          | _, _ => Err E_DIM_MISMATCH
          end
      end
  end.

(* copyNDChunk *)
Definition copy_nd_chunk (chunk full : bytes) (coords csize dims : list N) (esz : N) : res bytes :=
  match coords with
  | [] => Err E_RANK0
  | _ =>
      match copy_dims coords csize dims with
      | None => Ok full
      | Some cd =>
          let cstr := strides csize in
          let dstr := strides dims in
          copy_rec cd cstr dstr chunk full 0 (data_offset coords csize dstr) esz
      end
  end.

(* copyChunkToArray *)
Definition copy_chunk_to_array (chunk full : bytes) (coords csize dims : list N) (esz : N) : res bytes :=
  if negb (Nat.eqb (length coords) (length csize) && Nat.eqb (length coords) (length dims))
  then Err E_DIM_MISMATCH
  else copy_nd_chunk chunk full coords csize dims esz.

(* readChunkedData: rawData = zeros; for every (key, chunk bytes) of the index, in index order *)
Definition read_chunked (dims cdims : list N) (esz : N) (chunks : list (list N * bytes)) : res bytes :=
  if existsb (N.eqb 0) cdims then Err E_ZERO_CDIM
  else
    bind_fold (fun full kc => copy_chunk_to_array (snd kc) full (scaled_of_key cdims (fst kc)) cdims dims esz)
              chunks (zerosN (prodN dims * esz)).

(* ---------------------------------------------------------------------------------------------- *)
(* Specification functions (row-major arrays as nested blocks)                                    *)
(* ---------------------------------------------------------------------------------------------- *)

(* bytes of an array of extents dims *)
Definition vol (dims : list N) (esz : N) : N := prodN dims * esz.

(* C13: keep the elements inside both extents, zeros elsewhere (compare tools/histlib.py resize_arr) *)
Fixpoint resize_arr (old new : list N) (esz : N) (data : bytes) : bytes :=
  match old, new with
  | o :: old', n :: new' =>
      concat (map (fun k => if k <? o then resize_arr old' new' esz (blk (vol old' esz) k data)
                            else zerosN (vol new' esz))
                  (rangeN n))
  | _, _ => takeN esz data
  end.

(* element (esz bytes) at N-D index ix *)
Fixpoint get_elem (dims : list N) (esz : N) (data : bytes) (ix : list N) : bytes :=
  match dims, ix with
  | _ :: dims', i :: ix' => get_elem dims' esz (blk (vol dims' esz) i data) ix'
  | _, _ => takeN esz data
  end.

(* index inside the extents *)
Fixpoint in_extent (dims ix : list N) : bool :=
  match dims, ix with
  | d :: ds, i :: is_ => (i <? d) && in_extent ds is_
  | [], [] => true
  | _, _ => false
  end.

(* reading chunks that were written for old_dims under the dataspace new_dims (same chunk dims):
   what the library returns after Resize without a rewrite *)
Definition read_after_resize (old new cdims : list N) (esz : N) (data : bytes) : res bytes :=
  read_chunked new cdims esz (write_chunks old cdims esz data).

(* shrink to mid, then grow to new, no write in between: the chunk index is still the one of old *)
Definition resize_twice_spec (old mid new : list N) (esz : N) (data : bytes) : bytes :=
  resize_arr mid new esz (resize_arr old mid esz data).

(* admissible shapes: rank >= 1, same rank, all extents positive, element size positive *)
Definition shape_ok (dims cdims : list N) (esz : N) : Prop :=
  dims <> [] /\ length cdims = length dims /\
  Forall (fun x => 0 < x) dims /\ Forall (fun x => 0 < x) cdims /\ 0 < esz.

(* every intermediate extent is at least the smaller of the outer two *)
Fixpoint mid_covers (old mid new : list N) : Prop :=
  match old, mid, new with
  | o :: os, m :: ms, n :: ns => N.min o n <= m /\ mid_covers os ms ns
  | [], [], [] => True
  | _, _, _ => False
  end.

(* ---- any number of resizes after a full write ---- *)
(* the specification: resize_arr folded over the requested extents; state = (current extents, data) *)
Definition resize_chain (old : list N) (exts : list (list N)) (esz : N) (data : bytes) : list N * bytes :=
  fold_left (fun st e => (e, resize_arr (fst st) e esz (snd st))) exts (old, data).

(* pointwise order and minimum of extents of one rank *)
Fixpoint ext_le (a b : list N) : Prop :=
  match a, b with
  | x :: a', y :: b' => x <= y /\ ext_le a' b'
  | [], [] => True
  | _, _ => False
  end.
Definition pmin (a b : list N) : list N := zipWith N.min a b.

(* no extent of the chain is, in any dimension, below BOTH the extent the chunks were written for and the final one.
   The complement is exactly the class of KNOWN_FINDINGS C13-shrink-then-grow: some dimension is shrunk below a value
   that a later resize exceeds again, without a write in between. *)
Definition chain_covers (old : list N) (exts : list (list N)) : Prop :=
  Forall (fun m => ext_le (pmin old (last exts old)) m) exts.

(* ---- resizes and full writes in any order: what the library holds and returns ---- *)
Inductive rop : Type := RResize (e : list N) | RWrite (d : bytes).
(* library: (extents of the last full write = what the chunk index describes, its data, current dataspace extents);
   Resize rewrites the dataspace message only; Write (full, length checked against the current extents) writes all
   chunks and a new index *)
Definition lib_state : Type := (list N * bytes * list N)%type.
Definition lib_step (esz : N) (st : lib_state) (o : rop) : lib_state :=
  let '(wext, wdata, cur) := st in
  match o with
  | RResize e => if Nat.eqb (length e) (length cur) then (wext, wdata, e) else st
  | RWrite d => if lenN d =? vol cur esz then (cur, d, cur) else st
  end.
Definition lib_read (cdims : list N) (esz : N) (st : lib_state) : res bytes :=
  let '(wext, wdata, cur) := st in read_after_resize wext cur cdims esz wdata.
(* specification: (current extents, logical data) *)
Definition spec_step (esz : N) (st : list N * bytes) (o : rop) : list N * bytes :=
  match o with
  | RResize e => if Nat.eqb (length e) (length (fst st)) then (e, resize_arr (fst st) e esz (snd st)) else st
  | RWrite d => if lenN d =? vol (fst st) esz then (fst st, d) else st
  end.

Definition all_pos (l : list N) : bool := forallb (fun x => 0 <? x) l.

Definition res_eqb (a : res bytes) (b : bytes) : bool :=
  match a with Ok x => bytes_eqb x b | Err _ => false end.
