(* Executable predicates evaluated by the correspondence check of C20 on implementation outputs. *)
From HV Require Import Base.Prelude Model.LowFloat.

(* sign/NaN segments of the float32 bit-pattern line; the encoders are monotone inside a segment *)
Definition seg (x : N) : N :=
  if x <=? 2139095040 then 0           (* +0 .. +Inf *)
  else if x <? 2147483648 then 1       (* +NaN *)
  else if x <=? 4286578688 then 2      (* -0 .. -Inf *)
  else 3.                              (* -NaN *)

(* a run [s,e] -> c reported by the implementation agrees with the model at both end points *)
Definition run_ok (enc : N -> N) (r : N * N * N) : bool :=
  let '(s, e, c) := r in
  (s <=? e) && (seg s =? seg e) && (enc s =? c) && (enc e =? c).

Definition canon_nan (x : N) : N := if f32_is_nan x then f32_canon_nan else x.
