(* Executable predicates evaluated by the correspondence check of C20 on implementation outputs. *)
From HV Require Import Base.Prelude Model.LowFloat.

(* sign/NaN segments of the float32 bit-pattern line; the encoders are monotone inside a segment *)
Definition seg (x : N) : N :=
  if x <=? 2139095040 then 0           (* +0 .. +Inf *)
  else if x <? 2147483648 then 1       (* +NaN *)
  else if x <=? 4286578688 then 2      (* -0 .. -Inf *)
  else 3.                              (* -NaN *)

(* a run [s,e] -> c reported by the implementation agrees with the model at both end points *)
Definition run_ok (enc : N -> N) (r : N * N * N) : bool :=
  let '(s, e, c) := r in
  (s <=? e) && (seg s =? seg e) && (enc s =? c) && (enc e =? c).

Definition canon_nan (x : N) : N := if f32_is_nan x then f32_canon_nan else x.

(* bfloat16 keeps the payload of a NaN (code = bits>>16 | 0x40), so inside a NaN segment the encoder is
   neither constant nor monotone (0x7FBF.... -> 0x7FFF, 0x7FC0.... -> 0x7FC0).  There it depends on the
   upper 16 bits only, so a run in a NaN segment additionally has to stay inside one 65536-block;
   every run the real encoder produces does (adjacent blocks always get different codes). *)
Definition run_ok_bf16 (r : N * N * N) : bool :=
  let '(s, e, c) := r in
  run_ok bf16_enc r && (N.even (seg s) || (s / 65536 =? e / 65536)).
