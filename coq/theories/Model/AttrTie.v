(* Executable predicates evaluated by the unit-level correspondence check of C02 (tools/props/c02unit.py):
   the model of Model/Attr.v with name_hash := lookup3 and the parameter values of the source tree is run
   on a generated history; its per-call answers and final attribute list are compared with what the Go
   library answered / lists after Close and reopen. *)
From HV Require Import Base.Prelude Model.Attr Spec.Lookup3.

Definition lk3 (n : bytes) : N := hashlittle n 0.

(* constructors used by the generated case files (hex transport) *)
Definition W (n : string) (c s b : N) (d : list N) (x : string) : op :=
  OWrite (unhex n) (Some (mkValue c s b d (unhex x))).
Definition WB (n : string) : op := OWrite (unhex n) None.
Definition D (n : string) : op := ODelete (unhex n).
(* long runs of one byte (names of 65534 bytes ...) are transported as (count, byte) *)
Definition rp (k b : N) : bytes := repeat b (N.to_nat k).
Definition uh (s : string) : bytes := unhex s.
Definition Wb (n : bytes) (c s b : N) (d : list N) (x : bytes) : op := OWrite n (Some (mkValue c s b d x)).
Definition Db (n : bytes) : op := ODelete n.
Definition GAb (n : bytes) (c s b : N) (d : list N) (x : bytes) : attr := mkAttr n (mkValue c s b d x).
Definition GA (n : string) (c s b : N) (d : list N) (x : string) : attr :=
  mkAttr (unhex n) (mkValue c s b d (unhex x)).

Definition res_code (r : res) : N := match r with ROk => 0 | RErr => 1 end.   (* Go side: 2 = panic, never predicted *)

Definition value_eqb (a b : value) : bool :=
  (vclass a =? vclass b) && (vsize a =? vsize b) && (vbits a =? vbits b)
  && list_eqb N.eqb (vdims a) (vdims b) && bytes_eqb (vdata a) (vdata b).
Definition attr_eqb (a b : attr) : bool := bytes_eqb (aname a) (aname b) && value_eqb (aval a) (aval b).

Definition incl_b (l1 l2 : list attr) : bool := forallb (fun a => existsb (attr_eqb a) l2) l1.
Definition same_set (l1 l2 : list attr) : bool :=
  (N.of_nat (List.length l1) =? N.of_nat (List.length l2)) && incl_b l1 l2 && incl_b l2 l1.

(* which branch of the code a call takes (coverage statistics only): branch_of' below *)
(* the hash of every name of the history is computed once (lookup3 over N is the expensive part);
   names outside the table fall back to lk3, so [tbl_hash t] and [lk3] are the same function *)
Fixpoint tbl_get (t : list (bytes * N)) (n : bytes) : option N :=
  match t with [] => None | (k, x) :: r => if bytes_eqb k n then Some x else tbl_get r n end.
Fixpoint tbl_build (t : list (bytes * N)) (ns : list bytes) : list (bytes * N) :=
  match ns with
  | [] => t
  | n :: r => match tbl_get t n with Some _ => tbl_build t r | None => tbl_build ((n, lk3 n) :: t) r end
  end.
Definition tbl_hash (t : list (bytes * N)) (n : bytes) : N :=
  match tbl_get t n with Some x => x | None => lk3 n end.

Definition branch_of' (hash : bytes -> N) (P : params) (st : state) (o : op) : N :=
  match o with
  | OWrite _ None => 1
  | OWrite n (Some v) =>
    let a := mkAttr n v in
    match st with
    | Broken => 10
    | Compact attrs =>
      if N.of_nat (List.length attrs) <? p_maxc P then
        match replace_name n a attrs with
        | Some attrs' => if p_limit P <? hdr_size P attrs' then 4 else 3
        | None => if p_limit P <? hdr_size P attrs + (4 + msg_size a) then 6 else 5
        end
      else 2
    | Dense ix hp =>
      match idx_search (hash n) ix with
      | Some id => if msg_size a =? snd id then 7 else 8
      | None => 9
      end
    end
  | ODelete n =>
    match st with
    | Broken => 15
    | Compact attrs => match remove_name n attrs with Some _ => 11 | None => 12 end
    | Dense ix hp => match idx_search (hash n) ix with Some _ => 13 | None => 14 end
    end
  end.

(* one pass: final state, answers, branch tags *)
Fixpoint run_tagged (hash : bytes -> N) (P : params) (st : state) (h : list op) : state * list res * list N :=
  match h with
  | [] => (st, [], [])
  | o :: r =>
    let t := branch_of' hash P st o in
    let '(st1, x) := step hash P st o in
    let '(st2, xs, ts) := run_tagged hash P st1 r in
    (st2, x :: xs, t :: ts)
  end.

Definition form_code (st : state) : N := match st with Compact _ => 0 | Dense _ _ => 1 | Broken => 3 end.

(* a case: base (bytes of the non-attribute header messages), history, Go's per-call answers
   (0 ok / 1 error / 2 panic), Go's attribute list after reopen (listing order), Go's storage form
   (0 compact, 1 dense, 2 unknown) *)
Definition ucase := (N * list op * list N * list attr * N)%type.

(* code bits: 1 answers differ; 2 attribute sets differ; 4 listing order differs (not gating);
   8 storage form differs (not gating); 16 model left its domain (heap overflow) *)
Definition check_case (c : ucase) : list N :=
  let '(base, h, gres, gattrs, gform) := c in
  let P := go_params base in
  let hash := tbl_hash (tbl_build [] (names h)) in
  let '(st, rs, tags) := run_tagged hash P init h in
  let b1 := if list_eqb N.eqb (map res_code rs) gres then 0 else 1 in
  let code :=
    match st with
    | Broken => b1 + 16
    | _ =>
      match read_attrs st with
      | None => b1 + 2
      | Some l =>
        b1 + (if same_set l gattrs then 0 else 2)
           + (if list_eqb (fun x y => attr_eqb x y) l gattrs then 0 else 4)
           + (if (gform =? 2) || (gform =? form_code st) then 0 else 8)
      end
    end in
  code :: tags.

(* the model's observables, printed for the cases that disagree *)
Definition show_value (v : value) := (vclass v, vsize v, vbits v, vdims v, vdata v).
Definition show_case (c : ucase) :=
  let '(base, h, _, _, _) := c in
  let '(st, rs) := run lk3 (go_params base) init h in
  (map res_code rs,
   match read_attrs st with Some l => map (fun a => (aname a, show_value (aval a))) l | None => [] end,
   form_code st).
