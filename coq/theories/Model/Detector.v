(* C19 part B, the observation side: executable model of WorkloadDetector (internal/rebalancing/detector.go:
   RecordOperation, ExtractFeatures, detectBurst, DetectWorkloadType) and of SmartRebalancer.Evaluate
   (smart.go:491-532) = extract + classify + ConfigSelector.SelectConfig, all on one clock.

   The ring buffer is the list of the last [capacity] events, oldest first (the order in which
   ExtractFeatures scans it).  Ratios are float64 divisions of exact small integers, done with
   Coq.Floats.SpecFloat like the rest of the selector model.  OperationRate is not modelled (it only
   feeds Decision.Factors).  No proofs in this file; the theorems of Props/C19.v hold for arbitrary
   features, hence in particular for the extracted ones. *)
From Coq Require Import Floats.SpecFloat.
From HV Require Import Base.Prelude Model.Selector.

Open Scope Z_scope.

Definition f64_of_Z (n : Z) : f64 := bits_of_sf (binary_normalize 53 1024 n 0 false).   (* float64(n) *)
Definition f64_div (a b : f64) : f64 := bits_of_sf (SFdiv 53 1024 (sf_of_bits a) (sf_of_bits b)).

Definition event := (Z * Z * N)%type.      (* OperationType, Timestamp (ns), FileSize *)
Definition OpRead : Z := 0.
Definition OpWrite : Z := 1.
Definition OpDelete : Z := 2.

(* WithWindowSize / WithMinSampleSize / WithCapacity ignore non-positive values *)
Definition eff_window (w : Z) : Z := if 0 <? w then w else 300000000000.
Definition eff_min_samples (m : Z) : Z := if 0 <? m then m else 10.
Definition eff_capacity (c : Z) : Z := if 0 <? c then c else 10000.

(* RecordOperation: events[head] = event; head = (head+1) % capacity; size saturates at capacity *)
Definition record_event (capacity : Z) (ev : event) (l : list event) : list event :=
  let l' := l ++ [ev] in
  if capacity <? Z.of_nat (List.length l') then tl l' else l'.

Record scan := mkScan { sc_valid : Z; sc_del : Z; sc_wr : Z; sc_rd : Z; sc_first : Z; sc_last : Z; sc_size : N }.

Definition scan_step (cutoff : Z) (a : scan) (ev : event) : scan :=
  let '(ty, ts, size) := ev in
  if ts <? cutoff then a        (* event.Timestamp.Before(cutoff) *)
  else
    mkScan (sc_valid a + 1)
           (if ty =? OpDelete then sc_del a + 1 else sc_del a)
           (if ty =? OpWrite then sc_wr a + 1 else sc_wr a)
           (if ty =? OpRead then sc_rd a + 1 else sc_rd a)
           (if is_zero_time (sc_first a) || (ts <? sc_first a) then ts else sc_first a)
           (if is_zero_time (sc_last a) || (sc_last a <? ts) then ts else sc_last a)
           size.

Definition extract_features (window min_samples : Z) (evs : list event) (now : Z) : features :=
  let cutoff := now - window in
  let a := fold_left (scan_step cutoff) evs (mkScan 0 0 0 0 zero_instant zero_instant 0%N) in
  let total := f64_of_Z (sc_valid a) in
  let ratio (k : Z) := if f64_gt total c_0 then f64_div (f64_of_Z k) total else c_0 in
  (* detectBurst *)
  let burst :=
    if sc_valid a <? min_samples then false
    else if negb (is_zero_time (sc_first a)) && negb (is_zero_time (sc_last a))
         then sat_sub (sc_last a) (sc_first a) <? Z.quot window 5
         else false in
  mkFeatures (ratio (sc_del a)) (ratio (sc_wr a)) (ratio (sc_rd a)) burst (sc_size a) (sc_valid a).

(* one step of a session: op = 9 -> Evaluate, otherwise RecordOperation(op) at file size [size] *)
Definition estep := (Z * N * Z)%type.       (* op, size, clock reading *)

Record eout := mkEout { e_dec : decision; e_w : Z; e_feat : features }.

Fixpoint run_session (p : bool) (c : constraints) (window min_samples capacity : Z)
         (evs : list event) (st : cstate) (steps : list estep) : list eout :=
  match steps with
  | [] => []
  | (op, size, now) :: r =>
      if op =? 9 then
        let f := extract_features window min_samples evs now in
        let w := classify min_samples f in
        let sd := select_config p rule_select st c f w now in
        mkEout (snd sd) w f :: run_session p c window min_samples capacity evs (fst sd) r
      else run_session p c window min_samples capacity (record_event capacity (op, now, size) evs) st r
  end.

(* ---- the tie ---- *)
Definition tfeat := (Z * N * N * N * bool * N * Z)%type.   (* workload type, del, write, read, burst, size, samples *)
Definition tego := (string * N * N * tfeat)%type.          (* mode, confidence bits, config kind, features *)
Definition ecase := (bool * (N * Z * list string) * (Z * Z * Z) * list estep * list tego)%type.

Definition tego_of (o : eout) : tego :=
  (d_mode (e_dec o), d_conf (e_dec o), d_cfg (e_dec o),
   (e_w o, f_delete (e_feat o), f_write (e_feat o), f_read (e_feat o), f_burst (e_feat o), f_file_size (e_feat o), f_samples (e_feat o))).

Definition tego_eqb (a b : tego) : bool :=
  let '(m1, c1, k1, (w1, d1, wr1, r1, b1, s1, n1)) := a in
  let '(m2, c2, k2, (w2, d2, wr2, r2, b2, s2, n2)) := b in
  String.eqb m1 m2 && (c1 =? c2)%N && (k1 =? k2)%N && (w1 =? w2) && (d1 =? d2)%N && (wr1 =? wr2)%N && (r1 =? r2)%N
  && Bool.eqb b1 b2 && (s1 =? s2)%N && (n1 =? n2).

Definition eval_answers (c : ecase) : list tego :=
  let '(p, (mc, ms, al), (window, min_samples, capacity), steps, _) := c in
  map tego_of (run_session p (mkConstraints mc ms al) (eff_window window) (eff_min_samples min_samples)
                           (eff_capacity capacity) [] cstate0 steps).

Definition eval_case_ok (c : ecase) : bool :=
  let '(_, _, _, _, gos) := c in list_eqb tego_eqb (eval_answers c) gos.
