(* Executable predicates evaluated by the unit-level tie of C01 (tools/props/c01unit.py, index part) on the outputs
   of the Go code (harness subcommand c01unit, modes index / indexraw).  No proofs. *)
From HV Require Import Base.Prelude Model.Chunk Model.ChunkTie Base.Outcome Base.Bytes Model.RobustTerm Model.ChunkIndex.
From Coq Require Import Uint63.

(* an entry as Go's CollectAllChunks reports it: Scaled, Nbytes, FilterMask, Address *)
Definition gentry := (list N * N * N * N)%type.
Definition gentry_eqb (g : gentry) (e : centry) : bool :=
  let '(sc, nb, fm, ad) := g in
  nlist_eqb sc (k_scaled (fst e)) && (nb =? k_nbytes (fst e)) && (fm =? k_mask (fst e)) && (ad =? snd e).

(* ParseBTreeV1Node(root, osz, ndims, cdims) + CollectAllChunks(osz, cdims), ndims given separately as in Go *)
Definition read_index_nd (rep : bool) (f : bytes) (root osz : N) (ndims : nat) (cdims : list N) : cres (list centry) :=
  match parse_node rep f root osz ndims cdims with
  | Err => CErr
  | Panic => CPanic
  | Ok nd => collect_all_chunks rep f osz cdims nd
  end.

Definition read_matches (r : cres (list centry)) (gclass : N) (gents : list gentry) : bool :=
  match r with
  | COk l => (gclass =? 0) && forallb2 gentry_eqb gents l
  | CErr => gclass =? 1
  | CPanic => gclass =? 2
  | CFuel => false
  end.

(* (dim, cdims, entries, eof, Go write ok, Go root, Go end of file after the call, Go file after the call, Go read
   class, Go read entries): the model writer on eof zero bytes leaves the same file and end of file (ALSO when the call
   is refused: nothing written, nothing allocated) and returns the same root; the model reader on that file returns
   what Go's reader returned.  rep = the repair switch read from the source tree under test. *)
Definition iwcase := (nat * list N * list wentry * N * bool * N * N * packed * N * list gentry)%type.
Definition iw_ok (rep : bool) (c : iwcase) : bool :=
  let '(dim, cdims, es, eof, gok, groot, geof, gfile, gclass, gents) := c in
  match write_index_st rep dim es (zeros (N.to_nat eof)) eof with
  | (f', eof', Ok root) =>
      gok && (root =? groot) && (eof' =? geof) && bytes_eqb f' (unpack gfile)
      && read_matches (read_index_nd rep f' root 8 (length cdims) cdims) gclass gents
  | (f', eof', Err) => negb gok && (eof' =? geof) && bytes_eqb f' (unpack gfile)
  | (_, _, Panic) => false
  end.

(* (file without its trailing zero bytes, number of trailing zero bytes, root, osz, ndims, cdims, Go class, Go entries) *)
Definition ircase := (packed * N * N * N * nat * list N * N * list gentry)%type.
Definition ir_ok (rep : bool) (c : ircase) : bool :=
  let '(file, ztail, root, osz, ndims, cdims, gclass, gents) := c in
  read_matches (read_index_nd rep (unpack file ++ zeros (N.to_nat ztail)) root osz ndims cdims) gclass gents.

(* ---- long nodes (65535 / 65536 entries): the same two predicates with a lossless compact transport of the lists.
   An arithmetic run (e, ds, da, k) stands for the k entries e_i = e with Scaled[0] + i*ds and Address + i*da,
   i = 0 .. k-1 (tools/props/c01unit.py compresses Go's output greedily; runs of length 1 are ordinary entries). *)
Definition arun := (gentry * N * N * N)%type.
(* [i; i+1; ...] of the given length (rangeN converts every index from nat: quadratic for 65536 elements) *)
Fixpoint countN (len : nat) (i : N) : list N := match len with O => [] | S l => i :: countN l (i + 1) end.
Definition upto (k : N) : list N := countN (N.to_nat k) 0.
Definition bump_head (l : list N) (d : N) : list N := match l with [] => [] | x :: r => (x + d) :: r end.
Definition expand_run (r : arun) : list gentry :=
  let '((sc, nb, fm, ad), ds, da, k) := r in
  map (fun i => (bump_head sc (i * ds), nb, fm, ad + i * da)) (upto k).
Definition expand_runs (l : list arun) : list gentry := flat_map expand_run l.

(* written entries as runs: (coord, addr, nbytes) with coord[0] + i*dc, addr + i*da *)
Definition wrun := (wentry * N * N * N)%type.
Definition expand_wrun (r : wrun) : list wentry :=
  let '((co, ad, nb), dc, da, k) := r in
  map (fun i => (bump_head co (i * dc), ad + i * da, nb)) (upto k).
Definition expand_wruns (l : list wrun) : list wentry := flat_map expand_wrun l.

Definition irlcase := (packed * N * N * N * nat * list N * N * list arun)%type.
Definition irl_ok (rep : bool) (c : irlcase) : bool :=
  let '(file, ztail, root, osz, ndims, cdims, gclass, gruns) := c in
  ir_ok rep (file, ztail, root, osz, ndims, cdims, gclass, expand_runs gruns).

Definition iwlcase := (nat * list N * list wrun * N * bool * N * N * packed * N * list arun)%type.
Definition iwl_ok (rep : bool) (c : iwlcase) : bool :=
  let '(dim, cdims, wruns, eof, gok, groot, geof, gfile, gclass, gruns) := c in
  iw_ok rep (dim, cdims, expand_wruns wruns, eof, gok, groot, geof, gfile, gclass, expand_runs gruns).
