(* Executable predicates evaluated by the unit-level tie of C01 (tools/props/c01unit.py, index part) on the outputs
   of the Go code (harness subcommand c01unit, modes index / indexraw).  No proofs. *)
From HV Require Import Base.Prelude Model.Chunk Model.ChunkTie Base.Outcome Base.Bytes Model.RobustTerm Model.ChunkIndex.
From Coq Require Import Uint63.

(* an entry as Go's CollectAllChunks reports it: Scaled, Nbytes, FilterMask, Address *)
Definition gentry := (list N * N * N * N)%type.
Definition gentry_eqb (g : gentry) (e : centry) : bool :=
  let '(sc, nb, fm, ad) := g in
  nlist_eqb sc (k_scaled (fst e)) && (nb =? k_nbytes (fst e)) && (fm =? k_mask (fst e)) && (ad =? snd e).

(* ParseBTreeV1Node(root, osz, ndims, cdims) + CollectAllChunks(osz, cdims), ndims given separately as in Go *)
Definition read_index_nd (f : bytes) (root osz : N) (ndims : nat) (cdims : list N) : cres (list centry) :=
  match parse_node f root osz ndims cdims with
  | Err => CErr
  | Panic => CPanic
  | Ok nd => collect_all_chunks f osz cdims nd
  end.

Definition read_matches (r : cres (list centry)) (gclass : N) (gents : list gentry) : bool :=
  match r with
  | COk l => (gclass =? 0) && forallb2 gentry_eqb gents l
  | CErr => gclass =? 1
  | CPanic => gclass =? 2
  | CFuel => false
  end.

(* (dim, cdims, entries, eof, Go write ok, Go root, Go file, Go read class, Go read entries):
   the model writer on eof zero bytes produces the same file and root; the model reader on that file returns what Go's
   reader returned *)
Definition iwcase := (nat * list N * list wentry * N * bool * N * packed * N * list gentry)%type.
Definition iw_ok (c : iwcase) : bool :=
  let '(dim, cdims, es, eof, gok, groot, gfile, gclass, gents) := c in
  match write_index dim es (zeros (N.to_nat eof)) eof with
  | Ok (f', _, root) =>
      gok && (root =? groot) && bytes_eqb f' (unpack gfile)
      && read_matches (read_index_nd f' root 8 (length cdims) cdims) gclass gents
  | Err => negb gok
  | Panic => false
  end.

(* (file without its trailing zero bytes, number of trailing zero bytes, root, osz, ndims, cdims, Go class, Go entries) *)
Definition ircase := (packed * N * N * N * nat * list N * N * list gentry)%type.
Definition ir_ok (c : ircase) : bool :=
  let '(file, ztail, root, osz, ndims, cdims, gclass, gents) := c in
  read_matches (read_index_nd (unpack file ++ zeros (N.to_nat ztail)) root osz ndims cdims) gclass gents.
