(* C11 codec models, group 6b: the SECOND link-message parser.
   Transcription of internal/structures/linkmessage.go ParseLinkMessage(data, sb) (used by the group reader);
   the first parser (internal/core/link_message.go) and the only encoder (core.EncodeLinkMessage) are in
   Model/CodecLink.v.  Same checks in the same order as the Go function; `current` is the Go variable.
   Integer widths: every `current+k > len(data)` is on Go ints far below 2^63; the name length is a uint64 that
   is compared with uint64(len(data)-current) BEFORE it is converted to int (current <= len(data) there, so
   the subtraction does not go negative; N's truncated subtraction is therefore exact).
   No proofs here (Proofs/CodecLink2.v). *)
From HV Require Import Base.Prelude Base.Outcome Base.Bytes Model.CodecMsg Model.CodecLink.

(* structures.LinkMessage; CreationOrder is an int64, kept as its uint64 bit pattern *)
Record linkmsg2 := { l2_version : N; l2_flags : N; l2_type : N; l2_name : bytes; l2_corder : N;
                     l2_corder_valid : bool; l2_charset : N; l2_addr : N; l2_target : bytes }.

(* version, flags, optional type (0x08) / creation order (0x04) / character set (0x10):
   returns (flags, type, creation order, CreationOrderValid, charset, current) *)
Definition dec_link2_header (data : bytes) : outcome (N * N * N * bool * N * N) :=
  if blen data <? 2 then Err else
  version <- index data 0;;
  if negb (version =? 1) then Err else
  flags <- index data 1;;
  let current := 2 in
  '(ty, current) <- (if lk_has_type flags then                      (* msg.Flags&flagStoreLinkType != 0 *)
                       if blen data <=? current then Err else        (* current >= len(data) *)
                       t <- index data current;; Ok (t, current + 1)
                     else Ok (0, current));;
  '(co, cov, current) <- (if lk_has_corder flags then
                       if blen data <? current + 8 then Err else     (* current+8 > len(data) *)
                       c <- rd_le data current 8;; Ok (c, true, current + 8)
                     else Ok (0, false, current));;
  '(cs, current) <- (if lk_has_charset flags then
                       if blen data <=? current then Err else
                       c <- index data current;; Ok (c, current + 1)
                     else Ok (0, current));;
  Ok (flags, ty, co, cov, cs, current).

(* switch msg.Flags & 0x03 { case 0,1,2,3 }: 1, 2, 4 or 8 bytes, little-endian; no default branch
   (nameLen stays 0, which is refused next) *)
Definition dec_link2_namelen (data : bytes) (current flags : N) : outcome (N * N) :=
  let nst := N.land flags 3 in
  if nst =? 0 then
    if blen data <=? current then Err else n <- index data current;; Ok (n, current + 1)
  else if nst =? 1 then
    if blen data <? current + 2 then Err else n <- rd_le data current 2;; Ok (n, current + 2)
  else if nst =? 2 then
    if blen data <? current + 4 then Err else n <- rd_le data current 4;; Ok (n, current + 4)
  else if nst =? 3 then
    if blen data <? current + 8 then Err else n <- rd_le data current 8;; Ok (n, current + 8)
  else Ok (0, current).

(* nameLen == 0 -> error; nameLen > uint64(len(data)-current) -> error; data[current:current+int(nameLen)] *)
Definition dec_link2_name (data : bytes) (current nameLen : N) : outcome (bytes * N) :=
  if nameLen =? 0 then Err else
  if blen data - current <? nameLen then Err else
  name <- slice data current (current + nameLen);;
  Ok (name, current + nameLen).

(* sb.Endianness.UintK(data[current:current+k]) *)
Definition rd_end (bigendian : bool) (data : bytes) (off k : N) : outcome N :=
  if bigendian then rd_be data off k else rd_le data off k.

(* the per-type tail: returns (ObjectAddress, TargetPath) *)
Definition dec_link2_value (offsize : N) (bigendian : bool) (data : bytes) (current ty : N) : outcome (N * bytes) :=
  if ty =? 0 then
    if blen data <? current + offsize then Err else                  (* current+offsetSize > len(data) *)
    if offsize =? 1 then a <- index data current;; Ok (a, [])
    else if offsize =? 2 then a <- rd_end bigendian data current 2;; Ok (a, [])
    else if offsize =? 4 then a <- rd_end bigendian data current 4;; Ok (a, [])
    else if offsize =? 8 then a <- rd_end bigendian data current 8;; Ok (a, [])
    else Err                                                         (* "invalid offset size" *)
  else if ty =? 1 then
    if blen data <? current + 2 then Err else
    targetLen <- rd_le data current 2;;
    let current := current + 2 in
    if targetLen =? 0 then Err else
    if blen data <? current + targetLen then Err else
    p <- slice data current (current + targetLen);;
    Ok (0, p)
  else
    (* every other type: two readable bytes (the user-defined data length), nothing is kept *)
    if blen data <? current + 2 then Err else
    _ <- rd_le data current 2;;
    Ok (0, []).

Definition dec_link2 (offsize : N) (bigendian : bool) (data : bytes) : outcome linkmsg2 :=
  '(flags, ty, co, cov, cs, current) <- dec_link2_header data;;
  '(nameLen, current) <- dec_link2_namelen data current flags;;
  '(name, current) <- dec_link2_name data current nameLen;;
  '(addr, target) <- dec_link2_value offsize bigendian data current ty;;
  Ok {| l2_version := 1 (* checked above *); l2_flags := flags; l2_type := ty; l2_name := name; l2_corder := co;
        l2_corder_valid := cov; l2_charset := cs; l2_addr := addr; l2_target := target |}.

(* same field order as the harness kind "link2" *)
Definition val_link2 (l : linkmsg2) : val :=
  VL [VN (l2_version l); VN (l2_flags l); VN (l2_type l); VB (l2_name l); VN (l2_corder l);
      vbool (l2_corder_valid l); VN (l2_charset l); VN (l2_addr l); VB (l2_target l)].

Definition un_end (bigendian : bool) (v : bytes) : N := if bigendian then unbe v else unle v.

(* what the second parser makes of a message the FIRST parser returned as x (x's soft-link value is the bare path) *)
Definition link2_of_link (bigendian : bool) (x : linkmsg) : linkmsg2 :=
  {| l2_version := lk_version x; l2_flags := lk_flags x; l2_type := lk_type x; l2_name := lk_name x;
     l2_corder := lk_corder x; l2_corder_valid := lk_has_corder (lk_flags x); l2_charset := lk_charset x;
     l2_addr := if lk_type x =? 0 then un_end bigendian (lk_value x) else 0;
     l2_target := if lk_type x =? 1 then lk_value x else [] |}.

(* what the second parser returns on  enc_link x  (x's soft-link value carries the 2-byte length, see proj_link);
   the encoder copies LinkValue verbatim, so the address is those bytes read in the superblock's byte order *)
Definition proj_link2 (offsize : N) (bigendian : bool) (x : linkmsg) : linkmsg2 :=
  {| l2_version := lk_version x; l2_flags := lk_flags x; l2_type := lk_type x; l2_name := lk_name x;
     l2_corder := lk_corder x; l2_corder_valid := lk_has_corder (lk_flags x); l2_charset := lk_charset x;
     l2_addr := if lk_type x =? 0 then un_end bigendian (lk_value x) else 0;
     l2_target := if lk_type x =? 1 then skipn 2 (lk_value x) else [] |}.

(* the on-disk shape of the value this parser needs, per link type: hard = exactly offsize bytes and offsize one
   of 1,2,4,8; soft = length + NON-EMPTY path; any other type (external 64, but also 2..63, 65..255): at
   least the two bytes of a length field *)
Definition link_value_ok2 (offsize : N) (ty : N) (v : bytes) : bool :=
  if ty =? 0 then (blen v =? offsize) && ((offsize =? 1) || (offsize =? 2) || (offsize =? 4) || (offsize =? 8))
  else if ty =? 1 then (3 <=? blen v) && (unle (firstn 2 v) =? blen v - 2)
  else 2 <=? blen v.

(* like wf_link, with: name not empty (and no 1 MiB limit: only len(string) < 2^63), the value shape above *)
Definition wf_link2 (offsize : N) (bigendian : bool) (x : linkmsg) : bool :=
  encok_link x && (lk_flags x <? 256) && (lk_type x <? 256) && (lk_charset x <? 256) &&
  (lk_corder x <? 18446744073709551616) &&
  (1 <=? blen (lk_name x)) && (blen (lk_name x) <? 9223372036854775808) &&
  bytes_ok (lk_value x) &&
  (lk_has_type (lk_flags x) || (lk_type x =? 0)) &&
  (lk_has_corder (lk_flags x) || (lk_corder x =? 0)) &&
  (lk_has_charset (lk_flags x) || (lk_charset x =? 0)) &&
  link_value_ok2 offsize (lk_type x) (lk_value x).
