(* C06: the value-decoding core the reference comparison relies on.

   Executable model of how one fixed-size element of an HDF5 dataset / attribute is decoded:
     dec_int    : fixed-point numbers (class 0) of any byte size, either byte order, signed (two's complement)
                  or unsigned - the specification of internal/core/dataset_reader.go convertToFloat64 (integer
                  branches), dataset_reader_compound.go parseMemberValue and attribute.go ReadValue;
     dec_string : fixed-length strings with the three HDF5 paddings - internal/core/dataset_reader_strings.go
                  decodeFixedString (transcribed: first NUL / trim right NUL / trim right space).
   enc_int / enc_string are the format's encoders (HDF5 File Format Specification IV.A.2.d "Datatype", fixed-point
   and string classes): the theorems in Proofs/RefDecode.v show dec is their inverse, which is what makes the model
   the specification rather than a second implementation.
   No proofs in this file.  The tie (tools/props/c06.py) evaluates int_case_ok / str_case_ok on raw element bytes
   of the bundled reference files together with the value h5dump printed and the value the Go reader returned. *)
From HV Require Import Base.Prelude.

Inductive order := LE | BE.
Inductive strpad := NullTerm | NullPad | SpacePad.

(* bytes of one element, brought to little-endian order *)
Definition to_le (o : order) (bs : bytes) : bytes := match o with LE => bs | BE => rev bs end.

Definition dec_uint (o : order) (bs : bytes) : N := unle (to_le o bs).

(* size is the element size in bytes; bs are exactly the element's bytes *)
Definition dec_int (o : order) (signed : bool) (size : N) (bs : bytes) : Z :=
  let u := Z.of_N (dec_uint o bs) in
  if signed && (2 ^ (8 * Z.of_N size - 1) <=? u)%Z then (u - 2 ^ (8 * Z.of_N size))%Z else u.

Definition int_lo (signed : bool) (size : N) : Z := if signed then (- 2 ^ (8 * Z.of_N size - 1))%Z else 0%Z.
Definition int_hi (signed : bool) (size : N) : Z :=
  if signed then (2 ^ (8 * Z.of_N size - 1) - 1)%Z else (2 ^ (8 * Z.of_N size) - 1)%Z.

(* the format's encoding of an integer: two's complement, `size` bytes, in the type's byte order *)
Definition enc_int (o : order) (signed : bool) (size : N) (v : Z) : bytes :=
  let u := Z.to_N (v mod 2 ^ (8 * Z.of_N size))%Z in
  to_le o (le (N.to_nat size) u).

(* ---- strings ---- *)
Fixpoint until_nul (bs : bytes) : bytes :=
  match bs with [] => [] | b :: r => if b =? 0 then [] else b :: until_nul r end.

Fixpoint drop_while (c : N) (bs : bytes) : bytes :=
  match bs with [] => [] | b :: r => if b =? c then drop_while c r else bs end.

Definition trim_right (c : N) (bs : bytes) : bytes := rev (drop_while c (rev bs)).

Fixpoint firstn_N (n : nat) (bs : bytes) : bytes :=
  match n, bs with O, _ => [] | _, [] => [] | S n', b :: r => b :: firstn_N n' r end.

(* decodeFixedString(data[0:size], padding) *)
Definition dec_string (p : strpad) (size : N) (bs : bytes) : bytes :=
  let d := firstn_N (N.to_nat size) bs in
  match p with
  | NullTerm => until_nul d
  | NullPad => trim_right 0 d
  | SpacePad => trim_right 32 d
  end.

Definition pad_char (p : strpad) : N := match p with SpacePad => 32 | _ => 0 end.

(* the format's encoding of a string value into a field of `size` bytes *)
Definition enc_string (p : strpad) (size : N) (s : bytes) : bytes :=
  s ++ repeat (pad_char p) (N.to_nat size - length s).

(* a string value the padding can represent: fits, and is not confusable with its own padding *)
Definition no_byte (c : N) (s : bytes) : bool := forallb (fun b => negb (b =? c)) s.
Definition last_not (c : N) (s : bytes) : bool := match rev s with [] => true | b :: _ => negb (b =? c) end.
Definition representable (p : strpad) (size : N) (s : bytes) : bool :=
  match p with
  | NullTerm => (N.of_nat (length s) <? size) && no_byte 0 s      (* room for the terminator *)
  | NullPad => (N.of_nat (length s) <=? size) && last_not 0 s
  | SpacePad => (N.of_nat (length s) <=? size) && last_not 32 s
  end.

(* ---- predicates the tie evaluates ---- *)
Definition byte_ok (bs : bytes) : bool := forallb (fun b => b <? 256) bs.

(* (order, signed, size, raw bytes as hex, value h5dump printed, value the Go reader returned if it returned one) *)
Definition int_case : Type := order * bool * N * string * Z * option Z.
Definition int_case_ok (c : int_case) : bool :=
  let '(o, s, n, hx, d, g) := c in
  let bs := unhex hx in
  let v := dec_int o s n bs in
  (N.of_nat (length bs) =? n) && byte_ok bs && (v =? d)%Z &&
  match g with None => true | Some x => (v =? x)%Z end &&
  bytes_eqb (enc_int o s n d) bs.

(* (padding, raw field bytes as hex, h5dump's string reduced by the same padding rule, Go reader's string) *)
Definition str_case : Type := strpad * string * string * option string.
Definition str_case_ok (c : str_case) : bool :=
  let '(p, hx, d, g) := c in
  let bs := unhex hx in
  let v := dec_string p (N.of_nat (length bs)) bs in
  bytes_eqb v (unhex d) && match g with None => true | Some x => bytes_eqb v (unhex x) end.

(* ---- the Go attribute reader, integer branch (internal/core/attribute.go ReadValue, case DatatypeFixed, sizes 4 and 8):
        values[i] = int32(byteOrder.Uint32(a.Data[offset:offset+4]))          (int64 / Uint64 for size 8)
   with byteOrder := a.Datatype.GetByteOrder() since /repo 3d92c44 (go_attr_int_fixed, the code at HEAD); before that
   commit binary.LittleEndian was hard-coded (go_attr_int_pinned).  In both versions the sign bit of the datatype is
   not consulted: the result type is int32/int64 (pinned by TestAttributeReadValue_ScalarTypes/_ArrayTypes). *)
Definition go_attr_int_pinned (o : order) (signed : bool) (size : N) (bs : bytes) : Z := dec_int LE true size bs.
Definition go_attr_int_fixed (o : order) (signed : bool) (size : N) (bs : bytes) : Z := dec_int o true size bs.

(* tie: the value Attribute.ReadValue returned for one integer element equals the transcription (also on the inputs
   where the transcription differs from the specification, i.e. unsigned types) *)
Definition attr_case : Type := order * bool * N * string * Z.
Definition attr_case_ok (c : attr_case) : bool :=
  let '(o, s, n, hx, g) := c in (go_attr_int_fixed o s n (unhex hx) =? g)%Z.

(* the full C06 statement restricted to 32/64-bit integer attributes: the reader's value is the format's value *)
Definition attr_int_full (reader : order -> bool -> N -> bytes -> Z) : Prop :=
  forall o s n bs, byte_ok bs = true -> length bs = N.to_nat n -> (n = 4 \/ n = 8) -> reader o s n bs = dec_int o s n bs.
