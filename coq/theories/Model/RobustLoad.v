(* C07: the object-tree LOADER of hdf5.Open as a traversal over an explicit object graph.
   Transcribes /repo file.go (enterLoad / leaveLoad, maxLoads, maxGroupDepth) and group.go (loadGroup, loadModernGroup,
   loadTraditionalGroup, loadObject, loadChildren, loadGroupWithCachedSymbolTable) with BOTH ways into a group:
     - loadObject(address, name): enterLoad (cycle => a stub group is listed, depth >= 1024 => error, ++loadCount >
       maxLoads => error), the object is built from what is found at the address, leaveLoad;
     - loadGroupWithCachedSymbolTable(address, name, btree, heap): NO enterLoad; a group object is built and
       loadChildren runs on the cached addresses;
     - loadChildren: File.visitedBTrees[btree] set => no children; otherwise the mark is set, the entries are read and
       each entry is loaded through one of the two ways above (cache type 1 and cached B-tree address <> 0 => the second).
   Switches (the Go source decides them, the tie reads them from the source):
     keep_mark    true  = /repo: the visitedBTrees mark stays for the rest of Open
                  false = seeded change C07-c: `defer delete(g.file.visitedBTrees, btreeAddr)` in loadChildren
     count_all    false = /repo: only loadObject calls that pass the cycle and depth tests are counted against maxLoads
                  true  = notes/fixes/c07-count-every-object.patch: every object built (cycle stubs and groups loaded through
                          cached symbol table addresses as well) is counted
   The graph is a parameter: what parsing the file at an address yields.  Errors abort Open (every error is propagated
   to Open; errLinkCycle is the only one that is caught), so a result is Done / Err, each with the work done so far,
   or OutOfFuel.  No proofs here. *)
From HV Require Import Base.Prelude Base.Outcome Base.Bytes Model.RobustTerm.

(* a symbol table entry as ReadGroupBTreeEntries / ParseSymbolTableNode return it; se_ok = false: readSignature of the
   object address or heap.GetString of the link name offset fails (the loop returns that error) *)
Record sentry := SE { se_addr : N; se_name : N; se_ok : bool; se_cache : N; se_bt : N; se_heap : N }.

(* one element of the `for _, entry := range entries` loop of loadChildren *)
Inductive bentry :=
| BE (e : sentry)
| BInline (snod : option (list sentry)).  (* LinkNameOffset = 0 and "SNOD" at the object address: its entries are inlined;
                                             None: that node does not parse *)

(* what loadObject / loadGroup find at an address *)
Inductive onode :=
| OFail                                  (* signature or header unreadable, unsupported type, no heap for a traditional group ... *)
| OLeaf                                  (* dataset or named datatype *)
| OEmpty                                 (* group without link messages and without symbol table (or a non-group root) *)
| OLinks (ls : list (N * N)) (ok : bool) (* link messages: hard links (address, name) in order; ok = false: a later one fails to parse *)
| OStab (bt heap : N)                    (* symbol table message (the last one), or the superblock's cache for the root *)
| ORedirect (t : N)                      (* "SNOD" with a single entry whose name equals the incoming name: loadObject(t, name) *)
| OSnod (es : list sentry).              (* "SNOD" otherwise: loadTraditionalGroup, every entry through loadObject *)

Record graph := G { g_obj : N -> N -> onode;                      (* address, incoming name *)
                    g_bt : N -> N -> option (list bentry) }.      (* B-tree address, heap address; None: heap / signature / walk fails *)

Inductive call :=
| CObj (a name : N)          (* loadObject *)
| CCached (bt heap : N)      (* loadGroupWithCachedSymbolTable *)
| CChildren (bt heap : N)    (* group.loadChildren on the group being built *)
| CFail.                     (* an error inside a loop *)

(* visitedBTrees, loadCount, objects built (= objects File.Walk visits when Open succeeds), loadObject + loadChildren calls *)
Record lstate := LS { ls_visited : list N; ls_count : N; ls_built : N; ls_steps : N }.
Inductive lres := LDone (s : lstate) | LErr (s : lstate) | LFuel.

Definition s_step (s : lstate) := LS (ls_visited s) (ls_count s) (ls_built s) (ls_steps s + 1).
Definition s_count (s : lstate) := LS (ls_visited s) (ls_count s + 1) (ls_built s) (ls_steps s).
Definition s_built (k : N) (s : lstate) := LS (ls_visited s) (ls_count s) (ls_built s + k) (ls_steps s).
Definition s_mark (b : N) (s : lstate) := LS (b :: ls_visited s) (ls_count s) (ls_built s) (ls_steps s).
Definition s_unmark (b : N) (s : lstate) :=
  LS (filter (fun x => negb (x =? b)) (ls_visited s)) (ls_count s) (ls_built s) (ls_steps s).
Definition s0 : lstate := LS [] 0 0 0.

Definition soft (e : sentry) : bool := se_cache e =? 2.

(* loadChildren: soft link => skipped; signature / name error; cache type 1 with a B-tree address => cached way *)
Definition entry_calls (e : sentry) : list call :=
  if soft e then []
  else if negb (se_ok e) then [CFail]
  else if (se_cache e =? 1) && negb (se_bt e =? 0) then [CCached (se_bt e) (se_heap e)]
  else [CObj (se_addr e) (se_name e)].

Definition bentry_calls (b : bentry) : list call :=
  match b with
  | BE e => entry_calls e
  | BInline None => [CFail]
  | BInline (Some es) => flat_map entry_calls es
  end.

(* loadTraditionalGroup: every entry through loadObject *)
Definition trad_calls (e : sentry) : list call :=
  if soft e then [] else if negb (se_ok e) then [CFail] else [CObj (se_addr e) (se_name e)].

(* the loads an object triggers and the number of objects its own frame builds (a redirect returns the inner object) *)
Definition node_calls (n : onode) (name : N) : option (list call * N) :=
  match n with
  | OFail => None
  | OLeaf | OEmpty => Some ([], 1)
  | OLinks ls ok => Some (map (fun l => CObj (fst l) (snd l)) ls ++ (if ok then [] else [CFail]), 1)
  | OStab bt heap => Some ([CChildren bt heap], 1)
  | ORedirect t => Some ([CObj t name], 0)
  | OSnod es => Some (flat_map trad_calls es, 1)
  end.

Definition lift_done (f : lstate -> lstate) (r : lres) : lres := match r with LDone s => LDone (f s) | x => x end.
Definition lift_all (f : lstate -> lstate) (r : lres) : lres :=
  match r with LDone s => LDone (f s) | LErr s => LErr (f s) | LFuel => LFuel end.

Fixpoint each (run : call -> lstate -> lres) (cs : list call) (s : lstate) : lres :=
  match cs with
  | [] => LDone s
  | c :: r => match run c s with LDone s' => each run r s' | x => x end
  end.

Section Exec.
  Variable g : graph.
  Variable keep_mark count_all : bool.
  Variable maxLoads : N.

  (* f.loadCount++; if f.loadCount > f.maxLoads { error } *)
  Definition counted (s : lstate) (k : lstate -> lres) : lres :=
    let s := s_count s in if maxLoads <? ls_count s then LErr s else k s.

  (* group.loadChildren; `run` loads one entry *)
  Definition children (run : call -> lstate -> lres) (bt heap : N) (s : lstate) : lres :=
    let s := s_step s in
    if memN bt (ls_visited s) then LDone s
    else
      let s := s_mark bt s in
      let fin := if keep_mark then (fun s => s) else s_unmark bt in
      match g_bt g bt heap with
      | None => LErr (fin s)
      | Some bes => lift_all fin (each run (flat_map bentry_calls bes) s)
      end.

  Fixpoint exec (fuel : nat) (loading : list N) (c : call) (s : lstate) : lres :=
    match fuel with
    | O => LFuel
    | S f =>
        match c with
        | CFail => LErr s
        | CObj a name =>
            let s := s_step s in
            if count_all then
              (* repaired enterLoad: count first *)
              counted s (fun s =>
                if memN a loading then LDone (s_built 1 s)
                else if maxDepth <=? N.of_nat (length loading) then LErr s
                else match node_calls (g_obj g a name) name with
                     | None => LErr s
                     | Some (cs, b) => lift_done (s_built b) (each (exec f (a :: loading)) cs s)
                     end)
            else
              if memN a loading then LDone (s_built 1 s)
              else if maxDepth <=? N.of_nat (length loading) then LErr s
              else counted s (fun s =>
                match node_calls (g_obj g a name) name with
                | None => LErr s
                | Some (cs, b) => lift_done (s_built b) (each (exec f (a :: loading)) cs s)
                end)
        | CCached bt heap =>
            if count_all then counted s (fun s => lift_done (s_built 1) (children (exec f loading) bt heap s))
            else lift_done (s_built 1) (children (exec f loading) bt heap s)
        | CChildren bt heap => children (exec f loading) bt heap s
        end
    end.

  (* Open: loadGroup(root) is not guarded by enterLoad; root = what loadGroup finds at the root address *)
  Definition open (fuel : nat) (root : onode) : lres :=
    match node_calls root 0 with
    | None => LErr s0
    | Some (cs, _) => lift_done (s_built 1) (each (exec fuel []) cs s0)
    end.
End Exec.

(* ------------------------------------------------------------------ graph families *)
(* classic-format files as tools/props/c07.py classic_group_file builds them: group i has object header address oh i,
   B-tree bt i, heap hp i; its entries name groups by index; cache type ct on every entry *)
Definition oh (i : N) : N := 96 + i * 1032.
Definition btA (i : N) : N := oh i + 40.
Definition hpA (i : N) : N := oh i + 584.
Definition classic_entry (ct : N) (k tg : N) : bentry :=
  BE (SE (oh tg) k true ct (if ct =? 1 then btA tg else 0) (if ct =? 1 then hpA tg else 0)).
Fixpoint index_of (a : N) (f : N -> N) (n : nat) : option N :=
  match n with O => None | S k => if f (N.of_nat k) =? a then Some (N.of_nat k) else index_of a f k end.
Fixpoint enum_from (k : N) (l : list N) : list (N * N) :=
  match l with [] => [] | x :: r => (k, x) :: enum_from (k + 1) r end.
Definition classic_graph (ct : N) (groups : list (list N)) : graph :=
  let n := length groups in
  G (fun a _ => match index_of a oh n with Some i => OStab (btA i) (hpA i) | None => OFail end)
    (fun b h => match index_of b btA n with
                | Some i => if h =? hpA i
                            then Some (map (fun p => classic_entry ct (fst p) (snd p)) (enum_from 1 (nth (N.to_nat i) groups [])))
                            else None
                | None => None
                end).
Definition classic_open (keep_mark count_all : bool) (maxLoads : N) (fuel : nat) (ct : N) (groups : list (list N)) : lres :=
  open (classic_graph ct groups) keep_mark count_all maxLoads fuel (OStab (btA 0) (hpA 0)).

(* group i (i < n) has `fan` links to group i+1; group n is empty: 2n+... objects, fan^n paths *)
Fixpoint diamond_from (i : N) (n : nat) (fan : nat) : list (list N) :=
  match n with O => [[]] | S k => repeat (i + 1) fan :: diamond_from (i + 1) k fan end.
Definition diamond (n fan : nat) : list (list N) := diamond_from 0 n fan.

(* the same family as an abstract graph for the induction: group B-trees at addresses 1 .. n+1, the group at b <= n has two
   entries with cached addresses (cache type 1) naming the group at b+1, the group at n+1 is empty: n+1 B-trees, 2n entries *)
Definition dia_entry (t : N) : bentry := BE (SE 8 0 true 1 t 8).
Definition dia_graph (n : N) : graph :=
  G (fun _ _ => OFail)
    (fun b _ => if b =? 0 then None
                else if b <=? n then Some [dia_entry (b + 1); dia_entry (b + 1)]
                else if b =? n + 1 then Some [] else None).
Fixpoint dia_built (k : nat) : N := match k with O => 0 | S k => 2 + 2 * dia_built k end.
Fixpoint dia_steps (k : nat) : N := match k with O => 1 | S k => 1 + 2 * dia_steps k end.

(* n B-trees at addresses 1 .. n that all hold the same n entries, entry j = cached addresses of B-tree j (in a file: n
   one-child B-tree nodes that point at ONE symbol table node): n*n + 1 objects without a single counted load *)
Definition comb_graph (n : nat) : graph :=
  G (fun _ _ => OFail)
    (fun b _ => if (1 <=? b) && (b <=? N.of_nat n) then Some (map (fun j => dia_entry (N.of_nat j)) (seq 1 n)) else None).

(* graphs given as association lists (the tie): object header address -> node; B-tree address -> (its heap, entries) *)
Definition alist_graph (objs : list (N * onode)) (bts : list (N * (N * list bentry))) : graph :=
  G (fun a _ => match assoc objs a with Some n => n | None => OFail end)
    (fun b h => match assoc bts b with Some (h', es) => if h =? h' then Some es else None | None => None end).

(* observable for the tie: class, objects built, loadCount, number of marked B-trees, steps *)
Definition lres_val (r : lres) : val :=
  match r with
  | LDone s => VL [VN 0; VN (ls_built s); VN (ls_count s); VN (N.of_nat (length (ls_visited s)))]
  | LErr s => VL [VN 1]
  | LFuel => VL [VN 3]
  end.

(* specification predicates: P holds of the state in which the traversal stopped, value or error (work done so far) *)
Definition holds (P : lstate -> Prop) (r : lres) : Prop :=
  match r with LDone s => P s | LErr s => P s | LFuel => True end.
Definition holds2 (P Q : lstate -> Prop) (r : lres) : Prop :=
  match r with LDone s => P s | LErr s => Q s | LFuel => True end.
(* file.go Open: maxLoads: fileSize/minBytesPerLink + 1024 *)
Definition open_max_loads (size : N) : N := size / 8 + 1024.
