(* CRC-32 (IEEE 802.3, reflected, polynomial 0xEDB88320) = Go hash/crc32.ChecksumIEEE. Bitwise definition. *)
From HV Require Import Base.Prelude.

Definition crc32_step (c : N) : N :=
  if N.odd c then N.lxor (N.shiftr c 1) 3988292384 (* 0xEDB88320 *) else N.shiftr c 1.

Definition crc32_byte (c b : N) : N :=
  crc32_step (crc32_step (crc32_step (crc32_step (crc32_step (crc32_step (crc32_step (crc32_step (N.lxor c b)))))))).

Definition crc32_update (c : N) (bs : bytes) : N := fold_left crc32_byte bs c.

Definition crc32 (bs : bytes) : N := N.lxor (crc32_update 4294967295 bs) 4294967295.

(* check value of the CRC catalogue: crc32("123456789") = 0xCBF43926 *)
Example crc32_check : crc32 [49;50;51;52;53;54;55;56;57] = 3421780262.
Proof. vm_compute. reflexivity. Qed.
Example crc32_empty : crc32 [] = 0.
Proof. vm_compute. reflexivity. Qed.
