(* CRC-32 (IEEE 802.3, reflected, polynomial 0xEDB88320), bit by bit.
   This is what Go's hash/crc32.ChecksumIEEE computes: register initialised to 0xFFFFFFFF, every
   input byte xor-ed into the low byte and shifted out LSB first, final complement.
   Written from the definition, not from Go's table-driven code; the tie compares it with the
   checksums that the library puts into every B-tree header and leaf. *)
From HV Require Import Base.Prelude.

Definition crc_poly : N := 3988292384.        (* 0xEDB88320 *)
Definition crc_ones : N := 4294967295.        (* 0xFFFFFFFF *)

Definition crc_bit (r : N) : N :=
  if N.odd r then N.lxor (N.shiftr r 1) crc_poly else N.shiftr r 1.

Definition crc_byte (r b : N) : N :=
  let r := N.lxor r b in
  crc_bit (crc_bit (crc_bit (crc_bit (crc_bit (crc_bit (crc_bit (crc_bit r))))))).

Definition crc32_update (r : N) (bs : bytes) : N := fold_left crc_byte bs r.

(* the result is a uint32 (for inputs < 256 the register never leaves 32 bits; wrap32 states the type) *)
Definition crc32 (bs : bytes) : N := wrap32 (N.lxor (crc32_update crc_ones bs) crc_ones).

(* known vectors *)
Example crc32_check : crc32 (unhex "313233343536373839") = 3421780262.   (* "123456789" -> 0xCBF43926 *)
Proof. vm_compute. reflexivity. Qed.
Example crc32_empty : crc32 [] = 0.
Proof. vm_compute. reflexivity. Qed.
Example crc32_a : crc32 [97] = 3904355907.                                 (* "a" -> 0xE8B7BE43 *)
Proof. vm_compute. reflexivity. Qed.
Example crc32_fox :                                                         (* 0x414FA339 *)
  crc32 (unhex "54686520717569636b2062726f776e20666f78206a756d7073206f76657220746865206c617a7920646f67") = 1095738169.
Proof. vm_compute. reflexivity. Qed.
