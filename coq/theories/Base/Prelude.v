(* Shared prelude: numbers, bytes, hex transport format used by the correspondence check. *)
From Coq Require Export String Ascii.
From Coq Require Export NArith ZArith List Bool Lia.
From Coq Require Export ZifyN ZifyNat ZifyBool.
Export ListNotations.
Ltac Zify.zify_post_hook ::= Z.div_mod_to_equations.

Global Arguments N.add : simpl never.
Global Arguments N.mul : simpl never.
Global Arguments N.sub : simpl never.
Global Arguments N.div : simpl never.
Global Arguments N.modulo : simpl never.
Global Arguments N.pow : simpl never.
Global Arguments N.shiftl : simpl never.
Global Arguments N.shiftr : simpl never.
Global Arguments N.land : simpl never.
Global Arguments N.lor : simpl never.
Global Arguments N.lxor : simpl never.

Open Scope N_scope.

Definition byte := N.
Definition bytes := list byte.

(* Go fixed-width arithmetic, written out. *)
Definition wrap8  (x : N) : N := x mod 256.
Definition wrap16 (x : N) : N := x mod 65536.
Definition wrap32 (x : N) : N := x mod 4294967296.
Definition wrap64 (x : N) : N := x mod 18446744073709551616.
(* a - b on uintK *)
Definition sub32 (a b : N) : N := (a + 4294967296 - b mod 4294967296) mod 4294967296.
Definition sub64 (a b : N) : N := (a + 18446744073709551616 - b mod 18446744073709551616) mod 18446744073709551616.
Definition rotl32 (x k : N) : N := wrap32 (N.lor (N.shiftl x k) (N.shiftr x (32 - k))).

(* Little-endian codecs. *)
Fixpoint le (n : nat) (v : N) : bytes :=
  match n with O => [] | S n' => (v mod 256) :: le n' (v / 256) end.
Fixpoint unle (bs : bytes) : N :=
  match bs with [] => 0 | b :: r => b + 256 * unle r end.

(* ---- transport: hex strings <-> bytes (used only by the harness-facing case files) ---- *)
Definition hexval (c : ascii) : N :=
  let n := N_of_ascii c in
  if (48 <=? n) && (n <=? 57) then n - 48
  else if (97 <=? n) && (n <=? 102) then n - 87
  else if (65 <=? n) && (n <=? 70) then n - 55 else 0.
Fixpoint unhex (s : string) : bytes :=
  match s with
  | String a (String b r) => (16 * hexval a + hexval b) :: unhex r
  | _ => []
  end.

Fixpoint list_eqb {A} (eqb : A -> A -> bool) (a b : list A) : bool :=
  match a, b with
  | [], [] => true
  | x :: a', y :: b' => eqb x y && list_eqb eqb a' b'
  | _, _ => false
  end.
Definition bytes_eqb := list_eqb N.eqb.

(* indices (0-based) of the cases whose check is false: what the tie prints *)
Fixpoint bad_from {A} (n : N) (f : A -> bool) (l : list A) : list N :=
  match l with [] => [] | x :: r => if f x then bad_from (n + 1) f r else n :: bad_from (n + 1) f r end.
Definition mismatches {A} (f : A -> bool) (l : list A) : list N := bad_from 0 f l.
