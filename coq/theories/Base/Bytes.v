(* Byte-string helpers for the codec models (C11): big-endian codec, Go-style checked slicing
   and indexing (out of range = Panic), and the generic lemmas the round-trip proofs use. *)
From HV Require Import Base.Prelude Base.Outcome.

Definition blen (bs : list N) : N := N.of_nat (length bs).

(* [byte] is a definition for N; make lengths of both spellings one atom before calling lia *)
Ltac bnorm := unfold bytes in *; change byte with N in *.
(* rewrite with a lemma instance after bringing it and the goal to the same spelling *)
Tactic Notation "brewrite" constr(t) :=
  let Q := fresh "Q" in pose proof t as Q; bnorm; rewrite Q; clear Q.
Tactic Notation "brewrite" constr(t) "by" tactic(tac) :=
  let Q := fresh "Q" in pose proof t as Q; bnorm; rewrite Q by tac; clear Q.
Ltac blia := bnorm; lia.

Definition be (n : nat) (v : N) : bytes := rev (le n v).
Definition unbe (bs : bytes) : N := unle (rev bs).

Definition zeros (n : nat) : bytes := repeat 0 n.

(* every element is a byte *)
Definition bytes_ok (bs : bytes) : bool := forallb (fun b => b <? 256) bs.

(* Go  bs[a:b]  *)
Definition slice (bs : bytes) (a b : N) : outcome bytes :=
  if (a <=? b) && (b <=? blen bs)
  then Ok (firstn (N.to_nat (b - a)) (skipn (N.to_nat a) bs))
  else Panic.
(* Go  bs[a:]  *)
Definition slice_from (bs : bytes) (a : N) : outcome bytes :=
  if a <=? blen bs then Ok (skipn (N.to_nat a) bs) else Panic.
(* Go  bs[i]  *)
Definition index (bs : bytes) (i : N) : outcome byte :=
  match nth_error bs (N.to_nat i) with Some b => Ok b | None => Panic end.

(* binary.LittleEndian.UintK(bs[off:off+k]) *)
Definition rd_le (bs : bytes) (off : N) (k : N) : outcome N :=
  s <- slice bs off (off + k);; Ok (unle s).
Definition rd_be (bs : bytes) (off : N) (k : N) : outcome N :=
  s <- slice bs off (off + k);; Ok (unbe s).

(* index of the first 0 byte at or after position [from], scanning like
   `for end < len(b) && b[end] != 0 { end++ }`; returns len when there is none *)
Fixpoint find0_aux (bs : bytes) (pos : N) : N :=
  match bs with
  | [] => pos
  | b :: r => if b =? 0 then pos else find0_aux r (pos + 1)
  end.
Definition find0 (bs : bytes) (from : N) : N := find0_aux (skipn (N.to_nat from) bs) from.

(* ------------------------------------------------------------------ lemmas *)

Lemma blen_app (a b : list N) : blen (a ++ b) = blen a + blen b.
Proof. unfold blen. rewrite app_length. blia. Qed.
Lemma blen_cons (x : N) (a : list N) : blen (x :: a) = 1 + blen a.
Proof. unfold blen. cbn [length]. blia. Qed.
Lemma blen_nil : blen [] = 0.
Proof. reflexivity. Qed.

Lemma length_le n v : length (le n v) = n.
Proof. revert v. induction n; intros; cbn [le length]; auto. Qed.
Lemma blen_le n v : blen (le n v) = N.of_nat n.
Proof. unfold blen. now rewrite length_le. Qed.
Lemma length_be n v : length (be n v) = n.
Proof. unfold be. now rewrite rev_length, length_le. Qed.
Lemma blen_be n v : blen (be n v) = N.of_nat n.
Proof. unfold blen. now rewrite length_be. Qed.
Lemma length_zeros n : length (zeros n) = n.
Proof. apply repeat_length. Qed.
Lemma blen_zeros n : blen (zeros n) = N.of_nat n.
Proof. unfold blen. now rewrite length_zeros. Qed.

Lemma unle_le n v : unle (le n v) = v mod 256 ^ N.of_nat n.
Proof.
  revert v. induction n; intros v.
  - cbn [le unle]. change (N.of_nat 0) with 0. rewrite N.pow_0_r, N.mod_1_r. reflexivity.
  - cbn [le unle]. rewrite IHn.
    replace (N.of_nat (S n)) with (N.succ (N.of_nat n)) by blia.
    rewrite N.pow_succ_r'.
    assert (H : 256 ^ N.of_nat n <> 0) by (apply N.pow_nonzero; blia).
    rewrite N.mod_mul_r by (auto; blia). blia.
Qed.
Lemma unle_le_small n v : v < 256 ^ N.of_nat n -> unle (le n v) = v.
Proof. intros. rewrite unle_le. apply N.mod_small; auto. Qed.
Lemma unbe_be n v : unbe (be n v) = v mod 256 ^ N.of_nat n.
Proof. unfold unbe, be. rewrite rev_involutive. apply unle_le. Qed.
Lemma unbe_be_small n v : v < 256 ^ N.of_nat n -> unbe (be n v) = v.
Proof. intros. rewrite unbe_be. apply N.mod_small; auto. Qed.

Lemma le_bytes_ok n v : bytes_ok (le n v) = true.
Proof.
  revert v. induction n; intros; cbn [le bytes_ok forallb]; auto.
  fold (bytes_ok (le n (v / 256))). rewrite IHn.
  assert (v mod 256 < 256) by (apply N.mod_lt; blia).
  apply andb_true_iff; split; auto. apply N.ltb_lt; auto.
Qed.
Lemma bytes_ok_app (a b : list N) : bytes_ok (a ++ b) = bytes_ok a && bytes_ok b.
Proof. apply forallb_app. Qed.

Lemma slice_app (pre mid suf : list N) :
  slice (pre ++ mid ++ suf) (blen pre) (blen pre + blen mid) = Ok mid.
Proof.
  unfold slice. rewrite !blen_app. bnorm.
  replace ((blen pre <=? blen pre + blen mid) && (blen pre + blen mid <=? blen pre + (blen mid + blen suf))) with true
    by (symmetry; apply andb_true_iff; split; apply N.leb_le; blia).
  f_equal. unfold blen.
  replace (N.to_nat (N.of_nat (length pre))) with (length pre + 0)%nat by blia.
  rewrite skipn_app, skipn_all2 by blia.
  replace (length pre + 0 - length pre)%nat with 0%nat by blia. cbn [skipn app].
  replace (N.to_nat (N.of_nat (length pre) + N.of_nat (length mid) - N.of_nat (length pre))) with (length mid + 0)%nat by blia.
  rewrite firstn_app_2. cbn [firstn]. apply app_nil_r.
Qed.
(* variants with the offsets given as numbers *)
Lemma slice_app' (pre mid suf : list N) a b :
  a = blen pre -> b = a + blen mid -> slice (pre ++ mid ++ suf) a b = Ok mid.
Proof. intros -> ->. apply slice_app. Qed.
Lemma slice_app_end (pre mid : list N) a b :
  a = blen pre -> b = a + blen mid -> slice (pre ++ mid) a b = Ok mid.
Proof. intros. rewrite <- (app_nil_r mid) at 1. apply slice_app'; auto. Qed.

Lemma slice_from_app (pre suf : list N) a : a = blen pre -> slice_from (pre ++ suf) a = Ok suf.
Proof.
  intros ->. unfold slice_from. rewrite blen_app.
  replace (blen pre <=? blen pre + blen suf) with true by (symmetry; apply N.leb_le; blia).
  f_equal. unfold blen. rewrite Nat2N.id.
  replace (length pre) with (length pre + 0)%nat by blia.
  rewrite skipn_app, skipn_all2 by blia.
  replace (length pre + 0 - length pre)%nat with 0%nat by blia. reflexivity.
Qed.

Lemma index_app (pre : list N) (b : N) (suf : list N) i : i = blen pre -> index (pre ++ b :: suf) i = Ok b.
Proof.
  intros ->. unfold index, blen. rewrite Nat2N.id.
  rewrite nth_error_app2 by blia. replace (length pre - length pre)%nat with 0%nat by blia. reflexivity.
Qed.

Lemma index0 (a : N) (l : list N) : index (a :: l) 0 = Ok a.
Proof. reflexivity. Qed.
Lemma index1 (a b : N) (l : list N) : index (a :: b :: l) 1 = Ok b.
Proof. reflexivity. Qed.
Lemma index2 (a b c : N) (l : list N) : index (a :: b :: c :: l) 2 = Ok c.
Proof. reflexivity. Qed.
Lemma index3 (a b c d : N) (l : list N) : index (a :: b :: c :: d :: l) 3 = Ok d.
Proof. reflexivity. Qed.

Lemma rd_le_app (pre suf : list N) off k v :
  off = blen pre -> v < 256 ^ N.of_nat k ->
  rd_le (pre ++ le k v ++ suf) off (N.of_nat k) = Ok v.
Proof.
  intros -> Hv. unfold rd_le. rewrite slice_app' with (mid := le k v); auto.
  - cbn [obind]. now rewrite unle_le_small.
  - now rewrite blen_le.
Qed.
Lemma rd_be_app (pre suf : list N) off k v :
  off = blen pre -> v < 256 ^ N.of_nat k ->
  rd_be (pre ++ be k v ++ suf) off (N.of_nat k) = Ok v.
Proof.
  intros -> Hv. unfold rd_be. rewrite slice_app' with (mid := be k v); auto.
  - cbn [obind]. now rewrite unbe_be_small.
  - now rewrite blen_be.
Qed.

(* the same with the width given as a number (so that literals match syntactically) *)
Lemma rd_le_at (pre : list N) k kN v (suf : list N) off :
  off = blen pre -> kN = N.of_nat k -> v < 256 ^ kN ->
  rd_le (pre ++ le k v ++ suf) off kN = Ok v.
Proof. intros -> -> Hv. apply rd_le_app; auto. Qed.
Lemma rd_le_head k kN v (suf : list N) :
  kN = N.of_nat k -> v < 256 ^ kN -> rd_le (le k v ++ suf) 0 kN = Ok v.
Proof. intros. apply (rd_le_at [] k kN v suf 0); auto. Qed.
Lemma rd_be_at (pre : list N) k kN v (suf : list N) off :
  off = blen pre -> kN = N.of_nat k -> v < 256 ^ kN ->
  rd_be (pre ++ be k v ++ suf) off kN = Ok v.
Proof. intros -> -> Hv. apply rd_be_app; auto. Qed.
Lemma rd_be_head k kN v (suf : list N) :
  kN = N.of_nat k -> v < 256 ^ kN -> rd_be (be k v ++ suf) 0 kN = Ok v.
Proof. intros. apply (rd_be_at [] k kN v suf 0); auto. Qed.

Lemma find0_aux_app (name suf : list N) pos :
  forallb (fun b => negb (b =? 0)) name = true ->
  find0_aux (name ++ 0 :: suf) pos = pos + blen name.
Proof.
  revert pos. induction name as [|b r IH]; intros pos H.
  - cbn [app find0_aux]. rewrite N.eqb_refl. unfold blen. cbn [length]. blia.
  - cbn [forallb] in H. apply andb_true_iff in H as [Hb Hr].
    cbn [app find0_aux]. destruct (b =? 0); [discriminate|].
    rewrite IH by auto. rewrite blen_cons. blia.
Qed.
Lemma find0_app (pre name suf : list N) from :
  from = blen pre -> forallb (fun b => negb (b =? 0)) name = true ->
  find0 (pre ++ name ++ 0 :: suf) from = from + blen name.
Proof.
  intros -> H. unfold find0, blen at 1. rewrite Nat2N.id.
  replace (length pre) with (length pre + 0)%nat at 1 by blia.
  rewrite skipn_app, skipn_all2 by blia.
  replace (length pre + 0 - length pre)%nat with 0%nat by blia. cbn [skipn app].
  now apply find0_aux_app.
Qed.
