(* Go run-time results as values: a decoder returns a value, an error, or panics
   (slice / index out of range).  Used by the codec models of C11. *)
From HV Require Import Base.Prelude.

Inductive outcome (A : Type) : Type :=
| Ok (a : A)
| Err
| Panic.
Arguments Ok {A} a.
Arguments Err {A}.
Arguments Panic {A}.

Definition obind {A B} (o : outcome A) (f : A -> outcome B) : outcome B :=
  match o with Ok a => f a | Err => Err | Panic => Panic end.

Definition omap {A B} (f : A -> B) (o : outcome A) : outcome B :=
  match o with Ok a => Ok (f a) | Err => Err | Panic => Panic end.

Declare Scope outcome_scope.
Delimit Scope outcome_scope with outcome.
Notation "x <- e ;; k" := (obind e (fun x => k))
  (at level 61, e at next level, right associativity) : outcome_scope.
Notation "' p <- e ;; k" := (obind e (fun x => let p := x in k))
  (at level 61, p pattern, e at next level, right associativity) : outcome_scope.
Open Scope outcome_scope.

(* 0 = ok, 1 = err, 2 = panic : the class the tie compares *)
Definition oclass {A} (o : outcome A) : N :=
  match o with Ok _ => 0 | Err => 1 | Panic => 2 end.

(* ---- universal observable value: what the tie compares between Go and model ---- *)
Inductive val : Type :=
| VN (n : N)
| VB (b : bytes)
| VL (l : list val).

Fixpoint val_eqb (a b : val) {struct a} : bool :=
  match a, b with
  | VN x, VN y => x =? y
  | VB x, VB y => bytes_eqb x y
  | VL x, VL y =>
      (fix go (x y : list val) {struct x} : bool :=
         match x, y with
         | [], [] => true
         | u :: x', v :: y' => val_eqb u v && go x' y'
         | _, _ => false
         end) x y
  | _, _ => false
  end.

Definition vopt {A} (f : A -> val) (o : option A) : val :=
  match o with None => VL [] | Some a => VL [f a] end.
Definition vbool (b : bool) : val := VN (if b then 1 else 0).
Definition vlistN (l : list N) : val := VL (map VN l).

Definition oval {A} (f : A -> val) (o : outcome A) : val :=
  match o with Ok a => VL [VN 0; f a] | Err => VL [VN 1] | Panic => VL [VN 2] end.
