(* C05 - a WHOLE-FILE specification walker.

   [walk tol fuel f] decodes the superblock of the file [f] (versions 0-3), follows the root object header and from
   there every structure the HDF5 File Format Specification makes reachable:
     object headers v1 / v2 (+ continuation blocks), their messages (decoded by Spec/FormatMsg.v),
     symbol-table groups (local heap, v1 B-tree type 0, symbol table nodes, entries -> child object headers),
     datasets (contiguous data extent; chunked: v1 B-tree type 1 nodes -> chunk extents),
     attributes (compact: in the header; dense: fractal heap header + root direct block, v2 B-tree header + leaf),
     link-only object headers (soft / external links as this writer stores them).
   It returns the visited extents (start, end, kind), a modest summary of the tree, and the deviations it tolerated:
   the per-structure tags of Spec/Parse.v ([WS]) and the cross-structure tags that only a whole-file walk can see ([WX]).
   Every address is read through [rd] (checked slicing), every extent is recorded through [add_ext] (checked against
   the file length): an address outside the file is [Err], never a guess.  Executable, proof-free; lemmas in
   Proofs/Walk.v, theorems in Props/C05Walk.v.

   Also followed (added for the reference corpus, C06, and for the files with new-style groups the library writes, C05):
     new-style groups (compact link messages; dense: fractal heap direct root block + v2 B-tree type 5 leaf), also in the writer's
     private layout of the stored link (four cross-structure deviation tags X_group_dataspace_msg .. X_refcount_ignores_dense_links),
     data layout message versions 1 / 2 (Spec/FormatRef.v) and 4 (single chunk and implicit chunk index), shared datatype messages
     and attributes with a shared datatype (resolved to the committed datatype's object header; every use counts in its reference
     count), committed datatypes, the superblock extension.
   NOT covered (the walker answers [Err] with a reason code, tools/props/c06walk.py REASONS; the ties count such files): fractal
   heaps with an indirect root block, v2 B-trees of depth > 0, version 4 chunk indexes other than single chunk / implicit (fixed
   array 48, extensible array 49, v2 B-tree 50), virtual datasets (51), messages in the shared message heap, driver information,
   filtered chunk contents (deflate is not modelled: the chunk extent is recorded, its decoded size is not checked), global heap
   collections.  Every structural clause has its own reason code (60 ..). *)
From HV Require Import Base.Prelude Base.Outcome Base.Bytes Spec.Parse Spec.Format Spec.FormatMsg Spec.FormatNode
  Spec.FormatRef Model.Wellformed.
From HV Require Export Spec.WalkBase.

Section Walk.
Variable f : bytes.           (* the file *)
Variable flen : N.            (* its length (passed in, computed once) *)
Variable tol : wtolerance.

Definition stol : tolerance := fun t => tol (WS t).

(* checked slicing: the n bytes at address a *)
Definition rd (a n : N) : outcome bytes :=
  if a + n <=? flen then Ok (firstn (N.to_nat n) (skipn (N.to_nat a) f)) else Err.
Definition u (a n : N) : outcome N := b <- rd a n;; Ok (unle b).

(* a visited structure [s, e): non-empty and inside the file, or the walk fails *)
Definition add_ext (s e k : N) : W unit :=
  fun st => if (s <? e) && (e <=? flen) then WOk (tt, set_ext ((s, e, k) :: ws_ext st) st) else WErr 3.
Definition add_soft (s e k : N) (x : xtag) : W unit :=
  wupd (fun r => {| r_soft := ((s, e, k), x) :: r_soft r; r_tags := r_tags r; r_sum := r_sum r; r_seen := r_seen r;
                    r_links := r_links r; r_refs := r_refs r; r_stab := r_stab r; r_dlinks := r_dlinks r |}).
Definition add_wtags (l : list wtag) : W unit :=
  wupd (fun r => {| r_soft := r_soft r; r_tags := l ++ r_tags r; r_sum := r_sum r; r_seen := r_seen r;
                    r_links := r_links r; r_refs := r_refs r; r_stab := r_stab r; r_dlinks := r_dlinks r |}).
Definition add_stags (l : list tag) : W unit := add_wtags (map WS l).
Definition add_sum (o : obj_sum) : W unit :=
  wupd (fun r => {| r_soft := r_soft r; r_tags := r_tags r; r_sum := o :: r_sum r; r_seen := r_seen r;
                    r_links := r_links r; r_refs := r_refs r; r_stab := r_stab r; r_dlinks := r_dlinks r |}).
Definition mark_seen (a : N) : W unit :=
  wupd (fun r => {| r_soft := r_soft r; r_tags := r_tags r; r_sum := r_sum r; r_seen := a :: r_seen r;
                    r_links := r_links r; r_refs := r_refs r; r_stab := r_stab r; r_dlinks := r_dlinks r |}).
Definition add_link (a : N) : W unit :=
  wupd (fun r => {| r_soft := r_soft r; r_tags := r_tags r; r_sum := r_sum r; r_seen := r_seen r;
                    r_links := a :: r_links r; r_refs := r_refs r; r_stab := r_stab r; r_dlinks := r_dlinks r |}).
Definition add_ref (a rc : N) : W unit :=
  wupd (fun r => {| r_soft := r_soft r; r_tags := r_tags r; r_sum := r_sum r; r_seen := r_seen r;
                    r_links := r_links r; r_refs := (a, rc) :: r_refs r; r_stab := r_stab r; r_dlinks := r_dlinks r |}).
Definition add_stab (a bt hp : N) : W unit :=
  wupd (fun r => {| r_soft := r_soft r; r_tags := r_tags r; r_sum := r_sum r; r_seen := r_seen r;
                    r_links := r_links r; r_refs := r_refs r; r_stab := (a, (bt, hp)) :: r_stab r; r_dlinks := r_dlinks r |}).
Definition add_dlink (a : N) : W unit :=
  wupd (fun r => {| r_soft := r_soft r; r_tags := r_tags r; r_sum := r_sum r; r_seen := r_seen r;
                    r_links := r_links r; r_refs := r_refs r; r_stab := r_stab r; r_dlinks := a :: r_dlinks r |}).
(* deviations: allowed only when the tolerance says so, and then reported *)
Definition sdev (t : tag) : W unit := if tol (WS t) then add_wtags [WS t] else wfail (200 + tag_code t).
Definition xdev (x : xtag) : W unit := if tol (WX x) then add_wtags [WX x] else wfail (200 + xtag_code x).
Definition xdevif (c : bool) (x : xtag) : W unit := if c then xdev x else wret tt.

(* ------------------------------------------------------------------ superblock *)
Definition walk_superblock : W superblock_spec :=
  match spec_dec_superblock stol f with
  | Ok (s, tg, r) =>
      _ <<- add_ext 0 (flen - blen r) K_superblock;;
      _ <<- add_stags tg;;
      let o := N.to_nat (sbs_O s) in
      (* no driver information block, no superblock extension, base address 0: nothing else is implemented *)
      _ <<- wguardc 11 (sbs_driver s =? undef o);;
      _ <<- wguardc 6 (sbs_base s =? 0);;
      wret s
  | _ => wfail 10
  end.

Section Ctx.
Variable c : wctx.
Let nO : N := N.of_nat (cO c).
Let nL : N := N.of_nat (cL c).
Definition undefO : N := undef (cO c).

(* ------------------------------------------------------------------ object headers -> all messages *)
(* version 1: continuation messages lead to further chunks of messages *)
Definition cont1_body (rec : list msg_spec -> W (list msg_spec)) (ms : list msg_spec) : W (list msg_spec) :=
  r <<- wmapM (fun m =>
         if is_cont m then
           '(ca, cl) <<- wl (spec_dec_continuation (cO c) (cL c) true (ms_data m));;
           _ <<- add_ext ca (ca + cl) K_ohdr1_cont;;
           bs <<- wl (rd ca cl);;
           ms' <<- wl (spec_dec_ohdr1_cont bs);;
           sub <<- rec ms';;
           wret (m :: sub)
         else wret [m]) ms;;
  wret (concat r).
Fixpoint cont1 (fuel : nat) : list msg_spec -> W (list msg_spec) :=
  match fuel with O => fun _ => wfail 4 | S n => cont1_body (cont1 n) end.

(* version 2: "OCHK" blocks; with its checksum the block is [ca, ca+cl), without (listed deviation) [ca, ca+cl-4) *)
Definition cont2_body (corder : bool) (rec : list msg_spec -> W (list msg_spec)) (ms : list msg_spec) : W (list msg_spec) :=
  r <<- wmapM (fun m =>
         if is_cont m then
           '(ca, cl) <<- wl (spec_dec_continuation (cO c) (cL c) false (ms_data m));;
           bs <<- wl (rd ca cl);;
           match spec_dec_ochk strict corder bs with
           | Ok (ms', _) =>
               _ <<- add_ext ca (ca + cl) K_ohdr2_cont;;
               sub <<- rec ms';; wret (m :: sub)
           | _ =>
               bs' <<- wl (rd ca (cl - 4));;
               '(ms', tg) <<- wl (spec_dec_ochk stol corder bs');;
               _ <<- add_ext ca (ca + cl - 4) K_ohdr2_cont;;
               _ <<- add_stags tg;;
               sub <<- rec ms';; wret (m :: sub)
           end
         else wret [m]) ms;;
  wret (concat r).
Fixpoint cont2 (corder : bool) (fuel : nat) : list msg_spec -> W (list msg_spec) :=
  match fuel with O => fun _ => wfail 4 | S n => cont2_body corder (cont2 corder n) end.

(* -> (prefix version, reference count of a version 1 prefix, the messages without continuation and NIL messages) *)
Definition ohdr_walk (fuel : nat) (addr : N) : W (N * option N * list msg_spec) :=
  sig <<- wl (rd addr 4);;
  if bytes_eqb sig ohdr_sig then
    fl <<- wl (u (addr + 5) 1);;
    let p := addr + 6 + (if N.testbit fl 5 then 16 else 0) + (if N.testbit fl 4 then 4 else 0) in
    let w := N.shiftl 1 (N.land fl 3) in
    csz <<- wl (u p w);;
    bs <<- wl (rd addr (N.min (p + w + csz + 4) flen - addr));;
    match spec_dec_ohdr2 stol bs with
    | Ok (h, tg, r) =>
        _ <<- add_ext addr (addr + (blen bs - blen r)) K_ohdr2;;
        _ <<- add_stags tg;;
        ms <<- cont2 (N.testbit fl 2) fuel (o2_msgs h);;
        (* shared messages: only a datatype message that refers to a committed datatype is followed *)
        _ <<- wguardc 14 (forallb (fun m => negb (N.testbit (ms_flags m) 1) || (ms_type m =? 3)) ms);;
        wret (2, None, filter (fun m => negb (is_cont m) && negb (ms_type m =? 0)) ms)
    | _ => wfail 12
    end
  else
    hs <<- wl (u (addr + 8) 4);;
    bs <<- wl (rd addr (16 + hs));;
    match spec_dec_ohdr1 bs with
    | Ok (h, []) =>
        _ <<- add_ext addr (addr + 16 + hs) K_ohdr1;;
        ms <<- cont1 fuel (o1_msgs h);;
        _ <<- wguardc 15 (lenN ms =? o1_nmsgs h);;
        wret (1, Some (o1_refcount h), filter (fun m => negb (is_cont m) && negb (ms_type m =? 0)) ms)
    | _ => wfail 13
    end.

(* ------------------------------------------------------------------ shared (committed) datatypes *)
(* a datatype message; when it is shared (message flag bit 1) its body names the committed datatype: the object header at that
   address is decoded (on a scratch state: the committed datatype is visited as an object of its own where a link leads to it) and
   its datatype message is the datatype.  [resolve_fuel] bounds the continuation chain of that header. *)
Definition resolve_fuel : nat := 8.
Definition committed_dtype (a : N) : outcome (dtype * list tag) :=
  match ohdr_walk resolve_fuel a st0 with
  | WOk ((ver, _, ms), _) =>
      match msgs_of 3 ms with
      | m :: _ => if N.testbit (ms_flags m) 1 then Err else spec_dec_datatype stol (ver =? 1) (ms_data m)
      | [] => Err
      end
  | WErr _ => Err
  end.
Definition shared_dtype (pad : bool) (body : bytes) : outcome (dtype * list tag) :=
  a <- spec_dec_shared (cO c) (cL c) pad body;; committed_dtype a.
Definition dtype_of_msgs (pad : bool) (ms : list msg_spec) : option (outcome (dtype * list tag)) :=
  match msgs_of 3 ms with
  | m :: _ => Some (if N.testbit (ms_flags m) 1 then shared_dtype pad (ms_data m) else spec_dec_datatype stol pad (ms_data m))
  | [] => None
  end.
(* an attribute message; a shared datatype (attribute flag bit 0, versions 2 and 3) is resolved like a shared datatype message *)
Definition dec_attribute (pad : bool) (d : bytes) : outcome (attribute_spec * list tag) :=
  match d with
  | _ :: 1 :: _ => spec_dec_attribute_sh stol (cL c) pad (shared_dtype false) d       (* flags = 1: shared datatype *)
  | _ => spec_dec_attribute stol (cL c) pad d
  end.

(* ------------------------------------------------------------------ local heap, group B-tree, symbol table nodes *)
Definition heap_str (seg : bytes) (off : N) : outcome bytes :=
  if off <? blen seg then '(s, _) <- p_cstr (skipn (N.to_nat off) seg);; Ok s else Err.

(* -> the data segment *)
Definition local_heap (addr : N) : W bytes :=
  let hsz := 8 + 2 * nL + nO in
  bs <<- wl (rd addr hsz);;
  match spec_dec_lheap (cO c) (cL c) bs with
  | Ok (h, []) =>
      _ <<- add_ext addr (addr + hsz) K_lheap_hdr;;
      _ <<- add_ext (lh_addr h) (lh_addr h + lh_size h) K_lheap_data;;
      seg <<- wl (rd (lh_addr h) (lh_size h));;
      _ <<- wguardc 60 (lheap_free_ok (S (length seg)) (cL c) seg (lh_free h));;
      wret seg
  | _ => wfail 17
  end.

Definition snod_walk (seg : bytes) (addr : N) : W (list gentry) :=
  n <<- wl (u (addr + 6) 2);;
  let esz := 2 * nO + 24 in
  let cap := 2 * c_leafK c in
  bs <<- wl (rd addr (8 + n * esz));;
  match spec_dec_snod stol (cO c) (c_leafK c) bs with
  | Ok (es, tg, []) =>
      _ <<- add_ext addr (addr + 8 + n * esz) K_snod;;
      _ <<- add_stags tg;;
      _ <<- (if n <=? cap then add_soft addr (addr + 8 + cap * esz) K_snod X_snod_node_truncated else wret tt);;
      names <<- wl (omapM (fun e => heap_str seg (se_name_off e)) es);;
      _ <<- xdevif (negb (increasing names)) X_snod_unsorted;;
      wret (map (fun p => {| ge_e := fst p; ge_name := snd p |}) (combine es names))
  | _ => wfail 18
  end.

(* the common part of a v1 B-tree node visit: decode, extent, full-capacity region, sibling and level checks *)
Definition btree1_node (ntype : N) (nd : nat) (K : N) (kind : N) (addr : N) (top : bool) (level : option N) : W btree1_spec :=
  n <<- wl (u (addr + 6) 2);;
  let ks := if ntype =? 0 then nL else 8 + 8 * N.of_nat nd in
  let used := 8 + 2 * nO + n * (ks + nO) + ks in
  let full := 8 + 2 * nO + 2 * K * (ks + nO) + ks in
  bs <<- wl (rd addr used);;
  match spec_dec_btree1 stol (cO c) (cL c) ntype nd K bs with
  | Ok (b, tg, []) =>
      _ <<- add_ext addr (addr + used) kind;;
      _ <<- add_stags tg;;
      _ <<- (if n <=? 2 * K then add_soft addr (addr + full) kind X_btree1_node_truncated else wret tt);;
      _ <<- wguardc 61 (if top then (b1_left b =? undefO) && (b1_right b =? undefO) else true);;
      _ <<- wguardc 62 (match level with Some l => b1_level b =? l | None => true end);;
      wret b
  | _ => wfail 19
  end.

Definition gbtree_body (seg : bytes) (rec : N -> bool -> option N -> W (list gentry)) (addr : N) (top : bool) (level : option N)
  : W (list gentry) :=
  b <<- btree1_node 0 0 (c_intK c) K_btree1_group addr top level;;
  keynames <<- wl (omapM (fun k => heap_str seg (hd 0 k)) (b1_keys b));;
  res <<- wmapM (fun x : bytes * bytes * N =>
                   let '(lo, hi, child) := x in
                   ents <<- (if 0 <? b1_level b then rec child false (Some (b1_level b - 1)) else snod_walk seg child);;
                   wret (ents, forallb (fun e => bytes_ltb lo (ge_name e) && bytes_leb (ge_name e) hi) ents))
                (combine (combine keynames (tl keynames)) (b1_children b));;
  _ <<- xdevif (existsb (fun r => negb (snd r)) res) X_btree1_group_keys;;
  wret (concat (map fst res)).
Fixpoint gbtree (seg : bytes) (fuel : nat) : N -> bool -> option N -> W (list gentry) :=
  match fuel with O => fun _ _ _ => wfail 4 | S n => gbtree_body seg (gbtree seg n) end.

(* ------------------------------------------------------------------ chunk B-tree *)
Definition cbtree_body (nd : nat) (rec : N -> bool -> option N -> W (list chunk_rec)) (addr : N) (top : bool) (level : option N)
  : W (list chunk_rec) :=
  b <<- btree1_node 1 nd (c_istoreK c) K_btree1_chunk addr top level;;
  _ <<- wguardc 63 (increasing (map (skipn 2) (b1_keys b)));;
  if 0 <? b1_level b then
    r <<- wmapM (fun child => rec child false (Some (b1_level b - 1))) (b1_children b);;
    wret (concat r)
  else
    wret (map (fun p : list N * N => (nth 0 (fst p) 0, nth 1 (fst p) 0, skipn 2 (fst p), snd p)) (combine (b1_keys b) (b1_children b))).
Fixpoint cbtree (nd : nat) (fuel : nat) : N -> bool -> option N -> W (list chunk_rec) :=
  match fuel with O => fun _ _ _ => wfail 4 | S n => cbtree_body nd (cbtree nd n) end.

(* ------------------------------------------------------------------ dense attribute storage *)
Definition block_rec : Type := (N * N * N * N)%type.       (* heap offset, size, file address, prefix size *)

Definition dblock (h : fheap_spec) (haddr offsz : N) (a hoff size : N) : W N :=
  bs <<- wl (rd a size);;
  '(pre, tg) <<- wl (spec_dec_fhdb stol (cO c) haddr (N.to_nat offsz) hoff (fh_flags h) bs);;
  _ <<- add_ext a (a + size) K_fheap_dblock;;
  _ <<- add_stags tg;;
  wret pre.

Definition fheap_walk (addr : N) : W (fheap_spec * list block_rec) :=
  let size := 22 + 3 * nO + 12 * nL + 4 in
  bs <<- wl (rd addr size);;
  match spec_dec_fheap_hdr stol (cO c) (cL c) bs with
  | Ok (h, tg, []) =>
      _ <<- wguardc 23 (fh_filtlen h =? 0);;
      _ <<- add_ext addr (addr + size) K_fheap_hdr;;
      _ <<- add_stags tg;;
      (* huge objects are not implemented; the free-space manager of the managed blocks is not followed *)
      _ <<- wguardc 23 ((fh_hugebt h =? 0) || (fh_hugebt h =? undefO));;
      let offsz := (fh_maxheap h + 7) / 8 in
      let lensz := nbytes_for (N.min (fh_maxdirect h) (fh_maxobj h)) in
      _ <<- wguardc 64 (1 + offsz + lensz <=? fh_idlen h);;
      blocks <<- (if fh_root h =? undefO then _ <<- wguardc 65 (fh_nman h =? 0);; wret []
                  else if fh_currows h =? 0 then
                    pre <<- dblock h addr offsz (fh_root h) 0 (fh_start h);;
                    wret [(0, fh_start h, fh_root h, pre)]
                  else wfail 24);;
      _ <<- wguardc 66 (fh_manalloc h =? sumN (map (fun b : block_rec => snd (fst (fst b))) blocks));;
      wret (h, blocks)
  | _ => wfail 26
  end.

Definition btree2_walk (addr : N) : W (bt2hdr_spec * list bytes) :=
  let size := 22 + nO + nL in
  bs <<- wl (rd addr size);;
  match spec_dec_bt2hdr stol (cO c) (cL c) bs with
  | Ok (h, tg, []) =>
      _ <<- add_ext addr (addr + size) K_btree2_hdr;;
      _ <<- add_stags tg;;
      _ <<- wguardc 25 (b2_depth h =? 0);;
      if b2_nroot h =? 0 then wret (h, [])
      else
        lb <<- wl (rd (b2_root h) (b2_nodesize h));;
        '(recs, tg2) <<- wl (spec_dec_bt2leaf stol (b2_type h) (N.to_nat (b2_nroot h)) (N.to_nat (b2_recsize h)) lb);;
        _ <<- add_ext (b2_root h) (b2_root h + b2_nodesize h) K_btree2_leaf;;
        _ <<- add_stags tg2;;
        wret (h, recs)
  | _ => wfail 27
  end.

(* the bytes a managed heap ID addresses; [lib]: offsets count from the end of the block prefix *)
Definition heap_object (h : fheap_spec) (blocks : list block_rec) (hid : bytes) (lib : bool) : outcome bytes :=
  let offsz := N.to_nat ((fh_maxheap h + 7) / 8) in
  let lensz := N.to_nat (nbytes_for (N.min (fh_maxdirect h) (fh_maxobj h))) in
  let b0 := hd 0 hid in
  _ <- guard ((b0 / 64 =? 0) && ((b0 / 16) mod 4 =? 0));;
  let off := unle (firstn offsz (tl hid)) in
  let ln := unle (firstn lensz (skipn (S offsz) hid)) in
  _ <- guard (all_zero (skipn (S offsz + lensz) hid));;
  match filter (fun b : block_rec => let '(hoff, size, _, _) := b in (hoff <=? off) && (off <? hoff + size)) blocks with
  | (hoff, size, faddr, pre) :: _ =>
      let start := faddr + (off - hoff) + (if lib then pre else 0) in
      _ <- guard ((lib || (pre <=? off - hoff)) && (start + ln <=? faddr + size) && (0 <? ln));;
      rd start ln
  | [] => Err
  end.

Definition dense_mode (h : fheap_spec) (blocks : list block_rec) (recs : list (N * bytes)) (lib : bool)
  : outcome (list (bytes * list tag)) :=
  omapM (fun r : N * bytes =>
           obj <- heap_object h blocks (snd r) lib;;
           '(a, tg) <- dec_attribute false obj;;
           _ <- guard (spec_checksum (as_name a) =? fst r);;
           Ok (as_name a, tg)) recs.

(* the attribute info message -> names of the densely stored attributes *)
Definition dense_attrs (d : bytes) : W (list bytes) :=
  ai <<- wl (spec_dec_attrinfo (cO c) false d);;
  match (match ais_btorder ai with Some bo => negb (bo =? undefO) && (ais_heap ai =? undefO) | None => false end) with
  | true => wfail 22                      (* a creation order index without a heap *)
  | false =>
    if (ais_heap ai =? undefO) && (ais_btname ai =? undefO) then wret []
    else
      '(h, blocks) <<- fheap_walk (ais_heap ai);;
      '(bt, raw) <<- btree2_walk (ais_btname ai);;
      (* the creation order index (B-tree type 9) holds the same number of records *)
      _ <<- match ais_btorder ai with
            | Some bo => if bo =? undefO then wret tt
                         else '(bt9, raw9) <<- btree2_walk bo;; wguardc 22 ((b2_type bt9 =? 9) && (lenN raw9 =? lenN raw))
            | None => wret tt
            end;;
      recs <<- (if b2_type bt =? 8 then
                  _ <<- wguardc 67 (b2_recsize bt =? fh_idlen h + 9);;
                  wret (map (fun r => (unle (skipn (length r - 4) r), firstn (N.to_nat (fh_idlen h)) r)) raw)
                else if b2_type bt =? 5 then
                  _ <<- xdev X_btree2_attr_type_5;;
                  _ <<- wguardc 68 (b2_recsize bt =? 11);;
                  wret (map (fun r => (unle (firstn 4 r), firstn 7 (skipn 4 r))) raw)
                else wfail 69);;
      _ <<- wguardc 70 (lenN recs =? fh_nman h);;
      _ <<- wguardc 71 (nondecreasingN (map fst recs));;
      match dense_mode h blocks recs false with
      | Ok l => _ <<- add_stags (concat (map snd l));; wret (map fst l)
      | _ =>
          match dense_mode h blocks recs true with
          | Ok l => _ <<- xdev X_fheap_offset_excludes_block_prefix;; _ <<- add_stags (concat (map snd l));; wret (map fst l)
          | _ => wfail 28
          end
      end
  end.

(* ------------------------------------------------------------------ new-style groups: the link info message -> densely stored links
   (fractal heap of link messages, name index: v2 B-tree type 5 with records hash of the name (4) | heap ID (7); creation order
   index: type 6) *)
(* the writer's private layout of a densely stored link (listed deviation X_dense_link_private_layout):
   version (1) | link type (0) | flags (4) | character set | length of the name in its minimal number of bytes | name | address (O) *)
Definition dec_link_private (obj : bytes) : outcome link_spec :=
  '(ver, r) <- p_byte obj;; _ <- guard (ver =? 1);;
  '(lt, r) <- p_byte r;; _ <- guard (lt =? 0);;
  '(fl, r) <- p_byte r;; _ <- guard (fl =? 4);;
  '(cs, r) <- p_byte r;; _ <- guard (cs <? 2);;
  let w := if blen r <? 1 + 256 + nO then 1%nat else 2%nat in
  '(nl, r) <- p_u w r;;
  _ <- guard ((0 <? nl) && (N.of_nat w =? nbytes_for nl));;
  '(name, r) <- p_take (N.to_nat nl) r;;
  '(a, r) <- p_u (cO c) r;;
  _ <- p_end false r;;
  Ok {| ls_flags := 0; ls_corder := None; ls_cset := cs; ls_name := name; ls_value := LHard a |}.

(* the records of the name index resolved to links; [lib]: heap ID offsets in the library's convention, [priv]: the private layout *)
Definition link_mode (h : fheap_spec) (blocks : list block_rec) (recs : list (N * bytes)) (lib priv : bool)
  : outcome (list (link_spec * list tag)) :=
  omapM (fun r : N * bytes =>
           obj <- heap_object h blocks (snd r) lib;;
           '(l, tg) <- (if priv then l <- dec_link_private obj;; Ok (l, []) else spec_dec_link stol (cO c) false obj);;
           _ <- guard (spec_checksum (ls_name l) =? fst r);;
           Ok (l, tg)) recs.

(* -> (the links, true when they are stored in the private layout) *)
Definition dense_links (pad : bool) (d : bytes) : W (list link_spec * bool) :=
  li <<- wlc 40 (spec_dec_linkinfo (cO c) pad d);;
  if lis_heap li =? undefO then _ <<- wguardc 72 (lis_btname li =? undefO);; wret ([], false)
  else
    '(h, blocks) <<- fheap_walk (lis_heap li);;
    '(bt, raw) <<- btree2_walk (lis_btname li);;
    _ <<- wguardc 73 ((b2_type bt =? 5) && (b2_recsize bt =? 11));;
    _ <<- (if fh_idlen h =? 7 then wret tt else _ <<- wguardc 74 (fh_idlen h =? 8);; xdev X_btree2_link_id_truncated);;
    _ <<- match lis_btorder li with
          | Some bo => if bo =? undefO then wret tt
                       else '(bt6, raw6) <<- btree2_walk bo;; wguardc 22 ((b2_type bt6 =? 6) && (lenN raw6 =? lenN raw))
          | None => wret tt
          end;;
    let recs := map (fun r => (unle (firstn 4 r), firstn 7 (skipn 4 r))) raw in
    _ <<- wguardc 75 (lenN recs =? fh_nman h);;
    _ <<- wguardc 76 (nondecreasingN (map fst recs));;
    match link_mode h blocks recs false false with
    | Ok l => _ <<- add_stags (concat (map snd l));; wret (map fst l, false)
    | _ =>
      match link_mode h blocks recs true false with
      | Ok l => _ <<- xdev X_fheap_offset_excludes_block_prefix;; _ <<- add_stags (concat (map snd l));; wret (map fst l, false)
      | _ =>
        match link_mode h blocks recs false true with
        | Ok l => _ <<- xdev X_dense_link_private_layout;; wret (map fst l, true)
        | _ =>
          match link_mode h blocks recs true true with
          | Ok l => _ <<- xdev X_fheap_offset_excludes_block_prefix;; _ <<- xdev X_dense_link_private_layout;; wret (map fst l, true)
          | _ => wfail 28
          end
        end
      end
    end.

Definition link_type (l : link_spec) : N := match ls_value l with LHard _ => 0 | LSoft _ => 1 | LExternal _ _ => 64 end.
Definition link_target (l : link_spec) : N := match ls_value l with LHard a => a | _ => 0 end.

(* ------------------------------------------------------------------ raw data of a dataset *)
Definition dataset_data (cb : nat -> N -> bool -> option N -> W (list chunk_rec))
  (lay : layout4_spec) (esz : N) (dims : list N) (total : N) (filtered : bool) : W unit :=
  match lay with
  | L4Virtual _ _ => wfail 51
  | L4Chunked fl ldims idx a =>
      (* version 4 chunk indexes: the single chunk and the implicit index are followed *)
      let rank := length dims in
      _ <<- wguardc 77 ((length ldims =? S rank)%nat && (lastN ldims =? esz));;
      let cdims := removelast ldims in
      let csize := prodN cdims * esz in
      match idx with
      | CISingle fz =>
          _ <<- wguardc 78 (match fz with Some _ => filtered | None => true end);;
          if a =? undefO then wret tt
          else
            let nbytes := match fz with Some (sz, _) => sz | None => csize end in
            _ <<- wguardc 79 (0 <? nbytes);;
            add_ext a (a + nbytes) K_chunk
      | CIImplicit =>
          _ <<- wguardc 80 (negb filtered);;
          if a =? undefO then wret tt
          else
            let nchunks := prodN (map (fun p : N * N => (fst p + snd p - 1) / snd p) (combine dims cdims)) in
            _ <<- wguardc 81 (0 <? nchunks * csize);;
            add_ext a (a + nchunks * csize) K_chunk
      | CIFixedArray _ => wfail 48
      | CIExtArray _ => wfail 49
      | CIBtree2 _ _ _ => wfail 50
      end
  | L4Plain lay =>
  match lay with
  | LyCompact data => wguardc 82 (blen data =? total)
  | LyContiguous a sz =>
      _ <<- wguardc 83 (negb filtered);;
      if a =? undefO then wret tt
      else _ <<- wguardc 84 (sz =? total);; if 0 <? total then add_ext a (a + total) K_contiguous else wret tt
  | LyChunked a ldims =>
      let rank := length dims in
      let nd := length ldims in
      cdims <<- (if (nd =? S rank)%nat then _ <<- wguardc 85 (lastN ldims =? esz);; wret (removelast ldims)
                 else if (nd =? rank)%nat then _ <<- sdev T_chunk_dims_no_elem_dim;; wret ldims
                 else wfail 86);;
      _ <<- wguardc 87 (forallb (fun d => 0 <? d) cdims);;
      if a =? undefO then wret tt
      else if a =? 0 then sdev T_chunk_btree_addr_0
      else
        chunks <<- cb nd a true None;;
        let csize := prodN cdims * esz in
        wforM (fun ch : chunk_rec =>
                 let '(nbytes, mask, offs, caddr) := ch in
                 _ <<- wguardc 88 (if (nd =? S rank)%nat then lastN offs =? 0 else true);;
                 _ <<- wguardc 89 (forall2b (fun o d => o mod d =? 0) (firstn rank offs) cdims);;
                 _ <<- wguardc 90 (0 <? nbytes);;
                 _ <<- add_ext caddr (caddr + nbytes) K_chunk;;
                 (* the decoded size of a filtered chunk is not checked: deflate is not modelled *)
                 if filtered then wret tt else wguardc 91 ((mask =? 0) && (nbytes =? csize))) chunks
  end
  end.

(* the data layout message in any of its versions; versions 1 and 2 need the element size [esz] of the datatype *)
Definition dec_layout_any (pad : bool) (rank : nat) (esz : N) (lyb : bytes) : outcome layout4_spec :=
  match lyb with
  | 3 :: _ => l <- spec_dec_layout (cO c) (cL c) pad lyb;; Ok (L4Plain l)
  | 4 :: _ => spec_dec_layout4 (cO c) (cL c) pad lyb
  | _ => l <- spec_dec_layout12 (cO c) rank esz pad lyb;; Ok (L4Plain l)
  end.


(* the low bits of the class bit field that carry byte order (bit 0), signedness (integers: bit 3), string padding (bits 0-3)
   and character set (bits 4-7), variable-length type (bits 0-3) / padding (4-7) / character set (8-11) *)
Definition dtype_bits (t : dtype) : N :=
  match t with
  | DFixed _ _ order _ _ signed _ _ => order + (if signed then 8 else 0)
  | DFloat _ _ order _ _ _ _ _ _ _ _ _ _ => order
  | DTime _ _ order _ => order
  | DString _ _ pad cset => pad + 16 * cset
  | DBitfield _ _ order _ _ _ _ => order
  | DVlen _ _ vtype pad cset _ => vtype + 16 * pad + 256 * cset
  | _ => 0
  end.
Definition layout_code (l : layout_spec) : N := match l with LyCompact _ => 0 | LyContiguous _ _ => 1 | LyChunked _ _ => 2 end.
Definition layout4_code (l : layout4_spec) : N := match l with L4Plain l => layout_code l | L4Chunked _ _ _ _ => 2 | L4Virtual _ _ => 3 end.

(* ------------------------------------------------------------------ one object *)
Definition obj_body (fuel : nat) (rec : N -> bytes -> W unit) (addr : N) (path : bytes) : W unit :=
  seen <<- wget (fun r => memN addr (r_seen r));;
  if seen then wret tt else
  _ <<- mark_seen addr;;
  '(ver, rc0, ms) <<- ohdr_walk fuel addr;;
  let pad := ver =? 1 in
  _ <<- match filter (fun m => negb (memN (ms_type m) known_types)) ms with [] => wret tt | m :: _ => wfail (1000 + ms_type m) end;;
  _ <<- wguardc 16 (forallb (fun t => lenN (msgs_of t ms) <=? 1) once_types);;
  (* reference count *)
  rc <<- match first_of 22 ms with
         | Some d => '(n, tg) <<- wl (spec_dec_refcount stol pad d);; _ <<- add_stags tg;; wret n
         | None => wret (match rc0 with Some r => r | None => 1 end)
         end;;
  _ <<- add_ref addr rc;;
  (* attributes: compact, then dense *)
  cnames <<- wmapM (fun m => '(a, tg) <<- wlc 37 (dec_attribute pad (ms_data m));; _ <<- add_stags tg;; wret (as_name a))
                   (msgs_of 12 ms);;
  _ <<- (if has_msg 15 ms then _ <<- sdev T_attrinfo_type_0x0f;; wguardc 92 (negb (has_msg 21 ms)) else wret tt);;
  dnames <<- match (if has_msg 15 ms then first_of 15 ms else first_of 21 ms) with
             | Some d => dense_attrs d
             | None => wret []
             end;;
  (* every use of a committed datatype (a shared datatype message, a compact attribute with a shared datatype) counts in the committed
     datatype's reference count like a hard link *)
  _ <<- wforM (fun m => if N.testbit (ms_flags m) 1 then a <<- wlc 46 (spec_dec_shared (cO c) (cL c) pad (ms_data m));; add_link a else wret tt)
              (msgs_of 3 ms);;
  _ <<- wforM (fun m => match attr_shared_addr (cO c) (cL c) (ms_data m) with Ok a => add_link a | _ => wret tt end) (msgs_of 12 ms);;
  let names := cnames ++ dnames in
  _ <<- wguardc 93 (nodupb names);;
  match first_of 17 ms with
  | Some d =>
      (* a symbol-table group *)
      '(bt, hp) <<- wl (spec_dec_symtab (cO c) pad d);;
      _ <<- add_stab addr bt hp;;
      seg <<- local_heap hp;;
      ents <<- gbtree seg fuel bt true None;;
      _ <<- wguardc 94 (nodupb (map ge_name ents) && forallb (fun e => negb (length (ge_name e) =? 0)%nat) ents);;
      (* symbolic link entries (cache type 2): the link value is a string in the local heap *)
      _ <<- wlc 21 (omapM (fun e => if se_cache (ge_e e) =? 2 then heap_str seg (se_link_off (ge_e e)) else Ok []) ents);;
      _ <<- add_sum {| os_addr := addr; os_path := path; os_kind := 1; os_dims := []; os_dtclass := 0; os_dtsize := 0;
                       os_layout := 0; os_attrs := names; os_dtbits := 0; os_space := 0;
                       os_links := map (fun e => (if se_cache (ge_e e) =? 2 then 1 else 0, ge_name e)) ents;
                       os_ltargets := map (fun e => if se_cache (ge_e e) =? 2 then 0 else se_obj (ge_e e)) ents |};;
      wforM (fun e =>
               if se_cache (ge_e e) =? 2 then wret tt else
               let child := se_obj (ge_e e) in
               _ <<- add_link child;;
               _ <<- rec child (join_path path (ge_name e));;
               if se_cache (ge_e e) =? 1 then
                 (* the cached B-tree / heap addresses equal the child's symbol table message *)
                 stab <<- wget (fun r => find (fun p => fst p =? child) (r_stab r));;
                 match stab with
                 | Some (_, (b, h)) => wguardc 95 ((b =? se_btree (ge_e e)) && (h =? se_heap (ge_e e)))
                 | None => wfail 96
                 end
               else wret tt) ents
  | None =>
    if has_msg 2 ms then
      (* a new-style group: links in link messages (compact) or in a fractal heap (dense), never both *)
      clinks <<- wmapM (fun m => '(l, tg) <<- wlc 39 (spec_dec_link stol (cO c) pad (ms_data m));; _ <<- add_stags tg;; wret l) (msgs_of 6 ms);;
      '(dlinks, priv) <<- match first_of 2 ms with Some d => dense_links pad d | None => wret ([], false) end;;
      _ <<- wguardc 97 (match clinks, dlinks with _ :: _, _ :: _ => false | _, _ => true end);;
      let links := clinks ++ dlinks in
      _ <<- wguardc 98 (nodupb (map ls_name links));;
      _ <<- wguardc 99 (negb (has_msg 8 ms) && negb (has_msg 3 ms));;
      (* a group has no dataspace; the writer's dense groups carry a scalar version 1 dataspace message (listed deviation) *)
      _ <<- match first_of 1 ms with
            | Some dsb => _ <<- xdev X_group_dataspace_msg;; ds <<- wlc 32 (spec_dec_dataspace (cL c) pad dsb);; wret tt
            | None => wret tt
            end;;
      _ <<- add_sum {| os_addr := addr; os_path := path; os_kind := 1; os_dims := []; os_dtclass := 0; os_dtsize := 0;
                       os_layout := 0; os_attrs := names; os_dtbits := 0; os_space := 0;
                       os_links := map (fun l => (link_type l, ls_name l)) links; os_ltargets := map link_target links |};;
      wforM (fun l => match ls_value l with
                      | LHard child => _ <<- add_link child;; _ <<- (if priv then add_dlink child else wret tt);;
                                       rec child (join_path path (ls_name l))
                      | _ => wret tt
                      end) links
    else if has_msg 6 ms then
      _ <<- sdev T_softlink_stored_as_object;;
      _ <<- wforM (fun m => '(_, tg) <<- wl (spec_dec_link stol (cO c) false (ms_data m));; add_stags tg) (msgs_of 6 ms);;
      add_sum {| os_addr := addr; os_path := path; os_kind := 3; os_dims := []; os_dtclass := 0; os_dtsize := 0;
                 os_layout := 0; os_attrs := names; os_dtbits := 0; os_space := 0; os_links := []; os_ltargets := [] |}
    else
      match first_of 8 ms, dtype_of_msgs pad ms, first_of 1 ms with
      | Some lyb, Some dto, Some dsb =>
          '(dt, tg) <<- wlc 31 dto;;
          _ <<- add_stags tg;;
          ds <<- wlc 32 (spec_dec_dataspace (cL c) pad dsb);;
          lay <<- wlc 33 (dec_layout_any pad (length (dss_dims ds)) (dtype_size dt) lyb);;
          filtered <<- match first_of 11 ms with
                       | Some pb =>
                           '(fs, tg) <<- wlc 34 (spec_dec_pipeline stol pad pb);;
                           _ <<- add_stags tg;;
                           wret true
                       | None => wret false
                       end;;
          (* the fill value message (0x0005) is required since library version 1.6; a dataset whose layout message has version 1 or 2
             was written before it existed (or by 1.6.0-1.6.2 together with it) and may have neither fill value message *)
          _ <<- (if negb (has_msg 5 ms) && negb (has_msg 4 ms) then
                   if hd 0 lyb <? 3 then wret tt else sdev T_dataset_no_fillvalue_msg
                 else match first_of 5 ms with
                      | Some fv => v <<- wlc 36 (spec_dec_fillvalue pad fv);; wret tt
                      | None => wret tt
                      end);;
          _ <<- wguardc 38 (negb filtered || (layout4_code lay =? 2));;
          _ <<- add_sum {| os_addr := addr; os_path := path; os_kind := 2; os_dims := dss_dims ds; os_dtclass := dtype_class dt;
                           os_dtsize := dtype_size dt; os_layout := layout4_code lay; os_attrs := names;
                           os_dtbits := dtype_bits dt; os_space := dss_type ds; os_links := []; os_ltargets := [] |};;
          dataset_data (fun nd => cbtree nd fuel) lay (dtype_size dt) (dss_dims ds) (nelem ds * dtype_size dt) filtered
      | None, Some dto, None =>
          (* a committed datatype *)
          '(dt, tg) <<- wlc 31 dto;;
          _ <<- add_stags tg;;
          add_sum {| os_addr := addr; os_path := path; os_kind := 4; os_dims := []; os_dtclass := dtype_class dt;
                     os_dtsize := dtype_size dt; os_layout := 0; os_attrs := names; os_dtbits := dtype_bits dt; os_space := 0;
                     os_links := []; os_ltargets := [] |}
      | _, _, _ => wfail 30
      end
  end.
Fixpoint walk_obj (fuel : nat) : N -> bytes -> W unit :=
  match fuel with O => fun _ _ => wfail 4 | S n => obj_body n (walk_obj n) end.

(* ------------------------------------------------------------------ the cross-structure clauses after the traversal *)
Definition finish (sb : superblock_spec) : W unit :=
  (* versions 0, 1: the root symbol table entry, when its cache type is 1, caches the root group's B-tree and heap addresses
     (cache type 0, nothing cached, is what the reference library writes when it is not sure; 2 is for symbolic links) *)
  _ <<- match sbs_root_entry sb with
        | Some e =>
            stab <<- wget (fun r => find (fun p => fst p =? sbs_root sb) (r_stab r));;
            match stab with
            | Some (_, (b, h)) => wguardc 100 ((se_cache e =? 0) || ((se_cache e =? 1) && (b =? se_btree e) && (h =? se_heap e)))
            | None => wguardc 101 (se_cache e =? 0)            (* a new-style root group: nothing to cache *)
            end
        | None => wret tt
        end;;
  (* reference counts against the hard links found *)
  refs <<- wget r_refs;;
  links <<- wget r_links;;
  dlinks <<- wget r_dlinks;;
  _ <<- wforM (fun p : N * N => let lc := countN (fst p) links in
                 if snd p =? lc then wret tt
                 else if (0 <? countN (fst p) dlinks) && (snd p + countN (fst p) dlinks =? lc) then xdev X_refcount_ignores_dense_links
                 else xdev (if lc <? snd p then X_refcount_too_high else X_refcount_too_low)) refs;;
  (* full-capacity regions of fixed-size nodes *)
  exts <<- wexts;;
  soft <<- wget r_soft;;
  _ <<- wforM (fun p : xext * xtag =>
                 let '(s, e, k) := fst p in
                 xdevif ((flen <? e) ||
                         existsb (fun x : xext => let '(hs, he, hk) := x in (hs <? e) && (s <? he) && negb ((hs =? s) && (hk =? k))) exts)
                        (snd p)) soft;;
  (* the recorded end-of-file address *)
  if existsb (fun x : xext => sbs_eof sb <? snd (fst x)) exts then xdev X_sb_eof_stale
  else wguardc 102 (sbs_eof sb <=? flen).

End Ctx.

Definition walk_all (fuel : nat) : W superblock_spec :=
  sb <<- walk_superblock;;
  let c := {| cO := N.to_nat (sbs_O sb); cL := N.to_nat (sbs_L sb); c_leafK := sbs_leafK sb; c_intK := sbs_intK sb;
              c_istoreK := sbs_istoreK sb |} in
  (* the superblock extension: an object header with the B-tree 'K' values (0x13), shared message table (0x0f) and file space
     info (0x17) messages; driver information (0x14) is not followed *)
  ks <<- (if sbs_ext sb =? undef (cO c) then wret (c_leafK c, c_intK c, c_istoreK c)
          else
            '(ver, _, ms) <<- ohdr_walk c fuel (sbs_ext sb);;
            _ <<- wguardc 5 (forallb (fun m => memN (ms_type m) [15; 19; 23]) ms);;
            match first_of 19 ms with
            | Some d => wlc 5 (spec_dec_btreek (ver =? 1) d)
            | None => wret (c_leafK c, c_intK c, c_istoreK c)
            end);;
  let c := {| cO := cO c; cL := cL c; c_leafK := fst (fst ks); c_intK := snd (fst ks); c_istoreK := snd ks |} in
  _ <<- walk_obj c fuel (sbs_root sb) [slash];;
  _ <<- add_link (sbs_root sb);;
  _ <<- finish sb;;
  wret sb.

Definition walk_run (fuel : nat) : outcome walk_result :=
  match walk_all fuel st0 with
  | WOk (sb, st) => Ok {| wr_extents := ws_ext st; wr_tree := ws_sum st; wr_tags := ws_tags st; wr_eof := sbs_eof sb;
                         wr_version := sbs_version sb |}
  | _ => Err
  end.

End Walk.

Definition walk (tol : wtolerance) (fuel : nat) (f : bytes) : outcome walk_result := walk_run f (blen f) tol fuel.
(* why a walk rejects: 0 when it accepts, else the reason code of the clause that failed first *)
Definition walk_code (tol : wtolerance) (fuel : nat) (f : bytes) : N :=
  match walk_all f (blen f) tol fuel st0 with WOk _ => 0 | WErr c => c end.

(* fuel that is ample for every file the tie meets: one unit per nesting level (groups, B-tree levels, continuation
   chains); not proved sufficient in general - more fuel never changes an accepted answer (Proofs/Walk.v) *)
Definition default_fuel : nat := 200.

Definition plain (l : list xext) : list ext := map fst l.

(* the boolean the tie uses: the tolerant walk accepts, and the visited extents are inside the file, at or below the
   recorded end-of-file address, and pairwise disjoint *)
Definition walk_ok (fuel : nat) (f : bytes) : bool :=
  match walk wtolerant fuel f with
  | Ok r => extents_ok (blen f) (wr_eof r) (plain (wr_extents r))
  | _ => false
  end.
