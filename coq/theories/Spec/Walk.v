(* C05 - a WHOLE-FILE specification walker.

   [walk tol fuel f] decodes the superblock of the file [f] (versions 0-3), follows the root object header and from
   there every structure the HDF5 File Format Specification makes reachable:
     object headers v1 / v2 (+ continuation blocks), their messages (decoded by Spec/FormatMsg.v),
     symbol-table groups (local heap, v1 B-tree type 0, symbol table nodes, entries -> child object headers),
     datasets (contiguous data extent; chunked: v1 B-tree type 1 nodes -> chunk extents),
     attributes (compact: in the header; dense: fractal heap header + root direct block, v2 B-tree header + leaf),
     link-only object headers (soft / external links as this writer stores them).
   It returns the visited extents (start, end, kind), a modest summary of the tree, and the deviations it tolerated:
   the per-structure tags of Spec/Parse.v ([WS]) and the cross-structure tags that only a whole-file walk can see ([WX]).
   Every address is read through [rd] (checked slicing), every extent is recorded through [add_ext] (checked against
   the file length): an address outside the file is [Err], never a guess.  Executable, proof-free; lemmas in
   Proofs/Walk.v, theorems in Props/C05Walk.v.

   NOT covered (the walker answers [Err], the tie counts such files as "not covered"): fractal heaps with an indirect
   root block, v2 B-trees of depth > 0, new-style (Link Info) groups, filtered chunk contents (deflate is not
   modelled: the chunk extent is recorded, its decoded size is not checked), global heap collections. *)
From HV Require Import Base.Prelude Base.Outcome Base.Bytes Spec.Parse Spec.Format Spec.FormatMsg Spec.FormatNode
  Spec.FormatRef Model.Wellformed.

(* ------------------------------------------------------------------ kinds of extents (tools/props/c05walk.py KINDS) *)
Definition K_superblock : N := 1.    Definition K_ohdr1 : N := 2.        Definition K_ohdr1_cont : N := 3.
Definition K_ohdr2 : N := 4.         Definition K_ohdr2_cont : N := 5.   Definition K_lheap_hdr : N := 6.
Definition K_lheap_data : N := 7.    Definition K_btree1_group : N := 8. Definition K_snod : N := 9.
Definition K_btree1_chunk : N := 10. Definition K_chunk : N := 11.       Definition K_contiguous : N := 12.
Definition K_fheap_hdr : N := 13.    Definition K_fheap_dblock : N := 14. Definition K_btree2_hdr : N := 15.
Definition K_btree2_leaf : N := 16.  Definition K_gcol : N := 17.

(* ------------------------------------------------------------------ deviation tags of the walk *)
Inductive xtag : Type :=
| X_sb_eof_stale            (* a visited structure ends beyond the superblock's end-of-file address *)
| X_refcount_too_high | X_refcount_too_low     (* object reference count vs hard links found *)
| X_snod_unsorted           (* symbol table node entries not in increasing name order *)
| X_btree1_group_keys       (* group B-tree keys do not bound the names of the child *)
| X_btree1_node_truncated   (* the node's full 2K-entry region leaves the file or overlaps another structure *)
| X_snod_node_truncated
| X_fheap_offset_excludes_block_prefix   (* heap ID offsets count from the object data of the direct block *)
| X_btree2_attr_type_5      (* attribute name index of B-tree type 5 *)
| X_vlen_elem_no_length.
Inductive wtag : Type := WS (t : tag) | WX (x : xtag).
Definition xtag_code (x : xtag) : N :=
  match x with
  | X_sb_eof_stale => 101 | X_refcount_too_high => 102 | X_refcount_too_low => 103 | X_snod_unsorted => 104
  | X_btree1_group_keys => 105 | X_btree1_node_truncated => 106 | X_snod_node_truncated => 107
  | X_fheap_offset_excludes_block_prefix => 108 | X_btree2_attr_type_5 => 109 | X_vlen_elem_no_length => 110
  end.
Definition wtag_code (t : wtag) : N := match t with WS t => tag_code t | WX x => xtag_code x end.
Definition wtolerance := wtag -> bool.
Definition wstrict : wtolerance := fun _ => false.
Definition wtolerant : wtolerance := fun _ => true.

(* ------------------------------------------------------------------ result *)
(* kind: 1 group, 2 dataset, 3 link object, 4 committed datatype;  layout: 0 compact, 1 contiguous, 2 chunked (datasets);
   os_dtbits: byte order / signedness / string padding as in the class bit field ([dtype_bits]);
   os_space: dataspace type 0 scalar, 1 simple, 2 null;  os_links: (link type 0 hard / 1 soft / 64 external, link name) of a group *)
Record obj_sum := { os_addr : N; os_path : bytes; os_kind : N; os_dims : list N; os_dtclass : N; os_dtsize : N;
                    os_layout : N; os_attrs : list bytes; os_dtbits : N; os_space : N; os_links : list (N * bytes) }.
Definition xext : Type := (N * N * N)%type.      (* start, end, kind *)
Record walk_result := { wr_extents : list xext; wr_tree : list obj_sum; wr_tags : list wtag; wr_eof : N; wr_version : N }.

Record wstate := { ws_ext : list xext; ws_soft : list (xext * xtag); ws_tags : list wtag; ws_sum : list obj_sum;
                   ws_seen : list N; ws_links : list N; ws_refs : list (N * N); ws_stab : list (N * (N * N)) }.
Definition st0 : wstate := {| ws_ext := []; ws_soft := []; ws_tags := []; ws_sum := []; ws_seen := []; ws_links := [];
                              ws_refs := []; ws_stab := [] |}.
Definition set_ext (v : list xext) (s : wstate) : wstate :=
  {| ws_ext := v; ws_soft := ws_soft s; ws_tags := ws_tags s; ws_sum := ws_sum s; ws_seen := ws_seen s;
     ws_links := ws_links s; ws_refs := ws_refs s; ws_stab := ws_stab s |}.
(* everything but the extents *)
Record wrest := { r_soft : list (xext * xtag); r_tags : list wtag; r_sum : list obj_sum; r_seen : list N; r_links : list N;
                  r_refs : list (N * N); r_stab : list (N * (N * N)) }.
Definition rest_of (s : wstate) : wrest :=
  {| r_soft := ws_soft s; r_tags := ws_tags s; r_sum := ws_sum s; r_seen := ws_seen s; r_links := ws_links s;
     r_refs := ws_refs s; r_stab := ws_stab s |}.
Definition with_rest (r : wrest) (s : wstate) : wstate :=
  {| ws_ext := ws_ext s; ws_soft := r_soft r; ws_tags := r_tags r; ws_sum := r_sum r; ws_seen := r_seen r;
     ws_links := r_links r; ws_refs := r_refs r; ws_stab := r_stab r |}.

(* ------------------------------------------------------------------ the walk monad: state + Ok/Err (a [Panic] of a
   decoder is turned into [Err] where it enters: a specification walker rejects, it never panics) *)
(* a rejection carries a reason code (tools/props/c06walk.py REASONS): 1 a structural clause failed, 2 a decoder rejected or a
   read left the file, 3 an extent is empty or leaves the file, 10.. named clauses, 200 + tag: a deviation that is not tolerated,
   1000 + t: message type t is not interpreted *)
Inductive wres (A : Type) : Type := WOk (a : A) | WErr (code : N).
Arguments WOk {A} a.
Arguments WErr {A} code.
Definition W (A : Type) := wstate -> wres (A * wstate).
Definition wret {A} (a : A) : W A := fun st => WOk (a, st).
Definition wfail {A} (code : N) : W A := fun _ => WErr code.
Definition wbind {A B} (m : W A) (k : A -> W B) : W B :=
  fun st => match m st with WOk (a, st') => k a st' | WErr c => WErr c end.
Definition wlc {A} (code : N) (o : outcome A) : W A := fun st => match o with Ok a => WOk (a, st) | _ => WErr code end.
Definition wguardc (code : N) (c : bool) : W unit := if c then wret tt else wfail code.
Notation werr := (wfail 1).
Notation wl := (wlc 2).
Notation wguard := (wguardc 1).
(* read / update everything but the extents *)
Definition wget {A} (g : wrest -> A) : W A := fun st => WOk (g (rest_of st), st).
Definition wupd (g : wrest -> wrest) : W unit := fun st => WOk (tt, with_rest (g (rest_of st)) st).
(* read the extents (the final cross-structure clauses) *)
Definition wexts : W (list xext) := fun st => WOk (ws_ext st, st).

Notation "x <<- e ;; k" := (wbind e (fun x => k)) (at level 61, e at next level, right associativity).
Notation "' p <<- e ;; k" := (wbind e (fun x => let p := x in k)) (at level 61, p pattern, e at next level, right associativity).

Fixpoint wmapM {A B} (g : A -> W B) (l : list A) : W (list B) :=
  match l with
  | [] => wret []
  | x :: r => y <<- g x;; ys <<- wmapM g r;; wret (y :: ys)
  end.
Fixpoint wforM {A} (g : A -> W unit) (l : list A) : W unit :=
  match l with
  | [] => wret tt
  | x :: r => _ <<- g x;; wforM g r
  end.
Fixpoint omapM {A B} (g : A -> outcome B) (l : list A) : outcome (list B) :=
  match l with
  | [] => Ok []
  | x :: r => y <- g x;; ys <- omapM g r;; Ok (y :: ys)
  end.

(* ------------------------------------------------------------------ small helpers *)
Fixpoint bytes_ltb (a b : list N) : bool :=
  match a, b with
  | _, [] => false
  | [], _ :: _ => true
  | x :: a', y :: b' => (x <? y) || ((x =? y) && bytes_ltb a' b')
  end.
Definition bytes_leb (a b : list N) : bool := negb (bytes_ltb b a).
Fixpoint increasing (l : list (list N)) : bool :=
  match l with
  | a :: r => match r with b :: _ => bytes_ltb a b && increasing r | [] => true end
  | [] => true
  end.
Fixpoint nondecreasingN (l : list N) : bool :=
  match l with
  | a :: r => match r with b :: _ => (a <=? b) && nondecreasingN r | [] => true end
  | [] => true
  end.
Fixpoint nodupb (l : list bytes) : bool :=
  match l with [] => true | x :: r => negb (existsb (bytes_eqb x) r) && nodupb r end.
Definition countN (a : N) (l : list N) : N := N.of_nat (length (filter (N.eqb a) l)).
Definition memN (a : N) (l : list N) : bool := existsb (N.eqb a) l.
Definition sumN (l : list N) : N := fold_left N.add l 0.
Definition prodN (l : list N) : N := fold_left N.mul l 1.
Definition lastN (l : list N) : N := last l 0.
Definition lenN {A} (l : list A) : N := N.of_nat (length l).
(* minimum number of bytes that hold the value v *)
Definition nbytes_for (v : N) : N := if v =? 0 then 1 else N.log2 v / 8 + 1.
Definition slash : N := 47.
Definition join_path (path name : bytes) : bytes := (if bytes_eqb path [slash] then [] else path) ++ slash :: name.

Definition msgs_of (t : N) (ms : list msg_spec) : list msg_spec := filter (fun m => ms_type m =? t) ms.
Definition first_of (t : N) (ms : list msg_spec) : option bytes :=
  match msgs_of t ms with m :: _ => Some (ms_data m) | [] => None end.
Definition has_msg (t : N) (ms : list msg_spec) : bool := match msgs_of t ms with [] => false | _ => true end.
(* the message types the walker interprets or may skip (h5spec.py `known`) *)
(* 7 external data files, 13 object comment, 14 old modification time: skipped *)
Definition known_types : list N := [1; 2; 3; 4; 5; 6; 7; 8; 10; 11; 12; 13; 14; 15; 17; 18; 21; 22].
Definition once_types : list N := [1; 3; 5; 8; 11; 17; 21; 15; 22; 2].

Record wctx := { cO : nat; cL : nat; c_leafK : N; c_intK : N; c_istoreK : N }.
Record gentry := { ge_e : sym_entry; ge_name : bytes }.
Definition chunk_rec : Type := (N * N * list N * N)%type.      (* size, filter mask, offsets, address *)

Section Walk.
Variable f : bytes.           (* the file *)
Variable flen : N.            (* its length (passed in, computed once) *)
Variable tol : wtolerance.

Definition stol : tolerance := fun t => tol (WS t).

(* checked slicing: the n bytes at address a *)
Definition rd (a n : N) : outcome bytes :=
  if a + n <=? flen then Ok (firstn (N.to_nat n) (skipn (N.to_nat a) f)) else Err.
Definition u (a n : N) : outcome N := b <- rd a n;; Ok (unle b).

(* a visited structure [s, e): non-empty and inside the file, or the walk fails *)
Definition add_ext (s e k : N) : W unit :=
  fun st => if (s <? e) && (e <=? flen) then WOk (tt, set_ext ((s, e, k) :: ws_ext st) st) else WErr 3.
Definition add_soft (s e k : N) (x : xtag) : W unit :=
  wupd (fun r => {| r_soft := ((s, e, k), x) :: r_soft r; r_tags := r_tags r; r_sum := r_sum r; r_seen := r_seen r;
                    r_links := r_links r; r_refs := r_refs r; r_stab := r_stab r |}).
Definition add_wtags (l : list wtag) : W unit :=
  wupd (fun r => {| r_soft := r_soft r; r_tags := l ++ r_tags r; r_sum := r_sum r; r_seen := r_seen r;
                    r_links := r_links r; r_refs := r_refs r; r_stab := r_stab r |}).
Definition add_stags (l : list tag) : W unit := add_wtags (map WS l).
Definition add_sum (o : obj_sum) : W unit :=
  wupd (fun r => {| r_soft := r_soft r; r_tags := r_tags r; r_sum := o :: r_sum r; r_seen := r_seen r;
                    r_links := r_links r; r_refs := r_refs r; r_stab := r_stab r |}).
Definition mark_seen (a : N) : W unit :=
  wupd (fun r => {| r_soft := r_soft r; r_tags := r_tags r; r_sum := r_sum r; r_seen := a :: r_seen r;
                    r_links := r_links r; r_refs := r_refs r; r_stab := r_stab r |}).
Definition add_link (a : N) : W unit :=
  wupd (fun r => {| r_soft := r_soft r; r_tags := r_tags r; r_sum := r_sum r; r_seen := r_seen r;
                    r_links := a :: r_links r; r_refs := r_refs r; r_stab := r_stab r |}).
Definition add_ref (a rc : N) : W unit :=
  wupd (fun r => {| r_soft := r_soft r; r_tags := r_tags r; r_sum := r_sum r; r_seen := r_seen r;
                    r_links := r_links r; r_refs := (a, rc) :: r_refs r; r_stab := r_stab r |}).
Definition add_stab (a bt hp : N) : W unit :=
  wupd (fun r => {| r_soft := r_soft r; r_tags := r_tags r; r_sum := r_sum r; r_seen := r_seen r;
                    r_links := r_links r; r_refs := r_refs r; r_stab := (a, (bt, hp)) :: r_stab r |}).
(* deviations: allowed only when the tolerance says so, and then reported *)
Definition sdev (t : tag) : W unit := if tol (WS t) then add_wtags [WS t] else wfail (200 + tag_code t).
Definition xdev (x : xtag) : W unit := if tol (WX x) then add_wtags [WX x] else wfail (200 + xtag_code x).
Definition xdevif (c : bool) (x : xtag) : W unit := if c then xdev x else wret tt.

(* ------------------------------------------------------------------ superblock *)
Definition walk_superblock : W superblock_spec :=
  match spec_dec_superblock stol f with
  | Ok (s, tg, r) =>
      _ <<- add_ext 0 (flen - blen r) K_superblock;;
      _ <<- add_stags tg;;
      let o := N.to_nat (sbs_O s) in
      (* no driver information block, no superblock extension, base address 0: nothing else is implemented *)
      _ <<- wguardc 11 (sbs_driver s =? undef o);;
      _ <<- wguardc 6 (sbs_base s =? 0);;
      wret s
  | _ => wfail 10
  end.

Section Ctx.
Variable c : wctx.
Let nO : N := N.of_nat (cO c).
Let nL : N := N.of_nat (cL c).
Definition undefO : N := undef (cO c).

(* ------------------------------------------------------------------ object headers -> all messages *)
(* version 1: continuation messages lead to further chunks of messages *)
Definition cont1_body (rec : list msg_spec -> W (list msg_spec)) (ms : list msg_spec) : W (list msg_spec) :=
  r <<- wmapM (fun m =>
         if is_cont m then
           '(ca, cl) <<- wl (spec_dec_continuation (cO c) (cL c) true (ms_data m));;
           _ <<- add_ext ca (ca + cl) K_ohdr1_cont;;
           bs <<- wl (rd ca cl);;
           ms' <<- wl (spec_dec_ohdr1_cont bs);;
           sub <<- rec ms';;
           wret (m :: sub)
         else wret [m]) ms;;
  wret (concat r).
Fixpoint cont1 (fuel : nat) : list msg_spec -> W (list msg_spec) :=
  match fuel with O => fun _ => wfail 4 | S n => cont1_body (cont1 n) end.

(* version 2: "OCHK" blocks; with its checksum the block is [ca, ca+cl), without (listed deviation) [ca, ca+cl-4) *)
Definition cont2_body (corder : bool) (rec : list msg_spec -> W (list msg_spec)) (ms : list msg_spec) : W (list msg_spec) :=
  r <<- wmapM (fun m =>
         if is_cont m then
           '(ca, cl) <<- wl (spec_dec_continuation (cO c) (cL c) false (ms_data m));;
           bs <<- wl (rd ca cl);;
           match spec_dec_ochk strict corder bs with
           | Ok (ms', _) =>
               _ <<- add_ext ca (ca + cl) K_ohdr2_cont;;
               sub <<- rec ms';; wret (m :: sub)
           | _ =>
               bs' <<- wl (rd ca (cl - 4));;
               '(ms', tg) <<- wl (spec_dec_ochk stol corder bs');;
               _ <<- add_ext ca (ca + cl - 4) K_ohdr2_cont;;
               _ <<- add_stags tg;;
               sub <<- rec ms';; wret (m :: sub)
           end
         else wret [m]) ms;;
  wret (concat r).
Fixpoint cont2 (corder : bool) (fuel : nat) : list msg_spec -> W (list msg_spec) :=
  match fuel with O => fun _ => wfail 4 | S n => cont2_body corder (cont2 corder n) end.

(* -> (prefix version, reference count of a version 1 prefix, the messages without continuation and NIL messages) *)
Definition ohdr_walk (fuel : nat) (addr : N) : W (N * option N * list msg_spec) :=
  sig <<- wl (rd addr 4);;
  if bytes_eqb sig ohdr_sig then
    fl <<- wl (u (addr + 5) 1);;
    let p := addr + 6 + (if N.testbit fl 5 then 16 else 0) + (if N.testbit fl 4 then 4 else 0) in
    let w := N.shiftl 1 (N.land fl 3) in
    csz <<- wl (u p w);;
    bs <<- wl (rd addr (N.min (p + w + csz + 4) flen - addr));;
    match spec_dec_ohdr2 stol bs with
    | Ok (h, tg, r) =>
        _ <<- add_ext addr (addr + (blen bs - blen r)) K_ohdr2;;
        _ <<- add_stags tg;;
        ms <<- cont2 (N.testbit fl 2) fuel (o2_msgs h);;
        (* shared messages are not implemented *)
        _ <<- wguardc 14 (forallb (fun m => negb (N.testbit (ms_flags m) 1)) ms);;
        wret (2, None, filter (fun m => negb (is_cont m) && negb (ms_type m =? 0)) ms)
    | _ => wfail 12
    end
  else
    hs <<- wl (u (addr + 8) 4);;
    bs <<- wl (rd addr (16 + hs));;
    match spec_dec_ohdr1 bs with
    | Ok (h, []) =>
        _ <<- add_ext addr (addr + 16 + hs) K_ohdr1;;
        ms <<- cont1 fuel (o1_msgs h);;
        _ <<- wguardc 15 (lenN ms =? o1_nmsgs h);;
        wret (1, Some (o1_refcount h), filter (fun m => negb (is_cont m) && negb (ms_type m =? 0)) ms)
    | _ => wfail 13
    end.

(* ------------------------------------------------------------------ local heap, group B-tree, symbol table nodes *)
Definition heap_str (seg : bytes) (off : N) : outcome bytes :=
  if off <? blen seg then '(s, _) <- p_cstr (skipn (N.to_nat off) seg);; Ok s else Err.

(* -> the data segment *)
Definition local_heap (addr : N) : W bytes :=
  let hsz := 8 + 2 * nL + nO in
  bs <<- wl (rd addr hsz);;
  match spec_dec_lheap (cO c) (cL c) bs with
  | Ok (h, []) =>
      _ <<- add_ext addr (addr + hsz) K_lheap_hdr;;
      _ <<- add_ext (lh_addr h) (lh_addr h + lh_size h) K_lheap_data;;
      seg <<- wl (rd (lh_addr h) (lh_size h));;
      _ <<- wguard (lheap_free_ok (S (length seg)) (cL c) seg (lh_free h));;
      wret seg
  | _ => wfail 17
  end.

Definition snod_walk (seg : bytes) (addr : N) : W (list gentry) :=
  n <<- wl (u (addr + 6) 2);;
  let esz := 2 * nO + 24 in
  let cap := 2 * c_leafK c in
  bs <<- wl (rd addr (8 + n * esz));;
  match spec_dec_snod stol (cO c) (c_leafK c) bs with
  | Ok (es, tg, []) =>
      _ <<- add_ext addr (addr + 8 + n * esz) K_snod;;
      _ <<- add_stags tg;;
      _ <<- (if n <=? cap then add_soft addr (addr + 8 + cap * esz) K_snod X_snod_node_truncated else wret tt);;
      names <<- wl (omapM (fun e => heap_str seg (se_name_off e)) es);;
      _ <<- xdevif (negb (increasing names)) X_snod_unsorted;;
      wret (map (fun p => {| ge_e := fst p; ge_name := snd p |}) (combine es names))
  | _ => wfail 18
  end.

(* the common part of a v1 B-tree node visit: decode, extent, full-capacity region, sibling and level checks *)
Definition btree1_node (ntype : N) (nd : nat) (K : N) (kind : N) (addr : N) (top : bool) (level : option N) : W btree1_spec :=
  n <<- wl (u (addr + 6) 2);;
  let ks := if ntype =? 0 then nL else 8 + 8 * N.of_nat nd in
  let used := 8 + 2 * nO + n * (ks + nO) + ks in
  let full := 8 + 2 * nO + 2 * K * (ks + nO) + ks in
  bs <<- wl (rd addr used);;
  match spec_dec_btree1 stol (cO c) (cL c) ntype nd K bs with
  | Ok (b, tg, []) =>
      _ <<- add_ext addr (addr + used) kind;;
      _ <<- add_stags tg;;
      _ <<- (if n <=? 2 * K then add_soft addr (addr + full) kind X_btree1_node_truncated else wret tt);;
      _ <<- wguard (if top then (b1_left b =? undefO) && (b1_right b =? undefO) else true);;
      _ <<- wguard (match level with Some l => b1_level b =? l | None => true end);;
      wret b
  | _ => wfail 19
  end.

Definition gbtree_body (seg : bytes) (rec : N -> bool -> option N -> W (list gentry)) (addr : N) (top : bool) (level : option N)
  : W (list gentry) :=
  b <<- btree1_node 0 0 (c_intK c) K_btree1_group addr top level;;
  keynames <<- wl (omapM (fun k => heap_str seg (hd 0 k)) (b1_keys b));;
  res <<- wmapM (fun x : bytes * bytes * N =>
                   let '(lo, hi, child) := x in
                   ents <<- (if 0 <? b1_level b then rec child false (Some (b1_level b - 1)) else snod_walk seg child);;
                   wret (ents, forallb (fun e => bytes_ltb lo (ge_name e) && bytes_leb (ge_name e) hi) ents))
                (combine (combine keynames (tl keynames)) (b1_children b));;
  _ <<- xdevif (existsb (fun r => negb (snd r)) res) X_btree1_group_keys;;
  wret (concat (map fst res)).
Fixpoint gbtree (seg : bytes) (fuel : nat) : N -> bool -> option N -> W (list gentry) :=
  match fuel with O => fun _ _ _ => wfail 4 | S n => gbtree_body seg (gbtree seg n) end.

(* ------------------------------------------------------------------ chunk B-tree *)
Definition cbtree_body (nd : nat) (rec : N -> bool -> option N -> W (list chunk_rec)) (addr : N) (top : bool) (level : option N)
  : W (list chunk_rec) :=
  b <<- btree1_node 1 nd (c_istoreK c) K_btree1_chunk addr top level;;
  _ <<- wguard (increasing (map (skipn 2) (b1_keys b)));;
  if 0 <? b1_level b then
    r <<- wmapM (fun child => rec child false (Some (b1_level b - 1))) (b1_children b);;
    wret (concat r)
  else
    wret (map (fun p : list N * N => (nth 0 (fst p) 0, nth 1 (fst p) 0, skipn 2 (fst p), snd p)) (combine (b1_keys b) (b1_children b))).
Fixpoint cbtree (nd : nat) (fuel : nat) : N -> bool -> option N -> W (list chunk_rec) :=
  match fuel with O => fun _ _ _ => wfail 4 | S n => cbtree_body nd (cbtree nd n) end.

(* ------------------------------------------------------------------ dense attribute storage *)
Definition block_rec : Type := (N * N * N * N)%type.       (* heap offset, size, file address, prefix size *)

Definition dblock (h : fheap_spec) (haddr offsz : N) (a hoff size : N) : W N :=
  bs <<- wl (rd a size);;
  '(pre, tg) <<- wl (spec_dec_fhdb stol (cO c) haddr (N.to_nat offsz) hoff (fh_flags h) bs);;
  _ <<- add_ext a (a + size) K_fheap_dblock;;
  _ <<- add_stags tg;;
  wret pre.

Definition fheap_walk (addr : N) : W (fheap_spec * list block_rec) :=
  let size := 22 + 3 * nO + 12 * nL + 4 in
  bs <<- wl (rd addr size);;
  match spec_dec_fheap_hdr stol (cO c) (cL c) bs with
  | Ok (h, tg, []) =>
      _ <<- wguardc 23 (fh_filtlen h =? 0);;
      _ <<- add_ext addr (addr + size) K_fheap_hdr;;
      _ <<- add_stags tg;;
      (* huge objects are not implemented; the free-space manager of the managed blocks is not followed *)
      _ <<- wguardc 23 ((fh_hugebt h =? 0) || (fh_hugebt h =? undefO));;
      let offsz := (fh_maxheap h + 7) / 8 in
      let lensz := nbytes_for (N.min (fh_maxdirect h) (fh_maxobj h)) in
      _ <<- wguard (1 + offsz + lensz <=? fh_idlen h);;
      blocks <<- (if fh_root h =? undefO then _ <<- wguard (fh_nman h =? 0);; wret []
                  else if fh_currows h =? 0 then
                    pre <<- dblock h addr offsz (fh_root h) 0 (fh_start h);;
                    wret [(0, fh_start h, fh_root h, pre)]
                  else wfail 24);;
      _ <<- wguard (fh_manalloc h =? sumN (map (fun b : block_rec => snd (fst (fst b))) blocks));;
      wret (h, blocks)
  | _ => wfail 26
  end.

Definition btree2_walk (addr : N) : W (bt2hdr_spec * list bytes) :=
  let size := 22 + nO + nL in
  bs <<- wl (rd addr size);;
  match spec_dec_bt2hdr stol (cO c) (cL c) bs with
  | Ok (h, tg, []) =>
      _ <<- add_ext addr (addr + size) K_btree2_hdr;;
      _ <<- add_stags tg;;
      _ <<- wguardc 25 (b2_depth h =? 0);;
      if b2_nroot h =? 0 then wret (h, [])
      else
        lb <<- wl (rd (b2_root h) (b2_nodesize h));;
        '(recs, tg2) <<- wl (spec_dec_bt2leaf stol (b2_type h) (N.to_nat (b2_nroot h)) (N.to_nat (b2_recsize h)) lb);;
        _ <<- add_ext (b2_root h) (b2_root h + b2_nodesize h) K_btree2_leaf;;
        _ <<- add_stags tg2;;
        wret (h, recs)
  | _ => wfail 27
  end.

(* the bytes a managed heap ID addresses; [lib]: offsets count from the end of the block prefix *)
Definition heap_object (h : fheap_spec) (blocks : list block_rec) (hid : bytes) (lib : bool) : outcome bytes :=
  let offsz := N.to_nat ((fh_maxheap h + 7) / 8) in
  let lensz := N.to_nat (nbytes_for (N.min (fh_maxdirect h) (fh_maxobj h))) in
  let b0 := hd 0 hid in
  _ <- guard ((b0 / 64 =? 0) && ((b0 / 16) mod 4 =? 0));;
  let off := unle (firstn offsz (tl hid)) in
  let ln := unle (firstn lensz (skipn (S offsz) hid)) in
  _ <- guard (all_zero (skipn (S offsz + lensz) hid));;
  match filter (fun b : block_rec => let '(hoff, size, _, _) := b in (hoff <=? off) && (off <? hoff + size)) blocks with
  | (hoff, size, faddr, pre) :: _ =>
      let start := faddr + (off - hoff) + (if lib then pre else 0) in
      _ <- guard ((lib || (pre <=? off - hoff)) && (start + ln <=? faddr + size) && (0 <? ln));;
      rd start ln
  | [] => Err
  end.

Definition dense_mode (h : fheap_spec) (blocks : list block_rec) (recs : list (N * bytes)) (lib : bool)
  : outcome (list (bytes * list tag)) :=
  omapM (fun r : N * bytes =>
           obj <- heap_object h blocks (snd r) lib;;
           '(a, tg) <- spec_dec_attribute stol (cL c) false obj;;
           _ <- guard (spec_checksum (as_name a) =? fst r);;
           Ok (as_name a, tg)) recs.

(* the attribute info message -> names of the densely stored attributes *)
Definition dense_attrs (d : bytes) : W (list bytes) :=
  ai <<- wl (spec_dec_attrinfo (cO c) false d);;
  match (match ais_btorder ai with Some bo => negb (bo =? undefO) && (ais_heap ai =? undefO) | None => false end) with
  | true => wfail 22                      (* a creation order index without a heap *)
  | false =>
    if (ais_heap ai =? undefO) && (ais_btname ai =? undefO) then wret []
    else
      '(h, blocks) <<- fheap_walk (ais_heap ai);;
      '(bt, raw) <<- btree2_walk (ais_btname ai);;
      (* the creation order index (B-tree type 9) holds the same number of records *)
      _ <<- match ais_btorder ai with
            | Some bo => if bo =? undefO then wret tt
                         else '(bt9, raw9) <<- btree2_walk bo;; wguardc 22 ((b2_type bt9 =? 9) && (lenN raw9 =? lenN raw))
            | None => wret tt
            end;;
      recs <<- (if b2_type bt =? 8 then
                  _ <<- wguard (b2_recsize bt =? fh_idlen h + 9);;
                  wret (map (fun r => (unle (skipn (length r - 4) r), firstn (N.to_nat (fh_idlen h)) r)) raw)
                else if b2_type bt =? 5 then
                  _ <<- xdev X_btree2_attr_type_5;;
                  _ <<- wguard (b2_recsize bt =? 11);;
                  wret (map (fun r => (unle (firstn 4 r), firstn 7 (skipn 4 r))) raw)
                else werr);;
      _ <<- wguard (lenN recs =? fh_nman h);;
      _ <<- wguard (nondecreasingN (map fst recs));;
      match dense_mode h blocks recs false with
      | Ok l => _ <<- add_stags (concat (map snd l));; wret (map fst l)
      | _ =>
          match dense_mode h blocks recs true with
          | Ok l => _ <<- xdev X_fheap_offset_excludes_block_prefix;; _ <<- add_stags (concat (map snd l));; wret (map fst l)
          | _ => wfail 28
          end
      end
  end.

(* ------------------------------------------------------------------ new-style groups: the link info message -> densely stored links
   (fractal heap of link messages, name index: v2 B-tree type 5 with records hash of the name (4) | heap ID (7); creation order
   index: type 6) *)
Definition dense_links (pad : bool) (d : bytes) : W (list link_spec) :=
  li <<- wlc 40 (spec_dec_linkinfo (cO c) pad d);;
  if lis_heap li =? undefO then _ <<- wguard (lis_btname li =? undefO);; wret []
  else
    '(h, blocks) <<- fheap_walk (lis_heap li);;
    '(bt, raw) <<- btree2_walk (lis_btname li);;
    _ <<- wguard ((b2_type bt =? 5) && (b2_recsize bt =? 11) && (fh_idlen h =? 7));;
    _ <<- match lis_btorder li with
          | Some bo => if bo =? undefO then wret tt
                       else '(bt6, raw6) <<- btree2_walk bo;; wguardc 22 ((b2_type bt6 =? 6) && (lenN raw6 =? lenN raw))
          | None => wret tt
          end;;
    let recs := map (fun r => (unle (firstn 4 r), firstn 7 (skipn 4 r))) raw in
    _ <<- wguard (lenN recs =? fh_nman h);;
    _ <<- wguard (nondecreasingN (map fst recs));;
    match omapM (fun r : N * bytes =>
                   obj <- heap_object h blocks (snd r) false;;
                   '(l, tg) <- spec_dec_link stol (cO c) false obj;;
                   _ <- guard (spec_checksum (ls_name l) =? fst r);;
                   Ok (l, tg)) recs with
    | Ok l => _ <<- add_stags (concat (map snd l));; wret (map fst l)
    | _ => wfail 28
    end.

Definition link_type (l : link_spec) : N := match ls_value l with LHard _ => 0 | LSoft _ => 1 | LExternal _ _ => 64 end.

(* ------------------------------------------------------------------ raw data of a dataset *)
Definition dataset_data (cb : nat -> N -> bool -> option N -> W (list chunk_rec))
  (lay : layout_spec) (esz : N) (dims : list N) (total : N) (filtered : bool) : W unit :=
  match lay with
  | LyCompact data => wguard (blen data =? total)
  | LyContiguous a sz =>
      _ <<- wguard (negb filtered);;
      if a =? undefO then wret tt
      else _ <<- wguard (sz =? total);; if 0 <? total then add_ext a (a + total) K_contiguous else wret tt
  | LyChunked a ldims =>
      let rank := length dims in
      let nd := length ldims in
      cdims <<- (if (nd =? S rank)%nat then _ <<- wguard (lastN ldims =? esz);; wret (removelast ldims)
                 else if (nd =? rank)%nat then _ <<- sdev T_chunk_dims_no_elem_dim;; wret ldims
                 else werr);;
      _ <<- wguard (forallb (fun d => 0 <? d) cdims);;
      if a =? undefO then wret tt
      else if a =? 0 then sdev T_chunk_btree_addr_0
      else
        chunks <<- cb nd a true None;;
        let csize := prodN cdims * esz in
        wforM (fun ch : chunk_rec =>
                 let '(nbytes, mask, offs, caddr) := ch in
                 _ <<- wguard (if (nd =? S rank)%nat then lastN offs =? 0 else true);;
                 _ <<- wguard (forall2b (fun o d => o mod d =? 0) (firstn rank offs) cdims);;
                 _ <<- wguard (0 <? nbytes);;
                 _ <<- add_ext caddr (caddr + nbytes) K_chunk;;
                 (* the decoded size of a filtered chunk is not checked: deflate is not modelled *)
                 if filtered then wret tt else wguard ((mask =? 0) && (nbytes =? csize))) chunks
  end.

(* the low bits of the class bit field that carry byte order (bit 0), signedness (integers: bit 3), string padding (bits 0-3)
   and character set (bits 4-7), variable-length type (bits 0-3) / padding (4-7) / character set (8-11) *)
Definition dtype_bits (t : dtype) : N :=
  match t with
  | DFixed _ _ order _ _ signed _ _ => order + (if signed then 8 else 0)
  | DFloat _ _ order _ _ _ _ _ _ _ _ _ _ => order
  | DTime _ _ order _ => order
  | DString _ _ pad cset => pad + 16 * cset
  | DBitfield _ _ order _ _ _ _ => order
  | DVlen _ _ vtype pad cset _ => vtype + 16 * pad + 256 * cset
  | _ => 0
  end.
Definition layout_code (l : layout_spec) : N := match l with LyCompact _ => 0 | LyContiguous _ _ => 1 | LyChunked _ _ => 2 end.

(* ------------------------------------------------------------------ one object *)
Definition obj_body (fuel : nat) (rec : N -> bytes -> W unit) (addr : N) (path : bytes) : W unit :=
  seen <<- wget (fun r => memN addr (r_seen r));;
  if seen then wret tt else
  _ <<- mark_seen addr;;
  '(ver, rc0, ms) <<- ohdr_walk fuel addr;;
  let pad := ver =? 1 in
  _ <<- match filter (fun m => negb (memN (ms_type m) known_types)) ms with [] => wret tt | m :: _ => wfail (1000 + ms_type m) end;;
  _ <<- wguardc 16 (forallb (fun t => lenN (msgs_of t ms) <=? 1) once_types);;
  (* reference count *)
  rc <<- match first_of 22 ms with
         | Some d => '(n, tg) <<- wl (spec_dec_refcount stol pad d);; _ <<- add_stags tg;; wret n
         | None => wret (match rc0 with Some r => r | None => 1 end)
         end;;
  _ <<- add_ref addr rc;;
  (* attributes: compact, then dense *)
  cnames <<- wmapM (fun m => '(a, tg) <<- wlc 37 (spec_dec_attribute stol (cL c) pad (ms_data m));; _ <<- add_stags tg;; wret (as_name a))
                   (msgs_of 12 ms);;
  _ <<- (if has_msg 15 ms then _ <<- sdev T_attrinfo_type_0x0f;; wguard (negb (has_msg 21 ms)) else wret tt);;
  dnames <<- match (if has_msg 15 ms then first_of 15 ms else first_of 21 ms) with
             | Some d => dense_attrs d
             | None => wret []
             end;;
  let names := cnames ++ dnames in
  _ <<- wguard (nodupb names);;
  match first_of 17 ms with
  | Some d =>
      (* a symbol-table group *)
      '(bt, hp) <<- wl (spec_dec_symtab (cO c) pad d);;
      _ <<- add_stab addr bt hp;;
      seg <<- local_heap hp;;
      ents <<- gbtree seg fuel bt true None;;
      _ <<- wguard (nodupb (map ge_name ents) && forallb (fun e => negb (length (ge_name e) =? 0)%nat) ents);;
      (* symbolic link entries (cache type 2): the link value is a string in the local heap *)
      _ <<- wlc 21 (omapM (fun e => if se_cache (ge_e e) =? 2 then heap_str seg (se_link_off (ge_e e)) else Ok []) ents);;
      _ <<- add_sum {| os_addr := addr; os_path := path; os_kind := 1; os_dims := []; os_dtclass := 0; os_dtsize := 0;
                       os_layout := 0; os_attrs := names; os_dtbits := 0; os_space := 0;
                       os_links := map (fun e => (if se_cache (ge_e e) =? 2 then 1 else 0, ge_name e)) ents |};;
      wforM (fun e =>
               if se_cache (ge_e e) =? 2 then wret tt else
               let child := se_obj (ge_e e) in
               _ <<- add_link child;;
               _ <<- rec child (join_path path (ge_name e));;
               if se_cache (ge_e e) =? 1 then
                 (* the cached B-tree / heap addresses equal the child's symbol table message *)
                 stab <<- wget (fun r => find (fun p => fst p =? child) (r_stab r));;
                 match stab with
                 | Some (_, (b, h)) => wguard ((b =? se_btree (ge_e e)) && (h =? se_heap (ge_e e)))
                 | None => werr
                 end
               else wret tt) ents
  | None =>
    if has_msg 2 ms then
      (* a new-style group: links in link messages (compact) or in a fractal heap (dense), never both *)
      clinks <<- wmapM (fun m => '(l, tg) <<- wlc 39 (spec_dec_link stol (cO c) pad (ms_data m));; _ <<- add_stags tg;; wret l) (msgs_of 6 ms);;
      dlinks <<- match first_of 2 ms with Some d => dense_links pad d | None => wret [] end;;
      _ <<- wguard (match clinks, dlinks with _ :: _, _ :: _ => false | _, _ => true end);;
      let links := clinks ++ dlinks in
      _ <<- wguard (nodupb (map ls_name links));;
      _ <<- wguard (negb (has_msg 8 ms) && negb (has_msg 3 ms) && negb (has_msg 1 ms));;
      _ <<- add_sum {| os_addr := addr; os_path := path; os_kind := 1; os_dims := []; os_dtclass := 0; os_dtsize := 0;
                       os_layout := 0; os_attrs := names; os_dtbits := 0; os_space := 0;
                       os_links := map (fun l => (link_type l, ls_name l)) links |};;
      wforM (fun l => match ls_value l with
                      | LHard child => _ <<- add_link child;; rec child (join_path path (ls_name l))
                      | _ => wret tt
                      end) links
    else if has_msg 6 ms then
      _ <<- sdev T_softlink_stored_as_object;;
      _ <<- wforM (fun m => '(_, tg) <<- wl (spec_dec_link stol (cO c) false (ms_data m));; add_stags tg) (msgs_of 6 ms);;
      add_sum {| os_addr := addr; os_path := path; os_kind := 3; os_dims := []; os_dtclass := 0; os_dtsize := 0;
                 os_layout := 0; os_attrs := names; os_dtbits := 0; os_space := 0; os_links := [] |}
    else
      match first_of 8 ms, first_of 3 ms, first_of 1 ms with
      | Some lyb, Some dtb, Some dsb =>
          '(dt, tg) <<- wlc 31 (spec_dec_datatype stol pad dtb);;
          _ <<- add_stags tg;;
          ds <<- wlc 32 (spec_dec_dataspace (cL c) pad dsb);;
          lay <<- wlc 33 (spec_dec_layout (cO c) (cL c) pad lyb);;
          filtered <<- match first_of 11 ms with
                       | Some pb =>
                           '(fs, tg) <<- wlc 34 (spec_dec_pipeline stol pad pb);;
                           _ <<- add_stags tg;;
                           wret true
                       | None => wret false
                       end;;
          _ <<- (if negb (has_msg 5 ms) && negb (has_msg 4 ms) then sdev T_dataset_no_fillvalue_msg
                 else match first_of 5 ms with
                      | Some fv => v <<- wlc 36 (spec_dec_fillvalue pad fv);; wret tt
                      | None => wret tt
                      end);;
          _ <<- wguardc 38 (negb filtered || (layout_code lay =? 2));;
          _ <<- add_sum {| os_addr := addr; os_path := path; os_kind := 2; os_dims := dss_dims ds; os_dtclass := dtype_class dt;
                           os_dtsize := dtype_size dt; os_layout := layout_code lay; os_attrs := names;
                           os_dtbits := dtype_bits dt; os_space := dss_type ds; os_links := [] |};;
          dataset_data (fun nd => cbtree nd fuel) lay (dtype_size dt) (dss_dims ds) (nelem ds * dtype_size dt) filtered
      | None, Some dtb, None =>
          (* a committed datatype *)
          '(dt, tg) <<- wlc 31 (spec_dec_datatype stol pad dtb);;
          _ <<- add_stags tg;;
          add_sum {| os_addr := addr; os_path := path; os_kind := 4; os_dims := []; os_dtclass := dtype_class dt;
                     os_dtsize := dtype_size dt; os_layout := 0; os_attrs := names; os_dtbits := dtype_bits dt; os_space := 0;
                     os_links := [] |}
      | _, _, _ => wfail 30
      end
  end.
Fixpoint walk_obj (fuel : nat) : N -> bytes -> W unit :=
  match fuel with O => fun _ _ => wfail 4 | S n => obj_body n (walk_obj n) end.

(* ------------------------------------------------------------------ the cross-structure clauses after the traversal *)
Definition finish (sb : superblock_spec) : W unit :=
  (* versions 0, 1: the root symbol table entry caches the root group's B-tree and heap addresses *)
  _ <<- match sbs_root_entry sb with
        | Some e =>
            stab <<- wget (fun r => find (fun p => fst p =? sbs_root sb) (r_stab r));;
            match stab with
            | Some (_, (b, h)) => wguard ((se_cache e =? 1) && (b =? se_btree e) && (h =? se_heap e))
            | None => werr
            end
        | None => wret tt
        end;;
  (* reference counts against the hard links found *)
  refs <<- wget r_refs;;
  links <<- wget r_links;;
  _ <<- wforM (fun p : N * N => let lc := countN (fst p) links in
                 if snd p =? lc then wret tt else xdev (if lc <? snd p then X_refcount_too_high else X_refcount_too_low)) refs;;
  (* full-capacity regions of fixed-size nodes *)
  exts <<- wexts;;
  soft <<- wget r_soft;;
  _ <<- wforM (fun p : xext * xtag =>
                 let '(s, e, k) := fst p in
                 xdevif ((flen <? e) ||
                         existsb (fun x : xext => let '(hs, he, hk) := x in (hs <? e) && (s <? he) && negb ((hs =? s) && (hk =? k))) exts)
                        (snd p)) soft;;
  (* the recorded end-of-file address *)
  if existsb (fun x : xext => sbs_eof sb <? snd (fst x)) exts then xdev X_sb_eof_stale
  else wguard (sbs_eof sb <=? flen).

End Ctx.

Definition walk_all (fuel : nat) : W superblock_spec :=
  sb <<- walk_superblock;;
  let c := {| cO := N.to_nat (sbs_O sb); cL := N.to_nat (sbs_L sb); c_leafK := sbs_leafK sb; c_intK := sbs_intK sb;
              c_istoreK := sbs_istoreK sb |} in
  (* the superblock extension: an object header with the B-tree 'K' values (0x13), shared message table (0x0f) and file space
     info (0x17) messages; driver information (0x14) is not followed *)
  ks <<- (if sbs_ext sb =? undef (cO c) then wret (c_leafK c, c_intK c, c_istoreK c)
          else
            '(ver, _, ms) <<- ohdr_walk c fuel (sbs_ext sb);;
            _ <<- wguardc 5 (forallb (fun m => memN (ms_type m) [15; 19; 23]) ms);;
            match first_of 19 ms with
            | Some d => wlc 5 (spec_dec_btreek (ver =? 1) d)
            | None => wret (c_leafK c, c_intK c, c_istoreK c)
            end);;
  let c := {| cO := cO c; cL := cL c; c_leafK := fst (fst ks); c_intK := snd (fst ks); c_istoreK := snd ks |} in
  _ <<- walk_obj c fuel (sbs_root sb) [slash];;
  _ <<- add_link (sbs_root sb);;
  _ <<- finish sb;;
  wret sb.

Definition walk_run (fuel : nat) : outcome walk_result :=
  match walk_all fuel st0 with
  | WOk (sb, st) => Ok {| wr_extents := ws_ext st; wr_tree := ws_sum st; wr_tags := ws_tags st; wr_eof := sbs_eof sb;
                         wr_version := sbs_version sb |}
  | _ => Err
  end.

End Walk.

Definition walk (tol : wtolerance) (fuel : nat) (f : bytes) : outcome walk_result := walk_run f (blen f) tol fuel.
(* why a walk rejects: 0 when it accepts, else the reason code of the clause that failed first *)
Definition walk_code (tol : wtolerance) (fuel : nat) (f : bytes) : N :=
  match walk_all f (blen f) tol fuel st0 with WOk _ => 0 | WErr c => c end.

(* fuel that is ample for every file the tie meets: one unit per nesting level (groups, B-tree levels, continuation
   chains); not proved sufficient in general - more fuel never changes an accepted answer (Proofs/Walk.v) *)
Definition default_fuel : nat := 200.

Definition plain (l : list xext) : list ext := map fst l.

(* the boolean the tie uses: the tolerant walk accepts, and the visited extents are inside the file, at or below the
   recorded end-of-file address, and pairwise disjoint *)
Definition walk_ok (fuel : nat) (f : bytes) : bool :=
  match walk wtolerant fuel f with
  | Ok r => extents_ok (blen f) (wr_eof r) (plain (wr_extents r))
  | _ => false
  end.
