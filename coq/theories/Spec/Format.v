(* HDF5 File Format Specification 3.0, level 0 and level 1/2 framing, as executable STRICT decoders:
     II.A   superblock versions 0, 1, 2, 3
     III.C  symbol table entry
     IV.A.1 object header prefix versions 1 and 2, message framing, continuation blocks.
   Written from the specification (the field lists are quoted in the comments), not from the Go code and
   not from Model/Codec*.v.  Every decoder returns the logical fields the specification defines and the
   list of listed deviations (KNOWN_FINDINGS.json) it was allowed to tolerate; with [strict] that list is
   always empty and every departure is [Err]. *)
From HV Require Import Base.Prelude Base.Outcome Base.Bytes Base.Crc32 Spec.Lookup3 Spec.Parse.

(* III.I "Checksums": metadata checksums are Jenkins' lookup3 (hashlittle, initial value 0) *)
Definition spec_checksum (bs : bytes) : N := hashlittle bs 0.

(* A stored 4-byte checksum over [covered]: the specification's value, or (listed deviation [t]) CRC-32. *)
Definition check_sum (tol : tolerance) (t : tag) (covered : bytes) (stored : N) : outcome (list tag) :=
  if stored =? spec_checksum covered then Ok []
  else if stored =? crc32 covered then dev tol t
  else Err.

(* ------------------------------------------------------------------ III.C symbol table entry
   Link Name Offset (O) | Object Header Address (O) | Cache Type (4) | Reserved (4, zero) | Scratch-pad (16)
   cache type 0: nothing cached; 1: scratch = B-tree address (O), name heap address (O); 2: scratch =
   offset of the link value in the local heap (4). *)
Record sym_entry := { se_name_off : N; se_obj : N; se_cache : N; se_btree : N; se_heap : N; se_link_off : N }.

Definition spec_dec_sym_entry (o : nat) : parser sym_entry := fun bs =>
  '(name_off, r) <- p_u o bs;;
  '(obj, r) <- p_u o r;;
  '(cache, r) <- p_u 4 r;;
  '(_, r) <- p_zeros 4 r;;
  '(scratch, r) <- p_take 16 r;;
  if cache =? 0 then
    Ok ({| se_name_off := name_off; se_obj := obj; se_cache := 0; se_btree := 0; se_heap := 0; se_link_off := 0 |}, r)
  else if cache =? 1 then
    '(bt, s) <- p_u o scratch;;
    '(hp, s) <- p_u o s;;
    Ok ({| se_name_off := name_off; se_obj := obj; se_cache := 1; se_btree := bt; se_heap := hp; se_link_off := 0 |}, r)
  else if cache =? 2 then
    '(lo, s) <- p_u 4 scratch;;
    Ok ({| se_name_off := name_off; se_obj := obj; se_cache := 2; se_btree := 0; se_heap := 0; se_link_off := lo |}, r)
  else Err.

(* ------------------------------------------------------------------ II.A superblock
   Format signature: \211 H D F \r \n \032 \n *)
Definition hdf5_sig : bytes := [137; 72; 68; 70; 13; 10; 26; 10].

Record superblock_spec := {
  sbs_version : N; sbs_O : N; sbs_L : N;
  sbs_leafK : N; sbs_intK : N; sbs_istoreK : N;      (* versions 2/3: the defaults 4, 16, 32 *)
  sbs_flags : N; sbs_base : N;
  sbs_ext : N;             (* v0/1: address of the file free-space info (always undefined); v2/3: superblock extension address *)
  sbs_eof : N;
  sbs_driver : N;          (* v0/1: driver information block address; v2/3: undefined *)
  sbs_root : N;            (* root group object header address *)
  sbs_root_entry : option sym_entry }.

(* versions 0 and 1:
     signature(8) | version | free-space version (0) | root group STE version (0) | reserved (0) |
     shared header version (0) | size of offsets | size of lengths | reserved (0) |
     group leaf node K (2) | group internal node K (2) | file consistency flags (4)
     [v1: indexed storage internal node K (2) | reserved (2, zero)]
     base address (O) | free-space info address (O, undefined) | end of file address (O) |
     driver information block address (O) | root group symbol table entry
   versions 2 and 3:
     signature(8) | version | size of offsets | size of lengths | file consistency flags (1) |
     base address (O) | superblock extension address (O) | end of file address (O) |
     root group object header address (O) | superblock checksum (4) = checksum of all preceding bytes *)
Definition spec_dec_superblock (tol : tolerance) (bs : bytes) : outcome (superblock_spec * list tag * bytes) :=
  '(_, r) <- p_expect hdf5_sig bs;;
  '(v, r) <- p_byte r;;
  if (v =? 0) || (v =? 1) then
    '(fsv, r) <- p_byte r;; '(rgv, r) <- p_byte r;; '(rs1, r) <- p_byte r;; '(shv, r) <- p_byte r;;
    '(osz, r) <- p_byte r;; '(lsz, r) <- p_byte r;; '(rs2, r) <- p_byte r;;
    _ <- guard ((fsv =? 0) && (rgv =? 0) && (rs1 =? 0) && (shv =? 0) && (rs2 =? 0));;
    _ <- guard (size_ok osz && size_ok lsz);;
    '(leafK, r) <- p_u 2 r;; '(intK, r) <- p_u 2 r;;
    _ <- guard ((0 <? leafK) && (0 <? intK));;
    '(flags, r) <- p_u 4 r;;
    _ <- guard (flags <? 4);;                          (* bits 2-31 reserved *)
    '(istoreK, r) <- (if v =? 1 then '(k, r) <- p_u 2 r;; '(_, r) <- p_zeros 2 r;; _ <- guard (0 <? k);; Ok (k, r)
                      else Ok (32, r));;
    let o := N.to_nat osz in
    '(base, r) <- p_u o r;; '(fsinfo, r) <- p_u o r;; '(eof, r) <- p_u o r;; '(driver, r) <- p_u o r;;
    _ <- guard (fsinfo =? undef o);;
    '(e, r) <- spec_dec_sym_entry o r;;
    Ok ({| sbs_version := v; sbs_O := osz; sbs_L := lsz; sbs_leafK := leafK; sbs_intK := intK; sbs_istoreK := istoreK;
           sbs_flags := flags; sbs_base := base; sbs_ext := fsinfo; sbs_eof := eof; sbs_driver := driver;
           sbs_root := se_obj e; sbs_root_entry := Some e |}, [], r)
  else if (v =? 2) || (v =? 3) then
    '(osz, r) <- p_byte r;; '(lsz, r) <- p_byte r;; '(flags, r) <- p_byte r;;
    _ <- guard (size_ok osz && size_ok lsz);;
    _ <- guard (flags <? (if v =? 2 then 4 else 8));;  (* bits 0-1 (v3: and bit 2, SWMR) defined *)
    let o := N.to_nat osz in
    '(base, r) <- p_u o r;; '(ext, r) <- p_u o r;; '(eof, r) <- p_u o r;; '(root, r) <- p_u o r;;
    let covered := consumed bs r in
    '(stored, r) <- p_u 4 r;;
    tg <- check_sum tol T_sb_crc32 covered stored;;
    Ok ({| sbs_version := v; sbs_O := osz; sbs_L := lsz; sbs_leafK := 4; sbs_intK := 16; sbs_istoreK := 32;
           sbs_flags := flags; sbs_base := base; sbs_ext := ext; sbs_eof := eof; sbs_driver := undef o;
           sbs_root := root; sbs_root_entry := None |}, tg, r)
  else Err.

(* ------------------------------------------------------------------ IV.A.1 object headers
   A header message as framed in a header chunk: type, flags, [creation order], data. *)
Record msg_spec := { ms_type : N; ms_flags : N; ms_corder : option N; ms_data : bytes }.

(* IV.A.1.a version 1 message framing:
     type (2) | size of message data (2; includes padding to a multiple of 8) | flags (1) | reserved (3, zero) | data
   The messages of a chunk fill it exactly. *)
Fixpoint p_msgs_v1 (fuel : nat) (bs : bytes) : outcome (list msg_spec) :=
  match bs with
  | [] => Ok []
  | _ =>
    match fuel with
    | O => Err
    | S fuel' =>
      '(ty, r) <- p_u 2 bs;;
      '(sz, r) <- p_u 2 r;;
      '(fl, r) <- p_byte r;;
      '(_, r) <- p_zeros 3 r;;
      _ <- guard (sz mod 8 =? 0);;
      '(d, r) <- p_take (N.to_nat sz) r;;
      rest <- p_msgs_v1 fuel' r;;
      Ok ({| ms_type := ty; ms_flags := fl; ms_corder := None; ms_data := d |} :: rest)
    end
  end.

(* Version 1 object header prefix:
     version (1) | reserved (zero) | total number of header messages (2) | object reference count (4) |
     object header size (4): the number of bytes of header message data in the first chunk | padding (4) to an 8-byte boundary
   then the first chunk.  Continuation chunks hold messages in the same framing; "total number" counts the messages of all chunks. *)
Record ohdr1_spec := { o1_nmsgs : N; o1_refcount : N; o1_size : N; o1_msgs : list msg_spec }.

Definition is_cont (m : msg_spec) : bool := ms_type m =? 16.

Definition spec_dec_ohdr1 (bs : bytes) : outcome (ohdr1_spec * bytes) :=
  '(ver, r) <- p_byte bs;;
  _ <- guard (ver =? 1);;
  '(_, r) <- p_zeros 1 r;;
  '(n, r) <- p_u 2 r;;
  '(rc, r) <- p_u 4 r;;
  '(hs, r) <- p_u 4 r;;
  '(_, r) <- p_zeros 4 r;;
  '(area, r) <- p_take (N.to_nat hs) r;;
  ms <- p_msgs_v1 (S (length area)) area;;
  (* without a continuation message the first chunk holds all the messages *)
  _ <- guard (if existsb is_cont ms then N.of_nat (length ms) <=? n else N.of_nat (length ms) =? n);;
  Ok ({| o1_nmsgs := n; o1_refcount := rc; o1_size := hs; o1_msgs := ms |}, r).

(* a version 1 continuation chunk: messages only *)
Definition spec_dec_ohdr1_cont (bs : bytes) : outcome (list msg_spec) := p_msgs_v1 (S (length bs)) bs.

(* IV.A.1.b version 2 message framing:
     type (1) | size of message data (2) | flags (1) | [creation order (2), iff header flag bit 2] | data
   A gap of fewer bytes than a message prefix may follow the last message; it is zero. *)
Fixpoint p_msgs_v2 (corder : bool) (fuel : nat) (bs : bytes) : outcome (list msg_spec) :=
  let mh := if corder then 6%nat else 4%nat in
  if (length bs <? mh)%nat then (_ <- guard (all_zero bs);; Ok [])
  else
    match fuel with
    | O => Err
    | S fuel' =>
      '(ty, r) <- p_byte bs;;
      '(sz, r) <- p_u 2 r;;
      '(fl, r) <- p_byte r;;
      '(co, r) <- (if corder then '(c, r) <- p_u 2 r;; Ok (Some c, r) else Ok (None, r));;
      '(d, r) <- p_take (N.to_nat sz) r;;
      rest <- p_msgs_v2 corder fuel' r;;
      Ok ({| ms_type := ty; ms_flags := fl; ms_corder := co; ms_data := d |} :: rest)
    end.

(* Version 2 object header:
     "OHDR" | version (2) | flags (bits 0-1: width of the chunk 0 size field, 2: attribute creation order tracked, 3: indexed,
     4: non-default attribute storage phase change values stored, 5: times stored, 6-7 reserved) |
     [bit 5: access, modification, change, birth time (4 each)] | [bit 4: max compact (2), min dense (2)] |
     size of chunk 0 (1, 2, 4 or 8) | messages | gap | checksum (4) of everything before it
   "Size of chunk 0" counts the messages and the gap, not the prefix and not the checksum. *)
Record ohdr2_spec := { o2_flags : N; o2_times : option (N * N * N * N); o2_phase : option (N * N); o2_chunk0 : N;
                       o2_msgs : list msg_spec }.

Definition ohdr_sig : bytes := [79; 72; 68; 82].    (* "OHDR" *)
Definition ochk_sig : bytes := [79; 67; 72; 75].    (* "OCHK" *)

(* the chunk's checksum: the 4 bytes after the messages hold the checksum of [covered]; listed deviation: no checksum is
   stored at all (the bytes after the messages, if any, belong to something else) *)
Definition chunk_checksum (tol : tolerance) (covered r : bytes) : outcome (list tag * bytes) :=
  match p_u 4 r with
  | Ok (stored, r') => if stored =? spec_checksum covered then Ok ([], r')
                       else tg <- dev tol T_ohdr_no_checksum;; Ok (tg, r)
  | _ => tg <- dev tol T_ohdr_no_checksum;; Ok (tg, r)
  end.

Definition spec_dec_ohdr2 (tol : tolerance) (bs : bytes) : outcome (ohdr2_spec * list tag * bytes) :=
  '(_, r) <- p_expect ohdr_sig bs;;
  '(ver, r) <- p_byte r;;
  _ <- guard (ver =? 2);;
  '(fl, r) <- p_byte r;;
  _ <- guard (fl <? 64);;
  '(times, r) <- (if N.testbit fl 5 then
                    '(a, r) <- p_u 4 r;; '(m, r) <- p_u 4 r;; '(c, r) <- p_u 4 r;; '(b, r) <- p_u 4 r;; Ok (Some (a, m, c, b), r)
                  else Ok (None, r));;
  '(phase, r) <- (if N.testbit fl 4 then '(a, r) <- p_u 2 r;; '(b, r) <- p_u 2 r;; Ok (Some (a, b), r) else Ok (None, r));;
  '(csz, r) <- p_u (N.to_nat (N.shiftl 1 (N.land fl 3))) r;;
  '(area, r) <- p_take (N.to_nat csz) r;;
  ms <- p_msgs_v2 (N.testbit fl 2) (S (length area)) area;;
  '(tg, r') <- chunk_checksum tol (consumed bs r) r;;
  Ok ({| o2_flags := fl; o2_times := times; o2_phase := phase; o2_chunk0 := csz; o2_msgs := ms |}, tg, r').

(* Version 2 continuation chunk:  "OCHK" | messages | gap | checksum (4).  Its length comes from the continuation message. *)
Definition spec_dec_ochk (tol : tolerance) (corder : bool) (bs : bytes) : outcome (list msg_spec * list tag) :=
  '(_, r) <- p_expect ochk_sig bs;;
  _ <- guard (4 <=? length r)%nat;;
  let area := firstn (length r - 4) r in
  let ck := skipn (length r - 4) r in
  match (ms <- p_msgs_v2 corder (S (length area)) area;;
         '(stored, _) <- p_u 4 ck;;
         if stored =? spec_checksum (consumed bs ck) then Ok ms else Err) with
  | Ok ms => Ok (ms, [])
  | _ =>
    (* listed deviation: no checksum; the chunk is "OCHK" and messages only *)
    ms <- p_msgs_v2 corder (S (length r)) r;;
    tg <- dev tol T_ohdr_no_checksum;; Ok (ms, tg)
  end.
