(* HDF5 File Format Specification 3.0, level 0 and level 1/2 framing, as executable STRICT decoders:
     II.A   superblock versions 0, 1, 2, 3
     III.C  symbol table entry
     IV.A.1 object header prefix versions 1 and 2, message framing, continuation blocks.
   Written from the specification (the field lists are quoted in the comments), not from the Go code and
   not from Model/Codec*.v.  Every decoder returns the logical fields the specification defines and the
   list of listed deviations (KNOWN_FINDINGS.json) it was allowed to tolerate; with [strict] that list is
   always empty and every departure is [Err]. *)
From HV Require Import Base.Prelude Base.Outcome Base.Bytes Base.Crc32 Spec.Lookup3 Spec.Parse.

(* III.I "Checksums": metadata checksums are Jenkins' lookup3 (hashlittle, initial value 0) *)
Definition spec_checksum (bs : bytes) : N := hashlittle bs 0.

(* A stored 4-byte checksum over [covered]: the specification's value, or (listed deviation [t]) CRC-32. *)
Definition check_sum (tol : tolerance) (t : tag) (covered : bytes) (stored : N) : outcome (list tag) :=
  if stored =? spec_checksum covered then Ok []
  else if stored =? crc32 covered then dev tol t
  else Err.

(* ------------------------------------------------------------------ III.C symbol table entry
   Link Name Offset (O) | Object Header Address (O) | Cache Type (4) | Reserved (4, zero) | Scratch-pad (16)
   cache type 0: nothing cached; 1: scratch = B-tree address (O), name heap address (O); 2: scratch =
   offset of the link value in the local heap (4). *)
Record sym_entry := { se_name_off : N; se_obj : N; se_cache : N; se_btree : N; se_heap : N; se_link_off : N }.

Definition spec_dec_sym_entry (o : nat) : parser sym_entry := fun bs =>
  '(name_off, r) <- p_u o bs;;
  '(obj, r) <- p_u o r;;
  '(cache, r) <- p_u 4 r;;
  '(_, r) <- p_zeros 4 r;;
  '(scratch, r) <- p_take 16 r;;
  if cache =? 0 then
    Ok ({| se_name_off := name_off; se_obj := obj; se_cache := 0; se_btree := 0; se_heap := 0; se_link_off := 0 |}, r)
  else if cache =? 1 then
    '(bt, s) <- p_u o scratch;;
    '(hp, s) <- p_u o s;;
    Ok ({| se_name_off := name_off; se_obj := obj; se_cache := 1; se_btree := bt; se_heap := hp; se_link_off := 0 |}, r)
  else if cache =? 2 then
    '(lo, s) <- p_u 4 scratch;;
    Ok ({| se_name_off := name_off; se_obj := obj; se_cache := 2; se_btree := 0; se_heap := 0; se_link_off := lo |}, r)
  else Err.

(* ------------------------------------------------------------------ II.A superblock
   Format signature: \211 H D F \r \n \032 \n *)
Definition hdf5_sig : bytes := [137; 72; 68; 70; 13; 10; 26; 10].

Record superblock_spec := {
  sbs_version : N; sbs_O : N; sbs_L : N;
  sbs_leafK : N; sbs_intK : N; sbs_istoreK : N;      (* versions 2/3: the defaults 4, 16, 32 *)
  sbs_flags : N; sbs_base : N;
  sbs_ext : N;             (* v0/1: address of the file free-space info (always undefined); v2/3: superblock extension address *)
  sbs_eof : N;
  sbs_driver : N;          (* v0/1: driver information block address; v2/3: undefined *)
  sbs_root : N;            (* root group object header address *)
  sbs_root_entry : option sym_entry }.

(* versions 0 and 1:
     signature(8) | version | free-space version (0) | root group STE version (0) | reserved (0) |
     shared header version (0) | size of offsets | size of lengths | reserved (0) |
     group leaf node K (2) | group internal node K (2) | file consistency flags (4)
     [v1: indexed storage internal node K (2) | reserved (2, zero)]
     base address (O) | free-space info address (O, undefined) | end of file address (O) |
     driver information block address (O) | root group symbol table entry
   versions 2 and 3:
     signature(8) | version | size of offsets | size of lengths | file consistency flags (1) |
     base address (O) | superblock extension address (O) | end of file address (O) |
     root group object header address (O) | superblock checksum (4) = checksum of all preceding bytes *)
Definition spec_dec_superblock (tol : tolerance) (bs : bytes) : outcome (superblock_spec * list tag * bytes) :=
  '(_, r) <- p_expect hdf5_sig bs;;
  '(v, r) <- p_byte r;;
  if (v =? 0) || (v =? 1) then
    '(fsv, r) <- p_byte r;; '(rgv, r) <- p_byte r;; '(rs1, r) <- p_byte r;; '(shv, r) <- p_byte r;;
    '(osz, r) <- p_byte r;; '(lsz, r) <- p_byte r;; '(rs2, r) <- p_byte r;;
    _ <- guard ((fsv =? 0) && (rgv =? 0) && (rs1 =? 0) && (shv =? 0) && (rs2 =? 0));;
    _ <- guard (size_ok osz && size_ok lsz);;
    '(leafK, r) <- p_u 2 r;; '(intK, r) <- p_u 2 r;;
    _ <- guard ((0 <? leafK) && (0 <? intK));;
    '(flags, r) <- p_u 4 r;;
    _ <- guard (flags <? 4);;                          (* bits 2-31 reserved *)
    '(istoreK, r) <- (if v =? 1 then '(k, r) <- p_u 2 r;; '(_, r) <- p_zeros 2 r;; _ <- guard (0 <? k);; Ok (k, r)
                      else Ok (32, r));;
    let o := N.to_nat osz in
    '(base, r) <- p_u o r;; '(fsinfo, r) <- p_u o r;; '(eof, r) <- p_u o r;; '(driver, r) <- p_u o r;;
    _ <- guard (fsinfo =? undef o);;
    '(e, r) <- spec_dec_sym_entry o r;;
    Ok ({| sbs_version := v; sbs_O := osz; sbs_L := lsz; sbs_leafK := leafK; sbs_intK := intK; sbs_istoreK := istoreK;
           sbs_flags := flags; sbs_base := base; sbs_ext := fsinfo; sbs_eof := eof; sbs_driver := driver;
           sbs_root := se_obj e; sbs_root_entry := Some e |}, [], r)
  else if (v =? 2) || (v =? 3) then
    '(osz, r) <- p_byte r;; '(lsz, r) <- p_byte r;; '(flags, r) <- p_byte r;;
    _ <- guard (size_ok osz && size_ok lsz);;
    _ <- guard (flags <? (if v =? 2 then 4 else 8));;  (* bits 0-1 (v3: and bit 2, SWMR) defined *)
    let o := N.to_nat osz in
    '(base, r) <- p_u o r;; '(ext, r) <- p_u o r;; '(eof, r) <- p_u o r;; '(root, r) <- p_u o r;;
    let covered := consumed bs r in
    '(stored, r) <- p_u 4 r;;
    tg <- check_sum tol T_sb_crc32 covered stored;;
    Ok ({| sbs_version := v; sbs_O := osz; sbs_L := lsz; sbs_leafK := 4; sbs_intK := 16; sbs_istoreK := 32;
           sbs_flags := flags; sbs_base := base; sbs_ext := ext; sbs_eof := eof; sbs_driver := undef o;
           sbs_root := root; sbs_root_entry := None |}, tg, r)
  else Err.
