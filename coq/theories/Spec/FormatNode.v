(* HDF5 File Format Specification 3.0, level 1 structures, as executable STRICT decoders:
     III.A.1 version 1 B-tree nodes (type 0 group nodes, type 1 raw data chunk nodes)     III.B symbol table nodes
     III.D   local heap header          III.E global heap collection
     III.G   fractal heap header, direct block          III.A.2 version 2 B-tree header, leaf node
   Written from the specification; [osz]/[lsz] = the superblock's size of offsets / lengths. *)
From HV Require Import Base.Prelude Base.Outcome Base.Bytes Base.Crc32 Spec.Lookup3 Spec.Parse Spec.Format.

(* ------------------------------------------------------------------ III.D local heap
   "HEAP" | version (0) | reserved (3) | data segment size (L) | offset to head of free-list (L) | address of data segment (O) *)
Record lheap_spec := { lh_size : N; lh_free : N; lh_addr : N }.
Definition heap_sig : bytes := [72; 69; 65; 80].

Definition spec_dec_lheap (osz lsz : nat) (bs : bytes) : outcome (lheap_spec * bytes) :=
  '(_, r) <- p_expect heap_sig bs;;
  '(v, r) <- p_byte r;; _ <- guard (v =? 0);;
  '(_, r) <- p_zeros 3 r;;
  '(sz, r) <- p_u lsz r;; '(fr, r) <- p_u lsz r;; '(a, r) <- p_u osz r;;
  Ok ({| lh_size := sz; lh_free := fr; lh_addr := a |}, r).

(* the free list of a data segment: blocks (next offset (L), size (L)), each inside the segment and at least 2L bytes;
   the list ends with the undefined offset (the reference implementation writes 1, which the specification documents for the
   last block's next pointer) *)
Fixpoint lheap_free_ok (fuel : nat) (lsz : nat) (seg : bytes) (free : N) : bool :=
  if (free =? undef lsz) || (free =? 1) then true else
  match fuel with
  | O => false
  | S fuel' =>
      match p_u lsz (skipn (N.to_nat free) seg) with
      | Ok (nxt, r) =>
          match p_u lsz r with
          | Ok (fsz, _) => (2 * N.of_nat lsz <=? fsz) && (free + fsz <=? blen seg) && lheap_free_ok fuel' lsz seg nxt
          | _ => false
          end
      | _ => false
      end
  end.

(* ------------------------------------------------------------------ III.A.1 version 1 B-tree node
   "TREE" | node type (0 group, 1 chunk) | node level | entries used (2) | left sibling (O) | right sibling (O) |
   key 0 | child 0 | key 1 | ... | child n-1 | key n
   group key: offset of a name in the local heap (L);  chunk key: chunk size (4), filter mask (4), dimensionality+1 offsets (8 each).
   A node holds at most 2K entries. *)
Record btree1_spec := { b1_type : N; b1_level : N; b1_n : N; b1_left : N; b1_right : N;
                        b1_keys : list (list N); b1_children : list N }.
Definition tree_sig : bytes := [84; 82; 69; 69].

(* one key: type 0: [heap offset]; type 1: [size; mask; offsets...] *)
Definition p_key (lsz : nat) (ntype : N) (nd : nat) : parser (list N) := fun bs =>
  if ntype =? 0 then '(k, r) <- p_u lsz bs;; Ok ([k], r)
  else '(sz, r) <- p_u 4 bs;; '(mask, r) <- p_u 4 r;; '(offs, r) <- p_us 8 nd r;; Ok (sz :: mask :: offs, r).

Fixpoint p_entries (osz lsz : nat) (ntype : N) (nd : nat) (k : nat) (bs : bytes)
  : outcome (list (list N) * list N * bytes) :=
  match k with
  | O => Ok ([], [], bs)
  | S k' =>
      '(key, r) <- p_key lsz ntype nd bs;;
      '(child, r) <- p_u osz r;;
      '(ks, cs, r) <- p_entries osz lsz ntype nd k' r;;
      Ok (key :: ks, child :: cs, r)
  end.

Definition spec_dec_btree1 (tol : tolerance) (osz lsz : nat) (ntype : N) (nd : nat) (K : N) (bs : bytes)
  : outcome (btree1_spec * list tag * bytes) :=
  '(_, r) <- p_expect tree_sig bs;;
  '(t, r) <- p_byte r;; _ <- guard (t =? ntype);;
  '(lvl, r) <- p_byte r;;
  '(n, r) <- p_u 2 r;;
  tg <- devif (2 * K <? n) tol T_btree1_node_over_capacity;;
  '(lsib, r) <- p_u osz r;; '(rsib, r) <- p_u osz r;;
  '(ks, cs, r) <- p_entries osz lsz ntype nd (N.to_nat n) r;;
  '(last, r) <- p_key lsz ntype nd r;;
  Ok ({| b1_type := t; b1_level := lvl; b1_n := n; b1_left := lsib; b1_right := rsib;
         b1_keys := ks ++ [last]; b1_children := cs |}, tg, r).

(* ------------------------------------------------------------------ III.B symbol table node
   "SNOD" | version (1) | reserved (0) | number of symbols (2) | entries.   At most 2 x (group leaf node K) symbols.
   Listed deviations: more symbols than the capacity; an entry whose link name offset is 0 (offset 0 of the local heap holds the
   empty string in conforming files, so no link name lives there). *)
Definition snod_sig : bytes := [83; 78; 79; 68].

Fixpoint p_sym_entries (osz : nat) (k : nat) (bs : bytes) : outcome (list sym_entry * bytes) :=
  match k with
  | O => Ok ([], bs)
  | S k' => '(e, r) <- spec_dec_sym_entry osz bs;; '(es, r) <- p_sym_entries osz k' r;; Ok (e :: es, r)
  end.

Definition spec_dec_snod (tol : tolerance) (osz : nat) (leafK : N) (bs : bytes) : outcome (list sym_entry * list tag * bytes) :=
  '(_, r) <- p_expect snod_sig bs;;
  '(v, r) <- p_byte r;; _ <- guard (v =? 1);;
  '(_, r) <- p_zeros 1 r;;
  '(n, r) <- p_u 2 r;;
  tg1 <- devif (2 * leafK <? n) tol T_snod_over_capacity;;
  '(es, r) <- p_sym_entries osz (N.to_nat n) r;;
  tg2 <- devif (existsb (fun e => se_name_off e =? 0) es) tol T_heap_name_offset_0;;
  Ok (es, tg1 ++ tg2, r).

(* ------------------------------------------------------------------ III.E global heap collection
   "GCOL" | version (1) | reserved (3) | collection size (L; at least 4096, includes this header) | objects
   object: heap object index (2) | reference count (2) | reserved (4) | object size (L) | data, padded to a multiple of 8
   Object 0, if present, is the free space: it is the last object and its size is the rest of the collection INCLUDING its own header. *)
Record gobj_spec := { go_index : N; go_refcount : N; go_data : bytes }.
Definition gcol_sig : bytes := [71; 67; 79; 76].

Fixpoint p_gobjs (tol : tolerance) (lsz : nat) (fuel : nat) (seen : list N) (bs : bytes) : outcome (list gobj_spec * list tag) :=
  if (length bs <? 8 + lsz)%nat then Ok ([], [])
  else
    match fuel with
    | O => Err
    | S fuel' =>
      '(idx, r) <- p_u 2 bs;;
      '(rc, r) <- p_u 2 r;;
      '(_, r) <- p_zeros 4 r;;
      '(sz, r) <- p_u lsz r;;
      if idx =? 0 then
        if sz =? blen bs then Ok ([], [])
        else if sz =? blen r then tg <- dev tol T_gcol_free_size;; Ok ([], tg)
        else if (sz =? 0) && (rc =? 0) && all_zero r then Ok ([], [])       (* zero fill: no free-space object was written *)
        else Err
      else
        _ <- guard (negb (existsb (N.eqb idx) seen));;
        '(d, r) <- p_take (N.to_nat sz) r;;
        '(_, r) <- p_take (N.to_nat (up8 sz - sz)) r;;
        '(rest, tg) <- p_gobjs tol lsz fuel' (idx :: seen) r;;
        Ok ({| go_index := idx; go_refcount := rc; go_data := d |} :: rest, tg)
    end.

Definition spec_dec_gcol (tol : tolerance) (lsz : nat) (bs : bytes) : outcome (N * list gobj_spec * list tag * bytes) :=
  '(_, r) <- p_expect gcol_sig bs;;
  '(v, r) <- p_byte r;; _ <- guard (v =? 1);;
  '(_, r) <- p_zeros 3 r;;
  '(size, r) <- p_u lsz r;;
  _ <- guard (4096 <=? size);;
  '(body, r) <- p_take (N.to_nat (size - (8 + N.of_nat lsz))) r;;
  '(objs, tg) <- p_gobjs tol lsz (S (length body)) [] body;;
  Ok (size, objs, tg, r).

(* ------------------------------------------------------------------ III.G fractal heap header
   "FRHP" | version (0) | heap ID length (2) | I/O filters' encoded length (2) | flags (bit 0: huge IDs wrapped, bit 1: direct blocks
   are checksummed; 2-7 reserved) | maximum size of managed objects (4) | next huge object ID (L) | v2 B-tree address of huge
   objects (O) | free space in managed blocks (L) | address of the managed block free-space manager (O) | managed space (L) |
   allocated managed space (L) | direct block allocation iterator offset (L) | number of managed objects (L) | size of huge
   objects (L) | number of huge objects (L) | size of tiny objects (L) | number of tiny objects (L) | table width (2) | starting
   block size (L) | maximum direct block size (L) | maximum heap size (2, bits) | starting # of rows in root indirect block (2) |
   address of root block (O) | current # of rows in root indirect block (2) |
   [filters: size of filtered root direct block (L), I/O filter mask (4), filter information] | checksum (4)
   Addresses of structures that do not exist are the undefined address. *)
Record fheap_spec := { fh_idlen : N; fh_filtlen : N; fh_flags : N; fh_maxobj : N; fh_nexthuge : N; fh_hugebt : N; fh_free : N;
                       fh_fsaddr : N; fh_mansize : N; fh_manalloc : N; fh_iter : N; fh_nman : N; fh_hugesize : N; fh_nhuge : N;
                       fh_tinysize : N; fh_ntiny : N; fh_width : N; fh_start : N; fh_maxdirect : N; fh_maxheap : N;
                       fh_startrows : N; fh_root : N; fh_currows : N }.
Definition frhp_sig : bytes := [70; 82; 72; 80].

Definition pow2 (v : N) : bool := (0 <? v) && (N.land v (v - 1) =? 0).

Definition spec_dec_fheap_hdr (tol : tolerance) (osz lsz : nat) (bs : bytes) : outcome (fheap_spec * list tag * bytes) :=
  '(_, r) <- p_expect frhp_sig bs;;
  '(v, r) <- p_byte r;; _ <- guard (v =? 0);;
  '(idlen, r) <- p_u 2 r;; '(filtlen, r) <- p_u 2 r;;
  '(fl, r) <- p_byte r;; _ <- guard (fl <? 4);;
  '(maxobj, r) <- p_u 4 r;;
  '(nexthuge, r) <- p_u lsz r;; '(hugebt, r) <- p_u osz r;; '(free, r) <- p_u lsz r;; '(fsaddr, r) <- p_u osz r;;
  '(mansize, r) <- p_u lsz r;; '(manalloc, r) <- p_u lsz r;; '(iter, r) <- p_u lsz r;; '(nman, r) <- p_u lsz r;;
  '(hugesize, r) <- p_u lsz r;; '(nhuge, r) <- p_u lsz r;; '(tinysize, r) <- p_u lsz r;; '(ntiny, r) <- p_u lsz r;;
  '(width, r) <- p_u 2 r;; '(start, r) <- p_u lsz r;; '(maxdirect, r) <- p_u lsz r;;
  '(maxheap, r) <- p_u 2 r;; '(startrows, r) <- p_u 2 r;;
  '(root, r) <- p_u osz r;; '(currows, r) <- p_u 2 r;;
  '(_, r) <- (if 0 <? filtlen then '(_, r) <- p_u lsz r;; '(_, r) <- p_u 4 r;; p_take (N.to_nat filtlen) r else Ok ([], r));;
  let covered := consumed bs r in
  '(stored, r) <- p_u 4 r;;
  tg1 <- check_sum tol T_fheap_hdr_crc32 covered stored;;
  _ <- guard (pow2 width && pow2 start && pow2 maxdirect && (maxheap <=? 64) && (maxdirect <=? 2 ^ maxheap) && (start <=? maxdirect));;
  (* absent structures: undefined address; 0 is the listed deviation *)
  tg2 <- devif ((hugebt =? 0) || (fsaddr =? 0)) tol T_fheap_addr_0_not_undef;;
  Ok ({| fh_idlen := idlen; fh_filtlen := filtlen; fh_flags := fl; fh_maxobj := maxobj; fh_nexthuge := nexthuge; fh_hugebt := hugebt;
         fh_free := free; fh_fsaddr := fsaddr; fh_mansize := mansize; fh_manalloc := manalloc; fh_iter := iter; fh_nman := nman;
         fh_hugesize := hugesize; fh_nhuge := nhuge; fh_tinysize := tinysize; fh_ntiny := ntiny; fh_width := width;
         fh_start := start; fh_maxdirect := maxdirect; fh_maxheap := maxheap; fh_startrows := startrows; fh_root := root;
         fh_currows := currows |}, tg1 ++ tg2, r).

(* Direct block:  "FHDB" | version (0) | heap header address (O) | block offset (ceil(max heap size / 8) bytes) |
   [checksum (4), iff header flag bit 1: of the whole block with this field taken as 0] | object data.
   [bs] is the whole block.  Returns the number of prefix bytes. *)
Definition fhdb_sig : bytes := [70; 72; 68; 66].

Definition spec_dec_fhdb (tol : tolerance) (osz : nat) (heap_addr : N) (offsz : nat) (hoff : N) (hflags : N) (bs : bytes)
  : outcome (N * list tag) :=
  '(_, r) <- p_expect fhdb_sig bs;;
  '(v, r) <- p_byte r;; _ <- guard (v =? 0);;
  '(ha, r) <- p_u osz r;; _ <- guard (ha =? heap_addr);;
  '(bo, r) <- p_u offsz r;; _ <- guard (bo =? hoff);;
  let pre := consumed bs r in
  if N.testbit hflags 1 then
    '(stored, r') <- p_u 4 r;;
    _ <- guard (stored =? spec_checksum (pre ++ [0; 0; 0; 0] ++ r'));;
    Ok (blen pre + 4, [])
  else
    _ <- guard (4 <=? length r)%nat;;
    let tail := unle (skipn (length r - 4) r) in
    if tail =? 0 then Ok (blen pre, [])
    else
      (* listed deviation: the last 4 bytes hold the CRC-32 of the rest of the block *)
      _ <- guard (tail =? crc32 (firstn (length bs - 4) bs));;
      tg <- dev tol T_fhdb_trailing_crc32;;
      Ok (blen pre, tg).

(* ------------------------------------------------------------------ III.A.2 version 2 B-tree
   header: "BTHD" | version (0) | type (1) | node size (4) | record size (2) | depth (2) | split percent (1) | merge percent (1) |
           root node address (O) | number of records in root node (2) | total number of records (L) | checksum (4)
   leaf:   "BTLF" | version (0) | type (1) | records | checksum (4)      (the checksum follows the last record) *)
Record bt2hdr_spec := { b2_type : N; b2_nodesize : N; b2_recsize : N; b2_depth : N; b2_split : N; b2_merge : N;
                        b2_root : N; b2_nroot : N; b2_total : N }.
Definition bthd_sig : bytes := [66; 84; 72; 68].
Definition btlf_sig : bytes := [66; 84; 76; 70].

Definition spec_dec_bt2hdr (tol : tolerance) (osz lsz : nat) (bs : bytes) : outcome (bt2hdr_spec * list tag * bytes) :=
  '(_, r) <- p_expect bthd_sig bs;;
  '(v, r) <- p_byte r;; _ <- guard (v =? 0);;
  '(t, r) <- p_byte r;;
  '(ns, r) <- p_u 4 r;; '(rs, r) <- p_u 2 r;; '(dp, r) <- p_u 2 r;;
  '(sp, r) <- p_byte r;; '(mg, r) <- p_byte r;;
  '(root, r) <- p_u osz r;; '(nroot, r) <- p_u 2 r;; '(total, r) <- p_u lsz r;;
  let covered := consumed bs r in
  '(stored, r) <- p_u 4 r;;
  tg <- check_sum tol T_btree2_crc32 covered stored;;
  _ <- guard ((0 <? sp) && (sp <=? 100) && (mg <=? 100) && (0 <? rs));;
  _ <- guard (if dp =? 0 then (total =? nroot) && (10 + nroot * rs <=? ns) else nroot <=? total);;
  Ok ({| b2_type := t; b2_nodesize := ns; b2_recsize := rs; b2_depth := dp; b2_split := sp; b2_merge := mg;
         b2_root := root; b2_nroot := nroot; b2_total := total |}, tg, r).

(* [bs] = the whole node (node size bytes); the space after the checksum is unused *)
Definition spec_dec_bt2leaf (tol : tolerance) (btype : N) (nrec recsize : nat) (bs : bytes) : outcome (list bytes * list tag) :=
  '(_, r) <- p_expect btlf_sig bs;;
  '(v, r) <- p_byte r;; _ <- guard (v =? 0);;
  '(t, r) <- p_byte r;; _ <- guard (t =? btype);;
  '(recs, r) <-
    (fix go (k : nat) (bs : bytes) : outcome (list bytes * bytes) :=
       match k with
       | O => Ok ([], bs)
       | S k' => '(x, r) <- p_take recsize bs;; '(xs, r) <- go k' r;; Ok (x :: xs, r)
       end) nrec r;;
  let covered := consumed bs r in
  '(stored, r) <- p_u 4 r;;
  tg <- check_sum tol T_btree2_crc32 covered stored;;
  Ok (recs, tg).
