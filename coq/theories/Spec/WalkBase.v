(* C05 - the whole-file specification walker, part 1: extent kinds, deviation tags of the walk, the result and state records,
   the walk monad (state + Ok / Err with a reason code) and small helpers.  The walk itself is Spec/Walk.v. *)
From HV Require Import Base.Prelude Base.Outcome Base.Bytes Spec.Parse Spec.Format Spec.FormatMsg Spec.FormatNode
  Spec.FormatRef Model.Wellformed.

(* ------------------------------------------------------------------ kinds of extents (tools/props/c05walk.py KINDS) *)
Definition K_superblock : N := 1.    Definition K_ohdr1 : N := 2.        Definition K_ohdr1_cont : N := 3.
Definition K_ohdr2 : N := 4.         Definition K_ohdr2_cont : N := 5.   Definition K_lheap_hdr : N := 6.
Definition K_lheap_data : N := 7.    Definition K_btree1_group : N := 8. Definition K_snod : N := 9.
Definition K_btree1_chunk : N := 10. Definition K_chunk : N := 11.       Definition K_contiguous : N := 12.
Definition K_fheap_hdr : N := 13.    Definition K_fheap_dblock : N := 14. Definition K_btree2_hdr : N := 15.
Definition K_btree2_leaf : N := 16.  Definition K_gcol : N := 17.

(* ------------------------------------------------------------------ deviation tags of the walk *)
Inductive xtag : Type :=
| X_sb_eof_stale            (* a visited structure ends beyond the superblock's end-of-file address *)
| X_refcount_too_high | X_refcount_too_low     (* object reference count vs hard links found *)
| X_snod_unsorted           (* symbol table node entries not in increasing name order *)
| X_btree1_group_keys       (* group B-tree keys do not bound the names of the child *)
| X_btree1_node_truncated   (* the node's full 2K-entry region leaves the file or overlaps another structure *)
| X_snod_node_truncated
| X_fheap_offset_excludes_block_prefix   (* heap ID offsets count from the object data of the direct block *)
| X_btree2_attr_type_5      (* attribute name index of B-tree type 5 *)
| X_vlen_elem_no_length
| X_group_dataspace_msg               (* a new-style group's object header carries a dataspace message *)
| X_dense_link_private_layout         (* densely stored links: version | type | flags | character set | minimal-width name length | name | address *)
| X_btree2_link_id_truncated          (* link name index records hold the first 7 bytes of the heap's 8-byte IDs *)
| X_refcount_ignores_dense_links.     (* hard links stored in a dense group are not counted in the target's reference count *)
Inductive wtag : Type := WS (t : tag) | WX (x : xtag).
Definition xtag_code (x : xtag) : N :=
  match x with
  | X_sb_eof_stale => 101 | X_refcount_too_high => 102 | X_refcount_too_low => 103 | X_snod_unsorted => 104
  | X_btree1_group_keys => 105 | X_btree1_node_truncated => 106 | X_snod_node_truncated => 107
  | X_fheap_offset_excludes_block_prefix => 108 | X_btree2_attr_type_5 => 109 | X_vlen_elem_no_length => 110
  | X_group_dataspace_msg => 111 | X_dense_link_private_layout => 112 | X_btree2_link_id_truncated => 113
  | X_refcount_ignores_dense_links => 114
  end.
Definition wtag_code (t : wtag) : N := match t with WS t => tag_code t | WX x => xtag_code x end.
Definition wtolerance := wtag -> bool.
Definition wstrict : wtolerance := fun _ => false.
Definition wtolerant : wtolerance := fun _ => true.

(* ------------------------------------------------------------------ result *)
(* kind: 1 group, 2 dataset, 3 link object, 4 committed datatype;  layout: 0 compact, 1 contiguous, 2 chunked (datasets);
   os_dtbits: byte order / signedness / string padding as in the class bit field ([dtype_bits]);
   os_space: dataspace type 0 scalar, 1 simple, 2 null;  os_links: (link type 0 hard / 1 soft / 64 external, link name) of a group;  os_ltargets: the object header address each of them
   leads to (0 for soft / external links) *)
Record obj_sum := { os_addr : N; os_path : bytes; os_kind : N; os_dims : list N; os_dtclass : N; os_dtsize : N;
                    os_layout : N; os_attrs : list bytes; os_dtbits : N; os_space : N; os_links : list (N * bytes);
                    os_ltargets : list N }.
Definition xext : Type := (N * N * N)%type.      (* start, end, kind *)
Record walk_result := { wr_extents : list xext; wr_tree : list obj_sum; wr_tags : list wtag; wr_eof : N; wr_version : N }.

Record wstate := { ws_ext : list xext; ws_soft : list (xext * xtag); ws_tags : list wtag; ws_sum : list obj_sum;
                   ws_seen : list N; ws_links : list N; ws_refs : list (N * N); ws_stab : list (N * (N * N)); ws_dlinks : list N }.
Definition st0 : wstate := {| ws_ext := []; ws_soft := []; ws_tags := []; ws_sum := []; ws_seen := []; ws_links := [];
                              ws_refs := []; ws_stab := []; ws_dlinks := [] |}.
Definition set_ext (v : list xext) (s : wstate) : wstate :=
  {| ws_ext := v; ws_soft := ws_soft s; ws_tags := ws_tags s; ws_sum := ws_sum s; ws_seen := ws_seen s;
     ws_links := ws_links s; ws_refs := ws_refs s; ws_stab := ws_stab s; ws_dlinks := ws_dlinks s |}.
(* everything but the extents *)
Record wrest := { r_soft : list (xext * xtag); r_tags : list wtag; r_sum : list obj_sum; r_seen : list N; r_links : list N;
                  r_refs : list (N * N); r_stab : list (N * (N * N)); r_dlinks : list N }.
Definition rest_of (s : wstate) : wrest :=
  {| r_soft := ws_soft s; r_tags := ws_tags s; r_sum := ws_sum s; r_seen := ws_seen s; r_links := ws_links s;
     r_refs := ws_refs s; r_stab := ws_stab s; r_dlinks := ws_dlinks s |}.
Definition with_rest (r : wrest) (s : wstate) : wstate :=
  {| ws_ext := ws_ext s; ws_soft := r_soft r; ws_tags := r_tags r; ws_sum := r_sum r; ws_seen := r_seen r;
     ws_links := r_links r; ws_refs := r_refs r; ws_stab := r_stab r; ws_dlinks := r_dlinks r |}.

(* ------------------------------------------------------------------ the walk monad: state + Ok/Err (a [Panic] of a
   decoder is turned into [Err] where it enters: a specification walker rejects, it never panics) *)
(* a rejection carries a reason code (tools/props/c06walk.py REASONS): 1 a structural clause failed, 2 a decoder rejected or a
   read left the file, 3 an extent is empty or leaves the file, 10.. named clauses, 200 + tag: a deviation that is not tolerated,
   1000 + t: message type t is not interpreted *)
Inductive wres (A : Type) : Type := WOk (a : A) | WErr (code : N).
Arguments WOk {A} a.
Arguments WErr {A} code.
Definition W (A : Type) := wstate -> wres (A * wstate).
Definition wret {A} (a : A) : W A := fun st => WOk (a, st).
Definition wfail {A} (code : N) : W A := fun _ => WErr code.
Definition wbind {A B} (m : W A) (k : A -> W B) : W B :=
  fun st => match m st with WOk (a, st') => k a st' | WErr c => WErr c end.
Definition wlc {A} (code : N) (o : outcome A) : W A := fun st => match o with Ok a => WOk (a, st) | _ => WErr code end.
Definition wguardc (code : N) (c : bool) : W unit := if c then wret tt else wfail code.
Notation werr := (wfail 1).
Notation wl := (wlc 2).
Notation wguard := (wguardc 1).
(* read / update everything but the extents *)
Definition wget {A} (g : wrest -> A) : W A := fun st => WOk (g (rest_of st), st).
Definition wupd (g : wrest -> wrest) : W unit := fun st => WOk (tt, with_rest (g (rest_of st)) st).
(* read the extents (the final cross-structure clauses) *)
Definition wexts : W (list xext) := fun st => WOk (ws_ext st, st).

Notation "x <<- e ;; k" := (wbind e (fun x => k)) (at level 61, e at next level, right associativity).
Notation "' p <<- e ;; k" := (wbind e (fun x => let p := x in k)) (at level 61, p pattern, e at next level, right associativity).

Fixpoint wmapM {A B} (g : A -> W B) (l : list A) : W (list B) :=
  match l with
  | [] => wret []
  | x :: r => y <<- g x;; ys <<- wmapM g r;; wret (y :: ys)
  end.
Fixpoint wforM {A} (g : A -> W unit) (l : list A) : W unit :=
  match l with
  | [] => wret tt
  | x :: r => _ <<- g x;; wforM g r
  end.
Fixpoint omapM {A B} (g : A -> outcome B) (l : list A) : outcome (list B) :=
  match l with
  | [] => Ok []
  | x :: r => y <- g x;; ys <- omapM g r;; Ok (y :: ys)
  end.

(* ------------------------------------------------------------------ small helpers *)
Fixpoint bytes_ltb (a b : list N) : bool :=
  match a, b with
  | _, [] => false
  | [], _ :: _ => true
  | x :: a', y :: b' => (x <? y) || ((x =? y) && bytes_ltb a' b')
  end.
Definition bytes_leb (a b : list N) : bool := negb (bytes_ltb b a).
Fixpoint increasing (l : list (list N)) : bool :=
  match l with
  | a :: r => match r with b :: _ => bytes_ltb a b && increasing r | [] => true end
  | [] => true
  end.
Fixpoint nondecreasingN (l : list N) : bool :=
  match l with
  | a :: r => match r with b :: _ => (a <=? b) && nondecreasingN r | [] => true end
  | [] => true
  end.
Fixpoint nodupb (l : list bytes) : bool :=
  match l with [] => true | x :: r => negb (existsb (bytes_eqb x) r) && nodupb r end.
Definition countN (a : N) (l : list N) : N := N.of_nat (length (filter (N.eqb a) l)).
Definition memN (a : N) (l : list N) : bool := existsb (N.eqb a) l.
Definition sumN (l : list N) : N := fold_left N.add l 0.
Definition prodN (l : list N) : N := fold_left N.mul l 1.
Definition lastN (l : list N) : N := last l 0.
Definition lenN {A} (l : list A) : N := N.of_nat (length l).
(* minimum number of bytes that hold the value v *)
Definition nbytes_for (v : N) : N := if v =? 0 then 1 else N.log2 v / 8 + 1.
Definition slash : N := 47.
Definition join_path (path name : bytes) : bytes := (if bytes_eqb path [slash] then [] else path) ++ slash :: name.

Definition msgs_of (t : N) (ms : list msg_spec) : list msg_spec := filter (fun m => ms_type m =? t) ms.
Definition first_of (t : N) (ms : list msg_spec) : option bytes :=
  match msgs_of t ms with m :: _ => Some (ms_data m) | [] => None end.
Definition has_msg (t : N) (ms : list msg_spec) : bool := match msgs_of t ms with [] => false | _ => true end.
(* the message types the walker interprets or may skip (h5spec.py `known`) *)
(* 7 external data files, 13 object comment, 14 old modification time: skipped *)
Definition known_types : list N := [1; 2; 3; 4; 5; 6; 7; 8; 10; 11; 12; 13; 14; 15; 17; 18; 21; 22].
Definition once_types : list N := [1; 3; 5; 8; 11; 17; 21; 15; 22; 2].

Record wctx := { cO : nat; cL : nat; c_leafK : N; c_intK : N; c_istoreK : N }.
Record gentry := { ge_e : sym_entry; ge_name : bytes }.
Definition chunk_rec : Type := (N * N * list N * N)%type.      (* size, filter mask, offsets, address *)

