(* Parsing primitives for the specification decoders of C05 (Spec/Format*.v).

   A specification decoder reads a byte string front to back.  [parser A] = the bytes still unread go in,
   the value and the bytes that remain come out; a short input or a field the specification forbids is
   [Err] (a specification decoder never panics).  Departures of the writer from the specification that are
   listed in KNOWN_FINDINGS.json are named by a [tag]; a decoder takes the set of tags it may tolerate
   ([tol : tag -> bool]) and returns the list of the tags it had to use.  [strict] tolerates nothing. *)
From HV Require Import Base.Prelude Base.Outcome Base.Bytes.

(* ------------------------------------------------------------------ deviation tags (KNOWN_FINDINGS.json, C05-<name>) *)
Inductive tag : Type :=
| T_sb_crc32                      (* superblock v2/v3 checksum is CRC-32 *)
| T_ohdr_no_checksum              (* v2 object header chunk without trailing checksum *)
| T_fixed_props_malformed
| T_float_props_malformed
| T_float64_bias_127
| T_string_extra_prop_byte
| T_pipeline_v2_with_v1_layout
| T_refcount_msg_no_version
| T_extlink_value_layout
| T_fheap_hdr_crc32
| T_fheap_addr_0_not_undef
| T_fhdb_trailing_crc32
| T_btree2_crc32
| T_gcol_free_size
| T_btree1_node_over_capacity
| T_snod_over_capacity
| T_heap_name_offset_0
| T_attrinfo_type_0x0f
| T_dataset_no_fillvalue_msg
| T_softlink_stored_as_object
| T_chunk_dims_no_elem_dim
| T_chunk_btree_addr_0
(* not (yet) listed: found by the specification decoders of this development, proposed in notes/c05-known-findings-proposed.json *)
| T_compound_v3_layout      (* version 3 compound: member count in the properties (class bits 0), 4-byte member offsets *)
| T_enum_v3_layout.         (* version 3 enumeration: (padded name, value) pairs instead of names then values *)

(* the number the tie prints for a tag (tools/props/c05spec.py TAGS has the same table) *)
Definition tag_code (t : tag) : N :=
  match t with
  | T_sb_crc32 => 1 | T_ohdr_no_checksum => 2 | T_fixed_props_malformed => 3
  | T_float_props_malformed => 4 | T_float64_bias_127 => 5 | T_string_extra_prop_byte => 6
  | T_pipeline_v2_with_v1_layout => 7 | T_refcount_msg_no_version => 8 | T_extlink_value_layout => 9
  | T_fheap_hdr_crc32 => 10 | T_fheap_addr_0_not_undef => 11 | T_fhdb_trailing_crc32 => 12
  | T_btree2_crc32 => 13 | T_gcol_free_size => 14 | T_btree1_node_over_capacity => 15
  | T_snod_over_capacity => 16 | T_heap_name_offset_0 => 17 | T_attrinfo_type_0x0f => 18
  | T_dataset_no_fillvalue_msg => 19 | T_softlink_stored_as_object => 20
  | T_chunk_dims_no_elem_dim => 21 | T_chunk_btree_addr_0 => 22
  | T_compound_v3_layout => 23 | T_enum_v3_layout => 24
  end.

Definition tolerance := tag -> bool.
Definition strict : tolerance := fun _ => false.
Definition tolerant : tolerance := fun _ => true.

(* use of a listed deviation: allowed only when [tol] says so, and then reported *)
Definition dev (tol : tolerance) (t : tag) : outcome (list tag) := if tol t then Ok [t] else Err.
(* [devif c tol t]: the deviation [t] is present iff [c] *)
Definition devif (c : bool) (tol : tolerance) (t : tag) : outcome (list tag) := if c then dev tol t else Ok [].

Definition guard (c : bool) : outcome unit := if c then Ok tt else Err.

(* ------------------------------------------------------------------ primitives *)
Definition parser (A : Type) := bytes -> outcome (A * bytes).

Definition p_take (n : nat) : parser bytes :=
  fun bs => if (n <=? length bs)%nat then Ok (firstn n bs, skipn n bs) else Err.
(* unsigned little-endian integer of n bytes *)
Definition p_u (n : nat) : parser N :=
  fun bs => '(b, r) <- p_take n bs;; Ok (unle b, r).
Definition p_byte : parser N :=
  fun bs => match bs with x :: r => Ok (x, r) | [] => Err end.
(* the literal bytes [s] *)
Definition p_expect (s : bytes) : parser unit :=
  fun bs => '(b, r) <- p_take (length s) bs;; if bytes_eqb b s then Ok (tt, r) else Err.
(* n bytes that must all be zero (reserved fields, padding) *)
Definition all_zero (bs : bytes) : bool := forallb (fun b => b =? 0) bs.
Definition p_zeros (n : nat) : parser unit :=
  fun bs => '(b, r) <- p_take n bs;; if all_zero b then Ok (tt, r) else Err.
(* k values of n bytes *)
Fixpoint p_us (n : nat) (k : nat) : parser (list N) :=
  fun bs => match k with
            | O => Ok ([], bs)
            | S k' => '(v, r) <- p_u n bs;; '(vs, r) <- p_us n k' r;; Ok (v :: vs, r)
            end.
(* a NUL-terminated string: the bytes before the first 0, and the bytes after it *)
Fixpoint p_cstr (bs : bytes) : outcome (bytes * bytes) :=
  match bs with
  | [] => Err
  | b :: r => if b =? 0 then Ok ([], r) else '(s, r') <- p_cstr r;; Ok (b :: s, r')
  end.

(* the bytes of [bs] that were read when [r] remains *)
Definition consumed (bs r : bytes) : bytes := firstn (length bs - length r) bs.

(* the undefined address of an n-byte address field *)
Definition undef (n : nat) : N := 256 ^ N.of_nat n - 1.

Definition size_ok (n : N) : bool := (n =? 2) || (n =? 4) || (n =? 8).

(* no NUL byte inside *)
Definition no_nul (s : bytes) : bool := forallb (fun b => negb (b =? 0)) s.

(* round up to a multiple of 8 *)
Definition up8 (n : N) : N := (n + 7) / 8 * 8.

(* ------------------------------------------------------------------ lemmas the encoder theorems use *)

Lemma p_take_app (a r : list N) n : length a = n -> p_take n (a ++ r) = Ok (a, r).
Proof.
  intros <-. unfold p_take. rewrite app_length.
  replace (length a <=? length a + length r)%nat with true by (symmetry; apply Nat.leb_le; lia).
  rewrite firstn_app, Nat.sub_diag, firstn_all, skipn_app, Nat.sub_diag, skipn_all. cbn [firstn skipn app].
  now rewrite app_nil_r.
Qed.

Lemma p_take_all (a : list N) n : length a = n -> p_take n a = Ok (a, []).
Proof. intros H. rewrite <- (app_nil_r a) at 1. now apply p_take_app. Qed.

Lemma p_u_le_mod n v (r : list N) : p_u n (le n v ++ r) = Ok (v mod 256 ^ N.of_nat n, r).
Proof. unfold p_u. rewrite p_take_app by apply length_le. cbn [obind]. now rewrite unle_le. Qed.

Lemma p_u_le n v (r : list N) : v < 256 ^ N.of_nat n -> p_u n (le n v ++ r) = Ok (v, r).
Proof. intros H. rewrite p_u_le_mod. now rewrite N.mod_small. Qed.

Lemma p_u_le_end n v : v < 256 ^ N.of_nat n -> p_u n (le n v) = Ok (v, []).
Proof. intros H. rewrite <- (app_nil_r (le n v)). now apply p_u_le. Qed.

Lemma bytes_eqb_refl (s : list N) : bytes_eqb s s = true.
Proof. induction s as [|x s IH]; cbn [bytes_eqb list_eqb]; auto. fold (bytes_eqb s s). now rewrite N.eqb_refl, IH. Qed.

Lemma bytes_eqb_eq (a b : list N) : bytes_eqb a b = true -> a = b.
Proof.
  revert b. induction a as [|x a IH]; intros [|y b] H; cbn [bytes_eqb list_eqb] in H; try discriminate; auto.
  apply andb_true_iff in H as [H1 H2]. apply N.eqb_eq in H1. subst. f_equal. now apply IH.
Qed.

Lemma p_expect_app (s r : list N) : p_expect s (s ++ r) = Ok (tt, r).
Proof. unfold p_expect. rewrite p_take_app by reflexivity. cbn [obind]. now rewrite bytes_eqb_refl. Qed.

Lemma all_zero_zeros n : all_zero (zeros n) = true.
Proof. induction n; cbn [zeros repeat all_zero forallb]; auto. Qed.

Lemma p_zeros_app n (r : list N) : p_zeros n (zeros n ++ r) = Ok (tt, r).
Proof. unfold p_zeros. rewrite p_take_app by apply length_zeros. cbn [obind]. now rewrite all_zero_zeros. Qed.

Lemma p_zeros_end n : p_zeros n (zeros n) = Ok (tt, []).
Proof. rewrite <- (app_nil_r (zeros n)). apply p_zeros_app. Qed.

Lemma p_us_app n (l : list N) (r : list N) :
  Forall (fun v => v < 256 ^ N.of_nat n) l ->
  p_us n (length l) (concat (map (le n) l) ++ r) = Ok (l, r).
Proof.
  induction 1 as [|v l Hv Hl IH]; cbn [length p_us map concat]; auto.
  rewrite <- app_assoc, p_u_le by exact Hv. cbn [obind]. rewrite IH. reflexivity.
Qed.

Lemma p_cstr_app (s r : list N) : no_nul s = true -> p_cstr (s ++ 0 :: r) = Ok (s, r).
Proof.
  induction s as [|b s IH]; intros H; cbn [app p_cstr].
  - reflexivity.
  - cbn [no_nul forallb] in H. apply andb_true_iff in H as [Hb Hs].
    destruct (b =? 0); [discriminate|]. rewrite IH by exact Hs. reflexivity.
Qed.

Lemma consumed_app (a r : list N) : consumed (a ++ r) r = a.
Proof.
  unfold consumed. bnorm. rewrite app_length. replace (length a + length r - length r)%nat with (length a + 0)%nat by lia.
  rewrite firstn_app_2. cbn [firstn]. apply app_nil_r.
Qed.

Lemma forallb_Forall_lt (bound : N) (l : list N) :
  forallb (fun d => d <? bound) l = true -> Forall (fun v => v < bound) l.
Proof.
  intros H. apply Forall_forall. intros x Hx. rewrite forallb_forall in H. apply N.ltb_lt. now apply H.
Qed.
