(* HDF5 File Format Specification 3.0: decoders needed only for files written by the reference library (C06 walker oracle),
   written from the specification like Spec/Format*.v.
     IV.A.2.t  0x0013 B-tree 'K' values message (superblock extension)
     III.G     fractal heap indirect block
     III.A.2   version 2 B-tree internal node
     IV.A.2.i  0x0008 data layout message, versions 1 / 2 and version 4
     IV.A.2.p  shared message (the body of a message whose flag bit 1 is set; shared datatype / dataspace of an attribute) *)
From HV Require Import Base.Prelude Base.Outcome Base.Bytes Spec.Parse Spec.Format Spec.FormatMsg Spec.FormatNode.

(* ------------------------------------------------------------------ 0x0013 B-tree 'K' values
   version (0) | indexed storage internal node K (2) | group internal node K (2) | group leaf node K (2)
   -> (leaf K, internal K, indexed storage K) *)
Definition spec_dec_btreek (pad_ok : bool) (bs : bytes) : outcome (N * N * N) :=
  '(ver, r) <- p_byte bs;;
  _ <- guard (ver =? 0);;
  '(istoreK, r) <- p_u 2 r;; '(intK, r) <- p_u 2 r;; '(leafK, r) <- p_u 2 r;;
  _ <- guard ((0 <? istoreK) && (0 <? intK) && (0 <? leafK));;
  _ <- guard (match r with [] => true | _ => pad_ok && (length r <? 8)%nat && all_zero r end);;
  Ok (leafK, intK, istoreK).

(* ------------------------------------------------------------------ III.G fractal heap indirect block
   "FHIB" | version (0) | heap header address (O) | block offset (ceil(max heap size / 8) bytes) |
   child direct block addresses: K entries of (address (O) [, filtered size (L), filter mask (4) when the heap is filtered]) |
   child indirect block addresses: N entries of (address (O)) | checksum (4)
   with [nrows] rows of [width] entries; the first [maxdrows] rows hold direct blocks:
     K = min(nrows, maxdrows) * width,  N = (nrows - min(nrows, maxdrows)) * width.
   Unfiltered heaps only.  -> (direct child addresses, indirect child addresses) *)
Definition fhib_sig : bytes := [70; 72; 73; 66].

Definition spec_dec_fhib (osz : nat) (heap_addr : N) (offsz : nat) (hoff : N) (width nrows maxdrows : N) (bs : bytes)
  : outcome (list N * list N * bytes) :=
  '(_, r) <- p_expect fhib_sig bs;;
  '(v, r) <- p_byte r;; _ <- guard (v =? 0);;
  '(ha, r) <- p_u osz r;; _ <- guard (ha =? heap_addr);;
  '(bo, r) <- p_u offsz r;; _ <- guard (bo =? hoff);;
  let drows := N.min nrows maxdrows in
  '(ds, r) <- p_us osz (N.to_nat (drows * width)) r;;
  '(is, r) <- p_us osz (N.to_nat ((nrows - drows) * width)) r;;
  let covered := consumed bs r in
  '(stored, r) <- p_u 4 r;;
  _ <- guard (stored =? spec_checksum covered);;
  Ok (ds, is, r).

(* the doubling table (III.G): rows 0 and 1 hold blocks of the starting block size, every later row doubles it *)
Definition fh_row_size (start row : N) : N := if row <? 2 then start else start * 2 ^ (row - 1).
(* number of rows of direct blocks: log2(max direct size) - log2(start size) + 2 *)
Definition fh_max_drows (start maxdirect : N) : N := N.log2 maxdirect - N.log2 start + 2.

(* ------------------------------------------------------------------ III.A.2 version 2 B-tree internal node
   "BTIN" | version (0) | type (1) | records (nrec) | child pointers (nrec + 1): address (O), number of records in the child
   (variable size [csz]), [total number of records below the child (variable size [tsz]) when depth > 1] | checksum (4)
   -> (records, children as (address, number of records, total)) *)
Definition btin_sig : bytes := [66; 84; 73; 78].

Fixpoint p_bt2children (osz csz tsz : nat) (k : nat) (bs : bytes) : outcome (list (N * N * N) * bytes) :=
  match k with
  | O => Ok ([], bs)
  | S k' =>
      '(a, r) <- p_u osz bs;; '(n, r) <- p_u csz r;; '(t, r) <- p_u tsz r;;
      '(rest, r) <- p_bt2children osz csz tsz k' r;;
      Ok ((a, n, t) :: rest, r)
  end.

Definition spec_dec_bt2internal (tol : tolerance) (osz : nat) (btype : N) (nrec recsize csz tsz : nat) (bs : bytes)
  : outcome (list bytes * list (N * N * N) * list tag) :=
  '(_, r) <- p_expect btin_sig bs;;
  '(v, r) <- p_byte r;; _ <- guard (v =? 0);;
  '(t, r) <- p_byte r;; _ <- guard (t =? btype);;
  '(recs, r) <-
    (fix go (k : nat) (bs : bytes) : outcome (list bytes * bytes) :=
       match k with
       | O => Ok ([], bs)
       | S k' => '(x, r) <- p_take recsize bs;; '(xs, r) <- go k' r;; Ok (x :: xs, r)
       end) nrec r;;
  '(ch, r) <- p_bt2children osz csz tsz (S nrec) r;;
  let covered := consumed bs r in
  '(stored, r) <- p_u 4 r;;
  tg <- check_sum tol T_btree2_crc32 covered stored;;
  Ok (recs, ch, tg).

(* number of bytes that hold values up to [v] (sizes of the child record counts) *)
Definition bytes_for (v : N) : N := if v =? 0 then 1 else N.log2 v / 8 + 1.
(* records that fit a leaf / an internal node of [ns] bytes (10 bytes of prefix and checksum) *)
Definition bt2_leaf_cap (ns rs : N) : N := (ns - 10) / rs.

(* ------------------------------------------------------------------ 0x0008 data layout, versions 1 and 2
   version (1, 2) | dimensionality | layout class (0 compact, 1 contiguous, 2 chunked) | reserved (5) |
   [data address (O): contiguous - the raw data, chunked - the v1 B-tree; absent for compact] |
   dimension sizes (4 each, [dimensionality] of them; chunked: dimensionality = dataset rank + 1 and the last one is the dataset
   element size) | [compact: data size (4) | raw data]
   The size of contiguous storage is not stored: it is the product of the dimension sizes and the element size.  The reference
   library up to 1.4 wrote the element size as an extra last dimension for every layout class (dimensionality = rank + 1; the
   specification says so for chunked storage only) and ignores the dimension sizes of contiguous storage when reading: both
   dimensionalities are accepted for contiguous storage - [rank] (of the dataspace) + 1 with the last size equal to the element size
   [esz] of the datatype, or [rank].  Same result type as the version 3 decoder. *)
Definition spec_dec_layout12 (osz : nat) (rank : nat) (esz : N) (pad_ok : bool) (bs : bytes) : outcome layout_spec :=
  '(ver, r) <- p_byte bs;;
  _ <- guard ((ver =? 1) || (ver =? 2));;
  '(nd, r) <- p_byte r;;
  '(cls, r) <- p_byte r;;
  '(_, r) <- p_zeros 5 r;;
  if cls =? 0 then
    '(dims, r) <- p_us 4 (N.to_nat nd) r;;
    '(sz, r) <- p_u 4 r;; '(d, r) <- p_take (N.to_nat sz) r;; _ <- p_end pad_ok r;; Ok (LyCompact d)
  else if cls =? 1 then
    '(a, r) <- p_u osz r;;
    '(dims, r) <- p_us 4 (N.to_nat nd) r;;
    _ <- p_end pad_ok r;;
    let p := fold_left N.mul dims 1 in
    if (N.to_nat nd =? S rank)%nat then _ <- guard (last dims 0 =? esz);; Ok (LyContiguous a p)
    else _ <- guard (N.to_nat nd =? rank)%nat;; Ok (LyContiguous a (p * esz))
  else if cls =? 2 then
    _ <- guard (0 <? nd);;
    '(a, r) <- p_u osz r;;
    '(dims, r) <- p_us 4 (N.to_nat nd) r;;
    _ <- guard (forallb (fun d => 0 <? d) dims);;
    _ <- p_end pad_ok r;;
    Ok (LyChunked a dims)
  else Err.

(* ------------------------------------------------------------------ 0x0008 data layout, version 4
   version (4) | layout class | compact, contiguous: as in version 3 |
   chunked: flags (bit 0 do not filter partial edge chunks, bit 1 the single chunk is filtered) | dimensionality (rank + 1) |
            encoded length of a dimension size (1..8) | dimension sizes (the last is the element size) | chunk indexing type |
            indexing information | address (O)
     indexing type 1 single chunk:     [flag bit 1: size of the filtered chunk (L) | filter mask (4)]
                   2 implicit:         nothing (all chunks, in order, from the address on)
                   3 fixed array:      page bits (1)
                   4 extensible array: maximum bits, index elements, minimum pointers, minimum elements, page bits (1 each)
                   5 v2 B-tree:        node size (4) | split percent (1) | merge percent (1)
   virtual (class 3): global heap address (O) | index (4) *)
Inductive chunk_index :=
| CISingle (filtered : option (N * N))
| CIImplicit
| CIFixedArray (pagebits : N)
| CIExtArray (params : list N)
| CIBtree2 (nodesize split merge : N).
Inductive layout4_spec :=
| L4Plain (l : layout_spec)
| L4Chunked (flags : N) (dims : list N) (idx : chunk_index) (addr : N)
| L4Virtual (heap index : N).

Definition spec_dec_layout4 (osz lsz : nat) (pad_ok : bool) (bs : bytes) : outcome layout4_spec :=
  '(ver, r) <- p_byte bs;;
  _ <- guard (ver =? 4);;
  '(cls, r) <- p_byte r;;
  if cls =? 0 then
    '(sz, r) <- p_u 2 r;; '(d, r) <- p_take (N.to_nat sz) r;; _ <- p_end pad_ok r;; Ok (L4Plain (LyCompact d))
  else if cls =? 1 then
    '(a, r) <- p_u osz r;; '(s, r) <- p_u lsz r;; _ <- p_end pad_ok r;; Ok (L4Plain (LyContiguous a s))
  else if cls =? 2 then
    '(fl, r) <- p_byte r;; _ <- guard (fl <? 4);;
    '(nd, r) <- p_byte r;; _ <- guard (0 <? nd);;
    '(el, r) <- p_byte r;; _ <- guard ((0 <? el) && (el <=? 8));;
    '(dims, r) <- p_us (N.to_nat el) (N.to_nat nd) r;;
    _ <- guard (forallb (fun d => 0 <? d) dims);;
    '(it, r) <- p_byte r;;
    '(idx, r) <-
      (if it =? 1 then
         if N.testbit fl 1 then '(sz, r) <- p_u lsz r;; '(mask, r) <- p_u 4 r;; Ok (CISingle (Some (sz, mask)), r)
         else Ok (CISingle None, r)
       else if it =? 2 then Ok (CIImplicit, r)
       else if it =? 3 then '(pb, r) <- p_byte r;; Ok (CIFixedArray pb, r)
       else if it =? 4 then '(ps, r) <- p_us 1 5 r;; Ok (CIExtArray ps, r)
       else if it =? 5 then '(ns, r) <- p_u 4 r;; '(sp, r) <- p_byte r;; '(mg, r) <- p_byte r;; Ok (CIBtree2 ns sp mg, r)
       else Err);;
    '(a, r) <- p_u osz r;;
    _ <- p_end pad_ok r;;
    Ok (L4Chunked fl dims idx a)
  else if cls =? 3 then
    '(a, r) <- p_u osz r;; '(i, r) <- p_u 4 r;; _ <- p_end pad_ok r;; Ok (L4Virtual a i)
  else Err.

(* ------------------------------------------------------------------ shared message (IV.A.2.p; the body that replaces a message when
   its flag bit 1 is set, and the datatype / dataspace field of an attribute whose flag bit 0 / 1 is set)
   version 1: version | type (0) | reserved (6) | [name offset (L)] | address (O)
   version 2: version | type (0; the reference library 1.8 writes 2, committed, as in version 3) | address (O)
   version 3: version | type (0 not shared / not in a heap, 1 in the shared message heap: 8-byte heap ID,
                              2 committed message: address (O), 3 not shared) | location
   -> the address of the object header that holds the message (types 0 and 2); a message in the shared message heap is not followed *)
(* the rest of a shared message: nothing, or (version 1 object headers) zero bytes - the reference library leaves a message slot that
   was sized for a datatype description zero-filled when the description is replaced by the reference to a committed datatype *)
Definition p_zpad (pad_ok : bool) (r : bytes) : outcome unit :=
  match r with [] => Ok tt | _ => guard (pad_ok && all_zero r) end.
Definition spec_dec_shared (osz lsz : nat) (pad_ok : bool) (bs : bytes) : outcome N :=
  '(ver, r) <- p_byte bs;;
  '(ty, r) <- p_byte r;;
  if ver =? 1 then
    (* as written by the reference library up to 1.6 the location is a symbol table entry remnant: the offset of a name in a local
       heap (L, not interpreted; the specification text omits it) precedes the address *)
    _ <- guard (ty =? 0);; '(_, r) <- p_zeros 6 r;;
    if (length r <? lsz + osz)%nat then '(a, r) <- p_u osz r;; _ <- p_zpad pad_ok r;; Ok a
    else '(_, r) <- p_take lsz r;; '(a, r) <- p_u osz r;; _ <- p_zpad pad_ok r;; Ok a
  else if ver =? 2 then
    _ <- guard ((ty =? 0) || (ty =? 2));; '(a, r) <- p_u osz r;; _ <- p_zpad pad_ok r;; Ok a
  else if ver =? 3 then
    _ <- guard (ty =? 2);; '(a, r) <- p_u osz r;; _ <- p_zpad pad_ok r;; Ok a
  else Err.

(* ------------------------------------------------------------------ 0x000C attribute whose datatype is shared (flag bit 0 of versions 2
   and 3): the datatype field is a shared message; [shared_dt] resolves it (the walker reads the committed datatype's object header).
   A shared dataspace (flag bit 1) is not followed. *)
Definition spec_dec_attribute_sh (tol : tolerance) (lsz : nat) (pad_ok : bool) (shared_dt : bytes -> outcome (dtype * list tag))
  (bs : bytes) : outcome (attribute_spec * list tag) :=
  '(ver, r) <- p_byte bs;;
  _ <- guard ((2 <=? ver) && (ver <=? 3));;
  '(fl, r) <- p_byte r;;
  _ <- guard (fl =? 1);;
  '(ns, r) <- p_u 2 r;; '(ts, r) <- p_u 2 r;; '(ss, r) <- p_u 2 r;;
  '(cset, r) <- (if ver =? 3 then '(c, r) <- p_byte r;; _ <- guard (c <? 2);; Ok (c, r) else Ok (0, r));;
  '(nameb, r) <- p_take (N.to_nat ns) r;;
  '(name, z) <- p_cstr nameb;;
  _ <- guard ((length z =? 0)%nat && negb (length name =? 0)%nat);;
  '(tb, r) <- p_take (N.to_nat ts) r;;
  '(t, tg) <- shared_dt tb;;
  '(sb, r) <- p_take (N.to_nat ss) r;;
  sp <- spec_dec_dataspace lsz false sb;;
  '(data, r) <- p_take (N.to_nat (nelem sp * dtype_size t)) r;;
  _ <- p_end pad_ok r;;
  Ok ({| as_version := ver; as_cset := cset; as_name := name; as_dtype := t; as_space := sp; as_data := data |}, tg).

(* the committed datatype an attribute with a shared datatype refers to (the reference library counts every such use in the committed
   datatype's object reference count) *)
Definition attr_shared_addr (osz lsz : nat) (bs : bytes) : outcome N :=
  '(ver, r) <- p_byte bs;;
  '(fl, r) <- p_byte r;;
  _ <- guard ((2 <=? ver) && (ver <=? 3) && (fl =? 1));;
  '(ns, r) <- p_u 2 r;; '(ts, r) <- p_u 2 r;; '(ss, r) <- p_u 2 r;;
  '(_, r) <- (if ver =? 3 then p_take 1 r else Ok ([], r));;
  '(_, r) <- p_take (N.to_nat ns) r;;
  '(tb, r) <- p_take (N.to_nat ts) r;;
  spec_dec_shared osz lsz false tb.
