(* HDF5 File Format Specification 3.0: decoders needed only for files written by the reference library (C06 walker oracle),
   written from the specification like Spec/Format*.v.
     IV.A.2.t  0x0013 B-tree 'K' values message (superblock extension)
     III.G     fractal heap indirect block
     III.A.2   version 2 B-tree internal node *)
From HV Require Import Base.Prelude Base.Outcome Base.Bytes Spec.Parse Spec.Format Spec.FormatNode.

(* ------------------------------------------------------------------ 0x0013 B-tree 'K' values
   version (0) | indexed storage internal node K (2) | group internal node K (2) | group leaf node K (2)
   -> (leaf K, internal K, indexed storage K) *)
Definition spec_dec_btreek (pad_ok : bool) (bs : bytes) : outcome (N * N * N) :=
  '(ver, r) <- p_byte bs;;
  _ <- guard (ver =? 0);;
  '(istoreK, r) <- p_u 2 r;; '(intK, r) <- p_u 2 r;; '(leafK, r) <- p_u 2 r;;
  _ <- guard ((0 <? istoreK) && (0 <? intK) && (0 <? leafK));;
  _ <- guard (match r with [] => true | _ => pad_ok && (length r <? 8)%nat && all_zero r end);;
  Ok (leafK, intK, istoreK).

(* ------------------------------------------------------------------ III.G fractal heap indirect block
   "FHIB" | version (0) | heap header address (O) | block offset (ceil(max heap size / 8) bytes) |
   child direct block addresses: K entries of (address (O) [, filtered size (L), filter mask (4) when the heap is filtered]) |
   child indirect block addresses: N entries of (address (O)) | checksum (4)
   with [nrows] rows of [width] entries; the first [maxdrows] rows hold direct blocks:
     K = min(nrows, maxdrows) * width,  N = (nrows - min(nrows, maxdrows)) * width.
   Unfiltered heaps only.  -> (direct child addresses, indirect child addresses) *)
Definition fhib_sig : bytes := [70; 72; 73; 66].

Definition spec_dec_fhib (osz : nat) (heap_addr : N) (offsz : nat) (hoff : N) (width nrows maxdrows : N) (bs : bytes)
  : outcome (list N * list N * bytes) :=
  '(_, r) <- p_expect fhib_sig bs;;
  '(v, r) <- p_byte r;; _ <- guard (v =? 0);;
  '(ha, r) <- p_u osz r;; _ <- guard (ha =? heap_addr);;
  '(bo, r) <- p_u offsz r;; _ <- guard (bo =? hoff);;
  let drows := N.min nrows maxdrows in
  '(ds, r) <- p_us osz (N.to_nat (drows * width)) r;;
  '(is, r) <- p_us osz (N.to_nat ((nrows - drows) * width)) r;;
  let covered := consumed bs r in
  '(stored, r) <- p_u 4 r;;
  _ <- guard (stored =? spec_checksum covered);;
  Ok (ds, is, r).

(* the doubling table (III.G): rows 0 and 1 hold blocks of the starting block size, every later row doubles it *)
Definition fh_row_size (start row : N) : N := if row <? 2 then start else start * 2 ^ (row - 1).
(* number of rows of direct blocks: log2(max direct size) - log2(start size) + 2 *)
Definition fh_max_drows (start maxdirect : N) : N := N.log2 maxdirect - N.log2 start + 2.

(* ------------------------------------------------------------------ III.A.2 version 2 B-tree internal node
   "BTIN" | version (0) | type (1) | records (nrec) | child pointers (nrec + 1): address (O), number of records in the child
   (variable size [csz]), [total number of records below the child (variable size [tsz]) when depth > 1] | checksum (4)
   -> (records, children as (address, number of records, total)) *)
Definition btin_sig : bytes := [66; 84; 73; 78].

Fixpoint p_bt2children (osz csz tsz : nat) (k : nat) (bs : bytes) : outcome (list (N * N * N) * bytes) :=
  match k with
  | O => Ok ([], bs)
  | S k' =>
      '(a, r) <- p_u osz bs;; '(n, r) <- p_u csz r;; '(t, r) <- p_u tsz r;;
      '(rest, r) <- p_bt2children osz csz tsz k' r;;
      Ok ((a, n, t) :: rest, r)
  end.

Definition spec_dec_bt2internal (tol : tolerance) (osz : nat) (btype : N) (nrec recsize csz tsz : nat) (bs : bytes)
  : outcome (list bytes * list (N * N * N) * list tag) :=
  '(_, r) <- p_expect btin_sig bs;;
  '(v, r) <- p_byte r;; _ <- guard (v =? 0);;
  '(t, r) <- p_byte r;; _ <- guard (t =? btype);;
  '(recs, r) <-
    (fix go (k : nat) (bs : bytes) : outcome (list bytes * bytes) :=
       match k with
       | O => Ok ([], bs)
       | S k' => '(x, r) <- p_take recsize bs;; '(xs, r) <- go k' r;; Ok (x :: xs, r)
       end) nrec r;;
  '(ch, r) <- p_bt2children osz csz tsz (S nrec) r;;
  let covered := consumed bs r in
  '(stored, r) <- p_u 4 r;;
  tg <- check_sum tol T_btree2_crc32 covered stored;;
  Ok (recs, ch, tg).

(* number of bytes that hold values up to [v] (sizes of the child record counts) *)
Definition bytes_for (v : N) : N := if v =? 0 then 1 else N.log2 v / 8 + 1.
(* records that fit a leaf / an internal node of [ns] bytes (10 bytes of prefix and checksum) *)
Definition bt2_leaf_cap (ns rs : N) : N := (ns - 10) / rs.
