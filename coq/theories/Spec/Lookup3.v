(* Bob Jenkins' lookup3.c, function hashlittle(key, length, initval), written from the reference
   source (public domain, May 2006), byte-wise little-endian path (the path taken for keys that are
   not 2- or 4-byte aligned; the aligned paths compute the same value on little-endian machines).

     #define rot(x,k) (((x)<<(k)) | ((x)>>(32-(k))))
     #define mix(a,b,c) {
       a -= c;  a ^= rot(c, 4);  c += b;      b -= a;  b ^= rot(a, 6);  a += c;
       c -= b;  c ^= rot(b, 8);  b += a;      a -= c;  a ^= rot(c,16);  c += b;
       b -= a;  b ^= rot(a,19);  a += c;      c -= b;  c ^= rot(b, 4);  b += a; }
     #define final(a,b,c) {
       c ^= b; c -= rot(b,14);   a ^= c; a -= rot(c,11);   b ^= a; b -= rot(a,25);
       c ^= b; c -= rot(b,16);   a ^= c; a -= rot(c,4);    b ^= a; b -= rot(a,14);
       c ^= b; c -= rot(b,24); }

     a = b = c = 0xdeadbeef + ((uint32_t)length) + initval;
     while (length > 12) {
       a += k[0]; a += ((uint32_t)k[1])<<8; a += ((uint32_t)k[2])<<16; a += ((uint32_t)k[3])<<24;
       b += k[4]; ... b += ((uint32_t)k[7])<<24;
       c += k[8]; ... c += ((uint32_t)k[11])<<24;
       mix(a,b,c); length -= 12; k += 12;
     }
     switch(length) {            /* all the case statements fall through */
       case 12: c+=((uint32_t)k[11])<<24;   case 11: c+=((uint32_t)k[10])<<16;
       case 10: c+=((uint32_t)k[9])<<8;     case 9 : c+=k[8];
       case 8 : b+=((uint32_t)k[7])<<24;    case 7 : b+=((uint32_t)k[6])<<16;
       case 6 : b+=((uint32_t)k[5])<<8;     case 5 : b+=k[4];
       case 4 : a+=((uint32_t)k[3])<<24;    case 3 : a+=((uint32_t)k[2])<<16;
       case 2 : a+=((uint32_t)k[1])<<8;     case 1 : a+=k[0]; break;
       case 0 : return c;
     }
     final(a,b,c); return c;

   The HDF5 name hash (H5_checksum_lookup3 / H5_hash_string users) is hashlittle with initval 0. *)
From HV Require Import Base.Prelude.

Definition rot (x k : N) : N := rotl32 x k.
Definition add32 (a b : N) : N := wrap32 (a + b).
(* ((uint32_t)k[i]) << n *)
Definition shl32 (b n : N) : N := wrap32 (N.shiftl b n).

Definition mix (a b c : N) : N * N * N :=
  let a := sub32 a c in let a := N.lxor a (rot c 4)  in let c := add32 c b in
  let b := sub32 b a in let b := N.lxor b (rot a 6)  in let a := add32 a c in
  let c := sub32 c b in let c := N.lxor c (rot b 8)  in let b := add32 b a in
  let a := sub32 a c in let a := N.lxor a (rot c 16) in let c := add32 c b in
  let b := sub32 b a in let b := N.lxor b (rot a 19) in let a := add32 a c in
  let c := sub32 c b in let c := N.lxor c (rot b 4)  in let b := add32 b a in
  (a, b, c).

Definition final (a b c : N) : N * N * N :=
  let c := N.lxor c b in let c := sub32 c (rot b 14) in
  let a := N.lxor a c in let a := sub32 a (rot c 11) in
  let b := N.lxor b a in let b := sub32 b (rot a 25) in
  let c := N.lxor c b in let c := sub32 c (rot b 16) in
  let a := N.lxor a c in let a := sub32 a (rot c 4)  in
  let b := N.lxor b a in let b := sub32 b (rot a 14) in
  let c := N.lxor c b in let c := sub32 c (rot b 24) in
  (a, b, c).

(* k[i] for the current position of the pointer k (k is the remaining input) *)
Definition kb (k : bytes) (i : nat) : N := nth i k 0.

(* while (length > 12) { ...; length -= 12; k += 12; }   -- fuel: one unit per iteration *)
Fixpoint hl_blocks (fuel : nat) (k : bytes) (a b c : N) : bytes * N * N * N :=
  match fuel with
  | O => (k, a, b, c)
  | S fuel' =>
    if (12 <? List.length k)%nat then
      let a := add32 a (kb k 0) in let a := add32 a (shl32 (kb k 1) 8) in
      let a := add32 a (shl32 (kb k 2) 16) in let a := add32 a (shl32 (kb k 3) 24) in
      let b := add32 b (kb k 4) in let b := add32 b (shl32 (kb k 5) 8) in
      let b := add32 b (shl32 (kb k 6) 16) in let b := add32 b (shl32 (kb k 7) 24) in
      let c := add32 c (kb k 8) in let c := add32 c (shl32 (kb k 9) 8) in
      let c := add32 c (shl32 (kb k 10) 16) in let c := add32 c (shl32 (kb k 11) 24) in
      let '(a, b, c) := mix a b c in
      hl_blocks fuel' (skipn 12 k) a b c
    else (k, a, b, c)
  end.

(* the switch for 1 <= length <= 12: `case j` and everything below it is executed iff length >= j *)
Definition hl_tail (k : bytes) (a b c : N) : N * N * N :=
  let n := List.length k in
  let c := if (12 <=? n)%nat then add32 c (shl32 (kb k 11) 24) else c in
  let c := if (11 <=? n)%nat then add32 c (shl32 (kb k 10) 16) else c in
  let c := if (10 <=? n)%nat then add32 c (shl32 (kb k 9) 8) else c in
  let c := if (9 <=? n)%nat then add32 c (kb k 8) else c in
  let b := if (8 <=? n)%nat then add32 b (shl32 (kb k 7) 24) else b in
  let b := if (7 <=? n)%nat then add32 b (shl32 (kb k 6) 16) else b in
  let b := if (6 <=? n)%nat then add32 b (shl32 (kb k 5) 8) else b in
  let b := if (5 <=? n)%nat then add32 b (kb k 4) else b in
  let a := if (4 <=? n)%nat then add32 a (shl32 (kb k 3) 24) else a in
  let a := if (3 <=? n)%nat then add32 a (shl32 (kb k 2) 16) else a in
  let a := if (2 <=? n)%nat then add32 a (shl32 (kb k 1) 8) else a in
  let a := if (1 <=? n)%nat then add32 a (kb k 0) else a in
  (a, b, c).

Definition hashlittle (key : bytes) (initval : N) : N :=
  let length := List.length key in
  let i := add32 (add32 3735928559 (wrap32 (N.of_nat length))) initval in
  let '(k, a, b, c) := hl_blocks length key i i i in
  match k with
  | [] => c                                             (* case 0: return c *)
  | _ => let '(a, b, c) := hl_tail k a b c in
         let '(_, _, c) := final a b c in c
  end.

(* Self-test values published in lookup3.c (driver5) and the values every HDF5 file relies on. *)
Definition ascii_bytes (s : string) : bytes := map N_of_ascii (list_ascii_of_string s).

Example lookup3_empty_0 : hashlittle [] 0 = 3735928559.                       (* 0xdeadbeef *)
Proof. vm_compute. reflexivity. Qed.
Example lookup3_empty_deadbeef : hashlittle [] 3735928559 = 3176889822.       (* 0xbd5b7dde *)
Proof. vm_compute. reflexivity. Qed.
Example lookup3_four_score_0 :
  hashlittle (ascii_bytes "Four score and seven years ago") 0 = 393676113.    (* 0x17770551 *)
Proof. vm_compute. reflexivity. Qed.
Example lookup3_four_score_1 :
  hashlittle (ascii_bytes "Four score and seven years ago") 1 = 3445784929.   (* 0xcd628161 *)
Proof. vm_compute. reflexivity. Qed.
