(* HDF5 File Format Specification 3.0, IV.A.2 "Disk Format: Level 2A2 - Data Object Header Messages", as executable
   STRICT decoders of the message bodies:
     0x0001 dataspace (v1, v2)          0x0003 datatype (classes 0-10, versions 1-3)
     0x0005 fill value (v1-v3)          0x0006 link                0x0002 link info
     0x0008 data layout (v3)            0x000B filter pipeline (v1, v2)
     0x000C attribute (v1-v3)           0x0015 attribute info      0x0011 symbol table
     0x0016 object reference count      0x0012 object modification time     0x0010 continuation
   Written from the specification; [osz]/[lsz] are the superblock's "size of offsets" / "size of lengths".
   A message body must be consumed exactly; in version 1 object headers message data is padded with zero bytes to a
   multiple of 8 ([pad_ok]). *)
From HV Require Import Base.Prelude Base.Outcome Base.Bytes Spec.Parse.

(* nothing left; with [pad_ok] fewer than 8 zero bytes may remain *)
Definition p_end (pad_ok : bool) (r : bytes) : outcome unit :=
  match r with
  | [] => Ok tt
  | _ => guard (pad_ok && (length r <? 8)%nat && all_zero r)
  end.

(* ------------------------------------------------------------------ 0x0001 dataspace
   v1: version | dimensionality | flags | reserved (1) | reserved (4) | dims (L each) | [max dims] | [permutation: never
       implemented, flag bit 1 must not be set]
   v2: version | dimensionality | flags | type (0 scalar, 1 simple, 2 null) | dims | [max dims] *)
Record dataspace_spec := { dss_version : N; dss_type : N; dss_dims : list N; dss_maxdims : option (list N) }.

Definition forall2b {A} (f : A -> A -> bool) :=
  fix go (a b : list A) : bool :=
    match a, b with
    | [], [] => true
    | x :: a', y :: b' => f x y && go a' b'
    | _, _ => false
    end.

Definition spec_dec_dataspace (lsz : nat) (pad_ok : bool) (bs : bytes) : outcome dataspace_spec :=
  '(ver, r) <- p_byte bs;;
  '(rank, r) <- p_byte r;;
  '(fl, r) <- p_byte r;;
  _ <- guard (fl <? 2);;                                       (* bit 0: maximum dimensions present; others reserved / unsupported *)
  '(kind, r) <- (if ver =? 1 then '(_, r) <- p_zeros 5 r;; Ok (if rank =? 0 then 0 else 1, r)
                 else if ver =? 2 then '(k, r) <- p_byte r;; _ <- guard (k <? 3);; Ok (k, r)
                 else Err);;
  _ <- guard (if kind =? 1 then true else rank =? 0);;
  '(dims, r) <- p_us lsz (N.to_nat rank) r;;
  '(maxd, r) <- (if fl =? 1 then '(m, r) <- p_us lsz (N.to_nat rank) r;; Ok (Some m, r) else Ok (None, r));;
  _ <- guard (match maxd with Some m => forall2b (fun d x => d <=? x) dims m | None => true end);;
  _ <- p_end pad_ok r;;
  Ok {| dss_version := ver; dss_type := kind; dss_dims := dims; dss_maxdims := maxd |}.

(* ------------------------------------------------------------------ 0x0003 datatype *)
Inductive dtype : Type :=
| DFixed (ver size order lopad hipad : N) (signed : bool) (bit_off prec : N)
| DFloat (ver size order pads norm sign_loc bit_off prec exp_loc exp_size man_loc man_size bias : N)
| DTime (ver size order prec : N)
| DString (ver size pad cset : N)
| DBitfield (ver size order lopad hipad bit_off prec : N)
| DOpaque (ver size : N) (tagbytes : bytes)
| DCompound (ver size : N) (members : list (bytes * N * dtype))
| DReference (ver size rtype : N)
| DEnum (ver size : N) (base : dtype) (members : list (bytes * bytes))
| DVlen (ver size vtype pad cset : N) (base : dtype)
| DArray (ver size : N) (dims : list N) (base : dtype).

Definition dtype_size (t : dtype) : N :=
  match t with
  | DFixed _ s _ _ _ _ _ _ | DFloat _ s _ _ _ _ _ _ _ _ _ _ _ | DTime _ s _ _ | DString _ s _ _
  | DBitfield _ s _ _ _ _ _ | DOpaque _ s _ | DCompound _ s _ | DReference _ s _ | DEnum _ s _ _
  | DVlen _ s _ _ _ _ | DArray _ s _ _ => s
  end.
Definition dtype_class (t : dtype) : N :=
  match t with
  | DFixed _ _ _ _ _ _ _ _ => 0 | DFloat _ _ _ _ _ _ _ _ _ _ _ _ _ => 1 | DTime _ _ _ _ => 2 | DString _ _ _ _ => 3
  | DBitfield _ _ _ _ _ _ _ => 4 | DOpaque _ _ _ => 5 | DCompound _ _ _ => 6 | DReference _ _ _ => 7
  | DEnum _ _ _ _ => 8 | DVlen _ _ _ _ _ _ => 9 | DArray _ _ _ _ => 10
  end.

Definition bit (v : N) (i : N) : N := if N.testbit v i then 1 else 0.
Definition bits_of (v lo n : N) : N := N.land (N.shiftr v lo) (N.ones n).

(* number of bytes needed to store values up to [v] (compound v3 member offsets) *)
Definition bytes_needed (v : N) : nat :=
  if v <? 256 then 1 else if v <? 65536 then 2 else if v <? 16777216 then 3 else 4.

(* the bit fields of a floating-point number lie inside the precision and do not overlap *)
Definition float_fields_ok (size bit_off prec exp_loc exp_size man_loc man_size sign_loc : N) : bool :=
  (0 <? prec) && (bit_off + prec <=? 8 * size) && (0 <? exp_size) && (0 <? man_size) &&
  (exp_loc + exp_size <=? prec) && (man_loc + man_size <=? prec) && (sign_loc <? prec) &&
  ((man_loc + man_size <=? exp_loc) || (exp_loc + exp_size <=? man_loc)) &&
  negb ((exp_loc <=? sign_loc) && (sign_loc <? exp_loc + exp_size)) &&
  negb ((man_loc <=? sign_loc) && (sign_loc <? man_loc + man_size)).

(* k members of an enumeration: names (NUL-terminated; versions 1 and 2 pad each to a multiple of 8 bytes), then k values of
   the base type's size *)
Fixpoint p_enum_names (ver : N) (k : nat) (bs : bytes) : outcome (list bytes * bytes) :=
  match k with
  | O => Ok ([], bs)
  | S k' =>
      '(nm, r) <- p_cstr bs;;
      _ <- guard (negb (length nm =? 0)%nat);;
      '(_, r) <- (if ver <? 3 then p_zeros (N.to_nat (up8 (blen nm + 1) - (blen nm + 1))) r else Ok (tt, r));;
      '(rest, r) <- p_enum_names ver k' r;;
      Ok (nm :: rest, r)
  end.
Fixpoint p_chunks (n : nat) (k : nat) (bs : bytes) : outcome (list bytes * bytes) :=
  match k with
  | O => Ok ([], bs)
  | S k' => '(v, r) <- p_take n bs;; '(vs, r) <- p_chunks n k' r;; Ok (v :: vs, r)
  end.

(* Datatype: class and version (1: low nibble class, high nibble version) | class bit field (3) | size (4) | properties.
   Returns the type, the deviations tolerated, and the bytes after the description.
   [fuel] bounds the nesting depth (every nested description is strictly shorter). *)
Fixpoint p_dtype (tol : tolerance) (pad_ok : bool) (fuel : nat) (bs : bytes) : outcome (dtype * list tag * bytes) :=
  match fuel with
  | O => Err
  | S fuel' =>
    '(cv, r) <- p_byte bs;;
    '(bits, r) <- p_u 3 r;;
    '(size, r) <- p_u 4 r;;
    let cls := N.land cv 15 in
    let ver := N.shiftr cv 4 in
    _ <- guard ((1 <=? ver) && (ver <=? 3));;
    _ <- guard (0 <? size);;
    if cls =? 0 then
      (* bits: 0 byte order, 1 low padding, 2 high padding, 3 signed; 4-23 reserved.  properties: bit offset (2), precision (2) *)
      _ <- guard (bits <? 16);;
      '(off, r2) <- p_u 2 r;;
      '(prec, r2) <- p_u 2 r2;;
      if (0 <? prec) && (off + prec <=? 8 * size) then
        Ok (DFixed ver size (bit bits 0) (bit bits 1) (bit bits 2) (N.testbit bits 3) off prec, [], r2)
      else
        (* listed deviation: the property bytes are (byte order, 8*size, 0, 0) *)
        '(p, r2) <- p_take 4 r;;
        _ <- guard (bytes_eqb p [bit bits 0; (8 * size) mod 256; 0; 0] && (size <? 32));;
        tg <- dev tol T_fixed_props_malformed;;
        Ok (DFixed ver size (bit bits 0) (bit bits 1) (bit bits 2) (N.testbit bits 3) 0 (8 * size), tg, r2)
    else if cls =? 1 then
      (* bits: 0 and 6 byte order, 1-3 padding, 4-5 mantissa normalisation, 7 reserved, 8-15 sign location, 16-23 reserved.
         properties: bit offset (2), precision (2), exponent location, exponent size, mantissa location, mantissa size (1 each),
         exponent bias (4) *)
      _ <- guard ((bits_of bits 7 1 =? 0) && (bits_of bits 16 8 =? 0));;
      let norm := bits_of bits 4 2 in
      let sign := bits_of bits 8 8 in
      '(off, r2) <- p_u 2 r;; '(prec, r2) <- p_u 2 r2;;
      '(eloc, r2) <- p_byte r2;; '(esz, r2) <- p_byte r2;; '(mloc, r2) <- p_byte r2;; '(msz, r2) <- p_byte r2;;
      '(bias, r2) <- p_u 4 r2;;
      if (norm <? 3) && float_fields_ok size off prec eloc esz mloc msz sign then
        Ok (DFloat ver size (bit bits 0 + 2 * bit bits 6) (bits_of bits 1 3) norm sign off prec eloc esz mloc msz bias, [], r2)
      else
        (* listed deviation: class bits 0 except the byte order; property bytes (byte order, 8*size, 0, exponent bits, mantissa
           bits, bias, 0 x 6) for IEEE binary32 / binary64; binary64 with bias 127 is a second listed deviation *)
        '(p, r2) <- p_take 12 r;;
        _ <- guard (bits <? 2);;
        tg1 <- dev tol T_float_props_malformed;;
        if (size =? 4) && bytes_eqb p [bits; 32; 0; 8; 23; 127; 0; 0; 0; 0; 0; 0] then
          Ok (DFloat ver 4 bits 0 2 31 0 32 23 8 0 23 127, tg1, r2)
        else if (size =? 8) && bytes_eqb p [bits; 64; 0; 11; 52; 127; 0; 0; 0; 0; 0; 0] then
          tg2 <- dev tol T_float64_bias_127;;
          Ok (DFloat ver 8 bits 0 2 63 0 64 52 11 0 52 1023, tg1 ++ tg2, r2)
        else Err
    else if cls =? 2 then
      (* bits: 0 byte order; properties: bit precision (2) *)
      _ <- guard (bits <? 2);;
      '(prec, r2) <- p_u 2 r;;
      _ <- guard ((0 <? prec) && (prec <=? 8 * size));;
      Ok (DTime ver size bits prec, [], r2)
    else if cls =? 3 then
      (* bits: 0-3 padding type (0 null terminate, 1 null pad, 2 space pad), 4-7 character set (0 ASCII, 1 UTF-8); no properties *)
      let pad := bits_of bits 0 4 in let cset := bits_of bits 4 4 in
      _ <- guard ((pad <? 3) && (cset <? 2) && (bits <? 256));;
      (* listed deviation: one extra zero byte follows as the last byte of the description *)
      match r with
      | [0] => if pad_ok then Ok (DString ver size pad cset, [], r)
               else tg <- dev tol T_string_extra_prop_byte;; Ok (DString ver size pad cset, tg, [])
      | _ => Ok (DString ver size pad cset, [], r)
      end
    else if cls =? 4 then
      _ <- guard (bits <? 8);;
      '(off, r2) <- p_u 2 r;; '(prec, r2) <- p_u 2 r2;;
      _ <- guard ((0 <? prec) && (off + prec <=? 8 * size));;
      Ok (DBitfield ver size (bit bits 0) (bit bits 1) (bit bits 2) off prec, [], r2)
    else if cls =? 5 then
      (* bits: 0-7 length of the ASCII tag, a multiple of 8; properties: the tag, NUL-padded *)
      _ <- guard ((bits <? 256) && (bits mod 8 =? 0));;
      '(tg, r2) <- p_take (N.to_nat bits) r;;
      Ok (DOpaque ver size tg, [], r2)
    else if cls =? 6 then
      (* bits: 0-15 number of members.  member: name (NUL-terminated; v1, v2: padded to a multiple of 8), byte offset (v1, v2: 4
         bytes; v3: as many bytes as the datatype size needs), [v1: dimensionality (1), reserved (3), dimension permutation (4),
         reserved (4), four dimension sizes (4 each)], member datatype *)
      _ <- guard (bits <? 65536);;
      let members :=
        (fix members (ow : nat) (k : nat) (r : bytes) : outcome (list (bytes * N * dtype) * list tag * bytes) :=
           match k with
           | O => Ok ([], [], r)
           | S k' =>
               '(nm, r) <- p_cstr r;;
               _ <- guard (negb (length nm =? 0)%nat);;
               '(_, r) <- (if ver <? 3 then p_zeros (N.to_nat (up8 (blen nm + 1) - (blen nm + 1))) r else Ok (tt, r));;
               '(off, r) <- p_u ow r;;
               '(_, r) <- (if ver =? 1 then
                             '(nd, r) <- p_byte r;; _ <- guard (nd <=? 4);;
                             '(_, r) <- p_zeros 3 r;; '(_, r) <- p_take 4 r;; '(_, r) <- p_zeros 4 r;;
                             '(_, r) <- p_take 16 r;; Ok (tt, r)
                           else Ok (tt, r));;
               '(t, tg1, r) <- p_dtype tol pad_ok fuel' r;;
               _ <- guard (off + dtype_size t <=? size);;
               '(rest, tg2, r) <- members ow k' r;;
               Ok ((nm, off, t) :: rest, tg1 ++ tg2, r)
           end) in
      '(ms, tg, r2) <-
        (if (ver =? 3) && (bits =? 0) then
           (* deviation (proposed listing): class bits 0, the number of members as a 4-byte field in front of the member list,
              and 4-byte member offsets whatever the datatype size *)
           tg0 <- dev tol T_compound_v3_layout;;
           '(n, r) <- p_u 4 r;;
           _ <- guard ((0 <? n) && (n <? 65536));;
           '(ms, tg, r2) <- members 4%nat (N.to_nat n) r;;
           Ok (ms, tg0 ++ tg, r2)
         else
           _ <- guard (0 <? bits);;
           members (if ver =? 3 then bytes_needed size else 4%nat) (N.to_nat bits) r);;
      Ok (DCompound ver size ms, tg, r2)
    else if cls =? 7 then
      (* bits: 0-3 type (0 object reference, 1 dataset region reference; since format revision of library 1.12: 2 object reference,
         3 dataset region reference, 4 attribute reference of the revised encoding), 4-7 version of the revised reference encoding;
         no properties *)
      _ <- guard ((bits <? 2) || ((bits_of bits 0 4 <? 5) && (bits <? 256)));;
      Ok (DReference ver size bits, [], r)
    else if cls =? 8 then
      (* bits: 0-15 number of members; properties: base type, names, values *)
      _ <- guard (bits <? 65536);;
      '(base, tg, r2) <- p_dtype tol pad_ok fuel' r;;
      _ <- guard (dtype_size base =? size);;
      match ('(names, r3) <- p_enum_names ver (N.to_nat bits) r2;;
             '(vals, r3) <- p_chunks (N.to_nat size) (N.to_nat bits) r3;;
             Ok (names, vals, r3)) with
      | Ok (names, vals, r3) => Ok (DEnum ver size base (combine names vals), tg, r3)
      | _ =>
          (* deviation (proposed listing): version 3 members stored as (name, padded to a multiple of 8 bytes; value) pairs instead of
             all names (unpadded) followed by all values *)
          _ <- guard (ver =? 3);;
          '(ms, r3) <-
            (fix go (k : nat) (r : bytes) : outcome (list (bytes * bytes) * bytes) :=
               match k with
               | O => Ok ([], r)
               | S k' =>
                   '(nm, r) <- p_cstr r;;
                   _ <- guard (negb (length nm =? 0)%nat);;
                   '(_, r) <- p_zeros (N.to_nat (up8 (blen nm + 1) - (blen nm + 1))) r;;
                   '(v, r) <- p_take (N.to_nat size) r;;
                   '(rest, r) <- go k' r;;
                   Ok ((nm, v) :: rest, r)
               end) (N.to_nat bits) r2;;
          tg0 <- dev tol T_enum_v3_layout;;
          Ok (DEnum ver size base ms, tg ++ tg0, r3)
      end
    else if cls =? 9 then
      (* bits: 0-3 type (0 sequence, 1 string), 4-7 padding type, 8-11 character set; properties: base type *)
      let vt := bits_of bits 0 4 in let pad := bits_of bits 4 4 in let cset := bits_of bits 8 4 in
      _ <- guard ((vt <? 2) && (pad <? 3) && (cset <? 2) && (bits <? 4096));;
      '(base, tg, r2) <- p_dtype tol pad_ok fuel' r;;
      Ok (DVlen ver size vt pad cset base, tg, r2)
    else if cls =? 10 then
      (* v2: dimensionality (1), reserved (3), dimension sizes (4 each), permutation indices (4 each), base type
         v3: dimensionality (1), dimension sizes (4 each), base type.   (arrays do not exist in version 1) *)
      _ <- guard ((bits =? 0) && (2 <=? ver));;
      '(nd, r2) <- p_byte r;;
      _ <- guard ((0 <? nd) && (nd <=? 32));;
      '(_, r2) <- (if ver =? 2 then p_zeros 3 r2 else Ok (tt, r2));;
      '(dims, r2) <- p_us 4 (N.to_nat nd) r2;;
      '(_, r2) <- (if ver =? 2 then p_take (4 * N.to_nat nd) r2 else Ok ([], r2));;
      '(base, tg, r2) <- p_dtype tol pad_ok fuel' r2;;
      _ <- guard (fold_left N.mul dims (dtype_size base) =? size);;
      Ok (DArray ver size dims base, tg, r2)
    else Err
  end.

Definition spec_dec_datatype (tol : tolerance) (pad_ok : bool) (bs : bytes) : outcome (dtype * list tag) :=
  '(t, tg, r) <- p_dtype tol pad_ok (S (length bs)) bs;;
  _ <- p_end pad_ok r;;
  Ok (t, tg).

(* ------------------------------------------------------------------ 0x0005 fill value
   v1, v2: version | space allocation time (1-3) | fill value write time (0-2) | fill value defined (0/1) |
           [v1, or v2 with defined = 1: size (4) | fill value]
   v3:     version | flags (bits 0-1 allocation time, 2-3 write time, 4 undefined, 5 defined, 6-7 reserved) | [defined: size (4), value] *)
Record fillvalue_spec := { fv_version : N; fv_alloc : N; fv_wtime : N; fv_defined : bool; fv_value : bytes }.

Definition spec_dec_fillvalue (pad_ok : bool) (bs : bytes) : outcome fillvalue_spec :=
  '(ver, r) <- p_byte bs;;
  if (ver =? 1) || (ver =? 2) then
    '(al, r) <- p_byte r;; '(wt, r) <- p_byte r;; '(df, r) <- p_byte r;;
    _ <- guard ((1 <=? al) && (al <=? 3) && (wt <=? 2) && (df <=? 1));;
    if (ver =? 1) || (df =? 1) then
      '(sz, r) <- p_u 4 r;; '(v, r) <- p_take (N.to_nat sz) r;; _ <- p_end pad_ok r;;
      Ok {| fv_version := ver; fv_alloc := al; fv_wtime := wt; fv_defined := df =? 1; fv_value := v |}
    else
      _ <- p_end pad_ok r;;
      Ok {| fv_version := ver; fv_alloc := al; fv_wtime := wt; fv_defined := false; fv_value := [] |}
  else if ver =? 3 then
    '(fl, r) <- p_byte r;;
    _ <- guard ((fl <? 64) && negb (N.testbit fl 4 && N.testbit fl 5));;
    let al := bits_of fl 0 2 in let wt := bits_of fl 2 2 in
    _ <- guard ((1 <=? al) && (wt <=? 2));;
    if N.testbit fl 5 then
      '(sz, r) <- p_u 4 r;; '(v, r) <- p_take (N.to_nat sz) r;; _ <- p_end pad_ok r;;
      Ok {| fv_version := 3; fv_alloc := al; fv_wtime := wt; fv_defined := true; fv_value := v |}
    else
      _ <- p_end pad_ok r;;
      Ok {| fv_version := 3; fv_alloc := al; fv_wtime := wt; fv_defined := false; fv_value := [] |}
  else Err.

(* ------------------------------------------------------------------ 0x0008 data layout, version 3
   version (3) | layout class (0 compact, 1 contiguous, 2 chunked) |
   compact:    size (2) | raw data
   contiguous: address (O) | size (L)
   chunked:    dimensionality (= dataset rank + 1) | B-tree address (O) | dimension sizes (4 each; the last is the element size) *)
Inductive layout_spec :=
| LyCompact (data : bytes)
| LyContiguous (addr size : N)
| LyChunked (addr : N) (dims : list N).

Definition spec_dec_layout (osz lsz : nat) (pad_ok : bool) (bs : bytes) : outcome layout_spec :=
  '(ver, r) <- p_byte bs;;
  _ <- guard (ver =? 3);;
  '(cls, r) <- p_byte r;;
  if cls =? 0 then
    '(sz, r) <- p_u 2 r;; '(d, r) <- p_take (N.to_nat sz) r;; _ <- p_end pad_ok r;; Ok (LyCompact d)
  else if cls =? 1 then
    '(a, r) <- p_u osz r;; '(s, r) <- p_u lsz r;; _ <- p_end pad_ok r;; Ok (LyContiguous a s)
  else if cls =? 2 then
    '(nd, r) <- p_byte r;;
    _ <- guard (0 <? nd);;
    '(a, r) <- p_u osz r;;
    '(dims, r) <- p_us 4 (N.to_nat nd) r;;
    _ <- guard (forallb (fun d => 0 <? d) dims);;
    _ <- p_end pad_ok r;;
    Ok (LyChunked a dims)
  else Err.

(* ------------------------------------------------------------------ 0x000B filter pipeline
   v1: version | number of filters | reserved (2) | reserved (4) | filters
       filter: id (2) | name length (2, a multiple of 8, 0 = none) | flags (2) | number of client data values (2) |
               name | client data (4 each) | padding (4, iff the number of values is odd)
   v2: version | number of filters | filters
       filter: id (2) | [id >= 256: name length (2)] | flags (2) | number of values (2) | [id >= 256: name] | client data *)
Record filter_spec := { fl_id : N; fl_flags : N; fl_name : bytes; fl_cd : list N }.

Fixpoint p_filters (v1layout : bool) (k : nat) (bs : bytes) : outcome (list filter_spec * bytes) :=
  match k with
  | O => Ok ([], bs)
  | S k' =>
      '(id, r) <- p_u 2 bs;;
      '(nl, r) <- (if v1layout || (256 <=? id) then p_u 2 r else Ok (0, r));;
      _ <- guard (if v1layout then nl mod 8 =? 0 else true);;
      '(fl, r) <- p_u 2 r;;
      _ <- guard (fl <? 2);;                                  (* bit 0: optional filter; bits 1-15 reserved *)
      '(ncd, r) <- p_u 2 r;;
      '(nm, r) <- p_take (N.to_nat nl) r;;
      '(cd, r) <- p_us 4 (N.to_nat ncd) r;;
      '(_, r) <- (if v1layout && N.odd ncd then p_zeros 4 r else Ok (tt, r));;
      '(rest, r) <- p_filters v1layout k' r;;
      Ok ({| fl_id := id; fl_flags := fl; fl_name := nm; fl_cd := cd |} :: rest, r)
  end.

Definition spec_dec_pipeline (tol : tolerance) (pad_ok : bool) (bs : bytes) : outcome (list filter_spec * list tag) :=
  '(ver, r) <- p_byte bs;;
  '(n, r) <- p_byte r;;
  _ <- guard ((0 <? n) && (n <=? 32));;
  if ver =? 1 then
    '(_, r) <- p_zeros 6 r;;
    '(fs, r) <- p_filters true (N.to_nat n) r;;
    _ <- p_end pad_ok r;;
    Ok (fs, [])
  else if ver =? 2 then
    match (x <- p_filters false (N.to_nat n) r;; _ <- p_end pad_ok (snd x);; Ok (fst x)) with
    | Ok fs => Ok (fs, [])
    | _ =>
        (* listed deviation: version byte 2, then the version-1 layout (6 reserved bytes; name length field and 8-byte padded
           name for every filter; no padding after an odd number of client data values) *)
        '(_, r) <- p_zeros 6 r;;
        '(fs, r) <-
          (fix go (k : nat) (bs : bytes) : outcome (list filter_spec * bytes) :=
             match k with
             | O => Ok ([], bs)
             | S k' =>
                 '(id, r) <- p_u 2 bs;; '(nl, r) <- p_u 2 r;; '(fl, r) <- p_u 2 r;; _ <- guard (fl <? 2);;
                 '(ncd, r) <- p_u 2 r;;
                 '(nm, r) <- p_take (N.to_nat nl) r;;
                 '(_, r) <- p_zeros (N.to_nat (up8 nl - nl)) r;;
                 '(cd, r) <- p_us 4 (N.to_nat ncd) r;;
                 '(rest, r) <- go k' r;;
                 Ok ({| fl_id := id; fl_flags := fl; fl_name := nm; fl_cd := cd |} :: rest, r)
             end) (N.to_nat n) r;;
        _ <- p_end pad_ok r;;
        tg <- dev tol T_pipeline_v2_with_v1_layout;;
        Ok (fs, tg)
    end
  else Err.

(* ------------------------------------------------------------------ 0x000C attribute
   v1: version | reserved (1) | name size (2) | datatype size (2) | dataspace size (2) | name | datatype | dataspace | data
       (name, datatype and dataspace each padded to a multiple of 8 bytes)
   v2: version | flags (bit 0 shared datatype, bit 1 shared dataspace) | sizes | name | datatype | dataspace | data   (no padding)
   v3: as v2 with the name's character set encoding (1 byte: 0 ASCII, 1 UTF-8) after the sizes
   The name size includes the NUL terminator. *)
Record attribute_spec := { as_version : N; as_cset : N; as_name : bytes; as_dtype : dtype; as_space : dataspace_spec;
                           as_data : bytes }.

Definition nelem (s : dataspace_spec) : N :=
  if dss_type s =? 2 then 0 else fold_left N.mul (dss_dims s) 1.

Definition spec_dec_attribute (tol : tolerance) (lsz : nat) (pad_ok : bool) (bs : bytes)
  : outcome (attribute_spec * list tag) :=
  '(ver, r) <- p_byte bs;;
  _ <- guard ((1 <=? ver) && (ver <=? 3));;
  '(fl, r) <- p_byte r;;
  _ <- guard (fl =? 0);;                       (* v1: reserved; v2, v3: shared datatype / dataspace are not decoded here *)
  '(ns, r) <- p_u 2 r;; '(ts, r) <- p_u 2 r;; '(ss, r) <- p_u 2 r;;
  '(cset, r) <- (if ver =? 3 then '(c, r) <- p_byte r;; _ <- guard (c <? 2);; Ok (c, r) else Ok (0, r));;
  let padn (n : N) : nat := if ver =? 1 then N.to_nat (up8 n - n) else 0%nat in
  '(nameb, r) <- p_take (N.to_nat ns) r;;
  '(_, r) <- p_zeros (padn ns) r;;
  '(name, z) <- p_cstr nameb;;
  _ <- guard ((length z =? 0)%nat && negb (length name =? 0)%nat);;
  '(tb, r) <- p_take (N.to_nat ts) r;;
  '(_, r) <- p_zeros (padn ts) r;;
  '(t, tg) <- spec_dec_datatype tol (ver =? 1) tb;;
  '(sb, r) <- p_take (N.to_nat ss) r;;
  '(_, r) <- p_zeros (padn ss) r;;
  sp <- spec_dec_dataspace lsz (ver =? 1) sb;;
  '(data, r) <- p_take (N.to_nat (nelem sp * dtype_size t)) r;;
  _ <- p_end pad_ok r;;
  Ok ({| as_version := ver; as_cset := cset; as_name := name; as_dtype := t; as_space := sp; as_data := data |}, tg).

(* ------------------------------------------------------------------ 0x0015 attribute info
   version (0) | flags (bit 0 track creation order, bit 1 index creation order) | [bit 0: maximum creation index (2)] |
   fractal heap address (O) | name B-tree address (O) | [bit 1: creation order B-tree address (O)] *)
Record attrinfo_spec := { ais_flags : N; ais_maxcidx : option N; ais_heap : N; ais_btname : N; ais_btorder : option N }.

Definition spec_dec_attrinfo (osz : nat) (pad_ok : bool) (bs : bytes) : outcome attrinfo_spec :=
  '(ver, r) <- p_byte bs;;
  _ <- guard (ver =? 0);;
  '(fl, r) <- p_byte r;;
  _ <- guard (fl <? 4);;
  '(mc, r) <- (if N.testbit fl 0 then '(m, r) <- p_u 2 r;; Ok (Some m, r) else Ok (None, r));;
  '(hp, r) <- p_u osz r;;
  '(bt, r) <- p_u osz r;;
  '(bo, r) <- (if N.testbit fl 1 then '(b, r) <- p_u osz r;; Ok (Some b, r) else Ok (None, r));;
  _ <- p_end pad_ok r;;
  Ok {| ais_flags := fl; ais_maxcidx := mc; ais_heap := hp; ais_btname := bt; ais_btorder := bo |}.

(* ------------------------------------------------------------------ 0x0002 link info
   version (0) | flags (bit 0 track, bit 1 index creation order) | [bit 0: maximum creation index (8)] |
   fractal heap address (O) | name index B-tree address (O) | [bit 1: creation order index B-tree address (O)] *)
Record linkinfo_spec := { lis_flags : N; lis_maxcidx : option N; lis_heap : N; lis_btname : N; lis_btorder : option N }.

Definition spec_dec_linkinfo (osz : nat) (pad_ok : bool) (bs : bytes) : outcome linkinfo_spec :=
  '(ver, r) <- p_byte bs;;
  _ <- guard (ver =? 0);;
  '(fl, r) <- p_byte r;;
  _ <- guard (fl <? 4);;
  '(mc, r) <- (if N.testbit fl 0 then '(m, r) <- p_u 8 r;; Ok (Some m, r) else Ok (None, r));;
  '(hp, r) <- p_u osz r;;
  '(bt, r) <- p_u osz r;;
  '(bo, r) <- (if N.testbit fl 1 then '(b, r) <- p_u osz r;; Ok (Some b, r) else Ok (None, r));;
  _ <- p_end pad_ok r;;
  Ok {| lis_flags := fl; lis_maxcidx := mc; lis_heap := hp; lis_btname := bt; lis_btorder := bo |}.

(* ------------------------------------------------------------------ 0x0006 link
   version (1) | flags (bits 0-1 size of the length-of-name field, 2 creation order present, 3 link type present,
   4 character set present, 5-7 reserved) | [link type: 0 hard, 1 soft, 64 external] | [creation order (8)] | [character set] |
   length of link name (1, 2, 4, 8) | link name (not NUL-terminated) | link information:
     hard: object header address (O);  soft: length (2), value;
     external: length (2), then: version/flags byte (0), file name NUL, object path NUL *)
Inductive link_value :=
| LHard (addr : N)
| LSoft (target : bytes)
| LExternal (file path : bytes).
Record link_spec := { ls_flags : N; ls_corder : option N; ls_cset : N; ls_name : bytes; ls_value : link_value }.

Definition spec_dec_link (tol : tolerance) (osz : nat) (pad_ok : bool) (bs : bytes) : outcome (link_spec * list tag) :=
  '(ver, r) <- p_byte bs;;
  _ <- guard (ver =? 1);;
  '(fl, r) <- p_byte r;;
  _ <- guard (fl <? 32);;
  '(lt, r) <- (if N.testbit fl 3 then p_byte r else Ok (0, r));;
  '(co, r) <- (if N.testbit fl 2 then '(c, r) <- p_u 8 r;; Ok (Some c, r) else Ok (None, r));;
  '(cs, r) <- (if N.testbit fl 4 then '(c, r) <- p_byte r;; _ <- guard (c <? 2);; Ok (c, r) else Ok (0, r));;
  '(nl, r) <- p_u (N.to_nat (N.shiftl 1 (N.land fl 3))) r;;
  _ <- guard (0 <? nl);;
  '(name, r) <- p_take (N.to_nat nl) r;;
  let mk v := {| ls_flags := fl; ls_corder := co; ls_cset := cs; ls_name := name; ls_value := v |} in
  if lt =? 0 then
    '(a, r) <- p_u osz r;; _ <- p_end pad_ok r;; Ok (mk (LHard a), [])
  else if lt =? 1 then
    '(vl, r) <- p_u 2 r;; '(v, r) <- p_take (N.to_nat vl) r;; _ <- p_end pad_ok r;; Ok (mk (LSoft v), [])
  else if lt =? 64 then
    '(vl, r) <- p_u 2 r;; '(v, r2) <- p_take (N.to_nat vl) r;;
    match (match v with
           | 0 :: v' => '(fn, v') <- p_cstr v';; '(op, v') <- p_cstr v';; _ <- p_end false v';; _ <- p_end pad_ok r2;; Ok (fn, op)
           | _ => Err
           end) with
    | Ok (fn, op) => Ok (mk (LExternal fn op), [])
    | _ =>
        (* listed deviation: (length (2), file name) (length (2), object path) *)
        '(pl, r2) <- p_u 2 r2;; '(op, r2) <- p_take (N.to_nat pl) r2;; _ <- p_end pad_ok r2;;
        tg <- dev tol T_extlink_value_layout;;
        Ok (mk (LExternal v op), tg)
    end
  else Err.

(* ------------------------------------------------------------------ 0x0011 symbol table:  v1 B-tree address (O) | local heap address (O) *)
Definition spec_dec_symtab (osz : nat) (pad_ok : bool) (bs : bytes) : outcome (N * N) :=
  '(bt, r) <- p_u osz bs;; '(hp, r) <- p_u osz r;; _ <- p_end pad_ok r;; Ok (bt, hp).

(* ------------------------------------------------------------------ 0x0016 object reference count:  version (0) | count (4) *)
Definition spec_dec_refcount (tol : tolerance) (pad_ok : bool) (bs : bytes) : outcome (N * list tag) :=
  match bs with
  | [_; _; _; _] =>
      (* listed deviation: the count alone *)
      tg <- dev tol T_refcount_msg_no_version;; '(c, _) <- p_u 4 bs;; Ok (c, tg)
  | _ => '(ver, r) <- p_byte bs;; _ <- guard (ver =? 0);; '(c, r) <- p_u 4 r;; _ <- p_end pad_ok r;; Ok (c, [])
  end.

(* ------------------------------------------------------------------ 0x0012 object modification time:  version (1) | reserved (3) | seconds (4) *)
Definition spec_dec_mtime (pad_ok : bool) (bs : bytes) : outcome N :=
  '(ver, r) <- p_byte bs;; _ <- guard (ver =? 1);; '(_, r) <- p_zeros 3 r;; '(s, r) <- p_u 4 r;; _ <- p_end pad_ok r;; Ok s.

(* ------------------------------------------------------------------ 0x0010 object header continuation:  offset (O) | length (L) *)
Definition spec_dec_continuation (osz lsz : nat) (pad_ok : bool) (bs : bytes) : outcome (N * N) :=
  '(a, r) <- p_u osz bs;; '(l, r) <- p_u lsz r;; _ <- p_end pad_ok r;; Ok (a, l).
