(* C01: the chunk index written by ChunkBTreeWriter is read back entry for entry by ParseBTreeV1Node +
   CollectAllChunks; lemmas for Props/C01.v (the C01_index theorems).  Model: Model/ChunkIndex.v. *)
From HV Require Import Base.Prelude Model.Chunk Base.Outcome Base.Bytes Model.RobustTerm Model.ChunkIndex.
From HV Require Import Proofs.ChunkLists Proofs.ChunkSpec Proofs.ChunkCoords Proofs.ChunkTiling Proofs.RobustTerm.
From Coq Require Import Permutation.

Local Open Scope N_scope.

Ltac dif := match goal with |- context [if ?c then _ else _] => let E := fresh "E" in destruct c eqn:E end.

(* ------------------------------------------------------------------ the file *)

Lemma blen_firstn (n : nat) (l : list N) : (n <= length l)%nat -> blen (firstn n l) = N.of_nat n.
Proof. intros. unfold blen. rewrite firstn_length. blia. Qed.

Lemma firstn_skipn_app (pre mid suf : list N) :
  firstn (length mid) (skipn (length pre) (pre ++ mid ++ suf)) = mid.
Proof.
  replace (length pre) with (length pre + 0)%nat by lia.
  rewrite skipn_app, skipn_all2 by lia.
  replace (length pre + 0 - length pre)%nat with 0%nat by lia. cbn [skipn app].
  replace (length mid) with (length mid + 0)%nat by lia.
  rewrite firstn_app_2. cbn [firstn]. apply app_nil_r.
Qed.

Lemma read_at_app (pre mid suf : list N) off n :
  off = blen pre -> n = blen mid -> off <= MAXINT64 -> read_at (pre ++ mid ++ suf) off n = Some mid.
Proof.
  intros -> -> Hm. unfold read_at. rewrite !blen_app.
  replace ((blen pre <=? MAXINT64) && (blen pre + blen mid <=? blen pre + (blen mid + blen suf))) with true
    by (symmetry; apply andb_true_iff; split; apply N.leb_le; blia).
  f_equal. unfold blen. rewrite !Nat2N.id. apply firstn_skipn_app.
Qed.

Lemma read_bytes_at_app (pre mid suf : list N) off n :
  off = blen pre -> n = blen mid -> n <> 0 -> off + n <= MAXINT64 ->
  read_bytes_at (pre ++ mid ++ suf) off n = Some mid.
Proof.
  intros Ho Hn Hz Hm. unfold read_bytes_at.
  replace (n =? 0) with false by (symmetry; apply N.eqb_neq; auto).
  assert (Hm' : off + n <= 9223372036854775807) by exact Hm.
  assert (Hw : wrap64 (off + n) = off + n) by (unfold wrap64; apply N.mod_small; lia).
  rewrite Hw.
  replace ((off + n <? off) || (MAXINT64 <? off + n)) with false
    by (symmetry; apply orb_false_iff; split; apply N.ltb_ge; unfold MAXINT64; lia).
  (* the probe of the last byte *)
  assert (Hp : exists b, read_at (pre ++ mid ++ suf) (off + n - 1) 1 = Some b).
  { unfold read_at. rewrite !blen_app. subst off n.
    replace ((blen pre + blen mid - 1 <=? MAXINT64)
             && (blen pre + blen mid - 1 + 1 <=? blen pre + (blen mid + blen suf))) with true
      by (symmetry; apply andb_true_iff; split; apply N.leb_le; unfold MAXINT64; blia).
    eexists; reflexivity. }
  destruct Hp as [b ->]. apply read_at_app; auto. unfold MAXINT64. lia.
Qed.

(* what WriteAt leaves in the file: the buffer at its address *)
Lemma write_at_shape (f buf : list N) a :
  buf <> [] -> exists pre suf, write_at f a buf = pre ++ buf ++ suf /\ blen pre = a.
Proof.
  intros Hb. unfold write_at. destruct buf as [|b0 br]; [congruence|].
  set (buf := b0 :: br). set (g := f ++ zeros (N.to_nat (a + blen buf - blen f))).
  exists (firstn (N.to_nat a) g), (skipn (N.to_nat (a + blen buf)) g). split; [reflexivity|].
  rewrite blen_firstn; [lia|]. unfold g. rewrite app_length, length_zeros. unfold blen. lia.
Qed.

(* reads inside a prefix do not see what follows *)
Lemma read_at_prefix (x y : list N) off n : off + n <= blen x -> read_at (x ++ y) off n = read_at x off n.
Proof.
  intros H. unfold read_at. rewrite blen_app.
  replace (off + n <=? blen x + blen y) with true by (symmetry; apply N.leb_le; lia).
  replace (off + n <=? blen x) with true by (symmetry; apply N.leb_le; lia).
  destruct (off <=? MAXINT64); cbn [andb]; [|reflexivity]. f_equal.
  rewrite skipn_app, firstn_app.
  replace (N.to_nat n - length (skipn (N.to_nat off) x))%nat with 0%nat
    by (rewrite skipn_length; unfold blen in H; lia).
  cbn [firstn]. apply app_nil_r.
Qed.

(* bytes before the address are kept (the chunks written before the index) *)
Lemma write_at_before (f buf : list N) a off n :
  off + n <= a -> off + n <= blen f -> read_at (write_at f a buf) off n = read_at f off n.
Proof.
  intros H1 H2. unfold write_at. destruct buf as [|b0 br]; [reflexivity|].
  generalize (b0 :: br). intros buf.
  generalize (zeros (N.to_nat (a + blen buf - blen f))) as z. intros z.
  destruct (N.le_ge_cases a (blen f)) as [Ha|Ha].
  - (* a inside f *)
    rewrite firstn_app. bnorm. replace (N.to_nat a - length f)%nat with 0%nat by (unfold blen in Ha; lia).
    cbn [firstn]. rewrite app_nil_r, read_at_prefix.
    + rewrite <- (firstn_skipn (N.to_nat a) f) at 2. symmetry. apply read_at_prefix.
      rewrite blen_firstn; [lia|]. unfold blen in Ha. lia.
    + rewrite blen_firstn; [lia|]. unfold blen in Ha. lia.
  - rewrite firstn_app. bnorm. rewrite (firstn_all2 (n := N.to_nat a) f) by (unfold blen in Ha; lia).
    rewrite <- !app_assoc. apply read_at_prefix. lia.
Qed.

(* ------------------------------------------------------------------ sizes of the encoded pieces *)

Lemma blen_enc_coords cs : blen (flat_map (le 8) cs) = 8 * N.of_nat (length cs).
Proof.
  induction cs as [|c r IH]; [reflexivity|].
  cbn [flat_map length]. rewrite blen_app, blen_le, IH. lia.
Qed.
Lemma blen_enc_key nb fm cs : blen (enc_key nb fm cs) = 8 + 8 * N.of_nat (length cs).
Proof. unfold enc_key. rewrite !blen_app, !blen_le, blen_enc_coords. lia. Qed.
Lemma blen_enc_entry e : blen (enc_entry e) = 16 + 8 * N.of_nat (length (w_coord e)).
Proof. unfold enc_entry. rewrite blen_app, blen_enc_key, blen_le. lia. Qed.
Lemma blen_enc_entries dim es :
  Forall (fun e => length (w_coord e) = dim) es ->
  blen (flat_map enc_entry es) = N.of_nat (length es) * (16 + 8 * N.of_nat dim).
Proof.
  induction 1 as [|e r He _ IH]; [reflexivity|].
  cbn [flat_map length]. rewrite blen_app, blen_enc_entry, IH, He. lia.
Qed.
Lemma blen_node_header n : blen (node_header n) = 24.
Proof. unfold node_header, SIG_TREE. rewrite !blen_app, !blen_le. reflexivity. Qed.

(* ------------------------------------------------------------------ reading what was encoded *)

Lemma rd_le_eq (data pre : list N) k kN v (suf : list N) off :
  data = pre ++ le k v ++ suf -> off = blen pre -> kN = N.of_nat k -> v < 256 ^ kN -> rd_le data off kN = Ok v.
Proof. intros -> ? ? ?. apply rd_le_at; auto. Qed.
Lemma slice_from_eq (data pre suf : list N) a : data = pre ++ suf -> a = blen pre -> slice_from data a = Ok suf.
Proof. intros -> ?. apply slice_from_app; auto. Qed.

Lemma pow256_8 : 256 ^ 8 = 18446744073709551616. Proof. reflexivity. Qed.
Lemma pow256_4 : 256 ^ 4 = 4294967296. Proof. reflexivity. Qed.
Lemma pow256_2 : 256 ^ 2 = 65536. Proof. reflexivity. Qed.

Lemma read_address_le8 v (rest : list N) : v <= U64MAX -> read_address (le 8 v ++ rest) 8 = v.
Proof.
  intros Hv. unfold read_address. rewrite blen_app, blen_le.
  replace (N.min (N.min 8 (N.of_nat 8 + blen rest)) 8) with 8 by lia.
  change (N.to_nat 8) with (length (le 8 v)). rewrite firstn_app, Nat.sub_diag, firstn_all. cbn [firstn].
  rewrite app_nil_r. apply unle_le_small. change (256 ^ N.of_nat 8) with 18446744073709551616.
  unfold U64MAX in Hv. lia.
Qed.

Lemma read_address_le8' v : v <= U64MAX -> read_address (le 8 v) 8 = v.
Proof. intros. rewrite <- (app_nil_r (le 8 v)). now apply read_address_le8. Qed.

Lemma all_pos_cons c cs : all_pos (c :: cs) = true <-> 0 < c /\ all_pos cs = true.
Proof.
  unfold all_pos. cbn [forallb]. rewrite andb_true_iff, N.ltb_lt. reflexivity.
Qed.

(* the offsets of one key come back divided by the chunk extents *)
Lemma parse_coords_enc : forall (cs cdims : list N) (data pre suf : list N) off,
  length cs = length cdims -> all_pos cdims = true -> Forall (fun x => x <= U64MAX) cs ->
  data = pre ++ flat_map (le 8) cs ++ suf -> off = blen pre ->
  parse_coords (length cs) cdims data off = Ok (scaled_of_key cdims cs).
Proof.
  induction cs as [|c r IH]; intros cdims data pre suf off Hl Hp Hc Hd Ho.
  - destruct cdims; [reflexivity|discriminate].
  - destruct cdims as [|cd cds]; [discriminate|].
    apply all_pos_cons in Hp as [Hcd Hp]. apply Forall_cons_iff in Hc as [Hc0 Hcr].
    cbn [length parse_coords]. cbn [flat_map] in Hd. rewrite <- app_assoc in Hd.
    rewrite (rd_le_eq data pre 8 8 c (flat_map (le 8) r ++ suf) off); auto;
      [|rewrite pow256_8; unfold U64MAX in Hc0; lia].
    cbn [obind]. replace (cd =? 0) with false by (symmetry; apply N.eqb_neq; lia).
    rewrite (IH cds data (pre ++ le 8 c) suf (off + 8)); auto.
    + subst data. now rewrite <- app_assoc.
    + rewrite blen_app, blen_le. lia.
Qed.

(* key of an entry as the reader reports it *)
Definition key_of (cdims : list N) (e : wentry) : ckey := (scaled_of_key cdims (w_coord e), w_nbytes e, 0).

Lemma entry_ok_spec dim e : entry_ok dim e = true ->
  length (w_coord e) = dim /\ Forall (fun x => x <= U64MAX) (w_coord e) /\ w_addr e <= U64MAX /\ w_nbytes e < 4294967296.
Proof.
  unfold entry_ok. rewrite !andb_true_iff, Nat.eqb_eq, N.leb_le, N.ltb_lt, forallb_forall.
  intros [[[H1 H2] H3] H4]. repeat split; auto.
  apply Forall_forall. intros x Hx. apply N.leb_le. auto.
Qed.

(* one key at offset off of data *)
Lemma parse_key_enc cdims nb fm cs (data pre suf : list N) off :
  length cs = length cdims -> all_pos cdims = true -> Forall (fun x => x <= U64MAX) cs ->
  nb < 4294967296 -> fm < 4294967296 ->
  data = pre ++ enc_key nb fm cs ++ suf -> off = blen pre ->
  rd_le data off 4 = Ok nb /\ rd_le data (off + 4) 4 = Ok fm /\
  parse_coords (length cs) cdims data (off + 8) = Ok (scaled_of_key cdims cs).
Proof.
  intros Hl Hp Hc Hnb Hfm Hd Ho. unfold enc_key in Hd. rewrite <- !app_assoc in Hd.
  split; [|split].
  - apply (rd_le_eq data pre 4 4 nb (le 4 fm ++ flat_map (le 8) cs ++ suf)); auto.
  - apply (rd_le_eq data (pre ++ le 4 nb) 4 4 fm (flat_map (le 8) cs ++ suf)); auto.
    + subst data. now rewrite <- app_assoc.
    + rewrite blen_app, blen_le. lia.
  - apply (parse_coords_enc cs cdims data (pre ++ le 4 nb ++ le 4 fm) suf); auto.
    + subst data. now rewrite <- !app_assoc.
    + rewrite !blen_app, !blen_le. lia.
Qed.

Lemma parse_entries_enc cdims lastc : forall (es : list wentry) (data pre suf : list N) off i klen,
  all_pos cdims = true -> Forall (fun e => entry_ok (length cdims) e = true) es ->
  length lastc = length cdims -> Forall (fun x => x <= U64MAX) lastc ->
  data = pre ++ flat_map enc_entry es ++ enc_key 0 0 lastc ++ suf -> off = blen pre ->
  i + N.of_nat (length es) < klen ->
  parse_entries (length es) i klen (length cdims) 8 cdims data off
  = Ok (map (key_of cdims) es ++ [(scaled_of_key cdims lastc, 0, 0)], map w_addr es).
Proof.
  induction es as [|e r IH]; intros data pre suf off i klen Hp He Hll Hlc Hd Ho Hk.
  - cbn [flat_map app] in Hd. cbn [length parse_entries map app].
    replace (blen data <? off + (8 + 8 * N.of_nat (length cdims))) with false.
    2:{ symmetry. apply N.ltb_ge. subst data off. rewrite !blen_app, blen_enc_key, Hll. lia. }
    destruct (parse_key_enc cdims 0 0 lastc data pre suf off) as (K1 & K2 & K3); auto; try lia.
    rewrite K1, K2. cbn [obind]. rewrite <- Hll, K3. cbn [obind].
    replace (klen <=? i) with false by (symmetry; apply N.leb_gt; cbn [length] in Hk; lia).
    reflexivity.
  - apply Forall_cons_iff in He as [He0 Her].
    destruct (entry_ok_spec _ _ He0) as (E1 & E2 & E3 & E4).
    cbn [flat_map] in Hd. unfold enc_entry at 1 in Hd. rewrite <- !app_assoc in Hd.
    cbn [length parse_entries map app].
    set (rest := flat_map enc_entry r ++ enc_key 0 0 lastc ++ suf) in *.
    assert (Hlen : blen data = off + (8 + 8 * N.of_nat (length cdims)) + 8 + blen rest).
    { subst data off. rewrite !blen_app, blen_enc_key, blen_le, E1. fold rest. lia. }
    replace (blen data <? off + (8 + 8 * N.of_nat (length cdims))) with false
      by (symmetry; apply N.ltb_ge; lia).
    destruct (parse_key_enc cdims (w_nbytes e) 0 (w_coord e) data pre (le 8 (w_addr e) ++ rest) off)
      as (K1 & K2 & K3); auto; try lia.
    rewrite K1, K2. cbn [obind]. rewrite <- E1 at 1. rewrite K3. cbn [obind].
    replace (klen <=? i) with false by (symmetry; apply N.leb_gt; cbn [length] in Hk; lia).
    replace (blen data <? off + (8 + 8 * N.of_nat (length cdims)) + 8) with false
      by (symmetry; apply N.ltb_ge; lia).
    rewrite (slice_from_eq data (pre ++ enc_key (w_nbytes e) 0 (w_coord e)) (le 8 (w_addr e) ++ rest)).
    2:{ subst data. now rewrite <- !app_assoc. }
    2:{ rewrite blen_app, blen_enc_key, E1. lia. }
    cbn [obind]. rewrite read_address_le8 by auto.
    rewrite (IH data (pre ++ enc_key (w_nbytes e) 0 (w_coord e) ++ le 8 (w_addr e)) suf); auto.
    + subst data. unfold rest. now rewrite <- !app_assoc.
    + rewrite !blen_app, blen_enc_key, blen_le, E1. lia.
    + cbn [length] in Hk. lia.
Qed.

(* ------------------------------------------------------------------ sorting *)

Lemma insert_entry_perm e l : Permutation (insert_entry e l) (e :: l).
Proof.
  induction l as [|x r IH]; cbn [insert_entry]; [reflexivity|].
  dif; [reflexivity|]. rewrite IH. apply perm_swap.
Qed.
Lemma sort_entries_perm es : Permutation (sort_entries es) es.
Proof.
  induction es as [|e r IH]; [reflexivity|].
  unfold sort_entries in *. cbn [fold_right]. rewrite insert_entry_perm. now constructor.
Qed.
Lemma sort_entries_length es : length (sort_entries es) = length es.
Proof. apply Permutation_length, sort_entries_perm. Qed.
Lemma sort_entries_Forall (P : wentry -> Prop) es : Forall P es -> Forall P (sort_entries es).
Proof. intros H. eapply Permutation_Forall; [apply Permutation_sym, sort_entries_perm|exact H]. Qed.

(* ------------------------------------------------------------------ the node *)

Definition last_key (cdims : list N) : ckey := (scaled_of_key cdims (repeat U64MAX (length cdims)), 0, 0).

Lemma entries_dim dim es : Forall (fun e => entry_ok dim e = true) es -> Forall (fun e => length (w_coord e) = dim) es.
Proof. intros H. eapply Forall_impl; [|exact H]. intros e He. apply (entry_ok_spec _ _ He). Qed.

Lemma blen_serialize_leaf dim es : Forall (fun e => entry_ok dim e = true) es ->
  blen (serialize_leaf dim es) = 24 + N.of_nat (length es) * (16 + 8 * N.of_nat dim) + (8 + 8 * N.of_nat dim).
Proof.
  intros H. unfold serialize_leaf. rewrite !blen_app, blen_node_header, blen_enc_key, repeat_length.
  rewrite (blen_enc_entries dim) by (apply entries_dim; auto). lia.
Qed.

Lemma wrap16_small n : n < 65536 -> wrap16 n = n.
Proof. intros. unfold wrap16. apply N.mod_small. auto. Qed.

Lemma combine_keys cdims es :
  combine (map (key_of cdims) es ++ [last_key cdims]) (map w_addr es) = map (expected_entry cdims) es.
Proof. induction es as [|e r IH]; [reflexivity|]. cbn [map app combine]. now rewrite IH. Qed.

(* the 24 header bytes as the reader decodes them *)
Lemma header_fields n :
  let h := node_header n in
  slice h 0 4 = Ok SIG_TREE /\ index h 4 = Ok 1 /\ index h 5 = Ok 0 /\ rd_le h 6 2 = Ok (wrap16 n) /\
  slice_from h 8 = Ok (le 8 U64MAX ++ le 8 U64MAX) /\ slice_from h (8 + 8) = Ok (le 8 U64MAX).
Proof.
  intros h. assert (Hw : wrap16 n < 65536) by (unfold wrap16; apply N.mod_lt; lia).
  refine (conj _ (conj _ (conj _ (conj _ (conj _ _))))).
  - apply (slice_app' [] SIG_TREE ([1] ++ [0] ++ le 2 (wrap16 n) ++ le 8 U64MAX ++ le 8 U64MAX)); reflexivity.
  - apply (index_app SIG_TREE 1 ([0] ++ le 2 (wrap16 n) ++ le 8 U64MAX ++ le 8 U64MAX)). reflexivity.
  - apply (index_app (SIG_TREE ++ [1]) 0 (le 2 (wrap16 n) ++ le 8 U64MAX ++ le 8 U64MAX)). reflexivity.
  - apply (rd_le_eq h (SIG_TREE ++ [1] ++ [0]) 2 2 (wrap16 n) (le 8 U64MAX ++ le 8 U64MAX)); auto;
      try (rewrite pow256_2; lia); try (unfold h, node_header; now rewrite <- !app_assoc).
  - apply (slice_from_eq h (SIG_TREE ++ [1] ++ [0] ++ le 2 (wrap16 n))); [|reflexivity].
    unfold h, node_header. now rewrite <- !app_assoc.
  - apply (slice_from_eq h (SIG_TREE ++ [1] ++ [0] ++ le 2 (wrap16 n) ++ le 8 U64MAX)); [|reflexivity].
    unfold h, node_header. now rewrite <- !app_assoc.
Qed.

(* ParseBTreeV1Node on a file that holds node_header n followed by body: everything up to the key loop *)
Lemma parse_node_hdr rp cdims ndims n (body pre suf : list N) addr :
  addr = blen pre -> addr + 24 <= MAXINT64 ->
  parse_node rp (pre ++ node_header n ++ body ++ suf) addr 8 ndims cdims
  = if wrap16 n =? 0 then Ok (mk_bnode 1 0 (wrap16 n) U64MAX U64MAX [] [])
    else match read_bytes_at ((pre ++ node_header n) ++ body ++ suf) (addr + 24)
                             (wrap16 n * (8 + 8 * N.of_nat ndims + 8) + (8 + 8 * N.of_nat ndims)) with
         | None => Err
         | Some data =>
             r <- parse_entries (N.to_nat (wrap16 n)) 0 (key_slots rp (wrap16 n)) ndims 8 cdims data 0;;
             Ok (mk_bnode 1 0 (wrap16 n) U64MAX U64MAX (fst r) (snd r))
         end.
Proof.
  intros Ha Hm.
  unfold parse_node. change (8 + 8 * 2) with 24. bnorm.
  rewrite (read_at_app pre (node_header n) (body ++ suf) addr 24); auto;
    try (now rewrite blen_node_header); try (unfold MAXINT64 in *; lia).
  destruct (header_fields n) as (H1 & H2 & H3 & H4 & H5 & H6).
  rewrite H1. cbn [obind]. change (bytes_eqb SIG_TREE SIG_TREE) with true. cbn [negb].
  rewrite H2, H3, H4, H5, H6. cbn [obind].
  rewrite read_address_le8 by (unfold U64MAX; lia).
  rewrite read_address_le8' by (unfold U64MAX; lia).
  assert (Hw : wrap64 (addr + 24) = addr + 24).
  { unfold wrap64. apply N.mod_small. unfold MAXINT64 in Hm. lia. }
  rewrite Hw. rewrite (app_assoc pre (node_header n) (body ++ suf)). reflexivity.
Qed.

Lemma parse_node_leaf rp cdims es (f pre suf : list N) addr :
  all_pos cdims = true -> Forall (fun e => entry_ok (length cdims) e = true) es ->
  es <> [] -> N.of_nat (length es) <= index_capacity rp ->
  f = pre ++ serialize_leaf (length cdims) es ++ suf -> addr = blen pre ->
  addr + blen (serialize_leaf (length cdims) es) <= MAXINT64 ->
  parse_node rp f addr 8 (length cdims) cdims
  = Ok (mk_bnode 1 0 (N.of_nat (length es)) U64MAX U64MAX
                 (map (key_of cdims) es ++ [last_key cdims]) (map w_addr es)).
Proof.
  intros Hp He Hne Hn Hf Ha Hm.
  rewrite blen_serialize_leaf in Hm by auto.
  assert (Hn' : N.of_nat (length es) < 65536 /\ N.of_nat (length es) < key_slots rp (N.of_nat (length es))).
  { unfold index_capacity, MAX_ENTRIES, key_slots in *. destruct rp; [lia|].
    split; [lia|]. unfold wrap16. rewrite N.mod_small; lia. }
  destruct Hn' as [Hn16 Hks].
  set (n := N.of_nat (length es)) in *.
  assert (Hn0 : n <> 0) by (destruct es; [congruence|unfold n; cbn [length]; lia]).
  set (body := flat_map enc_entry es ++ enc_key 0 0 (repeat U64MAX (length cdims))).
  assert (Hf' : f = pre ++ node_header n ++ body ++ suf).
  { subst f. unfold serialize_leaf. fold n. unfold body. now rewrite <- !app_assoc. }
  clear Hf. subst f.
  rewrite parse_node_hdr by (auto; unfold MAXINT64 in *; lia).
  rewrite wrap16_small by lia.
  replace (n =? 0) with false by (symmetry; apply N.eqb_neq; auto).
  assert (Hb : blen body = n * (8 + 8 * N.of_nat (length cdims) + 8) + (8 + 8 * N.of_nat (length cdims))).
  { unfold body. rewrite blen_app, blen_enc_key, repeat_length.
    rewrite (blen_enc_entries (length cdims)) by (apply entries_dim; auto). fold n. lia. }
  set (dsz := n * (8 + 8 * N.of_nat (length cdims) + 8) + (8 + 8 * N.of_nat (length cdims))) in *.
  assert (S1 : addr + 24 = blen (pre ++ node_header n)) by (rewrite blen_app, blen_node_header; lia).
  assert (S2 : dsz = blen body) by (symmetry; exact Hb).
  assert (S3 : dsz <> 0) by (unfold dsz; lia).
  assert (S4 : addr + 24 + dsz <= MAXINT64) by (unfold MAXINT64, dsz in *; lia).
  rewrite (read_bytes_at_app (pre ++ node_header n) body suf _ _ S1 S2 S3 S4).
  unfold n. rewrite Nat2N.id.
  rewrite (parse_entries_enc cdims (repeat U64MAX (length cdims)) es body [] []); auto.
  - apply repeat_length.
  - apply Forall_forall. intros x Hx. apply repeat_spec in Hx. subst x. unfold U64MAX. lia.
  - unfold body. cbn [app]. now rewrite app_nil_r.
Qed.

(* ------------------------------------------------------------------ (i) index round trip *)

Lemma index_wf_spec cdims es eof : index_wf cdims es eof = true ->
  es <> [] /\ Forall (fun e => entry_ok (length cdims) e = true) es /\ distinct_coords es = true /\
  all_pos cdims = true /\
  eof + blen (serialize_leaf (length cdims) es) <= MAXINT64.
Proof.
  unfold index_wf. rewrite !andb_true_iff, negb_true_iff, Nat.eqb_neq, N.leb_le, forallb_forall.
  intros [[[[H1 H2] H3] H5] H6]. repeat split; auto.
  - destruct es; [cbn in H1; congruence|discriminate].
  - apply Forall_forall. auto.
Qed.

Lemma index_pre_spec rp cdims es eof : index_pre rp cdims es eof = true ->
  es <> [] /\ Forall (fun e => entry_ok (length cdims) e = true) es /\ distinct_coords es = true /\
  N.of_nat (length es) <= index_capacity rp /\ all_pos cdims = true /\
  eof + blen (serialize_leaf (length cdims) es) <= MAXINT64.
Proof.
  unfold index_pre. rewrite andb_true_iff, N.leb_le. intros [Hw Hn].
  destruct (index_wf_spec _ _ _ Hw) as (H1 & H2 & H3 & H4 & H5). repeat split; auto.
Qed.

(* WriteToFile on a list it accepts: one leaf at the end of file *)
Lemma write_index_st_ok rp dim es f eof :
  Forall (fun e => entry_ok dim e = true) es -> es <> [] ->
  (rp = true -> N.of_nat (length es) <= MAX_ENTRIES) ->
  let buf := serialize_leaf dim (sort_entries es) in
  write_index_st rp dim es f eof = (write_at f eof buf, wrap64 (eof + blen buf), Ok eof).
Proof.
  intros He Hne Hcap buf. unfold write_index_st.
  replace (forallb (fun e => Nat.eqb (length (w_coord e)) dim) es) with true.
  2:{ symmetry. apply forallb_forall. intros e Hin. apply Nat.eqb_eq.
      rewrite Forall_forall in He. apply (entry_ok_spec _ _ (He e Hin)). }
  cbn [negb]. destruct es as [|e0 er]; [congruence|].
  replace (rp && (MAX_ENTRIES <? N.of_nat (length (e0 :: er)))) with false.
  2:{ symmetry. destruct rp; [|reflexivity]. cbn [andb]. apply N.ltb_ge. auto. }
  cbv zeta. fold buf.
  unfold alloc. replace (blen buf =? 0) with false; [reflexivity|].
  symmetry. apply N.eqb_neq. unfold buf. rewrite blen_serialize_leaf by (apply sort_entries_Forall; auto). lia.
Qed.

Lemma blen_serialize_sorted dim es : Forall (fun e => entry_ok dim e = true) es ->
  blen (serialize_leaf dim (sort_entries es)) = blen (serialize_leaf dim es).
Proof.
  intros H. rewrite !blen_serialize_leaf; auto; [|apply sort_entries_Forall; auto].
  now rewrite sort_entries_length.
Qed.

Lemma sort_entries_nonempty es : es <> [] -> sort_entries es <> [].
Proof.
  intros H E. apply H. apply length_zero_iff_nil. rewrite <- sort_entries_length, E. reflexivity.
Qed.

Lemma serialize_leaf_nonempty dim es : serialize_leaf dim es <> [].
Proof. unfold serialize_leaf, node_header, SIG_TREE. discriminate. Qed.

(* the round trip from the facts it uses (distinct_coords is not among them: it is the condition under which the
   model's insertion sort and Go's sort.Slice agree, see Model/ChunkIndex.v) *)
Theorem index_roundtrip_core rp cdims es f eof :
  es <> [] -> Forall (fun e => entry_ok (length cdims) e = true) es ->
  N.of_nat (length es) <= index_capacity rp -> all_pos cdims = true ->
  eof + blen (serialize_leaf (length cdims) es) <= MAXINT64 ->
  let f' := write_at f eof (serialize_leaf (length cdims) (sort_entries es)) in
    write_index rp (length cdims) es f eof = Ok (f', eof + blen (serialize_leaf (length cdims) es), eof) /\
    read_index rp f' eof 8 cdims = COk (map (expected_entry cdims) (sort_entries es)).
Proof.
  intros Hne He Hn Hp Hm.
  set (dim := length cdims) in *.
  set (buf := serialize_leaf dim (sort_entries es)).
  assert (Hbl : blen buf = blen (serialize_leaf dim es)) by (apply blen_serialize_sorted; auto).
  fold dim. fold buf. cbv zeta. split.
  - unfold write_index. rewrite write_index_st_ok; auto.
    2:{ intros ->. exact Hn. }
    cbv zeta. fold buf. cbn [st_result].
    rewrite Hbl. f_equal. f_equal. f_equal. unfold wrap64. apply N.mod_small. unfold MAXINT64 in Hm. lia.
  - destruct (write_at_shape f buf eof (serialize_leaf_nonempty _ _)) as (pre & suf & Hw & Hpl).
    unfold read_index.
    rewrite (parse_node_leaf rp cdims (sort_entries es) (write_at f eof buf) pre suf eof); auto.
    + unfold collect_all_chunks. cbn [n_level n_keys n_children collect N.eqb].
      now rewrite combine_keys.
    + apply sort_entries_Forall; auto.
    + apply sort_entries_nonempty; auto.
    + now rewrite sort_entries_length.
    + fold dim. fold buf. rewrite Hbl. exact Hm.
Qed.

Theorem index_roundtrip_at rp cdims es f eof :
  index_pre rp cdims es eof = true ->
  let f' := write_at f eof (serialize_leaf (length cdims) (sort_entries es)) in
    write_index rp (length cdims) es f eof = Ok (f', eof + blen (serialize_leaf (length cdims) es), eof) /\
    read_index rp f' eof 8 cdims = COk (map (expected_entry cdims) (sort_entries es)).
Proof.
  intros Hpre. destruct (index_pre_spec _ _ _ _ Hpre) as (Hne & He & Hd & Hn & Hp & Hm).
  apply index_roundtrip_core; auto.
Qed.

Theorem index_roundtrip_gen rp cdims es f eof :
  index_pre rp cdims es eof = true ->
  exists f',
    write_index rp (length cdims) es f eof = Ok (f', eof + blen (serialize_leaf (length cdims) es), eof) /\
    read_index rp f' eof 8 cdims = COk (map (expected_entry cdims) (sort_entries es)).
Proof.
  intros H. destruct (index_roundtrip_at rp cdims es f eof H) as [P1 P2].
  eexists. split; [exact P1|exact P2].
Qed.

(* the repaired code: every well-formed list of at most MaxChunkBTreeEntries = 65535 entries *)
Theorem index_roundtrip cdims es f eof :
  index_wf cdims es eof = true -> N.of_nat (length es) <= MAX_ENTRIES ->
  exists f',
    write_index true (length cdims) es f eof = Ok (f', eof + blen (serialize_leaf (length cdims) es), eof) /\
    read_index true f' eof 8 cdims = COk (map (expected_entry cdims) (sort_entries es)).
Proof.
  intros Hw Hn. apply index_roundtrip_gen. unfold index_pre. rewrite Hw. cbn [andb index_capacity].
  apply N.leb_le. exact Hn.
Qed.

(* ... and every longer list is refused by the writer before it allocates or writes: the state (file, end of file)
   is the one the call was given.  No hypothesis on the entries. *)
Theorem index_refused_unchanged dim es f eof :
  MAX_ENTRIES < N.of_nat (length es) ->
  write_index_st true dim es f eof = (f, eof, Err).
Proof.
  intros Hn. unfold write_index_st.
  destruct (negb (forallb (fun e => Nat.eqb (length (w_coord e)) dim) es)); [reflexivity|].
  destruct es as [|e0 er]; [reflexivity|].
  replace (MAX_ENTRIES <? N.of_nat (length (e0 :: er))) with true by (symmetry; apply N.ltb_lt; exact Hn).
  reflexivity.
Qed.

(* both together: the writer/reader pair is total on well-formed input - round trip or clean refusal *)
Theorem index_total cdims es f eof :
  index_wf cdims es eof = true ->
  (N.of_nat (length es) <= MAX_ENTRIES /\
   exists f',
     write_index_st true (length cdims) es f eof = (f', eof + blen (serialize_leaf (length cdims) es), Ok eof) /\
     read_index true f' eof 8 cdims = COk (map (expected_entry cdims) (sort_entries es)))
  \/
  (MAX_ENTRIES < N.of_nat (length es) /\ write_index_st true (length cdims) es f eof = (f, eof, Err)).
Proof.
  intros Hw. destruct (N.le_gt_cases (N.of_nat (length es)) MAX_ENTRIES) as [Hn|Hn].
  - left. split; [exact Hn|].
    destruct (index_roundtrip cdims es f eof Hw Hn) as (f' & P1 & P2).
    exists f'. split; [|exact P2].
    unfold write_index in P1. destruct (write_index_st true (length cdims) es f eof) as [[g e] [r| |]];
      cbn [st_result] in P1; try discriminate. now inversion P1.
  - right. split; [exact Hn|]. now apply index_refused_unchanged.
Qed.

(* ------------------------------------------------------------------ the count field: where the round trip ends *)

(* BEFORE 18c9d53 (rep = false): 65536 entries (any multiple of 65536): the 16-bit count is written as 0, the reader
   sees an empty leaf and returns NO chunk, without an error - every chunk of the dataset reads back as zeros *)
Theorem index_count_wraps_refuted cdims es f eof :
  Forall (fun e => entry_ok (length cdims) e = true) es ->
  es <> [] -> wrap16 (N.of_nat (length es)) = 0 ->
  eof + 24 <= MAXINT64 ->
  exists f' eof',
    write_index false (length cdims) es f eof = Ok (f', eof', eof) /\
    read_index false f' eof 8 cdims = COk [] /\ map (expected_entry cdims) (sort_entries es) <> [].
Proof.
  intros He Hne Hw Hm.
  set (dim := length cdims) in *.
  set (buf := serialize_leaf dim (sort_entries es)).
  exists (write_at f eof buf), (wrap64 (eof + blen buf)). split; [|split].
  - unfold write_index. rewrite write_index_st_ok by (auto; intro; discriminate). reflexivity.
  - destruct (write_at_shape f buf eof (serialize_leaf_nonempty _ _)) as (pre & suf & Hws & Hpl).
    assert (Hfile : write_at f eof buf = pre ++ node_header (N.of_nat (length (sort_entries es))) ++
              (flat_map enc_entry (sort_entries es) ++ enc_key 0 0 (repeat U64MAX dim)) ++ suf).
    { rewrite Hws. unfold buf, serialize_leaf. now rewrite <- !app_assoc. }
    unfold read_index. rewrite Hfile.
    rewrite (parse_node_hdr false cdims (length cdims)) by auto.
    rewrite sort_entries_length, Hw. cbn [N.eqb]. reflexivity.
  - intros E. apply map_eq_nil in E. apply (sort_entries_nonempty es Hne E).
Qed.

(* BEFORE 18c9d53 (rep = false): 65535 entries: the count fits, but the reader sizes its key slice with EntriesUsed+1
   in uint16 = 0 and panics storing the first key *)
Theorem index_65535_refuted cdims es f eof :
  all_pos cdims = true -> Forall (fun e => entry_ok (length cdims) e = true) es ->
  N.of_nat (length es) = 65535 ->
  eof + blen (serialize_leaf (length cdims) es) <= MAXINT64 ->
  exists f' eof',
    write_index false (length cdims) es f eof = Ok (f', eof', eof) /\
    read_index false f' eof 8 cdims = CPanic.
Proof.
  intros Hp He Hn Hm.
  assert (Hne : es <> []) by (intros ->; cbn in Hn; lia).
  set (dim := length cdims) in *.
  set (buf := serialize_leaf dim (sort_entries es)).
  exists (write_at f eof buf), (wrap64 (eof + blen buf)). split.
  - unfold write_index. rewrite write_index_st_ok by (auto; intro; discriminate). reflexivity.
  - destruct (write_at_shape f buf eof (serialize_leaf_nonempty _ _)) as (pre & suf & Hws & Hpl).
    pose proof (sort_entries_Forall _ _ He) as Hs.
    pose proof (sort_entries_length es) as Hsl.
    rewrite blen_serialize_leaf in Hm by auto.
    destruct (sort_entries es) as [|s0 sr] eqn:Es; [cbn in Hsl; lia|].
    set (SS := s0 :: sr) in *.
    set (body := flat_map enc_entry SS ++ enc_key 0 0 (repeat U64MAX dim)).
    assert (Hfile : write_at f eof buf = pre ++ node_header (N.of_nat (length SS)) ++ body ++ suf).
    { rewrite Hws. unfold buf, serialize_leaf. fold SS. unfold body. now rewrite <- !app_assoc. }
    unfold read_index. rewrite Hfile.
    rewrite (parse_node_hdr false cdims (length cdims)) by (auto; unfold MAXINT64 in *; lia).
    rewrite Hsl, Hn. change (wrap16 65535) with 65535. cbn [N.eqb Pos.eqb].
    change (key_slots false 65535) with 0.
    assert (Hb : blen body = 65535 * (8 + 8 * N.of_nat dim + 8) + (8 + 8 * N.of_nat dim)).
    { unfold body. rewrite blen_app, blen_enc_key, repeat_length.
      rewrite (blen_enc_entries dim) by (apply entries_dim; auto). rewrite Hsl, Hn. lia. }
    assert (S1 : eof + 24 = blen (pre ++ node_header 65535)) by (rewrite blen_app, blen_node_header; lia).
    assert (S2 : 65535 * (8 + 8 * N.of_nat (length cdims) + 8) + (8 + 8 * N.of_nat (length cdims)) = blen body)
      by (rewrite Hb; fold dim; lia).
    assert (S3 : 65535 * (8 + 8 * N.of_nat (length cdims) + 8) + (8 + 8 * N.of_nat (length cdims)) <> 0) by lia.
    assert (S4 : eof + 24 + (65535 * (8 + 8 * N.of_nat (length cdims) + 8) + (8 + 8 * N.of_nat (length cdims))) <= MAXINT64)
      by (fold dim; unfold MAXINT64 in *; lia).
    rewrite (read_bytes_at_app (pre ++ node_header 65535) body suf _ _ S1 S2 S3 S4).
    (* the first iteration of the key loop *)
    apply Forall_cons_iff in Hs as [Hs0 Hsr].
    destruct (entry_ok_spec _ _ Hs0) as (E1 & E2 & E3 & E4).
    change (N.to_nat 65535) with (S (N.to_nat 65534)). cbn [parse_entries].
    fold dim.
    replace (blen body <? 0 + (8 + 8 * N.of_nat dim)) with false by (symmetry; apply N.ltb_ge; rewrite Hb; lia).
    destruct (parse_key_enc cdims (w_nbytes s0) 0 (w_coord s0) body []
                (le 8 (w_addr s0) ++ flat_map enc_entry sr ++ enc_key 0 0 (repeat U64MAX dim)) 0)
      as (K1 & K2 & K3); auto; try lia.
    { unfold body, SS. cbn [flat_map app]. unfold enc_entry at 1. now rewrite <- !app_assoc. }
    rewrite K1, K2. cbn [obind].
    rewrite E1 in K3. fold dim in K3. rewrite K3. reflexivity.
Qed.

(* ------------------------------------------------------------------ (ii) coordinate lookup *)

Lemma list_eqb_N_eq (a : list N) : forall b, list_eqb N.eqb a b = true <-> a = b.
Proof.
  induction a as [|x a IH]; intros [|y b]; cbn [list_eqb].
  - split; reflexivity.
  - split; discriminate.
  - split; discriminate.
  - rewrite andb_true_iff, N.eqb_eq, IH. split; [intros [-> ->]; reflexivity|intros [= -> ->]; auto].
Qed.

Lemma length_scaled_of_key cdims key : length key = length cdims -> length (scaled_of_key cdims key) = length cdims.
Proof.
  unfold scaled_of_key. revert cdims. induction key as [|k r IH]; intros [|c cs] H; try discriminate; auto.
  cbn [zipWith length] in *. f_equal. apply IH. lia.
Qed.

(* the reader's coordinate of a written entry *)
Definition sc_of (cdims : list N) (e : wentry) : list N := scaled_of_key cdims (w_coord e).

Lemma lookup_none cdims L c :
  Forall (fun e => length (w_coord e) = length cdims) L ->
  ~ In c (map (sc_of cdims) L) -> lookup_chunk (length cdims) (map (expected_entry cdims) L) c = None.
Proof.
  induction L as [|x r IH]; intros Hl Hn; [reflexivity|].
  apply Forall_cons_iff in Hl as [Hx Hr].
  cbn [map lookup_chunk expected_entry]. cbn [map] in Hn.
  rewrite IH by (auto; intros Hin; apply Hn; right; exact Hin).
  unfold k_scaled. cbn [fst].
  rewrite firstn_all2 by (rewrite length_scaled_of_key; auto).
  destruct (coords_eqb (scaled_of_key cdims (w_coord x)) c) eqn:E; [|reflexivity].
  apply list_eqb_N_eq in E. exfalso. apply Hn. left. exact E.
Qed.

(* when the reader's key -> coordinate map is injective on the written keys, the lookup of the coordinate of a
   written entry returns exactly that entry's address and size, in whatever order the entries were collected *)
Lemma lookup_found cdims L e :
  Forall (fun e => length (w_coord e) = length cdims) L ->
  NoDup (map (sc_of cdims) L) -> In e L ->
  lookup_chunk (length cdims) (map (expected_entry cdims) L) (sc_of cdims e) = Some (w_addr e, w_nbytes e).
Proof.
  induction L as [|x r IH]; intros Hl Hnd Hin; [destruct Hin|].
  apply Forall_cons_iff in Hl as [Hx Hr]. cbn [map] in Hnd. apply NoDup_cons_iff in Hnd as [Hnx Hnd].
  cbn [map lookup_chunk expected_entry].
  destruct Hin as [->|Hin].
  - rewrite lookup_none by auto.
    unfold k_scaled, k_nbytes. cbn [fst snd].
    rewrite firstn_all2 by (rewrite length_scaled_of_key; auto).
    replace (coords_eqb (scaled_of_key cdims (w_coord e)) (sc_of cdims e)) with true; [reflexivity|].
    symmetry. apply list_eqb_N_eq. reflexivity.
  - rewrite IH by auto. reflexivity.
Qed.

Theorem index_lookup cdims es f eof :
  index_wf cdims es eof = true -> N.of_nat (length es) <= MAX_ENTRIES ->
  NoDup (map (sc_of cdims) es) ->
  exists f' chunks,
    write_index true (length cdims) es f eof = Ok (f', eof + blen (serialize_leaf (length cdims) es), eof) /\
    read_index true f' eof 8 cdims = COk chunks /\
    (forall e, In e es -> lookup_chunk (length cdims) chunks (sc_of cdims e) = Some (w_addr e, w_nbytes e)) /\
    (forall c, ~ In c (map (sc_of cdims) es) -> lookup_chunk (length cdims) chunks c = None).
Proof.
  intros Hpre Hcap Hnd. destruct (index_roundtrip cdims es f eof Hpre Hcap) as (f' & Hw & Hr).
  destruct (index_wf_spec _ _ _ Hpre) as (Hne & He & _).
  exists f', (map (expected_entry cdims) (sort_entries es)). split; [exact Hw|]. split; [exact Hr|].
  pose proof (sort_entries_perm es) as HP.
  assert (Hl : Forall (fun e => length (w_coord e) = length cdims) (sort_entries es)).
  { apply sort_entries_Forall, entries_dim. exact He. }
  split.
  - intros e Hin. apply lookup_found; auto.
    + eapply Permutation_NoDup; [|exact Hnd]. apply Permutation_map, Permutation_sym, HP.
    + eapply Permutation_in; [apply Permutation_sym, HP|exact Hin].
  - intros c Hc. apply lookup_none; auto. intros Hin. apply Hc.
    eapply Permutation_in; [apply Permutation_map, HP|exact Hin].
Qed.

(* the writer's keys: offsets of grid chunks.  The reader's division by the chunk extents inverts the writer's
   multiplication, so different chunk coordinates are never confused (the class of seeded change C01-c) *)
Lemma grid_keys_injective cdims (coords : list (list N)) :
  posl cdims -> Forall (fun c => length c = length cdims) coords -> NoDup coords ->
  NoDup (map (fun c => scaled_of_key cdims (chunk_key cdims c)) coords).
Proof.
  intros Hp Hl Hnd. rewrite (map_ext_in _ (fun c => c)); [rewrite map_id; exact Hnd|].
  intros c Hin. rewrite Forall_forall in Hl. apply scaled_key_id; auto.
Qed.

(* ------------------------------------------------------------------ (iii) index + chunk bytes + placement *)

Lemma bind_fold_err {A B} (f : A -> B -> res A) l e :
  fold_left (fun acc b => match acc with Chunk.Ok x => f x b | Chunk.Err e => Chunk.Err e end) l (Chunk.Err e) = Chunk.Err e.
Proof. induction l; cbn [fold_left]; auto. Qed.
Lemma bind_fold_cons {A B} (f : A -> B -> res A) x l a :
  bind_fold f (x :: l) a = match f a x with Chunk.Ok a' => bind_fold f l a' | Chunk.Err e => Chunk.Err e end.
Proof. unfold bind_fold. cbn [fold_left]. destruct (f a x); [reflexivity|apply bind_fold_err]. Qed.

Lemma total_elements_prod dims : prodN dims < 18446744073709551616 -> posl dims -> total_elements dims = prodN dims.
Proof.
  unfold total_elements. intros Hb Hp.
  assert (G : forall l t, posl l -> 0 < t -> t * prodN l < 18446744073709551616 ->
              fold_left (fun t d => wrap64 (t * d)) l t = t * prodN l).
  { induction l as [|d r IH]; intros t Hl Ht Hlt; [rewrite ?prodN_cons in *|rewrite prodN_cons in *]; cbn [fold_left].
    - unfold prodN. cbn [fold_right]. lia.
    - apply Forall_cons_iff in Hl as [Hd Hr].
      pose proof (prodN_pos r Hr) as Hpr.
      assert (Hw : wrap64 (t * d) = t * d) by (unfold wrap64; apply N.mod_small; nia).
      rewrite Hw, IH; auto; nia. }
  rewrite G; auto; lia.
Qed.

Section Compose.
Variables (dims cdims : list N) (esz : N) (data : bytes).
Hypothesis Hshape : shape_ok dims cdims esz.
Hypothesis Hdata : lenN data = vol dims esz.

Let xp (c : list N) : bytes := extract_padded dims cdims esz data c.

(* what the file holds for a written entry: a valid size and, at its address, the padded chunk of its coordinate *)
Definition entry_stored (f : bytes) (e : wentry) : Prop :=
  validate_size (w_nbytes e) MAX_CHUNK = true /\
  read_bytes_at f (w_addr e) (w_nbytes e) = Some (xp (sc_of cdims e)).

Lemma place_chunks_fold f : forall (S : list wentry) raw,
  length cdims = length dims ->
  Forall (fun e => length (w_coord e) = length cdims) S -> Forall (entry_stored f) S ->
  place_chunks f dims cdims esz (map (expected_entry cdims) S) raw
  = match bind_fold (fun full kc => copy_chunk_to_array (snd kc) full (scaled_of_key cdims (fst kc)) cdims dims esz)
                    (map (fun e => (w_coord e, xp (sc_of cdims e))) S) raw with
    | Chunk.Ok d => COk d
    | Chunk.Err c => if c =? E_RANK0 then CPanic else CErr
    end.
Proof.
  intros S raw Hc. revert raw. induction S as [|e r IH]; intros raw Hl Hs; [reflexivity|].
  apply Forall_cons_iff in Hl as [Hl0 Hlr]. apply Forall_cons_iff in Hs as [[Hv Hrd] Hsr].
  cbn [map place_chunks expected_entry]. unfold k_nbytes, k_scaled. cbn [fst snd].
  rewrite Hv. cbn [negb]. rewrite Hrd. rewrite bind_fold_cons. cbn [fst snd].
  rewrite firstn_all2 by (rewrite length_scaled_of_key; lia).
  rewrite firstn_all2 by lia.
  unfold sc_of. destruct (copy_chunk_to_array _ raw _ cdims dims esz) as [raw'|code]; [|reflexivity].
  apply IH; auto.
Qed.

Theorem read_chunked_file_correct rp f root (es : list wentry) :
  vol dims esz <= MAX_CHUNK * 1024 -> esz <= 4294967295 ->
  (exists S, Permutation S es /\ read_index rp f root 8 cdims = COk (map (expected_entry cdims) S)) ->
  Permutation (map w_coord es) (map (chunk_key cdims) (all_chunk_coords dims cdims)) ->
  Forall (entry_stored f) es ->
  read_chunked_file rp f root 8 dims cdims esz = COk data.
Proof.
  intros Hvol Hesz (S & HP & Hri) Hkeys Hst.
  destruct Hshape as (Hne & Hc & Hpd & Hpc & Hez).
  unfold read_chunked_file. replace (Nat.ltb (length cdims) (length dims)) with false
    by (symmetry; apply Nat.ltb_ge; lia).
  unfold read_index in Hri.
  destruct (parse_node rp f root 8 (length cdims) cdims) as [nd| |]; try discriminate.
  assert (Hpp : 0 < prodN dims) by (apply prodN_pos; exact Hpd).
  assert (Hv : vol dims esz = prodN dims * esz) by apply vol_prod.
  unfold MAX_CHUNK in *.
  rewrite total_elements_prod by (auto; nia).
  replace (negb (prodN dims =? 0) && negb (esz =? 0) && (U64MAX / esz <? prodN dims)) with false.
  2:{ symmetry. apply andb_false_iff. right. apply N.ltb_ge. unfold U64MAX.
      apply N.div_le_lower_bound; nia. }
  unfold validate_size at 1. rewrite <- Hv.
  replace (negb (vol dims esz =? 0) && (vol dims esz <=? 1073741824 * 1024)) with true
    by (symmetry; apply andb_true_iff; split; [apply negb_true_iff, N.eqb_neq; nia|apply N.leb_le; lia]).
  cbn [negb]. rewrite Hri.
  (* the collected entries: coordinates, sizes, bytes *)
  assert (HinS : forall e, In e S -> exists c, In c (all_chunk_coords dims cdims) /\ w_coord e = chunk_key cdims c).
  { intros e Hin. apply (Permutation_in _ HP) in Hin.
    assert (Hk : In (w_coord e) (map w_coord es)) by (apply in_map; exact Hin).
    apply (Permutation_in _ Hkeys) in Hk. apply in_map_iff in Hk as (c & Hck & Hcin). exists c. auto. }
  assert (Hclen : forall c, In c (all_chunk_coords dims cdims) -> length c = length cdims).
  { intros c Hin. rewrite all_chunk_coords_enum in Hin by auto. apply in_coords_length in Hin.
    rewrite Hin, length_num_chunks; auto. }
  assert (Hlen : Forall (fun e => length (w_coord e) = length cdims) S).
  { apply Forall_forall. intros e Hin. destruct (HinS e Hin) as (c & Hcin & ->).
    unfold chunk_key. specialize (Hclen c Hcin). clear - Hclen. revert cdims Hclen.
    induction c as [|x c IH]; intros [|k ks] H; try discriminate; auto. cbn [zipWith length] in *. f_equal. apply IH. lia. }
  rewrite place_chunks_fold; auto.
  2:{ eapply Permutation_Forall; [apply Permutation_sym, HP|exact Hst]. }
  (* the same fold as read_chunked on (key, chunk) pairs of a permutation of the grid *)
  assert (Hmap : map (fun e => (w_coord e, xp (sc_of cdims e))) S
                 = map (fun c => (chunk_key cdims c, extract_padded dims cdims esz data c)) (map (sc_of cdims) S)).
  { rewrite map_map. apply map_ext_in. intros e Hin. destruct (HinS e Hin) as (c & Hcin & Hk).
    unfold xp, sc_of. rewrite Hk, scaled_key_id by (auto; apply Hclen; auto). reflexivity. }
  rewrite Hmap.
  assert (Hperm : Permutation (map (sc_of cdims) S) (all_chunk_coords dims cdims)).
  { rewrite (Permutation_map (sc_of cdims) HP).
    unfold sc_of. rewrite <- (map_map w_coord (scaled_of_key cdims)).
    rewrite (Permutation_map (scaled_of_key cdims) Hkeys). rewrite map_map.
    rewrite (map_ext_in _ (fun c => c)); [rewrite map_id; reflexivity|].
    intros c Hin. apply scaled_key_id; auto. }
  pose proof (chunk_tiling_any_order dims cdims esz data (map (sc_of cdims) S)
                (conj Hne (conj Hc (conj Hpd (conj Hpc Hez)))) Hdata Hperm) as Ht.
  unfold read_chunked in Ht. rewrite existsb_zero_pos in Ht by auto.
  fold (vol dims esz) in Ht. rewrite Ht. reflexivity.
Qed.
End Compose.

(* chunk bytes written before the index (below its address) are still read after the index has been written *)
Lemma read_at_some_bound f off n b : read_at f off n = Some b -> off + n <= blen f.
Proof.
  unfold read_at. destruct ((off <=? MAXINT64) && (off + n <=? blen f)) eqn:E; [|discriminate].
  intros _. apply andb_true_iff in E as [_ E]. apply N.leb_le in E. exact E.
Qed.

Lemma wrap64_no_overflow off n :
  off <= 9223372036854775807 -> n < 18446744073709551616 -> off <= wrap64 (off + n) -> wrap64 (off + n) = off + n.
Proof.
  intros Ho Hn Hle. unfold wrap64 in *. apply N.mod_small.
  destruct (N.lt_ge_cases (off + n) 18446744073709551616) as [|Hge]; [assumption|exfalso].
  assert (Hm : (off + n) mod 18446744073709551616 = off + n - 18446744073709551616).
  { symmetry. apply (N.mod_unique _ _ 1); lia. }
  rewrite Hm in Hle. lia.
Qed.

Lemma read_at_some_off f off n b : read_at f off n = Some b -> off <= 9223372036854775807.
Proof.
  unfold read_at. destruct (off <=? MAXINT64) eqn:E; [|discriminate].
  intros _. apply N.leb_le in E. exact E.
Qed.

Lemma read_bytes_at_write_at_before f buf a off n b :
  off + n <= a -> n <> 0 -> n < 18446744073709551616 ->
  read_bytes_at f off n = Some b -> read_bytes_at (write_at f a buf) off n = Some b.
Proof.
  intros Ha Hn Hn64. unfold read_bytes_at. replace (n =? 0) with false by (symmetry; apply N.eqb_neq; auto).
  destruct ((wrap64 (off + n) <? off) || (MAXINT64 <? wrap64 (off + n))) eqn:E; [discriminate|].
  apply orb_false_iff in E as [E1 E2]. apply N.ltb_ge in E1.
  destruct (read_at f (wrap64 (off + n) - 1) 1) as [p|] eqn:Ep; [|discriminate].
  intros Hr. pose proof (read_at_some_bound _ _ _ _ Hr) as Hb.
  pose proof (read_at_some_off _ _ _ _ Hr) as Hoff.
  pose proof (wrap64_no_overflow off n Hoff Hn64 E1) as Hw.
  rewrite Hw in Ep. rewrite Hw.
  pose proof (read_at_some_bound _ _ _ _ Ep) as Hpb.
  assert (G1 : off + n - 1 + 1 <= a) by (clear - Ha Hn; lia).
  rewrite (write_at_before f buf a (off + n - 1) 1 G1 Hpb), Ep.
  rewrite (write_at_before f buf a off n Ha Hb). exact Hr.
Qed.

