(* C17: hdf5.Open (Model/IOProgOpen.v).
   - with the repaired readSignature the loader is in the strict fragment for every load budget;
   - a smaller budget / file size (what a truncated file gives) can only turn the answer into an error;
   - the unrepaired readSignature is outside the fragment: loadchildren_sig_refuted. *)
From HV Require Import Base.Prelude Base.Outcome Base.Bytes Model.IOProg Proofs.IOProg Model.IOProgReader Proofs.IOProgReader.
From HV Require Import Model.IOProgOpen.
From HV Require Import Model.CodecSuper Model.CodecOhdr Model.CodecMsg Model.CodecType Model.CodecLink.

Section Loader.
Variable sb : superblock'.
Hypothesis Hl : valid_size (spp_lensize sb) = true.
Variable budget : N.
Variable hfuel : nat.

Local Hint Resolve p_ohdr_strict p_attrs_strict p_snod_strict p_local_heap_strict p_group_btree_strict : core.

Lemma p_sig_strict A addr (k : bytes -> prog A) : (forall b, strict (k b)) -> strict (p_sig true addr k).
Proof. intros H. unfold p_sig. now apply st_read. Qed.

Lemma with_header_strict A addr (k : ohdr' -> prog A) : (forall h, strict (k h)) -> strict (with_header sb hfuel addr k).
Proof.
  intros H. unfold with_header. apply strict_bind; [auto|]. intros h.
  apply st_swallow_ignore; [| reflexivity | apply H].
  apply strict_bind; [apply p_attrs_strict; exact Hl | intros; constructor].
Qed.

Lemma p_btre_entries_strict n : forall addr i, strict (p_btre_entries sb n addr i).
Proof. induction n; intros; cbn [p_btre_entries]; strict_auto. Qed.
Lemma p_btre_strict addr : strict (p_btre sb addr).
Proof. unfold p_btre. strict_auto. apply p_btre_entries_strict. Qed.

Section WithRec.
Variable rec : req -> lstate -> prog (node * lstate).
Hypothesis Hrec : forall r st, strict (rec r st).

Lemma load_entry_strict heap e st : strict (load_entry rec heap e st).
Proof. destruct e as [[[[lo oa] ct] cb] ch]. unfold load_entry. strict_auto. Qed.

Lemma load_entries_strict heap es : forall st, strict (load_entries rec heap es st).
Proof.
  induction es; intros; cbn [load_entries]; [constructor|].
  destruct (is_soft a); [apply IHes|].
  apply strict_bind; [apply load_entry_strict|]. intros x. strict_auto.
Qed.

Lemma children_loop_strict heap es : forall st, strict (children_loop true sb rec heap es st).
Proof.
  induction es as [|e r IH]; intros; cbn [children_loop]; [constructor|].
  destruct (is_soft e); [apply IH|].
  destruct e as [[[[lo oa] ct] cb] ch].
  apply p_sig_strict. intros sg.
  destruct ((lo =? 0) && bytes_eqb sg SNOD).
  - apply strict_bind; [auto|]. intros nes.
    apply strict_bind; [apply load_entries_strict|]. intros x. strict_auto.
  - apply strict_bind; [apply load_entry_strict|]. intros x. strict_auto.
Qed.

Lemma p_children_strict bt hp st : strict (p_children true sb rec bt hp st).
Proof.
  unfold p_children. destruct (mem bt (vbt st)); [constructor|].
  apply strict_bind; [auto|]. intros heap.
  apply p_sig_strict. intros sg.
  destruct (bytes_eqb sg [84; 82; 69; 69]).
  - apply strict_bind; [auto|]. intros; apply children_loop_strict.
  - destruct (bytes_eqb sg [66; 84; 82; 69]); [|constructor].
    apply strict_bind; [apply p_btre_strict|]. intros; apply children_loop_strict.
Qed.

Lemma root_heap_strict h : strict (root_heap sb h).
Proof. unfold root_heap. strict_auto. Qed.

Lemma load_entries_trad_strict heap es : forall st, strict (load_entries_trad rec heap es st).
Proof.
  induction es as [|e r IH]; intros; cbn [load_entries_trad]; [constructor|].
  destruct (is_soft e); [apply IH|].
  destruct e as [[[[lo oa] ct] cb] ch]. strict_auto.
Qed.

Lemma p_trad_strict addr st : strict (p_trad sb hfuel rec addr st).
Proof.
  unfold p_trad. apply strict_bind; [auto|]. intros es.
  apply st_swallow_fail.
  - apply with_header_strict. intros; constructor.
  - intros [h|]; [|constructor].
    apply strict_bind; [apply root_heap_strict|]. intros [heap|]; [|constructor].
    apply strict_bind; [apply load_entries_trad_strict|]. intros; constructor.
  - reflexivity.
Qed.

Lemma load_links_strict ms : forall st, strict (load_links sb rec ms st).
Proof.
  induction ms as [|m r IH]; intros; cbn [load_links]; [constructor|].
  destruct (negb (hmp_type m =? 6)); [apply IH|]. strict_auto.
Qed.

Lemma p_modern_strict addr st : strict (p_modern true sb hfuel rec addr st).
Proof.
  unfold p_modern. apply with_header_strict. intros h. cbv zeta.
  destruct (negb _); [constructor|].
  destruct (existsb _ _).
  - apply strict_bind; [apply load_links_strict|]. intros; constructor.
  - destruct (last_symtab sb (ohp_msgs h)) as [[bt hp]|].
    + apply strict_bind; [apply p_children_strict|]. intros; constructor.
    + destruct (_ && _); [|constructor].
      apply strict_bind; [apply p_children_strict|]. intros; constructor.
Qed.

Lemma p_object_strict addr name st0 : strict (p_object true sb budget hfuel rec addr name st0).
Proof.
  unfold p_object. destruct (enter budget st0 addr) as [| |st]; [constructor|constructor|].
  cbv zeta. apply p_sig_strict. intros sg.
  destruct (bytes_eqb sg SNOD).
  - apply strict_bind; [auto|]. intros es.
    assert (Ht : strict (bind (p_trad sb hfuel rec addr st)
                           (fun x => Ret (fst (rename_nonempty name (fst x), snd x), leave (snd (rename_nonempty name (fst x), snd x)) addr)))).
    { apply strict_bind; [apply p_trad_strict|]. intros; constructor. }
    destruct es as [|[[[[lo oa] ct] cb] ch] [|e2 es]]; try exact Ht.
    apply with_header_strict. intros h.
    apply strict_bind; [apply root_heap_strict|]. intros [heap|]; [|exact Ht].
    destruct (heap_string heap lo) as [nm| |]; try exact Ht.
    destruct (bytes_eqb nm name); [|exact Ht].
    apply strict_bind; [apply Hrec|]. intros; constructor.
  - apply with_header_strict. intros h. cbv zeta.
    destruct (det_type (ohp_msgs h) =? 0).
    { apply strict_bind; [apply Hrec|]. intros; constructor. }
    destruct (det_type (ohp_msgs h) =? 1); [constructor|].
    destruct (det_type (ohp_msgs h) =? 2).
    { destruct (find_msg_first 3 (ohp_msgs h)); [|constructor].
      apply strict_bind; [apply strict_lift|]. intros; constructor. }
    destruct (spp_version sb =? 0); [|constructor].
    apply st_swallow_fail.
    + apply strict_bind; [apply Hrec|]. intros; constructor.
    + intros [x|]; constructor.
    + reflexivity.
Qed.

Lemma p_group_strict addr st : strict (p_group true rec addr st).
Proof.
  unfold p_group. destruct (addr =? 0); [constructor|].
  apply p_sig_strict. intros sg. destruct (bytes_eqb sg SNOD); apply Hrec.
Qed.

Lemma p_cached_strict addr name bt hp st : strict (p_cached true sb rec addr name bt hp st).
Proof. unfold p_cached. apply strict_bind; [apply p_children_strict|]. intros; constructor. Qed.

Lemma dispatch_strict r st : strict (dispatch true sb budget hfuel rec r st).
Proof.
  destruct r; cbn [dispatch];
    [apply p_object_strict | apply p_group_strict | apply p_modern_strict | apply p_trad_strict | apply p_cached_strict].
Qed.
End WithRec.

Theorem p_load_strict fuel : forall r st, strict (p_load true sb budget hfuel fuel r st).
Proof.
  induction fuel; intros; cbn [p_load]; [constructor|]. apply dispatch_strict. exact IHfuel.
Qed.
End Loader.

(* the superblock ReadSuperblock returns has validated sizes (superblock.go:131) *)
Lemma dec_sb_buf_valid buf n sb : dec_sb_buf buf n = Ok sb -> valid_size (spp_lensize sb) = true.
Proof.
  unfold dec_sb_buf.
  destruct (n <? 48); [discriminate|].
  destruct (slice buf 0 8); cbn [obind]; try discriminate.
  destruct (negb _); [discriminate|].
  destruct (index buf 8) as [version| |]; cbn [obind]; try discriminate.
  destruct (negb _); [discriminate|].
  destruct (_ && _); [discriminate|].
  match goal with |- context [obind ?X _] => destruct X as [[[be1 o1] l1]| |] end; cbn [obind]; try discriminate.
  set (os := if o1 =? 0 then 8 else o1). set (ls := if l1 =? 0 then 8 else l1).
  destruct (valid_size os && valid_size ls) eqn:E; cbn [negb]; [|discriminate].
  apply andb_true_iff in E. destruct E as [_ E].
  destruct (version =? 0).
  - destruct (read_value buf (24 + 4 * os + os) os be1); cbn [obind]; try discriminate.
    destruct (read_value buf (24 + 4 * os + 2 * os + 8) os be1); cbn [obind]; try discriminate.
    destruct (read_value buf (24 + 4 * os + 2 * os + 8 + os) os be1); cbn [obind]; try discriminate.
    intros H; inversion H; subst; exact E.
  - destruct (read_value buf 12 os be1); cbn [obind]; try discriminate.
    destruct (read_value buf (12 + os) os be1); cbn [obind]; try discriminate.
    destruct (read_value buf (12 + 3 * os) os be1); cbn [obind]; try discriminate.
    intros H; inversion H; subst; exact E.
Qed.

(* Open with a given file size *)
Theorem p_open_strict fsize fuel hfuel : strict (p_open true fsize fuel hfuel).
Proof.
  unfold p_open. apply st_read. intros s.
  destruct (negb (bytes_eqb s signature)); [constructor|].
  (* the continuation of the superblock read only runs on superblocks the decoder returned *)
  unfold p_superblock. cbn [bind].
  apply st_short.
  - intros b g. destruct (dec_sb_buf b g) as [sb| |] eqn:E; cbn [lift bind]; [|constructor|constructor].
    destruct (fsize <=? spp_root sb); [constructor|].
    apply strict_bind; [|intros; constructor].
    apply p_load_strict. eapply dec_sb_buf_valid; eassumption.
  - intros b b' g g' H1 H2 L1 L2 H3.
    destruct (dec_sb_buf_safe b b' g g' H1 H2 L1 L2 H3) as [E|E]; rewrite E; [left|right]; reflexivity.
Qed.

(* ------------------------------------------------------------------ the unrepaired readSignature is outside the fragment *)

(* the shape of group.go:447-484 with readSignature as it was before /repo 216d529, returning "" on a failed read: 4 bytes are read at [a];
   "SNOD" selects one way of listing the entry, anything else (also "") the other; both succeed *)
Definition sig_dispatch (a : N) : prog N :=
  Swallow (ReadAt a 4 (fun b => Ret b)) [] (fun sg => if bytes_eqb sg SNOD then Ret 1 else Ret 2).

Lemma loadchildren_sig_refuted :
  exists f k, run0 f (sig_dispatch 0) = Ok 1 /\ fst (run f (fault_at k FailIO) 0 (sig_dispatch 0)) = Ok 2.
Proof. exists SNOD, 0%nat. split; vm_compute; reflexivity. Qed.

(* and p_sig false is exactly that shape *)
Lemma p_sig_unrepaired_shape a :
  p_sig false a (fun sg => if bytes_eqb sg SNOD then Ret 1 else Ret 2) = sig_dispatch a.
Proof. reflexivity. Qed.
