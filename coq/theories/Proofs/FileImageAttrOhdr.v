(* C02 at byte level, object header stage without slack: the reader program p_ohdr on a placed version 2 header whose messages
   all carry at least TWO data bytes needs nothing behind the header (the 6 bytes fetched for the last 4-byte message prefix stay
   inside the header).  Variant of Proofs/FileImageOhdr.v p_ohdr_placed (which asks for two bytes behind the header instead):
   needed for the dataset header that fills its 7+255-byte reserve completely after WriteAttribute. *)
From HV Require Import Base.Prelude Base.Outcome Base.Bytes Model.IOProg Proofs.IOProg Model.IOProgReader.
From HV Require Import Model.CodecSuper Model.CodecOhdr Model.FileImage Proofs.FileImage Proofs.FileImageOhdr.

Definition msg_ok2 (m : hmsg) : Prop := hm_type m < 256 /\ hm_type m <> MSG_CONT /\ 2 <= blen (hm_data m).
Lemma ok2_ok ms : Forall msg_ok2 ms -> Forall msg_ok ms.
Proof. apply Forall_impl. intros m (H1 & H2 & H3). repeat split; auto. blia. Qed.

Section Ohdr2.
Variable sb : superblock'.

Lemma v2_loop_placed2 : forall ms fuel f cur E acc tail,
  placed f cur (body_v2 ms ++ tail) -> Forall msg_ok2 ms -> (length ms < fuel)%nat ->
  chunk_size_v2 ms <= 255 -> cur + chunk_size_v2 ms = E + 4 -> E + 300 < B63 ->
  run0 f (p_v2_loop sb fuel false 4 cur E false [] [] acc) = Ok (acc ++ msgs_at_v2 ms cur).
Proof.
  unfold B63. induction ms as [|m r IH]; intros fuel f cur E acc tail HP HF Hfu Hc HE HB.
  - destruct fuel as [|fuel']; [cbn [length] in Hfu; blia|]. cbn [p_v2_loop].
    change (chunk_size_v2 []) with 0 in HE.
    replace (cur <? E) with false by (symmetry; apply N.ltb_ge; blia).
    cbn [msgs_at_v2]. rewrite app_nil_r. reflexivity.
  - destruct fuel as [|fuel']; [cbn [length] in Hfu; blia|]. cbn [length] in Hfu.
    inversion HF as [|m' r' Hm Hr]; subst m' r'. destruct Hm as (Hty & Hnc & Hlen).
    rewrite chunk_size_cons in Hc, HE. rewrite body_v2_cons in HP. unfold enc_msg_v2 in HP.
    set (d := hm_data m) in *. set (ty := hm_type m) in *.
    assert (Hw16 : wrap16 (blen d) = blen d) by (unfold wrap16; apply N.mod_small; blia).
    assert (Hw8 : wrap8 ty = ty) by (unfold wrap8; apply N.mod_small; blia).
    rewrite Hw16, Hw8 in HP.
    cbn [p_v2_loop].
    replace (cur <? E) with true by (symmetry; apply N.ltb_lt; blia).
    cbn [andb].
    (* the message prefix *)
    assert (HP6 : placed f cur ([ty] ++ le 2 (blen d) ++ [0] ++ (d ++ body_v2 r ++ tail)))
      by (rewrite <- ?app_assoc in HP; rewrite <- ?app_assoc; exact HP).
    rewrite (run0_read_placed0 _ f cur _ 6 _ HP6)
      by (rewrite !blen_app, blen_le; change (blen [ty]) with 1; change (blen [0]) with 1; blia).
    destruct (hdr_decode ty (blen d) (d ++ body_v2 r ++ tail)) as (I0 & I1);
      [blia | rewrite !blen_app; blia |].
    brewrite I0. cbn [obind]. brewrite I1. cbn [obind lift bind fst snd].
    replace (blen d =? 0) with false by (symmetry; apply N.eqb_neq; blia).
    (* the data *)
    rewrite (wrap64_small (cur + 4)) by blia.
    assert (HPd : placed f (cur + 4) d).
    { replace 4 with (blen ([ty] ++ le 2 (blen d) ++ [0])) by (rewrite !blen_app, blen_le; reflexivity).
      apply (placed_sub f cur _ d (body_v2 r ++ tail)). rewrite <- ?app_assoc. rewrite <- ?app_assoc in HP6. exact HP6. }
    rewrite (run0_read_exact _ f (cur + 4) d (blen d) _ HPd eq_refl).
    replace (ty =? MSG_CONT) with false by (symmetry; apply N.eqb_neq; exact Hnc).
    rewrite (wrap64_small (cur + 4 + blen d)) by blia.
    rewrite (IH fuel' f (cur + 4 + blen d) E _ tail); auto; try blia.
    + rewrite <- app_assoc. reflexivity.
    + replace (cur + 4 + blen d) with (cur + blen ([ty] ++ le 2 (blen d) ++ [0] ++ d))
        by (rewrite !blen_app, blen_le; change (blen [ty]) with 1; change (blen [0]) with 1; blia).
      apply placed_tail. rewrite <- ?app_assoc. rewrite <- ?app_assoc in HP6. exact HP6.
Qed.

Definition ohdr_ok2 (x : ohdr) : Prop :=
  oh_version x = 2 /\ oh_flags x = 0 /\ chunk_size_v2 (oh_msgs x) <= 255 /\ oh_msgs x <> [] /\ Forall msg_ok2 (oh_msgs x).

Lemma p_ohdr_placed2 fuel f a x tail :
  ohdr_ok2 x -> placed f a (enc_ohdr_v2 x ++ tail) -> (length (oh_msgs x) < fuel)%nat ->
  a + 600 < B63 ->
  run0 f (p_ohdr sb fuel a) = Ok (proj_ohdr_v2 (spp_bigendian sb) x a).
Proof.
  unfold B63. intros (Hv & Hfl & Hc & Hne & HF) HP Hfu HB.
  destruct x as [ver flags rc ms]. cbn [oh_version oh_flags oh_msgs] in *. subst ver flags.
  unfold enc_ohdr_v2 in HP. cbn [oh_version oh_flags oh_msgs] in HP.
  assert (Hw8 : wrap8 (chunk_size_v2 ms) = chunk_size_v2 ms) by (unfold wrap8; apply N.mod_small; blia).
  rewrite Hw8 in HP. set (cs := chunk_size_v2 ms) in *.
  assert (Hbody : blen (body_v2 ms) = cs) by (apply blen_body_v2; auto; apply ok2_ok; auto).
  assert (Hcs : 5 <= cs).
  { subst cs. destruct ms as [|m r]; [congruence|]. rewrite chunk_size_cons. inversion HF as [|? ? Hm ?]; subst.
    destruct Hm as (_ & _ & ?). blia. }
  unfold p_ohdr.
  replace (9223372036854775808 <=? a) with false by (symmetry; apply N.leb_gt; blia).
  assert (HP' : placed f a ([79; 72; 68; 82; 2; 0; cs] ++ body_v2 ms ++ tail))
    by (rewrite <- ?app_assoc in HP; exact HP).
  rewrite (run0_read_placed0 _ f a _ 8 _ HP') by (rewrite !blen_app, Hbody; change (blen [79; 72; 68; 82; 2; 0; cs]) with 7; blia).
  assert (E8 : rd ([79; 72; 68; 82; 2; 0; cs] ++ body_v2 ms ++ tail) 0 8
               = 79 :: 72 :: 68 :: 82 :: 2 :: 0 :: cs :: firstn 1 (body_v2 ms ++ tail)) by reflexivity.
  brewrite E8. match goal with |- context [firstn 1 ?Z] => set (Y := firstn 1 Z) end. unfold OHDR.
  change (firstn 4 (79 :: 72 :: 68 :: 82 :: 2 :: 0 :: cs :: Y)) with [79; 72; 68; 82].
  change (bytes_eqb [79; 72; 68; 82] [79; 72; 68; 82]) with true. cbv iota.
  change (index (79 :: 72 :: 68 :: 82 :: 2 :: 0 :: cs :: Y) 4) with (@Ok N 2).
  change (index (79 :: 72 :: 68 :: 82 :: 2 :: 0 :: cs :: Y) 5) with (@Ok N 0).
  cbn [lift obind bind fst snd]. change (2 =? 1) with false. change (2 =? 2) with true. cbv iota.
  (* parseV2Header *)
  unfold p_v2_header.
  change (N.testbit 0 5) with false. change (N.testbit 0 4) with false. change (N.testbit 0 2) with false.
  change (N.shiftl 1 (N.land 0 3)) with 1. cbv iota.
  rewrite (wrap64_small (a + 6)) by blia.
  assert (HPc : placed f (a + 6) [cs]).
  { apply (placed_sub f a [79; 72; 68; 82; 2; 0] [cs] (body_v2 ms ++ tail)). exact HP'. }
  cbn [bind]. rewrite (run0_read_exact _ f (a + 6) [cs] 1 _ HPc eq_refl).
  cbn [andb negb N.eqb].
  assert (Hrd : rd_le [cs] 0 1 = Ok cs).
  { unfold rd_le, slice. change ((0 <=? 0 + 1) && (0 + 1 <=? blen [cs])) with true. cbv iota.
    change (firstn (N.to_nat (0 + 1 - 0)) (skipn (N.to_nat 0) [cs])) with [cs]. cbn [obind unle]. f_equal. blia. }
  rewrite Hrd. cbn [lift bind].
  rewrite (wrap64_small (a + 6 + 1)) by blia.
  rewrite (wrap64_small (a + 6 + 1 + cs)) by blia.
  rewrite sub64_small by blia.
  rewrite !run0_bind.
  rewrite (v2_loop_placed2 ms fuel f (a + 6 + 1) (a + 6 + 1 + cs - 4) [] tail); auto; try (unfold B63; blia).
  - cbn [app]. unfold proj_ohdr_v2. cbn [oh_flags oh_msgs]. replace (a + 6 + 1) with (a + 7) by blia. reflexivity.
  - replace (a + 6 + 1) with (a + blen [79; 72; 68; 82; 2; 0; cs]) by (change (blen [79; 72; 68; 82; 2; 0; cs]) with 7; blia).
    apply placed_tail. exact HP'.
Qed.
End Ohdr2.
