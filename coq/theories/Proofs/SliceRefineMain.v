(* C09 at file level, contiguous layout, Part 2: for EVERY valid selection the I/O program of readHyperslabContiguous
   (Model/IOProgSlice.v p_slice_contig), run on a file in which the dataset's data block is placed, succeeds, and what Go
   computes from the bytes it read (Model/SliceRefine.v slice_value) is what C09's element-level model of the same function
   (Model/Hyperslab.v read_hyperslab_contiguous) returns on the element values of the data block. *)
From HV Require Import Base.Prelude Base.Outcome Base.Bytes Model.IOProg Proofs.IOProg Model.IOProgReader Model.IOProgSlice.
From HV Require Import Model.SliceRefine Proofs.FileImage Proofs.FileImageOhdr Proofs.SliceRefineBytes Proofs.SliceRefineContig.
From HV Require Import Proofs.SliceRefineArith.
From HV Require Proofs.HyperslabBase Proofs.HyperslabRaw Proofs.HyperslabContig Proofs.SliceRefineFit.
Module Fit := HV.Proofs.SliceRefineFit.

Section Contig.
Variable f : bytes.
Variables addr es : N.
Variable data : bytes.
Hypothesis Hpl : placed f addr data.
Hypothesis Hes : 0 < es.
Hypothesis Hmax : addr + blen data <= MAXI64.
Variable dims : list N.
Hypothesis Hlen : blen data = Hs.prodN dims * es.
Hypothesis HP : Hs.prodN dims < 4294967296.

Lemma elems_total : blen data / es = Hs.prodN dims.
Proof. rewrite Hlen. apply div_exact_mul. exact Hes. Qed.

(* the element-wise path on a [d0; d1] dataset *)
Lemma path_2d d0 d1 a0 a1 : dims = [d0; d1] -> Hs.axes_valid [a0; a1] [d0; d1] ->
  exists l,
    run0 f (bind (p_elems (flat_map (fun row => map (fun col => wrap64 (addr + wrap64 (wrap64 (wrap64 (row * d1) + col) * es)))
                                                     (Hs.axis_idx a1)) (Hs.axis_idx a0)) es) (fun r => Ret (SlElems r)))
    = Ok (SlElems l) /\
    slice_value es dims [] [a0; a1] (SlElems l) = Hs.read_contiguous_2d (evals es data) d0 d1 a0 a1.
Proof.
  intros Ed V.
  assert (V0 : Hs.axis_valid a0 d0) by (inversion V; assumption).
  assert (V1 : Hs.axis_valid a1 d1) by (inversion V as [|? ? ? ? _ Vr]; inversion Vr; assumption).
  pose proof HP as HP'. rewrite Ed in HP'.
  assert (Hprod : Hs.prodN [d0; d1] = d0 * d1) by (cbn [Hs.prodN]; lia).
  set (idx := flat_map (fun row => map (fun col => row * d1 + col) (Hs.axis_idx a1)) (Hs.axis_idx a0)).
  assert (Hin : forall i, In i idx -> i < d0 * d1).
  { intros i Hi. apply in_flat_map in Hi. destruct Hi as (row & Hr & Hi). apply in_map_iff in Hi. destruct Hi as (col & <- & Hc).
    destruct (HB.axis_idx_bound _ _ _ V0 Hr) as (_ & _ & B0). destruct (HB.axis_idx_bound _ _ _ V1 Hc) as (_ & _ & B1). nia. }
  assert (Eoffs : flat_map (fun row => map (fun col => wrap64 (addr + wrap64 (wrap64 (wrap64 (row * d1) + col) * es)))
                                           (Hs.axis_idx a1)) (Hs.axis_idx a0)
                  = map (fun i => wrap64 (addr + wrap64 (i * es))) idx).
  { unfold idx. rewrite HB.map_flat_map. apply HB.flat_map_ext_in. intros row Hr. rewrite map_map. apply map_ext_in. intros col Hc.
    destruct (HB.axis_idx_bound _ _ _ V0 Hr) as (_ & _ & B0). destruct (HB.axis_idx_bound _ _ _ V1 Hc) as (_ & _ & B1).
    rewrite Hprod in HP'.
    rewrite (wrap64_small (row * d1)) by nia. rewrite (wrap64_small (row * d1 + col)) by nia. reflexivity. }
  exists (map (elem es data) idx). split.
  - rewrite Eoffs, run0_bind.
    rewrite (run_p_elems f addr es data Hpl Hes Hmax idx); [reflexivity|].
    intros i Hi. apply Hin in Hi. rewrite Hlen, Ed, Hprod. nia.
  - cbn [slice_value].
    assert (Ll : length idx = length (Hs.sel_coords [a0; a1])).
    { rewrite Fit.sel_coords_2d. unfold idx.
      rewrite !(HB.flat_map_length_const _ _ (length (Hs.axis_idx a1))); [reflexivity| |]; intros; now rewrite map_length. }
    rewrite (HB.out_elems_length [a0; a1]) by (try discriminate; exact (HB.axes_valid_block _ _ V)).
    rewrite !map_length, Ll, Nat2N.id, Nat.sub_diag. cbn [repeat]. rewrite app_nil_r.
    rewrite (HR.read_contiguous_2d_correct _ _ _ _ _ V), Fit.select_2d.
    rewrite map_map. unfold idx. rewrite HB.map_flat_map. apply HB.flat_map_ext_in. intros row Hr.
    rewrite map_map. apply map_ext_in. intros col Hc. symmetry. apply nthN_evals.
    rewrite elems_total, Ed, Hprod. apply Hin. unfold idx. apply in_flat_map. exists row. split; [exact Hr|]. apply in_map_iff. now exists col.
Qed.

End Contig.

Section Contig2.
Variable f : bytes.
Variables addr es : N.
Variable data : bytes.
Hypothesis Hpl : placed f addr data.
Hypothesis Hes : 0 < es.
Hypothesis Hmax : addr + blen data <= MAXI64.
Variable dims : list N.
Hypothesis Hlen : blen data = Hs.prodN dims * es.
Hypothesis HP : Hs.prodN dims < 4294967296.
Variable s : sel.
Hypothesis HL : sel_lens s (length dims).
Hypothesis HV : Hs.axes_valid (axes_of_sel s) dims.
Hypothesis Hne : dims <> [].

Theorem p_slice_contig_refines :
  exists sd, run0 f (p_slice_contig s dims es addr) = Ok sd /\
             slice_value es dims [] (axes_of_sel s) sd = Hs.read_hyperslab_contiguous (evals es data) dims (axes_of_sel s).
Proof.
  pose proof (axes_of_sel_length s _ HL) as Lax.
  assert (Axne : axes_of_sel s <> []). { intros E. rewrite E in Lax. destruct dims; [congruence|discriminate]. }
  pose proof (Fit.out_elems_pos _ _ HV Axne) as Hn.
  pose proof (out_size_eq s dims HL HV HP Hne) as Eo.
  assert (Est : map Hs.a_start (axes_of_sel s) = start s).
  { destruct HL as (L1 & L2 & L3 & L4). apply Fit.map_a_start_zip4; congruence. }
  pose proof (Fit.starts_lt _ _ HV) as Hst. rewrite Est in Hst.
  assert (Lst : length (start s) = length dims) by apply HL.
  assert (HP64 : Hs.prodN dims < 18446744073709551616) by lia.
  assert (Eoff : lin_off (start s) dims = Hs.lin dims (start s)).
  { rewrite lin_off_eq by assumption. now apply HB.calc_lin_spec. }
  pose proof (Fit.last_lt _ _ HV) as Hlt.
  assert (Llr : length (Hs.last_rel (axes_of_sel s)) = length dims) by (rewrite HR.last_rel_length; exact Lax).
  assert (Erl : lin_off (Hs.last_rel (axes_of_sel s)) dims = Hs.lin dims (Hs.last_rel (axes_of_sel s))).
  { rewrite lin_off_eq by assumption. now apply HB.calc_lin_spec. }
  pose proof (Fit.span_fit _ _ HV) as Fsp. rewrite Est in Fsp.
  pose proof (last_rel_eq s dims HL HV HP) as Elr.
  pose proof (is_contig_eq s dims HL HV HP) as Eic.
  pose proof (fun C => Fit.contig_fit _ _ HV Axne C) as Fct. rewrite Est in Fct.
  pose proof (sel_idx_eq s dims 0 HL HV HP) as Ei0. pose proof (sel_idx_eq s dims 1 HL HV HP) as Ei1.
  unfold p_slice_contig, Hs.read_hyperslab_contiguous. cbv zeta. rewrite Eic, Eo, Eoff, Elr, Erl.
  remember (axes_of_sel s) as ax eqn:Eax. clear Eic Eo Eoff Elr Erl.
  set (off := Hs.lin dims (start s)) in *. set (n := Hs.out_elems ax) in *. set (rl := Hs.lin dims (Hs.last_rel ax)) in *.
  assert (Wrl : wrap64 (rl + 1) = rl + 1) by (apply wrap64_small; lia). rewrite Wrl.
  assert (Hspan : (off + (rl + 1)) * es <= blen data) by (rewrite Hlen; nia).
  assert (Nz : (n =? 0) = false) by (apply N.eqb_neq; lia).
  destruct (Hs.is_contiguous_selection ax dims) eqn:C.
  - (* one read of exactly the selected elements *)
    specialize (Fct eq_refl).
    assert (Hb : (off + n) * es <= blen data) by (rewrite Hlen; nia).
    unfold Hs.read_contiguous_optimized. fold n. rewrite Nz.
    exists (SlRun (rd data (off * es) (n * es))).
    destruct dims as [|d0 [|d1 dr]]; [congruence| |].
    + destruct ax as [|a0 [|a1 ar]]; try discriminate.
      cbn [map] in Est.
      assert (E1 : nthN (start s) 0 = off /\ Hs.a_start a0 = off).
      { subst off. rewrite <- Est. cbn [nthN nth Hs.lin Hs.prodN]. split; lia. }
      destruct E1 as [E1 E2]. rewrite E1, E2. split.
      * apply path_run; assumption.
      * apply (value_run addr es data Hes Hmax); [reflexivity|assumption].
    + cbv beta iota. rewrite HB.calc_lin_spec by (rewrite map_length; exact Lax). rewrite Est. fold off. split.
      * apply path_run; assumption.
      * apply (value_run addr es data Hes Hmax); [reflexivity|assumption].
  - unfold Hs.read_contiguous_row_by_row. fold n. rewrite Nz.
    assert (SPAN : exists sd,
      run0 f (bind (p_read_bytes_at (wrap64 (addr + wrap64 (off * es))) (wrap64 ((rl + 1) * es))) (fun b => Ret (SlSpan b))) = Ok sd /\
      slice_value es dims [] ax sd =
      fst (Hs.ext_rec (Hs.read_at (evals es data) (Hs.calc_lin (map Hs.a_start ax) dims) (Hs.calc_lin (Hs.last_rel ax) dims + 1))
                      dims (Hs.zero_start ax) dims [] (Hs.zeros n, 0))).
    { exists (SlSpan (rd data (off * es) ((rl + 1) * es))). split.
      - apply path_span; try assumption. lia.
      - rewrite !HB.calc_lin_spec by (rewrite ?map_length; assumption). rewrite Est. fold off rl.
        apply value_span; assumption. }
    destruct dims as [|d0 [|d1 [|d2 dr]]]; [congruence| | |].
    + destruct ax as [|a0 [|a1 ar]]; try discriminate. exact SPAN.
    + destruct ax as [|a0 [|a1 [|a2 ar]]]; try discriminate. clear SPAN.
      specialize (Ei0 ltac:(cbn [length]; lia)). specialize (Ei1 ltac:(cbn [length]; lia)). cbn [nth] in Ei0, Ei1.
      rewrite Ei0, Ei1.
      destruct (path_2d f addr es data Hpl Hes Hmax _ Hlen HP d0 d1 a0 a1 eq_refl HV) as (l & R & Vl). exists (SlElems l). split; assumption.
    + destruct ax as [|a0 [|a1 [|a2 ar]]]; try discriminate. exact SPAN.
Qed.
End Contig2.
