(* C06 - monotonicity of tolerance, for the specification decoders and for the whole-file walker.
   [tle t1 t2]: every deviation t1 tolerates, t2 tolerates.  Then whatever a decoder / the walker accepts under t1 it accepts under t2
   with the identical result (value, tags, extents, tree): the control flow depends on the tolerance only through [dev], which is
   monotone.  [wstrict] is below every tolerance, so a strict acceptance is an acceptance under every tolerance.  Same descent as the
   fuel monotonicity of Proofs/Walk.v ([mle]). *)
From HV Require Import Base.Prelude Base.Outcome Base.Bytes Base.Crc32 Spec.Lookup3 Spec.Parse Spec.Format Spec.FormatMsg Spec.FormatNode
  Spec.FormatRef Model.Wellformed Spec.Walk Proofs.Walk.

Definition tle (t1 t2 : tolerance) : Prop := forall t, t1 t = true -> t2 t = true.
Definition ole {A} (o1 o2 : outcome A) : Prop := forall r, o1 = Ok r -> o2 = Ok r.

Lemma ole_refl {A} (o : outcome A) : ole o o.
Proof. intros r H; exact H. Qed.
Lemma ole_bind {A B} (m1 m2 : outcome A) (k1 k2 : A -> outcome B) :
  ole m1 m2 -> (forall a, ole (k1 a) (k2 a)) -> ole (obind m1 k1) (obind m2 k2).
Proof.
  intros Hm Hk r H. destruct m1 as [a| |]; cbn [obind] in H; try discriminate.
  rewrite (Hm a eq_refl). cbn [obind]. apply Hk. exact H.
Qed.
Lemma ole_err {A} (o : outcome A) : ole Err o.
Proof. intros r H; discriminate. Qed.

Section Dec.
Variables t1 t2 : tolerance.
Hypothesis T : tle t1 t2.

Lemma ole_dev t : ole (dev t1 t) (dev t2 t).
Proof. intros r H. unfold dev in *. destruct (t1 t) eqn:E; try discriminate. rewrite (T t E). exact H. Qed.
Lemma ole_devif c t : ole (devif c t1 t) (devif c t2 t).
Proof. unfold devif. destruct c; [apply ole_dev | apply ole_refl]. Qed.
Lemma ole_check_sum t cov st : ole (check_sum t1 t cov st) (check_sum t2 t cov st).
Proof. unfold check_sum. destruct (st =? spec_checksum cov); [apply ole_refl|]. destruct (st =? crc32 cov); [apply ole_dev | apply ole_refl]. Qed.

Create HintDb oledb.
Hint Resolve ole_dev ole_devif ole_check_sum ole_err : oledb.

Ltac on :=
  repeat (cbv beta zeta;
          match goal with
          | |- ole ?x ?x => apply ole_refl
          | |- ole (obind _ _) (obind _ _) => apply ole_bind; [|intros ?]
          | |- ole (match ?x with _ => _ end) (match ?x with _ => _ end) => destruct x
          | |- ole _ _ => solve [auto with oledb]
          end).

Lemma ole_superblock bs : ole (spec_dec_superblock t1 bs) (spec_dec_superblock t2 bs).
Proof. unfold spec_dec_superblock. on. Qed.
Lemma ole_chunk_checksum cov r : ole (chunk_checksum t1 cov r) (chunk_checksum t2 cov r).
Proof. unfold chunk_checksum. on. Qed.
Hint Resolve ole_chunk_checksum : oledb.
Lemma ole_ohdr2 bs : ole (spec_dec_ohdr2 t1 bs) (spec_dec_ohdr2 t2 bs).
Proof. unfold spec_dec_ohdr2. on. Qed.
Lemma ole_ochk co bs : ole (spec_dec_ochk t1 co bs) (spec_dec_ochk t2 co bs).
Proof. unfold spec_dec_ochk. on. Qed.
Lemma ole_snod o k bs : ole (spec_dec_snod t1 o k bs) (spec_dec_snod t2 o k bs).
Proof. unfold spec_dec_snod. on. Qed.
Lemma ole_btree1 o l nt nd k bs : ole (spec_dec_btree1 t1 o l nt nd k bs) (spec_dec_btree1 t2 o l nt nd k bs).
Proof. unfold spec_dec_btree1. on. Qed.
Lemma ole_fhdb o ha os ho fl bs : ole (spec_dec_fhdb t1 o ha os ho fl bs) (spec_dec_fhdb t2 o ha os ho fl bs).
Proof. unfold spec_dec_fhdb. on. Qed.
Lemma ole_fheap_hdr o l bs : ole (spec_dec_fheap_hdr t1 o l bs) (spec_dec_fheap_hdr t2 o l bs).
Proof. unfold spec_dec_fheap_hdr. on. Qed.
Lemma ole_bt2hdr o l bs : ole (spec_dec_bt2hdr t1 o l bs) (spec_dec_bt2hdr t2 o l bs).
Proof. unfold spec_dec_bt2hdr. on. Qed.
Lemma ole_bt2leaf bt n rs bs : ole (spec_dec_bt2leaf t1 bt n rs bs) (spec_dec_bt2leaf t2 bt n rs bs).
Proof. unfold spec_dec_bt2leaf. on. Qed.
Lemma ole_refcount p bs : ole (spec_dec_refcount t1 p bs) (spec_dec_refcount t2 p bs).
Proof. unfold spec_dec_refcount. on. Qed.
Lemma ole_link o p bs : ole (spec_dec_link t1 o p bs) (spec_dec_link t2 o p bs).
Proof. unfold spec_dec_link. on. Qed.
Lemma ole_pipeline p bs : ole (spec_dec_pipeline t1 p bs) (spec_dec_pipeline t2 p bs).
Proof. unfold spec_dec_pipeline. on. Qed.

Lemma ole_p_dtype p fuel : forall bs, ole (p_dtype t1 p fuel bs) (p_dtype t2 p fuel bs).
Proof.
  induction fuel as [|n IH]; intros bs; cbn [p_dtype]. apply ole_refl.
  on.
  all: try (match goal with |- ole (_ ?ow ?k ?r) (_ ?ow ?k ?r) => generalize k; intros k'; revert r; induction k' as [|k' IHk]; intros r; on end).
Qed.
End Dec.

Lemma ole_datatype t1 t2 (T : tle t1 t2) p bs : ole (spec_dec_datatype t1 p bs) (spec_dec_datatype t2 p bs).
Proof. unfold spec_dec_datatype. apply ole_bind; [apply ole_p_dtype; exact T | intros a; apply ole_refl]. Qed.
Lemma ole_attribute t1 t2 (T : tle t1 t2) l p bs : ole (spec_dec_attribute t1 l p bs) (spec_dec_attribute t2 l p bs).
Proof.
  unfold spec_dec_attribute.
  repeat (cbv beta zeta;
          match goal with
          | |- ole ?x ?x => apply ole_refl
          | |- ole (obind (spec_dec_datatype _ _ _) _) (obind _ _) => apply ole_bind; [apply ole_datatype; exact T|intros ?]
          | |- ole (obind _ _) (obind _ _) => apply ole_bind; [|intros ?]
          | |- ole (match ?x with _ => _ end) (match ?x with _ => _ end) => destruct x
          end).
Qed.
Lemma ole_attribute_sh t1 t2 (T : tle t1 t2) l p sh1 sh2 bs : (forall tb, ole (sh1 tb) (sh2 tb)) ->
  ole (spec_dec_attribute_sh t1 l p sh1 bs) (spec_dec_attribute_sh t2 l p sh2 bs).
Proof.
  intros Hs. unfold spec_dec_attribute_sh.
  repeat (cbv beta zeta;
          match goal with
          | |- ole ?x ?x => apply ole_refl
          | |- ole (obind (sh1 _) _) (obind (sh2 _) _) => apply ole_bind; [apply Hs|intros ?]
          | |- ole (obind _ _) (obind _ _) => apply ole_bind; [|intros ?]
          | |- ole (match ?x with _ => _ end) (match ?x with _ => _ end) => destruct x
          end).
Qed.
Lemma ole_omapM {A B} (g1 g2 : A -> outcome B) l : (forall x, ole (g1 x) (g2 x)) -> ole (omapM g1 l) (omapM g2 l).
Proof.
  intros Hg. induction l as [|x l IH]; cbn [omapM]. apply ole_refl.
  apply ole_bind; auto. intros y. apply ole_bind; auto. intros ys. apply ole_refl.
Qed.

(* ================================================================== the walker: wstrict is below every tolerance *)
Lemma tle_strict tol : tle (stol wstrict) (stol tol).
Proof. intros t H. discriminate. Qed.

Create HintDb tolo.
#[export] Hint Resolve tle_strict ole_superblock ole_ohdr2 ole_ochk ole_snod ole_btree1 ole_fhdb ole_fheap_hdr ole_bt2hdr ole_bt2leaf
  ole_refcount ole_link ole_pipeline ole_datatype ole_attribute : tolo.

Lemma mle_wlc {A} k (o1 o2 : outcome A) : ole o1 o2 -> mle (wlc k o1) (wlc k o2).
Proof. intros H st r E. unfold wlc in *. destruct o1 as [a| |]; try discriminate. rewrite (H a eq_refl). exact E. Qed.

Create HintDb tolw.
Ltac tn :=
  repeat (cbv beta iota zeta;
          match goal with
          | |- mle ?x ?y => constr_eq x y; apply mle_refl
          | |- mle (wfail _) _ => apply mle_err
          | |- mle (wbind _ _) (wbind _ _) => apply mle_bind; [|intros ?]
          | |- mle (wmapM _ _) (wmapM _ _) => apply mle_wmapM; intros ?
          | |- mle (wforM _ _) (wforM _ _) => apply mle_wforM; intros ?
          | |- mle (wlc _ ?o1) (wlc _ ?o2) => apply mle_wlc; first [constr_eq o1 o2; apply ole_refl | solve [auto 3 with tolo]]
          | |- mle (match ?x with _ => _ end) (match ?y with _ => _ end) => constr_eq x y; destruct x
          | |- mle (match ?o1 with _ => _ end) (match ?o2 with _ => _ end) =>
              let H := fresh "H" in assert (H : ole o1 o2) by (auto 3 with tolo);
              let a := fresh "a" in destruct o1 as [a| |]; [rewrite (H a eq_refl) | apply mle_err | apply mle_err]
          | |- mle _ _ => solve [auto 3 with tolw]
          end).

Section Tol.
Variable f : bytes.
Variable flen : N.
Variable tol : wtolerance.

Lemma tmle_sdev t : mle (sdev wstrict t) (sdev tol t).
Proof. apply mle_err. Qed.
Lemma tmle_xdev x : mle (xdev wstrict x) (xdev tol x).
Proof. apply mle_err. Qed.
Lemma tmle_xdevif b x : mle (xdevif wstrict b x) (xdevif tol b x).
Proof. unfold xdevif. destruct b; [apply tmle_xdev | apply mle_refl]. Qed.
Hint Resolve tmle_sdev tmle_xdev tmle_xdevif : tolw.

Lemma tmle_superblock : mle (walk_superblock f flen wstrict) (walk_superblock f flen tol).
Proof. unfold walk_superblock. tn. Qed.

Variable c : wctx.

Lemma tmle_cont2_body co r1 r2 : (forall ms, mle (r1 ms) (r2 ms)) ->
  forall ms, mle (cont2_body f flen wstrict c co r1 ms) (cont2_body f flen tol c co r2 ms).
Proof. intros Hr ms. unfold cont2_body. tn. Qed.
Lemma tmle_cont2 co n : forall ms, mle (cont2 f flen wstrict c co n ms) (cont2 f flen tol c co n ms).
Proof. induction n; intros ms; cbn [cont2]. apply mle_err. apply tmle_cont2_body; auto. Qed.
Hint Resolve tmle_cont2 : tolw.
Lemma tmle_ohdr_walk n addr : mle (ohdr_walk f flen wstrict c n addr) (ohdr_walk f flen tol c n addr).
Proof. unfold ohdr_walk. tn. Qed.
Lemma tmle_snod_walk seg addr : mle (snod_walk f flen wstrict c seg addr) (snod_walk f flen tol c seg addr).
Proof. unfold snod_walk. tn. Qed.
Lemma tmle_btree1_node nt nd K kind addr top level :
  mle (btree1_node f flen wstrict c nt nd K kind addr top level) (btree1_node f flen tol c nt nd K kind addr top level).
Proof. unfold btree1_node. tn. Qed.
Hint Resolve tmle_ohdr_walk tmle_snod_walk tmle_btree1_node : tolw.

Lemma ole_committed_dtype a : ole (committed_dtype f flen wstrict c a) (committed_dtype f flen tol c a).
Proof.
  unfold committed_dtype. intros r H.
  destruct (ohdr_walk f flen wstrict c resolve_fuel a st0) as [[[[ver rc] ms] st]|k] eqn:E; try discriminate.
  rewrite (tmle_ohdr_walk resolve_fuel a st0 _ E).
  destruct (msgs_of 3 ms) as [|m ?]; try discriminate.
  destruct (N.testbit (ms_flags m) 1); try discriminate.
  exact (ole_datatype _ _ (tle_strict tol) _ _ r H).
Qed.
Lemma ole_shared_dtype pad b : ole (shared_dtype f flen wstrict c pad b) (shared_dtype f flen tol c pad b).
Proof. unfold shared_dtype. apply ole_bind; [apply ole_refl | intros a; apply ole_committed_dtype]. Qed.
Lemma ole_dec_attribute pad d : ole (dec_attribute f flen wstrict c pad d) (dec_attribute f flen tol c pad d).
Proof.
  unfold dec_attribute.
  repeat match goal with
         | |- ole (match ?x with _ => _ end) (match ?x with _ => _ end) => destruct x
         end;
  first [ apply ole_attribute; apply tle_strict
        | apply ole_attribute_sh; [apply tle_strict | intros tb; apply ole_shared_dtype] ].
Qed.
Lemma ole_dtype_of_msgs pad ms :
  match dtype_of_msgs f flen wstrict c pad ms, dtype_of_msgs f flen tol c pad ms with
  | Some o1, Some o2 => ole o1 o2
  | None, None => True
  | _, _ => False
  end.
Proof.
  unfold dtype_of_msgs. destruct (msgs_of 3 ms) as [|m ?]; auto.
  destruct (N.testbit (ms_flags m) 1); [apply ole_shared_dtype | apply ole_datatype; apply tle_strict].
Qed.
Hint Resolve ole_dec_attribute ole_shared_dtype : tolo.
Lemma tmle_gbtree_body seg r1 r2 : (forall a t l, mle (r1 a t l) (r2 a t l)) ->
  forall a t l, mle (gbtree_body f flen wstrict c seg r1 a t l) (gbtree_body f flen tol c seg r2 a t l).
Proof. intros Hr a t l. unfold gbtree_body. tn. Qed.
Lemma tmle_gbtree seg n : forall a t l, mle (gbtree f flen wstrict c seg n a t l) (gbtree f flen tol c seg n a t l).
Proof. induction n; intros a t l; cbn [gbtree]. apply mle_err. apply tmle_gbtree_body; auto. Qed.
Lemma tmle_cbtree_body nd r1 r2 : (forall a t l, mle (r1 a t l) (r2 a t l)) ->
  forall a t l, mle (cbtree_body f flen wstrict c nd r1 a t l) (cbtree_body f flen tol c nd r2 a t l).
Proof. intros Hr a t l. unfold cbtree_body. tn. Qed.
Lemma tmle_cbtree nd n : forall a t l, mle (cbtree f flen wstrict c nd n a t l) (cbtree f flen tol c nd n a t l).
Proof. induction n; intros a t l; cbn [cbtree]. apply mle_err. apply tmle_cbtree_body; auto. Qed.
Hint Resolve tmle_gbtree tmle_cbtree : tolw.
Lemma tmle_dblock h ha os a ho sz : mle (dblock f flen wstrict c h ha os a ho sz) (dblock f flen tol c h ha os a ho sz).
Proof. unfold dblock. tn. Qed.
Hint Resolve tmle_dblock : tolw.
Lemma tmle_fheap_walk addr : mle (fheap_walk f flen wstrict c addr) (fheap_walk f flen tol c addr).
Proof. unfold fheap_walk. tn. Qed.
Lemma tmle_btree2_walk addr : mle (btree2_walk f flen wstrict c addr) (btree2_walk f flen tol c addr).
Proof. unfold btree2_walk. tn. Qed.
Hint Resolve tmle_fheap_walk tmle_btree2_walk : tolw.

Lemma ole_dense_mode h blocks recs lib : ole (dense_mode f flen wstrict c h blocks recs lib) (dense_mode f flen tol c h blocks recs lib).
Proof.
  unfold dense_mode. apply ole_omapM. intros x. apply ole_bind; [apply ole_refl|intros obj].
  apply ole_bind; [apply ole_dec_attribute | intros a; apply ole_refl].
Qed.
Hint Resolve ole_dense_mode : tolo.

Lemma tmle_dense_attrs d : mle (dense_attrs f flen wstrict c d) (dense_attrs f flen tol c d).
Proof.
  unfold dense_attrs. tn.
  (* the two readings of the heap offsets: under wstrict only the specification's reading can be accepted *)
  all: match goal with
       | |- mle (match ?o1 with _ => _ end) (match ?o2 with _ => _ end) =>
           let H := fresh "H" in assert (H : ole o1 o2) by (apply ole_dense_mode);
           let v := fresh "v" in destruct o1 as [v| |]; [rewrite (H v eq_refl); tn | |]
       end.
  all: match goal with
       | |- mle (match ?o with _ => _ end) _ => destruct o; try apply mle_err
       end.
  all: intros st r E; discriminate.
Qed.
Lemma ole_link_mode h blocks recs lib : ole (link_mode f flen wstrict c h blocks recs lib false) (link_mode f flen tol c h blocks recs lib false).
Proof.
  unfold link_mode. apply ole_omapM. intros x. apply ole_bind; [apply ole_refl|intros obj].
  apply ole_bind; [apply ole_link; apply tle_strict | intros a; apply ole_refl].
Qed.
(* under wstrict every reading but the specification's ends in a deviation that is not tolerated *)
Lemma strict_modes_fail {A} (m : W A) : (forall st, exists k, m st = WErr k) -> forall m2, mle m m2.
Proof. intros H m2 st r E. destruct (H st) as [k Hk]. rewrite Hk in E. discriminate. Qed.
Lemma tmle_dense_links pad d : mle (dense_links f flen wstrict c pad d) (dense_links f flen tol c pad d).
Proof.
  unfold dense_links. tn.
  all: match goal with
       | |- mle (match ?o1 with _ => _ end) (match ?o2 with _ => _ end) =>
           let H := fresh "H" in assert (H : ole o1 o2) by (apply ole_link_mode);
           let v := fresh "v" in destruct o1 as [v| |]; [rewrite (H v eq_refl); tn | |]
       end.
  all: apply strict_modes_fail; intros st;
       repeat match goal with
              | |- context [match ?o with Ok _ => _ | _ => _ end] => destruct o
              end;
       eexists; reflexivity.
Qed.
Hint Resolve tmle_dense_attrs tmle_dense_links : tolw.

Lemma tmle_dataset_data cb1 cb2 lay esz dims total fl : (forall nd a t l, mle (cb1 nd a t l) (cb2 nd a t l)) ->
  mle (dataset_data flen wstrict c cb1 lay esz dims total fl) (dataset_data flen tol c cb2 lay esz dims total fl).
Proof. intros Hc. unfold dataset_data. tn. Qed.

Lemma tmle_obj_body n r1 r2 : (forall a p, mle (r1 a p) (r2 a p)) ->
  forall a p, mle (obj_body f flen wstrict c n r1 a p) (obj_body f flen tol c n r2 a p).
Proof.
  intros Hr a p. unfold obj_body. tn.
  all: try (apply tmle_dataset_data; intros; apply tmle_cbtree).
  (* the datatype message, possibly shared: the two tolerances resolve it alike *)
  all: match goal with
       | |- mle (match dtype_of_msgs _ _ _ _ ?pad ?ms with _ => _ end) _ =>
           let HD := fresh "HD" in pose proof (ole_dtype_of_msgs pad ms) as HD;
           destruct (dtype_of_msgs f flen wstrict c pad ms), (dtype_of_msgs f flen tol c pad ms); try contradiction; tn
       end.
  all: try (apply tmle_dataset_data; intros; apply tmle_cbtree).
Qed.
Lemma tmle_walk_obj n : forall a p, mle (walk_obj f flen wstrict c n a p) (walk_obj f flen tol c n a p).
Proof. induction n; intros a p; cbn [walk_obj]. apply mle_err. apply tmle_obj_body; auto. Qed.

Lemma tmle_finish sb : mle (finish flen wstrict sb) (finish flen tol sb).
Proof. unfold finish. tn. Qed.
End Tol.

Lemma tmle_walk_all f flen tol n : mle (walk_all f flen wstrict n) (walk_all f flen tol n).
Proof.
  unfold walk_all. apply mle_bind. apply tmle_superblock. intros sb. cbv zeta.
  apply mle_bind. { tn. apply tmle_ohdr_walk. } intros ks. cbv zeta.
  apply mle_bind. apply tmle_walk_obj. intros _. apply mle_bind. apply mle_refl. intros _.
  apply mle_bind. apply tmle_finish. intros _. apply mle_refl.
Qed.

(* strict acceptance is acceptance under every tolerance, with the identical result *)
Lemma walk_strict_any_tolerance : forall tol fuel f r, walk wstrict fuel f = Ok r -> walk tol fuel f = Ok r.
Proof.
  intros tol fuel f r H. unfold walk, walk_run in *.
  destruct (walk_all f (blen f) wstrict fuel st0) as [[sb st]|k] eqn:E; try discriminate.
  rewrite (tmle_walk_all f (blen f) tol fuel st0 _ E). exact H.
Qed.

(* the answer of an accepting walk depends on the file alone: not on the fuel, and - when the strict walk accepts - not on the
   tolerance *)
Lemma walk_result_unique : forall tol fuel1 fuel2 f r1 r2,
  walk wstrict fuel1 f = Ok r1 -> walk tol fuel2 f = Ok r2 -> r1 = r2.
Proof.
  intros tol fuel1 fuel2 f r1 r2 H1 H2.
  pose proof (walk_strict_any_tolerance tol _ _ _ H1) as H1'.
  assert (A : walk tol (Nat.max fuel1 fuel2) f = Ok r1) by (eapply walk_fuel_mono; [|exact H1']; lia).
  assert (B : walk tol (Nat.max fuel1 fuel2) f = Ok r2) by (eapply walk_fuel_mono; [|exact H2]; lia).
  rewrite A in B. inversion B. reflexivity.
Qed.

Lemma walk_strict_tolerant_same_summary : forall fuel f r,
  walk wstrict fuel f = Ok r -> exists r', walk wtolerant fuel f = Ok r' /\ wr_tree r' = wr_tree r /\ wr_tags r' = wr_tags r.
Proof. intros fuel f r H. exists r. split; [exact (walk_strict_any_tolerance wtolerant fuel f r H) | split; reflexivity]. Qed.

Lemma datatype_tolerance_mono : forall t1 t2 pad bs r, tle t1 t2 ->
  spec_dec_datatype t1 pad bs = Ok r -> spec_dec_datatype t2 pad bs = Ok r.
Proof. intros t1 t2 pad bs r T. exact (ole_datatype t1 t2 T pad bs r). Qed.
