(* C08 - pipelines (any filters, any order), the reader against the writer, and the description message. *)
From HV Require Import Base.Prelude Model.Filters Proofs.FiltersShuffle Proofs.FiltersFletcher Proofs.FiltersLzf.

(* ---------------------------------------------------------------- folds over outcomes *)

Lemma fold_bind_not_ok {A B} (step : B -> A -> outcome A) (l : list B) (o : outcome A) :
  (forall a, o <> Ok a) -> fold_left (fun acc f => bind acc (step f)) l o = o.
Proof.
  revert o; induction l as [|f l IH]; intros o H; cbn [fold_left]; auto.
  destruct o as [a| | |]; [exfalso; eapply H; reflexivity| | |]; cbn [bind]; apply IH; intros; discriminate.
Qed.

Lemma fold_bind_inv {A B} (step : B -> A -> outcome A) (l : list B) (o : outcome A) y :
  fold_left (fun acc f => bind acc (step f)) l o = Ok y -> exists a, o = Ok a.
Proof.
  intro H. destruct o as [a| | |]; eauto;
    rewrite fold_bind_not_ok in H by (intros; discriminate); discriminate.
Qed.

Lemma length_le4 v : length (le 4 v) = 4%nat.
Proof. reflexivity. Qed.

Lemma reader_verify_spec s :
  fletcher_verify s = if (length s <? 4)%nat then Err
                      else if reader_verify s then Ok (firstn (length s - 4) s) else Err.
Proof. unfold fletcher_verify, reader_verify. destruct (length s <? 4)%nat; reflexivity. Qed.


Section WithDeflate.
  Variable deflate : N -> bytes -> bytes.
  Variable inflate : bytes -> option bytes.
  Hypothesis inflate_deflate : forall l x, inflate (deflate l x) = Some x.

  Notation apply1 := (apply1 deflate).
  Notation remove1 := (remove1 inflate).
  Notation pipeline_apply := (pipeline_apply deflate).
  Notation pipeline_remove := (pipeline_remove inflate).
  Notation reader_step := (reader_step inflate).
  Notation reader_apply := (reader_apply inflate).

  (* ---- one filter *)

  Lemma shuffle_ok_inv e x y :
    shuffle_apply e x = Ok y -> (x = [] /\ y = []) \/ (x <> [] /\ 0 < e /\ N.of_nat (length x) mod e = 0).
  Proof.
    unfold shuffle_apply. destruct x as [|a x']; [intro H; inversion H; auto|].
    destruct (N.eqb_spec e 0); [discriminate|].
    destruct (N.eqb_spec (N.of_nat (length (a :: x')) mod e) 0); cbn [negb]; [|discriminate].
    intros _. right. repeat split; auto; try lia. discriminate.
  Qed.

  Lemma remove1_apply1 f x y : apply1 f x = Ok y -> remove1 f y = Ok x.
  Proof.
    destruct f as [l|e| |]; cbn [Filters.apply1 Filters.remove1]; intro H.
    - inversion H; subst. unfold inflate_o. now rewrite inflate_deflate.
    - destruct (shuffle_ok_inv e x y H) as [[-> ->]|(Hx & He & Hm)]; [reflexivity|].
      pose proof (shuffle_inv e x He Hm) as R. rewrite H in R. exact R.
    - inversion H; subst. apply fletcher_roundtrip.
    - unfold lzf_apply in H. inversion H; subst. apply lzf_roundtrip.
  Qed.

  Lemma apply1_accepts f x : filter_pre f x -> exists y, apply1 f x = Ok y.
  Proof.
    destruct f as [l|e| |]; cbn [Filters.apply1 filter_pre]; intro H; eauto.
    - destruct H as [->|[He Hm]]; [eexists; reflexivity|].
      destruct (shuffle_apply_ok e x He Hm) as (y & Hy & _). eauto.
    - unfold lzf_apply. eauto.
  Qed.

  (* ---- the reader's step on what the writer's filter produced *)

  (* the reader refuses an inflated chunk above utils.MaxChunkSize: deflate stages must stay below it *)
  Definition stage_small (f : filter) (x : bytes) : Prop :=
    match f with FDeflate _ => N.of_nat (length x) <= max_chunk_size | _ => True end.

  Lemma reader_step_apply1 f x y : stage_small f x -> apply1 f x = Ok y -> reader_step (descr1 f) y = Ok x.
  Proof.
    destruct f as [l|e| |]; cbn [Filters.apply1 stage_small]; intros Hs H; unfold Filters.reader_step, reader_apply1;
      cbn [descr1 fid fcd fflags]; cbn [N.eqb Pos.eqb andb negb].
    - inversion H; subst. unfold reader_inflate_o. rewrite inflate_deflate.
      now replace (max_chunk_size <? N.of_nat (length x)) with false by (symmetry; apply N.ltb_ge; exact Hs).
    - destruct (shuffle_ok_inv e x y H) as [[-> ->]|(Hx & He & Hm)]; [reflexivity|].
      rewrite reader_unshuffle_eq by exact He.
      pose proof (shuffle_inv e x He Hm) as R. rewrite H in R. cbn [bind] in R. now rewrite R.
    - inversion H; subst.
      pose proof (fletcher_roundtrip x) as R. rewrite reader_verify_spec in R.
      destruct (length (fletcher_apply x) <? 4)%nat; [discriminate|].
      destruct (reader_verify (fletcher_apply x)); [|discriminate].
      cbn [negb]. exact R.
    - unfold lzf_apply in H. inversion H; subst.
      cbn [length Nat.leb nth N.ltb N.compare andb].
      unfold lzf_remove. now rewrite lzf_roundtrip.
  Qed.

  (* ---- pipelines *)

  Lemma pipeline_apply_cons f fs x : pipeline_apply (f :: fs) x = bind (apply1 f x) (pipeline_apply fs).
  Proof.
    unfold Filters.pipeline_apply. cbn [fold_left bind].
    destruct (apply1 f x) eqn:E; cbn [bind]; auto; apply fold_bind_not_ok; intros; discriminate.
  Qed.

  Lemma pipeline_remove_cons f fs y : pipeline_remove (f :: fs) y = bind (pipeline_remove fs y) (remove1 f).
  Proof. unfold Filters.pipeline_remove. cbn [rev]. rewrite fold_left_app. reflexivity. Qed.

  Lemma reader_apply_cons d ds y : reader_apply (d :: ds) y = bind (reader_apply ds y) (reader_step d).
  Proof. unfold Filters.reader_apply. cbn [rev]. rewrite fold_left_app. reflexivity. Qed.

  Theorem pipeline_roundtrip : forall fs x y,
    pipeline_apply fs x = Ok y -> pipeline_remove fs y = Ok x.
  Proof.
    induction fs as [|f fs IH]; intros x y H.
    - cbv in H. inversion H. reflexivity.
    - rewrite pipeline_apply_cons in H. destruct (apply1 f x) as [x1| | |] eqn:E; try discriminate.
      cbn [bind] in H. rewrite pipeline_remove_cons, (IH x1 y H). cbn [bind].
      now apply remove1_apply1.
  Qed.

  (* every deflate stage compresses at most MaxChunkSize bytes *)
  Fixpoint stages_small (fs : list filter) (x : bytes) : Prop :=
    match fs with
    | [] => True
    | f :: r => stage_small f x /\ forall y, apply1 f x = Ok y -> stages_small r y
    end.

  Theorem reader_decodes_writer : forall fs x y,
    stages_small fs x -> pipeline_apply fs x = Ok y -> reader_apply (descr fs) y = Ok x.
  Proof.
    induction fs as [|f fs IH]; intros x y Hs H.
    - cbv in H. inversion H. reflexivity.
    - rewrite pipeline_apply_cons in H. destruct (apply1 f x) as [x1| | |] eqn:E; try discriminate.
      destruct Hs as [Hs1 Hs2].
      cbn [bind] in H. cbn [descr map]. rewrite reader_apply_cons. fold (descr fs). rewrite (IH x1 y (Hs2 x1 E) H). cbn [bind].
      now apply reader_step_apply1.
  Qed.

  (* every filter's precondition holds on its input (the input of the next filter is whatever the
     previous one produced) *)
  Fixpoint pipeline_pre (fs : list filter) (x : bytes) : Prop :=
    match fs with
    | [] => True
    | f :: r => filter_pre f x /\ forall y, apply1 f x = Ok y -> pipeline_pre r y
    end.

  Theorem pipeline_accepts : forall fs x, pipeline_pre fs x -> exists y, pipeline_apply fs x = Ok y.
  Proof.
    induction fs as [|f fs IH]; intros x H; [eexists; reflexivity|].
    destruct H as [Hf Hr]. destruct (apply1_accepts f x Hf) as [x1 E].
    destruct (IH x1 (Hr x1 E)) as [y Hy]. exists y.
    rewrite pipeline_apply_cons, E. exact Hy.
  Qed.

End WithDeflate.

  (* ---- corruption: Fletcher-32 as the outermost (last applied) filter *)

  Theorem pipeline_detects (inflate : bytes -> option bytes) pre (z : bytes) (i : nat) (b : byte) :
    bytes_ok z -> b < 256 -> (i < length (fletcher_apply z))%nat -> b <> nth i (fletcher_apply z) 0 ->
    Filters.pipeline_remove inflate (pre ++ [FFletcher]) (upd i b (fletcher_apply z)) = Err /\
    Filters.reader_apply inflate (descr (pre ++ [FFletcher])) (upd i b (fletcher_apply z)) = Err.
  Proof.
    intros Hz Hb Hi Hne.
    pose proof (fletcher_detects_single_byte z i b Hz Hb Hi Hne) as D.
    split.
    - unfold Filters.pipeline_remove. rewrite rev_app_distr. cbn [rev app fold_left bind Filters.remove1].
      rewrite D. apply fold_bind_not_ok. intros; discriminate.
    - unfold Filters.reader_apply, descr. rewrite map_app, rev_app_distr. cbn [map rev app fold_left bind descr1].
      assert (St : Filters.reader_step inflate (mk_fdesc 3 10 0 0 name_fletcher []) (upd i b (fletcher_apply z)) = Err).
      { rewrite reader_verify_spec in D.
        assert (L : (length (upd i b (fletcher_apply z)) <? 4)%nat = false).
        { apply Nat.ltb_ge. rewrite length_upd. unfold fletcher_apply. rewrite app_length, length_le4. lia. }
        rewrite L in D.
        destruct (reader_verify (upd i b (fletcher_apply z))) eqn:V; [discriminate|].
        unfold Filters.reader_step. cbn [fid fflags fcd]. cbn [N.eqb Pos.eqb andb]. rewrite V. reflexivity. }
      rewrite St. apply fold_bind_not_ok. intros; discriminate.
  Qed.

(* ---------------------------------------------------------------- description message *)

Definition desc_wf (d : fdesc) : Prop :=
  fid d < 65536 /\ fflags d < 65536 /\
  fnamelen d = N.of_nat (length (fname d)) /\ N.of_nat (length (fname d)) < 65000 /\ Forall (fun b => b <> 0) (fname d) /\
  fncd d = N.of_nat (length (fcd d)) /\ N.of_nat (length (fcd d)) < 65536 /\ Forall (fun v => v < 4294967296) (fcd d).

Lemma length_le n v : length (le n v) = n.
Proof. revert v; induction n; intro v; cbn [le length]; auto. Qed.

Lemma firstn_le_app n v r : firstn n (le n v ++ r) = le n v.
Proof. rewrite <- (length_le n v) at 1. apply firstn_len_app. Qed.

Lemma skipn_le_app n v r : skipn n (le n v ++ r) = r.
Proof. rewrite <- (length_le n v) at 1. apply skipn_len_app. Qed.

Lemma unle_le2 v : unle (le 2 v) = v mod 65536.
Proof. cbn [le unle]. lia. Qed.

Lemma until_nul_nonzero b : Forall (fun x => x <> 0) b -> until_nul b = b.
Proof.
  induction 1 as [|x r Hx Hr IH]; cbn [until_nul]; auto.
  destruct (N.eqb_spec x 0); [congruence|]. now rewrite IH.
Qed.

Lemma name_of_nonzero b : Forall (fun x => x <> 0) b -> name_of b = b.
Proof. intro H. unfold name_of. rewrite until_nul_nonzero by exact H. now destruct b. Qed.

Lemma read_u32s_encoded : forall (cd : list N) (D : bytes),
  Forall (fun v => v < 4294967296) cd ->
  read_u32s (length cd) (concat (map (le 4) cd) ++ D) = cd /\
  skipn (4 * length cd) (concat (map (le 4) cd) ++ D) = D.
Proof.
  induction cd as [|c cd IH]; intros D H; [split; reflexivity|].
  inversion H as [|? ? Hc Hcd]; subst.
  cbn [map concat length read_u32s]. rewrite <- app_assoc.
  rewrite firstn_le_app, skipn_le_app, unle_le4, N.mod_small by exact Hc.
  destruct (IH D Hcd) as [R Sk]. split; [now rewrite R|].
  replace (4 * S (length cd))%nat with (4 + 4 * length cd)%nat by lia.
  rewrite <- skipn_skipn_add, skipn_le_app. exact Sk.
Qed.

Lemma length_concat_le4 (cd : list N) : length (concat (map (le 4) cd)) = (4 * length cd)%nat.
Proof. induction cd; cbn [map concat length]; auto. rewrite app_length, length_le, IHcd. lia. Qed.

(* for both variants of the version 2 filter name switch: in the version 1 layout, which the writer uses, every filter has a
   name-length field in either *)
Lemma parse_filters_step rep d k D :
  desc_wf d ->
  parse_filters_gen rep (S k) true 2 (encode_filter d ++ D)
  = bind (parse_filters_gen rep k true 2 D) (fun rest => Ok (d :: rest)).
Proof.
  intros (Hid & Hfl & Hnl & Hnlen & Hnz & Hncd & Hcdlen & Hcd).
  destruct d as [id nl flags ncd name cd]. cbn [fid fnamelen fflags fncd fname fcd] in *.
  unfold encode_filter. cbn [fid fnamelen fflags fncd fname fcd].
  set (NL := wrap16 (N.of_nat (length name))).
  assert (ENL : NL = nl) by (subst NL; unfold wrap16; lia).
  set (NCD := wrap16 (N.of_nat (length cd))).
  assert (ENCD : NCD = ncd) by (subst NCD; unfold wrap16; lia).
  set (padded := if 0 <? NL then wrap16 (wrap16 (NL + 7) / 8 * 8) else 0).
  set (namepart := if 0 <? NL then name ++ repeat 0 (N.to_nat padded - length name) else []).
  set (cdpart := concat (map (le 4) cd)).
  rewrite <- !app_assoc.
  cbn [parse_filters_gen orb].
  replace (length (le 2 id ++ le 2 NL ++ le 2 flags ++ le 2 NCD ++ namepart ++ cdpart ++ D) <? 8)%nat with false.
  2:{ symmetry. apply Nat.ltb_ge. rewrite !app_length, !length_le. lia. }
  repeat (rewrite firstn_le_app || rewrite skipn_le_app).
  rewrite !unle_le2.
  cbn [andb].
  rewrite (N.mod_small id), (N.mod_small NL), (N.mod_small flags), (N.mod_small NCD) by (subst NL NCD; unfold wrap16; lia).
  rewrite ENL, ENCD in *.
  (* the name *)
  set (ppad := if nl mod 8 =? 0 then nl else nl + (8 - nl mod 8)).
  assert (Hpad : 0 < nl -> padded = ppad /\ N.of_nat (length name) <= padded).
  { intro Hpos. subst padded ppad. rewrite ENL. replace (0 <? nl) with true by (symmetry; apply N.ltb_lt; lia).
    unfold wrap16. rewrite (N.mod_small (nl + 7)) by lia. rewrite (N.mod_small ((nl + 7) / 8 * 8)) by lia.
    destruct (N.eqb_spec (nl mod 8) 0); [split; lia|].
    split; lia. }
  destruct (N.ltb_spec 0 nl) as [Hpos|Hzero].
  - destruct (Hpad Hpos) as [Epad Hle].
    assert (Enp : namepart = name ++ repeat 0 (N.to_nat padded - length name)).
    { subst namepart. rewrite ENL. now replace (0 <? nl) with true by (symmetry; apply N.ltb_lt; lia). }
    assert (Lnp : length namepart = N.to_nat padded).
    { rewrite Enp, app_length, repeat_length. lia. }
    replace (N.of_nat (length (namepart ++ cdpart ++ D)) <? ppad) with false.
    2:{ symmetry. apply N.ltb_ge. rewrite app_length, Lnp. lia. }
    cbn [andb].
    assert (Efn : firstn (N.to_nat nl) (namepart ++ cdpart ++ D) = name).
    { rewrite Enp, <- app_assoc. replace (N.to_nat nl) with (length name) by lia. apply firstn_len_app. }
    assert (Esn : skipn (N.to_nat ppad) (namepart ++ cdpart ++ D) = cdpart ++ D).
    { rewrite <- Epad, <- Lnp. apply skipn_len_app. }
    rewrite Efn, Esn, name_of_nonzero by exact Hnz.
    destruct (read_u32s_encoded cd D Hcd) as [Rcd Scd]. fold cdpart in Rcd, Scd.
    replace ((0 <? ncd) && (N.of_nat (length (cdpart ++ D)) <? 4 * ncd)) with false.
    2:{ symmetry. apply andb_false_iff. right. apply N.ltb_ge. rewrite app_length. subst cdpart. rewrite length_concat_le4. lia. }
    replace (N.to_nat ncd) with (length cd) by lia.
    rewrite Rcd, Scd.
    replace ((0 <? ncd) && (2 =? 1) && negb ((4 * ncd) mod 8 =? 0)) with false by (now rewrite andb_false_r).
    reflexivity.
  - assert (Hn0 : nl = 0) by lia.
    assert (Enp : namepart = []).
    { subst namepart. rewrite ENL, Hn0. reflexivity. }
    rewrite Enp, Hn0. cbn [N.ltb N.compare andb app].
    destruct (read_u32s_encoded cd D Hcd) as [Rcd Scd]. fold cdpart in Rcd, Scd.
    replace ((0 <? ncd) && (N.of_nat (length (cdpart ++ D)) <? 4 * ncd)) with false.
    2:{ symmetry. apply andb_false_iff. right. apply N.ltb_ge. rewrite app_length. subst cdpart. rewrite length_concat_le4. lia. }
    replace (N.to_nat ncd) with (length cd) by lia.
    rewrite Rcd, Scd.
    replace ((0 <? ncd) && (2 =? 1) && negb ((4 * ncd) mod 8 =? 0)) with false by (now rewrite andb_false_r).
    assert (name = []) by (destruct name; [reflexivity|cbn [length] in Hnl; lia]). subst name.
    reflexivity.
Qed.

Lemma parse_filters_encoded rep : forall ds,
  Forall desc_wf ds -> parse_filters_gen rep (length ds) true 2 (concat (map encode_filter ds)) = Ok ds.
Proof.
  induction ds as [|d ds IH]; intro H; [reflexivity|].
  inversion H as [|? ? Hd Hds]; subst.
  cbn [length map concat]. rewrite parse_filters_step by exact Hd.
  rewrite IH by exact Hds. reflexivity.
Qed.

Theorem msg_roundtrip_wf_gen rep ds :
  Forall desc_wf ds -> (0 < length ds < 256)%nat ->
  bind (encode_msg ds) (parse_msg_gen rep) = Ok (2, N.of_nat (length ds), ds).
Proof.
  intros Hwf Hlen. unfold encode_msg.
  destruct ds as [|d0 ds0] eqn:E; [cbn [length] in Hlen; lia|]. rewrite <- E in *. clear E d0 ds0.
  cbn [bind app parse_msg_gen].
  assert (W : wrap8 (N.of_nat (length ds)) = N.of_nat (length ds)) by (unfold wrap8; lia).
  rewrite W.
  cbn [N.ltb N.compare Pos.compare Pos.compare_cont orb N.eqb Pos.eqb andb].
  replace (0 <? N.of_nat (length ds)) with true by (symmetry; apply N.ltb_lt; lia).
  cbn [length Nat.leb firstn all_zero forallb N.eqb andb skipn].
  rewrite Nat2N.id.
  rewrite parse_filters_encoded by exact Hwf. reflexivity.
Qed.

Theorem msg_roundtrip_wf ds :
  Forall desc_wf ds -> (0 < length ds < 256)%nat ->
  bind (encode_msg ds) parse_msg = Ok (2, N.of_nat (length ds), ds).
Proof. apply msg_roundtrip_wf_gen. Qed.

(* the writer's own filters always give well-formed descriptors *)

Lemma descr1_wf f : filter_wf f -> desc_wf (descr1 f).
Proof.
  destruct f as [l|e| |]; cbn [filter_wf descr1]; intro H; unfold desc_wf;
    cbn [fid fflags fnamelen fname fncd fcd name_deflate name_shuffle name_fletcher name_lzf length];
    repeat split; try lia; repeat constructor; try lia; try discriminate.
  unfold norm_level. destruct ((1 <=? l) && (l <=? 9)) eqn:E; lia.
Qed.

Theorem msg_roundtrip_gen rep fs :
  Forall filter_wf fs -> (0 < length fs < 256)%nat ->
  bind (encode_msg (descr fs)) (parse_msg_gen rep) = Ok (2, N.of_nat (length fs), descr fs).
Proof.
  intros Hwf Hlen.
  replace (length fs) with (length (descr fs)) by (unfold descr; apply map_length).
  apply msg_roundtrip_wf_gen.
  - unfold descr. apply Forall_map. eapply Forall_impl; [|exact Hwf]. apply descr1_wf.
  - unfold descr. rewrite map_length. exact Hlen.
Qed.

Theorem msg_roundtrip fs :
  Forall filter_wf fs -> (0 < length fs < 256)%nat ->
  bind (encode_msg (descr fs)) parse_msg = Ok (2, N.of_nat (length fs), descr fs).
Proof. apply msg_roundtrip_gen. Qed.

(* ---------------------------------------------------------------- Fletcher-32 NOT outermost: refuted
   A checksum only protects the bytes it is computed over.  With an LZF stage applied after it, one
   altered stored byte changes the LENGTH of the decoded all-zero data, and Fletcher-32 of zeros is 0
   for every length: the decoder returns 36 zeros instead of the 40 that were written. *)
Definition refuted_fs : list filter := [FFletcher; FLzf].
Definition refuted_x : bytes := repeat 0 40.
Definition refuted_stored : bytes := [1; 0; 0; 224; 33; 0].

Lemma fletcher_inner_refuted :
  pipeline_apply (fun _ x => x) refuted_fs refuted_x = Ok refuted_stored /\
  nth 4 refuted_stored 0 = 33 /\
  pipeline_remove (fun x => Some x) refuted_fs (upd 4 29 refuted_stored) = Ok (repeat 0 36) /\
  reader_apply (fun x => Some x) (descr refuted_fs) (upd 4 29 refuted_stored) = Ok (repeat 0 36).
Proof. vm_compute. repeat split; reflexivity. Qed.
