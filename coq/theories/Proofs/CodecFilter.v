(* Lemmas for C11, group 8: the filter pipeline message (Model/CodecFilter.v).
   ParseFilterPipelineMessage inverts EncodePipelineMessage for every list of 1..255 filters,
   every NUL-free name of at most 65528 bytes and every list of at most 65535 client values. *)
From HV Require Import Base.Prelude Base.Outcome Base.Bytes Model.CodecFilter.

(* ------------------------------------------------------------------ sizes *)

(* pad to a multiple of 8, no machine arithmetic *)
Definition pad8 (n : N) : N := (n + 7) / 8 * 8.
(* what the reader computes (as int): nameLength, or nameLength + (8 - nameLength mod 8) *)
Definition reader_pad (n : N) : N := if n mod 8 =? 0 then n else n + (8 - n mod 8).

Definition size_filter (f : wfilter) : N := 8 + pad8 (blen (wf_name f)) + 4 * blen (wf_cd f).
Definition size_pipeline (fs : list wfilter) : N := 8 + fold_right (fun f a => size_filter f + a) 0 fs.

Lemma wrap16_small x : x < 65536 -> wrap16 x = x.
Proof. intros. unfold wrap16. apply N.mod_small; auto. Qed.
Lemma wrap32_small x : x < 4294967296 -> wrap32 x = x.
Proof. intros. unfold wrap32. apply N.mod_small; auto. Qed.

Lemma reader_pad_pad8 n : reader_pad n = pad8 n.
Proof. unfold reader_pad, pad8. destruct (N.eqb_spec (n mod 8) 0); lia. Qed.

(* the writer's uint16 computation is the mathematical padding up to 65528 ... *)
Lemma padded_name_w_pad8 n : n <= 65528 -> padded_name_w n = pad8 n.
Proof.
  intros H. unfold padded_name_w, pad8.
  destruct (N.ltb_spec 0 n) as [Hp|Hz].
  - rewrite (wrap16_small (n + 7)) by lia. apply wrap16_small. lia.
  - replace n with 0 by lia. reflexivity.
Qed.
(* ... hence equal to the reader's padding *)
Lemma padded_name_w_reader n : n <= 65528 ->
  padded_name_w n = (if n mod 8 =? 0 then n else n + (8 - n mod 8)).
Proof. intros H. rewrite padded_name_w_pad8 by auto. symmetry. apply reader_pad_pad8. Qed.
(* ... and the bound is tight: for a 65529..65535 byte name the uint16 sum wraps to 0 *)
Lemma padded_name_w_wraps n : 65528 < n < 65536 -> padded_name_w n = 0 /\ reader_pad n = 65536.
Proof.
  intros H. unfold padded_name_w, reader_pad, wrap16.
  replace (0 <? n) with true by (symmetry; apply N.ltb_lt; lia).
  destruct (N.eqb_spec (n mod 8) 0); split; lia.
Qed.

Lemma pad8_ge n : n <= pad8 n.
Proof. unfold pad8. lia. Qed.
Lemma pad8_0 : pad8 0 = 0.
Proof. reflexivity. Qed.

(* ------------------------------------------------------------------ well-formedness *)

Definition enc_cd (cd : list N) : bytes := concat (map (fun v => le 4 (wrap32 v)) cd).

Lemma wf_filter_inv f : wf_filter f = true ->
  wf_id f < 65536 /\ wf_flags f < 65536 /\ blen (wf_name f) <= 65528 /\
  forallb (fun b => negb (b =? 0)) (wf_name f) = true /\
  blen (wf_cd f) <= 65535 /\ Forall (fun v => v < 4294967296) (wf_cd f).
Proof.
  unfold wf_filter. intros H.
  apply andb_true_iff in H as [H Hcd]. apply andb_true_iff in H as [H Hncd].
  apply andb_true_iff in H as [H Hnz]. apply andb_true_iff in H as [H Hnl].
  apply andb_true_iff in H as [Hid Hfl].
  apply N.ltb_lt in Hid, Hfl. apply N.leb_le in Hnl, Hncd.
  repeat split; auto.
  - apply forallb_forall. intros b Hb. rewrite forallb_forall in Hnz. apply Hnz in Hb.
    apply andb_true_iff in Hb as [Hb _]. exact Hb.
  - apply Forall_forall. intros v Hv. rewrite forallb_forall in Hcd. apply Hcd in Hv.
    apply N.ltb_lt in Hv. exact Hv.
Qed.

Lemma blen_enc_cd cd : blen (enc_cd cd) = 4 * blen cd.
Proof.
  induction cd as [|c r IH]; [reflexivity|].
  unfold enc_cd in *. cbn [map concat]. rewrite blen_app, IH, blen_le, blen_cons. blia.
Qed.

(* the cut in the writer's name field (copy into the exactly sized buffer) does nothing up to 65528 bytes *)
Lemma namefield_whole (name : bytes) : blen name <= 65528 ->
  firstn (N.to_nat (padded_name_w (blen name))) (name ++ zeros (N.to_nat (padded_name_w (blen name) - blen name)))
  = name ++ zeros (N.to_nat (padded_name_w (blen name) - blen name)).
Proof.
  intros H. apply firstn_all2. rewrite app_length, length_zeros.
  rewrite padded_name_w_pad8 by auto. pose proof (pad8_ge (blen name)). unfold blen in *. blia.
Qed.

(* the name field: name and its zero padding *)
Lemma blen_namepart (name : bytes) : blen name <= 65528 ->
  blen (if 0 <? blen name then name ++ zeros (N.to_nat (padded_name_w (blen name) - blen name)) else [])
  = pad8 (blen name).
Proof.
  intros H. rewrite padded_name_w_pad8 by auto. pose proof (pad8_ge (blen name)) as G.
  destruct (N.ltb_spec 0 (blen name)) as [Hp|Hz].
  - rewrite blen_app, blen_zeros. blia.
  - replace (blen name) with 0 by blia. reflexivity.
Qed.

Lemma filter_blen f : wf_filter f = true -> blen (enc_filter f) = size_filter f.
Proof.
  intros Hwf. destruct (wf_filter_inv f Hwf) as (Hid & Hfl & Hnl & Hnz & Hncd & Hcd).
  unfold enc_filter, size_filter. fold (enc_cd (wf_cd f)).
  rewrite (wrap16_small (blen (wf_name f))) by blia.
  brewrite (namefield_whole (wf_name f) Hnl).
  pose proof (blen_namepart (wf_name f) Hnl) as Lnp. bnorm.
  rewrite !blen_app, !blen_le, blen_enc_cd, Lnp. blia.
Qed.

Lemma pipeline_blen fs : wf_pipeline fs = true -> blen (enc_pipeline fs) = size_pipeline fs.
Proof.
  unfold wf_pipeline. intros H. apply andb_true_iff in H as [_ H].
  unfold enc_pipeline, size_pipeline. rewrite !blen_app, blen_zeros.
  change (blen [2; wrap8 (N.of_nat (length fs))]) with 2.
  enough (E : blen (concat (map enc_filter fs)) = fold_right (fun f a => size_filter f + a) 0 fs) by (rewrite E; blia).
  induction fs as [|f r IH]; [reflexivity|].
  cbn [forallb] in H. apply andb_true_iff in H as [Hf Hr].
  cbn [map concat fold_right]. rewrite blen_app, filter_blen, IH by auto. reflexivity.
Qed.

(* ------------------------------------------------------------------ the reader's pieces *)

Lemma read_cd_app cd : forall pre suf off,
  off = blen pre -> Forall (fun v => v < 4294967296) cd ->
  read_cd (pre ++ enc_cd cd ++ suf) (length cd) off = Ok cd.
Proof.
  induction cd as [|c r IH]; intros pre suf off Hoff H; [reflexivity|].
  inversion H as [|? ? Hc Hr]; subst.
  cbn [length read_cd]. unfold enc_cd. cbn [map concat]. fold (enc_cd r).
  rewrite <- (app_assoc (le 4 (wrap32 c))). rewrite (wrap32_small c) by auto.
  rewrite (rd_le_at pre 4 4 c) by (auto; change (256 ^ 4) with 4294967296; exact Hc).
  cbn [obind]. rewrite (app_assoc pre).
  rewrite IH by (auto; rewrite blen_app, blen_le; blia).
  reflexivity.
Qed.

Lemma find0_aux_nonul (name : list N) pos :
  forallb (fun b => negb (b =? 0)) name = true -> find0_aux name pos = pos + blen name.
Proof.
  revert pos. induction name as [|b r IH]; intros pos H.
  - cbn [find0_aux]. unfold blen. cbn [length]. blia.
  - cbn [forallb] in H. apply andb_true_iff in H as [Hb Hr].
    cbn [find0_aux]. destruct (b =? 0); [discriminate|].
    rewrite IH by auto. rewrite blen_cons. blia.
Qed.

(* a name without NUL is returned whole (also the empty one) *)
Lemma filter_name_nonul (name : bytes) :
  forallb (fun b => negb (b =? 0)) name = true -> filter_name name = name.
Proof.
  intros H. unfold filter_name, find0. change (N.to_nat 0) with 0%nat. cbn [skipn].
  rewrite find0_aux_nonul by auto.
  replace (0 + blen name <? blen name) with false by (symmetry; apply N.ltb_ge; blia).
  reflexivity.
Qed.

(* ------------------------------------------------------------------ one filter *)

Lemma parse_filters_step f n (pre suf : bytes) off :
  off = blen pre -> wf_filter f = true ->
  parse_filters (S n) (pre ++ enc_filter f ++ suf) 2 true off =
  (rest <- parse_filters n (pre ++ enc_filter f ++ suf) 2 true (off + size_filter f);;
   Ok (proj_filter f :: rest)).
Proof.
  intros Hoff Hwf. destruct (wf_filter_inv f Hwf) as (Hid & Hfl & Hnl & Hnz & Hncd & Hcd).
  destruct f as [id name flags cd]. cbn [wf_id wf_name wf_flags wf_cd] in *.
  unfold enc_filter, size_filter, proj_filter. cbn [wf_id wf_name wf_flags wf_cd].
  fold (enc_cd cd).
  rewrite (wrap16_small id), (wrap16_small flags), (wrap16_small (blen name)), (wrap16_small (blen cd)) by blia.
  brewrite (namefield_whole name Hnl).
  pose proof (blen_namepart name Hnl) as Lnp. bnorm.
  set (namepart := if 0 <? blen name then name ++ zeros (N.to_nat (padded_name_w (blen name) - blen name)) else []) in *.
  rewrite <- !app_assoc.
  unfold parse_filters.
  match goal with |- parse_filters_gen _ _ ?d _ _ _ = _ => remember d as D eqn:ED end.
  assert (LD : blen D = off + 8 + pad8 (blen name) + 4 * blen cd + blen suf).
  { subst D. rewrite !blen_app, !blen_le, Lnp, blen_enc_cd. blia. }
  assert (R1 : rd_le D off 2 = Ok id).
  { subst D. apply (rd_le_at pre 2 2 id); auto. }
  assert (R2 : rd_le D (off + 2) 2 = Ok (blen name)).
  { subst D. rewrite (app_assoc pre). apply (rd_le_at _ 2 2); auto.
    - rewrite blen_app, blen_le. blia.
    - change (256 ^ 2) with 65536. blia. }
  assert (R3 : rd_le D (off + 2 + 2) 2 = Ok flags).
  { subst D. rewrite (app_assoc pre), (app_assoc (pre ++ _)). apply (rd_le_at _ 2 2); auto.
    rewrite !blen_app, !blen_le. blia. }
  assert (R4 : rd_le D (off + 2 + 2 + 2) 2 = Ok (blen cd)).
  { subst D. rewrite (app_assoc pre), (app_assoc (pre ++ _)), (app_assoc ((pre ++ _) ++ _)).
    apply (rd_le_at _ 2 2); auto.
    - rewrite !blen_app, !blen_le. blia.
    - change (256 ^ 2) with 65536. blia. }
  cbn [parse_filters_gen orb].
  replace (blen D <? off + 8) with false by (symmetry; apply N.ltb_ge; blia).
  rewrite R1. cbn [obind]. rewrite R2. cbn [obind]. rewrite R3. cbn [obind]. rewrite R4. cbn [obind].
  cbn [andb].
  (* the name *)
  match goal with |- obind ?e _ = _ =>
    assert (HN : e = Ok (name, off + 2 + 2 + 2 + 2 + pad8 (blen name))) end.
  { destruct (N.ltb_spec 0 (blen name)) as [Hp|Hz].
    - rewrite <- padded_name_w_reader, padded_name_w_pad8 by auto.
      replace (blen D <? off + 2 + 2 + 2 + 2 + pad8 (blen name)) with false by (symmetry; apply N.ltb_ge; blia).
      assert (R5 : slice D (off + 2 + 2 + 2 + 2) (off + 2 + 2 + 2 + 2 + blen name) = Ok name).
      { subst D namepart. replace (0 <? blen name) with true by (symmetry; apply N.ltb_lt; blia).
        rewrite (app_assoc pre), (app_assoc (pre ++ _)), (app_assoc ((pre ++ _) ++ _)),
          (app_assoc (((pre ++ _) ++ _) ++ _)).
        rewrite <- (app_assoc name).
        apply slice_app'; auto. rewrite !blen_app, !blen_le. blia. }
      rewrite R5. cbn [obind]. rewrite filter_name_nonul by auto. reflexivity.
    - assert (E0 : blen name = 0) by blia.
      assert (En : name = []) by (destruct name; [reflexivity|rewrite blen_cons in E0; blia]).
      subst name. change (blen (@nil N)) with 0. rewrite pad8_0. f_equal. f_equal. blia. }
  rewrite HN. cbn [obind].
  (* the client data *)
  match goal with |- obind ?e _ = _ =>
    assert (HC : e = Ok (match cd with [] => None | c => Some c end,
                         off + 2 + 2 + 2 + 2 + pad8 (blen name) + 4 * blen cd)) end.
  { destruct (N.ltb_spec 0 (blen cd)) as [Hp|Hz].
    - replace (blen D <? off + 2 + 2 + 2 + 2 + pad8 (blen name) + blen cd * 4) with false
        by (symmetry; apply N.ltb_ge; blia).
      assert (R6 : read_cd D (N.to_nat (blen cd)) (off + 2 + 2 + 2 + 2 + pad8 (blen name)) = Ok cd).
      { subst D. replace (N.to_nat (blen cd)) with (length cd) by (unfold blen; blia).
        rewrite (app_assoc pre), (app_assoc (pre ++ _)), (app_assoc ((pre ++ _) ++ _)),
          (app_assoc (((pre ++ _) ++ _) ++ _)), (app_assoc ((((pre ++ _) ++ _) ++ _) ++ _)).
        apply read_cd_app; auto. rewrite !blen_app, !blen_le, Lnp. blia. }
      rewrite R6. cbn [obind]. change (2 =? 1) with false. cbn [andb].
      destruct cd as [|c0 cr]; [unfold blen in Hp; cbn [length] in Hp; blia|].
      f_equal. f_equal. blia.
    - assert (E0 : blen cd = 0) by blia.
      assert (En : cd = []) by (destruct cd; [reflexivity|rewrite blen_cons in E0; blia]).
      subst cd. change (blen (@nil N)) with 0. f_equal. f_equal. blia. }
  rewrite HC. cbn [obind].
  replace (off + 2 + 2 + 2 + 2 + pad8 (blen name) + 4 * blen cd)
    with (off + (8 + pad8 (blen name) + 4 * blen cd)) by blia.
  destruct cd; reflexivity.
Qed.

Lemma parse_filters_encoded fs : forall (pre suf : bytes) off,
  off = blen pre -> forallb wf_filter fs = true ->
  parse_filters (length fs) (pre ++ concat (map enc_filter fs) ++ suf) 2 true off = Ok (map proj_filter fs).
Proof.
  induction fs as [|f r IH]; intros pre suf off Hoff H; [reflexivity|].
  cbn [forallb] in H. apply andb_true_iff in H as [Hf Hr].
  cbn [length map concat]. rewrite <- app_assoc.
  rewrite parse_filters_step by auto.
  rewrite (app_assoc pre).
  rewrite IH by (auto; rewrite blen_app, filter_blen by auto; blia).
  reflexivity.
Qed.

(* ------------------------------------------------------------------ the message *)

Lemma wf_pipeline_inv fs : wf_pipeline fs = true ->
  (1 <= length fs <= 255)%nat /\ forallb wf_filter fs = true.
Proof.
  unfold wf_pipeline, encok_pipeline. intros H.
  apply andb_true_iff in H as [H Hf]. apply andb_true_iff in H as [Hne Hle].
  apply negb_true_iff, Nat.eqb_neq in Hne. apply Nat.leb_le in Hle. split; auto. lia.
Qed.

Theorem pipeline_roundtrip fs : wf_pipeline fs = true ->
  dec_pipeline (enc_pipeline fs) = Ok (proj_pipeline fs).
Proof.
  intros Hwf. destruct (wf_pipeline_inv fs Hwf) as [Hlen Hfs].
  unfold dec_pipeline, dec_pipeline_gen, enc_pipeline, proj_pipeline.
  assert (W : wrap8 (N.of_nat (length fs)) = N.of_nat (length fs)) by (unfold wrap8; apply N.mod_small; lia).
  rewrite W. set (n := N.of_nat (length fs)) in *.
  set (C := concat (map enc_filter fs)).
  assert (LD : blen ([2; n] ++ zeros 6 ++ C) = 8 + blen C).
  { rewrite !blen_app, blen_zeros. change (blen [2; n]) with 2. blia. }
  rewrite LD.
  replace (8 + blen C <? 2) with false by (symmetry; apply N.ltb_ge; blia).
  replace (8 <=? 8 + blen C) with true by (symmetry; apply N.leb_le; blia).
  change (index ([2; n] ++ zeros 6 ++ C) 0) with (@Ok byte 2).
  change (index ([2; n] ++ zeros 6 ++ C) 1) with (@Ok byte n).
  cbn [obind].
  change (2 <? 1) with false. change (2 <? 2) with false. change (2 =? 1) with false. change (2 =? 2) with true.
  cbn [orb andb].
  replace (0 <? n) with true by (symmetry; apply N.ltb_lt; subst n; lia).
  brewrite (slice_app' [2; n] (zeros 6) C 2 8) by reflexivity.
  change (forallb (fun b : N => b =? 0) (zeros 6)) with true.
  cbv iota. cbn [andb].
  subst n. rewrite Nat2N.id.
  rewrite (app_assoc [2; N.of_nat (length fs)]). rewrite <- (app_nil_r C). subst C.
  change (parse_filters_gen pipeline_v2_names) with parse_filters.
  rewrite parse_filters_encoded by (auto; reflexivity).
  reflexivity.
Qed.

(* ------------------------------------------------------------------ the hypotheses are satisfiable *)

(* names of 0, 7, 8 and 9 bytes; no client data and three values *)
Definition ex_filters : list wfilter :=
  [ {| wf_id := 3; wf_name := []; wf_flags := 0; wf_cd := [] |};
    {| wf_id := 1; wf_name := [100; 101; 102; 108; 97; 116; 101]; wf_flags := 1; wf_cd := [6; 0; 4294967295] |};
    {| wf_id := 32000; wf_name := [115; 104; 117; 102; 102; 108; 101; 50]; wf_flags := 65535; wf_cd := [] |};
    {| wf_id := 65535; wf_name := [102; 108; 101; 116; 99; 104; 101; 114; 51]; wf_flags := 0; wf_cd := [1; 2; 3] |} ].

Example ex_filters_wf : wf_pipeline ex_filters = true /\ wf_pipeline (firstn 3 ex_filters) = true.
Proof. split; reflexivity. Qed.
Example ex_filters_size : size_pipeline ex_filters = 8 + (8 + 0 + 0) + (8 + 8 + 12) + (8 + 8 + 0) + (8 + 16 + 12).
Proof. reflexivity. Qed.
(* the round trip of this value by evaluation, independently of the theorem *)
Example ex_filters_eval :
  dec_pipeline (enc_pipeline ex_filters) = Ok (proj_pipeline ex_filters) /\
  dec_pipeline (enc_pipeline (firstn 3 ex_filters)) = Ok (proj_pipeline (firstn 3 ex_filters)) /\
  blen (enc_pipeline ex_filters) = 96.
Proof. vm_compute. repeat split; reflexivity. Qed.

(* ------------------------------------------------------------------ the name bound of wf_filter is tight
   A name of 65529 bytes (65528 is covered by the theorem): nameLen + 7 wraps to 0 in uint16, the buffer
   has no room for the name, copy() writes nothing, and the message carries name length 65529 with no
   name bytes; the reader refuses it. *)
Definition long_name_filter : wfilter :=
  {| wf_id := 1; wf_name := repeat 65 (N.to_nat 65529); wf_flags := 0; wf_cd := [] |}.

Lemma pipeline_name_65529_not_inverted :
  blen (wf_name long_name_filter) = 65529 /\
  wf_pipeline [long_name_filter] = false /\
  enc_pipeline [long_name_filter] = [2; 1; 0; 0; 0; 0; 0; 0; 1; 0; 249; 255; 0; 0; 0; 0] /\
  dec_pipeline (enc_pipeline [long_name_filter]) = Err.
Proof. vm_compute. repeat split; reflexivity. Qed.

(* the model's cut name field on over-long names, values observed from the Go encoder (harness c11/filterpipe,
   names of 65529 and 65537 bytes 'A' with one client value) *)
Example enc_filter_overlong_names :
  enc_filter {| wf_id := 1; wf_name := repeat 65 (N.to_nat 65529); wf_flags := 0; wf_cd := [7] |}
    = [1; 0; 249; 255; 0; 0; 1; 0; 7; 0; 0; 0] /\
  enc_filter {| wf_id := 1; wf_name := repeat 65 (N.to_nat 65537); wf_flags := 0; wf_cd := [5] |}
    = [1; 0; 1; 0; 0; 0; 1; 0; 65; 65; 65; 65; 65; 65; 65; 65; 5; 0; 0; 0].
Proof. vm_compute. split; reflexivity. Qed.
