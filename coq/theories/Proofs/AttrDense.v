(* Dense attribute storage (name index + heap) of Model/Attr.v: representation invariant [dense_rep]
   and its preservation by insertion, same-size overwrite, delete+insert+update and deletion. *)
From HV Require Import Base.Prelude Model.Attr Proofs.AttrBase.
From Coq Require Import Permutation.

Section Dense.
Variable name_hash : bytes -> N.
Variable P : params.
Hypothesis Hcap : p_hcap P <= 65536.      (* heap offsets fit the 2-byte offset field of the heap id *)

Definition rec_ok (hp : heap) (rc : N * hid) (a : attr) : Prop :=
  heap_get hp (snd rc) = Some a /\ fst rc = name_hash (aname a).

Definition offs (ix : idx) : list N := map (fun rc : N * hid => fst (snd rc)) ix.
Definition hkeys (hp : heap) : list N := map fst (hobjs hp).

Definition heap_wf (hp : heap) : Prop :=
  NoDup (hkeys hp) /\ (forall k, In k (hkeys hp) -> k < hfree hp) /\ hfree hp <= p_hcap P.

(* [l] is what the reader lists: the attributes the index records point to, in index order *)
Definition dense_rep (ix : idx) (hp : heap) (l : list attr) : Prop :=
  Forall2 (rec_ok hp) ix l /\ NoDup (map fst ix) /\ NoDup (offs ix) /\ heap_wf hp.

Lemma dense_rep_intro : forall ix hp l,
  Forall2 (rec_ok hp) ix l -> NoDup (map fst ix) -> NoDup (offs ix) -> heap_wf hp -> dense_rep ix hp l.
Proof. intros. unfold dense_rep. tauto. Qed.

Lemma heap_wf_empty : heap_wf heap_empty.
Proof. unfold heap_wf, hkeys, heap_empty. cbn. repeat split; [constructor | tauto | lia]. Qed.

Lemma dense_rep_empty : dense_rep [] heap_empty [].
Proof. apply dense_rep_intro; [constructor | constructor | constructor | apply heap_wf_empty]. Qed.

Lemma read_dense_rep : forall hp ix l, Forall2 (rec_ok hp) ix l -> read_dense hp ix = Some l.
Proof.
  intros hp ix l F. induction F as [|[h id] a ix l [G _] F IH]; cbn [read_dense]; [reflexivity|].
  cbn [snd] in G. rewrite G, IH. reflexivity.
Qed.

Lemma rec_ok_mono : forall hp hp' ix l,
  (forall rc x, In rc ix -> heap_get hp (snd rc) = Some x -> heap_get hp' (snd rc) = Some x) ->
  Forall2 (rec_ok hp) ix l -> Forall2 (rec_ok hp') ix l.
Proof.
  intros hp hp' ix l M F. induction F as [|rc a ix l [G E] F IH]; constructor.
  - split; [apply M; [left; reflexivity | assumption] | assumption].
  - apply IH. intros rc' x HI. apply M. right; assumption.
Qed.

Lemma offs_in_keys : forall hp ix l k, Forall2 (rec_ok hp) ix l -> In k (offs ix) -> In k (hkeys hp).
Proof.
  intros hp ix l k F. induction F as [|rc a ix l [G _] F IH]; cbn [offs map In]; [tauto|].
  intros [E|HI]; [|apply IH; assumption]. subst k. unfold heap_get in G. eapply assoc_get_in_keys; eassumption.
Qed.

(* ---- index ---- *)

Lemma idx_search_none : forall h ix, idx_search h ix = None <-> ~ In h (map fst ix).
Proof.
  induction ix as [|[h' id] ix IH]; cbn [idx_search map fst In]; [tauto|].
  destruct (N.eqb_spec h' h).
  - split; [discriminate | intro H; exfalso; apply H; left; assumption].
  - rewrite IH. tauto.
Qed.

Lemma idx_insert_sorted_split : forall rc ix, exists ix1 ix2, ix = ix1 ++ ix2 /\ idx_insert_sorted rc ix = ix1 ++ rc :: ix2.
Proof.
  induction ix as [|x ix IH]; cbn [idx_insert_sorted].
  - exists [], []. split; reflexivity.
  - destruct (fst rc <=? fst x).
    + exists [], (x :: ix). split; reflexivity.
    + destruct IH as [ix1 [ix2 [E1 E2]]]. exists (x :: ix1), ix2. cbn [app]. split; congruence.
Qed.

Lemma idx_update_split : forall h id id2 ix1 ix2, ~ In h (map fst ix1) ->
  idx_update h id2 (ix1 ++ (h, id) :: ix2) = Some (ix1 ++ (h, id2) :: ix2).
Proof.
  induction ix1 as [|[h' i'] ix1 IH]; intros ix2 H; cbn [app idx_update].
  - rewrite N.eqb_refl. reflexivity.
  - cbn [map fst In] in H. destruct (N.eqb_spec h' h); [exfalso; tauto|]. rewrite IH by tauto. reflexivity.
Qed.

Lemma idx_delete_split : forall h id ix1 ix2, ~ In h (map fst ix1) ->
  idx_delete h (ix1 ++ (h, id) :: ix2) = Some (ix1 ++ ix2).
Proof.
  induction ix1 as [|[h' i'] ix1 IH]; intros ix2 H; cbn [app idx_delete].
  - rewrite N.eqb_refl. reflexivity.
  - cbn [map fst In] in H. destruct (N.eqb_spec h' h); [exfalso; tauto|]. rewrite IH by tauto. reflexivity.
Qed.

(* SearchRecord by hash finds the record of the attribute with that NAME when the hash is injective on
   the names involved *)
Lemma search_split : forall hp ix l n,
  Forall2 (rec_ok hp) ix l ->
  (forall m, In m (map aname l) -> name_hash m = name_hash n -> m = n) ->
  match idx_search (name_hash n) ix with
  | None => ~ In n (map aname l)
  | Some id => exists ix1 ix2 l1 l2 a,
      ix = ix1 ++ (name_hash n, id) :: ix2 /\ l = l1 ++ a :: l2 /\ aname a = n /\
      Forall2 (rec_ok hp) ix1 l1 /\ Forall2 (rec_ok hp) ix2 l2 /\ heap_get hp id = Some a /\
      ~ In (name_hash n) (map fst ix1)
  end.
Proof.
  intros hp ix l n F. induction F as [|[h id] a ix l [G E] F IH]; intro Inj; cbn [idx_search].
  - cbn. tauto.
  - cbn [fst snd] in *. destruct (N.eqb_spec h (name_hash n)) as [EQ|NE].
    + exists [], ix, [], l, a. cbn [app map In]. subst h.
      assert (EA : aname a = n) by (apply Inj; [left; reflexivity | congruence]).
      split; [rewrite EQ; reflexivity|]. split; [reflexivity|]. split; [exact EA|]. split; [constructor|].
      split; [exact F|]. split; [exact G|]. tauto.
    + assert (Inj' : forall m, In m (map aname l) -> name_hash m = name_hash n -> m = n)
        by (intros m HI; apply Inj; right; assumption).
      specialize (IH Inj'). destruct (idx_search (name_hash n) ix) as [id'|].
      * destruct IH as [ix1 [ix2 [l1 [l2 [a' [E1 [E2 [E3 [F1 [F2 [G' NI]]]]]]]]]]]. subst ix l.
        exists ((h, id) :: ix1), ix2, (a :: l1), l2, a'. cbn [app map fst In].
        repeat split; try assumption; try reflexivity.
        -- constructor; [split; assumption | assumption].
        -- intros [H1|H1]; [congruence | tauto].
      * cbn [map In]. intros [H1|H1]; [|tauto]. subst n. congruence.
Qed.

(* ---- heap ---- *)

Lemma heap_insert_ok : forall hp a hp' id, heap_wf hp -> heap_insert P hp a = HOk hp' id ->
  heap_wf hp' /\ fst id = hfree hp /\ heap_get hp' id = Some a /\
  (forall id0 x, heap_get hp id0 = Some x -> heap_get hp' id0 = Some x) /\
  ~ In (hfree hp) (hkeys hp) /\ hfree hp < hfree hp'.
Proof.
  intros hp a hp' id [ND [LT LE]] H. unfold heap_insert in H.
  destruct (N.eqb_spec (msg_size a) 0) as [|NZ]; [discriminate|].
  destruct (p_maxobj P <? msg_size a); [discriminate|].
  destruct (N.leb_spec (hfree hp + msg_size a) (p_hcap P)) as [FIT|]; [|discriminate].
  inversion H; subst; clear H.
  assert (FR : ~ In (hfree hp) (hkeys hp)) by (intro HI; apply LT in HI; lia).
  assert (W : wrap16 (hfree hp) = hfree hp) by (unfold wrap16; apply N.mod_small; lia).
  unfold heap_wf, hkeys, heap_get. cbn [hobjs hfree fst].
  repeat split.
  - rewrite map_app. cbn [map fst]. apply NoDup_Add with (a := hfree hp) (l := map fst (hobjs hp)).
    + rewrite <- (app_nil_r (map fst (hobjs hp))) at 1. apply Add_app.
    + split; assumption.
  - intros k HI. rewrite map_app in HI. apply in_app_or in HI. destruct HI as [HI|HI].
    + apply LT in HI. lia.
    + cbn in HI. destruct HI as [<-|[]]. lia.
  - lia.
  - exact W.
  - rewrite W. apply assoc_get_app_fresh. exact FR.
  - intros id0 x G. apply assoc_get_app_some. exact G.
  - exact FR.
  - lia.
Qed.

Lemma heap_overwrite_ok : forall hp id a x, heap_wf hp -> heap_get hp id = Some x ->
  exists hp', heap_overwrite hp id a = Some hp' /\ heap_wf hp' /\
    forall id2, heap_get hp' id2 = if fst id2 =? fst id then Some a else heap_get hp id2.
Proof.
  intros hp id a x [ND [LT LE]] G. unfold heap_get in G. destruct (assoc_set_some _ _ _ a _ G) as [l' E].
  unfold heap_overwrite. rewrite E. eexists. split; [reflexivity|].
  destruct (assoc_set_spec _ _ _ _ _ E) as [K S]. split.
  - unfold heap_wf, hkeys. cbn [hobjs hfree]. rewrite K. repeat split; assumption.
  - intro id2. unfold heap_get. cbn [hobjs]. apply S.
Qed.

Lemma heap_delete_ok : forall hp id x, heap_wf hp -> heap_get hp id = Some x ->
  exists hp', heap_delete hp id = Some hp' /\ heap_wf hp' /\ hfree hp' = hfree hp /\
    forall id2, fst id2 <> fst id -> heap_get hp' id2 = heap_get hp id2.
Proof.
  intros hp id x [ND [LT LE]] G. unfold heap_get in G. destruct (assoc_del_some _ _ _ _ G) as [l' E].
  unfold heap_delete. rewrite E. eexists. split; [reflexivity|].
  destruct (assoc_del_spec _ _ _ _ E) as [S [I N']]. repeat split.
  - unfold hkeys. cbn [hobjs]. apply N'. exact ND.
  - unfold hkeys. cbn [hobjs hfree]. intros k HI. apply LT. apply I. exact HI.
  - cbn [hfree]. exact LE.
  - intros id2 NE. unfold heap_get. cbn [hobjs]. apply S. exact NE.
Qed.

(* ---- the four dense operations ---- *)

(* new name: heap insert + sorted index insert *)
Lemma dense_insert : forall ix hp l a hp' id ix',
  dense_rep ix hp l ->
  heap_insert P hp a = HOk hp' id ->
  idx_insert P (name_hash (aname a), id) ix = Some ix' ->
  exists l1 l2, l = l1 ++ l2 /\ dense_rep ix' hp' (l1 ++ a :: l2).
Proof.
  intros ix hp l a hp' id ix' [F [N1 [N2 W]]] HI II.
  destruct (heap_insert_ok _ _ _ _ W HI) as [W' [Eid [G' [Mono [FR _]]]]].
  unfold idx_insert in II. cbn [fst] in II.
  destruct (idx_search (name_hash (aname a)) ix) eqn:S; [discriminate|].
  destruct (p_idxcap P <=? N.of_nat (List.length ix)); [discriminate|]. inversion II; subst ix'; clear II.
  apply idx_search_none in S.
  destruct (idx_insert_sorted_split (name_hash (aname a), id) ix) as [ix1 [ix2 [E1 E2]]]. rewrite E2. subst ix.
  apply Forall2_app_inv_l in F. destruct F as [l1 [l2 [F1 [F2 EL]]]]. subst l.
  exists l1, l2. split; [reflexivity|].
  assert (F1' : Forall2 (rec_ok hp') ix1 l1) by (eapply rec_ok_mono; [|exact F1]; intros; apply Mono; assumption).
  assert (F2' : Forall2 (rec_ok hp') ix2 l2) by (eapply rec_ok_mono; [|exact F2]; intros; apply Mono; assumption).
  apply dense_rep_intro.
  - apply Forall2_app; [exact F1'|]. constructor; [|exact F2']. split; [exact G' | reflexivity].
  - rewrite map_app in *. cbn [map fst].
    apply NoDup_Add with (a := name_hash (aname a)) (l := map fst ix1 ++ map fst ix2); [apply Add_app | split; assumption].
  - unfold offs in *. rewrite map_app in *. cbn [map fst snd]. rewrite Eid.
    apply NoDup_Add with (a := hfree hp) (l := map (fun rc : N * hid => fst (snd rc)) ix1 ++ map (fun rc : N * hid => fst (snd rc)) ix2);
      [apply Add_app | split; [assumption|]].
    intro HIn. apply FR. eapply (offs_in_keys hp (ix1 ++ ix2) (l1 ++ l2)).
    + apply Forall2_app; assumption.
    + unfold offs. rewrite map_app. exact HIn.
  - exact W'.
Qed.

(* facts shared by the operations on an existing record in the middle of the index *)
Lemma middle_facts : forall (ix1 ix2 : idx) h id,
  NoDup (offs (ix1 ++ (h, id) :: ix2)) ->
  (forall rc, In rc ix1 \/ In rc ix2 -> fst (snd rc) <> fst id) /\ NoDup (offs (ix1 ++ ix2)).
Proof.
  intros ix1 ix2 h id N2. unfold offs in *. rewrite map_app in N2. cbn [map fst snd] in N2. split.
  - intros rc HI E. apply NoDup_remove_2 in N2. apply N2. apply in_or_app.
    destruct HI as [HI|HI]; [left|right]; rewrite <- E; apply (in_map (fun rc : N * hid => fst (snd rc))); exact HI.
  - rewrite map_app. apply NoDup_remove_1 in N2. exact N2.
Qed.

(* same encoded size: OverwriteObject in place *)
Lemma dense_overwrite : forall ix1 ix2 l1 l2 id a a' hp hp',
  Forall2 (rec_ok hp) ix1 l1 -> Forall2 (rec_ok hp) ix2 l2 -> heap_get hp id = Some a ->
  NoDup (map fst (ix1 ++ (name_hash (aname a), id) :: ix2)) ->
  NoDup (offs (ix1 ++ (name_hash (aname a), id) :: ix2)) -> heap_wf hp ->
  aname a' = aname a ->
  heap_overwrite hp id a' = Some hp' ->
  dense_rep (ix1 ++ (name_hash (aname a), id) :: ix2) hp' (l1 ++ a' :: l2).
Proof.
  intros ix1 ix2 l1 l2 id a a' hp hp' F1 F2 G N1 N2 W EN OV.
  destruct (heap_overwrite_ok hp id a' a W G) as [hp'' [OV' [W' S]]]. rewrite OV in OV'. inversion OV'; subst hp''; clear OV'.
  destruct (middle_facts _ _ _ _ N2) as [NE _].
  apply dense_rep_intro; try assumption.
  apply Forall2_app.
  - eapply rec_ok_mono; [|exact F1]. intros rc x HI Gx. rewrite S.
    destruct (N.eqb_spec (fst (snd rc)) (fst id)) as [E|_]; [exfalso; eapply NE; [left; exact HI | exact E] | exact Gx].
  - constructor.
    + split; cbn [fst snd]; [rewrite S, N.eqb_refl; reflexivity | rewrite EN; reflexivity].
    + eapply rec_ok_mono; [|exact F2]. intros rc x HI Gx. rewrite S.
      destruct (N.eqb_spec (fst (snd rc)) (fst id)) as [E|_]; [exfalso; eapply NE; [right; exact HI | exact E] | exact Gx].
Qed.

(* other encoded size: DeleteObject, InsertObject, UpdateRecord *)
Lemma dense_update : forall ix1 ix2 l1 l2 id a a' hp hp1 hp2 id2,
  Forall2 (rec_ok hp) ix1 l1 -> Forall2 (rec_ok hp) ix2 l2 -> heap_get hp id = Some a ->
  NoDup (map fst (ix1 ++ (name_hash (aname a), id) :: ix2)) ->
  NoDup (offs (ix1 ++ (name_hash (aname a), id) :: ix2)) -> heap_wf hp ->
  aname a' = aname a ->
  heap_delete hp id = Some hp1 -> heap_insert P hp1 a' = HOk hp2 id2 ->
  dense_rep (ix1 ++ (name_hash (aname a), id2) :: ix2) hp2 (l1 ++ a' :: l2).
Proof.
  intros ix1 ix2 l1 l2 id a a' hp hp1 hp2 id2 F1 F2 G N1 N2 W EN DL IN.
  destruct (heap_delete_ok hp id a W G) as [hp'' [DL' [W1 [FE S]]]]. rewrite DL in DL'. inversion DL'; subst hp''; clear DL'.
  destruct (heap_insert_ok _ _ _ _ W1 IN) as [W2 [Eid [G2 [Mono [FR _]]]]].
  destruct (middle_facts _ _ _ _ N2) as [NE N2'].
  assert (K : forall ix l, (forall rc, In rc ix -> In rc ix1 \/ In rc ix2) -> Forall2 (rec_ok hp) ix l -> Forall2 (rec_ok hp2) ix l).
  { intros ix l Sub F. eapply rec_ok_mono; [|exact F]. intros rc x HI Gx. apply Mono. rewrite S; [exact Gx|].
    apply NE. apply Sub. exact HI. }
  assert (F1' : Forall2 (rec_ok hp2) ix1 l1) by (apply K; [tauto | exact F1]).
  assert (F2' : Forall2 (rec_ok hp2) ix2 l2) by (apply K; [tauto | exact F2]).
  apply dense_rep_intro.
  - apply Forall2_app; [exact F1'|]. constructor; [|exact F2']. split; cbn [fst snd]; [exact G2 | rewrite EN; reflexivity].
  - rewrite map_app in *. cbn [map fst] in *. exact N1.
  - unfold offs in *. rewrite map_app in *. cbn [map fst snd]. rewrite Eid.
    apply NoDup_Add with (a := hfree hp1) (l := map (fun rc : N * hid => fst (snd rc)) ix1 ++ map (fun rc : N * hid => fst (snd rc)) ix2);
      [apply Add_app | split; [exact N2'|]].
    intro HIn. apply FR. eapply (offs_in_keys hp1 (ix1 ++ ix2) (l1 ++ l2)).
    + apply Forall2_app; [eapply rec_ok_mono; [|exact F1] | eapply rec_ok_mono; [|exact F2]];
        intros rc x HI Gx; (rewrite S; [exact Gx|]); apply NE; tauto.
    + unfold offs. rewrite map_app. exact HIn.
  - exact W2.
Qed.

(* DeleteRecord + DeleteObject *)
Lemma dense_delete : forall ix1 ix2 l1 l2 id a hp hp',
  Forall2 (rec_ok hp) ix1 l1 -> Forall2 (rec_ok hp) ix2 l2 -> heap_get hp id = Some a ->
  NoDup (map fst (ix1 ++ (name_hash (aname a), id) :: ix2)) ->
  NoDup (offs (ix1 ++ (name_hash (aname a), id) :: ix2)) -> heap_wf hp ->
  heap_delete hp id = Some hp' ->
  dense_rep (ix1 ++ ix2) hp' (l1 ++ l2).
Proof.
  intros ix1 ix2 l1 l2 id a hp hp' F1 F2 G N1 N2 W DL.
  destruct (heap_delete_ok hp id a W G) as [hp'' [DL' [W1 [FE S]]]]. rewrite DL in DL'. inversion DL'; subst hp''; clear DL'.
  destruct (middle_facts _ _ _ _ N2) as [NE N2'].
  apply dense_rep_intro.
  - apply Forall2_app; [eapply rec_ok_mono; [|exact F1] | eapply rec_ok_mono; [|exact F2]];
      intros rc x HI Gx; (rewrite S; [exact Gx|]); apply NE; tauto.
  - rewrite map_app in *. cbn [map fst] in N1. apply NoDup_remove_1 in N1. exact N1.
  - exact N2'.
  - exact W1.
Qed.

End Dense.
