(* Lemmas for C11, group 3 (attribute message v3). *)
From HV Require Import Base.Prelude Base.Outcome Base.Bytes
  Model.CodecMsg Model.CodecType Model.CodecAttr Proofs.CodecMsg Proofs.CodecType.

Definition attr_hdr (ns dts dss : N) : bytes :=
  [3; 0] ++ le 2 ns ++ le 2 dts ++ le 2 dss ++ [0].

Lemma blen_attr_hdr ns dts dss : blen (attr_hdr ns dts dss) = 9.
Proof. unfold attr_hdr. rewrite !blen_app, !blen_le. reflexivity. Qed.

Lemma attr_hdr_reads ns dts dss T :
  ns < 65536 -> dts < 65536 -> dss < 65536 ->
  let D := attr_hdr ns dts dss ++ T in
  index D 0 = Ok 3 /\ rd_le D 2 2 = Ok ns /\ rd_le D 4 2 = Ok dts /\ rd_le D 6 2 = Ok dss.
Proof.
  intros H1 H2 H3 D. subst D. unfold attr_hdr. split; [|split; [|split]].
  - reflexivity.
  - rewrite <- !app_assoc. apply (rd_le_at [3; 0] 2 2); auto.
  - rewrite <- !app_assoc. rewrite (app_assoc [3; 0]). apply (rd_le_at ([3; 0] ++ le 2 ns) 2 2); auto.
  - rewrite <- !app_assoc. rewrite (app_assoc [3; 0]), (app_assoc ([3; 0] ++ le 2 ns)).
    apply (rd_le_at (([3; 0] ++ le 2 ns) ++ le 2 dts) 2 2); auto.
Qed.

Lemma enc_attribute_shape x :
  enc_attribute x =
  attr_hdr (wrap16 (blen (at_name x) + 1)) (wrap16 (blen (enc_datatype (at_dt x))))
           (wrap16 (blen (enc_dataspace (at_ds x))))
  ++ at_name x ++ [0] ++ enc_datatype (at_dt x) ++ enc_dataspace (at_ds x) ++ at_data x.
Proof. unfold enc_attribute, attr_hdr. rewrite <- !app_assoc. reflexivity. Qed.

Lemma size_dataspace_bound ds : wf_dataspace ds = true -> size_dataspace ds < 65536.
Proof.
  intros H. apply wf_dataspace_inv in H as (Hr & Hm & _ & _).
  unfold size_dataspace, blen. destruct Hm as [-> | E]; [cbn [length]|rewrite E]; blia.
Qed.

Lemma attribute_blen x : wf_attribute x = true -> blen (enc_attribute x) = size_attribute x.
Proof.
  unfold wf_attribute. intros H.
  apply andb_true_iff in H as [H Hdata]. apply andb_true_iff in H as [H Hds].
  apply andb_true_iff in H as [H Hdts]. apply andb_true_iff in H as [H Hdt].
  rewrite enc_attribute_shape, !blen_app, blen_attr_hdr.
  rewrite (datatype_blen _ Hdt), dataspace_blen. unfold size_attribute. unfold blen; cbn [length]. blia.
Qed.

(* for both variants of the version 2 padding switch (the writer emits version 3, which neither pads) *)
Lemma attribute_roundtrip_gen rep x : wf_attribute x = true ->
  dec_attribute_gen rep false (enc_attribute x) = Ok (proj_attribute x).
Proof.
  intros Hwf. pose proof (attribute_blen x Hwf) as Hlen.
  unfold wf_attribute in Hwf.
  apply andb_true_iff in Hwf as [H Hdata]. apply andb_true_iff in H as [H Hds].
  apply andb_true_iff in H as [H Hdts]. apply andb_true_iff in H as [H Hdt].
  apply andb_true_iff in H as [Hok Hname].
  apply N.leb_le in Hdata, Hname. apply N.ltb_lt in Hdts.
  unfold encok_attribute in Hok. apply andb_true_iff in Hok as [Hok _]. apply andb_true_iff in Hok as [Hok _].
  apply andb_true_iff in Hok as [Hne _].
  apply negb_true_iff, Nat.eqb_neq in Hne.
  pose proof (size_dataspace_bound _ Hds) as Hdss.
  destruct x as [name dt ds dat]; cbn [at_name at_dt at_ds at_data] in *.
  set (dtb := enc_datatype dt) in *. set (dsb := enc_dataspace ds) in *.
  assert (Edt : blen dtb = size_datatype dt) by (apply datatype_blen; auto).
  assert (Eds : blen dsb = size_dataspace ds) by (apply dataspace_blen).
  unfold size_attribute in Hlen. cbn [at_name at_dt at_ds at_data] in Hlen.
  unfold dec_attribute_gen. rewrite Hlen.
  rewrite enc_attribute_shape. cbn [at_name at_dt at_ds at_data]. fold dtb dsb.
  assert (Wn : wrap16 (blen name + 1) = blen name + 1) by (unfold wrap16; apply N.mod_small; blia).
  assert (Wt : wrap16 (blen dtb) = blen dtb) by (unfold wrap16; apply N.mod_small; blia).
  assert (Ws : wrap16 (blen dsb) = blen dsb) by (unfold wrap16; apply N.mod_small; blia).
  rewrite Wn, Wt, Ws.
  set (ns := blen name + 1). set (H := attr_hdr ns (blen dtb) (blen dsb)).
  destruct (attr_hdr_reads ns (blen dtb) (blen dsb) (name ++ [0] ++ dtb ++ dsb ++ dat))
    as (R0 & R2 & R4 & R6); [subst ns; blia | blia | blia |]. fold H in R0, R2, R4, R6.
  replace (9 + ns + size_datatype dt + size_dataspace ds + blen dat <? 8) with false
    by (symmetry; apply N.ltb_ge; blia).
  assert (R1 : index (H ++ name ++ [0] ++ dtb ++ dsb ++ dat) 1 = Ok 0) by reflexivity.
  unfold rd16. rewrite R0. cbn [obind]. rewrite R1. cbn [obind].
  change (N.land 0 3 =? 0) with true. cbn [negb]. rewrite !andb_false_r. cbv iota.
  rewrite R2, R4, R6. cbn [obind].
  change (3 <=? 3) with true. change (3 <? 3) with false. change (3 <? 2) with false.
  replace (if rep then false else false) with false by (destruct rep; reflexivity). cbv iota.
  assert (HH : blen H = 9) by apply blen_attr_hdr.
  replace (9 + ns + size_datatype dt + size_dataspace ds + blen dat <? 9 + ns) with false
    by (symmetry; apply N.ltb_ge; blia).
  replace (0 <? ns) with true by (symmetry; apply N.ltb_lt; subst ns; blia).
  (* name *)
  bnorm.
  brewrite (slice_app' H name ([0] ++ dtb ++ dsb ++ dat) 9 (9 + ns - 1)) by (subst ns; blia).
  cbn [obind].
  (* datatype *)
  replace (9 + ns + size_datatype dt + size_dataspace ds + blen dat <? 9 + ns + blen dtb) with false
    by (symmetry; apply N.ltb_ge; blia).
  assert (EA : H ++ name ++ [0] ++ dtb ++ dsb ++ dat = (H ++ name ++ [0]) ++ dtb ++ dsb ++ dat)
    by (rewrite <- !app_assoc; reflexivity).
  brewrite EA.
  brewrite (slice_app' (H ++ name ++ [0]) dtb (dsb ++ dat) (9 + ns) (9 + ns + blen dtb))
    by (rewrite ?blen_app, ?HH; subst ns; unfold blen in *; cbn [length]; blia).
  cbn [obind]. subst dtb. rewrite datatype_roundtrip by auto. cbn [obind].
  set (dtb := enc_datatype dt) in *.
  (* dataspace *)
  replace (9 + ns + size_datatype dt + size_dataspace ds + blen dat <? 9 + ns + blen dtb + blen dsb) with false
    by (symmetry; apply N.ltb_ge; blia).
  brewrite (app_assoc (H ++ name ++ [0]) dtb (dsb ++ dat)).
  brewrite (slice_app' ((H ++ name ++ [0]) ++ dtb) dsb dat (9 + ns + blen dtb) (9 + ns + blen dtb + blen dsb))
    by (rewrite ?blen_app, ?HH; subst ns; unfold blen in *; cbn [length]; blia).
  cbn [obind]. subst dsb. rewrite dataspace_roundtrip by auto. cbn [obind].
  set (dsb := enc_dataspace ds) in *.
  unfold proj_attribute. cbn [at_name at_dt at_ds at_data].
  destruct dat as [|d0 dr].
  - bnorm. assert (E0 : blen (@nil N) = 0) by reflexivity. rewrite E0.
    match goal with |- context [?a <? ?b] => destruct (N.ltb_spec a b) as [L|L] end; [exfalso; blia|].
    reflexivity.
  - bnorm.
    match goal with |- context [?a <? ?b] => destruct (N.ltb_spec a b) as [L|L] end;
      [|exfalso; rewrite blen_cons in L; blia].
    match goal with |- context [MaxAttributeSize <? ?b] => destruct (N.ltb_spec MaxAttributeSize b) as [L'|L'] end;
      [exfalso; blia|].
    brewrite (app_assoc (((H ++ name ++ [0]) ++ dtb)) dsb (d0 :: dr)).
    brewrite (slice_from_app ((((H ++ name ++ [0]) ++ dtb)) ++ dsb) (d0 :: dr) (9 + ns + blen dtb + blen dsb))
      by (rewrite ?blen_app, ?HH; subst ns; unfold blen in *; cbn [length]; blia).
    reflexivity.
Qed.

Lemma attribute_roundtrip x : wf_attribute x = true ->
  dec_attribute false (enc_attribute x) = Ok (proj_attribute x).
Proof. apply attribute_roundtrip_gen. Qed.
