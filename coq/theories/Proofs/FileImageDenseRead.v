(* C02 at byte level, dense storage: the stages of the reader's dense attribute path (Model/IOProgReader.v p_dense: readBTreeV2HeaderRaw,
   readBTreeV2LeafRecords, readFractalHeapHeaderRaw, parseHeapID, readHeapObject) on the bytes the WRITER's encoder models produce
   (BT2.encode_header / encode_leaf, FHeap.encode_header / encode_dblock, FHeap.encode_id), placed anywhere in a file.
   Generic in the structures' contents; Proofs/FileImageDense.v instantiates them with the blocks of image_v2_dense. *)
From HV Require Import Base.Prelude Base.Outcome Base.Bytes Base.Crc32 Model.IOProg Proofs.IOProg Model.IOProgReader.
From HV Require Import Model.CodecSuper Model.CodecOhdr Model.CodecMsg Model.CodecType Model.CodecLink Model.CodecAttr.
From HV Require Import Model.FileImage Proofs.FileImage Proofs.FileImageData.
From HV Require Model.BT2 Proofs.BT2 Model.FHeap Proofs.FHeap.
Module MB := HV.Model.BT2.
Module PB := HV.Proofs.BT2.
Module MF := HV.Model.FHeap.
Module PF := HV.Proofs.FHeap.

(* ------------------------------------------------------------------ ReadAt tolerating io.EOF, inside a placed block *)
Lemma run0_short_placed A f a b off len (k : bytes -> N -> prog A) :
  placed f a b -> off + len <= blen b -> run0 f (ReadAtShort (a + off) len k) = run0 f (k (rd b off len) len).
Proof.
  intros HP Hl. rewrite run0_short.
  pose proof (placed_slice f a b off len HP Hl) as HS.
  pose proof (placed_rd_exact _ _ _ HS) as E. rewrite (blen_rd b off len Hl) in E.
  unfold padded, avail. rewrite E, (blen_rd b off len Hl).
  replace (N.to_nat (len - len)) with 0%nat by blia. cbn [zeros repeat]. now rewrite app_nil_r.
Qed.

Lemma rd_all (b : bytes) n : n = blen b -> rd b 0 n = b.
Proof. intros ->. unfold rd, blen. rewrite Nat2N.id. cbn [N.to_nat skipn]. apply firstn_all. Qed.
Lemma rd_head (b t : bytes) n : n = blen b -> rd (b ++ t) 0 n = b.
Proof.
  intros ->. exact (rd_app_mid [] b t).
Qed.

Lemma slice_head (mid suf : bytes) b : b = blen mid -> slice (mid ++ suf) 0 b = Ok mid.
Proof. intros ->. exact (slice_app' [] mid suf 0 (blen mid) eq_refl eq_refl). Qed.

Lemma read_addr_le8 v : v < 18446744073709551616 -> read_addr_le (le 8 v) 8 = v.
Proof.
  intros Hv. unfold read_addr_le. rewrite blen_le. change (N.min 8 (N.of_nat 8)) with 8. change (N.to_nat 8) with 8%nat.
  assert (E : firstn 8 (le 8 v) = le 8 v) by (apply firstn_all2; rewrite length_le; blia).
  rewrite !E. apply unle_le_small. exact Hv.
Qed.

(* ------------------------------------------------------------------ readBTreeV2HeaderRaw on BT2.encode_header *)
Lemma dec_bt2hdr_enc s :
  MB.h_root (MB.header s) < 18446744073709551616 -> MB.h_nroot (MB.header s) < 65536 ->
  dec_bt2hdr SB' (MB.encode_header 8 s) 38 = Ok (MB.h_root (MB.header s), MB.h_nroot (MB.header s)).
Proof.
  intros Hr Hn. unfold MB.encode_header, MB.hdr_body, MB.enc_addr.
  set (h := MB.header s) in *.
  set (body := MB.sig_hdr ++ [0; MB.h_type h] ++ le 4 (MB.h_node_size h) ++ le 2 (MB.h_rec_size h) ++ le 2 (MB.h_depth h) ++
               [MB.h_split h; MB.h_merge h] ++ le 8 (MB.h_root h) ++ le 2 (MB.h_nroot h) ++ le 8 (MB.h_total h)).
  set (c := le 4 (crc32 body)). unfold body. clearbody c.
  set (p12 := [0; MB.h_type h] ++ le 4 (MB.h_node_size h) ++ le 2 (MB.h_rec_size h) ++ le 2 (MB.h_depth h) ++ [MB.h_split h; MB.h_merge h]).
  assert (E : (MB.sig_hdr ++ [0; MB.h_type h] ++ le 4 (MB.h_node_size h) ++ le 2 (MB.h_rec_size h) ++ le 2 (MB.h_depth h) ++
               [MB.h_split h; MB.h_merge h] ++ le 8 (MB.h_root h) ++ le 2 (MB.h_nroot h) ++ le 8 (MB.h_total h)) ++ c
              = (MB.sig_hdr ++ p12) ++ le 8 (MB.h_root h) ++ le 2 (MB.h_nroot h) ++ (le 8 (MB.h_total h) ++ c)).
  { unfold p12. rewrite <- !app_assoc. reflexivity. }
  rewrite E. clear E.
  assert (L16 : blen (MB.sig_hdr ++ p12) = 16) by reflexivity.
  unfold dec_bt2hdr. cbn [SB' spp_offsize spp_lensize spp_bigendian].
  change (38 <? 16 + 8 + 2 + 8) with false. cbv iota.
  rewrite <- (app_assoc MB.sig_hdr).
  rewrite (slice_head MB.sig_hdr _ 4) by reflexivity. cbn [obind].
  change (bytes_eqb MB.sig_hdr [66; 84; 72; 68]) with true. cbn [negb].
  change (38 <? 16 + 8) with false. cbv iota.
  rewrite (app_assoc MB.sig_hdr).
  rewrite (slice_app' (MB.sig_hdr ++ p12) (le 8 (MB.h_root h)) _ 16 (16 + 8)) by (rewrite ?blen_le; auto). cbn [obind].
  change (38 <? 16 + 8 + 2) with false. cbv iota.
  unfold rd_end.
  rewrite (app_assoc (MB.sig_hdr ++ p12)).
  rewrite (rd_le_at ((MB.sig_hdr ++ p12) ++ le 8 (MB.h_root h)) 2 2 (MB.h_nroot h)); [| rewrite blen_app, L16, blen_le; reflexivity | reflexivity | exact Hn].
  cbn [obind]. change (38 <? 16 + 8 + 2 + 8) with false. cbv iota.
  rewrite read_addr_le8 by exact Hr. reflexivity.
Qed.

(* ------------------------------------------------------------------ readBTreeV2LeafRecords on BT2.encode_leaf *)
Lemma leaf_ids_enc : forall rs (pre tail : bytes), Forall PB.rec_wf rs ->
  leaf_ids (pre ++ flat_map MB.enc_rec rs ++ tail) (length rs) (blen pre) = Ok (map snd rs).
Proof.
  induction rs as [|r rs IH]; intros pre tail HF; [reflexivity|].
  inversion HF as [|? ? Hr HF']; subst. destruct Hr as [_ H7].
  cbn [flat_map length leaf_ids map]. change (MB.enc_rec r) with (le 4 (fst r) ++ snd r).
  set (rest := flat_map MB.enc_rec rs).
  assert (Lid : blen (snd r) = 7) by (unfold blen; bnorm; rewrite H7; reflexivity).
  replace (blen (pre ++ ((le 4 (fst r) ++ snd r) ++ rest) ++ tail) <? blen pre + 11) with false
    by (symmetry; apply N.ltb_ge; rewrite !blen_app, blen_le, Lid; blia).
  replace (pre ++ ((le 4 (fst r) ++ snd r) ++ rest) ++ tail) with ((pre ++ le 4 (fst r)) ++ snd r ++ (rest ++ tail))
    by (rewrite <- !app_assoc; reflexivity).
  match goal with |- context [slice ?b ?x ?y] => replace (slice b x y) with (Ok (snd r)) end.
  2:{ symmetry. apply (slice_app' (pre ++ le 4 (fst r)) (snd r) (rest ++ tail)); rewrite ?blen_app, ?blen_le, ?Lid; blia. }
  cbn [obind].
  replace ((pre ++ le 4 (fst r)) ++ snd r ++ rest ++ tail) with ((pre ++ le 4 (fst r) ++ snd r) ++ rest ++ tail)
    by (rewrite <- !app_assoc; reflexivity).
  replace (blen pre + 11) with (blen (pre ++ le 4 (fst r) ++ snd r)) by (rewrite !blen_app, blen_le, Lid; blia).
  unfold rest. rewrite (IH _ tail HF'). reflexivity.
Qed.

Lemma dec_bt2leaf_enc s :
  Forall PB.rec_wf (MB.leaf_recs s) ->
  let n := N.of_nat (length (MB.leaf_recs s)) in
  dec_bt2leaf n (MB.encode_leaf s) (6 + n * 11 + 4) = Ok (map snd (MB.leaf_recs s)).
Proof.
  intros HF n. unfold dec_bt2leaf.
  replace ((6 + n * 11 + 4 <? 6 + n * 11) || (6 + n * 11 + 4 <? 10)) with false
    by (symmetry; apply orb_false_iff; split; apply N.ltb_ge; blia).
  unfold MB.encode_leaf, MB.leaf_body.
  set (c := le 4 (crc32 _)). clearbody c.
  rewrite <- !app_assoc.
  rewrite (slice_head MB.sig_leaf _ 4) by reflexivity. cbn [obind].
  change (bytes_eqb MB.sig_leaf [66; 84; 76; 70]) with true. cbn [negb].
  replace (MB.sig_leaf ++ [0; MB.leaf_type s] ++ flat_map MB.enc_rec (MB.leaf_recs s) ++ c)
    with ((MB.sig_leaf ++ [0; MB.leaf_type s]) ++ flat_map MB.enc_rec (MB.leaf_recs s) ++ c) by (rewrite <- !app_assoc; reflexivity).
  unfold n. rewrite Nat2N.id.
  exact (leaf_ids_enc (MB.leaf_recs s) (MB.sig_leaf ++ [0; MB.leaf_type s]) c HF).
Qed.

Lemma blen_encode_leaf s : Forall PB.rec_wf (MB.leaf_recs s) ->
  blen (MB.encode_leaf s) = 6 + N.of_nat (length (MB.leaf_recs s)) * 11 + 4.
Proof. intros HF. pose proof (PB.encode_leaf_length s HF) as E. unfold blen. bnorm. rewrite E. blia. Qed.

(* ------------------------------------------------------------------ readFractalHeapHeaderRaw on FHeap.encode_header *)
Lemma dec_fheaphdr_enc h (tail : bytes) :
  MF.h_maxdb h = 65536 -> MF.h_root h < 18446744073709551616 -> blen tail = 2 ->
  dec_fheaphdr SB' (MF.header_body h ++ tail) 144 = Ok (MF.h_root h, 2, 3).
Proof.
  intros Hm Hr Ht. unfold MF.header_body. rewrite Hm.
  set (p10 := MF.SIG_FRHP ++ [0] ++ le 2 MF.ID_LEN ++ le 2 0 ++ [0]).
  set (mid := le 8 0 ++ le 8 0 ++ le 8 (MF.h_free h) ++ le 8 0 ++ le 8 (MF.h_mansize h) ++ le 8 (MF.h_alloc h) ++ le 8 (MF.h_manoff h)
              ++ le 8 (MF.h_nobj h) ++ le 8 0 ++ le 8 0 ++ le 8 0 ++ le 8 0 ++ le 2 MF.TABLE_WIDTH ++ le 8 (MF.h_start h)).
  assert (E : (MF.SIG_FRHP ++ [0] ++ le 2 MF.ID_LEN ++ le 2 0 ++ [0] ++ le 4 MF.MAX_OBJ ++ le 8 0 ++ le 8 0 ++ le 8 (MF.h_free h) ++ le 8 0
               ++ le 8 (MF.h_mansize h) ++ le 8 (MF.h_alloc h) ++ le 8 (MF.h_manoff h) ++ le 8 (MF.h_nobj h)
               ++ le 8 0 ++ le 8 0 ++ le 8 0 ++ le 8 0 ++ le 2 MF.TABLE_WIDTH ++ le 8 (MF.h_start h) ++ le 8 65536 ++ le 2 MF.MAX_HEAP_BITS ++ le 2 0
               ++ le 8 (MF.h_root h) ++ le 2 (MF.h_rows h)) ++ tail
              = p10 ++ le 4 MF.MAX_OBJ ++ mid ++ le 8 65536 ++ le 2 MF.MAX_HEAP_BITS ++ le 2 0 ++ le 8 (MF.h_root h) ++ (le 2 (MF.h_rows h) ++ tail)).
  { unfold p10, mid. rewrite <- !app_assoc. reflexivity. }
  rewrite E. clear E.
  assert (L10 : blen p10 = 10) by reflexivity.
  assert (Lmid : blen mid = 106) by (unfold mid; rewrite !blen_app, !blen_le; reflexivity).
  unfold dec_fheaphdr. cbn [SB' spp_offsize spp_lensize spp_bigendian].
  change (144 <? 132 + 8) with false. cbv iota.
  unfold p10 at 1. rewrite <- (app_assoc MF.SIG_FRHP).
  rewrite (slice_head MF.SIG_FRHP _ 4) by reflexivity. cbn [obind].
  change (bytes_eqb MF.SIG_FRHP [70; 82; 72; 80]) with true. cbn [negb].
  unfold rd_end.
  rewrite (rd_le_at p10 4 4 MF.MAX_OBJ) by (auto; reflexivity). cbn [obind].
  replace (p10 ++ le 4 MF.MAX_OBJ ++ mid ++ le 8 65536 ++ le 2 MF.MAX_HEAP_BITS ++ le 2 0 ++ le 8 (MF.h_root h) ++ le 2 (MF.h_rows h) ++ tail)
    with ((p10 ++ le 4 MF.MAX_OBJ ++ mid) ++ le 8 65536 ++ (le 2 MF.MAX_HEAP_BITS ++ le 2 0 ++ le 8 (MF.h_root h) ++ le 2 (MF.h_rows h) ++ tail))
    by (rewrite <- !app_assoc; reflexivity).
  assert (L120 : blen (p10 ++ le 4 MF.MAX_OBJ ++ mid) = 120) by (rewrite !blen_app, L10, Lmid, blen_le; reflexivity).
  rewrite (slice_app' (p10 ++ le 4 MF.MAX_OBJ ++ mid) (le 8 65536) _ (112 + 8) (112 + 8 + 8)) by (rewrite ?blen_le; auto).
  cbn [obind]. change (144 <? 112 + 8 + 8 + 2) with false. cbv iota.
  replace ((p10 ++ le 4 MF.MAX_OBJ ++ mid) ++ le 8 65536 ++ le 2 MF.MAX_HEAP_BITS ++ le 2 0 ++ le 8 (MF.h_root h) ++ le 2 (MF.h_rows h) ++ tail)
    with (((p10 ++ le 4 MF.MAX_OBJ ++ mid) ++ le 8 65536) ++ le 2 MF.MAX_HEAP_BITS ++ (le 2 0 ++ le 8 (MF.h_root h) ++ le 2 (MF.h_rows h) ++ tail))
    by (rewrite <- !app_assoc; reflexivity).
  rewrite (rd_le_at ((p10 ++ le 4 MF.MAX_OBJ ++ mid) ++ le 8 65536) 2 2 MF.MAX_HEAP_BITS)
    by (try reflexivity; rewrite blen_app, L120, blen_le; reflexivity).
  cbn [obind]. change (144 <? 132 + 8) with false. cbv iota.
  replace (((p10 ++ le 4 MF.MAX_OBJ ++ mid) ++ le 8 65536) ++ le 2 MF.MAX_HEAP_BITS ++ le 2 0 ++ le 8 (MF.h_root h) ++ le 2 (MF.h_rows h) ++ tail)
    with ((((p10 ++ le 4 MF.MAX_OBJ ++ mid) ++ le 8 65536) ++ le 2 MF.MAX_HEAP_BITS ++ le 2 0) ++ le 8 (MF.h_root h) ++ (le 2 (MF.h_rows h) ++ tail))
    by (rewrite <- !app_assoc; reflexivity).
  rewrite (slice_app' (((p10 ++ le 4 MF.MAX_OBJ ++ mid) ++ le 8 65536) ++ le 2 MF.MAX_HEAP_BITS ++ le 2 0) (le 8 (MF.h_root h)) _ 132 (132 + 8))
    by (rewrite ?blen_app, ?L120, ?blen_le; reflexivity).
  cbn [obind]. rewrite read_addr_le8 by exact Hr. reflexivity.
Qed.

(* the 144 bytes readFractalHeapHeaderRaw reads of the 146-byte header: the 142 body bytes and half of the checksum *)
Lemma rd_fheap_header h : exists tail, blen tail = 2 /\ rd (MF.encode_header h) 0 144 = MF.header_body h ++ tail.
Proof.
  unfold MF.encode_header. set (c := crc32 _). clearbody c.
  exists (firstn 2 (le 4 c)). split; [reflexivity|].
  unfold rd. change (N.to_nat 0) with 0%nat. change (N.to_nat 144) with 144%nat. cbn [skipn].
  rewrite firstn_app. assert (L : length (MF.header_body h) = 142%nat) by reflexivity.
  rewrite L. rewrite firstn_all2 by blia. reflexivity.
Qed.

(* ------------------------------------------------------------------ parseHeapID on the 7 bytes the index keeps of encode_id *)
Lemma parse_heap_id_enc off n : off < 65536 -> n < 16777216 ->
  parse_heap_id (firstn 7 (MF.encode_id 3 off n)) 2 3 = Ok (off, n).
Proof.
  intros Ho Hn. unfold MF.encode_id, parse_heap_id.
  change (N.to_nat 3) with 3%nat. cbn [le app firstn]. rewrite index0. cbn [obind].
  change (N.shiftr (N.land 0 48) 4 =? 0) with true. cbn [negb].
  change (N.min 2 6) with 2. change (N.min 3 (6 - 2)) with 3. change (N.to_nat 2) with 2%nat. change (N.to_nat 3) with 3%nat.
  change (1 + 2)%nat with 3%nat. cbn [skipn firstn].
  f_equal. f_equal.
  - change (unle (le 2 off) = off). apply unle_le_small. exact Ho.
  - change (unle (le 3 n) = n). apply unle_le_small. exact Hn.
Qed.

(* ------------------------------------------------------------------ readHeapObject on FHeap.encode_dblock *)
(* the direct block as bytes: 15-byte prefix, the objects, zero fill, checksum *)
Lemma dblock_bytes b : 19 <= MF.db_size b -> blen (MF.db_objs b) <= MF.db_size b - 19 ->
  exists c, MF.encode_dblock b =
    ((MF.SIG_FHDB ++ [0]) ++ le 8 (MF.db_hdraddr b) ++ le 2 (MF.db_boff b))
    ++ MF.db_objs b ++ (MF.zeros (MF.db_size b - 19 - blen (MF.db_objs b)) ++ le 4 c).
Proof.
  intros Hs Ho. destruct (PF.encode_dblock_shape b Hs Ho) as [c E]. exists c. rewrite E.
  rewrite <- !app_assoc. reflexivity.
Qed.

Section HeapObject.
Variable f : bytes.
Variable ba : N.                  (* address of the direct block *)
Variable b : MF.dblock.
Hypothesis Hs31 : 31 <= MF.db_size b.
Let Hs : 19 <= MF.db_size b.
Proof using Hs31. blia. Qed.
Hypothesis Ho : blen (MF.db_objs b) <= MF.db_size b - 19.
Hypothesis Hboff : MF.db_boff b = 0.
Hypothesis HP : placed f ba (MF.encode_dblock b).
Hypothesis Hba : ba + MF.db_size b <= MAXI64.

Lemma blen_dblock : blen (MF.encode_dblock b) = MF.db_size b.
Proof using Hs31 Ho. exact (PF.len_encode_dblock b Hs Ho). Qed.

(* an object that lies in db_objs at offset off *)
Lemma heap_object_read x m y : MF.db_objs b = x ++ m ++ y -> 0 < blen m ->
  run0 f (p_heap_object SB' ba (blen x) (blen m) 2) = Ok m.
Proof using Hs31 Ho Hboff HP Hba.
  intros E Hm. unfold p_heap_object. cbn [SB' spp_offsize]. change (5 + 8 + 2) with 15. change (15 + 16) with 31.
  destruct (dblock_bytes b Hs Ho) as [c Eb].
  assert (Ltot : blen (MF.encode_dblock b) = MF.db_size b) by exact blen_dblock.
  assert (Lobjs : blen (MF.db_objs b) = blen x + blen m + blen y) by (rewrite E, !blen_app; blia).
  replace ba with (ba + 0) at 1 by blia.
  rewrite (run0_short_placed _ f ba (MF.encode_dblock b) 0 31 _ HP) by (rewrite Ltot; blia).
  set (pre := (MF.SIG_FHDB ++ [0]) ++ le 8 (MF.db_hdraddr b) ++ le 2 (MF.db_boff b)) in *.
  assert (Lpre : blen pre = 15) by reflexivity.
  (* the header bytes *)
  assert (Hhd : exists t, rd (MF.encode_dblock b) 0 31 = pre ++ t).
  { rewrite Eb. unfold rd. change (N.to_nat 0) with 0%nat. change (N.to_nat 31) with 31%nat. cbn [skipn].
    rewrite firstn_app. assert (L : length pre = 15%nat) by reflexivity. rewrite L.
    rewrite (firstn_all2 (n := 31) pre) by blia. eexists. reflexivity. }
  destruct Hhd as [t Et]. rewrite Et.
  rewrite run0_bind. unfold dec_dblock. cbn [SB' spp_offsize lift]. change (5 + 8 + 2) with 15. change (31 <? 15) with false. cbv iota.
  unfold pre at 1. rewrite <- !app_assoc.
  rewrite (slice_head MF.SIG_FHDB _ 4) by reflexivity. cbn [obind].
  change (bytes_eqb MF.SIG_FHDB [70; 72; 68; 66]) with true. cbn [negb].
  replace (MF.SIG_FHDB ++ [0] ++ le 8 (MF.db_hdraddr b) ++ le 2 (MF.db_boff b) ++ t)
    with ((MF.SIG_FHDB ++ [0] ++ le 8 (MF.db_hdraddr b)) ++ le 2 (MF.db_boff b) ++ t) by (rewrite <- !app_assoc; reflexivity).
  match goal with |- context [slice ?bb ?x ?y] => replace (slice bb x y) with (Ok (le 2 (MF.db_boff b))) end.
  2:{ symmetry. apply (slice_app' (MF.SIG_FHDB ++ [0] ++ le 8 (MF.db_hdraddr b)) (le 2 (MF.db_boff b)) t); reflexivity. }
  cbn [obind]. rewrite Hboff. change (wrap64 (unle (firstn 8 (le 2 0)))) with 0.
  cbn [lift]. rewrite run0_ret.
  replace (blen x <? 0) with false by (symmetry; apply N.ltb_ge; blia).
  replace (blen x - 0) with (blen x) by blia.
  assert (Hw : wrap64 (ba + 15 + blen x) = ba + 15 + blen x).
  { unfold wrap64. apply N.mod_small. unfold MAXI64 in Hba. blia. }
  rewrite Hw.
  apply run0_read_bytes_at; [| reflexivity | exact Hm | unfold MAXI64 in *; blia].
  (* the object sits in the block *)
  rewrite Eb, E in HP.
  replace (pre ++ (x ++ m ++ y) ++ MF.zeros (MF.db_size b - 19 - blen (x ++ m ++ y)) ++ le 4 c)
    with ((pre ++ x) ++ m ++ (y ++ MF.zeros (MF.db_size b - 19 - blen (x ++ m ++ y)) ++ le 4 c)) in HP
    by (rewrite <- !app_assoc; reflexivity).
  apply placed_sub in HP. rewrite blen_app, Lpre in HP.
  replace (ba + 15 + blen x) with (ba + (15 + blen x)) by blia. exact HP.
Qed.
End HeapObject.
