(* C01 end to end, superblock version 0, composition: hdf5.Open's loader program (p_open, Model/IOProgOpen.v) run on image_v0
   returns the tree "/" with exactly one child, the dataset `name` at the address of its object header.  The loader's path:
   loadGroup(96) reads the signature at 96 (a version 1 object header, not "SNOD") -> loadModernGroup(96) -> the symbol table
   message of the root header (B-tree 136, heap 1480; the same addresses as the superblock's cached scratch pad) ->
   loadChildren -> loadObject(dataset). *)
From HV Require Import Base.Prelude Base.Outcome Base.Bytes Model.IOProg Proofs.IOProg Model.IOProgReader Model.IOProgOpen.
From HV Require Import Model.CodecSuper Model.CodecOhdr Model.CodecMsg Model.CodecType Model.CodecLink Model.GroupWire.
From HV Require Import Model.FileImage Proofs.FileImage Proofs.FileImageOhdr Proofs.FileImageData Proofs.FileImageGroup
  Proofs.FileImageOpen.
From HV Require Import Model.FileImageV0 Proofs.FileImageV0 Proofs.FileImageV0Group.

Lemma root0_det : det_type root0_msgs = 0. Proof. reflexivity. Qed.
Lemma root0_nolinks : existsb (fun m => hmp_type m =? 6) root0_msgs = false. Proof. reflexivity. Qed.
Lemma root0_stab : last_symtab SB0' root0_msgs = Some (136, 1480). Proof. reflexivity. Qed.
Lemma root0_attrs : p_attrs SB0' root0_msgs = Ret []. Proof. reflexivity. Qed.
Lemma dset_attrs0 m3 m1 m8 o3 o1 o8 :
  p_attrs SB0' [ {| hmp_type := 3; hmp_offset := o3; hmp_data := m3 |}; {| hmp_type := 1; hmp_offset := o1; hmp_data := m1 |};
                 {| hmp_type := 8; hmp_offset := o8; hmp_data := m8 |} ] = Ret [].
Proof. reflexivity. Qed.

Section Image.
Variable name : bytes.
Variables class size cbf : N.
Variable dims : list N.
Variable data : bytes.
Hypothesis Hname : link_name_ok name = true.
Hypothesis Hdt : basic_dtype class size cbf = true.
Hypothesis Hdims : dims_ok dims = true.
Hypothesis Hlen : blen data = total_elems dims * size.
Hypothesis Hpos : 0 < blen data.
Hypothesis Hbound : blen data < 4294967296.

Local Notation f := (image_v0 name class size cbf dims data).
Local Notation da := (dset_addr0 data).
Local Notation seg := ((name ++ [0]) ++ zeros (N.to_nat (256 - (blen name + 1)))).

Variable B : N.
Hypothesis HB : 1 <= B.
Variable hfuel : nat.
Hypothesis Hhf : (3 < hfuel)%nat.

Lemma object_stage0 rec v :
  run0 f (p_object true SB0' B hfuel rec da name {| vbt := v; loading := []; cnt := 0 |})
  = Ok (Dset name da, {| vbt := v; loading := []; cnt := 1 |}).
Proof.
  unfold p_object, enter. cbn [loading cnt vbt mem existsb lenN' length N.of_nat].
  change (1024 <=? 0) with false. change (0 + 1) with 1.
  replace (B <? 1) with false by (symmetry; apply N.ltb_ge; exact HB). cbv iota.
  unfold p_sig.
  rewrite (run0_read_exact _ f da [79; 72; 68; 82] 4 _ (P0_dset_sig name class size cbf dims data Hname) eq_refl).
  change (bytes_eqb [79; 72; 68; 82] SNOD) with false. cbv iota.
  unfold with_header. rewrite run0_bind.
  rewrite (dset_header0 name class size cbf dims data Hname Hdt Hdims Hlen Hbound hfuel Hhf).
  rewrite run0_swallow.
  unfold proj_ohdr_v2, dset_ohdr0. cbn [oh_msgs oh_flags msgs_at_v2 ohp_msgs hm_type hm_data].
  rewrite dset_attrs0. cbn [bind]. rewrite run0_ret. rewrite dset_det.
  change (1 =? 0) with false. change (1 =? 1) with true. cbv iota.
  unfold leave. cbn [fst snd vbt loading cnt filter]. rewrite N.eqb_refl. cbn [negb]. reflexivity.
Qed.

Lemma children_stage0 n :
  run0 f (p_children true SB0' (p_load true SB0' B hfuel (S n)) 136 1480 {| vbt := []; loading := []; cnt := 0 |})
  = Ok ([Dset name da], {| vbt := [136]; loading := []; cnt := 1 |}).
Proof.
  unfold p_children. cbn [mem existsb vbt loading cnt].
  rewrite run0_bind, (heap_stage0 name class size cbf dims data Hname).
  unfold p_sig.
  rewrite (run0_read_exact _ f 136 [84; 82; 69; 69] 4 _ (P0_bt_sig name class size cbf dims data) eq_refl).
  change (bytes_eqb [84; 82; 69; 69] [84; 82; 69; 69]) with true. cbv iota.
  rewrite run0_bind, (btree_stage0 name class size cbf dims data Hbound).
  cbn [children_loop is_soft]. change (0 =? 2) with false. cbv iota.
  unfold p_sig.
  rewrite (run0_read_exact _ f da [79; 72; 68; 82] 4 _ (P0_dset_sig name class size cbf dims data Hname) eq_refl).
  change (bytes_eqb [79; 72; 68; 82] SNOD) with false. rewrite andb_false_r.
  rewrite run0_bind. unfold load_entry.
  rewrite (run0_lift_ok _ _ _ _ f name (heap_name name Hname)).
  change (0 =? 1) with false. cbn [andb].
  cbn [p_load dispatch].
  rewrite object_stage0. cbn [fst snd]. reflexivity.
Qed.

Lemma modern_stage0 n :
  run0 f (p_modern true SB0' hfuel (p_load true SB0' B hfuel (S n)) 96 {| vbt := []; loading := []; cnt := 0 |})
  = Ok (Grp [] 96 [Dset name da], {| vbt := [136]; loading := []; cnt := 1 |}).
Proof.
  unfold p_modern, with_header. rewrite run0_bind.
  rewrite (root0_header name class size cbf dims data hfuel ltac:(blia)).
  rewrite run0_swallow. cbn [ohp_msgs ohp_name root0_hdr]. rewrite root0_attrs. cbn [bind]. rewrite run0_ret.
  rewrite root0_det, root0_nolinks, root0_stab.
  change (0 =? 0) with true. cbn [orb negb]. cbv iota.
  rewrite run0_bind, children_stage0. reflexivity.
Qed.

Theorem open_image0 n : B = blen f / 8 + 1024 ->
  run0 f (p_open true (blen f) (S (S (S n))) hfuel) = Ok (Grp [47] 96 [Dset name da]).
Proof.
  intros HBe. unfold p_open.
  rewrite (sig_read0 name class size cbf dims data).
  change (bytes_eqb signature signature) with true. cbn [negb].
  rewrite run0_bind, (superblock_stage0 name class size cbf dims data Hbound).
  cbn [spp_root SB0'].
  replace (blen f <=? 96) with false.
  2:{ symmetry. apply N.leb_gt. rewrite (image0_len name class size cbf dims data Hname Hdt Hdims Hlen Hbound).
      unfold eof_addr0, dset_addr0. change DATA0_ADDR with 1768. blia. }
  rewrite run0_bind. rewrite <- HBe.
  cbn [p_load dispatch]. unfold p_group. change (96 =? 0) with false. cbv iota.
  unfold p_sig.
  rewrite (run0_read_exact _ f 96 [1; 0; 1; 0] 4 _ (P0_root_sig name class size cbf dims data) eq_refl).
  change (bytes_eqb [1; 0; 1; 0] SNOD) with false. cbv iota.
  cbn [p_load dispatch].
  change (fun (r : req) (st : lstate) => dispatch true SB0' B hfuel (p_load true SB0' B hfuel n) r st) with (p_load true SB0' B hfuel (S n)).
  rewrite modern_stage0. reflexivity.
Qed.
End Image.
