(* C05: the writer's fractal heap encoders (Model/FHeap.v encode_header / encode_dblock, transcriptions of
   internal/structures/fractalheap_write.go writeHeaderAt / writeDirectBlockAt, tied to the Go code by C15) against the
   specification decoders Spec/FormatNode.v spec_dec_fheap_hdr / spec_dec_fhdb.

   Model/FHeap.v has its own Ok/Err/zeros/len/slice; it is only Required here (MF.x), the specification side is imported. *)
From HV Require Import Base.Prelude Base.Outcome Base.Bytes Base.Crc32 Spec.Lookup3 Spec.Parse Spec.Format Spec.FormatNode
  Proofs.SpecSuper.
From HV Require Model.FHeap Proofs.FHeap.
Module MF := HV.Model.FHeap.
Module PF := HV.Proofs.FHeap.

(* ------------------------------------------------------------------ small facts *)
Definition lt64 (v : N) : bool := v <? 18446744073709551616.

Lemma lt64_lt v : lt64 v = true -> v < 256 ^ N.of_nat 8.
Proof. unfold lt64. intros H. apply N.ltb_lt in H. exact H. Qed.
Lemma lt16_lt v : (v <? 65536) = true -> v < 256 ^ N.of_nat 2.
Proof. intros H. apply N.ltb_lt in H. exact H. Qed.
Lemma small64 v : v <= 65536 -> v < 256 ^ N.of_nat 8.
Proof. intros H. change (256 ^ N.of_nat 8) with 18446744073709551616. lia. Qed.

Lemma crc32_lt bs : crc32 bs < 256 ^ N.of_nat 4.
Proof. unfold crc32, wrap32. change (256 ^ N.of_nat 4) with 4294967296. apply N.mod_lt. discriminate. Qed.

Lemma tail4_len (a : list N) c : (4 <=? length (a ++ le 4 c))%nat = true.
Proof. rewrite app_length, length_le. apply Nat.leb_le. lia. Qed.

Lemma tail4_skip (a : list N) c : skipn (length (a ++ le 4 c) - 4) (a ++ le 4 c) = le 4 c.
Proof.
  rewrite app_length, length_le, Nat.add_sub, skipn_app, skipn_all, Nat.sub_diag. reflexivity.
Qed.

Lemma front4 (a : list N) c : firstn (length (a ++ le 4 c) - 4) (a ++ le 4 c) = a.
Proof. exact (consumed_app a (le 4 c)). Qed.

Ltac lt_solve := first [assumption | reflexivity | lia].
Ltac pu := rewrite p_u_le by lt_solve; cbn [obind].

(* ================================================================== fractal heap header *)

(* every field the encoder was given *)
Definition logical_fheap_hdr (h : MF.heap) : fheap_spec :=
  {| fh_idlen := MF.ID_LEN; fh_filtlen := 0; fh_flags := 0; fh_maxobj := MF.MAX_OBJ; fh_nexthuge := 0; fh_hugebt := 0;
     fh_free := MF.h_free h; fh_fsaddr := 0; fh_mansize := MF.h_mansize h; fh_manalloc := MF.h_alloc h;
     fh_iter := MF.h_manoff h; fh_nman := MF.h_nobj h; fh_hugesize := 0; fh_nhuge := 0; fh_tinysize := 0; fh_ntiny := 0;
     fh_width := MF.TABLE_WIDTH; fh_start := MF.h_start h; fh_maxdirect := MF.h_maxdb h; fh_maxheap := MF.MAX_HEAP_BITS;
     fh_startrows := 0; fh_root := MF.h_root h; fh_currows := MF.h_rows h |}.

(* the writer stores 0 for the huge-object B-tree and free-space manager addresses: the second tag is unconditional *)
Definition tags_fheap_hdr (h : MF.heap) : list tag :=
  (if crc32 (MF.header_body h) =? hashlittle (MF.header_body h) 0 then [] else [T_fheap_hdr_crc32])
  ++ [T_fheap_addr_0_not_undef].

(* what the theorems ask of the heap state: every field fits the bytes it is written in (otherwise the encoder truncates
   and the decoded value differs), and the block sizes satisfy the specification's constraints (powers of two,
   start <= max direct <= 2^(max heap size)) *)
Definition wf_fheap_hdr (h : MF.heap) : bool :=
  lt64 (MF.h_free h) && lt64 (MF.h_mansize h) && lt64 (MF.h_alloc h) && lt64 (MF.h_manoff h) && lt64 (MF.h_nobj h)
  && lt64 (MF.h_root h) && (MF.h_rows h <? 65536)
  && pow2 (MF.h_start h) && pow2 (MF.h_maxdb h)
  && (MF.h_maxdb h <=? 2 ^ MF.MAX_HEAP_BITS) && (MF.h_start h <=? MF.h_maxdb h).

Lemma encode_header_eq h : MF.encode_header h = MF.header_body h ++ le 4 (crc32 (MF.header_body h)).
Proof. reflexivity. Qed.

(* the decoder on the header bytes followed by ANY stored checksum value c *)
Lemma spec_fheap_hdr_any tol h c : wf_fheap_hdr h = true -> c < 256 ^ N.of_nat 4 ->
  spec_dec_fheap_hdr tol 8 8 (MF.header_body h ++ le 4 c) =
    (tg1 <- check_sum tol T_fheap_hdr_crc32 (MF.header_body h) c;;
     tg2 <- dev tol T_fheap_addr_0_not_undef;;
     Ok (logical_fheap_hdr h, tg1 ++ tg2, [])).
Proof.
  intros W Hc. unfold wf_fheap_hdr in W.
  repeat (apply andb_true_iff in W as [W ?]).
  assert (Hfree := lt64_lt _ W).
  repeat match goal with H : lt64 _ = true |- _ => apply lt64_lt in H end.
  match goal with H : (_ <? 65536) = true |- _ => apply lt16_lt in H end.
  assert (Hmd : MF.h_maxdb h <= 65536) by (apply N.leb_le; assumption).
  assert (Hsm : MF.h_start h <= MF.h_maxdb h) by (apply N.leb_le; assumption).
  assert (Hmd8 : MF.h_maxdb h < 256 ^ N.of_nat 8) by (apply small64; lia).
  assert (Hst8 : MF.h_start h < 256 ^ N.of_nat 8) by (apply small64; lia).
  remember (MF.header_body h) as body eqn:Eb.
  remember (body ++ le 4 c) as bs eqn:Ebs.
  assert (E1 : bs = frhp_sig ++ [0] ++ le 2 MF.ID_LEN ++ le 2 0 ++ [0] ++ le 4 MF.MAX_OBJ
      ++ le 8 0 ++ le 8 0 ++ le 8 (MF.h_free h) ++ le 8 0
      ++ le 8 (MF.h_mansize h) ++ le 8 (MF.h_alloc h) ++ le 8 (MF.h_manoff h) ++ le 8 (MF.h_nobj h)
      ++ le 8 0 ++ le 8 0 ++ le 8 0 ++ le 8 0
      ++ le 2 MF.TABLE_WIDTH ++ le 8 (MF.h_start h) ++ le 8 (MF.h_maxdb h) ++ le 2 MF.MAX_HEAP_BITS ++ le 2 0
      ++ le 8 (MF.h_root h) ++ le 2 (MF.h_rows h) ++ le 4 c).
  { rewrite Ebs, Eb. unfold MF.header_body. change MF.SIG_FRHP with frhp_sig. rewrite <- !app_assoc. reflexivity. }
  assert (E2 : consumed bs (le 4 c) = body) by (rewrite Ebs; apply consumed_app).
  unfold spec_dec_fheap_hdr. rewrite E1 at 1. rewrite p_expect_app.
  cbn [obind app p_byte N.eqb guard].
  pu. pu. cbn [obind app p_byte N.ltb N.compare guard].
  pu. pu. pu. pu. pu. pu. pu. pu. pu. pu. pu. pu. pu.
  pu. pu. pu. pu. pu. pu. pu.
  cbn [N.ltb N.compare obind].
  rewrite E2. rewrite p_u_le_end by assumption. cbn [obind].
  destruct (check_sum tol T_fheap_hdr_crc32 body c) as [tg1| |]; cbn [obind]; try reflexivity.
  change (pow2 MF.TABLE_WIDTH) with true. change (MF.MAX_HEAP_BITS <=? 64) with true.
  repeat match goal with H : _ = true |- _ => rewrite H; clear H end.
  cbn [andb guard obind]. change ((0 =? 0) || (0 =? 0)) with true. cbn [devif].
  reflexivity.
Qed.

(* 1. the tolerant decoder accepts every well-formed header the writer encodes, with exactly these tags *)
Lemma spec_fheap_hdr_tolerant : forall h, wf_fheap_hdr h = true ->
  spec_dec_fheap_hdr tolerant 8 8 (MF.encode_header h) = Ok (logical_fheap_hdr h, tags_fheap_hdr h, []).
Proof.
  intros h W. rewrite encode_header_eq, spec_fheap_hdr_any by (try assumption; apply crc32_lt).
  rewrite check_sum_of_crc. unfold tags_fheap_hdr.
  destruct (crc32 (MF.header_body h) =? hashlittle (MF.header_body h) 0); reflexivity.
Qed.

(* 2. the strict decoder rejects every one of them (address 0 where the undefined address belongs) *)
Lemma spec_fheap_hdr_strict : forall h, wf_fheap_hdr h = true ->
  spec_dec_fheap_hdr strict 8 8 (MF.encode_header h) = Err.
Proof.
  intros h W. rewrite encode_header_eq, spec_fheap_hdr_any by (try assumption; apply crc32_lt).
  rewrite check_sum_of_crc.
  destruct (crc32 (MF.header_body h) =? hashlittle (MF.header_body h) 0); reflexivity.
Qed.

(* ================================================================== direct block *)

Definition fhdb_pre (b : MF.dblock) : bytes :=
  MF.SIG_FHDB ++ [0] ++ le 8 (MF.db_hdraddr b) ++ le 2 (MF.db_boff b).

(* the bytes the trailing CRC-32 covers: the block buffer without its last four bytes *)
Definition fhdb_body (b : MF.dblock) : bytes :=
  MF.take (MF.db_size b - MF.CKSUM)
          (fhdb_pre b ++ MF.copy_into (MF.zeros (MF.db_size b - MF.PREFIX)) (MF.db_objs b)).

Definition wf_fhdb (b : MF.dblock) : bool :=
  (MF.PREFIX + MF.CKSUM <=? MF.db_size b) && (MF.db_boff b <? 65536) && lt64 (MF.db_hdraddr b).

Lemma encode_dblock_eq b : MF.encode_dblock b = fhdb_body b ++ le 4 (crc32 (fhdb_body b)).
Proof. reflexivity. Qed.

Lemma fhdb_body_split b : 19 <= MF.db_size b ->
  fhdb_body b = fhdb_pre b
                ++ MF.take (MF.db_size b - 19) (MF.copy_into (MF.zeros (MF.db_size b - MF.PREFIX)) (MF.db_objs b)).
Proof.
  intros Hs. unfold fhdb_body, MF.CKSUM.
  assert (Hp : MF.len (fhdb_pre b) = 15) by reflexivity.
  rewrite PF.take_app_r by (rewrite Hp; lia). rewrite Hp. f_equal. f_equal. lia.
Qed.

(* the decoder on prefix ++ data ++ ANY trailing 4-byte value c *)
Lemma spec_fhdb_any tol ha bo (rest : list N) c :
  ha < 256 ^ N.of_nat 8 -> bo < 256 ^ N.of_nat 2 -> c < 256 ^ N.of_nat 4 ->
  spec_dec_fhdb tol 8 ha 2 bo 0 ((fhdb_sig ++ [0] ++ le 8 ha ++ le 2 bo) ++ rest ++ le 4 c) =
    if c =? 0 then Ok (15, [])
    else (_ <- guard (c =? crc32 ((fhdb_sig ++ [0] ++ le 8 ha ++ le 2 bo) ++ rest));;
          tg <- dev tol T_fhdb_trailing_crc32;; Ok (15, tg)).
Proof.
  intros Hha Hbo Hc.
  remember (fhdb_sig ++ [0] ++ le 8 ha ++ le 2 bo) as pre eqn:Ep.
  remember (pre ++ rest ++ le 4 c) as bs eqn:Ebs.
  assert (E1 : bs = fhdb_sig ++ [0] ++ le 8 ha ++ le 2 bo ++ rest ++ le 4 c).
  { rewrite Ebs, Ep. rewrite <- !app_assoc. reflexivity. }
  assert (E2 : consumed bs (rest ++ le 4 c) = pre) by (rewrite Ebs; apply consumed_app).
  assert (E3 : firstn (length bs - 4) bs = pre ++ rest) by (rewrite Ebs, app_assoc; apply front4).
  assert (E4 : blen pre = 15) by (rewrite Ep; reflexivity).
  unfold spec_dec_fhdb. rewrite E1 at 1. rewrite p_expect_app.
  cbn [obind app p_byte N.eqb guard].
  pu. rewrite N.eqb_refl. cbn [guard obind].
  pu. rewrite N.eqb_refl. cbn [guard obind].
  change (N.testbit 0 1) with false. cbv iota.
  rewrite tail4_len. cbn [guard obind].
  rewrite tail4_skip, E2, E3, E4. rewrite unle_le_small by assumption.
  reflexivity.
Qed.

Lemma wf_fhdb_fields b : wf_fhdb b = true ->
  19 <= MF.db_size b /\ MF.db_boff b < 256 ^ N.of_nat 2 /\ MF.db_hdraddr b < 256 ^ N.of_nat 8.
Proof.
  unfold wf_fhdb. intros W. repeat (apply andb_true_iff in W as [W ?]).
  split; [|split]; [apply N.leb_le in W; exact W | apply lt16_lt; assumption | apply lt64_lt; assumption].
Qed.

(* everything but the nature of the last four bytes is conformant: the decoder's answer for any tolerance *)
Lemma spec_fhdb tol b : wf_fhdb b = true ->
  spec_dec_fhdb tol 8 (MF.db_hdraddr b) 2 (MF.db_boff b) 0 (MF.encode_dblock b) =
    if crc32 (fhdb_body b) =? 0 then Ok (15, []) else (tg <- dev tol T_fhdb_trailing_crc32;; Ok (15, tg)).
Proof.
  intros W. destruct (wf_fhdb_fields b W) as (Hs & Hbo & Hha).
  rewrite encode_dblock_eq.
  pose proof (fhdb_body_split b Hs) as SP.
  remember (fhdb_body b) as body eqn:Eb.
  remember (MF.take (MF.db_size b - 19) (MF.copy_into (MF.zeros (MF.db_size b - MF.PREFIX)) (MF.db_objs b))) as rest.
  remember (crc32 body) as c eqn:Ec.
  assert (Hc : c < 256 ^ N.of_nat 4) by (rewrite Ec; apply crc32_lt).
  rewrite SP at 1. unfold fhdb_pre. change MF.SIG_FHDB with fhdb_sig.
  rewrite <- app_assoc.
  rewrite spec_fhdb_any by assumption.
  destruct (c =? 0); [reflexivity|].
  replace ((fhdb_sig ++ [0] ++ le 8 (MF.db_hdraddr b) ++ le 2 (MF.db_boff b)) ++ rest) with body
    by (rewrite SP; reflexivity).
  rewrite <- Ec, N.eqb_refl. reflexivity.
Qed.

(* 3. *)
Lemma spec_fhdb_tolerant : forall b, wf_fhdb b = true ->
  spec_dec_fhdb tolerant 8 (MF.db_hdraddr b) 2 (MF.db_boff b) 0 (MF.encode_dblock b) =
    Ok (15, if crc32 (fhdb_body b) =? 0 then [] else [T_fhdb_trailing_crc32]).
Proof. intros b W. rewrite spec_fhdb by assumption. destruct (crc32 (fhdb_body b) =? 0); reflexivity. Qed.

(* 4. *)
Lemma spec_fhdb_strict : forall b, wf_fhdb b = true ->
  spec_dec_fhdb strict 8 (MF.db_hdraddr b) 2 (MF.db_boff b) 0 (MF.encode_dblock b) =
    if crc32 (fhdb_body b) =? 0 then Ok (15, []) else Err.
Proof. intros b W. rewrite spec_fhdb by assumption. destruct (crc32 (fhdb_body b) =? 0); reflexivity. Qed.

(* ================================================================== reachable states
   Proofs/FHeap.v: every state reached from NewWritableFractalHeap(bs) by an admissible history (inserts that fit one
   direct block, get / overwrite / delete of live ids, write-out + reload) satisfies the representation relation
   [PF.R bs h fs sp].  R fixes every header field but the two addresses (root block address, heap header address in the
   block), which WriteToFile / WriteAt set (MF.set_addrs) before encoding; [addr_ok] carries them through a history.
   The specification also asks for a power-of-two block size, which R does not know: hypothesis [pow2 bs]
   (the library only calls NewWritableFractalHeap with 64 KiB and 512 KiB; see fheap_hdr_start_not_pow2_refuted). *)

Lemma R_wf_fheap_hdr bs h fs sp :
  MF.bs_ok bs = true -> pow2 bs = true -> PF.R bs h fs sp -> lt64 (MF.h_root h) = true -> wf_fheap_hdr h = true.
Proof.
  intros Hbs Hp HR Hroot. destruct (PF.bs_ok_bounds bs Hbs) as [[Hb1 Hb2] Hcap].
  pose proof (PF.R_free _ _ _ _ HR) as Q1. pose proof (PF.R_mansize _ _ _ _ HR) as Q2.
  pose proof (PF.R_alloc _ _ _ _ HR) as Q3. pose proof (PF.R_manoff _ _ _ _ HR) as Q4.
  pose proof (PF.R_nobj _ _ _ _ HR) as Q5. pose proof (PF.R_rows _ _ _ _ HR) as Q6.
  pose proof (PF.R_start _ _ _ _ HR) as Q7. pose proof (PF.R_maxdb _ _ _ _ HR) as Q8.
  pose proof (PF.R_vol _ _ _ _ HR) as V1. pose proof (PF.R_objlen _ _ _ _ HR) as V2.
  pose proof (PF.R_cnt _ _ _ _ HR) as V3. rewrite Hcap in V2.
  unfold wf_fheap_hdr. rewrite Q1, Q2, Q3, Q4, Q5, Q6, Q7, Q8, Hroot, Hp.
  change (2 ^ MF.MAX_HEAP_BITS) with 65536. unfold lt64.
  repeat (apply andb_true_iff; split); try reflexivity; try (apply N.ltb_lt; lia); apply N.leb_le; lia.
Qed.

Lemma R_wf_fhdb bs h fs sp :
  MF.bs_ok bs = true -> PF.R bs h fs sp -> lt64 (MF.db_hdraddr (MF.h_blk h)) = true -> wf_fhdb (MF.h_blk h) = true.
Proof.
  intros Hbs HR Ha. destruct (PF.bs_ok_bounds bs Hbs) as [[Hb1 Hb2] Hcap].
  unfold wf_fhdb. rewrite (PF.R_size _ _ _ _ HR), (PF.R_boff _ _ _ _ HR), Ha.
  change (MF.PREFIX + MF.CKSUM) with 19.
  repeat (apply andb_true_iff; split); try reflexivity. apply N.leb_le. lia.
Qed.

(* what WriteToFile / WriteAt encode for a state in R: the header and the direct block with the addresses filled in
   (PF.store_files: ha = 2048, ba = 2194 in the model's file) *)
Lemma spec_fheap_hdr_stored bs h fs sp ha ba :
  MF.bs_ok bs = true -> pow2 bs = true -> PF.R bs h fs sp -> lt64 ba = true ->
  let h1 := MF.set_addrs h ha ba in
  spec_dec_fheap_hdr tolerant 8 8 (MF.encode_header h1) = Ok (logical_fheap_hdr h1, tags_fheap_hdr h1, [])
  /\ spec_dec_fheap_hdr strict 8 8 (MF.encode_header h1) = Err.
Proof.
  intros Hbs Hp HR Hba h1.
  assert (W : wf_fheap_hdr h1 = true).
  { apply (R_wf_fheap_hdr bs h1 fs sp); try assumption. apply PF.R_set_addrs. assumption. }
  split; [apply spec_fheap_hdr_tolerant | apply spec_fheap_hdr_strict]; assumption.
Qed.

Lemma spec_fhdb_stored bs h fs sp ha ba :
  MF.bs_ok bs = true -> PF.R bs h fs sp -> lt64 ha = true ->
  let b := MF.h_blk (MF.set_addrs h ha ba) in
  spec_dec_fhdb tolerant 8 ha 2 0 0 (MF.encode_dblock b) =
    Ok (15, if crc32 (fhdb_body b) =? 0 then [] else [T_fhdb_trailing_crc32])
  /\ spec_dec_fhdb strict 8 ha 2 0 0 (MF.encode_dblock b) = if crc32 (fhdb_body b) =? 0 then Ok (15, []) else Err.
Proof.
  intros Hbs HR Hha b.
  assert (HR1 : PF.R bs (MF.set_addrs h ha ba) fs sp) by (apply PF.R_set_addrs; assumption).
  assert (W : wf_fhdb b = true) by (apply (R_wf_fhdb bs _ fs sp); assumption).
  assert (E1 : MF.db_hdraddr b = ha) by reflexivity.
  assert (E2 : MF.db_boff b = 0) by (apply (PF.R_boff _ _ _ _ HR1)).
  pose proof (spec_fhdb_tolerant b W) as T. pose proof (spec_fhdb_strict b W) as S.
  rewrite E1, E2 in T, S. split; assumption.
Qed.

(* ---- the two addresses along a history *)
Definition addr_ok (h : MF.heap) : Prop :=
  lt64 (MF.h_root h) = true /\ lt64 (MF.db_hdraddr (MF.h_blk h)) = true.

Lemma insert_addr cap h d pick :
  MF.h_ind h = None ->
  ((MF.len d =? 0) || (MF.MAX_OBJ <? MF.len d) = true \/ MF.needs_transition cap h (MF.len d) = false) ->
  MF.h_root (fst (MF.insert cap h d pick)) = MF.h_root h
  /\ MF.db_hdraddr (MF.h_blk (fst (MF.insert cap h d pick))) = MF.db_hdraddr (MF.h_blk h).
Proof.
  intros Hind Hc. unfold MF.insert.
  destruct (MF.len d =? 0); [split; reflexivity|].
  destruct (MF.MAX_OBJ <? MF.len d); [split; reflexivity|].
  destruct Hc as [Hc|Hc]; [discriminate|]. rewrite Hc, Hind.
  unfold MF.insert_direct.
  destruct (cap (MF.db_size (MF.h_blk h)) <? MF.db_free (MF.h_blk h) + MF.len d); split; reflexivity.
Qed.

Lemma overwrite_addr h id d :
  MF.h_root (fst (MF.overwrite h id d)) = MF.h_root h
  /\ MF.db_hdraddr (MF.h_blk (fst (MF.overwrite h id d))) = MF.db_hdraddr (MF.h_blk h).
Proof.
  unfold MF.overwrite. destruct (MF.parse_id h id) as [[off n]|]; [|split; reflexivity].
  destruct (negb (MF.len d =? n)); [split; reflexivity|].
  destruct (MF.len (MF.db_objs (MF.h_blk h)) <=? off); [split; reflexivity|].
  destruct (MF.len (MF.db_objs (MF.h_blk h)) <? off + n); split; reflexivity.
Qed.

Lemma delete_addr h id :
  MF.h_root (fst (MF.delete h id)) = MF.h_root h
  /\ MF.db_hdraddr (MF.h_blk (fst (MF.delete h id))) = MF.db_hdraddr (MF.h_blk h).
Proof.
  unfold MF.delete. destruct (MF.parse_id h id) as [[off n]|]; [|split; reflexivity].
  destruct (MF.len (MF.db_objs (MF.h_blk h)) <=? off); [split; reflexivity|].
  destruct (MF.len (MF.db_objs (MF.h_blk h)) <? off + n); split; reflexivity.
Qed.

Lemma step_addr_ok bs h fs sp o sp' x :
  MF.bs_ok bs = true -> PF.R bs h fs sp -> MF.spec_step bs sp o = Some (sp', x) -> addr_ok h ->
  addr_ok (fst (fst (MF.step MF.cap_new bs (h, fs) o))).
Proof.
  intros Hbs HR Hs [A1 A2]. unfold addr_ok.
  destruct o as [d pick|id|id d|id|].
  - assert (Hc : (MF.len d =? 0) || (MF.MAX_OBJ <? MF.len d) = true
                 \/ MF.needs_transition MF.cap_new h (MF.len d) = false).
    { cbn [MF.spec_step] in Hs.
      destruct ((MF.len d =? 0) || (MF.MAX_OBJ <? MF.len d)); [left; reflexivity|right].
      destruct (N.ltb_spec (MF.cap_new bs) (MF.sp_vol sp + MF.len d)); [discriminate|].
      unfold MF.needs_transition.
      rewrite (PF.R_ind _ _ _ _ HR), (PF.R_freeoff _ _ _ _ HR), (PF.R_size _ _ _ _ HR).
      destruct (N.leb_spec (MF.sp_vol sp + MF.len d) (MF.cap_new bs)); [reflexivity|lia]. }
    destruct (insert_addr MF.cap_new h d pick (PF.R_ind _ _ _ _ HR) Hc) as [E1 E2].
    unfold MF.step. destruct (MF.insert MF.cap_new h d pick) as [h1 r]. cbn [fst] in *. rewrite E1, E2. split; assumption.
  - split; assumption.
  - destruct (overwrite_addr h id d) as [E1 E2].
    unfold MF.step. destruct (MF.overwrite h id d) as [h1 r]. cbn [fst] in *. rewrite E1, E2. split; assumption.
  - destruct (delete_addr h id) as [E1 E2].
    unfold MF.step. destruct (MF.delete h id) as [h1 r]. cbn [fst] in *. rewrite E1, E2. split; assumption.
  - destruct (PF.step_SL_R bs h fs sp Hbs HR) as (fs1 & Hst & _). rewrite Hst. split; reflexivity.
Qed.

Lemma run_addr_ok bs hist : forall h fs sp sp' eouts,
  MF.bs_ok bs = true -> PF.R bs h fs sp -> addr_ok h -> MF.spec_run bs sp hist = Some (sp', eouts) ->
  exists h' fs', MF.run MF.cap_new bs (h, fs) hist = (h', fs', eouts) /\ PF.R bs h' fs' sp' /\ addr_ok h'.
Proof.
  induction hist as [|o r IH]; intros h fs sp sp' eouts Hbs HR HA Hs; cbn [MF.spec_run MF.run] in *.
  - injection Hs as <- <-. exists h, fs. split; [reflexivity|split; assumption].
  - destruct (MF.spec_step bs sp o) as [[sp1 x]|] eqn:E1; [|discriminate].
    destruct (MF.spec_run bs sp1 r) as [[sp2 xs]|] eqn:E2; [|discriminate]. injection Hs as <- <-.
    pose proof (step_addr_ok bs h fs sp o sp1 x Hbs HR E1 HA) as HA1.
    destruct (PF.step_refines bs h fs sp o sp1 x Hbs HR E1) as (h1 & fs1 & Hst & HR1).
    rewrite Hst in HA1. cbn [fst] in HA1.
    destruct (IH h1 fs1 sp1 sp2 xs Hbs HR1 HA1 E2) as (h2 & fs2 & Hrun & HR2 & HA2).
    exists h2, fs2. split; [|split; assumption]. rewrite Hst, Hrun. reflexivity.
Qed.

(* every state reached by an admissible history is well formed for both encoders; it has one direct block *)
Lemma reachable_wf bs hist :
  MF.bs_ok bs = true -> pow2 bs = true -> MF.one_block bs hist = true -> MF.targets_live bs hist = true ->
  let h := MF.heap_of MF.cap_new bs hist in
  wf_fheap_hdr h = true /\ wf_fhdb (MF.h_blk h) = true /\ MF.db_boff (MF.h_blk h) = 0 /\ MF.blocks_view h = [].
Proof.
  intros Hbs Hp H1 H2.
  destruct (PF.admissible_spec_run bs hist MF.spec0 H1 H2) as (sp & eouts & Hs).
  assert (HA0 : addr_ok (MF.new_heap bs)) by (split; reflexivity).
  destruct (run_addr_ok bs hist _ _ _ _ _ Hbs (PF.R_new bs Hbs) HA0 Hs) as (h & fs & Hr & HR & [A1 A2]).
  unfold MF.heap_of. rewrite Hr. cbv zeta.
  split; [|split; [|split]].
  - apply (R_wf_fheap_hdr bs h fs sp); assumption.
  - apply (R_wf_fhdb bs h fs sp); assumption.
  - apply (PF.R_boff _ _ _ _ HR).
  - unfold MF.blocks_view. rewrite (PF.R_ind _ _ _ _ HR). apply (PF.R_others _ _ _ _ HR).
Qed.

(* 5. composed with the invariant: header and current direct block of every reachable state *)
Lemma spec_fheap_hdr_reachable : forall bs hist,
  MF.bs_ok bs = true -> pow2 bs = true -> MF.one_block bs hist = true -> MF.targets_live bs hist = true ->
  let h := MF.heap_of MF.cap_new bs hist in
  spec_dec_fheap_hdr tolerant 8 8 (MF.encode_header h) = Ok (logical_fheap_hdr h, tags_fheap_hdr h, [])
  /\ spec_dec_fheap_hdr strict 8 8 (MF.encode_header h) = Err.
Proof.
  intros bs hist Hbs Hp H1 H2 h. destruct (reachable_wf bs hist Hbs Hp H1 H2) as (W & _).
  split; [apply spec_fheap_hdr_tolerant | apply spec_fheap_hdr_strict]; exact W.
Qed.

Lemma spec_fhdb_reachable : forall bs hist,
  MF.bs_ok bs = true -> pow2 bs = true -> MF.one_block bs hist = true -> MF.targets_live bs hist = true ->
  let b := MF.h_blk (MF.heap_of MF.cap_new bs hist) in
  spec_dec_fhdb tolerant 8 (MF.db_hdraddr b) 2 0 0 (MF.encode_dblock b) =
    Ok (15, if crc32 (fhdb_body b) =? 0 then [] else [T_fhdb_trailing_crc32])
  /\ spec_dec_fhdb strict 8 (MF.db_hdraddr b) 2 0 0 (MF.encode_dblock b) =
       (if crc32 (fhdb_body b) =? 0 then Ok (15, []) else Err).
Proof.
  intros bs hist Hbs Hp H1 H2 b. destruct (reachable_wf bs hist Hbs Hp H1 H2) as (_ & W & E & _).
  fold b in W, E. pose proof (spec_fhdb_tolerant b W) as T. pose proof (spec_fhdb_strict b W) as S.
  rewrite E in T, S. split; assumption.
Qed.

(* ================================================================== witnesses (refutation of strict conformance) *)
(* NewWritableFractalHeap(64), one 10-byte object, written out (header at 2048, block at 2194) and loaded back *)
Definition fheap_witness : MF.heap := MF.heap_of MF.cap_new 64 [MF.Ins (MF.obj 1 10) 0; MF.SL].

(* findings C05-fheap-hdr-crc32 and C05-fheap-addr-0-not-undef *)
Lemma fheap_hdr_refuted :
  wf_fheap_hdr fheap_witness = true /\
  MF.h_root fheap_witness = 2194 /\
  spec_dec_fheap_hdr strict 8 8 (MF.encode_header fheap_witness) = Err /\
  spec_dec_fheap_hdr tolerant 8 8 (MF.encode_header fheap_witness) =
    Ok (logical_fheap_hdr fheap_witness, [T_fheap_hdr_crc32; T_fheap_addr_0_not_undef], []) /\
  spec_dec_fheap_hdr (fun t => match t with T_fheap_hdr_crc32 => false | _ => true end) 8 8
    (MF.encode_header fheap_witness) = Err /\
  spec_dec_fheap_hdr (fun t => match t with T_fheap_addr_0_not_undef => false | _ => true end) 8 8
    (MF.encode_header fheap_witness) = Err.
Proof. repeat split; vm_compute; reflexivity. Qed.

(* finding C05-fhdb-trailing-crc32 *)
Lemma fhdb_refuted :
  wf_fhdb (MF.h_blk fheap_witness) = true /\
  spec_dec_fhdb strict 8 2048 2 0 0 (MF.encode_dblock (MF.h_blk fheap_witness)) = Err /\
  spec_dec_fhdb tolerant 8 2048 2 0 0 (MF.encode_dblock (MF.h_blk fheap_witness)) = Ok (15, [T_fhdb_trailing_crc32]).
Proof. repeat split; vm_compute; reflexivity. Qed.

(* the hypothesis [pow2 bs] is needed: a heap created with a block size that is not a power of two gets a header that
   no tolerance makes acceptable (starting block size / maximum direct block size must be powers of two).  The library
   itself only passes 64 KiB and 512 KiB. *)
Lemma fheap_hdr_start_not_pow2_refuted :
  MF.bs_ok 100 = true /\ spec_dec_fheap_hdr tolerant 8 8 (MF.encode_header (MF.new_heap 100)) = Err.
Proof. split; vm_compute; reflexivity. Qed.

(* Not covered: block sizes above 64 KiB (MF.bs_ok; the model fixes MAX_HEAP_BITS = 16 and a 2-byte block offset, while
   NewWritableFractalHeap widens the maximum heap size for larger blocks, e.g. 19 bits / 3-byte offsets for the 512 KiB
   heap of dense groups), heaps that moved to an indirect root (WriteToFile refuses them), and states outside PF.R. *)
