(* C05: the writer's superblock encoder (Model/CodecSuper.v enc_superblock, tied byte for byte to the Go code
   by C11) against the specification decoder Spec/Format.v spec_dec_superblock. *)
From HV Require Import Base.Prelude Base.Outcome Base.Bytes Base.Crc32 Spec.Lookup3 Spec.Parse Spec.Format
  Model.CodecSuper.

(* ---- the writer's CRC (CodecSuper.crc32_ieee, transcribed from Go) is the CRC-32 of Base/Crc32.v ---- *)
Lemma crc_bits8 r : crc_bits 8 r = crc_bit (crc_bit (crc_bit (crc_bit (crc_bit (crc_bit (crc_bit (crc_bit r))))))).
Proof. cbn [crc_bits]. unfold crc_bit, crc_poly. rewrite !N.bit0_odd. reflexivity. Qed.

Lemma crc32_update_eq bs r : CodecSuper.crc32_update r bs = Crc32.crc32_update r bs.
Proof.
  unfold CodecSuper.crc32_update, Crc32.crc32_update. revert r.
  induction bs as [|b bs IH]; intros r; cbn [fold_left]; auto.
  rewrite IH. f_equal. rewrite crc_bits8. reflexivity.
Qed.

Lemma crc32_ieee_eq bs : crc32 bs = wrap32 (crc32_ieee bs).
Proof. unfold crc32, crc32_ieee, crc_ones. now rewrite crc32_update_eq. Qed.

Lemma pow256_4 : 256 ^ N.of_nat 4 = 4294967296.
Proof. vm_compute. reflexivity. Qed.
Lemma crc32_ieee_mod bs : crc32_ieee bs mod 256 ^ N.of_nat 4 = crc32 bs.
Proof. rewrite crc32_ieee_eq, pow256_4. reflexivity. Qed.

(* ---- logical value of a superblock the writer encodes ---- *)
Definition logical_superblock (x : superblock) : superblock_spec :=
  if sp_version x =? 0 then
    {| sbs_version := 0; sbs_O := 8; sbs_L := 8; sbs_leafK := 4; sbs_intK := 16; sbs_istoreK := 32;
       sbs_flags := 0; sbs_base := sp_base x; sbs_ext := undef 8; sbs_eof := sp_eof x; sbs_driver := undef 8;
       sbs_root := sp_root x;
       sbs_root_entry := Some {| se_name_off := 0; se_obj := sp_root x; se_cache := 1;
                                 se_btree := sp_rootbtree x; se_heap := sp_rootheap x; se_link_off := 0 |} |}
  else
    {| sbs_version := sp_version x; sbs_O := 8; sbs_L := 8; sbs_leafK := 4; sbs_intK := 16; sbs_istoreK := 32;
       sbs_flags := 0; sbs_base := sp_base x;
       sbs_ext := (if sp_superext x =? 0 then undef 8 else sp_superext x);
       sbs_eof := sp_eof x; sbs_driver := undef 8; sbs_root := sp_root x; sbs_root_entry := None |}.

(* the bytes the v2/v3 checksum covers *)
Definition superblock_covered (x : superblock) : bytes :=
  signature ++ [sp_version x; 8; 8; 0] ++ le 8 (sp_base x)
  ++ le 8 (if sp_superext x =? 0 then UNDEF else sp_superext x) ++ le 8 (sp_eof x) ++ le 8 (sp_root x).

Ltac lt_solve := first [assumption | reflexivity | lia].
Ltac pu := rewrite p_u_le by lt_solve; cbn [obind].

Lemma u64_lt v : u64 v = true -> v < 256 ^ N.of_nat 8.
Proof. unfold u64. intros H. apply N.ltb_lt in H. exact H. Qed.

Lemma UNDEF_lt : UNDEF < 256 ^ N.of_nat 8.
Proof. vm_compute. reflexivity. Qed.

Lemma wf_superblock_fields x : wf_superblock x = true ->
  ((sp_version x = 0 \/ sp_version x = 2 \/ sp_version x = 3)) /\
  sp_base x < 256 ^ N.of_nat 8 /\ sp_root x < 256 ^ N.of_nat 8 /\ sp_superext x < 256 ^ N.of_nat 8 /\
  sp_rootbtree x < 256 ^ N.of_nat 8 /\ sp_rootheap x < 256 ^ N.of_nat 8 /\ sp_eof x < 256 ^ N.of_nat 8.
Proof.
  unfold wf_superblock, encok_superblock. intros H.
  repeat (apply andb_true_iff in H as [H ?]).
  repeat split; try (apply u64_lt; assumption).
  apply orb_true_iff in H as [H|H]; [apply orb_true_iff in H as [H|H]|]; apply N.eqb_eq in H; auto.
Qed.

(* version 0: the encoding is specification-conformant *)
Lemma spec_superblock_v0 tol x : wf_superblock x = true -> sp_version x = 0 ->
  spec_dec_superblock tol (enc_superblock x) = Ok (logical_superblock x, [], []).
Proof.
  intros W V. destruct (wf_superblock_fields x W) as (_ & Hb & Hr & He & Hbt & Hhp & Heof).
  unfold enc_superblock, logical_superblock. rewrite V. change (0 =? 0) with true. cbv iota.
  unfold spec_dec_superblock. change signature with hdf5_sig. rewrite p_expect_app. cbn [obind].
  cbn [app p_byte obind]. change ((0 =? 0) || (0 =? 1)) with true. cbv iota.
  cbn [N.eqb andb guard obind size_ok orb Pos.eqb].
  pu. pu. cbn [N.ltb N.compare andb guard obind]. pu. cbn [N.ltb N.compare Pos.compare Pos.compare_cont guard obind N.eqb].
  change (N.to_nat 8) with 8%nat.
  pu. rewrite p_u_le by exact UNDEF_lt. cbn [obind]. pu.
  rewrite p_u_le by exact UNDEF_lt. cbn [obind].
  change (UNDEF =? undef 8) with true. cbn [guard obind].
  unfold spec_dec_sym_entry. pu. pu.
  rewrite p_u_le by reflexivity. cbn [obind].
  change (le 4 0) with (zeros 4). rewrite p_zeros_app. cbn [obind].
  rewrite p_take_all by (rewrite app_length, !length_le; reflexivity). cbn [obind].
  change (1 =? 0) with false. change (1 =? 1) with true. cbv iota.
  pu. rewrite p_u_le_end by assumption. cbn [obind se_obj]. reflexivity.
Qed.

(* versions 2 and 3: everything but the checksum algorithm is specification-conformant; the stored checksum is
   the CRC-32 of the covered bytes where the specification demands their lookup3 hash *)
Lemma spec_superblock_v2 tol x : wf_superblock x = true -> sp_version x <> 0 ->
  spec_dec_superblock tol (enc_superblock x) =
    (tg <- check_sum tol T_sb_crc32 (superblock_covered x) (crc32 (superblock_covered x));;
     Ok (logical_superblock x, tg, [])).
Proof.
  intros W V. destruct (wf_superblock_fields x W) as (Hv & Hb & Hr & He & Hbt & Hhp & Heof).
  assert (V0 : (sp_version x =? 0) = false) by (apply N.eqb_neq; exact V).
  unfold enc_superblock, logical_superblock. rewrite V0. cbv iota.
  fold (superblock_covered x).
  set (ext' := if sp_superext x =? 0 then UNDEF else sp_superext x).
  assert (Hext' : ext' < 256 ^ N.of_nat 8) by (subst ext'; destruct (sp_superext x =? 0); [exact UNDEF_lt | exact He]).
  unfold spec_dec_superblock.
  assert (EQ : superblock_covered x ++ le 4 (crc32_ieee (superblock_covered x)) =
          hdf5_sig ++ [sp_version x; 8; 8; 0] ++ le 8 (sp_base x) ++ le 8 ext' ++ le 8 (sp_eof x) ++ le 8 (sp_root x)
            ++ le 4 (crc32_ieee (superblock_covered x)))
    by (unfold superblock_covered; change signature with hdf5_sig; fold ext'; rewrite <- !app_assoc; reflexivity).
  rewrite EQ at 1. rewrite p_expect_app. cbn [obind app p_byte].
  assert (V23 : (sp_version x =? 0) || (sp_version x =? 1) = false).
  { destruct Hv as [Hv|[Hv|Hv]]; [congruence| |]; rewrite Hv; reflexivity. }
  rewrite V23. cbv iota.
  assert (V23' : (sp_version x =? 2) || (sp_version x =? 3) = true).
  { destruct Hv as [Hv|[Hv|Hv]]; [congruence| |]; rewrite Hv; reflexivity. }
  rewrite V23'. cbv iota.
  cbn [size_ok N.eqb Pos.eqb orb andb guard obind].
  assert (FL : (0 <? (if sp_version x =? 2 then 4 else 8)) = true) by (destruct (sp_version x =? 2); reflexivity).
  rewrite FL. cbn [guard obind]. change (N.to_nat 8) with 8%nat.
  pu. pu. pu. pu.
  (* the covered bytes *)
  assert (CV : consumed (superblock_covered x ++ le 4 (crc32_ieee (superblock_covered x)))
                        (le 4 (crc32_ieee (superblock_covered x))) = superblock_covered x) by apply consumed_app.
  rewrite CV.
  rewrite <- (app_nil_r (le 4 _)), p_u_le_mod. cbn [obind].
  rewrite crc32_ieee_mod.
  subst ext'. change (undef 8) with UNDEF. reflexivity.
Qed.

(* ---- the stored checksums ---- *)
(* what the strict decoder demands of a stored checksum: Jenkins lookup3 (hashlittle, initial value 0) of the covered bytes *)
Lemma check_sum_strict t covered stored tg :
  check_sum strict t covered stored = Ok tg -> stored = hashlittle covered 0 /\ tg = [].
Proof.
  unfold check_sum, spec_checksum. destruct (stored =? hashlittle covered 0) eqn:E.
  - intros H. inversion H. apply N.eqb_eq in E. auto.
  - destruct (stored =? crc32 covered); cbn [dev strict]; discriminate.
Qed.

(* a tolerated checksum is the CRC-32 (IEEE) of the covered bytes and differs from the specification's *)
Lemma check_sum_tolerated tol t covered stored :
  check_sum tol t covered stored = Ok [t] -> stored = crc32 covered /\ stored <> hashlittle covered 0.
Proof.
  unfold check_sum, spec_checksum. destruct (stored =? hashlittle covered 0) eqn:E; [discriminate|].
  destruct (stored =? crc32 covered) eqn:E2; [|discriminate].
  apply N.eqb_eq in E2. apply N.eqb_neq in E. auto.
Qed.

(* what the writer stores *)
Lemma check_sum_of_crc tol t covered :
  check_sum tol t covered (crc32 covered) = if crc32 covered =? hashlittle covered 0 then Ok [] else dev tol t.
Proof. unfold check_sum, spec_checksum. rewrite N.eqb_refl. reflexivity. Qed.

(* smallest witness: the version 2 superblock with all addresses 0 *)
Definition sb_witness : superblock :=
  {| sp_version := 2; sp_offsize := 8; sp_lensize := 8; sp_base := 0; sp_root := 0; sp_superext := 0;
     sp_rootbtree := 0; sp_rootheap := 0; sp_eof := 0 |}.

Lemma sb_crc32_refuted :
  wf_superblock sb_witness = true /\
  spec_dec_superblock strict (enc_superblock sb_witness) = Err /\
  spec_dec_superblock tolerant (enc_superblock sb_witness) = Ok (logical_superblock sb_witness, [T_sb_crc32], []).
Proof. repeat split; vm_compute; reflexivity. Qed.

(* versions 2/3 with the tolerant decoder: the deviation is exactly the checksum algorithm *)
Lemma spec_superblock_v2_tolerant x : wf_superblock x = true -> sp_version x <> 0 ->
  spec_dec_superblock tolerant (enc_superblock x) =
    Ok (logical_superblock x,
        if crc32 (superblock_covered x) =? hashlittle (superblock_covered x) 0 then [] else [T_sb_crc32], []).
Proof.
  intros W V. rewrite spec_superblock_v2 by assumption. rewrite check_sum_of_crc.
  destruct (crc32 (superblock_covered x) =? hashlittle (superblock_covered x) 0); reflexivity.
Qed.

Lemma spec_superblock_v2_strict x : wf_superblock x = true -> sp_version x <> 0 ->
  spec_dec_superblock strict (enc_superblock x) =
    if crc32 (superblock_covered x) =? hashlittle (superblock_covered x) 0 then Ok (logical_superblock x, [], []) else Err.
Proof.
  intros W V. rewrite spec_superblock_v2 by assumption. rewrite check_sum_of_crc.
  destruct (crc32 (superblock_covered x) =? hashlittle (superblock_covered x) 0); reflexivity.
Qed.
