(* C03 end to end, the writer's side over whole steps: the layout invariant [Placed].
   The file of Model/TreeImage.v is, at every moment, the superblock followed by the ITEMS created so far, each at the address
   the bump allocator gave it: a group = local heap (header + 256-byte segment) | symbol table node | B-tree node | header block;
   a dataset = data | header block.  [Placed st] says so (with the heap segment and node of every group well-formed) and that
   fw.groups (and the root) name heap/node addresses of group items.  alloc_group / alloc_dataset append an item and leave every
   earlier item where it was; linkToParent rewrites the segment and node of ONE group item in place (Proofs/TreeImageLink.v). *)
From HV Require Import Base.Prelude Base.Outcome Base.Bytes Model.RobustAlloc Model.RobustGroup Model.GroupWire.
From HV Require Import Model.CodecSuper Model.CodecOhdr Model.CodecLink Proofs.CodecOhdr Proofs.CodecLink.
From HV Require Import Proofs.GroupWireHeap Proofs.GroupWireSnod Proofs.GroupWireBTree.
From HV Require Import Model.FileImage Model.TreeImage Proofs.FileImage Proofs.TreeImageLink Proofs.TreeImageHdr.
From HV Require Model.GroupNS.

Local Open Scope N_scope.

Inductive item :=
| IGroup (seg : list N) (s : snode) (hb : list N)     (* hb: the block that holds the object header *)
| IDset (data : list N) (hb : list N).

Definition item_size (it : item) : N :=
  match it with IGroup _ _ hb => 2120 + blen hb | IDset d hb => blen d + blen hb end.
Definition item_bytes (a : N) (it : item) : list N :=
  match it with
  | IGroup seg s hb => heap_header 256 1 (a + 32) ++ seg ++ snod_bytes s 32 ++ bt_block (a + 288) ++ hb
  | IDset d hb => d ++ hb
  end.
Definition item_ok (it : item) : Prop :=
  match it with
  | IGroup seg s hb => blen seg = 256 /\ snode_ok s = true /\ (length (stn_entries s) <= 32)%nat
  | IDset d hb => True
  end.
Definition is_group (it : item) : bool := match it with IGroup _ _ _ => true | _ => false end.

Fixpoint lsize (l : list item) : N := match l with [] => 0 | it :: r => item_size it + lsize r end.
Fixpoint layout (a : N) (l : list item) : list N :=
  match l with [] => [] | it :: r => item_bytes a it ++ layout (a + item_size it) r end.
Definition sb0 : list N := enc_superblock (sb_eof 0).
Definition image (l : list item) : list N := sb0 ++ layout 48 l.

Definition LIM : N := 4611686018427387904.

Lemma blen_bt_block sa : sa < 18446744073709551616 -> blen (bt_block sa) = 544.
Proof. intros H. rewrite bt_block_bytes' by exact H. rewrite !blen_app, !blen_le, blen_zeros. reflexivity. Qed.

Lemma blen_item_bytes a it : item_ok it -> a < LIM -> blen (item_bytes a it) = item_size it.
Proof.
  unfold LIM. intros H Ha. destruct it as [seg s hb | d hb]; cbn [item_bytes item_size].
  - destruct H as (Hs & _). rewrite !blen_app, blen_heap_header, Hs, snod_bytes_size, blen_bt_block by blia. blia.
  - now rewrite blen_app.
Qed.
Lemma lsize_app l1 l2 : lsize (l1 ++ l2) = lsize l1 + lsize l2.
Proof. induction l1 as [|x r IH]; cbn [app lsize]; [reflexivity | rewrite IH; blia]. Qed.
Lemma layout_app l1 : forall a l2, layout a (l1 ++ l2) = layout a l1 ++ layout (a + lsize l1) l2.
Proof.
  induction l1 as [|x r IH]; intros a l2; cbn [app layout lsize]; [now rewrite N.add_0_r|].
  rewrite IH, <- app_assoc. do 3 f_equal. blia.
Qed.
Lemma blen_layout l : forall a, Forall item_ok l -> a + lsize l < LIM -> blen (layout a l) = lsize l.
Proof.
  induction l as [|x r IH]; intros a H Hb; [reflexivity|]. apply Forall_cons_iff in H as [Hx Hr]. cbn [layout lsize] in *.
  rewrite blen_app, blen_item_bytes, IH; auto; blia.
Qed.
Lemma blen_sb0 : blen sb0 = 48. Proof. reflexivity. Qed.
Lemma blen_image l : Forall item_ok l -> 48 + lsize l < LIM -> blen (image l) = 48 + lsize l.
Proof. intros H Hb. unfold image. rewrite blen_app, blen_sb0, blen_layout; auto. Qed.

(* a group item whose heap is at [ha] *)
Definition GroupIn (lay : list item) (ha : N) : Prop :=
  exists l1 seg s hb l2, lay = l1 ++ IGroup seg s hb :: l2 /\ ha = 48 + lsize l1.

(* same sizes, groups stay groups: addresses are the same *)
Definition same_shape (l l' : list item) : Prop :=
  Forall2 (fun x y => item_size x = item_size y /\ (is_group x = true -> is_group y = true)) l l'.
Lemma same_shape_refl l : same_shape l l.
Proof. induction l; constructor; auto. Qed.
Lemma same_shape_lsize l l' : same_shape l l' -> lsize l = lsize l'.
Proof. induction 1 as [|x y r r' [H _] _ IH]; [reflexivity|]. cbn [lsize]. now rewrite H, IH. Qed.
Lemma same_shape_group l l' ha : same_shape l l' -> GroupIn l ha -> GroupIn l' ha.
Proof.
  intros HS (l1 & seg & s & hb & l2 & -> & ->).
  apply Forall2_app_inv_l in HS as (m1 & m2 & H1 & H2 & ->).
  inversion H2 as [|x y r r' [Hsz Hg] H3]; subst.
  destruct y as [seg' s' hb' | d' hb']; [|specialize (Hg eq_refl); discriminate].
  exists m1, seg', s', hb', r'. split; [reflexivity|]. now rewrite (same_shape_lsize _ _ H1).
Qed.
Lemma same_shape_upd l1 l2 x y : item_size x = item_size y -> (is_group x = true -> is_group y = true) ->
  same_shape (l1 ++ x :: l2) (l1 ++ y :: l2).
Proof. intros H1 H2. apply Forall2_app; [apply same_shape_refl|]. constructor; [split; assumption | apply same_shape_refl]. Qed.

Lemma GroupIn_app lay it ha : GroupIn lay ha -> GroupIn (lay ++ [it]) ha.
Proof. intros (l1 & seg & s & hb & l2 & -> & ->). exists l1, seg, s, hb, (l2 ++ [it]). split; [now rewrite <- app_assoc | reflexivity]. Qed.

(* ------------------------------------------------------------------ the invariant *)
Definition Placed (st : tstate) : Prop :=
  exists lay, t_file st = image lay /\ Forall item_ok lay /\ GroupIn lay 48 /\
    (forall p ha sa, NS.plookup p (t_groups st) = Some (ha, sa) -> sa = ha + 288 /\ GroupIn lay ha).

Lemma placed_init : Placed t_init.
Proof.
  exists [IGroup (zeros 256) (new_snode 32) (enc_ohdr_v2 root_ohdr)]. split; [vm_compute; reflexivity|]. split.
  - constructor; [|constructor]. cbn [item_ok]. repeat split; try reflexivity; cbn; lia.
  - split; [exists [], (zeros 256), (new_snode 32), (enc_ohdr_v2 root_ohdr), []; split; reflexivity|].
    intros p ha sa H. discriminate.
Qed.

(* every item is placed in the image at its address, and stays there when items are appended *)
Lemma item_placed l1 it l2 : Forall item_ok l1 -> 48 + lsize l1 < LIM ->
  placed (image (l1 ++ it :: l2)) (48 + lsize l1) (item_bytes (48 + lsize l1) it).
Proof.
  intros H Hb. unfold image. rewrite layout_app. cbn [layout].
  exists (sb0 ++ layout 48 l1), (layout (48 + lsize l1 + item_size it) l2). split; [now rewrite <- !app_assoc|].
  rewrite blen_app, blen_sb0, blen_layout; auto.
Qed.

(* ------------------------------------------------------------------ the append half *)
Lemma new_snod_block_eq : new_snod_block = snod_bytes (new_snode 32) 32.
Proof. vm_compute. reflexivity. Qed.
Lemma size_group_ohdr bt hp : size_ohdr_v2 (group_ohdr bt hp) = 27.
Proof. unfold size_ohdr_v2, group_ohdr. cbn [oh_msgs chunk_size_v2 fold_right hm_data]. rewrite symtab_blen. reflexivity. Qed.

Definition new_group_item (ha : N) : item :=
  IGroup (zeros 256) (new_snode 32) (ohdr_block (group_ohdr (ha + 1576) ha)).

Lemma alloc_group_image lay : Forall item_ok lay -> 48 + lsize lay + 3000 < LIM ->
  let ha := 48 + lsize lay in
  alloc_group (image lay) = (image (lay ++ [new_group_item ha]), ha, ha + 288, ha + 1576, ha + 2120).
Proof.
  intros H Hb ha. unfold alloc_group. rewrite blen_image by (auto; blia). fold ha.
  change HEAP_SIZE with 288. change SNOD_SIZE with 1288. change BT_SIZE with 544.
  replace (ha + 288 + 1288) with (ha + 1576) by blia. replace (ha + 1576 + 544) with (ha + 2120) by blia.
  f_equal. f_equal. f_equal. f_equal.
  unfold image. rewrite layout_app. cbn [layout new_group_item item_bytes]. rewrite app_nil_r, <- !app_assoc. fold ha.
  do 2 f_equal. rewrite heap_image_eq. cbn [new_local_heap hw_dss hw_free hw_strings].
  unfold LIM in Hb. rewrite (wrap64_small (ha + 32)) by blia.
  rewrite new_snod_block_eq, <- !app_assoc. reflexivity.
Qed.

Lemma new_group_item_ok ha : item_ok (new_group_item ha).
Proof. cbn [new_group_item item_ok]. repeat split; try reflexivity; cbn; lia. Qed.
Lemma new_group_item_size ha : item_size (new_group_item ha) = 2382.
Proof.
  cbn [new_group_item item_size]. unfold ohdr_block. rewrite blen_app, blen_zeros, ohdr_v2_blen, size_group_ohdr. reflexivity.
Qed.

Definition new_dset_item (code : N) (dims : list N) (data : list N) (da : N) : item :=
  let '(class, size, cbf) := dtype_of_code code in IDset data (ohdr_block (dset_ohdr_at class size cbf dims da)).

Lemma alloc_dataset_image lay code dims data : Forall item_ok lay -> 48 + lsize lay < LIM ->
  let da := 48 + lsize lay in
  alloc_dataset (image lay) code dims data = (image (lay ++ [new_dset_item code dims data da]), da + blen data).
Proof.
  intros H Hb da. unfold alloc_dataset, new_dset_item. destruct (dtype_of_code code) as [[class size] cbf].
  rewrite blen_image by auto. fold da. f_equal.
  unfold image. rewrite layout_app. cbn [layout item_bytes]. rewrite app_nil_r, <- !app_assoc. reflexivity.
Qed.

(* appending keeps every earlier item in place *)
Theorem append_keeps_placed lay it a b : placed (image lay) a b -> placed (image (lay ++ [it])) a b.
Proof.
  intros (p & q & E & L). unfold image in *. rewrite layout_app. cbn [layout]. rewrite app_nil_r.
  exists p, (q ++ item_bytes (48 + lsize lay) it). split; [|exact L].
  rewrite app_assoc, E, <- !app_assoc. reflexivity.
Qed.
