(* C03 end to end, the writer's side over whole steps: the layout invariant [Placed].
   The file of Model/TreeImage.v is, at every moment, the superblock followed by the ITEMS created so far, each at the address
   the bump allocator gave it: a group = local heap (header + 256-byte segment) | symbol table node | B-tree node | header block;
   a dataset = data | header block.  [Placed st] says so (with the heap segment and node of every group well-formed) and that
   fw.groups (and the root) name heap/node addresses of group items.  alloc_group / alloc_dataset append an item and leave every
   earlier item where it was; linkToParent rewrites the segment and node of ONE group item in place (Proofs/TreeImageLink.v). *)
From HV Require Import Base.Prelude Base.Outcome Base.Bytes Model.RobustAlloc Model.RobustGroup Model.GroupWire.
From HV Require Import Model.CodecSuper Model.CodecOhdr Model.CodecLink Proofs.CodecOhdr Proofs.CodecLink.
From HV Require Import Proofs.GroupWireHeap Proofs.GroupWireSnod Proofs.GroupWireBTree.
From HV Require Import Model.FileImage Model.TreeImage Proofs.FileImage Proofs.TreeImageLink Proofs.TreeImageHdr.
From HV Require Model.GroupNS Proofs.GroupNSBase.

Local Open Scope N_scope.

Inductive item :=
| IGroup (seg : list N) (s : snode) (hb : list N)     (* hb: the block that holds the object header *)
| IDset (data : list N) (hb : list N).

Definition item_size (it : item) : N :=
  match it with IGroup _ _ hb => 2120 + blen hb | IDset d hb => blen d + blen hb end.
Definition item_bytes (a : N) (it : item) : list N :=
  match it with
  | IGroup seg s hb => heap_header 256 1 (a + 32) ++ seg ++ snod_bytes s 32 ++ bt_block (a + 288) ++ hb
  | IDset d hb => d ++ hb
  end.
Definition item_ok (it : item) : Prop :=
  match it with
  | IGroup seg s hb => blen seg = 256 /\ snode_ok s = true /\ (length (stn_entries s) <= 32)%nat
  | IDset d hb => True
  end.
Definition is_group (it : item) : bool := match it with IGroup _ _ _ => true | _ => false end.

Fixpoint lsize (l : list item) : N := match l with [] => 0 | it :: r => item_size it + lsize r end.
Fixpoint layout (a : N) (l : list item) : list N :=
  match l with [] => [] | it :: r => item_bytes a it ++ layout (a + item_size it) r end.
Definition sb0 : list N := enc_superblock (sb_eof 0).
Definition image (l : list item) : list N := sb0 ++ layout 48 l.

Definition LIM : N := 4611686018427387904.

Lemma blen_bt_block sa : blen (bt_block sa) = 544.
Proof.
  unfold bt_block.
  change (add_key (new_btnode 0 GROUP_K) 0 sa) with
    (@Ok btnode {| btn_type := 0; btn_level := 0; btn_used := 1; btn_left := MaxUint64; btn_right := MaxUint64;
           btn_keys := [0]; btn_children := [sa]; btn_cap := 33 |}).
  cbv beta iota. change GROUP_K with (N.of_nat 16).
  rewrite (bt_write_at_size _ [(0, sa)] 16); [reflexivity | split; reflexivity | cbn [length]; lia].
Qed.

Lemma blen_item_bytes a it : item_ok it -> blen (item_bytes a it) = item_size it.
Proof.
  intros H. destruct it as [seg s hb | d hb]; cbn [item_bytes item_size].
  - destruct H as (Hs & _). rewrite !blen_app, blen_heap_header, Hs, snod_bytes_size, blen_bt_block. blia.
  - now rewrite blen_app.
Qed.
Lemma lsize_app l1 l2 : lsize (l1 ++ l2) = lsize l1 + lsize l2.
Proof. induction l1 as [|x r IH]; cbn [app lsize]; [reflexivity | rewrite IH; blia]. Qed.
Lemma layout_app l1 : forall a l2, layout a (l1 ++ l2) = layout a l1 ++ layout (a + lsize l1) l2.
Proof.
  induction l1 as [|x r IH]; intros a l2; cbn [app layout lsize]; [now rewrite N.add_0_r|].
  rewrite IH, <- app_assoc. do 3 f_equal. blia.
Qed.
Lemma blen_layout l : forall a, Forall item_ok l -> blen (layout a l) = lsize l.
Proof.
  induction l as [|x r IH]; intros a H; [reflexivity|]. apply Forall_cons_iff in H as [Hx Hr]. cbn [layout lsize] in *.
  rewrite blen_app, blen_item_bytes, IH; auto.
Qed.
Lemma blen_sb0 : blen sb0 = 48. Proof. reflexivity. Qed.
Lemma blen_image l : Forall item_ok l -> blen (image l) = 48 + lsize l.
Proof. intros H. unfold image. rewrite blen_app, blen_sb0, blen_layout; auto. Qed.

(* a group item whose heap is at [ha] *)
Definition GroupIn (lay : list item) (ha : N) : Prop :=
  exists l1 seg s hb l2, lay = l1 ++ IGroup seg s hb :: l2 /\ ha = 48 + lsize l1.

(* same sizes, groups stay groups: addresses are the same *)
Definition same_shape (l l' : list item) : Prop :=
  Forall2 (fun x y => item_size x = item_size y /\ (is_group x = true -> is_group y = true)) l l'.
Lemma same_shape_refl l : same_shape l l.
Proof. induction l; constructor; auto. Qed.
Lemma same_shape_lsize l l' : same_shape l l' -> lsize l = lsize l'.
Proof. induction 1 as [|x y r r' [H _] _ IH]; [reflexivity|]. cbn [lsize]. now rewrite H, IH. Qed.
Lemma same_shape_group l l' ha : same_shape l l' -> GroupIn l ha -> GroupIn l' ha.
Proof.
  intros HS (l1 & seg & s & hb & l2 & -> & ->).
  apply Forall2_app_inv_l in HS as (m1 & m2 & H1 & H2 & ->).
  inversion H2 as [|x y r r' [Hsz Hg] H3]; subst.
  destruct y as [seg' s' hb' | d' hb']; [|specialize (Hg eq_refl); discriminate].
  exists m1, seg', s', hb', r'. split; [reflexivity|]. now rewrite (same_shape_lsize _ _ H1).
Qed.
Lemma same_shape_upd l1 l2 x y : item_size x = item_size y -> (is_group x = true -> is_group y = true) ->
  same_shape (l1 ++ x :: l2) (l1 ++ y :: l2).
Proof. intros H1 H2. apply Forall2_app; [apply same_shape_refl|]. constructor; [split; assumption | apply same_shape_refl]. Qed.

Lemma GroupIn_app lay it ha : GroupIn lay ha -> GroupIn (lay ++ [it]) ha.
Proof. intros (l1 & seg & s & hb & l2 & -> & ->). exists l1, seg, s, hb, (l2 ++ [it]). split; [now rewrite <- app_assoc | reflexivity]. Qed.

(* ------------------------------------------------------------------ the invariant *)
Definition Placed (st : tstate) : Prop :=
  exists lay, t_file st = image lay /\ Forall item_ok lay /\ GroupIn lay 48 /\
    (forall p ha sa, NS.plookup p (t_groups st) = Some (ha, sa) -> sa = ha + 288 /\ GroupIn lay ha).

Lemma placed_init : Placed t_init.
Proof.
  exists [IGroup (zeros 256) (new_snode 32) (enc_ohdr_v2 root_ohdr)]. split; [vm_compute; reflexivity|]. split.
  - constructor; [|constructor]. cbn [item_ok]. repeat split; try reflexivity; cbn; lia.
  - split; [exists [], (zeros 256), (new_snode 32), (enc_ohdr_v2 root_ohdr), []; split; reflexivity|].
    intros p ha sa H. discriminate.
Qed.

(* every item is placed in the image at its address, and stays there when items are appended *)
Lemma item_placed l1 it l2 : Forall item_ok l1 ->
  placed (image (l1 ++ it :: l2)) (48 + lsize l1) (item_bytes (48 + lsize l1) it).
Proof.
  intros H. unfold image. rewrite layout_app. cbn [layout].
  exists (sb0 ++ layout 48 l1), (layout (48 + lsize l1 + item_size it) l2). split; [now rewrite <- !app_assoc|].
  rewrite blen_app, blen_sb0, blen_layout; auto.
Qed.

(* ------------------------------------------------------------------ the append half *)
Lemma new_snod_block_eq : new_snod_block = snod_bytes (new_snode 32) 32.
Proof. vm_compute. reflexivity. Qed.
Lemma size_group_ohdr bt hp : size_ohdr_v2 (group_ohdr bt hp) = 27.
Proof. unfold size_ohdr_v2, group_ohdr. cbn [oh_msgs chunk_size_v2 fold_right hm_data]. rewrite symtab_blen. reflexivity. Qed.

Definition new_group_item (ha : N) : item :=
  IGroup (zeros 256) (new_snode 32) (ohdr_block (group_ohdr (ha + 1576) ha)).

Lemma alloc_group_image lay : Forall item_ok lay -> 48 + lsize lay + 3000 < LIM ->
  let ha := 48 + lsize lay in
  alloc_group (image lay) = (image (lay ++ [new_group_item ha]), ha, ha + 288, ha + 1576, ha + 2120).
Proof.
  intros H Hb ha. unfold alloc_group. rewrite blen_image by auto. fold ha.
  change HEAP_SIZE with 288. change SNOD_SIZE with 1288. change BT_SIZE with 544.
  replace (ha + 288 + 1288) with (ha + 1576) by blia. replace (ha + 1576 + 544) with (ha + 2120) by blia.
  f_equal. f_equal. f_equal. f_equal.
  unfold image. rewrite layout_app. cbn [layout new_group_item item_bytes]. rewrite app_nil_r, <- !app_assoc. fold ha.
  do 2 f_equal. rewrite heap_image_eq. cbn [new_local_heap hw_dss hw_free hw_strings].
  unfold LIM in Hb. rewrite (wrap64_small (ha + 32)) by blia.
  rewrite new_snod_block_eq, <- !app_assoc. reflexivity.
Qed.

Lemma new_group_item_ok ha : item_ok (new_group_item ha).
Proof. cbn [new_group_item item_ok]. repeat split; try reflexivity; cbn; lia. Qed.
Lemma new_group_item_size ha : item_size (new_group_item ha) = 2382.
Proof.
  cbn [new_group_item item_size]. unfold ohdr_block. rewrite blen_app, blen_zeros, ohdr_v2_blen, size_group_ohdr. reflexivity.
Qed.

Definition new_dset_item (code : N) (dims : list N) (data : list N) (da : N) : item :=
  let '(class, size, cbf) := dtype_of_code code in IDset data (ohdr_block (dset_ohdr_at class size cbf dims da)).

Lemma alloc_dataset_image lay code dims data : Forall item_ok lay ->
  let da := 48 + lsize lay in
  alloc_dataset (image lay) code dims data = (image (lay ++ [new_dset_item code dims data da]), da + blen data).
Proof.
  intros H da. unfold alloc_dataset, new_dset_item. destruct (dtype_of_code code) as [[class size] cbf].
  rewrite blen_image by auto. fold da. f_equal.
  unfold image. rewrite layout_app. cbn [layout item_bytes]. rewrite app_nil_r, <- !app_assoc. reflexivity.
Qed.

(* appending keeps every earlier item in place *)
Theorem append_keeps_placed lay it a b : placed (image lay) a b -> placed (image (lay ++ [it])) a b.
Proof.
  intros (p & q & E & L). unfold image in *. rewrite layout_app. cbn [layout]. rewrite app_nil_r.
  exists p, (q ++ item_bytes (48 + lsize lay) it). split; [|exact L].
  rewrite app_assoc, E, <- !app_assoc. reflexivity.
Qed.

(* ------------------------------------------------------------------ the in-place half on the image *)
Lemma add_entry_room es e n1 : NS.add_entry (NS.parse_snod 32 (map abs_sym es)) e = Some n1 -> (length es < 32)%nat.
Proof.
  unfold NS.add_entry, NS.parse_snod. cbn [NS.sn_cap NS.sn_entries]. unfold NS.blen. rewrite map_length.
  destruct (N.max 32 (N.of_nat (length es)) <=? N.of_nat (length es)) eqn:E; [discriminate|]. intros _.
  apply N.leb_gt in E. lia.
Qed.

Lemma link_image l1 seg s hb l2 nm child f2 :
  Forall item_ok (l1 ++ IGroup seg s hb :: l2) -> 48 + lsize (l1 ++ IGroup seg s hb :: l2) < LIM -> child < 18446744073709551616 ->
  link_both (image (l1 ++ IGroup seg s hb :: l2)) (48 + lsize l1) (48 + lsize l1 + 288) nm child = Ok f2 ->
  exists seg' s1, item_ok (IGroup seg' s1 hb) /\ f2 = image (l1 ++ IGroup seg' s1 hb :: l2).
Proof.
  intros HF Hb Hc HL. apply Forall_app in HF as [HF1 HF2]. apply Forall_cons_iff in HF2 as [(Hs & Hok & Hm) HF2].
  rewrite lsize_app in Hb. cbn [lsize item_size] in Hb. unfold LIM in Hb.
  set (ha := 48 + lsize l1) in *.
  set (pre := sb0 ++ layout 48 l1).
  set (suf := bt_block (ha + 288) ++ hb ++ layout (ha + (2120 + blen hb)) l2).
  assert (Lpre : blen pre = ha) by (subst pre ha; rewrite blen_app, blen_sb0, blen_layout; auto).
  assert (EI : forall sg sn, blen sg = 256 -> image (l1 ++ IGroup sg sn hb :: l2) = group_file pre [] suf sg sn).
  { intros sg sn Hsg. unfold image, group_file, heap_file. rewrite layout_app. cbn [layout item_bytes item_size app]. fold ha.
    rewrite Hsg, Lpre. subst pre suf. rewrite <- !app_assoc. reflexivity. }
  rewrite (EI seg s Hs) in HL.
  pose proof (link_both_commutes pre [] suf seg s nm child Hok Hm Hc) as C.
  rewrite Lpre, Hs in C. change (blen []) with 0 in C. replace (ha + 32 + 256 + 0) with (ha + 288) in C by blia.
  specialize (C ltac:(rewrite MaxInt64_val; blia)). cbv zeta in C.
  destruct (NS.add_string (NS.prepare_for_modification seg) nm) as [[off h1]|]; [|rewrite C in HL; discriminate].
  destruct C as [Hlen C].
  destruct (NS.add_entry (NS.parse_snod 32 (map abs_sym (stn_entries s))) {| NS.e_off := off; NS.e_obj := child |}) as [n1|] eqn:EA;
    [|destruct C as [C _]; rewrite C in HL; discriminate].
  destruct C as (s1 & H1 & H2 & H3 & H4). rewrite H4 in HL. inversion HL; subst f2.
  exists (snd (NS.write_to h1)), s1. split.
  - cbn [item_ok]. split; [first [exact Hlen | now rewrite Hlen]|]. split; [exact H1|]. rewrite H2, app_length. cbn [length].
    pose proof (add_entry_room _ _ _ EA). lia.
  - symmetry. apply EI. first [exact Hlen | now rewrite Hlen].
Qed.

Lemma prepare_link_addrs st parent nm child ha sa :
  prepare_link st parent nm child = Ok (ha, sa) -> parent_addrs st parent = Some (ha, sa).
Proof.
  unfold prepare_link. destruct (negb (NS.heap_name_ok nm)); [discriminate|].
  destruct (parent_addrs st parent) as [[a b]|]; [|discriminate].
  destruct (load_local_heap (t_file st) a 8 8) as [data| |]; cbn [obind]; try discriminate.
  destruct (parse_snod (t_file st) b 8) as [s| |]; cbn [obind]; try discriminate.
  destruct (existsb (sym_has_name data nm) (stn_entries s)); [discriminate|].
  destruct (add_string (prepare_for_modification data) nm) as [[off h]| |]; cbn [obind]; try discriminate.
  destruct (add_entry s (new_sym off child)) as [s'| |]; cbn [obind]; try discriminate.
  intros H. now inversion H.
Qed.

Lemma plookup_pset {A} p q (v : A) l : NS.plookup q (NS.pset p v l) = if bytes_eqb p q then Some v else NS.plookup q l.
Proof.
  induction l as [|[p' v'] r IH]; cbn [NS.pset NS.plookup]; [reflexivity|].
  destruct (bytes_eqb p' p) eqn:E; cbn [NS.plookup].
  - apply HV.Proofs.GroupNSBase.bytes_eqb_eq in E. subst p'. destruct (bytes_eqb p q); reflexivity.
  - rewrite IH. destruct (bytes_eqb p' q) eqn:E2; [|reflexivity].
    apply HV.Proofs.GroupNSBase.bytes_eqb_eq in E2. subst p'.
    destruct (bytes_eqb p q) eqn:E3; [|reflexivity].
    apply HV.Proofs.GroupNSBase.bytes_eqb_eq in E3. subst q. rewrite HV.Proofs.GroupNSBase.bytes_eqb_refl in E. discriminate.
Qed.
