(* C02 at byte level, dense storage: Dataset.Read, ReadSuperblock and hdf5.Open's loader on image_v2_dense, and the statement of
   Props/C02FileDense.v.  The superblock / heap / symbol table / B-tree stages are the generic ones of Proofs/FileImageGenOpen.v; the
   dataset object is visited by the loader with its dense attributes (the loader parses the attributes of every header it visits
   and drops them), so the object / children / root stages are redone here for a header whose attribute parse succeeds. *)
From HV Require Import Base.Prelude Base.Outcome Base.Bytes Model.IOProg Proofs.IOProg Model.IOProgReader Model.IOProgOpen.
From HV Require Import Model.CodecSuper Model.CodecOhdr Model.CodecMsg Model.CodecType Model.CodecLink Model.GroupWire Model.CodecAttr.
From HV Require Import Proofs.CodecSuper Proofs.CodecOhdr Proofs.CodecMsg Proofs.CodecType Proofs.CodecAttr.
From HV Require Import Model.FileImage Model.FileImageAttr Model.FileImageDense Proofs.FileImage Proofs.FileImageOhdr Proofs.FileImageData
  Proofs.FileImageGroup Proofs.FileImageOpen Proofs.FileImageProd Proofs.FileImageGenOpen Proofs.FileImageAttrOhdr Proofs.FileImageAttr
  Proofs.FileImageAttrKinds Proofs.FileImageDenseRead Proofs.FileImageDense.
From Coq Require Import Sorting.Permutation Sorting.Sorted.

Lemma dset_det4_dense m3 m1 m8 m21 o3 o1 o8 o21 :
  det_type [ {| hmp_type := 3; hmp_offset := o3; hmp_data := m3 |}; {| hmp_type := 1; hmp_offset := o1; hmp_data := m1 |};
             {| hmp_type := 8; hmp_offset := o8; hmp_data := m8 |}; {| hmp_type := 21; hmp_offset := o21; hmp_data := m21 |} ] = 1.
Proof. reflexivity. Qed.

(* ------------------------------------------------------------------ Open's loader, generic in the dataset's header *)
Section GenOpen.
Variable f : bytes.
Variable name : bytes.
Variable da : N.
Variable T : bytes.
Variable h : ohdr'.
Variable al : list attr.
Variable hfuel : nat.
Hypothesis Hname : link_name_ok name = true.
Hypothesis Pheap : placed f 48 (heap_image (final_heap name) HEAP_ADDR).
Hypothesis Psnod : placed f 336 ([83; 78; 79; 68; 1; 0; 1; 0] ++ enc_sym 8 (gen_sym da) ++ zeros 1240).
Hypothesis Pbt : placed f 1624 (bt_write_at final_btnode 8 GROUP_K).
Hypothesis Proot : placed f 2168 (enc_ohdr_v2 root_ohdr ++ T).
Hypothesis HT : 2 <= blen T.
Hypothesis Hda : da < 256 ^ 8.
Hypothesis Pdsig : placed f da [79; 72; 68; 82].
Hypothesis Hhf : (3 < hfuel)%nat.
Hypothesis Hdh : run0 f (p_ohdr SB' hfuel da) = Ok h.
Hypothesis Hattrs : run0 f (p_attrs SB' (ohp_msgs h)) = Ok al.
Hypothesis Hdet : det_type (ohp_msgs h) = 1.
Variable B : N.
Hypothesis HB : 1 <= B.

Lemma heap_stage_d : run0 f (p_local_heap SB' 48) = Ok ((name ++ [0]) ++ zeros (N.to_nat (256 - (blen name + 1)))).
Proof using Hname Pheap. clear - Hname Pheap.
  pose proof Pheap as H. rewrite (heap_block_bytes name Hname) in H.
  unfold p_local_heap. cbn [SB' spp_offsize spp_lensize spp_bigendian]. change (8 + 2 * 8 + 8) with 32.
  rewrite (run0_read_exact _ f 48 (heap_header 256 1 80) 32 _ (placed_head _ _ _ _ H) eq_refl).
  change (run0 f (p_read_bytes_at 80 256) = Ok ((name ++ [0]) ++ zeros (N.to_nat (256 - (blen name + 1))))).
  apply run0_read_bytes_at; [exact (placed_tail _ _ _ _ H) | symmetry; exact (heap_seg_len name Hname) | blia | unfold MAXI64; blia].
Qed.

Lemma object_stage_d rec v :
  run0 f (p_object true SB' B hfuel rec da name {| vbt := v; loading := []; cnt := 0 |})
  = Ok (Dset name da, {| vbt := v; loading := []; cnt := 1 |}).
Proof using Pdsig Hdh Hattrs Hdet HB.
  unfold p_object, enter. cbn [loading cnt vbt mem existsb lenN' length N.of_nat].
  change (1024 <=? 0) with false. change (0 + 1) with 1.
  replace (B <? 1) with false by (symmetry; apply N.ltb_ge; exact HB). cbv iota.
  unfold p_sig.
  rewrite (run0_read_exact _ f da [79; 72; 68; 82] 4 _ Pdsig eq_refl).
  change (bytes_eqb [79; 72; 68; 82] SNOD) with false. cbv iota.
  unfold with_header. rewrite run0_bind, Hdh. rewrite run0_swallow. rewrite run0_bind, Hattrs. rewrite run0_ret.
  rewrite Hdet.
  change (1 =? 0) with false. change (1 =? 1) with true. cbv iota.
  unfold leave. cbn [fst snd vbt loading cnt filter]. rewrite N.eqb_refl. cbn [negb]. reflexivity.
Qed.

Lemma children_stage_d n :
  run0 f (p_children true SB' (p_load true SB' B hfuel (S n)) 1624 48 {| vbt := []; loading := []; cnt := 0 |})
  = Ok ([Dset name da], {| vbt := [1624]; loading := []; cnt := 1 |}).
Proof using Hname Pheap Psnod Pbt Hda Pdsig Hdh Hattrs Hdet HB.
  unfold p_children. cbn [mem existsb vbt loading cnt].
  rewrite run0_bind, heap_stage_d.
  unfold p_sig.
  rewrite (run0_read_exact _ f 1624 [84; 82; 69; 69] 4 _ (P_bt_sig_g f Pbt) eq_refl).
  change (bytes_eqb [84; 82; 69; 69] [84; 82; 69; 69]) with true. cbv iota.
  rewrite run0_bind, (btree_stage_g f da Psnod Pbt Hda).
  cbn [children_loop is_soft]. change (0 =? 2) with false. cbv iota.
  unfold p_sig.
  rewrite (run0_read_exact _ f da [79; 72; 68; 82] 4 _ Pdsig eq_refl).
  change (bytes_eqb [79; 72; 68; 82] SNOD) with false. rewrite andb_false_r.
  rewrite run0_bind. unfold load_entry.
  rewrite (run0_lift_ok _ _ _ _ f name (heap_name name Hname)).
  change (0 =? 1) with false. cbn [andb].
  cbn [p_load dispatch].
  rewrite object_stage_d. cbn [fst snd]. reflexivity.
Qed.

Lemma modern_stage_d n :
  run0 f (p_modern true SB' hfuel (p_load true SB' B hfuel (S n)) 2168 {| vbt := []; loading := []; cnt := 0 |})
  = Ok (Grp [] 2168 [Dset name da], {| vbt := [1624]; loading := []; cnt := 1 |}).
Proof using Hname Pheap Psnod Pbt Proot HT Hda Pdsig Hhf Hdh Hattrs Hdet HB.
  unfold p_modern, with_header. rewrite run0_bind.
  rewrite (root_header_g f T Proot HT hfuel ltac:(blia)).
  rewrite run0_swallow. cbn [ohp_msgs ohp_name]. rewrite root_attrs. cbn [bind]. rewrite run0_ret.
  rewrite root_det, root_nolinks, root_stab.
  change (0 =? 0) with true. cbn [orb negb]. cbv iota.
  rewrite run0_bind, children_stage_d. reflexivity.
Qed.

Hypothesis Psig : placed f 0 signature.
Hypothesis Hsb : run0 f p_superblock = Ok SB'.
Hypothesis Hlenf : 2168 < blen f.

Theorem open_image_d n : B = blen f / 8 + 1024 ->
  run0 f (p_open true (blen f) (S (S (S n))) hfuel) = Ok (Grp [47] 2168 [Dset name da]).
Proof using Hname Pheap Psnod Pbt Proot HT Hda Pdsig Hhf Hdh Hattrs Hdet HB Psig Hsb Hlenf.
  intros HBe. unfold p_open.
  rewrite (run0_read_exact _ f 0 signature 8 _ Psig eq_refl).
  change (bytes_eqb signature signature) with true. cbn [negb].
  rewrite run0_bind, Hsb.
  cbn [spp_root SB'].
  replace (blen f <=? 2168) with false by (symmetry; apply N.leb_gt; exact Hlenf).
  rewrite run0_bind. rewrite <- HBe.
  cbn [p_load dispatch]. unfold p_group. change (2168 =? 0) with false. cbv iota.
  unfold p_sig.
  rewrite (run0_read_exact _ f 2168 [79; 72; 68; 82] 4 _ (P_root_sig_g f T Proot) eq_refl).
  change (bytes_eqb [79; 72; 68; 82] SNOD) with false. cbv iota.
  cbn [p_load dispatch].
  change (fun (r : req) (st : lstate) => dispatch true SB' B hfuel (p_load true SB' B hfuel n) r st) with (p_load true SB' B hfuel (S n)).
  rewrite modern_stage_d. reflexivity.
Qed.
End GenOpen.

(* ------------------------------------------------------------------ the image *)
Section Image.
Variable name : bytes.
Variables class size cbf : N.
Variable dims : list N.
Variable data : bytes.
Variable attrs : list dattr.
Hypothesis Hname : link_name_ok name = true.
Hypothesis Hdt : basic_dtype class size cbf = true.
Hypothesis Hdims : dims_ok dims = true.
Hypothesis Hlen : blen data = total_elems dims * size.
Hypothesis Hpos : 0 < blen data.
Hypothesis Hbound : blen data < 4294967296.
Hypothesis Hwf : Forall (fun a => wf_attribute (dattr_msg a) = true) attrs.
Hypothesis Hdense : dense_fits class size cbf dims data = true.
Hypothesis Hheap : heap_fits attrs = true.
Hypothesis Hleaf : leaf_fits attrs = true.

Local Notation f := (image_v2_dense name class size cbf dims data attrs).
Local Notation da := (dset_addr data).
Local Notation dho := (dense_ohdr class size cbf dims data).
Local Notation blocks := (blocks_v2_dense name class size cbf dims data attrs).

Local Notation Hhdr := (dset_header_dense name class size cbf dims data attrs Hname Hdt Hdims Hlen Hbound Hdense).
Local Notation Hwalk := (dense_stage name class size cbf dims data attrs Hname Hdt Hdims Hlen Hbound Hwf Hdense Hheap Hleaf).

(* the attribute parse of the dataset's header, as every reader of the header runs it *)
Lemma attrs_of_header :
  run0 f (p_attrs SB' (ohp_msgs (proj_ohdr_v2 false dho da))) = Ok (map listed (dense_order attrs)).
Proof using Hname Hdt Hdims Hlen Hbound Hwf Hdense Hheap Hleaf.
  unfold proj_ohdr_v2, dense_ohdr, base_msgs, dset_ohdr. cbn [oh_msgs oh_flags app msgs_at_v2 ohp_msgs hm_type hm_data].
  rewrite (attrs4_dense data Hbound). rewrite run0_bind, Hwalk. reflexivity.
Qed.

(* ------------------------------------------------------------------ Dataset.Read *)
Theorem dataset_read_dense fuel : (4 < fuel)%nat ->
  run0 f (api_read_raw SB' fuel da) = Ok (RawBytes data).
Proof using Hname Hdt Hdims Hlen Hpos Hbound Hwf Hdense Hheap Hleaf.
  intros Hf. unfold api_read_raw. rewrite run0_bind, (Hhdr fuel Hf).
  rewrite run0_swallow. rewrite run0_bind, attrs_of_header. rewrite run0_ret.
  unfold proj_ohdr_v2, dense_ohdr, base_msgs, dset_ohdr. cbn [oh_msgs oh_flags app msgs_at_v2 ohp_msgs hm_type hm_data].
  unfold p_dataset_raw.
  cbn [find_msg fold_left hmp_type hmp_data N.eqb Pos.eqb].
  rewrite (datatype_roundtrip _ (wf_dt class size cbf Hdt)), (dataspace_roundtrip _ (wf_ds dims Hdims)).
  change (sbp SB') with SBP. rewrite (layout_roundtrip _ _ (wf_ly size dims data Hlen Hbound)).
  cbn [obind lift bind fst snd proj_dataspace proj_layout dsp_type dsp_dims ds_dims ly_class ly_addr ly_compact ly_chunk N.eqb Pos.eqb].
  fold (total_elems dims).
  assert (Hsz : dt_size (proj_datatype (dtype_msg class size cbf)) = size).
  { unfold proj_datatype, dtype_msg. cbn [dt_class dt_size].
    destruct (dtype_cases class size cbf Hdt) as [(-> & _)|(-> & _)]; reflexivity. }
  rewrite Hsz. rewrite <- Hlen.
  replace (total_elems dims =? 0) with false
    by (symmetry; apply N.eqb_neq; intros E; rewrite E in Hlen; blia).
  replace (18446744073709551616 <=? blen data) with false by (symmetry; apply N.leb_gt; blia).
  rewrite run0_bind.
  rewrite (run0_read_bytes_at f DATA_ADDR data (blen data) (PD_data name class size cbf dims data attrs Hname) eq_refl Hpos)
    by (unfold MAXI64; change DATA_ADDR with 2195; blia).
  reflexivity.
Qed.

(* the dataset's own datatype and shape are still decoded from the header *)
Theorem dataset_type_shape_dense fuel : (4 < fuel)%nat ->
  exists h, run0 f (p_ohdr SB' fuel da) = Ok h /\
    (d <- match find_msg 3 (ohp_msgs h) with Some b => dec_datatype b | None => Err end;;
     s <- match find_msg 1 (ohp_msgs h) with Some b => dec_dataspace b | None => Err end;;
     Ok (dt_class d, dt_size d, dt_cbf d, dsp_dims s)) = Ok (class, size, cbf, dims).
Proof using Hname Hdt Hdims Hlen Hbound Hdense.
  intros Hf. eexists. split; [exact (Hhdr fuel Hf)|].
  unfold proj_ohdr_v2, dense_ohdr, base_msgs, dset_ohdr. cbn [oh_msgs oh_flags app msgs_at_v2 ohp_msgs hm_type hm_data].
  cbn [find_msg fold_left hmp_type hmp_data N.eqb Pos.eqb].
  rewrite (datatype_roundtrip _ (wf_dt class size cbf Hdt)), (dataspace_roundtrip _ (wf_ds dims Hdims)).
  cbn [obind proj_dataspace dsp_dims ds_dims].
  unfold proj_datatype, dtype_msg. cbn [dt_class dt_size dt_cbf].
  destruct (dtype_cases class size cbf Hdt) as [(-> & _)|(-> & _)]; reflexivity.
Qed.

(* ------------------------------------------------------------------ superblock and Open *)
Lemma wf_final_sb_dense : wf_superblock (final_sb_dense data) = true.
Proof using Hbound. clear - Hbound.
  unfold wf_superblock, final_sb_dense, encok_superblock.
  cbn [sp_version sp_offsize sp_lensize sp_base sp_root sp_superext sp_rootbtree sp_rootheap sp_eof].
  replace (CodecSuper.u64 (eof_dense data)) with true; [reflexivity|]. unfold CodecSuper.u64.
  symmetry. apply N.ltb_lt. pose proof (addr_bounds data Hbound) as (_ & B2). unfold eof_dense. blia.
Qed.

Lemma rest_len : 80 <= blen (concat (skipn 1 blocks)).
Proof using Hname. clear - Hname. cbn [skipn blocks_v2_dense concat]. rewrite blen_app, (heap_block_len name Hname). blia. Qed.

Theorem superblock_stage_dense : run0 f p_superblock = Ok SB'.
Proof using Hname Hbound.
  exact (superblock_stage_g f (final_sb_dense data) _ wf_final_sb_dense eq_refl eq_refl (sbd_block_len data)
           (PD_sb_rest name class size cbf dims data attrs) rest_len).
Qed.

Theorem open_image_dense n hfuel : (4 < hfuel)%nat ->
  run0 f (p_open true (blen f) (S (S (S n))) hfuel) = Ok (Grp [47] 2168 [Dset name da]).
Proof using Hname Hdt Hdims Hlen Hbound Hwf Hdense Hheap Hleaf.
  clear Hpos. intros Hhf.
  pose proof (PD_sb_rest name class size cbf dims data attrs) as Psb.
  assert (Psig : placed f 0 signature).
  { pose proof Psb as HP. unfold enc_superblock in HP. cbn [sp_version final_sb_dense] in HP. change (2 =? 0) with false in HP. cbv iota in HP.
    rewrite <- !app_assoc in HP. apply placed_head in HP. exact HP. }
  pose proof (PD_snod name class size cbf dims data attrs Hname) as Psn. rewrite snod_block_bytes in Psn.
  change (final_sym data) with (gen_sym da) in Psn.
  pose proof (PD_root_rest name class size cbf dims data attrs Hname) as Pr.
  assert (HT : 2 <= blen (concat (skipn 5 blocks))).
  { cbn [skipn blocks_v2_dense concat]. rewrite !blen_app, (fh_block_len data attrs). blia. }
  assert (Hlenf : 2168 < blen f).
  { rewrite (image_dense_len name class size cbf dims data attrs Hname Hdt Hdims Hlen Hbound Hdense Hheap Hleaf).
    pose proof (addr_bounds data Hbound) as (B1 & _). pose proof (addr_order data). unfold eof_dense. blia. }
  assert (Pds : placed f da [79; 72; 68; 82]).
  { pose proof (PD_dset name class size cbf dims data attrs Hname) as HP.
    unfold dset_block_dense, enc_ohdr_v2 in HP. rewrite <- !app_assoc in HP. apply placed_head in HP. exact HP. }
  eapply (open_image_d f name da _ _ _ hfuel Hname (PD_heap name class size cbf dims data attrs) Psn
            (PD_bt name class size cbf dims data attrs Hname) Pr HT (da_u64 data Hbound) Pds ltac:(blia) (Hhdr hfuel Hhf) attrs_of_header).
  - unfold proj_ohdr_v2, dense_ohdr, base_msgs, dset_ohdr. cbn [oh_msgs oh_flags app msgs_at_v2 ohp_msgs hm_type hm_data]. reflexivity.
  - assert (1 <= blen f / 8 + 1024) by blia. eassumption.
  - exact Psig.
  - exact superblock_stage_dense.
  - exact Hlenf.
  - reflexivity.
Qed.
End Image.

(* ------------------------------------------------------------------ the statements of Props/C02FileDense.v *)
Lemma file_dense_roundtrip_stmt : forall name class size cbf dims data attrs fuel hfuel,
  link_name_ok name = true -> basic_dtype class size cbf = true -> dims_ok dims = true ->
  blen data = product dims * size -> blen data < 4294967296 ->
  Forall (fun a => wf_attribute (dattr_msg a) = true) attrs ->
  dense_fits class size cbf dims data = true -> heap_fits attrs = true -> leaf_fits attrs = true ->
  (3 <= fuel)%nat -> (4 < hfuel)%nat ->
  let f := image_v2_dense name class size cbf dims data attrs in
  run0 f (api_attributes SB' hfuel (dset_addr data)) = Ok (map listed (dense_order attrs)) /\
  Permutation (dense_order attrs) attrs /\
  StronglySorted N.le (dattr_hashes (dense_order attrs)) /\
  (exists h, run0 f (p_ohdr SB' hfuel (dset_addr data)) = Ok h /\
             (d <- match find_msg 3 (ohp_msgs h) with Some b => dec_datatype b | None => Err end;;
              s <- match find_msg 1 (ohp_msgs h) with Some b => dec_dataspace b | None => Err end;;
              Ok (dt_class d, dt_size d, dt_cbf d, dsp_dims s)) = Ok (class, size, cbf, dims)) /\
  run0 f (api_read_raw SB' hfuel (dset_addr data)) = Ok (RawBytes data) /\
  run0 f p_superblock = Ok SB' /\
  run0 f (p_open true (blen f) fuel hfuel) = Ok (Grp [47] ROOT_ADDR [Dset name (dset_addr data)]).
Proof.
  intros name class size cbf dims data attrs fuel hfuel Hname Hdt Hdims Hlen Hbound Hwf Hdense Hheap Hleaf Hf Hh f.
  assert (Hpos : 0 < blen data) by (rewrite Hlen; pose proof (product_pos dims Hdims); pose proof (size_pos class size cbf Hdt); blia).
  assert (Hlen' : blen data = total_elems dims * size).
  { rewrite total_elems_product; auto. pose proof (size_pos class size cbf Hdt). blia. }
  repeat split.
  - exact (dataset_attributes_dense name class size cbf dims data attrs Hname Hdt Hdims Hlen' Hbound Hwf Hdense Hheap Hleaf hfuel Hh).
  - apply dense_order_perm.
  - apply dense_order_sorted.
  - exact (dataset_type_shape_dense name class size cbf dims data attrs Hname Hdt Hdims Hlen' Hbound Hdense hfuel Hh).
  - exact (dataset_read_dense name class size cbf dims data attrs Hname Hdt Hdims Hlen' Hpos Hbound Hwf Hdense Hheap Hleaf hfuel Hh).
  - exact (superblock_stage_dense name class size cbf dims data attrs Hname Hbound).
  - destruct fuel as [|[|[|n]]]; try blia.
    exact (open_image_dense name class size cbf dims data attrs Hname Hdt Hdims Hlen' Hbound Hwf Hdense Hheap Hleaf n hfuel Hh).
Qed.

(* with pairwise distinct name hashes (the class in which the writer accepts every attribute) the listing order is STRICTLY ascending
   in the name hash, hence determined by the set of attributes: it does not depend on the order of the WriteAttribute calls *)
Lemma sorted_le_nodup_lt : forall l : list N, StronglySorted N.le l -> NoDup l -> StronglySorted N.lt l.
Proof.
  induction l as [|x r IH]; intros HS HN; [constructor|].
  inversion HS as [|? ? HS' HF]; subst. inversion HN as [|? ? Hx HN']; subst.
  constructor; [now apply IH|]. rewrite Forall_forall in *. intros y Hy. specialize (HF y Hy).
  assert (x <> y) by (intros ->; contradiction). blia.
Qed.
Lemma dense_order_strict attrs : NoDup (dattr_hashes attrs) -> StronglySorted N.lt (dattr_hashes (dense_order attrs)).
Proof.
  intros HN. apply sorted_le_nodup_lt; [apply dense_order_sorted|].
  apply (Permutation_NoDup (l := dattr_hashes attrs)); [|exact HN].
  unfold dattr_hashes. apply Permutation_map. symmetry. apply dense_order_perm.
Qed.
Lemma sorted_lt_perm_eq : forall l1 l2 : list N, StronglySorted N.lt l1 -> StronglySorted N.lt l2 -> Permutation l1 l2 -> l1 = l2.
Proof.
  induction l1 as [|x r IH]; intros l2 H1 H2 HP.
  - apply Permutation_nil in HP. now subst.
  - destruct l2 as [|y s]; [apply Permutation_sym, Permutation_nil in HP; discriminate|].
    inversion H1 as [|? ? H1' F1]; subst. inversion H2 as [|? ? H2' F2]; subst. rewrite Forall_forall in F1, F2.
    assert (x = y).
    { assert (Hx : In x (y :: s)) by (apply (Permutation_in _ HP); now left).
      assert (Hy : In y (x :: r)) by (apply (Permutation_in _ (Permutation_sym HP)); now left).
      destruct Hx as [->|Hx]; [reflexivity|]. destruct Hy as [->|Hy]; [reflexivity|].
      specialize (F1 y Hy). specialize (F2 x Hx). blia. }
    subst y. f_equal. apply IH; auto. now apply Permutation_cons_inv in HP.
Qed.
(* two write orders of the same attributes (distinct hashes) are listed with the same hash sequence *)
Lemma dense_order_write_order attrs attrs' : NoDup (dattr_hashes attrs) -> Permutation attrs attrs' ->
  dattr_hashes (dense_order attrs) = dattr_hashes (dense_order attrs').
Proof.
  intros HN HP.
  assert (HN' : NoDup (dattr_hashes attrs')).
  { apply (Permutation_NoDup (l := dattr_hashes attrs)); [|exact HN]. unfold dattr_hashes. now apply Permutation_map. }
  apply sorted_lt_perm_eq; try (apply dense_order_strict; assumption).
  unfold dattr_hashes. apply Permutation_map.
  etransitivity; [apply dense_order_perm|]. etransitivity; [exact HP|]. symmetry. apply dense_order_perm.
Qed.

(* the value kinds of WriteAttribute (Model/FileImageAttr.v attr_of_kind) give well-formed attribute messages: the hypothesis on
   the attribute list holds for every list of such attributes *)
Definition dattr_of_kind (a : bytes * N * bytes) : dattr :=
  let '(aname, k, raw) := a in let '(adt, adims, adata) := attr_of_kind k raw in (aname, adt, adims, adata).
Definition kind_ok (a : bytes * N * bytes) : bool :=
  let '(aname, k, raw) := a in attr_name_ok aname && (blen aname <? 65535) && attr_kind_raw_ok k raw && (blen raw <? MaxAttributeSize).
Lemma dense_kinds_wf l : forallb kind_ok l = true -> Forall (fun a => wf_attribute (dattr_msg a) = true) (map dattr_of_kind l).
Proof.
  intros H. rewrite forallb_forall in H. apply Forall_forall. intros a Ha. apply in_map_iff in Ha as (x & <- & Hx).
  specialize (H x Hx). destruct x as [[aname k] raw]. unfold kind_ok in H.
  apply andb_true_iff in H as [H H4]. apply andb_true_iff in H as [H H3]. apply andb_true_iff in H as [H1 H2].
  apply N.ltb_lt in H2, H4. pose proof (attr_kinds_wf aname k raw H1 H2 H3 H4) as W.
  unfold dattr_of_kind. destruct (attr_of_kind k raw) as [[adt adims] adata]. exact W.
Qed.

(* the file ends behind the B-tree v2 header: 146 + 65536 + 4096 + 38 bytes were allocated by the transition, nothing later *)
Lemma image_dense_len_stmt : forall name class size cbf dims data attrs,
  link_name_ok name = true -> basic_dtype class size cbf = true -> dims_ok dims = true ->
  blen data = total_elems dims * size -> blen data < 4294967296 ->
  dense_fits class size cbf dims data = true -> heap_fits attrs = true -> leaf_fits attrs = true ->
  blen (image_v2_dense name class size cbf dims data attrs) = eof_addr data + 146 + 65536 + 4096 + 38.
Proof.
  intros. rewrite image_dense_len by assumption.
  unfold eof_dense, BTH_ADDR, LEAF_ADDR, DB_ADDR, FH_ADDR, MF.HDR_SIZE, HEAP_BLOCK, BT2_NODE. blia.
Qed.

(* the hypotheses are satisfiable and the transition is taken: "/d" = uint8 [1,2,3] with nine int32 attributes a0 .. a8 = 100 .. 108 *)
Definition ex_attrs : list dattr :=
  map (fun i => dattr_of_kind ([97; 48 + i], 2, [100 + i; 0; 0; 0])) [0; 1; 2; 3; 4; 5; 6; 7; 8].
Lemma file_dense_roundtrip_witness :
  link_name_ok [100] = true /\ basic_dtype DT_FIXED 1 0 = true /\ dims_ok [3] = true /\
  blen [1; 2; 3] = product [3] * 1 /\ blen [1; 2; 3] < 4294967296 /\
  Forall (fun a => wf_attribute (dattr_msg a) = true) ex_attrs /\
  dense_fits DT_FIXED 1 0 [3] [1; 2; 3] = true /\ heap_fits ex_attrs = true /\ leaf_fits ex_attrs = true /\
  dense_taken DT_FIXED 1 0 [3] ex_attrs = true /\ n_compact DT_FIXED 1 0 [3] ex_attrs = 4%nat /\
  NoDup (dattr_names ex_attrs) /\ NoDup (dattr_hashes ex_attrs).
Proof.
  split; [reflexivity|]. split; [reflexivity|]. split; [reflexivity|]. split; [reflexivity|].
  split; [reflexivity|].
  split; [apply (dense_kinds_wf (map (fun i => ([97; 48 + i], 2, [100 + i; 0; 0; 0])) [0; 1; 2; 3; 4; 5; 6; 7; 8])); vm_compute; reflexivity|].
  split; [vm_compute; reflexivity|]. split; [vm_compute; reflexivity|]. split; [vm_compute; reflexivity|].
  split; [vm_compute; reflexivity|]. split; [vm_compute; reflexivity|].
  split.
  - apply (NoDup_map_inv (fun n => nth 1 n 0)).
    assert (E : map (fun n : list N => nth 1 n 0) (dattr_names ex_attrs) = [48; 49; 50; 51; 52; 53; 54; 55; 56]) by (vm_compute; reflexivity).
    rewrite E. repeat (constructor; [cbn [In]; intuition discriminate|]). constructor.
  - remember (dattr_hashes ex_attrs) as l eqn:El. vm_compute in El. subst l.
    repeat (constructor; [cbn [In]; intuition discriminate|]). constructor.
Qed.

Lemma dense_order_stmt : forall attrs, NoDup (dattr_hashes attrs) ->
  StronglySorted N.lt (dattr_hashes (dense_order attrs)) /\
  forall attrs', Permutation attrs attrs' -> dattr_hashes (dense_order attrs) = dattr_hashes (dense_order attrs').
Proof.
  intros attrs H. split; [exact (dense_order_strict attrs H)|]. intros attrs' P. exact (dense_order_write_order attrs attrs' H P).
Qed.
