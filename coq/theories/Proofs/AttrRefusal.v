(* When WriteAttribute is refused: every error answer of the model on a reachable state is explained by one
   of a short list of capacity conditions (and, by Proofs/AttrStep.step_err_unchanged, changes nothing). *)
From HV Require Import Base.Prelude Model.Attr Proofs.AttrBase Proofs.AttrDense Proofs.AttrStep Proofs.Attr.

(* ---- the conditions ---- *)

(* dense storage: [l] = attributes currently stored *)
Inductive dense_refusal (P : params) (st : state) (l : list attr) (a : attr) : Prop :=
| DR_encode : encode_attr a = EncErr -> dense_refusal P st l a
    (* empty name, or a datatype / dataspace EncodeAttributeMessage rejects *)
| DR_too_large : p_maxobj P < msg_size a -> dense_refusal P st l a
    (* "object size exceeds maximum managed size" (65536) *)
| DR_index_full : ~ In (aname a) (map aname l) -> p_idxcap P <= N.of_nat (List.length l) -> dense_refusal P st l a
    (* new name and the single B-tree leaf already holds 371 records *)
| DR_heap_full : p_ovf_err P = true -> (forall ix hp, st = Dense ix hp -> p_hcap P < hfree hp + msg_size a) ->
    dense_refusal P st l a.
    (* only with the overflow repair: the value does not fit into what is left of the direct block *)

(* the call has to move the attributes to dense storage *)
Definition needs_transition (P : params) (attrs : list attr) (a : attr) : Prop :=
  p_maxc P <= N.of_nat (List.length attrs) \/
  (~ In (aname a) (map aname attrs) /\ p_limit P < hdr_size P attrs + (4 + msg_size a)).

Inductive compact_refusal (P : params) (attrs : list attr) (a : attr) : Prop :=
| CR_encode : encode_attr a = EncErr -> compact_refusal P attrs a
| CR_replace_too_big : forall attrs', N.of_nat (List.length attrs) < p_maxc P ->
    replace_name (aname a) a attrs = Some attrs' -> p_limit P < hdr_size P attrs' -> compact_refusal P attrs a
    (* replacing the value in place would push the header beyond 255 bytes *)
| CR_overwrite_at_threshold : p_maxc P <= N.of_nat (List.length attrs) -> In (aname a) (map aname attrs) ->
    compact_refusal P attrs a
    (* MaxCompactAttributes compact attributes and the name is one of them: the transition re-adds it and
       DenseAttributeWriter.AddAttribute answers "already exists" *)
| CR_too_large : needs_transition P attrs a -> p_maxobj P < msg_size a -> compact_refusal P attrs a
| CR_index_small : needs_transition P attrs a -> p_idxcap P <= N.of_nat (List.length attrs) -> compact_refusal P attrs a
| CR_info_no_room : needs_transition P attrs a -> p_limit P < p_base P + (4 + p_info P) -> compact_refusal P attrs a
    (* the Attribute Info message does not fit next to the object's own messages *)
| CR_heap_full : needs_transition P attrs a -> p_ovf_err P = true -> p_hcap P < msgs_total attrs + msg_size a ->
    compact_refusal P attrs a.

Section Refusal.
Variable name_hash : bytes -> N.
Variable P : params.

Lemma F2_length : forall A B (R : A -> B -> Prop) l1 l2, Forall2 R l1 l2 -> List.length l1 = List.length l2.
Proof. intros A B R l1 l2 F. induction F; cbn [List.length]; congruence. Qed.

Lemma enc_ok_size : forall a sz, encode_attr a = EncOk sz -> msg_size a = sz /\ 0 < sz.
Proof.
  intros a sz H. unfold msg_size. rewrite H. split; [reflexivity|]. unfold encode_attr in H.
  destruct (aname a) as [|b t]; [discriminate|]. destruct (65535 <=? blen (b :: t)); [discriminate|].
  destruct (dt_len (aval a)); [|discriminate]. destruct (ds_len (aval a)); inversion H. lia.
Qed.

Lemma heap_insert_err : forall hp a, heap_insert P hp a = HErr -> msg_size a = 0 \/ p_maxobj P < msg_size a.
Proof.
  intros hp a H. unfold heap_insert in H. destruct (N.eqb_spec (msg_size a) 0); [left; assumption|].
  destruct (N.ltb_spec (p_maxobj P) (msg_size a)); [right; assumption|].
  destruct (hfree hp + msg_size a <=? p_hcap P); discriminate.
Qed.

Lemma heap_insert_full : forall hp a, heap_insert P hp a = HFull -> p_hcap P < hfree hp + msg_size a.
Proof.
  intros hp a H. unfold heap_insert in H. destruct (msg_size a =? 0); [discriminate|].
  destruct (p_maxobj P <? msg_size a); [discriminate|].
  destruct (N.leb_spec (hfree hp + msg_size a) (p_hcap P)); [discriminate | assumption].
Qed.

Lemma heap_insert_ok_hfree : forall hp a hp' id, heap_insert P hp a = HOk hp' id -> hfree hp' = hfree hp + msg_size a.
Proof.
  intros hp a hp' id H. unfold heap_insert in H. destruct (msg_size a =? 0); [discriminate|].
  destruct (p_maxobj P <? msg_size a); [discriminate|].
  destruct (hfree hp + msg_size a <=? p_hcap P); inversion H. reflexivity.
Qed.

(* ---- dense ---- *)
Theorem write_refusals_dense : p_hcap P <= 65536 -> forall ix hp l n v st' r,
  Rep name_hash P (Dense ix hp) l -> NoDup (map aname l) ->
  (forall m, In m (map aname l) -> name_hash m = name_hash n -> m = n) ->
  write_attr name_hash P (Dense ix hp) n (Some v) = (st', r) -> r = RErr ->
  dense_refusal P (Dense ix hp) l (mkAttr n v).
Proof.
  intros Hcap ix hp l n v st' r R ND Inj H ER. subst r. cbn [write_attr] in H. unfold write_dense in H.
  destruct (encode_attr (mkAttr n v)) as [sz|] eqn:EN; [|apply DR_encode; exact EN].
  destruct (enc_ok_size _ _ EN) as [MS POS]. cbn [aname] in H. cbn [Rep] in R. destruct R as [F [N1 [N2 W]]].
  assert (LEN : List.length ix = List.length l) by (eapply F2_length; exact F).
  pose proof (search_split name_hash hp ix l n F Inj) as SS.
  destruct (idx_search (name_hash n) ix) as [id|] eqn:SE.
  - destruct SS as [ix1 [ix2 [l1 [l2 [a [E1 [E2 [E3 [F1 [F2 [G NI]]]]]]]]]]]. rewrite G in H.
    destruct (sz =? snd id).
    + destruct (heap_overwrite_ok P hp id (mkAttr n v) a W G) as [hp' [OV _]]. rewrite OV in H. discriminate.
    + destruct (heap_delete_ok P hp id a W G) as [hp1 [DL [_ [FE _]]]]. rewrite DL in H.
      destruct (heap_insert P hp1 (mkAttr n v)) as [hp2 id2| |] eqn:HI.
      * subst ix. rewrite (idx_update_split (name_hash n) id id2 ix1 ix2 NI) in H. discriminate.
      * apply heap_insert_err in HI. destruct HI as [Z|L]; [lia | apply DR_too_large; exact L].
      * destruct (p_ovf_err P) eqn:OV; [|discriminate]. apply DR_heap_full; [exact OV|].
        intros ix0 hp0 E0. inversion E0; subst hp0. apply heap_insert_full in HI. lia.
  - destruct (heap_insert P hp (mkAttr n v)) as [hp2 id2| |] eqn:HI.
    + unfold idx_insert in H. cbn [fst] in H. rewrite SE in H.
      destruct (N.leb_spec (p_idxcap P) (N.of_nat (List.length ix))) as [FULL|]; [|discriminate].
      apply DR_index_full; [exact SS | rewrite <- LEN; exact FULL].
    + apply heap_insert_err in HI. destruct HI as [Z|L]; [lia | apply DR_too_large; exact L].
    + destruct (p_ovf_err P) eqn:OV; [|discriminate]. apply DR_heap_full; [exact OV|].
      intros ix0 hp0 E0. inversion E0; subst hp0. apply heap_insert_full in HI. exact HI.
Qed.

(* ---- the DenseAttributeWriter loop: why it fails ---- *)

Lemma idx_insert_sorted_keys : forall rc ix k, In k (map fst (idx_insert_sorted rc ix)) <-> k = fst rc \/ In k (map fst ix).
Proof.
  intros rc ix k. destruct (idx_insert_sorted_split rc ix) as [ix1 [ix2 [E1 E2]]]. rewrite E2, E1.
  rewrite !map_app. cbn [map]. rewrite !in_app_iff. cbn [In]. intuition congruence.
Qed.

Lemma idx_insert_sorted_length : forall rc ix, List.length (idx_insert_sorted rc ix) = S (List.length ix).
Proof.
  intros rc ix. destruct (idx_insert_sorted_split rc ix) as [ix1 [ix2 [E1 E2]]]. rewrite E2, E1.
  rewrite !app_length. cbn [List.length]. lia.
Qed.

Definition hashes (l : list attr) : list N := map (fun y => name_hash (aname y)) l.

Lemma daw_err_cases : forall todo seen ix hp,
  daw_add_all name_hash P seen ix hp todo = TErr ->
  exists pre x post, todo = pre ++ x :: post /\
    (aname x = [] \/ In (aname x) (seen ++ map aname pre) \/ encode_attr x = EncErr \/ p_maxobj P < msg_size x
     \/ In (name_hash (aname x)) (map fst ix ++ hashes pre)
     \/ p_idxcap P <= N.of_nat (List.length ix + List.length pre)).
Proof.
  induction todo as [|a r IH]; intros seen ix hp H; cbn [daw_add_all] in H; [discriminate|].
  destruct (aname a) as [|b t] eqn:EN.
  { exists [], a, r. split; [reflexivity|]. left. exact EN. }
  rewrite <- EN in *.
  destruct (existsb (bytes_eqb (aname a)) seen) eqn:EX.
  { exists [], a, r. split; [reflexivity|]. right; left. cbn [map]. rewrite app_nil_r. apply existsb_bytes_in. exact EX. }
  destruct (encode_attr a) as [sz|] eqn:EA.
  2:{ exists [], a, r. split; [reflexivity|]. right; right; left. exact EA. }
  destruct (enc_ok_size _ _ EA) as [MS POS].
  destruct (heap_insert P hp a) as [hp1 id| |] eqn:HI; [| |discriminate].
  2:{ exists [], a, r. split; [reflexivity|]. apply heap_insert_err in HI. destruct HI as [Z|L]; [lia|]. do 3 right. left. exact L. }
  destruct (idx_insert P (name_hash (aname a), id) ix) as [ix1|] eqn:II.
  - unfold idx_insert in II. cbn [fst] in II. destruct (idx_search (name_hash (aname a)) ix); [discriminate|].
    destruct (p_idxcap P <=? N.of_nat (List.length ix)); [discriminate|]. inversion II; subst ix1; clear II.
    destruct (IH _ _ _ H) as [pre [x [post [E C]]]]. exists (a :: pre), x, post. split; [cbn [app]; congruence|].
    destruct C as [C|[C|[C|[C|[C|C]]]]].
    + left. exact C.
    + right; left. cbn [map]. apply in_app_or in C. apply in_or_app. cbn [In] in *. destruct C as [[C|C]|C]; tauto.
    + right; right; left. exact C.
    + do 3 right. left. exact C.
    + do 4 right. left. apply in_app_or in C. apply in_or_app. unfold hashes. cbn [map In]. destruct C as [C|C]; [|tauto].
      apply idx_insert_sorted_keys in C. cbn [fst] in C. destruct C as [C|C]; [right; left; congruence | left; exact C].
    + do 5 right. rewrite idx_insert_sorted_length in C. cbn [List.length]. lia.
  - exists [], a, r. split; [reflexivity|]. unfold idx_insert in II. cbn [fst] in II.
    destruct (idx_search (name_hash (aname a)) ix) eqn:SE.
    + do 4 right. left. apply in_or_app. left.
      destruct (in_dec N.eq_dec (name_hash (aname a)) (map fst ix)) as [HI'|HN]; [exact HI'|].
      apply idx_search_none in HN. congruence.
    + destruct (N.leb_spec (p_idxcap P) (N.of_nat (List.length ix))); [|discriminate]. do 5 right. cbn [List.length]. lia.
Qed.

Lemma daw_full_cases : forall todo seen ix hp,
  daw_add_all name_hash P seen ix hp todo = TFull ->
  exists pre x post, todo = pre ++ x :: post /\ p_hcap P < hfree hp + msgs_total pre + msg_size x.
Proof.
  induction todo as [|a r IH]; intros seen ix hp H; cbn [daw_add_all] in H; [discriminate|].
  destruct (aname a) as [|b t] eqn:EN; [discriminate|]. rewrite <- EN in *.
  destruct (existsb (bytes_eqb (aname a)) seen); [discriminate|].
  destruct (encode_attr a); try discriminate.
  destruct (heap_insert P hp a) as [hp1 id| |] eqn:HI; [|discriminate|].
  - destruct (idx_insert P (name_hash (aname a), id) ix) as [ix1|]; [|discriminate].
    destruct (IH _ _ _ H) as [pre [x [post [E C]]]]. exists (a :: pre), x, post. split; [cbn [app]; congruence|].
    apply heap_insert_ok_hfree in HI. cbn [msgs_total]. lia.
  - exists [], a, r. split; [reflexivity|]. apply heap_insert_full in HI. cbn [msgs_total]. lia.
Qed.

Lemma attrs_size_in : forall l x, In x l -> 4 + msg_size x <= attrs_size l.
Proof.
  induction l as [|y l IH]; intros x HI; [destruct HI|]. cbn [attrs_size]. destruct HI as [->|HI]; [lia|].
  specialize (IH x HI). lia.
Qed.

Lemma msgs_total_prefix : forall pre x post, msgs_total pre + msg_size x <= msgs_total (pre ++ x :: post).
Proof. intros. rewrite msgs_total_app. cbn [msgs_total]. lia. Qed.

Lemma split_last : forall (pre post : list attr) x l a, pre ++ x :: post = l ++ [a] ->
  (post = [] /\ pre = l /\ x = a) \/ (exists post', post = post' ++ [a] /\ l = pre ++ x :: post').
Proof.
  intros pre post x l a E. destruct post as [|p post0].
  - left. apply app_inj_tail in E. tauto.
  - right. destruct (@exists_last _ (p :: post0) ltac:(discriminate)) as [q [z Ez]]. rewrite Ez in E.
    assert (E' : (pre ++ x :: q) ++ [z] = l ++ [a]) by (rewrite <- app_assoc; exact E).
    apply app_inj_tail in E'. destruct E' as [E1 E2]. subst z. exists q. split; [exact Ez | symmetry; exact E1].
Qed.

Lemma hashes_in : forall l k, In k (hashes l) -> exists y, In y l /\ name_hash (aname y) = k.
Proof. intros l k H. unfold hashes in H. apply in_map_iff in H. destruct H as [y [E HI]]. exists y. tauto. Qed.

Lemma transition_refusal : forall attrs n v st',
  EncAll attrs -> NoDup (map aname attrs) -> NoHashCollision name_hash (n :: map aname attrs) ->
  hdr_size P attrs <= p_limit P -> p_limit P <= p_maxobj P ->
  needs_transition P attrs (mkAttr n v) ->
  transition name_hash P attrs (mkAttr n v) = (st', RErr) ->
  compact_refusal P attrs (mkAttr n v).
Proof.
  intros attrs n v st' EA ND NC FIT LM NT H. unfold transition in H.
  assert (DUP : In n (map aname attrs) -> compact_refusal P attrs (mkAttr n v)).
  { intro HI. destruct NT as [TH|[NI _]]; [apply CR_overwrite_at_threshold; assumption | contradiction]. }
  destruct (daw_add_all name_hash P [] [] heap_empty (attrs ++ [mkAttr n v])) as [ix hp| |] eqn:D.
  - destruct (N.ltb_spec (p_limit P) (p_base P + (4 + p_info P))); [|discriminate]. apply CR_info_no_room; assumption.
  - destruct (daw_err_cases _ _ _ _ D) as [pre [x [post [E C]]]]. cbn [app map List.length] in C.
    destruct (split_last _ _ _ _ _ (eq_sym E)) as [[-> [-> ->]]|[post' [-> ->]]].
    + (* the new attribute is the one that failed *)
      cbn [aname] in C. destruct C as [C|[C|[C|[C|[C|C]]]]].
      * apply CR_encode. unfold encode_attr. cbn [aname]. rewrite C. reflexivity.
      * apply DUP. exact C.
      * apply CR_encode. exact C.
      * apply CR_too_large; assumption.
      * apply DUP. apply hashes_in in C. destruct C as [y [HI Ey]].
        assert (aname y = n).
        { apply NC; [right; apply in_map; exact HI | left; reflexivity | exact Ey]. }
        subst n. apply in_map. exact HI.
      * apply CR_index_small; [exact NT | exact C].
    + (* one of the existing compact attributes failed: only the index capacity can be the reason *)
      assert (HIx : In x (pre ++ x :: post')) by (apply in_or_app; right; left; reflexivity).
      destruct (EA x HIx) as [sx Ex]. destruct (enc_ok_name x sx Ex) as [NE _].
      destruct (NoDup_names_middle _ _ _ ND) as [NIx _].
      destruct C as [C|[C|[C|[C|[C|C]]]]].
      * contradiction.
      * exfalso. apply NIx. rewrite map_app. apply in_or_app. left. exact C.
      * congruence.
      * exfalso. pose proof (attrs_size_in _ _ HIx) as S. unfold hdr_size in FIT. lia.
      * exfalso. apply hashes_in in C. destruct C as [y [HI Ey]].
        assert (aname y = aname x).
        { apply NC; [right; apply in_map; apply in_or_app; left; exact HI | right; apply in_map; exact HIx | exact Ey]. }
        apply NIx. rewrite map_app. apply in_or_app. left. rewrite <- H0. apply in_map. exact HI.
      * apply CR_index_small; [exact NT|]. rewrite app_length. cbn [List.length]. lia.
  - destruct (daw_full_cases _ _ _ _ D) as [pre [x [post [E C]]]]. cbn [heap_empty hfree] in C.
    pose proof (msgs_total_prefix pre x post) as MP. rewrite <- E, msgs_total_app in MP. cbn [msgs_total] in MP.
    destruct (p_ovf_err P) eqn:OV.
    + apply CR_heap_full; [exact NT | exact OV | lia].
    + destruct (N.ltb_spec (p_limit P) (p_base P + (4 + p_info P))); [|discriminate]. apply CR_info_no_room; assumption.
Qed.

Theorem write_refusals_compact : forall attrs n v st' r,
  EncAll attrs -> NoDup (map aname attrs) ->
  NoHashCollision name_hash (n :: map aname attrs) ->
  hdr_size P attrs <= p_limit P -> p_limit P <= p_maxobj P ->
  write_attr name_hash P (Compact attrs) n (Some v) = (st', r) -> r = RErr ->
  compact_refusal P attrs (mkAttr n v).
Proof.
  intros attrs n v st' r EA ND NC FIT LM H ER. subst r. cbn [write_attr] in H.
  destruct (N.ltb_spec (N.of_nat (List.length attrs)) (p_maxc P)) as [LT|GE].
  - unfold write_compact in H. destruct (encode_attr (mkAttr n v)) as [sz|] eqn:EN; [|apply CR_encode; exact EN].
    destruct (enc_ok_size _ _ EN) as [MS _]. cbn [aname] in H.
    destruct (replace_name n (mkAttr n v) attrs) as [attrs'|] eqn:RN.
    + destruct (N.ltb_spec (p_limit P) (hdr_size P attrs')); [|discriminate].
      eapply CR_replace_too_big; [exact LT | cbn [aname]; exact RN | assumption].
    + apply replace_name_none in RN.
      destruct (N.ltb_spec (p_limit P) (hdr_size P attrs + (4 + sz))); [|discriminate].
      eapply transition_refusal; try eassumption. right. split; [exact RN | rewrite MS; assumption].
  - eapply transition_refusal; try eassumption. left. exact GE.
Qed.

End Refusal.
