(* C01 end to end: the composition, stated with the mathematical product of the extents, and a witness that the hypotheses
   are satisfiable (the file of Proofs/IOProgExamples.v ex2, written by the library). *)
From HV Require Import Base.Prelude Base.Outcome Base.Bytes Model.IOProg Proofs.IOProg Model.IOProgReader Model.IOProgOpen.
From HV Require Import Model.CodecSuper Model.CodecOhdr Model.CodecMsg Model.CodecType.
From HV Require Import Model.FileImage Proofs.FileImage Proofs.FileImageOhdr Proofs.FileImageData Proofs.FileImageGroup
  Proofs.FileImageOpen Proofs.FileImageProd.

(* the datatype and shape the reader decodes from an object header *)
Definition decoded_type_shape (h : ohdr') : outcome (N * N * N * list N) :=
  d <- match find_msg 3 (ohp_msgs h) with Some b => dec_datatype b | None => Err end;;
  s <- match find_msg 1 (ohp_msgs h) with Some b => dec_dataspace b | None => Err end;;
  Ok (dt_class d, dt_size d, dt_cbf d, dsp_dims s).

Section Main.
Variable name : bytes.
Variables class size cbf : N.
Variable dims : list N.
Variable data : bytes.
Hypothesis Hname : link_name_ok name = true.
Hypothesis Hdt : basic_dtype class size cbf = true.
Hypothesis Hdims : dims_ok dims = true.
Hypothesis Hlen : blen data = product dims * size.
Hypothesis Hbound : blen data < 4294967296.
Local Notation f := (image_v2 name class size cbf dims data).

Lemma size_ge1 : 1 <= size.
Proof using Hdt. clear - Hdt. exact (proj1 (size_pos class size cbf Hdt)). Qed.
Lemma prod_small : product dims < 18446744073709551616.
Proof using Hdt Hlen Hbound. clear - Hdt Hlen Hbound. pose proof size_ge1. nia. Qed.
Lemma Hlen' : blen data = total_elems dims * size.
Proof using Hdt Hdims Hlen Hbound. clear - Hdt Hdims Hlen Hbound. rewrite (total_elems_product dims Hdims prod_small). exact Hlen. Qed.
Lemma Hpos' : 0 < blen data.
Proof using Hdt Hdims Hlen. clear - Hdt Hdims Hlen. pose proof (product_pos dims Hdims). pose proof size_ge1. nia. Qed.

Theorem file_roundtrip fuel hfuel : (3 <= fuel)%nat -> (3 < hfuel)%nat ->
  run0 f (p_open true (blen f) fuel hfuel) = Ok (Grp [47] ROOT_ADDR [Dset name (dset_addr data)]) /\
  run0 f p_superblock = Ok SB' /\
  run0 f (api_read_raw SB' hfuel (dset_addr data)) = Ok (RawBytes data) /\
  exists h, run0 f (p_ohdr SB' hfuel (dset_addr data)) = Ok h /\ decoded_type_shape h = Ok (class, size, cbf, dims).
Proof.
  intros Hf Hh. pose proof Hlen' as HL. pose proof Hpos' as HP.
  split; [|split; [|split]].
  - destruct fuel as [|[|[|n]]]; try blia.
    apply (open_image name class size cbf dims data Hname Hdt Hdims HL HP Hbound (blen f / 8 + 1024)); auto. blia.
  - exact (superblock_stage name class size cbf dims data Hname Hbound).
  - exact (dataset_read name class size cbf dims data Hname Hdt Hdims HL HP Hbound hfuel Hh).
  - exact (dataset_type_shape name class size cbf dims data Hname Hdt Hdims HL Hbound hfuel Hh).
Qed.
End Main.

Lemma file_roundtrip_stmt : forall name class size cbf dims data fuel hfuel,
  link_name_ok name = true -> basic_dtype class size cbf = true -> dims_ok dims = true ->
  blen data = product dims * size -> blen data < 4294967296 -> (3 <= fuel)%nat -> (3 < hfuel)%nat ->
  let f := image_v2 name class size cbf dims data in
  run0 f (p_open true (blen f) fuel hfuel) = Ok (Grp [47] ROOT_ADDR [Dset name (dset_addr data)]) /\
  run0 f p_superblock = Ok SB' /\
  run0 f (api_read_raw SB' hfuel (dset_addr data)) = Ok (RawBytes data) /\
  exists h, run0 f (p_ohdr SB' hfuel (dset_addr data)) = Ok h /\ decoded_type_shape h = Ok (class, size, cbf, dims).
Proof. intros. now apply file_roundtrip. Qed.

(* the hypotheses are satisfiable: "/d" = uint8 [1,2,3]; the image is the file the library wrote (Proofs/IOProgExamples.v ex2) *)
Example file_roundtrip_witness :
  link_name_ok [100] = true /\ basic_dtype DT_FIXED 1 0 = true /\ dims_ok [3] = true /\
  blen [1; 2; 3] = product [3] * 1 /\ blen [1; 2; 3] < 4294967296.
Proof. repeat split. Qed.
