(* C01 end to end, chunked: (A) what the writer model write_chunked_file (Model/ChunkIndex.v) appends to a file whose allocator
   stands at its end is the concatenation of the chunks and the B-tree leaf: the part of image_v2_chunked from 2457 on;
   (B) where the blocks of image_v2_chunked sit. *)
From HV Require Import Base.Prelude Model.Chunk Base.Outcome Base.Bytes Model.RobustTerm Model.ChunkIndex.
From HV Require Import Model.IOProg Proofs.IOProg Model.IOProgReader.
From HV Require Import Model.CodecSuper Model.CodecOhdr Model.CodecMsg Model.CodecType Model.CodecLink Model.GroupWire.
From HV Require Import Proofs.CodecSuper Proofs.CodecOhdr Proofs.CodecMsg Proofs.CodecType.
From HV Require Import Model.FileImage Proofs.FileImage Proofs.FileImageOhdr Proofs.FileImageData Model.FileImageChunked.

Local Open Scope N_scope.

(* ------------------------------------------------------------------ (A) the writer model appends *)
Lemma write_at_end (f buf : bytes) : buf <> [] -> ChunkIndex.write_at f (blen f) buf = f ++ buf.
Proof.
  intros Hne. unfold ChunkIndex.write_at. destruct buf as [|b0 br]; [congruence|]. set (buf := b0 :: br).
  replace (blen f + blen buf - blen f) with (blen buf) by blia.
  unfold blen. rewrite !Nat2N.id.
  rewrite firstn_app, firstn_all, Nat.sub_diag. cbn [firstn]. rewrite app_nil_r. f_equal.
  rewrite skipn_all2; [now rewrite app_nil_r|]. rewrite app_length. unfold zeros. rewrite repeat_length. blia.
Qed.

Lemma chunk_loop_appends : forall cks f acc f1 eof1 es,
  blen f + blen (concat (map snd cks)) < 18446744073709551616 ->
  write_chunk_loop_st cks f (blen f) acc = (f1, eof1, Ok es) ->
  f1 = f ++ concat (map snd cks) /\ eof1 = blen f + blen (concat (map snd cks)) /\ es = acc ++ loop_entries cks (blen f).
Proof.
  induction cks as [|[k d] r IH]; intros f acc f1 eof1 es Hb H.
  - cbn [write_chunk_loop_st] in H. injection H as <- <- <-. cbn [map concat loop_entries]. rewrite !app_nil_r.
    change (blen []) with 0. repeat split. blia.
  - cbn [write_chunk_loop_st map snd concat loop_entries] in *. rewrite blen_app in Hb.
    unfold alloc in *. destruct (blen d =? 0) eqn:Z; [discriminate|].
    assert (Hne : d <> []) by (intros ->; discriminate).
    rewrite (write_at_end f d Hne) in H.
    assert (Hw : wrap64 (blen f + blen d) = blen (f ++ d)).
    { rewrite blen_app. unfold wrap64. apply N.mod_small. blia. }
    rewrite Hw in *.
    destruct (IH (f ++ d) _ _ _ _ ltac:(rewrite blen_app; blia) H) as (-> & -> & ->).
    rewrite <- !app_assoc, !blen_app. repeat split. blia.
Qed.

Lemma write_chunked_file_appends dims cdims esz data f f' eof' root :
  blen f + blen (concat (map snd (write_chunks dims cdims esz data))) < 18446744073709551616 ->
  write_chunked_file true dims cdims esz data f (blen f) = Ok (f', eof', root) ->
  let cks := write_chunks dims cdims esz data in
  f' = f ++ concat (map snd cks) ++ serialize_leaf (length dims) (sort_entries (loop_entries cks (blen f))) /\
  root = blen f + blen (concat (map snd cks)).
Proof.
  intros Hb H cks. unfold write_chunked_file, write_chunked_file_st in H.
  destruct (negb (lenN data =? vol dims esz)); [discriminate|].
  destruct (true && (MAX_ENTRIES <? total_chunks (num_chunks dims cdims))); [discriminate|].
  fold cks in H, Hb.
  destruct (write_chunk_loop_st cks f (blen f) []) as [[f1 eof1] [es| |]] eqn:El; try discriminate.
  destruct (chunk_loop_appends _ _ _ _ _ _ Hb El) as (-> & -> & ->). cbn [app] in H.
  unfold write_index_st in H.
  destruct (negb (forallb (fun e => Nat.eqb (length (w_coord e)) (length dims)) (loop_entries cks (blen f)))); [discriminate|].
  destruct (loop_entries cks (blen f)) as [|e0 er] eqn:Ee; [discriminate|]. rewrite <- Ee in *.
  destruct (true && (MAX_ENTRIES <? N.of_nat (length (loop_entries cks (blen f))))); [discriminate|].
  unfold alloc in H.
  destruct (blen (serialize_leaf (length dims) (sort_entries (loop_entries cks (blen f)))) =? 0) eqn:Z; [discriminate|].
  assert (Hne : serialize_leaf (length dims) (sort_entries (loop_entries cks (blen f))) <> [])
    by (intros E0; rewrite E0 in Z; discriminate).
  pose proof (write_at_end (f ++ concat (map snd cks)) _ Hne) as W. rewrite blen_app in W. bnorm. rewrite W in H.

  cbn [st_result] in H. injection H as <- _ <-.
  rewrite <- app_assoc. split; reflexivity.
Qed.

(* ------------------------------------------------------------------ (B) the blocks *)
Section ImageC.
Variable name : bytes.
Variables class size cbf : N.
Variables dims cdims : list N.
Variable data : bytes.
Hypothesis Hname : link_name_ok name = true.

Local Notation f := (image_v2_chunked name class size cbf dims cdims data).
Local Notation dso := (c_dset_ohdr class size cbf dims cdims data).
Local Notation dsb := (c_dset_block class size cbf dims cdims data).
Local Notation cb := (c_chunk_bytes size dims cdims data).
Local Notation leaf := (c_leaf size dims cdims data).
Local Notation pre := (c_prefix name class size cbf dims cdims data).
Hypothesis Hcs : chunk_size_v2 (oh_msgs dso) <= 255.

Lemma c_snod_block_bytes :
  c_snod_block = [83; 78; 79; 68; 1; 0; 1; 0] ++ enc_sym 8 c_sym ++ zeros 1240.
Proof using. unfold c_snod_block, c_snode. now rewrite snod_one. Qed.
Lemma c_snod_block_len : blen c_snod_block = 1288.
Proof using. rewrite c_snod_block_bytes, !blen_app, enc_sym_len, blen_zeros. reflexivity. Qed.
Lemma c_sb_len : blen (enc_superblock (c_sb size dims cdims data)) = 48.
Proof using. rewrite superblock_blen. reflexivity. Qed.
Lemma c_dsb_len : blen dsb = 262.
Proof using Hcs. clear - Hcs.
  unfold c_dset_block. rewrite blen_app, blen_zeros, Proofs.CodecOhdr.ohdr_v2_blen.
  unfold size_ohdr_v2, OHDR_RESERVE in *. blia.
Qed.

Lemma image_split : f = pre ++ cb ++ leaf.
Proof using. clear.
  unfold image_v2_chunked, blocks_v2_chunked, c_prefix, place_all. rewrite !concat_app. cbn [concat].
  now rewrite app_nil_r.
Qed.
Lemma pre_len : blen pre = 2457.
Proof using Hname Hcs. clear - Hname Hcs.
  unfold c_prefix, place_all, c_prefix_blocks. cbn [concat]. rewrite !blen_app.
  rewrite c_sb_len, (heap_block_len name Hname), c_snod_block_len, bt_block_len, root_block_len, c_dsb_len. reflexivity.
Qed.

Local Notation blocks := (blocks_v2_chunked name class size cbf dims cdims data).
Lemma blocks_nth i b : nth_error (c_prefix_blocks name class size cbf dims cdims data) i = Some b -> nth_error blocks i = Some b.
Proof using. clear. intros H. unfold blocks_v2_chunked. rewrite nth_error_app1; [exact H|]. apply nth_error_Some. congruence. Qed.

Lemma PC_sb_rest : placed f 0 (enc_superblock (c_sb size dims cdims data) ++ concat (skipn 1 blocks)).
Proof using. clear. exact (place_all_placed_rest blocks 0 ltac:(cbn; blia)). Qed.
Lemma PC_heap : placed f 48 (heap_image (final_heap name) HEAP_ADDR).
Proof using. clear.
  pose proof (place_all_placed blocks 1 _ (blocks_nth 1 _ eq_refl)) as H. cbn [block_addr blocks_v2_chunked c_prefix_blocks app] in H.
  rewrite c_sb_len in H. exact H.
Qed.
Lemma PC_snod : placed f 336 c_snod_block.
Proof using Hname. clear - Hname.
  pose proof (place_all_placed blocks 2 _ (blocks_nth 2 _ eq_refl)) as H. cbn [block_addr blocks_v2_chunked c_prefix_blocks app] in H.
  rewrite c_sb_len, heap_block_len in H by exact Hname. exact H.
Qed.
Lemma PC_bt : placed f 1624 (bt_write_at final_btnode 8 GROUP_K).
Proof using Hname. clear - Hname.
  pose proof (place_all_placed blocks 3 _ (blocks_nth 3 _ eq_refl)) as H. cbn [block_addr blocks_v2_chunked c_prefix_blocks app] in H.
  rewrite c_sb_len, heap_block_len, c_snod_block_len in H by exact Hname. exact H.
Qed.
Lemma PC_root_rest : placed f 2168 (enc_ohdr_v2 root_ohdr ++ (dsb ++ cb ++ leaf)).
Proof using Hname. clear - Hname.
  pose proof (place_all_placed_rest blocks 4 ltac:(cbn; blia)) as H.
  cbn [block_addr blocks_v2_chunked c_prefix_blocks app skipn concat] in H.
  rewrite c_sb_len, heap_block_len, c_snod_block_len, bt_block_len in H by exact Hname.
  rewrite concat_app in H. cbn [concat] in H. rewrite app_nil_r in H. exact H.
Qed.
Lemma PC_dset_rest : placed f 2195 (dsb ++ cb ++ leaf).
Proof using Hname. clear - Hname.
  pose proof PC_root_rest as H. apply placed_tail in H. rewrite root_block_len in H. exact H.
Qed.
Lemma PC_chunks_rest : placed f 2457 (cb ++ leaf).
Proof using Hname Hcs. clear - Hname Hcs.
  pose proof PC_dset_rest as H. apply placed_tail in H. rewrite c_dsb_len in H. exact H.
Qed.
Lemma PC_leaf : placed f (c_btree_addr size dims cdims data) leaf.
Proof using Hname Hcs. clear - Hname Hcs.
  pose proof PC_chunks_rest as H. apply placed_tail in H. exact H.
Qed.
Lemma image_c_len : blen f = c_eof size dims cdims data.
Proof using Hname Hcs. clear - Hname Hcs.
  rewrite image_split, !blen_app, pre_len. unfold c_eof, c_btree_addr. change CHUNKS_ADDR with 2457. blia.
Qed.
End ImageC.
