(* C05, fractal heap: where the bytes a heap id names live in the direct block the writer encodes
   (finding C05-fheap-offset-excludes-block-prefix).

   III.G: "the offset of the object in the heap's address space"; the address space of a heap whose root is a direct block is
   that block, prefix included, so offset k names byte k of the block.  In the writer the offset of a heap id indexes the
   block's Objects slice (GetObject: Objects[offset : offset+length]) and writeDirectBlockAt copies Objects behind the 15-byte
   prefix: the bytes of the object with id offset k are at block byte 15 + k.  Universally below; the witness shows an id with
   offset 0 whose object is NOT at block byte 0 (that is the block signature). *)
From HV Require Import Base.Prelude Base.Outcome Base.Bytes Base.Crc32 Spec.Parse Spec.FormatNode Proofs.SpecNodeFHeap.
From HV Require Model.FHeap Proofs.FHeap.
Module MF := HV.Model.FHeap.
Module PF := HV.Proofs.FHeap.

Lemma firstn_copy_into : forall (dst src : list N) (k : nat),
  (k <= length src)%nat -> (k <= length dst)%nat -> firstn k (MF.copy_into dst src) = firstn k src.
Proof.
  induction dst as [|d dr IH]; intros src k Hs Hd.
  - cbn [length] in Hd. assert (k = 0%nat) by lia. subst. reflexivity.
  - destruct src as [|s sr]; [cbn [length] in Hs; assert (k = 0%nat) by lia; subst; reflexivity|].
    destruct k; [reflexivity|]. cbn [MF.copy_into firstn length] in *. f_equal. apply IH; lia.
Qed.

(* byte k of Objects is byte 15 + k of the encoded block (as far as the block has room before its trailing checksum) *)
Lemma fhdb_object_position b off n :
  19 <= MF.db_size b -> off + n <= MF.len (MF.db_objs b) -> off + n <= MF.db_size b - 19 ->
  MF.slice (MF.encode_dblock b) (MF.PREFIX + off) n = MF.slice (MF.db_objs b) off n.
Proof.
  intros Hs Ho Hb. rewrite encode_dblock_eq, fhdb_body_split by exact Hs.
  unfold MF.slice, MF.take, MF.drop.
  assert (Hpre : length (fhdb_pre b) = 15%nat) by reflexivity.
  assert (Hk : N.to_nat (MF.PREFIX + off) = (15 + N.to_nat off)%nat) by (unfold MF.PREFIX; lia).
  rewrite Hk. rewrite <- Hpre at 1.
  set (k := N.to_nat off). set (m := N.to_nat n).
  rewrite <- app_assoc, skipn_app. rewrite skipn_all2 with (l := fhdb_pre b) by lia.
  replace (length (fhdb_pre b) + k - length (fhdb_pre b))%nat with k by lia. cbn [app].
  rewrite !firstn_skipn_comm. f_equal.
  set (Z := MF.copy_into (MF.zeros (MF.db_size b - MF.PREFIX)) (MF.db_objs b)).
  assert (HZ : length Z = N.to_nat (MF.db_size b - 15)).
  { unfold Z. pose proof (PF.len_copy_into (MF.zeros (MF.db_size b - MF.PREFIX)) (MF.db_objs b)) as H.
    rewrite PF.len_zeros in H. unfold MF.len in H. unfold MF.PREFIX in *. lia. }
  assert (Hkm : (k + m <= N.to_nat (MF.db_size b - 19))%nat) by (unfold k, m; lia).
  rewrite firstn_app, firstn_firstn, Nat.min_l by exact Hkm.
  rewrite firstn_length, HZ, Nat.min_l by lia.
  replace (k + m - N.to_nat (MF.db_size b - 19))%nat with 0%nat by lia. cbn [firstn]. rewrite app_nil_r.
  unfold Z. apply firstn_copy_into.
  - unfold MF.len in Ho. unfold k, m. bnorm. lia.
  - unfold MF.zeros. rewrite repeat_length. unfold MF.PREFIX, k, m. bnorm. lia.
Qed.

(* GetObject on a heap whose root is its direct block: what it returns for id offset [off] are the bytes at block offset
   15 + off of the block the writer encodes *)
Lemma fheap_get_reads_after_prefix h id data :
  MF.h_ind h = None -> 19 <= MF.db_size (MF.h_blk h) ->
  MF.len (MF.db_objs (MF.h_blk h)) <= MF.db_size (MF.h_blk h) - 19 ->
  MF.get h id = MF.Ok data ->
  exists off n, MF.parse_id h id = MF.Ok (off, n) /\
    MF.slice (MF.encode_dblock (MF.h_blk h)) (MF.PREFIX + off) n = data.
Proof.
  intros Hind Hs Hl. unfold MF.get. destruct (MF.parse_id h id) as [[off n]|]; [|discriminate].
  rewrite Hind. unfold MF.get_in.
  destruct (MF.len (MF.db_objs (MF.h_blk h)) <=? off) eqn:E1; [discriminate|].
  destruct (MF.len (MF.db_objs (MF.h_blk h)) <? off + n) eqn:E2; [discriminate|].
  apply N.leb_gt in E1. apply N.ltb_ge in E2.
  intros H. injection H as <-. exists off, n. split; [reflexivity|].
  apply fhdb_object_position; lia.
Qed.

(* every state of the representation relation of Proofs/FHeap.v (hence every state reached by an admissible history) *)
Lemma fheap_get_reads_after_prefix_R bs h fs sp id data :
  MF.bs_ok bs = true -> PF.R bs h fs sp -> MF.get h id = MF.Ok data ->
  exists off n, MF.parse_id h id = MF.Ok (off, n) /\
    MF.slice (MF.encode_dblock (MF.h_blk h)) (MF.PREFIX + off) n = data.
Proof.
  intros Hbs HR. destruct (PF.bs_ok_bounds bs Hbs) as [[Hb1 Hb2] Hcap].
  pose proof (PF.R_objlen _ _ _ _ HR) as Hl. rewrite Hcap in Hl.
  apply fheap_get_reads_after_prefix.
  - apply (PF.R_ind _ _ _ _ HR).
  - rewrite (PF.R_size _ _ _ _ HR). lia.
  - rewrite (PF.R_size _ _ _ _ HR). exact Hl.
Qed.

(* witness: NewWritableFractalHeap(64), one 10-byte object.  Its id says offset 0, length 10; GetObject returns the object;
   the block's bytes 0..9 are the prefix ("FHDB", version, heap address), the object is at bytes 15..24 *)
Definition id_heap : MF.heap := fst (MF.insert MF.cap_new (MF.new_heap 64) (MF.obj 1 10) 0).

Lemma fheap_offset_excludes_block_prefix_refuted :
  exists id,
    snd (MF.insert MF.cap_new (MF.new_heap 64) (MF.obj 1 10) 0) = MF.Ok id /\
    MF.parse_id id_heap id = MF.Ok (0, 10) /\
    MF.get id_heap id = MF.Ok (MF.obj 1 10) /\
    MF.slice (MF.encode_dblock (MF.h_blk id_heap)) 15 10 = MF.obj 1 10 /\
    MF.slice (MF.encode_dblock (MF.h_blk id_heap)) 0 10 = [70; 72; 68; 66; 0; 0; 0; 0; 0; 0] /\
    MF.slice (MF.encode_dblock (MF.h_blk id_heap)) 0 10 <> MF.obj 1 10.
Proof.
  eexists. split; [vm_compute; reflexivity|]. repeat split; try (vm_compute; reflexivity).
  vm_compute. discriminate.
Qed.
