(* C12 end to end: where the blocks of image_v2_vlen sit (the seven blocks CreateDataset allocates, then the global heap
   collections, adjacent: Proofs/FileImageVlenHeap.v), the dataset header stage, Dataset.Read's program returning the 16-byte
   references, and the superblock / Open stages as instances of Proofs/FileImageGenOpen.v. *)
From HV Require Import Base.Prelude Model.GHeap.
From HV Require Proofs.GHeap.
From HV Require Import Base.Outcome Base.Bytes Model.IOProg Proofs.IOProg Model.IOProgReader Model.IOProgOpen.
From HV Require Import Model.CodecSuper Model.CodecOhdr Model.CodecMsg Model.CodecType Model.CodecLink Model.GroupWire.
From HV Require Import Proofs.CodecSuper Proofs.CodecOhdr Proofs.CodecMsg Proofs.CodecType.
From HV Require Import Model.FileImage Proofs.FileImage Proofs.FileImageOhdr Proofs.FileImageData Proofs.FileImageGroup
  Proofs.FileImageOpen Proofs.FileImageProd Proofs.FileImageGenOpen.
From HV Require Import Model.FileImageVlen Proofs.FileImageVlenHeap.

Local Open Scope N_scope.

(* ------------------------------------------------------------------ the references *)
Lemma enc_ref_len id : blen (encode_reference id) = 16.
Proof. unfold encode_reference. rewrite !blen_app, !blen_le. reflexivity. Qed.

Lemma refs_len : forall ids, blen (flat_map encode_reference ids) = 16 * N.of_nat (length ids).
Proof.
  induction ids as [|x r IH]; [reflexivity|]. cbn [flat_map length]. rewrite blen_app, enc_ref_len, IH. blia.
Qed.

Lemma refs_nth : forall ids i id, nth_error ids i = Some id ->
  rd (flat_map encode_reference ids) (16 * N.of_nat i) 16 = encode_reference id.
Proof.
  induction ids as [|x r IH]; intros i id H; [destruct i; discriminate|].
  cbn [flat_map]. pose proof (enc_ref_len x) as L. destruct i as [|i]; cbn [nth_error] in H.
  - injection H as <-. change (16 * N.of_nat 0) with 0. unfold rd. change (N.to_nat 0) with 0%nat. cbn [skipn].
    rewrite firstn_app. unfold blen in L. replace (N.to_nat 16 - length (encode_reference x))%nat with 0%nat by blia.
    cbn [firstn]. rewrite app_nil_r. apply firstn_all2. blia.
  - rewrite <- (IH i id H). unfold rd. f_equal.
    replace (N.to_nat (16 * N.of_nat (S i))) with (length (encode_reference x) + N.to_nat (16 * N.of_nat i))%nat
      by (unfold blen in L; blia).
    rewrite skipn_app, skipn_all2 by blia. cbn [app]. f_equal. blia.
Qed.

(* the datatype message of every base type *)
Lemma vlen_dt_len b : 1 <= blen (enc_datatype (vlen_dt b)) /\ blen (enc_datatype (vlen_dt b)) <= 28.
Proof. destruct b; split; apply N.leb_le; reflexivity. Qed.
Lemma wf_vlen_dt b : wf_vlen (vlen_dt b) = true.
Proof. destruct b; reflexivity. Qed.
Lemma base_dt_decoded b : exists props,
  dec_datatype (dt_props (vlen_dt b)) =
  Ok {| dt_class := fst (fst (base_cls b)); dt_version := 1; dt_size := snd (fst (base_cls b)); dt_cbf := snd (base_cls b);
        dt_props := props |}.
Proof. destruct b; eexists; vm_compute; reflexivity. Qed.
(* the C12 model of the message (Model/GHeap.v enc_vlen, the subject of C12_vlen_datatype_roundtrip) is the same bytes *)
Lemma vlen_dt_is_enc_vlen b : enc_vlen b = GHeap.Ok (enc_datatype (vlen_dt b)).
Proof. destruct b; vm_compute; reflexivity. Qed.

Lemma rank23 dims : dims_ok_vlen dims = true -> dims_ok dims = true /\ (length dims <= 23)%nat.
Proof. unfold dims_ok_vlen. intros H. apply andb_true_iff in H as [H1 H2]. apply Nat.leb_le in H2. auto. Qed.

Section ImageV.
Variable name : bytes.
Variable base : vbase.
Variable dims : list N.
Variable elems : list bytes.
Variable fin : gstate.
Variable ids : list heapid.
Hypothesis Hname : link_name_ok name = true.
Hypothesis Hdims : dims_ok_vlen dims = true.
Hypothesis Hcount : product dims = v_count elems.
Hypothesis Hrun : v_run elems = Some (fin, ids).

Local Notation f := (image_v2_vlen name base dims elems).
Local Notation refs := (v_refs elems).
Local Notation da := (v_dset_addr elems).
Local Notation dso := (v_dset_ohdr base dims).
Local Notation dsb := (v_dset_block base dims).
Local Notation pre := (v_prefix_blocks name base dims elems).
Local Notation blocks := (blocks_v2_vlen name base dims elems).
Local Notation vsb := (v_sb elems).

Lemma ids_eq : v_ids elems = ids. Proof using Hrun. unfold v_ids. now rewrite Hrun. Qed.
Lemma disk_eq : v_disk elems = disk fin. Proof using Hrun. unfold v_disk. now rewrite Hrun. Qed.
Lemma eof_eq : v_eof elems = eof fin. Proof using Hrun. unfold v_eof. now rewrite Hrun. Qed.

Lemma Hrun' : run_close 4096 4096 (v_e0 elems) (map W elems) = Some (fin, ids).
Proof. exact Hrun. Qed.
Lemma ids_len : length ids = length elems.
Proof.
  pose proof Hrun' as H. unfold run_close in H.
  destruct (Proofs.GHeap.run_inv 4096 4096 Proofs.GHeap.params_shipped (map W elems) _ (Proofs.GHeap.Inv_init 4096 4096 (v_e0 elems)))
    as (st & ids' & Hr & _ & _ & Hlen & _).
  rewrite Hr in H. destruct (flush st); [|discriminate]. injection H as _ <-. now rewrite writes_map_W in Hlen.
Qed.
Lemma refs_blen : blen refs = 16 * v_count elems.
Proof. unfold v_refs. rewrite ids_eq, refs_len, ids_len. reflexivity. Qed.

(* ------------------------------------------------------------------ the dataset header's messages *)
Lemma wf_ly_v : wf_layout SBP (LContig (v_data_size dims) DATA_ADDR) = true.
Proof. clear.
  unfold wf_layout. cbn [sb_ok SBP sb_offsize sb_lensize sb_version encok_layout].
  change (DATA_ADDR <? 256 ^ 8) with true.
  replace (v_data_size dims <? 256 ^ 8) with true; [reflexivity|]. symmetry. apply N.ltb_lt.
  unfold v_data_size, wrap64. change (256 ^ 8) with 18446744073709551616. apply N.mod_lt. discriminate.
Qed.
Lemma ly_msg_len_v : blen (enc_layout SBP (LContig (v_data_size dims) DATA_ADDR)) = 18.
Proof. clear. rewrite layout_blen by exact wf_ly_v. reflexivity. Qed.

Lemma dso_chunk_v : chunk_size_v2 (oh_msgs dso) = blen (enc_datatype (vlen_dt base)) + 8 * blen dims + 38.
Proof. clear.
  unfold v_dset_ohdr. cbn [oh_msgs]. rewrite !chunk_size_cons. cbn [hm_data].
  rewrite (ds_msg_len dims), ly_msg_len_v. change (chunk_size_v2 []) with 0. blia.
Qed.
Lemma dso_chunk_bound_v : chunk_size_v2 (oh_msgs dso) <= 250.
Proof. clear - Hdims.
  rewrite dso_chunk_v. destruct (rank23 dims Hdims) as [_ R]. pose proof (vlen_dt_len base). unfold blen at 2. blia.
Qed.
Lemma dso_ok_v : ohdr_ok dso.
Proof. clear - Hdims.
  unfold ohdr_ok. split; [reflexivity|]. split; [reflexivity|]. split; [pose proof dso_chunk_bound_v; blia|].
  split; [discriminate|].
  unfold v_dset_ohdr. cbn [oh_msgs]. repeat constructor; cbn [hm_type hm_data]; unfold MSG_CONT; try blia; try discriminate;
    pose proof (vlen_dt_len base); rewrite ?(ds_msg_len dims), ?ly_msg_len_v; blia.
Qed.
Lemma dsb_len_v : blen dsb = 262.
Proof. clear - Hdims.
  unfold v_dset_block. rewrite blen_app, blen_zeros, Proofs.CodecOhdr.ohdr_v2_blen.
  pose proof dso_chunk_bound_v. unfold size_ohdr_v2, OHDR_RESERVE in *. blia.
Qed.
Lemma dsb_tail_v : 2 <= blen (zeros (N.to_nat (OHDR_RESERVE - size_ohdr_v2 dso))).
Proof. clear - Hdims.
  rewrite blen_zeros. unfold size_ohdr_v2, OHDR_RESERVE. pose proof dso_chunk_bound_v. blia.
Qed.

(* ------------------------------------------------------------------ the blocks *)
Lemma v_sb_len : blen (enc_superblock vsb) = 48.
Proof. clear. rewrite superblock_blen. reflexivity. Qed.

Lemma pre_len_v : blen (concat pre) = v_e0 elems.
Proof.
  unfold v_prefix_blocks. cbn [concat]. rewrite !blen_app.
  rewrite v_sb_len, (heap_block_len name Hname), snod_block_len, bt_block_len, root_block_len, dsb_len_v, refs_blen.
  change (blen []) with 0. unfold v_e0, OHDR_RESERVE. change DATA_ADDR with 2195. blia.
Qed.

Lemma image_split_v : f = concat pre ++ concat (map snd (rev (disk fin))) ++ [].
Proof.
  unfold image_v2_vlen, blocks_v2_vlen, place_all, v_colls. rewrite concat_app, disk_eq, map_rev, app_nil_r. reflexivity.
Qed.

Lemma heap_chain : chain (v_e0 elems) (rev (disk fin)) (eof fin).
Proof. exact (run_close_chain 4096 4096 _ elems fin ids Hrun'). Qed.

(* every extent the heap writer has written sits at its address in the image *)
Lemma colls_placed : forall a b, In (a, b) (disk fin) -> placed f a b.
Proof.
  intros a b Hin. rewrite image_split_v.
  apply (proj1 (chain_placed _ _ _ (concat pre) [] heap_chain pre_len_v)). now apply in_rev in Hin.
Qed.
Lemma image_len_v : blen f = eof fin.
Proof.
  rewrite image_split_v, app_nil_r. exact (proj2 (chain_placed _ _ _ (concat pre) [] heap_chain pre_len_v)).
Qed.

(* the file is shorter than 2^62 bytes *)
Hypothesis Hsmall : blen f < 4611686018427387904.
Lemma eof_small : eof fin < 4611686018427387904.
Proof. rewrite <- image_len_v. exact Hsmall. Qed.
Lemma eof_W64 : eof fin < Proofs.GHeap.W64.
Proof. pose proof eof_small. unfold Proofs.GHeap.W64. blia. Qed.

Lemma blocks_nth_v i b : nth_error pre i = Some b -> nth_error blocks i = Some b.
Proof. clear. intros H. unfold blocks_v2_vlen. rewrite nth_error_app1; [exact H|]. apply nth_error_Some. congruence. Qed.

Lemma PV_sb_rest : placed f 0 (enc_superblock vsb ++ concat (skipn 1 blocks)).
Proof. clear. exact (place_all_placed_rest blocks 0 ltac:(cbn; blia)). Qed.
Lemma PV_heap : placed f 48 (heap_image (final_heap name) HEAP_ADDR).
Proof. clear.
  pose proof (place_all_placed blocks 1 _ (blocks_nth_v 1 _ eq_refl)) as H. cbn [block_addr blocks_v2_vlen v_prefix_blocks app] in H.
  rewrite v_sb_len in H. exact H.
Qed.
Lemma PV_snod : placed f 336 (snod_block refs).
Proof. clear - Hname.
  pose proof (place_all_placed blocks 2 _ (blocks_nth_v 2 _ eq_refl)) as H. cbn [block_addr blocks_v2_vlen v_prefix_blocks app] in H.
  rewrite v_sb_len, heap_block_len in H by exact Hname. exact H.
Qed.
Lemma PV_bt : placed f 1624 (bt_write_at final_btnode 8 GROUP_K).
Proof. clear - Hname.
  pose proof (place_all_placed blocks 3 _ (blocks_nth_v 3 _ eq_refl)) as H. cbn [block_addr blocks_v2_vlen v_prefix_blocks app] in H.
  rewrite v_sb_len, heap_block_len, snod_block_len in H by exact Hname. exact H.
Qed.
Lemma PV_root_rest : placed f 2168 (enc_ohdr_v2 root_ohdr ++ concat (skipn 5 blocks)).
Proof. clear - Hname.
  pose proof (place_all_placed_rest blocks 4 ltac:(cbn; blia)) as H.
  cbn [block_addr blocks_v2_vlen v_prefix_blocks app skipn concat] in H.
  rewrite v_sb_len, heap_block_len, snod_block_len, bt_block_len in H by exact Hname. exact H.
Qed.
Lemma PV_data : placed f 2195 refs.
Proof. clear - Hname.
  pose proof (place_all_placed blocks 5 _ (blocks_nth_v 5 _ eq_refl)) as H. cbn [block_addr blocks_v2_vlen v_prefix_blocks app] in H.
  rewrite v_sb_len, heap_block_len, snod_block_len, bt_block_len, root_block_len in H by exact Hname. exact H.
Qed.
Lemma PV_dset : placed f da dsb.
Proof. clear - Hname.
  pose proof (place_all_placed blocks 6 _ (blocks_nth_v 6 _ eq_refl)) as H. cbn [block_addr blocks_v2_vlen v_prefix_blocks app] in H.
  rewrite v_sb_len, heap_block_len, snod_block_len, bt_block_len, root_block_len in H by exact Hname.
  match type of H with placed _ ?X _ => replace da with X by (unfold v_dset_addr, dset_addr; change DATA_ADDR with 2195; blia) end.
  exact H.
Qed.

(* ------------------------------------------------------------------ sizes *)
Lemma e0_le_eof : v_e0 elems <= eof fin.
Proof.
  rewrite <- image_len_v, image_split_v, !blen_app, pre_len_v. blia.
Qed.
Lemma eof_small' : v_e0 elems <= eof fin /\ eof fin < 4611686018427387904.
Proof. split; [exact e0_le_eof|exact eof_small]. Qed.
Lemma da_eq : da = 2195 + 16 * v_count elems.
Proof. unfold v_dset_addr, dset_addr. rewrite refs_blen. reflexivity. Qed.
Lemma da_bound_v : da + 600 < B63.
Proof.
  rewrite da_eq. pose proof eof_small as Hs. pose proof e0_le_eof as H. unfold v_e0, OHDR_RESERVE in H. change DATA_ADDR with 2195 in H. unfold B63. blia.
Qed.
Lemma count_small : v_count elems < 18446744073709551616.
Proof. pose proof eof_small as Hs. pose proof e0_le_eof as H. unfold v_e0 in H. blia. Qed.
Lemma total_is_count : total_elems dims = v_count elems.
Proof.
  rewrite <- Hcount. apply total_elems_product; [exact (proj1 (rank23 dims Hdims))|]. rewrite Hcount. exact count_small.
Qed.
Lemma count_pos : 0 < v_count elems.
Proof. rewrite <- Hcount. exact (product_pos dims (proj1 (rank23 dims Hdims))). Qed.

(* ------------------------------------------------------------------ the dataset's header *)
Lemma dset_header_v fuel : (3 < fuel)%nat ->
  run0 f (p_ohdr SB' fuel da) = Ok (proj_ohdr_v2 false dso da).
Proof.
  intros Hf. apply (p_ohdr_placed SB' fuel f da dso (zeros (N.to_nat (OHDR_RESERVE - size_ohdr_v2 dso))) dso_ok_v).
  - exact PV_dset.
  - exact dsb_tail_v.
  - exact Hf.
  - exact da_bound_v.
Qed.

Lemma wf_ds_v : wf_dataspace {| ds_dims := dims; ds_maxdims := [] |} = true.
Proof. exact (wf_ds dims (proj1 (rank23 dims Hdims))). Qed.

(* Dataset.Read's program returns the 16-byte references *)
Theorem dataset_read_v fuel : (3 < fuel)%nat ->
  run0 f (api_read_raw SB' fuel da) = Ok (RawBytes refs).
Proof.
  intros Hf. unfold api_read_raw. rewrite run0_bind, (dset_header_v fuel Hf).
  rewrite run0_swallow.
  unfold proj_ohdr_v2, v_dset_ohdr. cbn [oh_msgs oh_flags msgs_at_v2 ohp_msgs hm_type hm_data].
  assert (Hattrs : forall m3 m1 m8 o3 o1 o8,
    p_attrs SB' [ {| hmp_type := 3; hmp_offset := o3; hmp_data := m3 |}; {| hmp_type := 1; hmp_offset := o1; hmp_data := m1 |};
                  {| hmp_type := 8; hmp_offset := o8; hmp_data := m8 |} ] = Ret []) by reflexivity.
  rewrite Hattrs. cbn [bind]. rewrite run0_ret.
  unfold p_dataset_raw.
  cbn [find_msg fold_left hmp_type hmp_data N.eqb Pos.eqb].
  rewrite (vlen_roundtrip _ (wf_vlen_dt base)), (dataspace_roundtrip _ wf_ds_v).
  change (sbp SB') with SBP. rewrite (layout_roundtrip _ _ wf_ly_v).
  cbn [obind lift bind fst snd proj_dataspace proj_layout proj_vlen vlen_dt dt_size dsp_type dsp_dims ds_dims ly_class ly_addr ly_compact ly_chunk N.eqb Pos.eqb].
  fold (total_elems dims). rewrite total_is_count.
  pose proof count_pos as HP. pose proof eof_small as Hs. pose proof e0_le_eof as HE. unfold v_e0 in HE.
  replace (v_count elems =? 0) with false by (symmetry; apply N.eqb_neq; blia).
  replace (18446744073709551616 <=? v_count elems * 16) with false by (symmetry; apply N.leb_gt; blia).
  rewrite run0_bind.
  rewrite (run0_read_bytes_at f DATA_ADDR refs (v_count elems * 16) PV_data)
    by (try rewrite refs_blen; unfold MAXI64; change DATA_ADDR with 2195; blia).
  reflexivity.
Qed.

(* what the reader decodes from the header: variable length (class 9, element size 16, type indicator) of the base type
   (class, size, signedness of the nested message), and the shape *)
Theorem dataset_type_shape_v fuel : (3 < fuel)%nat ->
  exists h d bd s, run0 f (p_ohdr SB' fuel da) = Ok h /\
    match find_msg 3 (ohp_msgs h) with Some b => dec_datatype b | None => Err end = Ok d /\
    (dt_class d, dt_size d, dt_cbf d) = (DT_VLEN, 16, vl_bits base) /\
    dec_datatype (dt_props d) = Ok bd /\ (dt_class bd, dt_size bd, dt_cbf bd) = base_cls base /\
    match find_msg 1 (ohp_msgs h) with Some b => dec_dataspace b | None => Err end = Ok s /\ dsp_dims s = dims.
Proof.
  intros Hf. destruct (base_dt_decoded base) as (props & Hb).
  eexists. exists (proj_vlen (vlen_dt base)). eexists. exists (proj_dataspace {| ds_dims := dims; ds_maxdims := [] |}).
  split; [exact (dset_header_v fuel Hf)|].
  unfold proj_ohdr_v2, v_dset_ohdr. cbn [oh_msgs oh_flags msgs_at_v2 ohp_msgs hm_type hm_data].
  cbn [find_msg fold_left hmp_type hmp_data N.eqb Pos.eqb].
  rewrite (vlen_roundtrip _ (wf_vlen_dt base)), (dataspace_roundtrip _ wf_ds_v).
  split; [reflexivity|]. split; [reflexivity|]. split; [exact Hb|]. split; [|split; reflexivity].
  cbn [dt_class dt_size dt_cbf]. now destruct (base_cls base) as [[c s] b].
Qed.

(* ------------------------------------------------------------------ superblock and Open *)
Lemma wf_v_sb : wf_superblock vsb = true.
Proof.
  unfold wf_superblock, v_sb, encok_superblock.
  cbn [sp_version sp_offsize sp_lensize sp_base sp_root sp_superext sp_rootbtree sp_rootheap sp_eof].
  replace (CodecSuper.u64 (v_eof elems)) with true; [reflexivity|]. unfold CodecSuper.u64.
  symmetry. apply N.ltb_lt. rewrite eof_eq. pose proof eof_small. blia.
Qed.

Lemma open_vlen n hfuel B : (3 < hfuel)%nat -> 1 <= B -> B = blen f / 8 + 1024 ->
  run0 f p_superblock = Ok SB' /\
  run0 f (p_open true (blen f) (S (S (S n))) hfuel) = Ok (Grp [47] 2168 [Dset name da]).
Proof.
  intros Hhf HB HBe.
  pose proof PV_sb_rest as Psb.
  assert (HR : 80 <= blen (concat (skipn 1 blocks))).
  { cbn [skipn blocks_v2_vlen v_prefix_blocks app concat]. rewrite blen_app, (heap_block_len name Hname). blia. }
  assert (Psig : placed f 0 signature).
  { pose proof Psb as HP. unfold enc_superblock in HP. cbn [sp_version v_sb] in HP. change (2 =? 0) with false in HP. cbv iota in HP.
    rewrite <- !app_assoc in HP. apply placed_head in HP. exact HP. }
  pose proof PV_snod as Psn. rewrite snod_block_bytes in Psn.
  change (final_sym refs) with (gen_sym da) in Psn.
  pose proof PV_root_rest as Pr.
  assert (HT : 2 <= blen (concat (skipn 5 blocks))).
  { cbn [skipn blocks_v2_vlen v_prefix_blocks app concat]. rewrite !blen_app, dsb_len_v. blia. }
  assert (Hlenf : 2168 < blen f).
  { rewrite image_len_v. pose proof e0_le_eof as H. unfold v_e0 in H. change DATA_ADDR with 2195 in H. blia. }
  assert (Pds : placed f da [79; 72; 68; 82]).
  { pose proof PV_dset as HP. unfold v_dset_block, enc_ohdr_v2 in HP. rewrite <- !app_assoc in HP. apply placed_head in HP. exact HP. }
  assert (Hda : da < 256 ^ 8).
  { pose proof da_bound_v as H. unfold B63 in H. change (256 ^ 8) with 18446744073709551616. blia. }
  pose proof (dset_header_v hfuel Hhf) as Hdh.
  split.
  - exact (superblock_stage_g f vsb _ wf_v_sb eq_refl eq_refl v_sb_len Psb HR).
  - eapply (open_image_g f name da vsb _ _ _ _ _ _ _ _ _ hfuel Hname wf_v_sb eq_refl eq_refl v_sb_len Psb HR Psig
              PV_heap Psn PV_bt Pr HT Hda Hlenf Pds Hhf Hdh); [reflexivity|exact HB|exact HBe].
Qed.
End ImageV.
