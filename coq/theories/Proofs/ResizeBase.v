(* C13, object-header level: basic lemmas for Model/Resize.v (WriteAt in place, validation, message lists). *)
From HV Require Import Base.Prelude Base.Outcome Base.Bytes Model.CodecMsg Model.CodecOhdr Model.Resize.
From HV Require Import Proofs.CodecMsg Proofs.CodecOhdr.

(* ---------------------------------------------------------------- WriteAt of as many bytes as were there *)

Lemma write_at_mid (pre old new suf : list N) : length new = length old ->
  write_at (pre ++ old ++ suf) (blen pre) new = pre ++ new ++ suf.
Proof.
  intros HL. unfold write_at, blen. cbv zeta. rewrite !Nat2N.id. bnorm.
  replace (length pre + length new - length (pre ++ old ++ suf))%nat with 0%nat by (rewrite !app_length; lia).
  cbn [repeat]. rewrite app_nil_r.
  rewrite firstn_app, firstn_all, Nat.sub_diag. cbn [firstn]. rewrite app_nil_r.
  f_equal. f_equal.
  rewrite skipn_app. rewrite skipn_all2 by lia. cbn [app].
  replace (length pre + length new - length pre)%nat with (length old) by lia.
  rewrite skipn_app, skipn_all, Nat.sub_diag. reflexivity.
Qed.

(* ---------------------------------------------------------------- validation *)

Lemma check_max_spec new : forall maxd, length new = length maxd ->
  check_max new maxd = if within_max new maxd then ROk else RErr.
Proof.
  induction new as [|d r IH]; intros [|m mr] HL; cbn [length] in HL; try discriminate;
    cbn [check_max within_max]; auto.
  destruct (m =? UNLIMITED); cbn [negb andb orb].
  - apply IH; lia.
  - rewrite N.ltb_antisym. destruct (d <=? m); cbn [negb]; [apply IH; lia | reflexivity].
Qed.

(* without any assumption on the handle: a request that passes the loop is within the maxima *)
Lemma check_max_sound new : forall maxd, check_max new maxd = ROk -> within_max new maxd = true.
Proof.
  induction new as [|d r IH]; intros [|m mr] H; cbn [check_max within_max] in *; auto; try discriminate.
  destruct (m =? UNLIMITED); cbn [negb andb orb] in *.
  - apply IH; exact H.
  - rewrite N.ltb_antisym in H. destruct (d <=? m); cbn [negb] in *; [apply IH; exact H | discriminate].
Qed.

Lemma forallb_nz_pos l : forallb (fun d => negb (d =? 0)) l = forallb (fun d => 0 <? d) l.
Proof. induction l as [|d r IH]; [reflexivity|]. cbn [forallb]. rewrite IH. destruct d; reflexivity. Qed.

Lemma new_coordinator_spec new chunk :
  new_coordinator new chunk =
  if (length new =? length chunk)%nat && negb (length new =? 0)%nat && forallb (fun d => 0 <? d) new
     && forallb (fun d => negb (d =? 0)) chunk
  then Some (num_chunks new chunk) else None.
Proof.
  unfold new_coordinator. rewrite (forallb_nz_pos new).
  destruct (length new =? length chunk)%nat; cbn [negb andb]; [|reflexivity].
  destruct (length new =? 0)%nat; cbn [negb andb]; [reflexivity|].
  destruct (forallb (fun d => 0 <? d) new); cbn [negb andb]; [|reflexivity].
  destruct (forallb (fun d => negb (d =? 0)) chunk); reflexivity.
Qed.

Lemma handle_ok_inv h : handle_ok h = true ->
  rh_chunked h = true /\ length (rh_dims h) <> 0%nat /\ length (rh_maxdims h) = length (rh_dims h) /\
  length (rh_chunkdims h) = length (rh_dims h) /\ forallb (fun d => negb (d =? 0)) (rh_chunkdims h) = true.
Proof.
  unfold handle_ok. intros H.
  apply andb_true_iff in H as [H H5]. apply andb_true_iff in H as [H H4].
  apply andb_true_iff in H as [H H3]. apply andb_true_iff in H as [H1 H2].
  apply negb_true_iff, Nat.eqb_neq in H2. apply Nat.eqb_eq in H3, H4. auto.
Qed.

Lemma resize_ok_inv dims maxd new : resize_ok dims maxd new = true ->
  length new = length dims /\ forallb (fun d => 0 <? d) new = true /\ within_max new maxd = true.
Proof.
  unfold resize_ok. intros H. apply andb_true_iff in H as [H H3]. apply andb_true_iff in H as [H1 H2].
  apply Nat.eqb_eq in H1. auto.
Qed.

(* ---------------------------------------------------------------- message lists *)

Lemma to_hmsg_msgs_at ms : forall a, map to_hmsg (msgs_at_v2 ms a) = ms.
Proof.
  induction ms as [|m r IH]; intros a; [reflexivity|].
  cbn [msgs_at_v2 map]. rewrite IH. unfold to_hmsg. cbn [hmp_type hmp_data]. destruct m; reflexivity.
Qed.

Lemma chunk_size_v2_cons m l : chunk_size_v2 (m :: l) = 4 + blen (hm_data m) + chunk_size_v2 l.
Proof. reflexivity. Qed.

Lemma msgs_at_v2_app l1 : forall l2 a,
  msgs_at_v2 (l1 ++ l2) a = msgs_at_v2 l1 a ++ msgs_at_v2 l2 (a + chunk_size_v2 l1).
Proof.
  induction l1 as [|m r IH]; intros l2 a.
  - cbn [app msgs_at_v2]. change (chunk_size_v2 []) with 0. f_equal. blia.
  - cbn [app msgs_at_v2]. rewrite IH. rewrite (chunk_size_v2_cons m r).
    replace (a + 4 + blen (hm_data m) + chunk_size_v2 r) with (a + (4 + blen (hm_data m) + chunk_size_v2 r)) by blia.
    reflexivity.
Qed.

Lemma chunk_size_v2_app l1 l2 : chunk_size_v2 (l1 ++ l2) = chunk_size_v2 l1 + chunk_size_v2 l2.
Proof.
  induction l1 as [|m r IH]; [change (chunk_size_v2 []) with 0; cbn [app]; blia|].
  cbn [app]. rewrite !chunk_size_v2_cons, IH. blia.
Qed.

Lemma body_v2_app l1 l2 : body_v2 (l1 ++ l2) = body_v2 l1 ++ body_v2 l2.
Proof. unfold body_v2. rewrite map_app, concat_app. reflexivity. Qed.

Lemma body_v2_cons m l : body_v2 (m :: l) = enc_msg_v2 m ++ body_v2 l.
Proof. reflexivity. Qed.

(* the loop of step 4 stops at the first dataspace message *)
Lemma find_dataspace_at before : forall m after a i v,
  no_ds before = true -> hm_type m = MSG_DATASPACE -> dec_dataspace (hm_data m) = Ok v ->
  find_dataspace (msgs_at_v2 (before ++ m :: after) a) i = Ok (i + length before)%nat.
Proof.
  induction before as [|b r IH]; intros m after a i v Hno Hty Hdec.
  - cbn [app msgs_at_v2 find_dataspace hmp_type hmp_data length]. rewrite Hty. cbn [N.eqb Pos.eqb MSG_DATASPACE].
    change (MSG_DATASPACE =? MSG_DATASPACE) with true. cbv iota. rewrite Hdec. cbn [obind]. f_equal. lia.
  - cbn [no_ds forallb] in Hno. apply andb_true_iff in Hno as [Hb Hr]. apply negb_true_iff in Hb.
    cbn [app msgs_at_v2 find_dataspace hmp_type length]. rewrite Hb.
    rewrite (IH m after _ (S i) v Hr Hty Hdec). f_equal. lia.
Qed.

Lemma first_dataspace_at before : forall m after a,
  no_ds before = true -> hm_type m = MSG_DATASPACE ->
  first_dataspace (msgs_at_v2 (before ++ m :: after) a) = Ok (hm_data m).
Proof.
  induction before as [|b r IH]; intros m after a Hno Hty.
  - cbn [app msgs_at_v2 first_dataspace hmp_type hmp_data]. rewrite Hty.
    change (MSG_DATASPACE =? MSG_DATASPACE) with true. reflexivity.
  - cbn [no_ds forallb] in Hno. apply andb_true_iff in Hno as [Hb Hr]. apply negb_true_iff in Hb.
    cbn [app msgs_at_v2 first_dataspace hmp_type]. rewrite Hb. apply IH; auto.
Qed.

(* step 7 on the list the reader returned: the data of message i is replaced; with data of the same length
   the offsets of the following messages are those of the list with the new message *)
Lemma set_data_at before : forall m after a d,
  blen d = blen (hm_data m) ->
  set_data (msgs_at_v2 (before ++ m :: after) a) (length before) d
  = msgs_at_v2 (before ++ {| hm_type := hm_type m; hm_data := d |} :: after) a.
Proof.
  induction before as [|b r IH]; intros m after a d Hl.
  - cbn [app msgs_at_v2 set_data length hmp_type hmp_offset hm_type hm_data]. rewrite Hl. reflexivity.
  - cbn [app msgs_at_v2 set_data length]. rewrite IH by exact Hl. reflexivity.
Qed.

(* ---------------------------------------------------------------- the dataspace message *)

Lemma bytes_ok_enc_dims8 l : bytes_ok (enc_dims8 l) = true.
Proof.
  induction l as [|d r IH]; [reflexivity|].
  unfold enc_dims8 in *. cbn [map concat]. rewrite bytes_ok_app, le_bytes_ok, IH. reflexivity.
Qed.

Lemma bytes_ok_enc_dataspace x : bytes_ok (enc_dataspace x) = true.
Proof.
  unfold enc_dataspace. rewrite !bytes_ok_app, !bytes_ok_enc_dims8.
  assert (W : wrap8 (blen (ds_dims x)) <? 256 = true).
  { apply N.ltb_lt. unfold wrap8. apply N.mod_lt. discriminate. }
  cbn [bytes_ok forallb zeros repeat]. rewrite W. destruct (ds_maxdims x); reflexivity.
Qed.

Lemma blen_ds_same dims new maxd : length new = length dims ->
  blen (enc_dataspace {| ds_dims := new; ds_maxdims := maxd |})
  = blen (enc_dataspace {| ds_dims := dims; ds_maxdims := maxd |}).
Proof.
  intros HL. rewrite !dataspace_blen. unfold size_dataspace, blen. cbn [ds_dims ds_maxdims]. rewrite HL. reflexivity.
Qed.

Lemma wf_dataspace_same dims new maxd : length new = length dims -> u64_ok new = true ->
  wf_dataspace {| ds_dims := dims; ds_maxdims := maxd |} = true ->
  wf_dataspace {| ds_dims := new; ds_maxdims := maxd |} = true.
Proof.
  unfold wf_dataspace, encok_dataspace. cbn [ds_dims ds_maxdims]. intros HL Hu H. rewrite HL, Hu.
  apply andb_true_iff in H as [H Hm]. apply andb_true_iff in H as [H Hd]. rewrite H, Hm. reflexivity.
Qed.
