(* C05: the chunk-index leaf encoder of the writer model (Model/ChunkIndex.v serialize_leaf: version 1 B-tree, node type 1,
   tied byte for byte to the Go code by C01) against the specification decoder Spec/FormatNode.v spec_dec_btree1.

   The decoder is called with node type 1, size of offsets 8, the dimensionality the writer's keys use ([dim] offsets per
   key; the element-size dimension the format adds is the separately listed finding C05-chunk-dims-no-elem-dim of the layout
   message) and K = 32 (default indexed-storage K, node capacity 2K = 64).

   Result: for every well-formed entry list of fewer than 65536 entries the TOLERANT decoder accepts the node, returns the
   logical content the encoder was given and reports T_btree1_node_over_capacity exactly when there are more than 64 entries;
   the STRICT decoder rejects exactly then.  The 16-bit count: when it wraps the decoder still ACCEPTS the bytes, as a node with
   fewer entries (spec_btree1_wrap_refuted). *)
From HV Require Import Base.Prelude Base.Outcome Base.Bytes Spec.Parse Spec.FormatNode Model.ChunkIndex Proofs.ChunkIndex.

Local Open Scope N_scope.

(* ------------------------------------------------------------------ logical content of a leaf *)

(* the key the specification decoder reports for an entry: chunk size, filter mask 0, offsets *)
Definition spec_key_of (e : wentry) : list N := w_nbytes e :: 0 :: w_coord e.
(* the key after the last child *)
Definition spec_last_key (dim : nat) : list N := 0 :: 0 :: repeat U64MAX dim.

Definition spec_leaf (dim : nat) (es : list wentry) : btree1_spec :=
  {| b1_type := 1; b1_level := 0; b1_n := N.of_nat (length es); b1_left := U64MAX; b1_right := U64MAX;
     b1_keys := map spec_key_of es ++ [spec_last_key dim]; b1_children := map w_addr es |}.

(* ------------------------------------------------------------------ field widths *)

Lemma P2 : 256 ^ N.of_nat 2 = 65536. Proof. reflexivity. Qed.
Lemma P4 : 256 ^ N.of_nat 4 = 4294967296. Proof. reflexivity. Qed.
Lemma P8 : 256 ^ N.of_nat 8 = 18446744073709551616. Proof. reflexivity. Qed.

Lemma U64MAX_lt : U64MAX < 256 ^ N.of_nat 8.
Proof. rewrite P8. unfold U64MAX. lia. Qed.

Lemma le_U64MAX_lt v : v <= U64MAX -> v < 256 ^ N.of_nat 8.
Proof. rewrite P8. unfold U64MAX. lia. Qed.

Lemma Forall_le_U64MAX_lt cs : Forall (fun x => x <= U64MAX) cs -> Forall (fun v => v < 256 ^ N.of_nat 8) cs.
Proof. intros H. eapply Forall_impl; [|exact H]. intros a Ha. now apply le_U64MAX_lt. Qed.

Lemma wrap16_lt c : wrap16 c < 256 ^ N.of_nat 2.
Proof. rewrite P2. unfold wrap16. apply N.mod_lt. lia. Qed.

Lemma repeat_U64MAX_le dim : Forall (fun x => x <= U64MAX) (repeat U64MAX dim).
Proof. apply Forall_forall. intros x Hx. apply repeat_spec in Hx. subst x. lia. Qed.

Lemma entries_ok_Forall dim es : forallb (entry_ok dim) es = true -> Forall (fun e => entry_ok dim e = true) es.
Proof. intros H. apply Forall_forall. now apply forallb_forall. Qed.

(* ------------------------------------------------------------------ keys and entries *)

Lemma p_key_enc dim nb fm cs (r : list N) :
  length cs = dim -> Forall (fun x => x <= U64MAX) cs -> nb < 4294967296 -> fm < 4294967296 ->
  p_key 8 1 dim (enc_key nb fm cs ++ r) = Ok (nb :: fm :: cs, r).
Proof.
  intros Hl Hc Hnb Hfm. unfold p_key, enc_key. change (1 =? 0) with false. cbv iota.
  rewrite <- !app_assoc.
  rewrite p_u_le by (rewrite P4; exact Hnb). cbn [obind].
  rewrite p_u_le by (rewrite P4; exact Hfm). cbn [obind].
  rewrite flat_map_concat_map. subst dim.
  rewrite p_us_app by (apply Forall_le_U64MAX_lt; exact Hc). cbn [obind]. reflexivity.
Qed.

Lemma p_entries_enc dim : forall (es : list wentry) (r : list N),
  Forall (fun e => entry_ok dim e = true) es ->
  p_entries 8 8 1 dim (length es) (flat_map enc_entry es ++ r) = Ok (map spec_key_of es, map w_addr es, r).
Proof.
  induction es as [|e es IH]; intros r He.
  - reflexivity.
  - apply Forall_cons_iff in He as [He0 Her].
    destruct (entry_ok_spec _ _ He0) as (E1 & E2 & E3 & E4).
    cbn [length p_entries flat_map map]. unfold enc_entry at 1. rewrite <- !app_assoc.
    rewrite p_key_enc by (auto; lia). cbn [obind].
    rewrite p_u_le by (apply le_U64MAX_lt; exact E3). cbn [obind].
    rewrite IH by exact Her. cbn [obind]. reflexivity.
Qed.

(* ------------------------------------------------------------------ the node, for any stored count *)

(* header with the count field of [c], then the entries [es], one more key, and whatever follows: the decoder takes the
   entries the 16-bit count announces *)
Lemma spec_btree1_bytes tol dim c es nb cs (r : list N) :
  wrap16 c = N.of_nat (length es) ->
  Forall (fun e => entry_ok dim e = true) es ->
  length cs = dim -> Forall (fun x => x <= U64MAX) cs -> nb < 4294967296 ->
  spec_dec_btree1 tol 8 8 1 dim 32 (node_header c ++ flat_map enc_entry es ++ enc_key nb 0 cs ++ r) =
    (tg <- devif (64 <? N.of_nat (length es)) tol T_btree1_node_over_capacity;;
     Ok ({| b1_type := 1; b1_level := 0; b1_n := N.of_nat (length es); b1_left := U64MAX; b1_right := U64MAX;
            b1_keys := map spec_key_of es ++ [nb :: 0 :: cs]; b1_children := map w_addr es |}, tg, r)).
Proof.
  intros Hc He Hl Hcs Hnb.
  unfold spec_dec_btree1, node_header. change SIG_TREE with tree_sig. rewrite <- !app_assoc.
  rewrite p_expect_app. cbn [obind]. cbn [app p_byte obind].
  change (1 =? 1) with true. cbn [guard obind p_byte].
  rewrite p_u_le by apply wrap16_lt. cbn [obind]. rewrite Hc.
  change (2 * 32) with 64.
  destruct (devif (64 <? N.of_nat (length es)) tol T_btree1_node_over_capacity) as [tg| |]; cbn [obind]; try reflexivity.
  rewrite p_u_le by exact U64MAX_lt. cbn [obind].
  rewrite p_u_le by exact U64MAX_lt. cbn [obind].
  rewrite Nat2N.id.
  rewrite p_entries_enc by exact He. cbn [obind].
  rewrite p_key_enc by (auto; lia). cbn [obind]. reflexivity.
Qed.

(* ------------------------------------------------------------------ 1. the leaf the writer serializes *)

Lemma spec_btree1_leaf_app tol dim es (r : list N) :
  Forall (fun e => entry_ok dim e = true) es -> N.of_nat (length es) < 65536 ->
  spec_dec_btree1 tol 8 8 1 dim 32 (serialize_leaf dim es ++ r) =
    (tg <- devif (64 <? N.of_nat (length es)) tol T_btree1_node_over_capacity;;
     Ok (spec_leaf dim es, tg, r)).
Proof.
  intros He Hn. unfold serialize_leaf. rewrite <- !app_assoc.
  rewrite spec_btree1_bytes; auto.
  - apply wrap16_small. exact Hn.
  - apply repeat_length.
  - apply repeat_U64MAX_le.
  - lia.
Qed.

Lemma spec_btree1_leaf tol dim es :
  Forall (fun e => entry_ok dim e = true) es -> N.of_nat (length es) < 65536 ->
  spec_dec_btree1 tol 8 8 1 dim 32 (serialize_leaf dim es) =
    (tg <- devif (64 <? N.of_nat (length es)) tol T_btree1_node_over_capacity;;
     Ok ({| b1_type := 1; b1_level := 0; b1_n := N.of_nat (length es); b1_left := U64MAX; b1_right := U64MAX;
            b1_keys := map spec_key_of es ++ [0 :: 0 :: repeat U64MAX dim]; b1_children := map w_addr es |}, tg, [])).
Proof.
  intros He Hn. rewrite <- (app_nil_r (serialize_leaf dim es)). now apply spec_btree1_leaf_app.
Qed.

(* ------------------------------------------------------------------ 2. tolerant / strict *)

Lemma spec_btree1_leaf_tolerant dim es :
  Forall (fun e => entry_ok dim e = true) es -> N.of_nat (length es) < 65536 ->
  spec_dec_btree1 tolerant 8 8 1 dim 32 (serialize_leaf dim es) =
    Ok (spec_leaf dim es, if 64 <? N.of_nat (length es) then [T_btree1_node_over_capacity] else [], []).
Proof.
  intros He Hn. rewrite spec_btree1_leaf by assumption.
  destruct (64 <? N.of_nat (length es)); reflexivity.
Qed.

(* the strict decoder accepts iff the node holds at most 2K = 64 chunks *)
Lemma spec_btree1_leaf_strict dim es :
  Forall (fun e => entry_ok dim e = true) es -> N.of_nat (length es) < 65536 ->
  spec_dec_btree1 strict 8 8 1 dim 32 (serialize_leaf dim es) =
    if 64 <? N.of_nat (length es) then Err else Ok (spec_leaf dim es, [], []).
Proof.
  intros He Hn. rewrite spec_btree1_leaf by assumption.
  destruct (64 <? N.of_nat (length es)); reflexivity.
Qed.

Lemma spec_btree1_leaf_strict_iff dim es :
  Forall (fun e => entry_ok dim e = true) es -> N.of_nat (length es) < 65536 ->
  (spec_dec_btree1 strict 8 8 1 dim 32 (serialize_leaf dim es) = Ok (spec_leaf dim es, [], []) <-> N.of_nat (length es) <= 64) /\
  (spec_dec_btree1 strict 8 8 1 dim 32 (serialize_leaf dim es) = Err <-> 64 < N.of_nat (length es)).
Proof.
  intros He Hn. rewrite spec_btree1_leaf_strict by assumption.
  destruct (64 <? N.of_nat (length es)) eqn:E.
  - apply N.ltb_lt in E. split; split; intros H; try discriminate; auto; lia.
  - apply N.ltb_ge in E. split; split; intros H; try discriminate; auto; lia.
Qed.

(* ------------------------------------------------------------------ 3. after write_index *)

(* what write_index leaves in the file: the serialized sorted entries at the returned address *)
Lemma write_index_shape rep dim es f eof f' eof' addr :
  write_index rep dim es f eof = Ok (f', eof', addr) ->
  addr = eof /\ exists pre suf, f' = pre ++ serialize_leaf dim (sort_entries es) ++ suf /\ blen pre = addr.
Proof.
  unfold write_index, write_index_st, st_result. intros H.
  destruct (negb (forallb (fun e => Nat.eqb (length (w_coord e)) dim) es)); [discriminate|].
  destruct es as [|e0 er]; [discriminate|].
  destruct (rep && (MAX_ENTRIES <? N.of_nat (length (e0 :: er)))); [discriminate|].
  cbv zeta in H. unfold alloc in H.
  destruct (blen (serialize_leaf dim (sort_entries (e0 :: er))) =? 0); [discriminate|].
  inversion H; subst. split; [reflexivity|].
  destruct (write_at_shape f (serialize_leaf dim (sort_entries (e0 :: er))) addr (serialize_leaf_nonempty _ _))
    as (pre & suf & Hw & Hp).
  exists pre, suf. auto.
Qed.

Lemma skipn_blen_app (pre x : list N) a : blen pre = a -> skipn (N.to_nat a) (pre ++ x) = x.
Proof.
  intros H. replace (N.to_nat a) with (length pre) by (unfold blen in H; lia).
  rewrite skipn_app, skipn_all, Nat.sub_diag. reflexivity.
Qed.

(* after any successful write_index the bytes of the file from the returned address on decode, under the specification
   decoder, to the SORTED entries; the bytes that remain are the rest of the file *)
Theorem spec_btree1_written_tol tol rep dim es f eof f' eof' addr :
  write_index rep dim es f eof = Ok (f', eof', addr) ->
  Forall (fun e => entry_ok dim e = true) es -> N.of_nat (length es) < 65536 ->
  exists suf,
    skipn (N.to_nat addr) f' = serialize_leaf dim (sort_entries es) ++ suf /\
    spec_dec_btree1 tol 8 8 1 dim 32 (skipn (N.to_nat addr) f') =
      (tg <- devif (64 <? N.of_nat (length es)) tol T_btree1_node_over_capacity;;
       Ok (spec_leaf dim (sort_entries es), tg, suf)).
Proof.
  intros Hw He Hn. destruct (write_index_shape _ _ _ _ _ _ _ _ Hw) as (_ & pre & suf & Hf & Hp).
  exists suf. subst f'. rewrite (skipn_blen_app pre _ addr Hp). split; [reflexivity|].
  rewrite spec_btree1_leaf_app.
  - rewrite sort_entries_length. reflexivity.
  - apply sort_entries_Forall. exact He.
  - rewrite sort_entries_length. exact Hn.
Qed.

Theorem spec_btree1_written rep dim es f eof f' eof' addr :
  write_index rep dim es f eof = Ok (f', eof', addr) ->
  Forall (fun e => entry_ok dim e = true) es -> N.of_nat (length es) < 65536 ->
  exists suf,
    skipn (N.to_nat addr) f' = serialize_leaf dim (sort_entries es) ++ suf /\
    spec_dec_btree1 tolerant 8 8 1 dim 32 (skipn (N.to_nat addr) f') =
      Ok (spec_leaf dim (sort_entries es),
          if 64 <? N.of_nat (length es) then [T_btree1_node_over_capacity] else [], suf).
Proof.
  intros Hw He Hn. destruct (spec_btree1_written_tol tolerant _ _ _ _ _ _ _ _ Hw He Hn) as (suf & H1 & H2).
  exists suf. split; [exact H1|]. rewrite H2.
  destruct (64 <? N.of_nat (length es)); reflexivity.
Qed.

Theorem spec_btree1_written_strict rep dim es f eof f' eof' addr :
  write_index rep dim es f eof = Ok (f', eof', addr) ->
  Forall (fun e => entry_ok dim e = true) es -> N.of_nat (length es) < 65536 ->
  exists suf,
    skipn (N.to_nat addr) f' = serialize_leaf dim (sort_entries es) ++ suf /\
    spec_dec_btree1 strict 8 8 1 dim 32 (skipn (N.to_nat addr) f') =
      if 64 <? N.of_nat (length es) then Err else Ok (spec_leaf dim (sort_entries es), [], suf).
Proof.
  intros Hw He Hn. destruct (spec_btree1_written_tol strict _ _ _ _ _ _ _ _ Hw He Hn) as (suf & H1 & H2).
  exists suf. split; [exact H1|]. rewrite H2.
  destruct (64 <? N.of_nat (length es)); reflexivity.
Qed.

(* the same with the model's ReadAt of exactly the node's bytes (the node ends below 2^63): nothing remains *)
Theorem spec_btree1_written_read rep dim es f eof f' eof' addr :
  write_index rep dim es f eof = Ok (f', eof', addr) ->
  Forall (fun e => entry_ok dim e = true) es -> N.of_nat (length es) < 65536 ->
  addr + blen (serialize_leaf dim es) <= MAXINT64 ->
  read_at f' addr (blen (serialize_leaf dim es)) = Some (serialize_leaf dim (sort_entries es)) /\
  spec_dec_btree1 tolerant 8 8 1 dim 32 (serialize_leaf dim (sort_entries es)) =
    Ok (spec_leaf dim (sort_entries es),
        if 64 <? N.of_nat (length es) then [T_btree1_node_over_capacity] else [], []).
Proof.
  intros Hw He Hn Hm. destruct (write_index_shape _ _ _ _ _ _ _ _ Hw) as (_ & pre & suf & Hf & Hp).
  split.
  - subst f'. apply read_at_app; auto.
    + symmetry. apply blen_serialize_sorted. exact He.
    + unfold MAXINT64 in *. lia.
  - rewrite spec_btree1_leaf_tolerant.
    + rewrite sort_entries_length. reflexivity.
    + apply sort_entries_Forall. exact He.
    + rewrite sort_entries_length. exact Hn.
Qed.

(* ------------------------------------------------------------------ 4. the 16-bit count *)

(* When the count does not fit 16 bits the header announces k = count mod 65536 entries.  The specification decoder does NOT
   reject these bytes: it returns a node of the first k entries whose final key is the key of entry k, and leaves the other
   entries unread - for every tolerance.  (k = 0 for 65536 entries: an accepted EMPTY leaf.)  The logical content differs from
   what the encoder was given: [spec_leaf dim (es1 ++ e :: es2)] has more children. *)
Theorem spec_btree1_wrap_refuted tol dim es1 e es2 :
  Forall (fun e => entry_ok dim e = true) (es1 ++ e :: es2) ->
  wrap16 (N.of_nat (length (es1 ++ e :: es2))) = N.of_nat (length es1) ->
  spec_dec_btree1 tol 8 8 1 dim 32 (serialize_leaf dim (es1 ++ e :: es2)) =
    (tg <- devif (64 <? N.of_nat (length es1)) tol T_btree1_node_over_capacity;;
     Ok ({| b1_type := 1; b1_level := 0; b1_n := N.of_nat (length es1); b1_left := U64MAX; b1_right := U64MAX;
            b1_keys := map spec_key_of es1 ++ [spec_key_of e]; b1_children := map w_addr es1 |}, tg,
         le 8 (w_addr e) ++ flat_map enc_entry es2 ++ enc_key 0 0 (repeat U64MAX dim)))
  /\ b1_children (spec_leaf dim (es1 ++ e :: es2)) <> map w_addr es1.
Proof.
  intros He Hc. split.
  - apply Forall_app in He as [He1 He2]. apply Forall_cons_iff in He2 as [He0 He2].
    destruct (entry_ok_spec _ _ He0) as (E1 & E2 & E3 & E4).
    unfold serialize_leaf. rewrite flat_map_app. cbn [flat_map]. unfold enc_entry at 2.
    rewrite <- !app_assoc.
    rewrite spec_btree1_bytes; auto.
  - cbn [spec_leaf b1_children]. rewrite map_app. cbn [map]. intros H.
    apply (f_equal (@length N)) in H. rewrite app_length, !map_length in H. cbn [length] in H. lia.
Qed.

(* ------------------------------------------------------------------ 5. witnesses *)

(* k chunks of a one-dimensional dataset: 4 elements per chunk, 16 bytes each, stored one after the other from 4096 *)
Definition cap_entries (k : nat) : list wentry :=
  map (fun i => ([4 * N.of_nat i], 4096 + 16 * N.of_nat i, 16)) (seq 0 k).

Lemma cap_entries_length k : length (cap_entries k) = k.
Proof. unfold cap_entries. now rewrite map_length, seq_length. Qed.

(* finding C05-btree1-node-over-capacity: 65 chunks in one node of capacity 64 *)
Lemma btree1_over_capacity_refuted :
  forallb (entry_ok 1) (cap_entries 65) = true /\ distinct_coords (cap_entries 65) = true /\
  spec_dec_btree1 strict 8 8 1 1 32 (serialize_leaf 1 (cap_entries 65)) = Err /\
  spec_dec_btree1 tolerant 8 8 1 1 32 (serialize_leaf 1 (cap_entries 65)) =
    Ok (spec_leaf 1 (cap_entries 65), [T_btree1_node_over_capacity], []).
Proof.
  assert (W : forallb (entry_ok 1) (cap_entries 65) = true) by (vm_compute; reflexivity).
  assert (L : N.of_nat (length (cap_entries 65)) < 65536) by (rewrite cap_entries_length; lia).
  assert (C : (64 <? N.of_nat (length (cap_entries 65))) = true) by (rewrite cap_entries_length; reflexivity).
  split; [exact W|]. split; [vm_compute; reflexivity|]. split.
  - rewrite spec_btree1_leaf_strict by (auto using entries_ok_Forall). rewrite C. reflexivity.
  - rewrite spec_btree1_leaf_tolerant by (auto using entries_ok_Forall). rewrite C. reflexivity.
Qed.

(* a node at its capacity, and a small one: strictly conformant *)
Lemma btree1_within_capacity_conformant :
  spec_dec_btree1 strict 8 8 1 1 32 (serialize_leaf 1 (cap_entries 64)) = Ok (spec_leaf 1 (cap_entries 64), [], []) /\
  spec_dec_btree1 strict 8 8 1 1 32 (serialize_leaf 1 (cap_entries 3)) = Ok (spec_leaf 1 (cap_entries 3), [], []).
Proof.
  split.
  - assert (W : forallb (entry_ok 1) (cap_entries 64) = true) by (vm_compute; reflexivity).
    rewrite spec_btree1_leaf_strict; [|auto using entries_ok_Forall|rewrite cap_entries_length; lia].
    rewrite cap_entries_length. reflexivity.
  - assert (W : forallb (entry_ok 1) (cap_entries 3) = true) by (vm_compute; reflexivity).
    rewrite spec_btree1_leaf_strict; [|auto using entries_ok_Forall|rewrite cap_entries_length; lia].
    rewrite cap_entries_length. reflexivity.
Qed.

(* the universal lemma agrees with plain evaluation of the decoder on the small witness *)
Example btree1_small_eval :
  spec_dec_btree1 strict 8 8 1 1 32 (serialize_leaf 1 (cap_entries 3)) =
    Ok ({| b1_type := 1; b1_level := 0; b1_n := 3; b1_left := U64MAX; b1_right := U64MAX;
           b1_keys := [[16; 0; 0]; [16; 0; 4]; [16; 0; 8]; [0; 0; U64MAX]];
           b1_children := [4096; 4112; 4128] |}, [], []).
Proof. vm_compute. reflexivity. Qed.
