(* C13 unit tie: the executable check of the hypotheses (Model/ResizeTie.v stored_ok) is sound for the invariant
   [stored] of Proofs/Resize.v. *)
From HV Require Import Base.Prelude Base.Outcome Base.Bytes Model.CodecMsg Model.CodecOhdr Model.Resize Model.ResizeTie.
From HV Require Import Proofs.ResizeBase Proofs.Resize.

Lemma bytes_eqb_true (a : list N) : forall b, bytes_eqb a b = true -> a = b.
Proof.
  unfold bytes_eqb. induction a as [|x a IH]; intros [|y b] H; cbn [list_eqb] in H; try discriminate; auto.
  apply andb_true_iff in H as [H1 H2]. apply N.eqb_eq in H1. subst. f_equal. apply IH. exact H2.
Qed.

Lemma split_ds_spec ms : forall b d a, split_ds ms = Some (b, d, a) ->
  ms = b ++ d :: a /\ no_ds b = true /\ hm_type d = MSG_DATASPACE.
Proof.
  induction ms as [|m r IH]; intros b d a H; cbn [split_ds] in H; [discriminate|].
  destruct (hm_type m =? MSG_DATASPACE) eqn:E.
  - inversion H; subst. apply N.eqb_eq in E. auto.
  - destruct (split_ds r) as [[[b' d'] a']|]; [|discriminate]. inversion H; subst.
    destruct (IH b' d a eq_refl) as (E1 & E2 & E3). subst r.
    repeat split; auto. cbn [no_ds forallb]. rewrite E. cbn [negb andb]. exact E2.
Qed.

Lemma stored_ok_sound img dims maxd : stored_ok img dims maxd = true ->
  exists flags before after suf, stored img 0 flags before after dims maxd [] suf.
Proof.
  unfold stored_ok. destruct (dec_ohdr false img 0) as [oh| |]; try discriminate.
  destruct (split_ds (map to_hmsg (ohp_msgs oh))) as [[[b d] a]|] eqn:ES; [|discriminate].
  intros H.
  apply andb_true_iff in H as [H H6]. apply andb_true_iff in H as [H H5]. apply andb_true_iff in H as [H H4].
  apply andb_true_iff in H as [H H3]. apply andb_true_iff in H as [H1 H2].
  apply split_ds_spec in ES as (EM & Hno & Hty).
  apply bytes_eqb_true in H2, H3. apply N.ltb_lt in H6.
  assert (Ed : d = ds_msg dims maxd).
  { destruct d as [ty data]. cbn [hm_type hm_data] in *. subst ty data. reflexivity. }
  subst d. rewrite EM in *.
  exists (ohp_flags oh), b, a.
  match type of H2 with firstn ?n img = ?e => exists (skipn n img) end.
  constructor; auto.
  cbn [app]. unfold hdr_of. rewrite <- H2 at 1. symmetry. apply firstn_skipn.
Qed.
