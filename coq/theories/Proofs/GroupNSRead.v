(* C03: the reader's walk over a state that represents a specification tree yields that tree (the
   visited-B-tree guard never fires because no group occurs twice in preorder), the fuel suffices, and
   the final refinement statements. *)
From HV Require Import Base.Prelude Model.GroupNS Proofs.GroupNSBase Proofs.GroupNSHeap Proofs.GroupNSPath
  Proofs.GroupNSInv Proofs.GroupNSSpec Proofs.GroupNSRefine Proofs.GroupNSSim.

Lemma NoDup_app_inv : forall A (a b : list A), NoDup (a ++ b) -> NoDup a /\ NoDup b /\ (forall x, In x a -> ~ In x b).
Proof.
  induction a as [|y a IH]; intros b H; cbn [app] in *.
  - split; [constructor|]. split; [assumption | intros x []].
  - inversion H as [|? ? Hy Hab]; subst. destruct (IH b Hab) as (A1 & A2 & A3). split; [|split; [assumption|]].
    + constructor; [|assumption]. intro X. apply Hy. apply in_or_app. left. assumption.
    + intros x [->|Hx]; [intro X; apply Hy; apply in_or_app; right; assumption | apply A3; assumption].
Qed.

(* the objects being loaded: groups, each nested in the next (ids strictly decreasing), none the root *)
Fixpoint dec_chain (l : list N) : Prop :=
  match l with
  | [] => True
  | a :: r => 1 <= a /\ match r with [] => True | b0 :: _ => b0 < a end /\ dec_chain r
  end.
Lemma dec_chain_len : forall l, dec_chain l -> match l with [] => True | a :: _ => blen l <= a end.
Proof.
  induction l as [|a r IH]; intro H; [exact Logic.I|]. cbn [dec_chain] in H. destruct H as (H1 & H2 & H3).
  specialize (IH H3). rewrite blen_cons. destruct r as [|b0 r]; [rewrite blen_nil; lia | lia].
Qed.

Section Walk.
  Variables (c : cfg) (w : wstate) (t : stree).
  Hypothesis R : Rep c w t.
  Hypothesis I : SInv t.
  Hypothesis Hdepth : s_clock t <= max_depth c.
  Local Notation T := (s_nodes t).

  Definition anc_ok (anc : list N) : Prop := (forall a, In a anc -> is_group T a) /\ dec_chain anc.

  Definition walk_eq (rec : list N -> N -> option (tree * list N)) (f : nat) (id : N) : Prop :=
    forall vis, NoDup (gpre f T id) -> (forall x, In x (gpre f T id) -> ~ In x vis) ->
      rec vis id = match unfold KGroup f T id with
                   | Some tr => Some (tr, vis ++ gpre f T id)
                   | None => None
                   end.

  Definition walk_ok (f : nat) : Prop :=
    forall id anc, alookup id T <> None -> anc_ok anc ->
      (is_group T id -> 1 <= id /\ forall a, In a anc -> a < id) ->
      walk_eq (load_object f c w anc) f id.

  Lemma kids_umap : forall f seg rec ch ents vis,
      (forall n0 c0, In (n0, c0) ch -> walk_eq rec f c0) ->
      map (name_of seg) ents = map Some (map fst ch) -> map e_obj ents = map snd ch ->
      NoDup (flat_map (fun nc => gpre f T (snd nc)) ch) ->
      (forall x, In x (flat_map (fun nc => gpre f T (snd nc)) ch) -> ~ In x vis) ->
      kids rec seg ents vis =
      match umap (unfold KGroup f T) ch with
      | Some ts => Some (ts, vis ++ flat_map (fun nc => gpre f T (snd nc)) ch)
      | None => None
      end.
  Proof.
    intros f seg rec. induction ch as [|[n0 c0] ch IH]; intros ents vis W H1 H2 Hnd Hdis;
      destruct ents as [|e ents]; try discriminate.
    - cbn [kids umap flat_map]. rewrite app_nil_r. reflexivity.
    - cbn [map fst snd] in H1, H2. injection H1 as H1a H1b. injection H2 as H2a H2b.
      cbn [flat_map snd] in Hnd, Hdis. destruct (NoDup_app_inv _ _ _ Hnd) as (Nd1 & Nd2 & Nd3).
      cbn [kids umap]. unfold name_of in H1a. rewrite H1a, H2a.
      rewrite (W n0 c0 (or_introl eq_refl) vis Nd1) by (intros x Hx; apply Hdis; apply in_or_app; left; assumption).
      destruct (unfold KGroup f T c0) as [tr|]; [|reflexivity].
      rewrite (IH ents (vis ++ gpre f T c0)); try assumption.
      + destruct (umap (unfold KGroup f T) ch) as [ts|]; [|reflexivity]. cbn [flat_map snd]. rewrite app_assoc. reflexivity.
      + intros n1 c1 X. apply (W n1 c1). right. assumption.
      + intros x Hx X. apply in_app_or in X. destruct X as [X|X].
        * apply (Hdis x); [apply in_or_app; right; assumption | assumption].
        * apply (Nd3 x X Hx).
  Qed.

  (* one group, whatever loads its members *)
  Lemma group_walk : forall f rec id ch vis, alookup id T = Some (SG ch) ->
    (forall n0 c0, In (n0, c0) ch -> walk_eq rec f c0) ->
    NoDup (gpre (S f) T id) -> (forall x, In x (gpre (S f) T id) -> ~ In x vis) ->
    load_group rec w vis id = match unfold KGroup (S f) T id with
                              | Some tr => Some (tr, vis ++ gpre (S f) T id)
                              | None => None
                              end.
  Proof.
    intros f rec id ch vis L W Hnd Hdis. cbn [unfold gpre] in *. rewrite L in *.
    unfold load_group.
    assert (Hv : nmem id vis = false) by (apply nmem_false; apply Hdis; left; reflexivity). rewrite Hv.
    destruct (r_group _ _ _ R id ch L) as (seg & ents & Hh & Hs & Hwf & Hob). rewrite Hh, Hs.
    inversion Hnd as [|? ? Hnot Hnd']; subst.
    rewrite (kids_umap f seg rec ch ents (vis ++ [id]) W (names_decode _ _ _ Hwf) Hob); try assumption.
    - destruct (umap (unfold KGroup f T) ch) as [ts|]; [|reflexivity]. rewrite <- app_assoc. reflexivity.
    - intros x Hx X. apply in_app_or in X. destruct X as [X|[->|[]]]; [apply (Hdis x); [right; assumption | assumption] | contradiction].
  Qed.

  Lemma walk_all : forall f, walk_ok f.
  Proof.
    induction f as [|f IH]; intros id anc Hid [Hanc Hdec] Hgrp vis Hnd Hdis; [reflexivity|].
    cbn [load_object].
    assert (Hb : id < s_clock t) by (apply (s_bound _ I); assumption).
    (* enterLoad: not an ancestor, not too deep *)
    assert (Hna : nmem id anc = false).
    { apply nmem_false. intro X. pose proof (Hanc id X) as G. destruct (Hgrp G) as [_ Hlt]. specialize (Hlt id X). lia. }
    assert (Hd : (max_depth c <=? blen anc) = false).
    { apply N.leb_gt. pose proof (dec_chain_len anc Hdec) as Len. destruct anc as [|a r]; [rewrite blen_nil; lia|].
      assert (a < s_clock t). { destruct (Hanc a (or_introl eq_refl)) as [cha La]. apply (s_bound _ I). rewrite La. discriminate. }
      lia. }
    rewrite Hna, Hd.
    destruct (alookup id T) as [nd|] eqn:L; [|contradiction].
    destruct (r_kind _ _ _ R id nd L) as (o & Ho & Hk). rewrite Ho, Hk.
    destruct nd as [ch| |q]; cbn [skind].
    - assert (G : is_group T id) by (exists ch; assumption). destruct (Hgrp G) as [Hpos Hlt].
      apply (group_walk f _ id ch vis L); try assumption.
      intros n0 c0 Hin. apply IH.
      + eapply (s_closed _ I); eassumption.
      + split.
        * intros a [<-|Ha]; [assumption | apply Hanc; assumption].
        * cbn [dec_chain]. split; [assumption|]. split; [|assumption]. destruct anc as [|b0 r]; [exact Logic.I | apply Hlt; left; reflexivity].
      + intros [ch0 Lc]. assert (id < c0) by (eapply (s_order _ I); eassumption). split; [lia|].
        intros a [<-|Ha]; [assumption | specialize (Hlt a Ha); lia].
    - cbn [unfold gpre]. rewrite L. rewrite app_nil_r. reflexivity.
    - cbn [unfold gpre]. rewrite L. rewrite app_nil_r. reflexivity.
  Qed.

  (* fuel: a sub-group has a larger id than its parent, and all ids are below the clock *)
  Lemma umap_total : forall soft f ch, (forall n0 c0, In (n0, c0) ch -> unfold soft f T c0 <> None) -> umap (unfold soft f T) ch <> None.
  Proof.
    intros soft f. induction ch as [|[n0 c0] ch IH]; intro H; cbn [umap]; [discriminate|].
    destruct (unfold soft f T c0) eqn:E; [|exfalso; apply (H n0 c0 (or_introl eq_refl)); assumption].
    assert (X : umap (unfold soft f T) ch <> None) by (apply IH; intros n1 c1 X; apply (H n1 c1); right; assumption).
    destruct (umap (unfold soft f T) ch); [discriminate | contradiction].
  Qed.

  Lemma unfold_total : forall soft f id, alookup id T <> None -> (N.to_nat (s_clock t - id) < f)%nat -> unfold soft f T id <> None.
  Proof.
    intros soft. induction f as [|f IH]; intros id Hid Hf; [lia|]. cbn [unfold].
    assert (Hb : id < s_clock t) by (apply (s_bound _ I); assumption).
    destruct (alookup id T) as [[ch| |q]|] eqn:L; try discriminate; [|contradiction].
    assert (X : umap (unfold soft f T) ch <> None).
    { apply umap_total. intros n0 c0 Hin.
      assert (Hc : alookup c0 T <> None) by (eapply (s_closed _ I); eassumption).
      assert (Hcb : c0 < s_clock t) by (apply (s_bound _ I); assumption).
      destruct (alookup c0 T) as [[ch0| |q0]|] eqn:Lc; [| | |contradiction].
      - apply IH; [rewrite Lc; discriminate|]. assert (id < c0) by (eapply (s_order _ I); eassumption). lia.
      - destruct f; [lia|]. cbn [unfold]. rewrite Lc. discriminate.
      - destruct f; [lia|]. cbn [unfold]. rewrite Lc. discriminate. }
    destruct (umap (unfold soft f T) ch); [discriminate | contradiction].
  Qed.

  Lemma read_tree_spec : exists tr, read_tree c w = Some tr /\ spec_tree_as KGroup t = Some tr.
  Proof.
    unfold read_tree, spec_tree_as. rewrite (r_clock _ _ _ R).
    assert (H0 : alookup 0 T <> None) by (destruct (s_root _ I) as [c0 X]; rewrite X; discriminate).
    destruct (s_root _ I) as [ch0 L0].
    rewrite (group_walk (N.to_nat (s_clock t)) _ 0 ch0 [] L0).
    - pose proof (unfold_total KGroup (S (N.to_nat (s_clock t))) 0 H0) as X.
      destruct (unfold KGroup (S (N.to_nat (s_clock t))) T 0) as [tr|]; [|exfalso; apply X; [lia | reflexivity]].
      exists tr. split; reflexivity.
    - intros n0 c0 Hin. apply walk_all.
      + eapply (s_closed _ I); eassumption.
      + split; [intros a [] | exact Logic.I].
      + intros [chc Lc]. assert (0 < c0) by (eapply (s_order _ I); eassumption). split; [lia | intros a []].
    - apply (s_tree _ I).
    - intros x _ [].
  Qed.
End Walk.

(* ---------------------------------------------------------------- histories without soft links: the reader's view is the tree itself *)
Definition no_ss (T : nodes) : Prop := forall id q, alookup id T <> Some (SS q).

Lemma unfold_no_ss : forall T a b, no_ss T -> forall f id, unfold a f T id = unfold b f T id.
Proof.
  intros T a b H. induction f as [|f IH]; intro id; [reflexivity|]. cbn [unfold].
  destruct (alookup id T) as [[ch| |q]|] eqn:L; try reflexivity; [|exfalso; apply (H id q); assumption].
  assert (X : umap (unfold a f T) ch = umap (unfold b f T) ch).
  { clear L. induction ch as [|[n0 c0] ch IHc]; [reflexivity|]. cbn [umap]. rewrite IH, IHc. reflexivity. }
  rewrite X. reflexivity.
Qed.

Lemma s_link_nodes : forall c T cs child T', s_link c T cs child = (Some T', Ok) ->
  exists g ch n, T' = aset g (SG (ch ++ [(n, child)])) T.
Proof.
  intros c T cs child T'. unfold s_link. destruct (unsnoc cs) as [[pcs n]|]; [|discriminate].
  destruct (sresolve T 0 pcs) as [g|]; [|discriminate]. destruct (alookup g T) as [[ch| |]|]; try discriminate.
  destruct (clookup n ch); [discriminate|]. destruct (_ <? _); [discriminate|]. destruct (_ <=? _); [discriminate|].
  intro H. inversion H; subst. eauto.
Qed.

Lemma no_ss_step : forall c t o, (match o with SoftLink _ _ => false | _ => true end) = true ->
  no_ss (s_nodes t) -> no_ss (s_nodes (fst (spec_step c t o))).
Proof.
  intros c t o Ho H.
  assert (K : forall p nd, (forall q, nd <> SS q) -> no_ss (s_nodes (fst (s_create c t p nd)))).
  { intros p nd Hnd. unfold s_create. destruct (split_path p) as [cs|]; [|exact H].
    destruct (s_link c (s_nodes t) cs (s_clock t)) as [[T'|] r] eqn:E; [|exact H].
    destruct (s_link_res c (s_nodes t) cs (s_clock t)) as [(x & E')|(x & E')]; rewrite E' in E; inversion E; subst.
    destruct (s_link_nodes _ _ _ _ _ E') as (g & ch & n & ->). cbn [fst s_tick s_nodes].
    intros id q. rewrite !alookup_aset. destruct (s_clock t =? id); [intro X; inversion X; subst; eapply Hnd; reflexivity|].
    destruct (g =? id); [discriminate | apply H]. }
  destruct o as [p|p|p q|p q]; cbn [spec_step]; try discriminate.
  - apply K. discriminate.
  - apply K. discriminate.
  - destruct (split_path p) as [cs|]; [|exact H]. destruct (split_path q) as [qcs|]; [|exact H].
    destruct (sresolve (s_nodes t) 0 qcs) as [tgt|]; [|exact H].
    destruct (s_link c (s_nodes t) cs tgt) as [[T'|] r] eqn:E; [|exact H].
    destruct (s_link_res c (s_nodes t) cs tgt) as [(x & E')|(x & E')]; rewrite E' in E; inversion E; subst.
    destruct (s_link_nodes _ _ _ _ _ E') as (g & ch & n & ->). cbn [fst s_tick s_nodes].
    intros id q0. rewrite alookup_aset. destruct (g =? id); [discriminate | apply H].
Qed.

Lemma no_ss_run : forall c h t, no_soft h = true -> no_ss (s_nodes t) -> no_ss (s_nodes (fst (run (spec_step c) t h))).
Proof.
  intros c h. induction h as [|o h IH]; intros t Hs H; [assumption|].
  cbn [no_soft forallb] in Hs. apply andb_true_iff in Hs. destruct Hs as [H1 H2].
  pose proof (no_ss_step c t o H1 H) as X. cbn [run]. destruct (spec_step c t o) as [t1 r1]. cbn [fst] in X.
  specialize (IH t1 H2 X). destruct (run (spec_step c) t1 h) as [t2 rs]. assumption.
Qed.

(* ---------------------------------------------------------------- the refinement theorems *)
Lemma spec_step_clock : forall c t o, s_clock (fst (spec_step c t o)) = s_clock t + 1.
Proof.
  intros c t o.
  assert (K : forall p nd, s_clock (fst (s_create c t p nd)) = s_clock t + 1).
  { intros p nd. unfold s_create. destruct (split_path p); [|reflexivity].
    destruct (s_link c (s_nodes t) l (s_clock t)) as [[x|] r]; reflexivity. }
  destruct o as [p|p|p q|p q]; cbn [spec_step]; try apply K.
  - destruct (split_path p); [|reflexivity]. destruct (split_path q); [|reflexivity].
    destruct (sresolve (s_nodes t) 0 l0); [|reflexivity]. destruct (s_link c (s_nodes t) l n) as [[x|] r]; reflexivity.
  - destruct (negb (validate_soft_target q)); [reflexivity|]. destruct (split_path p); [|reflexivity].
    destruct (unsnoc l) as [[i n]|]; [|reflexivity]. destruct (_ <? _); [reflexivity | apply K].
Qed.
Lemma spec_run_clock : forall c h t, s_clock (fst (run (spec_step c) t h)) = s_clock t + blen h.
Proof.
  intros c h. induction h as [|o h IH]; intro t; [cbn [run fst]; rewrite blen_nil; lia|].
  cbn [run]. pose proof (spec_step_clock c t o) as X. destruct (spec_step c t o) as [t1 r1]. cbn [fst] in X.
  specialize (IH t1). destruct (run (spec_step c) t1 h) as [t2 rs]. cbn [fst] in *. rewrite IH, X, blen_cons. lia.
Qed.

(* not_too_deep: the reader follows at most max_depth nested groups (1024); a history of fewer calls
   cannot nest deeper *)
Definition not_too_deep (c : cfg) (h : list op) : bool := blen h <? max_depth c.

Theorem refines_reader_view : forall c h, adm c s_empty h = true -> not_too_deep c h = true ->
  map is_ok (snd (run (step c) (init c) h)) = map is_ok (snd (run (spec_step c) s_empty h)) /\
  exists tr, read_tree c (fst (run (step c) (init c) h)) = Some tr /\
             spec_tree_as KGroup (fst (run (spec_step c) s_empty h)) = Some tr.
Proof.
  intros c h A D. destruct (run_sim c h (init c) s_empty (rep_init c) sinv_empty A) as (H1 & H2 & H3).
  split; [assumption|]. eapply read_tree_spec; try eassumption.
  rewrite spec_run_clock. cbn [s_empty s_clock]. unfold not_too_deep in D. apply N.ltb_lt in D. lia.
Qed.

Theorem refines : forall c h, adm c s_empty h = true -> no_soft h = true -> not_too_deep c h = true ->
  map is_ok (snd (run (step c) (init c) h)) = map is_ok (snd (run (spec_step c) s_empty h)) /\
  exists tr, read_tree c (fst (run (step c) (init c) h)) = Some tr /\
             spec_tree (fst (run (spec_step c) s_empty h)) = Some tr.
Proof.
  intros c h A S D. destruct (refines_reader_view c h A D) as (H1 & tr & H2 & H3). split; [assumption|].
  exists tr. split; [assumption|]. unfold spec_tree, spec_tree_as in *. rewrite <- H3. apply unfold_no_ss.
  apply no_ss_run; [assumption|]. intros id q. cbn [s_empty s_nodes alookup]. destruct (0 =? id); discriminate.
Qed.
