(* C09 at file level: the arithmetic of Model/IOProgSlice.v (index-based, uint64) agrees with that of
   Model/Hyperslab.v (structural, unbounded N) on valid selections of datasets with fewer than 2^32 elements. *)
From HV Require Import Base.Prelude Base.Outcome Base.Bytes Model.IOProg Model.IOProgReader Model.IOProgSlice Model.SliceRefine.
From HV Require Proofs.HyperslabBase.

Local Notation dflt := (Hs.mkAxis 0 0 0 0).

Lemma w64_small x : x < 18446744073709551616 -> wrap64 x = x.
Proof. intros. unfold wrap64. apply N.mod_small. assumption. Qed.

(* ------------------------------------------------------------------ 6: the zipped list, by index *)
Lemma nth_zip4 : forall st c sr b i,
  length c = length st -> length sr = length st -> length b = length st -> (i < length st)%nat ->
  nth i (Hs.zip4 st c sr b) dflt = Hs.mkAxis (nth i st 0) (nth i c 0) (nth i sr 0) (nth i b 0).
Proof.
  induction st as [|x st IH]; intros c sr b i Hc Hs Hb Hi; [cbn in Hi; lia|].
  destruct c, sr, b; cbn [length] in *; try lia.
  destruct i; cbn [Hs.zip4 nth]; [reflexivity|]. apply IH; lia.
Qed.

Lemma zip4_length : forall st c sr b,
  length c = length st -> length sr = length st -> length b = length st ->
  length (Hs.zip4 st c sr b) = length st.
Proof.
  induction st as [|x st IH]; intros c sr b Hc Hs Hb; [reflexivity|].
  destruct c, sr, b; cbn [length] in *; try lia.
  cbn [Hs.zip4 length]. f_equal. apply IH; lia.
Qed.

Lemma nth_axes_of_sel s n i : sel_lens s n -> (i < n)%nat ->
  nth i (axes_of_sel s) (Hs.mkAxis 0 0 0 0) =
  Hs.mkAxis (nthN (start s) i) (nthN (count s) i) (nthN (stride s) i) (nthN (block s) i).
Proof.
  intros (H1 & H2 & H3 & H4) Hi. unfold axes_of_sel, nthN. apply nth_zip4; lia.
Qed.

Lemma axes_of_sel_length s n : sel_lens s n -> length (axes_of_sel s) = n.
Proof.
  intros (H1 & H2 & H3 & H4). unfold axes_of_sel. rewrite zip4_length; lia.
Qed.

(* ------------------------------------------------------------------ 2: the linear offset *)
Lemma rev_seq_S n : rev (seq 0 (S n)) = map S (rev (seq 0 n)) ++ [0%nat].
Proof. cbn [seq rev]. rewrite <- seq_shift, map_rev. reflexivity. Qed.

Lemma lin_off_gen : forall coords dims,
  length coords = length dims -> Forall2 N.lt coords dims -> Hs.prodN dims < 18446744073709551616 ->
  fold_left (fun os i => (wrap64 (fst os + wrap64 (nth i coords 0 * snd os)), wrap64 (snd os * nth i dims 0)))
            (rev (seq 0 (length coords))) (0, 1) = Hs.lin_go coords dims.
Proof.
  induction coords as [|c cs IH]; intros [|d ds] Hl HF Hp; cbn [length] in Hl; try discriminate; [reflexivity|].
  cbn [length]. rewrite rev_seq_S, fold_left_app, HyperslabBase.fold_left_map.
  inversion HF; subst. cbn [nth Hs.prodN] in *.
  assert (Hd : 1 <= d) by lia.
  pose proof (HyperslabBase.lin_bound ds cs ltac:(assumption)) as Hb.
  assert (Hpp : 1 <= Hs.prodN ds) by lia.
  rewrite IH; [|lia|assumption|nia].
  cbn [fold_left Hs.lin_go].
  rewrite HyperslabBase.lin_go_spec by lia.
  cbn [fst snd].
  rewrite (w64_small (c * _)) by nia.
  rewrite !w64_small by nia. reflexivity.
Qed.

Lemma lin_off_eq coords dims : length coords = length dims -> Forall2 N.lt coords dims ->
  Hs.prodN dims < 18446744073709551616 -> lin_off coords dims = Hs.calc_lin coords dims.
Proof.
  intros Hl HF Hp. unfold lin_off, Hs.calc_lin, idxs, nthN. rewrite lin_off_gen by assumption. reflexivity.
Qed.

(* ------------------------------------------------------------------ what validity gives per dimension *)
Lemma valid_nth ax dims : Hs.axes_valid ax dims ->
  1 <= Hs.prodN dims /\
  forall i, (i < length dims)%nat -> Hs.axis_valid (nth i ax dflt) (nth i dims 0) /\ nth i dims 0 <= Hs.prodN dims.
Proof.
  induction 1 as [|a d ax dims Ha Hv [IH1 IH2]].
  - split; [cbn; lia|]. intros i Hi. cbn in Hi. lia.
  - cbn [Hs.prodN]. assert (1 <= d) by (unfold Hs.axis_valid in Ha; lia). split; [nia|].
    intros [|i] Hi; cbn [nth length] in *.
    + split; [assumption|nia].
    + destruct (IH2 i ltac:(lia)). split; [assumption|nia].
Qed.

Lemma idx_facts s dims i :
  sel_lens s (length dims) -> Hs.axes_valid (axes_of_sel s) dims -> Hs.prodN dims < 4294967296 ->
  (i < length dims)%nat ->
  0 < nthN (count s) i /\ 0 < nthN (stride s) i /\ 0 < nthN (block s) i /\
  nthN (start s) i + (nthN (count s) i - 1) * nthN (stride s) i + nthN (block s) i <= nthN dims i /\
  nthN dims i < 4294967296.
Proof.
  intros Hl Hv Hp Hi. destruct (valid_nth _ _ Hv) as [_ H]. destruct (H i Hi) as [Ha Hd].
  rewrite (nth_axes_of_sel s (length dims)) in Ha by assumption.
  unfold Hs.axis_valid in Ha. cbn [Hs.a_start Hs.a_count Hs.a_stride Hs.a_block] in Ha.
  change (nthN dims i) with (nth i dims 0). lia.
Qed.

Lemma map_nth_seq {A B} (g : A -> B) (d : A) (l : list A) :
  map (fun i => g (nth i l d)) (seq 0 (length l)) = map g l.
Proof.
  induction l as [|x l IH]; [reflexivity|].
  cbn [length seq map nth]. f_equal. rewrite <- seq_shift, map_map. exact IH.
Qed.

(* ------------------------------------------------------------------ 5: the last selected element, relative *)
Lemma w64_dec x : 1 <= x < 18446744073709551616 -> wrap64 (x + 18446744073709551615) = x - 1.
Proof. intros. unfold wrap64. lia. Qed.

Lemma last_rel_eq s dims :
  sel_lens s (length dims) -> Hs.axes_valid (axes_of_sel s) dims -> Hs.prodN dims < 4294967296 ->
  map (fun i => wrap64 (wrap64 (wrap64 ((nthN (count s) i - 1) * nthN (stride s) i) + nthN (block s) i) + 18446744073709551615))
      (idxs dims) = Hs.last_rel (axes_of_sel s).
Proof.
  intros Hl Hv Hp. unfold Hs.last_rel, idxs.
  rewrite <- (map_nth_seq _ dflt), (axes_of_sel_length s (length dims)) by assumption.
  apply map_ext_in. intros i Hi. apply in_seq in Hi.
  rewrite (nth_axes_of_sel s (length dims)) by (assumption || lia).
  cbn [Hs.a_start Hs.a_count Hs.a_stride Hs.a_block].
  destruct (idx_facts s dims i Hl Hv Hp ltac:(lia)) as (H1 & H2 & H3 & H4 & H5).
  rewrite (w64_small (_ * _)) by nia.
  rewrite (w64_small (_ + nthN (block s) i)) by nia.
  apply w64_dec. nia.
Qed.

(* ------------------------------------------------------------------ 4: the selected indices of one dimension *)
Lemma nseq_gen : forall k a, map N.of_nat (seq a k) = Hs.nseq (N.of_nat a) k.
Proof.
  induction k as [|k IH]; intros a; [reflexivity|].
  cbn [seq map Hs.nseq]. f_equal. rewrite IH. apply HyperslabBase.nseq_ext. lia.
Qed.
Lemma nseq_nrange n : nseq n = Hs.nrange n.
Proof. unfold nseq, Hs.nrange. apply nseq_gen. Qed.

Lemma flat_map_single {A B} (h : A -> B) (l : list A) : flat_map (fun x => [h x]) l = map h l.
Proof. induction l as [|x l IH]; [reflexivity|]. cbn [flat_map map app]. rewrite IH. reflexivity. Qed.

Lemma sel_idx_eq s dims i :
  sel_lens s (length dims) -> Hs.axes_valid (axes_of_sel s) dims -> Hs.prodN dims < 4294967296 ->
  (i < length dims)%nat ->
  sel_idx s dims i = Hs.axis_idx (nth i (axes_of_sel s) (Hs.mkAxis 0 0 0 0)).
Proof.
  intros Hl Hv Hp Hi.
  rewrite (nth_axes_of_sel s (length dims)) by assumption.
  unfold sel_idx, Hs.axis_idx. cbn [Hs.a_start Hs.a_count Hs.a_stride Hs.a_block].
  destruct (idx_facts s dims i Hl Hv Hp Hi) as (H1 & H2 & H3 & H4 & H5).
  rewrite !nseq_nrange.
  apply HyperslabBase.flat_map_ext_in. intros c Hc. apply HyperslabBase.in_nrange in Hc.
  rewrite <- flat_map_single.
  apply HyperslabBase.flat_map_ext_in. intros b Hb. apply HyperslabBase.in_nrange in Hb.
  assert (Hcs : c * nthN (stride s) i <= (nthN (count s) i - 1) * nthN (stride s) i) by nia.
  rewrite (w64_small (c * _)) by lia.
  rewrite (w64_small (nthN (start s) i + _)) by lia.
  rewrite w64_small by lia.
  destruct (N.leb_spec (nthN dims i) (nthN (start s) i + c * nthN (stride s) i + b)); [lia|reflexivity].
Qed.

(* ------------------------------------------------------------------ index folds as list folds *)
Lemma nth_seq_id {A} (d : A) (l : list A) : map (fun i => nth i l d) (seq 0 (length l)) = l.
Proof. rewrite (map_nth_seq (fun x => x)). apply map_id. Qed.

Lemma fold_nth_seq {A S} (f : S -> A -> S) (d : A) (l : list A) (init : S) :
  fold_left (fun t i => f t (nth i l d)) (seq 0 (length l)) init = fold_left f l init.
Proof. rewrite <- (HyperslabBase.fold_left_map f (fun i => nth i l d)), nth_seq_id. reflexivity. Qed.

Lemma fold_nth_seq_rev {A S} (f : S -> A -> S) (d : A) (l : list A) (init : S) :
  fold_left (fun t i => f t (nth i l d)) (rev (seq 0 (length l))) init = fold_left f (rev l) init.
Proof. rewrite <- (HyperslabBase.fold_left_map f (fun i => nth i l d)), map_rev, nth_seq_id. reflexivity. Qed.

(* ------------------------------------------------------------------ 1: the output size *)
Definition osz (t : N) (a : Hs.axis) : N :=
  wrap64 (t * wrap64 (Hs.a_count a * (if Hs.a_block a =? 0 then 1 else Hs.a_block a))).

Lemma osz_nowrap ax dims : Hs.axes_valid ax dims -> forall t, 1 <= t ->
  t * (Hs.prodN dims * Hs.prodN dims) < 18446744073709551616 ->
  fold_left osz ax t =
  fold_left (fun t a => t * (Hs.a_count a * (if Hs.a_block a =? 0 then 1 else Hs.a_block a))) ax t.
Proof.
  induction 1 as [|a d ax dims Ha Hv IH]; intros t Ht Hb; [reflexivity|].
  cbn [fold_left]. unfold osz at 2.
  destruct (valid_nth _ _ Hv) as [HP _]. cbn [Hs.prodN] in Hb.
  destruct Ha as (H1 & H2 & H3 & H4).
  set (c := Hs.a_count a) in *. set (b := Hs.a_block a) in *. set (P := Hs.prodN dims) in *.
  destruct (N.eqb_spec b 0) as [|_]; [lia|].
  assert (Hc : c <= d) by nia. assert (Hbd : b <= d) by lia.
  assert (Hcb : c * b <= d * d) by nia.
  assert (HtP : 1 <= t * (P * P)) by nia.
  assert (Hdd : t * (c * b) * (P * P) <= t * (d * P * (d * P))) by nia.
  assert (Hcb1 : 1 <= c * b) by nia.
  assert (HPP : 1 <= P * P) by nia.
  rewrite (w64_small (c * b)) by nia.
  rewrite (w64_small (t * _)) by nia.
  apply IH; nia.
Qed.

Lemma out_size_eq s dims :
  sel_lens s (length dims) -> Hs.axes_valid (axes_of_sel s) dims -> Hs.prodN dims < 4294967296 ->
  dims <> [] -> out_size s = Hs.out_elems (axes_of_sel s).
Proof.
  intros Hl Hv Hp Hne. pose proof (axes_of_sel_length s _ Hl) as Hlen.
  assert (Hfold : fold_left (fun t i =>
                     wrap64 (t * wrap64 (nthN (count s) i * (if nthN (block s) i =? 0 then 1 else nthN (block s) i))))
                     (idxs (count s)) 1
                  = fold_left (fun t a => t * (Hs.a_count a * (if Hs.a_block a =? 0 then 1 else Hs.a_block a)))
                              (axes_of_sel s) 1).
  { rewrite <- (osz_nowrap _ _ Hv) by nia.
    rewrite <- (fold_nth_seq osz dflt). unfold idxs.
    replace (length (count s)) with (length (axes_of_sel s)) by (destruct Hl as (_ & -> & _); exact Hlen).
    apply HyperslabBase.fold_left_ext_in. intros t i Hi. apply in_seq in Hi.
    rewrite (nth_axes_of_sel s (length dims)) by (assumption || lia). reflexivity. }
  unfold out_size, Hs.out_elems. rewrite Hfold.
  destruct Hl as (_ & Hc & _).
  destruct (count s); [destruct dims; [congruence|discriminate]|].
  destruct (axes_of_sel s); [destruct dims; [congruence|discriminate]|]. reflexivity.
Qed.

(* ------------------------------------------------------------------ 3: the contiguity test *)
Definition cg (st : bool * bool) (p : Hs.axis * N) : bool * bool :=
  let (a, d) := p in
  match st with
  | (false, _) => st
  | (true, false) => (((Hs.a_count a =? 1) && (Hs.a_block a =? 1)), false)
  | (true, true) =>
      if negb (Hs.a_count a =? 1) && negb (Hs.a_stride a =? Hs.a_block a) then (false, true)
      else (true, (Hs.a_start a =? 0) && (wrap64 (Hs.a_count a * Hs.a_block a) =? d))
  end.

Lemma contig_sim ax dims : Hs.axes_valid ax dims -> Hs.prodN dims < 4294967296 ->
  fst (fold_left cg (rev (combine ax dims)) (true, true)) = fst (Hs.contig_go ax dims) /\
  (fst (fold_left cg (rev (combine ax dims)) (true, true)) = true ->
   snd (fold_left cg (rev (combine ax dims)) (true, true)) = snd (Hs.contig_go ax dims)).
Proof.
  induction 1 as [|a d ax dims Ha Hv IH]; intros Hp; [cbn; auto|].
  cbn [combine rev]. rewrite fold_left_app. cbn [fold_left Hs.contig_go].
  destruct (valid_nth _ _ Hv) as [HP _]. cbn [Hs.prodN] in Hp.
  destruct Ha as (H1 & H2 & H3 & H4).
  destruct IH as [IH1 IH2]; [nia|].
  unfold cg at 1 3 5.
  assert (Hd : d < 4294967296) by nia.
  assert (Hc : Hs.a_count a <= d) by nia. assert (Hb : Hs.a_block a <= d) by lia.
  rewrite (w64_small (Hs.a_count a * Hs.a_block a)) by nia.
  destruct (fold_left cg (rev (combine ax dims)) (true, true)) as [[|] r2];
    destruct (Hs.contig_go ax dims) as [[|] m2]; cbn [fst snd] in *; try discriminate;
    [|cbn; intuition congruence].
  rewrite IH2 by reflexivity.
  destruct m2; cbn [negb];
    destruct (Hs.a_count a =? 1), (Hs.a_block a =? 1), (Hs.a_stride a =? Hs.a_block a),
             (Hs.a_start a =? 0), (Hs.a_count a * Hs.a_block a =? d); cbn; intuition congruence.
Qed.

Lemma is_contig_eq s dims :
  sel_lens s (length dims) -> Hs.axes_valid (axes_of_sel s) dims -> Hs.prodN dims < 4294967296 ->
  is_contig s dims = Hs.is_contiguous_selection (axes_of_sel s) dims.
Proof.
  intros Hl Hv Hp. pose proof (axes_of_sel_length s _ Hl) as Hlen.
  unfold is_contig, Hs.is_contiguous_selection.
  rewrite <- (proj1 (contig_sim _ _ Hv Hp)). f_equal.
  rewrite <- (fold_nth_seq_rev cg (dflt, 0)). unfold idxs.
  rewrite combine_length, Hlen, Nat.min_id.
  apply HyperslabBase.fold_left_ext_in. intros st i Hi. apply in_rev, in_seq in Hi.
  rewrite combine_nth by lia.
  rewrite (nth_axes_of_sel s (length dims)) by (assumption || lia). reflexivity.
Qed.

Print Assumptions nth_axes_of_sel.
Print Assumptions axes_of_sel_length.
Print Assumptions lin_off_eq.
Print Assumptions last_rel_eq.
Print Assumptions sel_idx_eq.
Print Assumptions out_size_eq.
Print Assumptions is_contig_eq.
