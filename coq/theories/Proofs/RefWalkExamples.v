(* C06 - the hypotheses of Props/C06Walk.v are satisfiable: the STRICT whole-file walk accepts a file written by the reference
   library (testdata/hdf5_official/h5clear_sec2_v3.h5, 195 bytes: superblock version 3, a new-style root group without links), and
   the tolerant walk returns the identical result with no deviation tag. *)
From HV Require Import Base.Prelude Base.Outcome Base.Bytes Spec.Parse Spec.Walk Proofs.WalkTol.

Definition ref_h5clear_sec2_v3 : bytes := concat (map unhex [
  "894844460d0a1a0a030808050000000000000000ffffffffffffffffc3000000000000003000000000000000278cb9934f4844520220f51ec058f51e"%string;
  "c058f51ec058f51ec05878021200000000ffffffffffffffffffffffffffffffff0a0200010000005800000000000000000000000000000000000000"%string;
  "000000000000000000000000000000000000000000000000000000000000000000000000000000000000000000000000000000000000000000000000"%string;
  "0000000000000000000000c6c11138"%string]).

Example strict_accepts_reference_file :
  match walk wstrict default_fuel ref_h5clear_sec2_v3 with
  | Ok r => (map os_path (wr_tree r), map os_kind (wr_tree r), wr_tags r, wr_version r) = ([[47]], [1], [], 3)
  | _ => False
  end.
Proof. vm_compute. reflexivity. Qed.

Example tolerant_same_result :
  walk wtolerant default_fuel ref_h5clear_sec2_v3 = walk wstrict default_fuel ref_h5clear_sec2_v3.
Proof. vm_compute. reflexivity. Qed.

(* a file the strict walk rejects with a reason: the same bytes with the superblock checksum damaged *)
Example strict_rejects_with_reason :
  walk_code wstrict default_fuel (firstn 44 ref_h5clear_sec2_v3 ++ [0] ++ skipn 45 ref_h5clear_sec2_v3) = 10.
Proof. vm_compute. reflexivity. Qed.
