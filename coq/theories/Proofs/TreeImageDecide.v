(* C03 end to end, depth 1: WHEN linkToParent into the root of a flat image accepts.  For a file whose root segment and node
   agree with the name list [ns] (gwf), prepareLink answers Ok exactly when the name is well-formed, not in [ns], fits the 256-byte
   heap behind the names already there, and the node has fewer than 32 entries - the rule of the specification's s_link - and then
   linkToParent itself succeeds (the branch "allocated but not linked" is unreachable). *)
From HV Require Import Base.Prelude Base.Outcome Base.Bytes Model.RobustAlloc Model.RobustGroup Model.GroupWire.
From HV Require Import Model.CodecSuper Model.CodecOhdr Model.IOProgOpen.
From HV Require Import Proofs.GroupWireHeap Proofs.GroupWireSnod.
From HV Require Import Model.FileImage Model.TreeImage Proofs.FileImage.
From HV Require Import Proofs.TreeImageLink Proofs.TreeImagePlaced Proofs.TreeImageFlat.
From HV Require Model.GroupNS Proofs.GroupNSBase Proofs.GroupNSHeap.

Local Open Scope N_scope.

(* the acceptance rule on a name list *)
Definition d1_accept (ns : list bytes) (nm : bytes) : bool :=
  negb (existsb (bytes_eqb nm) ns) && (blen (GH.enc ns) + blen nm + 1 <=? 256) && (N.of_nat (length ns) <? 32).

Lemma bool_eq_iff (a b : bool) : (a = true <-> b = true) -> a = b.
Proof. destruct a, b; intros [H1 H2]; auto; try (symmetry; now apply H1); now apply H2. Qed.

Lemma existsb_eqb_In nm (ns : list bytes) : existsb (bytes_eqb nm) ns = true <-> In nm ns.
Proof.
  rewrite existsb_exists. split.
  - intros (x & Hx & E). apply HV.Proofs.GroupNSBase.bytes_eqb_eq in E. now subst.
  - intros H. exists nm. split; [exact H | apply HV.Proofs.GroupNSBase.bytes_eqb_refl].
Qed.

Section Root.
Variable st : tstate.
Variables (seg : list N) (s : snode) (rest : list item) (ns : list bytes).
Hypothesis Hf : t_file st = image (flat_lay seg s rest).
Hypothesis Hs : blen seg = 256.
Hypothesis Hok : snode_ok s = true.
Hypothesis Hm : (length (stn_entries s) <= 32)%nat.
Hypothesis Hg : GH.gwf seg (map abs_sym (stn_entries s)) ns.
Variable parent : bytes.
Hypothesis Hroot : NS.is_root_parent parent = true.

Lemma root_load : load_local_heap (t_file st) 48 8 8 = Ok seg.
Proof.
  rewrite Hf, (flat_image_group_file seg s rest Hs). unfold group_file. change 48 with (blen sb0).
  apply load_heap_file. rewrite Hs, MaxInt64_val. change (blen sb0) with 48. blia.
Qed.
Lemma root_parse : parse_snod (t_file st) 336 8 = Ok s.
Proof.
  rewrite Hf, (flat_image_group_file seg s rest Hs), group_file_split, app_nil_r.
  replace 336 with (blen (sb0 ++ heap_header (blen seg) 1 (blen sb0 + 32) ++ seg))
    by (rewrite !blen_app, blen_heap_header, Hs; reflexivity).
  apply (parse_snod_bytes s 32 _ _ Hok Hm). rewrite !blen_app, blen_heap_header, Hs, MaxInt64_val. change (blen sb0) with 48. blia.
Qed.

Lemma names_len : length ns = length (stn_entries s).
Proof. pose proof (GH.gwf_length _ _ _ Hg) as H. rewrite map_length in H. symmetry. exact H. Qed.

Lemma prepare_root_eq nm child :
  prepare_link st parent nm child = if NS.heap_name_ok nm && d1_accept ns nm then Ok (48, 336) else Err.
Proof.
  unfold prepare_link. destruct (NS.heap_name_ok nm) eqn:Hn; cbn [negb andb]; [|reflexivity].
  unfold parent_addrs. rewrite Hroot. change HEAP_ADDR with 48. change SNOD_ADDR with 336.
  rewrite root_load, root_parse. cbn [obind].
  rewrite existsb_abs.
  assert (Ed : existsb (NS.entry_has_name seg nm) (map abs_sym (stn_entries s)) = existsb (bytes_eqb nm) ns).
  { apply bool_eq_iff. rewrite (GH.dup_check_iff _ _ _ nm Hg). symmetry. apply existsb_eqb_In. }
  rewrite Ed. unfold d1_accept. destruct (existsb (bytes_eqb nm) ns) eqn:Edup; cbn [negb andb]; [reflexivity|].
  assert (Hnin : ~ In nm ns) by (intros Hin; apply existsb_eqb_In in Hin; congruence).
  assert (Hhn : GH.hname_ok nm) by (now apply GH.heap_name_ok_iff).
  destruct (GH.heap_link seg (map abs_sym (stn_entries s)) ns nm Hg Hhn Hnin) as [HN HS].
  pose proof (abs_add_string (prepare_for_modification seg) nm) as A. rewrite abs_prepare in A.
  change (NS.blen seg) with (blen seg) in HN. change (NS.blen (GH.enc ns)) with (blen (GH.enc ns)) in HN.
  change (NS.blen nm) with (blen nm) in HN. rewrite Hs in HN.
  destruct (blen (GH.enc ns) + blen nm + 1 <=? 256) eqn:Eh.
  - apply N.leb_le in Eh.
    destruct (NS.add_string (NS.prepare_for_modification seg) nm) as [[off h1]|] eqn:EA; [|pose proof (proj1 HN eq_refl); blia].
    destruct (add_string (prepare_for_modification seg) nm) as [[off' h']| |]; cbn [omap of_option] in A; try discriminate.
    cbn [obind]. cbv beta iota.
    destruct (snode_ok_spec s Hok) as (_ & Hnum & _ & _ & _).
    pose proof (abs_add_entry s (new_sym off' child) Hnum) as B. rewrite (abs_parse s Hok) in B.
    unfold NS.add_entry, NS.parse_snod in B. cbn [NS.sn_cap NS.sn_entries] in B. unfold NS.blen in B. rewrite map_length in B.
    rewrite names_len. cbn [andb].
    destruct (N.of_nat (length (stn_entries s)) <? 32) eqn:El.
    + apply N.ltb_lt in El.
      replace (N.max 32 (N.of_nat (length (stn_entries s))) <=? N.of_nat (length (stn_entries s))) with false in B
        by (symmetry; apply N.leb_gt; lia).
      destruct (add_entry s (new_sym off' child)) as [s'| |]; cbn [omap of_option] in B; try discriminate. reflexivity.
    + apply N.ltb_ge in El.
      replace (N.max 32 (N.of_nat (length (stn_entries s))) <=? N.of_nat (length (stn_entries s))) with true in B
        by (symmetry; apply N.leb_le; lia).
      destruct (add_entry s (new_sym off' child)) as [s'| |]; cbn [omap of_option] in B; try discriminate. reflexivity.
  - apply N.leb_gt in Eh. cbn [andb].
    assert (EA : NS.add_string (NS.prepare_for_modification seg) nm = None) by (apply HN; blia).
    rewrite EA in A. destruct (add_string (prepare_for_modification seg) nm) as [[off' h']| |]; cbn [omap of_option] in A; try discriminate.
    reflexivity.
Qed.

(* when prepareLink accepts, linkToParent succeeds *)
Lemma link_root_ok nm oa : NS.heap_name_ok nm = true -> d1_accept ns nm = true -> oa < 18446744073709551616 ->
  exists f2, link_to_parent st parent nm oa = Ok f2.
Proof.
  intros Hn Ha Hoa. unfold link_to_parent. rewrite prepare_root_eq, Hn, Ha. cbn [andb obind]. cbv beta iota.
  unfold d1_accept in Ha. apply andb_true_iff in Ha as [Ha Hl]. apply andb_true_iff in Ha as [Hd Hh].
  apply negb_true_iff in Hd. apply N.leb_le in Hh. apply N.ltb_lt in Hl.
  assert (Hnin : ~ In nm ns) by (intros Hin; apply existsb_eqb_In in Hin; congruence).
  assert (Hhn : GH.hname_ok nm) by (now apply GH.heap_name_ok_iff).
  destruct (GH.heap_link seg (map abs_sym (stn_entries s)) ns nm Hg Hhn Hnin) as [HN _].
  change (NS.blen seg) with (blen seg) in HN. change (NS.blen (GH.enc ns)) with (blen (GH.enc ns)) in HN.
  change (NS.blen nm) with (blen nm) in HN. rewrite Hs in HN.
  change (exists f2, link_both (t_file st) 48 336 nm oa = Ok f2).
  rewrite Hf, (flat_image_group_file seg s rest Hs).
  pose proof (link_both_commutes sb0 [] (bt_block 336 ++ hb0 ++ layout 2195 rest) seg s nm oa Hok Hm Hoa) as C.
  change (blen sb0) with 48 in C. rewrite Hs in C. change (blen []) with 0 in C. change (48 + 32 + 256 + 0) with 336 in C.
  specialize (C ltac:(rewrite MaxInt64_val; blia)). cbv zeta in C.
  destruct (NS.add_string (NS.prepare_for_modification seg) nm) as [[off h1]|] eqn:EA; [|pose proof (proj1 HN eq_refl); blia].
  destruct C as [_ C].
  destruct (NS.add_entry (NS.parse_snod 32 (map abs_sym (stn_entries s))) {| NS.e_off := off; NS.e_obj := oa |}) as [n1|] eqn:EE.
  - destruct C as (s1 & _ & _ & _ & C). eexists. exact C.
  - exfalso. unfold NS.add_entry, NS.parse_snod in EE. cbn [NS.sn_cap NS.sn_entries] in EE. unfold NS.blen in EE.
    rewrite map_length in EE. rewrite names_len in Hl.
    destruct (N.max 32 (N.of_nat (length (stn_entries s))) <=? N.of_nat (length (stn_entries s))) eqn:E; [|discriminate].
    apply N.leb_le in E. lia.
Qed.
End Root.
