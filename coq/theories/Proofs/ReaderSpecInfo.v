(* C06, reader against specification: the link info message (0x0002) and the attribute info message (0x0015).
   Link info: for every byte string the strict specification decoder accepts, ParseLinkInfoMessage (Model/CodecLink.v
   dec_linkinfo) returns an error or the same flags, maximum creation index, fractal heap address, name B-tree address and
   creation order B-tree address.
   Attribute info: the same statement holds for a message without trailing padding; ParseAttributeInfoMessage skips FOUR
   bytes for the 2-byte maximum creation index, so with flag bit 0 set an exactly-sized message is an error, and a message
   followed by zero padding is decoded to other addresses (attrinfo_padded_refuted). *)
From HV Require Import Base.Prelude Base.Outcome Base.Bytes Spec.Parse Spec.FormatMsg Model.CodecMsg Model.CodecLink
  Proofs.RobustNoPanicBase Proofs.RobustNoPanicMsg Proofs.ReaderSpecBase Proofs.ReaderSpecLayout.

Definition li_agree (s : linkinfo_spec) (v : linkinfo) : Prop :=
  li_version v = 0 /\ li_flags v = lis_flags s /\
  li_maxcorder v = match lis_maxcidx s with Some m => m | None => 0 end /\
  li_heap v = lis_heap s /\ li_btname v = lis_btname s /\
  li_btorder v = match lis_btorder s with Some b => b | None => 0 end.

Definition ai_agree (s : attrinfo_spec) (v : attrinfo) : Prop :=
  ai_version v = 0 /\ ai_flags v = ais_flags s /\
  ai_maxcidx v = match ais_maxcidx s with Some m => m | None => 0 end /\
  ai_heap v = ais_heap s /\ ai_btname v = ais_btname s /\
  ai_btorder v = match ais_btorder s with Some b => b | None => 0 end.

Lemma land_252 fl : fl < 4 -> N.land fl 252 = 0.
Proof.
  intros H. assert (C : fl = 0 \/ fl = 1 \/ fl = 2 \/ fl = 3) by blia.
  destruct C as [-> | [-> | [-> | ->]]]; reflexivity.
Qed.

(* readAddress(data[p:p+k], k) *)
Lemma read_addr_at (bs : list N) p k v : rd_le bs p k = Ok v -> size1248 k -> read_addr bs p k = Ok v.
Proof.
  intros R Hk. unfold read_addr. unfold rd_le in R.
  destruct (slice bs p (p + k)) as [d| |] eqn:S; cbn [obind] in R; try discriminate. injection R as <-.
  cbn [obind]. unfold read_uint.
  pose proof (slice_len _ _ _ _ S) as L. replace (p + k - p) with k in L by blia.
  rewrite L. rewrite N.ltb_irrefl.
  replace ((k =? 1) || (k =? 2) || (k =? 4) || (k =? 8)) with true
    by (destruct Hk as [-> | [-> | [-> | ->]]]; reflexivity).
  unfold rd_le, slice. rewrite L.
  replace ((0 <=? 0 + k) && (0 + k <=? k)) with true by (symmetry; apply andb_true_iff; split; apply N.leb_le; blia).
  cbn [obind]. f_equal. f_equal. replace (0 + k - 0) with k by blia.
  cbn [N.to_nat skipn]. apply firstn_all2. unfold blen in L. blia.
Qed.

Lemma read_addr_np (bs : list N) p k : p + k <= blen bs -> read_addr bs p k <> Panic.
Proof.
  intros H. unfold read_addr. destruct (slice_ok bs p (p + k)) as (d & -> & _); [blia|exact H|].
  cbn [obind]. apply read_uint_no_panic.
Qed.

Lemma linkinfo_reader_spec (osz : nat) (sbver lsz : N) (pad_ok : bool) (bs : bytes) (s : linkinfo_spec) :
  size_ok (N.of_nat osz) = true ->
  spec_dec_linkinfo osz pad_ok bs = Ok s ->
  err_or (li_agree s)
         (dec_linkinfo {| sb_version := sbver; sb_offsize := N.of_nat osz; sb_lensize := lsz; sb_bigendian := false |} bs).
Proof.
  intros HO H. unfold spec_dec_linkinfo in H. rewrite (at_pos_0 bs) in H.
  assert (P0 : 0 <= blen bs) by blia. apply size_ok_1248 in HO.
  s_byte H ver B1 I0. s_guard H GV. apply N.eqb_eq in GV. subst ver.
  s_byte H fl B2 I1. s_guard H GF. apply N.ltb_lt in GF.
  change (0 + 1) with 1 in *. change (1 + 1) with 2 in *.
  unfold dec_linkinfo. cbn [sb_offsize sb_bigendian].
  rewrite (ltb_false_of_le (blen bs) 2) by blia. rewrite I0. cbn [obind].
  change (negb (0 =? 0)) with false. cbv beta iota. rewrite I1. cbn [obind].
  rewrite (land_252 fl GF). change (negb (0 =? 0)) with false. cbv beta iota.
  destruct (N.testbit fl 0) eqn:T0.
  - (* maximum creation index present *)
    sstep H. s_u E m B3 RM. injection E as <- <-. change (N.of_nat 8) with 8 in *. change (2 + 8) with 10 in *.
    rewrite (ltb_false_of_le (blen bs) 10) by blia. rewrite RM. cbn [obind].
    destruct (9223372036854775808 <=? m); [exact I|]. cbn [obind].
    s_u H hp B4 RH. s_u H bt B5 RB.
    rewrite ltb_false_of_le by blia.
    destruct (read_uint_at _ _ _ _ RH HO) as (d1 & Q1 & Q2). rewrite Q1. cbn [obind]. rewrite Q2. cbn [obind].
    rewrite ltb_false_of_le by blia.
    destruct (read_uint_at _ _ _ _ RB HO) as (d2 & Q3 & Q4). rewrite Q3. cbn [obind]. rewrite Q4. cbn [obind].
    destruct (N.testbit fl 1) eqn:T1.
    + sstep H. s_u E bo B6 RO. injection E as <- <-. s_end H PE PF ZZ. injection H as <-.
      rewrite ltb_false_of_le by blia.
      destruct (read_uint_at _ _ _ _ RO HO) as (d3 & Q5 & Q6). rewrite Q5. cbn [obind]. rewrite Q6. cbn [obind].
      repeat split.
    + cbn [obind] in H. s_end H PE PF ZZ. injection H as <-. repeat split.
  - cbn [obind] in H. cbn [obind].
    s_u H hp B4 RH. s_u H bt B5 RB.
    rewrite ltb_false_of_le by blia.
    destruct (read_uint_at _ _ _ _ RH HO) as (d1 & Q1 & Q2). rewrite Q1. cbn [obind]. rewrite Q2. cbn [obind].
    rewrite ltb_false_of_le by blia.
    destruct (read_uint_at _ _ _ _ RB HO) as (d2 & Q3 & Q4). rewrite Q3. cbn [obind]. rewrite Q4. cbn [obind].
    destruct (N.testbit fl 1) eqn:T1.
    + sstep H. s_u E bo B6 RO. injection E as <- <-. s_end H PE PF ZZ. injection H as <-.
      rewrite ltb_false_of_le by blia.
      destruct (read_uint_at _ _ _ _ RO HO) as (d3 & Q5 & Q6). rewrite Q5. cbn [obind]. rewrite Q6. cbn [obind].
      repeat split.
    + cbn [obind] in H. s_end H PE PF ZZ. injection H as <-. repeat split.
Qed.

(* attribute info, message of exactly the specified size *)
Lemma attrinfo_reader_spec (osz : nat) (sbver lsz : N) (bs : bytes) (s : attrinfo_spec) :
  size_ok (N.of_nat osz) = true ->
  spec_dec_attrinfo osz false bs = Ok s ->
  err_or (ai_agree s)
         (dec_attrinfo {| sb_version := sbver; sb_offsize := N.of_nat osz; sb_lensize := lsz; sb_bigendian := false |} bs).
Proof.
  intros HO H. unfold spec_dec_attrinfo in H. rewrite (at_pos_0 bs) in H.
  assert (P0 : 0 <= blen bs) by blia. apply size_ok_1248 in HO.
  s_byte H ver B1 I0. s_guard H GV. apply N.eqb_eq in GV. subst ver.
  s_byte H fl B2 I1. s_guard H GF. apply N.ltb_lt in GF.
  change (0 + 1) with 1 in *. change (1 + 1) with 2 in *.
  unfold dec_attrinfo. cbn [sb_offsize sb_bigendian].
  rewrite (ltb_false_of_le (blen bs) 2) by blia. rewrite I0. cbn [obind]. rewrite I1. cbn [obind].
  destruct (N.testbit fl 0) eqn:T0.
  - (* maximum creation index present: the reader wants two bytes more than the message has *)
    sstep H. s_u E m B3 RM. injection E as <- <-. change (N.of_nat 2) with 2 in *. change (2 + 2) with 4 in *.
    s_u H hp B4 RH. s_u H bt B5 RB.
    destruct (blen bs <? 2 + 4); [exact I|]. rewrite RM. cbn [obind].
    destruct (N.testbit fl 1) eqn:T1.
    + sstep H. s_u E bo B6 RO. injection E as <- <-. s_end H PE PF ZZ. injection H as <-.
      pose proof (PF eq_refl) as LEN.
      destruct (blen bs <? 6 + N.of_nat osz) eqn:L1; [exact I|]. apply N.ltb_ge in L1.
      destruct (read_addr bs 6 (N.of_nat osz)) eqn:RA1; cbn [obind];
        [|exact I|exfalso; revert RA1; apply read_addr_np; blia].
      destruct (blen bs <? 6 + N.of_nat osz + N.of_nat osz) eqn:L2; [exact I|]. apply N.ltb_ge in L2.
      destruct (read_addr bs (6 + N.of_nat osz) (N.of_nat osz)) eqn:RA2; cbn [obind];
        [|exact I|exfalso; revert RA2; apply read_addr_np; blia].
      replace (blen bs <? 6 + N.of_nat osz + N.of_nat osz + N.of_nat osz) with true by (symmetry; apply N.ltb_lt; blia).
      exact I.
    + cbn [obind] in H. s_end H PE PF ZZ. injection H as <-. pose proof (PF eq_refl) as LEN.
      destruct (blen bs <? 6 + N.of_nat osz) eqn:L1; [exact I|]. apply N.ltb_ge in L1.
      destruct (read_addr bs 6 (N.of_nat osz)) eqn:RA1; cbn [obind];
        [|exact I|exfalso; revert RA1; apply read_addr_np; blia].
      replace (blen bs <? 6 + N.of_nat osz + N.of_nat osz) with true by (symmetry; apply N.ltb_lt; blia).
      exact I.
  - cbn [obind] in H. cbn [obind].
    s_u H hp B4 RH. s_u H bt B5 RB.
    rewrite ltb_false_of_le by blia. rewrite (read_addr_at _ _ _ _ RH HO). cbn [obind].
    rewrite ltb_false_of_le by blia. rewrite (read_addr_at _ _ _ _ RB HO). cbn [obind].
    destruct (N.testbit fl 1) eqn:T1.
    + sstep H. s_u E bo B6 RO. injection E as <- <-. s_end H PE PF ZZ. injection H as <-.
      rewrite ltb_false_of_le by blia. rewrite (read_addr_at _ _ _ _ RO HO). cbn [obind]. repeat split.
    + cbn [obind] in H. s_end H PE PF ZZ. injection H as <-. repeat split.
Qed.

(* attribute info followed by zero padding (pad_ok): maximum creation index 5, heap 1000, B-tree 2000; the reader takes the
   heap address two bytes too late *)
Definition attrinfo_padded_witness : bytes := [0; 1; 5; 0] ++ le 8 1000 ++ le 8 2000 ++ zeros 4.
Lemma attrinfo_padded_refuted :
  spec_dec_attrinfo 8 true attrinfo_padded_witness =
    Ok {| ais_flags := 1; ais_maxcidx := Some 5; ais_heap := 1000; ais_btname := 2000; ais_btorder := None |} /\
  dec_attrinfo {| sb_version := 2; sb_offsize := 8; sb_lensize := 8; sb_bigendian := false |} attrinfo_padded_witness =
    Ok {| ai_version := 0; ai_flags := 1; ai_heap := 562949953421312000; ai_btname := 0; ai_maxcidx := 5; ai_btorder := 0 |}.
Proof. split; vm_compute; reflexivity. Qed.

Example linkinfo_reader_spec_example :
  spec_dec_linkinfo 8 false ([0; 3] ++ le 8 7 ++ le 8 1000 ++ le 8 2000 ++ le 8 3000) =
    Ok {| lis_flags := 3; lis_maxcidx := Some 7; lis_heap := 1000; lis_btname := 2000; lis_btorder := Some 3000 |}.
Proof. vm_compute. reflexivity. Qed.
Example attrinfo_reader_spec_example :
  spec_dec_attrinfo 8 false ([0; 0] ++ le 8 1000 ++ le 8 2000) =
    Ok {| ais_flags := 0; ais_maxcidx := None; ais_heap := 1000; ais_btname := 2000; ais_btorder := None |}.
Proof. vm_compute. reflexivity. Qed.
