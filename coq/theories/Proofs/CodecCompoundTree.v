(* Lemmas for C11, group 7b: compound datatypes as trees, part 1: the three member loops
   (calculateCompoundPropsLen, parseCompoundV3, parseCompoundV1) on an encoded member list. *)
From HV Require Import Base.Prelude Base.Outcome Base.Bytes Model.CodecType Model.CodecCompound
  Model.CodecCompoundTree Proofs.CodecType.

Lemma member_hdr_eq t :
  member_hdr t = dt_header (dt_class t) (dt_version t) (dt_cbf t) (dt_size t) ++ dt_props t.
Proof. unfold member_hdr, dt_header. now rewrite <- app_assoc. Qed.

Lemma blen_member_hdr t : blen (member_hdr t) = 8 + blen (dt_props t).
Proof. rewrite member_hdr_eq, blen_app, blen_dt_header. reflexivity. Qed.

Lemma nfs_length fs : nfs fs = N.of_nat (length (flat_fields fs)).
Proof. induction fs as [|n o t r IH] using cfields_ind; cbn [nfs flat_fields length]; [reflexivity|]. rewrite IH. blia. Qed.

(* names and offsets of a member list *)
Fixpoint names_ok (fs : cfields) : bool :=
  match fs with
  | CNil => true
  | CCons n o _ r => name_ok n && (o <? 4294967296) && names_ok r
  end.

(* [decsP ef parse fs rest]: every member type, followed by the encoding of the members after it and by
   [rest], is parsed back exactly by [parse] *)
Fixpoint decsP (ef : field -> bytes) (parse : bytes -> outcome datatype) (fs : cfields) (rest : bytes) : Prop :=
  match fs with
  | CNil => True
  | CCons _ _ t r =>
      parse (member_hdr (flat t) ++ concat (map ef (flat_fields r)) ++ rest) = Ok (flat t) /\
      encoded_size (flat t) = 8 + blen (dt_props (flat t)) /\
      decsP ef parse r rest
  end.

Lemma name_ok_inv n : name_ok n = true -> 1 <= blen n /\ forallb (fun b => negb (b =? 0)) n = true.
Proof.
  unfold name_ok. intros H. apply andb_true_iff in H as [H1 H2]. split; auto.
  apply negb_true_iff, Nat.eqb_neq in H1. unfold blen. blia.
Qed.

(* ---- version 3: one member at the front of the stream ---- *)

Lemma v3_field_layout pre n o t tail :
  pre ++ enc_field_v3 {| fd_name := n; fd_offset := o; fd_type := t |} ++ tail =
  pre ++ n ++ 0 :: (le 4 o ++ member_hdr t ++ tail).
Proof. unfold enc_field_v3. cbn [fd_name fd_offset fd_type]. rewrite <- !app_assoc. reflexivity. Qed.

Lemma v3_field_layout2 pre n o t tail :
  pre ++ enc_field_v3 {| fd_name := n; fd_offset := o; fd_type := t |} ++ tail =
  (pre ++ n ++ [0]) ++ le 4 o ++ (member_hdr t ++ tail).
Proof. unfold enc_field_v3. cbn [fd_name fd_offset fd_type]. rewrite <- !app_assoc. reflexivity. Qed.

Lemma v3_field_layout3 pre n o t tail :
  pre ++ enc_field_v3 {| fd_name := n; fd_offset := o; fd_type := t |} ++ tail =
  (pre ++ n ++ [0] ++ le 4 o) ++ (member_hdr t ++ tail).
Proof. unfold enc_field_v3. cbn [fd_name fd_offset fd_type]. rewrite <- !app_assoc. reflexivity. Qed.

Lemma blen_enc_field_v3 f : blen (enc_field_v3 f) = blen (fd_name f) + 5 + 8 + blen (dt_props (fd_type f)).
Proof. unfold enc_field_v3. rewrite !blen_app, blen_le, blen_member_hdr. change (blen [0]) with 1. blia. Qed.

Lemma cpl_loop_ok parse : forall fs pre rest fuel,
  names_ok fs = true -> decsP enc_field_v3 parse fs rest -> (length (flat_fields fs) <= fuel)%nat ->
  cpl_loop parse fuel (pre ++ concat (map enc_field_v3 (flat_fields fs)) ++ rest) (nfs fs) (blen pre)
  = Ok (blen pre + blen (concat (map enc_field_v3 (flat_fields fs)))).
Proof.
  induction fs as [|n o t r IH] using cfields_ind; intros pre rest fuel Hn Hd Hf.
  - cbn [nfs flat_fields map concat]. destruct fuel; cbn [cpl_loop N.eqb]; f_equal; unfold blen; cbn [length]; blia.
  - cbn [names_ok] in Hn. apply andb_true_iff in Hn as [Hn Hnr]. apply andb_true_iff in Hn as [Hnm Ho].
    apply N.ltb_lt in Ho. apply name_ok_inv in Hnm as [Hn1 Hnz].
    cbn [decsP] in Hd. destruct Hd as (Hp & _ & Hdr).
    cbn [flat_fields map concat length] in *.
    destruct fuel as [|fuel]; [blia|].
    set (f := {| fd_name := n; fd_offset := o; fd_type := flat t |}) in *.
    set (tail := concat (map enc_field_v3 (flat_fields r)) ++ rest) in *.
    rewrite <- app_assoc. fold tail.
    assert (Hnf : nfs (CCons n o t r) =? 0 = false) by (cbn [nfs]; apply N.eqb_neq; blia).
    cbn [cpl_loop]. rewrite Hnf.
    assert (HL : blen (pre ++ enc_field_v3 f ++ tail) = blen pre + blen n + 5 + 8 + blen (dt_props (flat t)) + blen tail).
    { rewrite !blen_app, blen_enc_field_v3. subst f. cbn [fd_name fd_type]. blia. }
    assert (Hfind : find0 (pre ++ enc_field_v3 f ++ tail) (blen pre) = blen pre + blen n).
    { subst f. rewrite v3_field_layout. apply find0_app; auto. }
    rewrite Hfind.
    replace (blen (pre ++ enc_field_v3 f ++ tail) <=? blen pre + blen n) with false
      by (symmetry; apply N.leb_gt; rewrite HL; blia).
    replace (blen (pre ++ enc_field_v3 f ++ tail) <? blen pre + blen n + 1 + 4) with false
      by (symmetry; apply N.ltb_ge; rewrite HL; blia).
    replace (blen (pre ++ enc_field_v3 f ++ tail) <? blen pre + blen n + 1 + 4 + 8) with false
      by (symmetry; apply N.ltb_ge; rewrite HL; blia).
    assert (Hs : slice_from (pre ++ enc_field_v3 f ++ tail) (blen pre + blen n + 1 + 4) = Ok (member_hdr (flat t) ++ tail)).
    { subst f. rewrite v3_field_layout3. apply slice_from_app.
      rewrite !blen_app, blen_le. change (blen [0]) with 1. blia. }
    rewrite Hs. cbn [obind]. rewrite Hp.
    replace (nfs (CCons n o t r) - 1) with (nfs r) by (cbn [nfs]; blia).
    replace (blen pre + blen n + 1 + 4 + 8 + blen (dt_props (flat t))) with (blen (pre ++ enc_field_v3 f))
      by (rewrite blen_app, blen_enc_field_v3; subst f; cbn [fd_name fd_type]; blia).
    replace (pre ++ enc_field_v3 f ++ tail) with ((pre ++ enc_field_v3 f) ++ concat (map enc_field_v3 (flat_fields r)) ++ rest)
      by (subst tail; rewrite <- !app_assoc; reflexivity).
    rewrite IH by (auto; blia). f_equal. rewrite !blen_app. blia.
Qed.

Lemma v3_members_ok : forall fs pre rest fuel,
  names_ok fs = true -> decsP enc_field_v3 dec_datatype fs rest -> (length (flat_fields fs) <= fuel)%nat ->
  v3_members fuel (pre ++ concat (map enc_field_v3 (flat_fields fs)) ++ rest) (nfs fs) (blen pre)
  = Ok (flat_fields fs).
Proof.
  induction fs as [|n o t r IH] using cfields_ind; intros pre rest fuel Hn Hd Hf.
  - cbn [nfs flat_fields map concat]. destruct fuel; cbn [v3_members N.eqb]; reflexivity.
  - cbn [names_ok] in Hn. apply andb_true_iff in Hn as [Hn Hnr]. apply andb_true_iff in Hn as [Hnm Ho].
    apply N.ltb_lt in Ho. apply name_ok_inv in Hnm as [Hn1 Hnz].
    cbn [decsP] in Hd. destruct Hd as (Hp & _ & Hdr).
    cbn [flat_fields map concat length] in *.
    destruct fuel as [|fuel]; [blia|].
    set (f := {| fd_name := n; fd_offset := o; fd_type := flat t |}) in *.
    set (tail := concat (map enc_field_v3 (flat_fields r)) ++ rest) in *.
    rewrite <- app_assoc. fold tail.
    assert (Hnf : nfs (CCons n o t r) =? 0 = false) by (cbn [nfs]; apply N.eqb_neq; blia).
    cbn [v3_members]. rewrite Hnf.
    assert (HL : blen (pre ++ enc_field_v3 f ++ tail) = blen pre + blen n + 5 + 8 + blen (dt_props (flat t)) + blen tail).
    { rewrite !blen_app, blen_enc_field_v3. subst f. cbn [fd_name fd_type]. blia. }
    assert (Hfind : find0 (pre ++ enc_field_v3 f ++ tail) (blen pre) = blen pre + blen n).
    { subst f. rewrite v3_field_layout. apply find0_app; auto. }
    rewrite Hfind.
    replace (blen (pre ++ enc_field_v3 f ++ tail) <=? blen pre + blen n) with false
      by (symmetry; apply N.leb_gt; rewrite HL; blia).
    assert (Hname : slice (pre ++ enc_field_v3 f ++ tail) (blen pre) (blen pre + blen n) = Ok n).
    { subst f. rewrite v3_field_layout. apply slice_app'; reflexivity. }
    rewrite Hname. cbn [obind].
    replace (blen (pre ++ enc_field_v3 f ++ tail) <? blen pre + blen n + 1 + 4) with false
      by (symmetry; apply N.ltb_ge; rewrite HL; blia).
    assert (Hoff : rd_le (pre ++ enc_field_v3 f ++ tail) (blen pre + blen n + 1) 4 = Ok o).
    { subst f. rewrite v3_field_layout2. apply (rd_le_at _ 4 4); auto.
      rewrite !blen_app. change (blen [0]) with 1. blia. }
    rewrite Hoff. cbn [obind].
    replace (blen (pre ++ enc_field_v3 f ++ tail) <? blen pre + blen n + 1 + 4 + 8) with false
      by (symmetry; apply N.ltb_ge; rewrite HL; blia).
    assert (Hs : slice_from (pre ++ enc_field_v3 f ++ tail) (blen pre + blen n + 1 + 4) = Ok (member_hdr (flat t) ++ tail)).
    { subst f. rewrite v3_field_layout3. apply slice_from_app.
      rewrite !blen_app, blen_le. change (blen [0]) with 1. blia. }
    rewrite Hs. cbn [obind]. rewrite Hp. cbn [obind].
    replace (nfs (CCons n o t r) - 1) with (nfs r) by (cbn [nfs]; blia).
    replace (blen pre + blen n + 1 + 4 + 8 + blen (dt_props (flat t))) with (blen (pre ++ enc_field_v3 f))
      by (rewrite blen_app, blen_enc_field_v3; subst f; cbn [fd_name fd_type]; blia).
    replace (pre ++ enc_field_v3 f ++ tail) with ((pre ++ enc_field_v3 f) ++ concat (map enc_field_v3 (flat_fields r)) ++ rest)
      by (subst tail; rewrite <- !app_assoc; reflexivity).
    rewrite IH by (auto; blia). reflexivity.
Qed.

(* ---- version 1: name padded to the next multiple of 8 (at least one NUL), 28 bytes of array information ---- *)

Lemma pad_name_v1_gt n : n < pad_name_v1 n /\ pad_name_v1 n <= n + 8.
Proof. unfold pad_name_v1. lia. Qed.

Lemma zeros_S k : zeros (S k) = 0 :: zeros k.
Proof. reflexivity. Qed.

Definition v1_pad (n : bytes) : nat := N.to_nat (pad_name_v1 (blen n) - blen n).

Lemma v1_pad_pos n : exists k, v1_pad n = S k.
Proof.
  unfold v1_pad. pose proof (pad_name_v1_gt (blen n)) as [H _].
  exists (Nat.pred (N.to_nat (pad_name_v1 (blen n) - blen n))). blia.
Qed.

Lemma v1_field_layout pre n o t tail :
  pre ++ enc_field_v1 {| fd_name := n; fd_offset := o; fd_type := t |} ++ tail =
  (pre ++ n ++ zeros (v1_pad n)) ++ le 4 o ++ (zeros 28 ++ member_hdr t ++ tail).
Proof. unfold enc_field_v1, v1_pad. cbn [fd_name fd_offset fd_type]. rewrite <- !app_assoc. reflexivity. Qed.

Lemma v1_field_layout3 pre n o t tail :
  pre ++ enc_field_v1 {| fd_name := n; fd_offset := o; fd_type := t |} ++ tail =
  (pre ++ n ++ zeros (v1_pad n) ++ le 4 o ++ zeros 28) ++ (member_hdr t ++ tail).
Proof. unfold enc_field_v1, v1_pad. cbn [fd_name fd_offset fd_type]. rewrite <- !app_assoc. reflexivity. Qed.

Lemma blen_enc_field_v1 f :
  blen (enc_field_v1 f) = pad_name_v1 (blen (fd_name f)) + 4 + 28 + 8 + blen (dt_props (fd_type f)).
Proof.
  unfold enc_field_v1. rewrite !blen_app, blen_le, !blen_zeros, blen_member_hdr.
  pose proof (pad_name_v1_gt (blen (fd_name f))). blia.
Qed.

Lemma v1_members_ok : forall fs pre rest fuel,
  names_ok fs = true -> decsP enc_field_v1 dec_datatype fs rest -> (length (flat_fields fs) <= fuel)%nat ->
  v1_members fuel (pre ++ concat (map enc_field_v1 (flat_fields fs)) ++ rest) (nfs fs) (blen pre)
  = Ok (flat_fields fs).
Proof.
  induction fs as [|n o t r IH] using cfields_ind; intros pre rest fuel Hn Hd Hf.
  - cbn [nfs flat_fields map concat]. destruct fuel; cbn [v1_members N.eqb]; reflexivity.
  - cbn [names_ok] in Hn. apply andb_true_iff in Hn as [Hn Hnr]. apply andb_true_iff in Hn as [Hnm Ho].
    apply N.ltb_lt in Ho. apply name_ok_inv in Hnm as [Hn1 Hnz].
    cbn [decsP] in Hd. destruct Hd as (Hp & Hes & Hdr).
    cbn [flat_fields map concat length] in *.
    destruct fuel as [|fuel]; [blia|].
    set (f := {| fd_name := n; fd_offset := o; fd_type := flat t |}) in *.
    set (tail := concat (map enc_field_v1 (flat_fields r)) ++ rest) in *.
    rewrite <- app_assoc. fold tail.
    assert (Hnf : nfs (CCons n o t r) =? 0 = false) by (cbn [nfs]; apply N.eqb_neq; blia).
    cbn [v1_members]. rewrite Hnf.
    pose proof (pad_name_v1_gt (blen n)) as [Hpg Hpl].
    assert (HL : blen (pre ++ enc_field_v1 f ++ tail)
                 = blen pre + pad_name_v1 (blen n) + 4 + 28 + 8 + blen (dt_props (flat t)) + blen tail).
    { rewrite !blen_app, blen_enc_field_v1. subst f. cbn [fd_name fd_type]. blia. }
    assert (Hfind : find0 (pre ++ enc_field_v1 f ++ tail) (blen pre) = blen pre + blen n).
    { subst f. rewrite v1_field_layout. destruct (v1_pad_pos n) as [k Hk]. rewrite Hk, zeros_S.
      rewrite <- !app_assoc. cbn [app]. apply find0_app; auto. }
    rewrite Hfind.
    replace (blen (pre ++ enc_field_v1 f ++ tail) <=? blen pre + blen n) with false
      by (symmetry; apply N.leb_gt; rewrite HL; blia).
    assert (Hname : slice (pre ++ enc_field_v1 f ++ tail) (blen pre) (blen pre + blen n) = Ok n).
    { subst f. rewrite v1_field_layout. rewrite <- !app_assoc. apply slice_app'; reflexivity. }
    rewrite Hname. cbn [obind].
    replace (blen pre + blen n - blen pre) with (blen n) by blia.
    replace (blen (pre ++ enc_field_v1 f ++ tail) <? blen pre + pad_name_v1 (blen n) + 4) with false
      by (symmetry; apply N.ltb_ge; rewrite HL; blia).
    assert (Hoff : rd_le (pre ++ enc_field_v1 f ++ tail) (blen pre + pad_name_v1 (blen n)) 4 = Ok o).
    { subst f. rewrite v1_field_layout. apply (rd_le_at _ 4 4); auto.
      rewrite !blen_app, blen_zeros. unfold v1_pad. blia. }
    rewrite Hoff. cbn [obind].
    replace (blen (pre ++ enc_field_v1 f ++ tail) <? blen pre + pad_name_v1 (blen n) + 4 + 28) with false
      by (symmetry; apply N.ltb_ge; rewrite HL; blia).
    replace (blen (pre ++ enc_field_v1 f ++ tail) <? blen pre + pad_name_v1 (blen n) + 4 + 28 + 8) with false
      by (symmetry; apply N.ltb_ge; rewrite HL; blia).
    assert (Hs : slice_from (pre ++ enc_field_v1 f ++ tail) (blen pre + pad_name_v1 (blen n) + 4 + 28)
                 = Ok (member_hdr (flat t) ++ tail)).
    { subst f. rewrite v1_field_layout3. apply slice_from_app.
      rewrite !blen_app, blen_le, !blen_zeros. unfold v1_pad. blia. }
    rewrite Hs. cbn [obind]. rewrite Hp. cbn [obind].
    replace (nfs (CCons n o t r) - 1) with (nfs r) by (cbn [nfs]; blia).
    rewrite Hes.
    replace (blen pre + pad_name_v1 (blen n) + 4 + 28 + (8 + blen (dt_props (flat t)))) with (blen (pre ++ enc_field_v1 f))
      by (rewrite blen_app, blen_enc_field_v1; subst f; cbn [fd_name fd_type]; blia).
    replace (pre ++ enc_field_v1 f ++ tail) with ((pre ++ enc_field_v1 f) ++ concat (map enc_field_v1 (flat_fields r)) ++ rest)
      by (subst tail; rewrite <- !app_assoc; reflexivity).
    rewrite IH by (auto; blia). reflexivity.
Qed.
