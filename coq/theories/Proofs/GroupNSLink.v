(* C03: after a successful CreateHardLink both names resolve (through the writer's own
   resolveObjectAddress) to the same object header. *)
From HV Require Import Base.Prelude Model.GroupNS Proofs.GroupNSBase Proofs.GroupNSHeap Proofs.GroupNSPath Proofs.GroupNSInv.

Lemma find_app : forall A (f : A -> bool) a b, find f (a ++ b) = match find f a with Some x => Some x | None => find f b end.
Proof. induction a as [|x a IH]; intro b; cbn [app find]; [reflexivity|]. destruct (f x); auto. Qed.
Lemma find_ext_in : forall A (f g : A -> bool) l, (forall x, In x l -> f x = g x) -> find f l = find g l.
Proof.
  induction l as [|x l IH]; intro H; [reflexivity|]. cbn [find]. rewrite (H x (or_introl eq_refl)).
  destruct (g x); [reflexivity|]. apply IH. intros y Hy. apply H. right. assumption.
Qed.
Lemma map_eq_pointwise : forall A B (f g : A -> B) l, map f l = map g l -> forall x, In x l -> f x = g x.
Proof.
  induction l as [|y l IH]; intros H x Hx; [contradiction|]. cbn [map] in H. injection H as H1 H2.
  destruct Hx as [->|Hx]; [assumption | apply IH; assumption].
Qed.

(* the entry just appended is the one its name resolves to *)
Lemma find_last : forall seg' ents e ns nm, gwf seg' (ents ++ [e]) (ns ++ [nm]) ->
  find (entry_has_name seg' nm) (ents ++ [e]) = Some e.
Proof.
  intros seg' ents e ns nm H. pose proof (names_decode _ _ _ H) as D. pose proof (gwf_length _ _ _ H) as Len.
  rewrite !app_length in Len. cbn [length] in Len.
  rewrite !map_app in D. cbn [map] in D.
  assert (L2 : length (map (name_of seg') ents) = length (map Some ns)) by (rewrite !map_length; lia).
  destruct (app_inj_tail_iff (map (name_of seg') ents) (map Some ns) (name_of seg' e) (Some nm)) as [X _].
  destruct (X D) as [D1 D2]. clear X.
  destruct H as (_ & _ & _ & _ & Hnd).
  assert (Hnin : ~ In nm ns).
  { intro I. apply NoDup_remove_2 in Hnd. rewrite app_nil_r in Hnd. contradiction. }
  rewrite find_app.
  assert (F : find (entry_has_name seg' nm) ents = None).
  { destruct (find (entry_has_name seg' nm) ents) as [x|] eqn:E; [|reflexivity]. exfalso.
    apply find_some in E. destruct E as [Ix Hx]. unfold entry_has_name in Hx.
    destruct (name_of seg' x) as [s|] eqn:Nx; [|discriminate]. apply bytes_eqb_eq in Hx. subst s.
    assert (In (Some nm) (map (name_of seg') ents)) by (rewrite <- Nx; apply in_map; assumption).
    rewrite D1 in H. apply in_map_iff in H. destruct H as (y & Hy & Iy). inversion Hy; subst. contradiction. }
  rewrite F. cbn [find]. unfold entry_has_name. rewrite D2, bytes_eqb_refl. reflexivity.
Qed.

(* entries that were there before decode to the same names after the insertion *)
Lemma old_names_kept : forall seg seg' ents e ns nm, gwf seg ents ns -> gwf seg' (ents ++ [e]) (ns ++ [nm]) ->
  forall x, In x ents -> name_of seg' x = name_of seg x.
Proof.
  intros seg seg' ents e ns nm H H' x Hx. pose proof (names_decode _ _ _ H) as D. pose proof (names_decode _ _ _ H') as D'.
  pose proof (gwf_length _ _ _ H) as Len.
  rewrite !map_app in D'. cbn [map] in D'.
  destruct (app_inj_tail_iff (map (name_of seg') ents) (map Some ns) (name_of seg' e) (Some nm)) as [X _].
  destruct (X D') as [D1 _]. rewrite <- D in D1. apply (map_eq_pointwise _ _ _ _ _ D1 x Hx).
Qed.

Theorem hardlink_same_object : forall c w p q w', Inv1 c w -> hname_ok (snd (parse_path p)) ->
  step c w (HardLink p q) = (w', Ok) ->
  exists t, resolve_object_address w' p = Some t /\ resolve_object_address w' q = Some t.
Proof.
  intros c w p q w' I Hnm H. unfold step in H. cbn [step_body] in H. unfold create_hard_link in H.
  destruct (validate_link_path p) eqn:Vp; cbn [negb] in H; [|discriminate].
  destruct (validate_link_path q) eqn:Vq; cbn [negb] in H; [|discriminate].
  destruct (parse_path p) as [parent nm] eqn:PP. cbn [snd] in Hnm.
  destruct (negb (parent_registered w parent)); [discriminate|].
  destruct (resolve_object_address w q) as [t|] eqn:Rq; [|discriminate].
  destruct (alookup t (objects w)) as [o|] eqn:Ho; [|discriminate].
  destruct (precheck c w parent nm); [discriminate|].
  set (w1 := set_objects w _) in H.
  destruct (link_to_parent c w1 parent nm t) as [w2 [|e]] eqn:LT; [|discriminate]. inversion H; subst w'. clear H.
  exists t.
  assert (Ht : t < clock w).
  { destruct (N.lt_ge_cases t (clock w)) as [X|X]; [assumption|]. rewrite (i_fresh_o _ _ _ I t X) in Ho. discriminate. }
  assert (I1 : InvB c (clock w) w1) by (apply invb_add_object; assumption).
  destruct (parent_group w1 parent) as [g|] eqn:PG; [|unfold link_to_parent in LT; destruct (strict_names c && negb (heap_name_ok nm)); [discriminate|]; rewrite PG in LT; discriminate].
  destruct (parent_group_structs _ _ _ _ _ I1 PG) as [[seg Hh] [ents Hs]].
  destruct (i_wf _ _ _ I1 g seg ents Hh Hs) as (ns & Hwf & _).
  destruct (ltp_spec c w1 parent nm t g seg ents ns PG Hh Hs Hwf Hnm)
    as [(_ & E)|[(_ & _ & E)|[(_ & _ & _ & E)|(_ & _ & _ & seg' & E & Hwf' & _)]]]; rewrite E in LT; try discriminate.
  cbv zeta in E, Hwf'. inversion LT; subst w2. clear LT E.
  set (enew := {| e_off := blen (enc ns); e_obj := t |}) in *.
  assert (Vs : forall x, validate_link_path x = true -> is_slash_only x = false /\ starts_with_slash x = true).
  { intros x V. unfold validate_link_path in V. apply andb_true_iff in V. destruct V as [V _]. apply andb_true_iff in V.
    destruct V as [V1 V2]. apply negb_true_iff in V2. auto. }
  assert (PGk : forall x, parent_group (tick (linked w1 g seg' (ents ++ [enew]))) x = parent_group w1 x) by reflexivity.
  split.
  - unfold resolve_object_address. destruct (Vs p Vp) as [A B]. rewrite A, B. cbn [negb]. rewrite PP, PGk, PG.
    cbn [snods heaps tick linked set_snods set_heaps]. rewrite !alookup_aset_eq.
    rewrite (find_last seg' ents enew ns nm Hwf'). reflexivity.
  - unfold resolve_object_address in *. destruct (Vs q Vq) as [A B]. rewrite A, B in *. cbn [negb] in *.
    destruct (parse_path q) as [qparent qn]. rewrite PGk.
    assert (PQ : parent_group w1 qparent = parent_group w qparent) by reflexivity. rewrite PQ.
    destruct (parent_group w qparent) as [gq|]; [|discriminate].
    cbn [snods heaps tick linked set_snods set_heaps]. rewrite !alookup_aset.
    destruct (g =? gq) eqn:Eg.
    + apply N.eqb_eq in Eg. subst gq.
      assert (X1 : alookup g (snods w) = Some ents) by exact Hs. assert (X2 : alookup g (heaps w) = Some seg) by exact Hh.
      rewrite X1, X2 in Rq. rewrite find_app.
      rewrite (find_ext_in _ (entry_has_name seg' qn) (entry_has_name seg qn) ents).
      * destruct (find (entry_has_name seg qn) ents); [assumption | discriminate].
      * intros x Hx. unfold entry_has_name. rewrite (old_names_kept seg seg' ents enew ns nm Hwf Hwf' x Hx). reflexivity.
    + exact Rq.
Qed.

Lemma hardlink_same_object_reach : forall c h p q w', names_ok c h = true -> heap_name_ok (snd (parse_path p)) = true ->
  step c (reach c h) (HardLink p q) = (w', Ok) ->
  exists t, resolve_object_address w' p = Some t /\ resolve_object_address w' q = Some t.
Proof.
  intros c h p q w' H Hn S. eapply hardlink_same_object; try eassumption; [apply reach_inv; assumption | apply heap_name_ok_iff; assumption].
Qed.
