(* Lemmas for C11, group 5b, part 3: ReadObjectHeader on a first chunk followed by a chain of
   continuation chunks returns the concatenated message list. *)
From HV Require Import Base.Prelude Base.Outcome Base.Bytes Model.CodecOhdr Proofs.CodecOhdr
  Model.CodecOhdrCont Proofs.CodecOhdrCont Proofs.CodecOhdrContChain.

Lemma wf_chain_inv os ls flags a0 b0 ks : wf_chain os ls flags a0 b0 ks = true ->
  size_ok os = true /\ size_ok ls = true /\ flags < 256 /\ N.land flags 55 = 0 /\
  wf_msgs_c a0 = true /\ wf_msgs_c b0 = true /\ chunk0_size os ls a0 b0 (is_nil ks) <= 7 + 255 /\
  forallb wf_ochk ks = true /\ (length ks <= 1024)%nat.
Proof.
  unfold wf_chain. intros H.
  repeat (let X := fresh "X" in apply andb_true_iff in H as [H X]).
  apply N.ltb_lt in X5. apply N.eqb_eq in X4. apply N.leb_le in X1, X. repeat split; auto. blia.
Qed.

Lemma chain_roundtrip os ls sbBE (pre : bytes) flags a0 b0 ks (suf : bytes) :
  wf_chain os ls flags a0 b0 ks = true ->
  let file := build_chain os ls sbBE pre flags a0 b0 ks suf in
  blen file < 9223372036854775808 -> blen file < 256 ^ os -> blen file < 256 ^ ls ->
  (ks = [] -> 1 <= blen suf) ->
  dec_ohdr_c os ls sbBE file (blen pre) = Ok (proj_chain os ls sbBE (blen pre) flags a0 b0 ks).
Proof.
  intros Hwf file Hfile Hfo Hfl Hsuf.
  apply wf_chain_inv in Hwf as (Hos & Hls & Hflag & Hmask & Hwa & Hwb & Hc0 & Hks & Hn).
  pose proof (size_ok_inv _ Hos) as Hos'. pose proof (size_ok_inv _ Hls) as Hls'.
  set (addr := blen pre) in *.
  set (pos := addr + chunk0_size os ls a0 b0 (is_nil ks)).
  set (ms0 := chunk_msgs os ls sbBE a0 b0 (next_link os ls pos ks)).
  set (cs := chunk_size_v2 ms0).
  assert (Hcs : 7 + cs = chunk0_size os ls a0 b0 (is_nil ks)).
  { subst cs ms0. rewrite chunk_msgs_size. unfold chunk0_size. blia. }
  assert (Hcs255 : cs <= 255) by blia.
  set (ochks := build_ochks os ls sbBE pos ks).
  assert (Hfile_eq : file = pre ++ ([79; 72; 68; 82] ++ [2; flags; wrap8 cs] ++ body_v2 ms0) ++ ochks ++ suf) by reflexivity.
  assert (Hw : wrap8 cs = cs) by (unfold wrap8; apply N.mod_small; blia).
  rewrite Hw in Hfile_eq.
  assert (Hbl : blen file = addr + 7 + cs + blen ochks + blen suf).
  { rewrite Hfile_eq, !blen_app, blen_body_v2. fold cs. unfold blen at 2 3; cbn [length]. blia. }
  assert (F1 : file_at file pos ochks).
  { exists (pre ++ [79; 72; 68; 82] ++ [2; flags; cs] ++ body_v2 ms0), suf. split.
    - rewrite Hfile_eq, <- !app_assoc. reflexivity.
    - rewrite !blen_app, blen_body_v2. fold cs addr. change (blen [79; 72; 68; 82]) with 4.
      change (blen [2; flags; cs]) with 3. subst pos. blia. }
  assert (F2 : file_at file (addr + 7) (body_v2 ms0)).
  { exists (pre ++ [79; 72; 68; 82; 2; flags; cs]), (ochks ++ suf). split.
    - rewrite Hfile_eq, <- !app_assoc. reflexivity.
    - rewrite blen_app. fold addr. change (blen [79; 72; 68; 82; 2; flags; cs]) with 7. blia. }
  assert (F6 : file_at file (addr + 6) (le 1 cs)).
  { exists (pre ++ [79; 72; 68; 82; 2; flags]), (body_v2 ms0 ++ ochks ++ suf). split.
    - rewrite Hfile_eq, <- !app_assoc. cbn [le app]. rewrite N.mod_small by blia. reflexivity.
    - rewrite blen_app. fold addr. change (blen [79; 72; 68; 82; 2; flags]) with 6. blia. }
  (* there is an eighth byte *)
  assert (HR : 1 <= cs + blen ochks + blen suf).
  { destruct ks as [|k r]; [specialize (Hsuf eq_refl); blia|].
    cbn [is_nil] in Hcs. unfold chunk0_size, link_size in Hcs. blia. }
  assert (ET : exists t0 T, body_v2 ms0 ++ ochks ++ suf = t0 :: T).
  { destruct (body_v2 ms0 ++ ochks ++ suf) as [|t0 T] eqn:ER; [|eauto].
    exfalso. apply (f_equal blen) in ER. rewrite !blen_app, blen_body_v2 in ER. fold cs in ER.
    change (blen []) with 0 in ER. blia. }
  destruct ET as (t0 & T & ET).
  assert (F0 : file_at file addr [79; 72; 68; 82; 2; flags; cs; t0]).
  { exists pre, T. split; auto. rewrite Hfile_eq, <- !app_assoc. cbn [app]. bnorm. rewrite ET. reflexivity. }
  (* the message loop *)
  assert (Hloop : v2_loop_c (fuel_c file) file os ls false sbBE 4 false (addr + 7) (addr + 7 + cs - 4) [] []
                  = Ok (msgs_chain os ls sbBE addr a0 b0 ks)).
  { unfold msgs_chain. fold pos ms0.
    pose proof (fuel_c_ge file) as Hfc.
    pose proof (ochk_fuel_bound file os ls sbBE Hfile Hfo Hfl ks pos Hks) as Hfb. fold ochks in Hfb.
    pose proof (length_le_chunk a0) as La. pose proof (length_le_chunk b0) as Lb.
    assert (Hlf : blen file = N.of_nat (length file)) by reflexivity.
    destruct ks as [|k r].
    - specialize (Hsuf eq_refl).
      apply v2_loop_c_mono with (f := (length ms0 + S O)%nat).
      + subst ms0. cbn [next_link chunk_msgs] in *. rewrite app_length.
        cbn [is_nil] in Hcs. unfold chunk0_size in Hcs. blia.
      + cbn [msgs_ochks]. rewrite app_nil_r.
        apply loop_chunk_last; auto; try blia.
        subst ms0. cbn [next_link chunk_msgs]. rewrite wf_msgs_c_app, Hwa, Hwb. reflexivity.
    - cbn [forallb] in Hks. pose proof Hks as Hks0. apply andb_true_iff in Hks0 as [Hk _].
      destruct (ochk_head file os ls sbBE Hfile Hfo Hfl pos k r F1 Hk) as (Hsig & _ & Hb & _ & Hs8 & _).
      subst ms0. cbn [next_link chunk_msgs fst snd] in *.
      set (ad := pos + blen (k_between k)) in *.
      set (sz := ochk_size os ls k (is_nil r)) in *.
      apply v2_loop_c_mono with (f := (length a0 + S (length b0 + S (ochk_fuel (k :: r))))%nat).
      + cbn [is_nil] in Hcs. unfold chunk0_size, link_size in Hcs. blia.
      + apply loop_chunk_link; auto; try blia; try (cbn [length]; blia).
        apply ochks_loop; auto;
          try (constructor; [subst ad; blia|constructor]); try (cbn [length] in *; blia). }
  clearbody file. bnorm.
  unfold dec_ohdr_c.
  replace (9223372036854775808 <=? addr) with false by (symmetry; apply N.leb_gt; blia).
  unfold readable at 1.
  replace (addr + 8 <=? blen file) with true by (symmetry; apply N.leb_le; blia).
  cbn [negb].
  rewrite (fa_slice _ _ _ _ F0) by reflexivity.
  cbn [obind].
  change (bytes_eqb (firstn 4 [79; 72; 68; 82; 2; flags; cs; t0]) OHDR) with true. cbv iota.
  change (index [79; 72; 68; 82; 2; flags; cs; t0] 4) with (@Ok N 2).
  change (index [79; 72; 68; 82; 2; flags; cs; t0] 5) with (@Ok N flags).
  cbn [obind]. change (2 =? 1) with false. change (2 =? 2) with true. cbv iota.
  unfold parse_v2_c.
  rewrite (land_bit_false flags 5 55 Hmask) by reflexivity.
  rewrite (land_bit_false flags 4 55 Hmask) by reflexivity.
  rewrite (land_bit_false flags 2 55 Hmask) by reflexivity.
  assert (H3 : N.land flags 3 = 0).
  { change 3 with (N.land 55 3). rewrite N.land_assoc, Hmask. reflexivity. }
  rewrite H3. change (N.shiftl 1 0) with 1.
  rewrite !wrap64_small by blia.
  unfold readable at 1.
  replace (addr + 6 + 1 <=? blen file) with true by (symmetry; apply N.leb_le; blia).
  cbn [negb andb]. change (1 =? 1) with true. cbn [negb andb].
  rewrite (fa_rd_le _ _ 1 1 cs F6) by (auto; blia).
  cbn [obind].
  rewrite !wrap64_small by blia.
  rewrite sub64_4 by blia.
  replace (addr + 6 + 1) with (addr + 7) by blia.
  rewrite Hloop. cbn [obind]. reflexivity.
Qed.

(* one continuation chunk, spelled out *)
Lemma chain_roundtrip_one_cont os ls sbBE (pre : bytes) flags a0 b0 k (suf : bytes) :
  wf_chain os ls flags a0 b0 [k] = true ->
  let file := build_chain os ls sbBE pre flags a0 b0 [k] suf in
  blen file < 9223372036854775808 -> blen file < 256 ^ os -> blen file < 256 ^ ls ->
  dec_ohdr_c os ls sbBE file (blen pre) = Ok (proj_chain os ls sbBE (blen pre) flags a0 b0 [k]).
Proof. intros. apply chain_roundtrip; auto. discriminate. Qed.

(* ---- the hypotheses are satisfiable: two continuation chunks, seven messages ---- *)
Definition ex_m (t : N) (d : bytes) : hmsg := {| hm_type := t; hm_data := d |}.
Definition ex_ks : list ochk :=
  [ {| k_between := [9; 9; 9]; k_a := [ex_m 13 [0; 65; 66]]; k_b := [ex_m 1 [5]]; k_gap := [0; 0]; k_ck := [1; 2; 3; 4] |};
    {| k_between := []; k_a := [ex_m 22 [7; 0; 0; 0]]; k_b := []; k_gap := []; k_ck := [1; 2; 3; 4] |} ].
Definition ex_file : bytes := build_chain 8 8 false [0; 0; 0; 0; 0] 8 [ex_m 1 [1; 2; 3]] [ex_m 3 [4]] ex_ks [].

Lemma chain_example :
  wf_chain 8 8 8 [ex_m 1 [1; 2; 3]] [ex_m 3 [4]] ex_ks = true /\
  blen ex_file = 105 /\
  omap (fun o => (ohp_refcount o, ohp_name o, map hmp_type (ohp_msgs o), map hmp_offset (ohp_msgs o)))
       (dec_ohdr_c 8 8 false ex_file 5)
  = Ok (7, [65; 66], [1; 16; 3; 13; 16; 1; 22], [12; 19; 39; 51; 58; 78; 93]) /\
  dec_ohdr_c 8 8 false ex_file 5 = Ok (proj_chain 8 8 false 5 8 [ex_m 1 [1; 2; 3]] [ex_m 3 [4]] ex_ks) /\
  dec_ohdr false ex_file 5 = Err.
Proof. vm_compute. repeat split; reflexivity. Qed.

(* ---- the reader's refusals ---- *)
Definition ochk_min : bytes := OCHK ++ [1; 1; 0; 0; 85] ++ [0; 0; 0; 0].     (* a 13-byte chunk: one message *)

(* a chunk whose linking message names the chunk itself (address 27, already visited): error, no loop *)
Lemma cont_cycle_refused :
  dec_ohdr_c 8 8 false
    (build_chain 8 8 false [] 0 [] []
       [ {| k_between := []; k_a := []; k_b := [cont_msg 8 8 false 27 28]; k_gap := []; k_ck := [0; 0; 0; 0] |} ] []) 0 = Err.
Proof. vm_compute. reflexivity. Qed.

(* two chunks naming each other *)
Lemma cont_cycle2_refused :
  dec_ohdr_c 8 8 false
    (build_chain 8 8 false [] 0 [] []
       [ {| k_between := []; k_a := []; k_b := []; k_gap := []; k_ck := [0; 0; 0; 0] |};
         {| k_between := []; k_a := []; k_b := [cont_msg 8 8 false 27 28]; k_gap := []; k_ck := [0; 0; 0; 0] |} ] []) 0 = Err.
Proof. vm_compute. reflexivity. Qed.

(* size below 8 is refused; the same file with the right size is read *)
Lemma cont_short_size_refused :
  dec_ohdr_c 8 8 false (build_chain 8 8 false [] 0 [] [cont_msg 8 8 false 27 7] [] ochk_min) 0 = Err /\
  oclass (dec_ohdr_c 8 8 false (build_chain 8 8 false [] 0 [] [cont_msg 8 8 false 27 13] [] ochk_min) 0) = 0.
Proof. vm_compute. split; reflexivity. Qed.

(* no "OCHK" at the named address *)
Lemma cont_bad_signature_refused :
  dec_ohdr_c 8 8 false (build_chain 8 8 false [] 0 [] [cont_msg 8 8 false 28 12] [] ochk_min) 0 = Err /\
  dec_ohdr_c 8 8 false (build_chain 8 8 false [] 0 [] [cont_msg 8 8 false 27 13] [] ([79; 67; 72; 88] ++ skipn 4 ochk_min)) 0 = Err.
Proof. vm_compute. split; reflexivity. Qed.

(* the chunk lies beyond the end of the file *)
Lemma cont_beyond_file_refused :
  dec_ohdr_c 8 8 false (build_chain 8 8 false [] 0 [] [cont_msg 8 8 false 1000 13] [] ochk_min) 0 = Err.
Proof. vm_compute. reflexivity. Qed.
