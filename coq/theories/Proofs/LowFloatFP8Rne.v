(* C20, FP8: the encoders round to the nearest representable value, ties to the even code, with the
   IEEE overflow rule (rne_spec on the exact values X32 / V8, both scaled by 2^149). *)
From HV Require Import Base.Prelude Model.LowFloat Model.LowFloatTie.
From HV Require Import Proofs.LowFloatBase Proofs.LowFloatBF16 Proofs.LowFloatFP8.

(* ------------------------------------------------------------------ grids *)
Lemma grid_mono_adj V n :
  forallb (fun i => V i <? V (i + 1)) (codes_below n) = true -> grid_mono V n.
Proof.
  intros H i j Hij Hj.
  assert (Hstep : forall k, k < n -> V k < V (k + 1)).
  { intros k Hk. apply N.ltb_lt. apply (forall_codes _ n H). exact Hk. }
  induction j using N.peano_ind; [lia|].
  rewrite <- N.add_1_r in *.
  destruct (N.eq_dec i j) as [->|Hne]; [apply Hstep; lia|].
  apply N.lt_trans with (V j); [apply IHj; lia|apply Hstep; lia].
Qed.

Lemma grid43 : grid_mono (V8 E4M3) 120.
Proof. apply grid_mono_adj. vm_compute. reflexivity. Qed.
Lemma grid52 : grid_mono (V8 E5M2) 124.
Proof. apply grid_mono_adj. vm_compute. reflexivity. Qed.

Lemma V8_43 c : V8 E4M3 c = if c / 8 =? 0 then (c mod 8) * 2 ^ 140 else (8 + c mod 8) * 2 ^ (139 + c / 8).
Proof.
  unfold V8, SC. cbn [fM fbias E4M3]. change (2 ^ 3) with 8. change (149 + 1 - 7 - 3) with 140.
  destruct (c / 8 =? 0); [reflexivity|]. f_equal. f_equal. lia.
Qed.
Lemma V8_52 c : V8 E5M2 c = if c / 4 =? 0 then (c mod 4) * 2 ^ 133 else (4 + c mod 4) * 2 ^ (132 + c / 4).
Proof.
  unfold V8, SC. cbn [fM fbias E5M2]. change (2 ^ 2) with 4. change (149 + 1 - 15 - 2) with 133.
  destruct (c / 4 =? 0); [reflexivity|]. f_equal. f_equal. lia.
Qed.

(* subnormal codes and the first normal code lie on one line *)
Lemma V8_43_low c : c <= 8 -> V8 E4M3 c = c * 2 ^ 140.
Proof.
  intro H. destruct (N.eq_dec c 8) as [->|Hne]; [vm_compute; reflexivity|].
  rewrite V8_43. replace (c / 8) with 0 by lia. replace (c mod 8) with c by lia. reflexivity.
Qed.
Lemma V8_52_low c : c <= 4 -> V8 E5M2 c = c * 2 ^ 133.
Proof.
  intro H. destruct (N.eq_dec c 4) as [->|Hne]; [vm_compute; reflexivity|].
  rewrite V8_52. replace (c / 4) with 0 by lia. replace (c mod 4) with c by lia. reflexivity.
Qed.

Lemma V8_43_norm be q : 1 <= be -> q < 8 -> V8 E4M3 (be * 8 + q) = (8 + q) * 2 ^ (139 + be).
Proof.
  intros Hb Hq. rewrite V8_43. replace ((be * 8 + q) / 8) with be by lia.
  replace ((be * 8 + q) mod 8) with q by lia.
  replace (be =? 0) with false by (symmetry; apply N.eqb_neq; lia). reflexivity.
Qed.
Lemma V8_52_norm be q : 1 <= be -> q < 4 -> V8 E5M2 (be * 4 + q) = (4 + q) * 2 ^ (132 + be).
Proof.
  intros Hb Hq. rewrite V8_52. replace ((be * 4 + q) / 4) with be by lia.
  replace ((be * 4 + q) mod 4) with q by lia.
  replace (be =? 0) with false by (symmetry; apply N.eqb_neq; lia). reflexivity.
Qed.

(* the next code is one ulp further, also across the binade boundary *)
Lemma V8_43_succ be q : 1 <= be -> q < 8 ->
  V8 E4M3 (be * 8 + q + 1) = V8 E4M3 (be * 8 + q) + 2 ^ (139 + be).
Proof.
  intros Hb Hq. rewrite (V8_43_norm be q) by assumption.
  destruct (N.eq_dec q 7) as [->|Hne].
  - replace (be * 8 + 7 + 1) with ((be + 1) * 8 + 0) by lia. rewrite V8_43_norm by lia.
    replace (139 + (be + 1)) with (N.succ (139 + be)) by lia. rewrite N.pow_succ_r'. lia.
  - replace (be * 8 + q + 1) with (be * 8 + (q + 1)) by lia. rewrite V8_43_norm by lia. lia.
Qed.
Lemma V8_52_succ be q : 1 <= be -> q < 4 ->
  V8 E5M2 (be * 4 + q + 1) = V8 E5M2 (be * 4 + q) + 2 ^ (132 + be).
Proof.
  intros Hb Hq. rewrite (V8_52_norm be q) by assumption.
  destruct (N.eq_dec q 3) as [->|Hne].
  - replace (be * 4 + 3 + 1) with ((be + 1) * 4 + 0) by lia. rewrite V8_52_norm by lia.
    replace (132 + (be + 1)) with (N.succ (132 + be)) by lia. rewrite N.pow_succ_r'. lia.
  - replace (be * 4 + q + 1) with (be * 4 + (q + 1)) by lia. rewrite V8_52_norm by lia. lia.
Qed.

(* ------------------------------------------------------------------ helpers *)
Lemma X32_eq mag e f : mag = 8388608 * e + f -> f < 8388608 ->
  X32 mag = if e =? 0 then f else (8388608 + f) * 2 ^ (e - 1).
Proof.
  intros -> Hf. unfold X32.
  replace ((8388608 * e + f) / 8388608) with e by lia.
  replace ((8388608 * e + f) mod 8388608) with f by lia. reflexivity.
Qed.

(* rne_shift_spec with the half given explicitly *)
Lemma rne_shift_spec_c x k h : 0 < k -> 2 ^ k = 2 * h ->
  exists q r, x = q * (2 * h) + r /\ r < 2 * h /\
    ((rne_shift x k = q /\ (r < h \/ (r = h /\ N.even q = true))) \/
     (rne_shift x k = q + 1 /\ (h < r \/ (r = h /\ N.even q = false)))).
Proof.
  intros Hk Hp. destruct (rne_shift_spec x k Hk) as (q & r & h' & Hx & Hr & Hp' & Hh & C).
  assert (h' = h) by lia. subst h'. exists q, r. auto.
Qed.

(* bracket lemma in the shape rne_shift_spec delivers (u = 2h), result below infc *)
Lemma rne_spec_bracket_h V infc infcode X c0 c A P r h :
  grid_mono V infc -> N.even infc = true ->
  c0 < infc -> 0 < P -> r <= 2 * h ->
  V c0 = A -> V (c0 + 1) = A + 2 * h * P -> X = A + r * P ->
  (c = c0 /\ (r < h \/ (r = h /\ N.even c0 = true))) \/
  (c = c0 + 1 /\ (h < r \/ (r = h /\ N.even c0 = false))) ->
  rne_spec V infc infcode X (if infc <=? c then infcode else c) = true.
Proof.
  intros HV Hev Hc0 HP Hr H0 H1 HX Hc.
  apply (rne_spec_bracket V infc infcode X c0 c A P r (2 * h)); auto.
  destruct Hc as [[-> Hc]|[-> Hc]]; [left|right]; (split; [reflexivity|]);
    (destruct Hc as [Hc|[Hc E]]; [left; lia|right; split; [lia|exact E]]).
Qed.

Lemma rne_spec_bracket_fin V infc infcode X c0 c A P r h :
  grid_mono V infc -> N.even infc = true ->
  c0 < infc -> 0 < P -> r <= 2 * h -> c < infc ->
  V c0 = A -> V (c0 + 1) = A + 2 * h * P -> X = A + r * P ->
  (c = c0 /\ (r < h \/ (r = h /\ N.even c0 = true))) \/
  (c = c0 + 1 /\ (h < r \/ (r = h /\ N.even c0 = false))) ->
  rne_spec V infc infcode X c = true.
Proof.
  intros HV Hev Hc0 HP Hr Hc H0 H1 HX HC.
  assert (E : (if infc <=? c then infcode else c) = c) by (destruct (N.leb_spec infc c); lia).
  rewrite <- E at 1. apply (rne_spec_bracket_h V infc infcode X c0 c A P r h); auto.
Qed.

Lemma even_shift k q : N.even (k * 2 + q) = N.even q.
Proof. replace (k * 2 + q) with (q + 2 * k) by lia. apply N.even_add_mul_2. Qed.

(* ------------------------------------------------------------------ E4M3 *)
(* subnormal binade e (k = 141 - e): x = 2^23 + f = q*2^k + r, code q or q+1, all on the line c*2^140 *)
Lemma sub43 mag e f k h P :
  mag = 8388608 * e + f -> f < 8388608 -> e <> 0 ->
  0 < k -> 2 ^ k = 2 * h -> 2 ^ (e - 1) = P -> 2 * h * P = 2 ^ 140 -> 16777216 <= 8 * (2 * h) ->
  rne_spec (V8 E4M3) 120 127 (X32 mag) (rne_shift (8388608 + f) k) = true.
Proof.
  intros Hm Hf He Hk Hp HP HU Hq8.
  destruct (rne_shift_spec_c (8388608 + f) k h Hk Hp) as (q & r & Hx & Hr & C).
  assert (HPpos : 0 < P) by (rewrite <- HP; apply pow2_pos).
  assert (Hq : q < 8) by nia.
  apply (rne_spec_bracket_fin (V8 E4M3) 120 127 (X32 mag) q _ (q * 2 ^ 140) P r h).
  - apply grid43.
  - reflexivity.
  - lia.
  - exact HPpos.
  - lia.
  - destruct C as [[-> _]|[-> _]]; lia.
  - apply V8_43_low. lia.
  - rewrite V8_43_low by lia. rewrite HU. lia.
  - rewrite (X32_eq mag e f Hm Hf). replace (e =? 0) with false by (symmetry; apply N.eqb_neq; exact He).
    rewrite HP, Hx, <- HU. lia.
  - exact C.
Qed.

Lemma fp8_rne_E4M3 mag : mag <= 2139095040 -> fp8_rne_ok E4M3 mag (fp8_enc_mag E4M3 mag) = true.
Proof.
  intro Hmag. unfold fp8_rne_ok. change (f_expmask E4M3) with 120. rewrite enc_mag_E4M3. cbv zeta.
  assert (Hm := N.div_mod mag 8388608). assert (Hf := N.mod_lt mag 8388608).
  remember (mag / 8388608) as e eqn:Ee. remember (mag mod 8388608) as f eqn:Ef.
  assert (Hm' : mag = 8388608 * e + f) by lia. assert (Hf' : f < 8388608) by lia. clear Hm Hf Ee Ef.
  destruct (N.ltb_spec 135 e) as [Hov|Hov].
  { (* exponent beyond the format *)
    apply rne_spec_overflow; [apply grid43|lia|].
    assert (X32 1140850688 <= X32 mag) by (apply X32_mono; lia).
    assert (V8 E4M3 120 <= X32 1140850688) by (apply N.leb_le; vm_compute; reflexivity). lia. }
  destruct (N.ltb_spec e 121) as [Hsub|Hnorm].
  - destruct (N.ltb_spec e 117) as [Hun|Hsn].
    + (* below half the smallest subnormal *)
      assert (Hx : X32 mag <= X32 981467135) by (apply X32_mono; lia).
      assert (Hu : 2 * X32 981467135 < 2 ^ 140) by (vm_compute; reflexivity).
      apply (rne_spec_bracket_fin (V8 E4M3) 120 127 (X32 mag) 0 0 0 1 (X32 mag) (2 ^ 139)).
      * apply grid43.
      * reflexivity.
      * lia.
      * lia.
      * replace (2 ^ 140) with (2 * 2 ^ 139) in Hu by (vm_compute; reflexivity). lia.
      * lia.
      * vm_compute. reflexivity.
      * vm_compute. reflexivity.
      * lia.
      * left. split; [reflexivity|]. left.
        replace (2 ^ 140) with (2 * 2 ^ 139) in Hu by (vm_compute; reflexivity). lia.
    + assert (Hc : e = 117 \/ e = 118 \/ e = 119 \/ e = 120) by lia.
      destruct Hc as [-> | [-> | [-> | -> ]]]; csub.
      * apply (sub43 mag 117 f 24 8388608 (2 ^ 116)); auto; try lia; vm_compute; reflexivity.
      * apply (sub43 mag 118 f 23 4194304 (2 ^ 117)); auto; try lia; vm_compute; reflexivity.
      * apply (sub43 mag 119 f 22 2097152 (2 ^ 118)); auto; try lia; vm_compute; reflexivity.
      * apply (sub43 mag 120 f 21 1048576 (2 ^ 119)); auto; try lia; vm_compute; reflexivity.
  - (* normal *)
    destruct (rne_shift_spec_c f 20 524288) as (q & r & Hx & Hr & C); [lia|reflexivity|].
    assert (Hq : q < 8) by lia.
    destruct (N.eq_dec e 135) as [->|He].
    { (* exponent field would be 15: beyond the largest finite value *)
      replace (120 <=? (135 + 7 - 127) * 8 + rne_shift f 20) with true by (symmetry; apply N.leb_le; lia).
      apply rne_spec_overflow; [apply grid43|lia|].
      assert (X32 1132462080 <= X32 mag) by (apply X32_mono; lia).
      assert (V8 E4M3 120 <= X32 1132462080) by (apply N.leb_le; vm_compute; reflexivity). lia. }
    replace (e + 7 - 127) with (e - 120) by lia.
    set (be := e - 120). assert (Hbe : 1 <= be <= 14) by lia.
    assert (HP : 0 < 2 ^ (e - 1)) by apply pow2_pos.
    assert (Hpow : 2 ^ (139 + be) = 1048576 * 2 ^ (e - 1)).
    { replace (139 + be) with (20 + (e - 1)) by lia. rewrite N.pow_add_r. reflexivity. }
    apply (rne_spec_bracket_h (V8 E4M3) 120 127 (X32 mag) (be * 8 + q) _
             ((8 + q) * (1048576 * 2 ^ (e - 1))) (2 ^ (e - 1)) r 524288).
    + apply grid43.
    + reflexivity.
    + lia.
    + exact HP.
    + lia.
    + rewrite V8_43_norm by lia. rewrite Hpow. reflexivity.
    + rewrite V8_43_succ, V8_43_norm by lia. rewrite Hpow. lia.
    + rewrite (X32_eq mag e f Hm' Hf'). replace (e =? 0) with false by (symmetry; apply N.eqb_neq; lia).
      rewrite Hx. set (P := 2 ^ (e - 1)). lia.
    + replace (be * 8) with (be * 4 * 2) by lia. rewrite even_shift.
      destruct C as [[-> C]|[-> C]]; [left|right]; (split; [lia|exact C]).
Qed.

(* ------------------------------------------------------------------ E5M2 *)
Lemma sub52 mag e f k h P :
  mag = 8388608 * e + f -> f < 8388608 -> e <> 0 ->
  0 < k -> 2 ^ k = 2 * h -> 2 ^ (e - 1) = P -> 2 * h * P = 2 ^ 133 -> 16777216 <= 4 * (2 * h) ->
  rne_spec (V8 E5M2) 124 127 (X32 mag) (rne_shift (8388608 + f) k) = true.
Proof.
  intros Hm Hf He Hk Hp HP HU Hq8.
  destruct (rne_shift_spec_c (8388608 + f) k h Hk Hp) as (q & r & Hx & Hr & C).
  assert (HPpos : 0 < P) by (rewrite <- HP; apply pow2_pos).
  assert (Hq : q < 4) by nia.
  apply (rne_spec_bracket_fin (V8 E5M2) 124 127 (X32 mag) q _ (q * 2 ^ 133) P r h).
  - apply grid52.
  - reflexivity.
  - lia.
  - exact HPpos.
  - lia.
  - destruct C as [[-> _]|[-> _]]; lia.
  - apply V8_52_low. lia.
  - rewrite V8_52_low by lia. rewrite HU. lia.
  - rewrite (X32_eq mag e f Hm Hf). replace (e =? 0) with false by (symmetry; apply N.eqb_neq; exact He).
    rewrite HP, Hx, <- HU. lia.
  - exact C.
Qed.

Lemma fp8_rne_E5M2 mag : mag <= 2139095040 -> fp8_rne_ok E5M2 mag (fp8_enc_mag E5M2 mag) = true.
Proof.
  intro Hmag. unfold fp8_rne_ok. change (f_expmask E5M2) with 124. rewrite enc_mag_E5M2. cbv zeta.
  assert (Hm := N.div_mod mag 8388608). assert (Hf := N.mod_lt mag 8388608).
  remember (mag / 8388608) as e eqn:Ee. remember (mag mod 8388608) as f eqn:Ef.
  assert (Hm' : mag = 8388608 * e + f) by lia. assert (Hf' : f < 8388608) by lia. clear Hm Hf Ee Ef.
  destruct (N.ltb_spec 143 e) as [Hov|Hov].
  { apply rne_spec_overflow; [apply grid52|lia|].
    assert (X32 1207959552 <= X32 mag) by (apply X32_mono; lia).
    assert (V8 E5M2 124 <= X32 1207959552) by (apply N.leb_le; vm_compute; reflexivity). lia. }
  destruct (N.ltb_spec e 113) as [Hsub|Hnorm].
  - destruct (N.ltb_spec e 110) as [Hun|Hsn].
    + assert (Hx : X32 mag <= X32 922746879) by (apply X32_mono; lia).
      assert (Hu : 2 * X32 922746879 < 2 ^ 133) by (vm_compute; reflexivity).
      apply (rne_spec_bracket_fin (V8 E5M2) 124 127 (X32 mag) 0 0 0 1 (X32 mag) (2 ^ 132)).
      * apply grid52.
      * reflexivity.
      * lia.
      * lia.
      * replace (2 ^ 133) with (2 * 2 ^ 132) in Hu by (vm_compute; reflexivity). lia.
      * lia.
      * vm_compute. reflexivity.
      * vm_compute. reflexivity.
      * lia.
      * left. split; [reflexivity|]. left.
        replace (2 ^ 133) with (2 * 2 ^ 132) in Hu by (vm_compute; reflexivity). lia.
    + assert (Hc : e = 110 \/ e = 111 \/ e = 112) by lia.
      destruct Hc as [-> | [-> | -> ]]; csub.
      * apply (sub52 mag 110 f 24 8388608 (2 ^ 109)); auto; try lia; vm_compute; reflexivity.
      * apply (sub52 mag 111 f 23 4194304 (2 ^ 110)); auto; try lia; vm_compute; reflexivity.
      * apply (sub52 mag 112 f 22 2097152 (2 ^ 111)); auto; try lia; vm_compute; reflexivity.
  - destruct (rne_shift_spec_c f 21 1048576) as (q & r & Hx & Hr & C); [lia|reflexivity|].
    assert (Hq : q < 4) by lia.
    destruct (N.eq_dec e 143) as [->|He].
    { replace (124 <=? (143 + 15 - 127) * 4 + rne_shift f 21) with true by (symmetry; apply N.leb_le; lia).
      apply rne_spec_overflow; [apply grid52|lia|].
      assert (X32 1199570944 <= X32 mag) by (apply X32_mono; lia).
      assert (V8 E5M2 124 <= X32 1199570944) by (apply N.leb_le; vm_compute; reflexivity). lia. }
    replace (e + 15 - 127) with (e - 112) by lia.
    set (be := e - 112). assert (Hbe : 1 <= be <= 30) by lia.
    assert (HP : 0 < 2 ^ (e - 1)) by apply pow2_pos.
    assert (Hpow : 2 ^ (132 + be) = 2097152 * 2 ^ (e - 1)).
    { replace (132 + be) with (21 + (e - 1)) by lia. rewrite N.pow_add_r. reflexivity. }
    apply (rne_spec_bracket_h (V8 E5M2) 124 127 (X32 mag) (be * 4 + q) _
             ((4 + q) * (2097152 * 2 ^ (e - 1))) (2 ^ (e - 1)) r 1048576).
    + apply grid52.
    + reflexivity.
    + lia.
    + exact HP.
    + lia.
    + rewrite V8_52_norm by lia. rewrite Hpow. reflexivity.
    + rewrite V8_52_succ, V8_52_norm by lia. rewrite Hpow. lia.
    + rewrite (X32_eq mag e f Hm' Hf'). replace (e =? 0) with false by (symmetry; apply N.eqb_neq; lia).
      rewrite Hx. set (P := 2 ^ (e - 1)). lia.
    + replace (be * 4) with (be * 2 * 2) by lia. rewrite even_shift.
      destruct C as [[-> C]|[-> C]]; [left|right]; (split; [lia|exact C]).
Qed.

(* ------------------------------------------------------------------ the specification is not vacuous *)
(* on a tie the spec accepts the even code and rejects the odd neighbour; overflow tie must give 0x7F *)
Example rne_tie_accepts : fp8_rne_ok E4M3 1065877504 56 = true. Proof. vm_compute. reflexivity. Qed.
Example rne_tie_rejects : fp8_rne_ok E4M3 1065877504 57 = false. Proof. vm_compute. reflexivity. Qed.
Example rne_overflow_accepts : fp8_rne_ok E4M3 1131937792 127 = true. Proof. vm_compute. reflexivity. Qed.
Example rne_overflow_rejects : fp8_rne_ok E4M3 1131937792 119 = false. Proof. vm_compute. reflexivity. Qed.
Example rne_rejects_far : fp8_rne_ok E5M2 1065353216 61 = false. Proof. vm_compute. reflexivity. Qed.
Example rne_accepts_one : fp8_rne_ok E5M2 1065353216 60 = true. Proof. vm_compute. reflexivity. Qed.
