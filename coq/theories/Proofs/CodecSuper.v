(* Lemmas for C11, group 4 (superblock v0, v2/v3). *)
From HV Require Import Base.Prelude Base.Outcome Base.Bytes Model.CodecSuper.

Lemma u64_lt v : u64 v = true -> v < 256 ^ 8.
Proof. unfold u64. intros H. apply N.ltb_lt in H. exact H. Qed.

Lemma firstn_short (l : list N) n : (length l <= n)%nat -> firstn n l = l.
Proof. apply firstn_all2. Qed.

Lemma read_value_le (pre : list N) v (suf : list N) off :
  off = blen pre -> v < 256 ^ 8 -> off + 8 <= blen (pre ++ le 8 v ++ suf) ->
  read_value (pre ++ le 8 v ++ suf) off 8 false = Ok v.
Proof.
  intros Hoff Hv Hlen. unfold read_value.
  replace (blen (pre ++ le 8 v ++ suf) <? off + 8) with false by (symmetry; apply N.ltb_ge; exact Hlen).
  change (valid_size 8) with true. cbv iota.
  apply (rd_le_at pre 8 8); auto.
Qed.

(* ---- version 0 ---- *)

Definition v0_head (base eof : N) : bytes :=
  signature ++ [0; 0; 0; 0; 0; 8; 8; 0] ++ le 2 4 ++ le 2 16 ++ le 4 0
  ++ le 8 base ++ le 8 UNDEF ++ le 8 eof ++ le 8 UNDEF ++ le 8 0.

Lemma blen_v0_head base eof : blen (v0_head base eof) = 64.
Proof. unfold v0_head, signature. rewrite !blen_app, !blen_le. reflexivity. Qed.

Lemma v0_head_reads base eof (X : list N) :
  let buf := v0_head base eof ++ X in
  slice buf 0 8 = Ok signature /\ index buf 8 = Ok 0 /\ index buf 13 = Ok 8 /\ index buf 14 = Ok 8.
Proof.
  intros buf. subst buf. unfold v0_head. rewrite <- !app_assoc. split; [|split; [|split]].
  - apply (slice_app' [] signature); reflexivity.
  - reflexivity.
  - reflexivity.
  - reflexivity.
Qed.

(* the round trips hold for both variants of the superblock sizes switch: the writer emits 8-byte sizes, on which they agree *)
Lemma superblock_v0_roundtrip_gen rep x : wf_superblock x = true -> sp_version x = 0 ->
  dec_superblock_gen rep (enc_superblock x) = Ok (proj_superblock x).
Proof.
  unfold wf_superblock. intros H Hv.
  apply andb_true_iff in H as [H Heof]. apply andb_true_iff in H as [H Hhp].
  apply andb_true_iff in H as [H Hbt]. apply andb_true_iff in H as [H Hext].
  apply andb_true_iff in H as [H Hroot]. apply andb_true_iff in H as [Hok Hbase].
  apply u64_lt in Heof, Hhp, Hbt, Hext, Hroot, Hbase.
  destruct x as [ver os ls base root ext bt hp eof]; cbn [sp_version sp_offsize sp_lensize sp_base sp_root
    sp_superext sp_rootbtree sp_rootheap sp_eof] in *. subst ver.
  unfold enc_superblock, proj_superblock. cbn [sp_version sp_offsize sp_lensize sp_base sp_root
    sp_superext sp_rootbtree sp_rootheap sp_eof]. change (0 =? 0) with true. cbv iota.
  set (E := signature ++ [0; 0; 0; 0; 0; 8; 8; 0] ++ le 2 4 ++ le 2 16 ++ le 4 0
    ++ le 8 base ++ le 8 UNDEF ++ le 8 eof ++ le 8 UNDEF
    ++ le 8 0 ++ le 8 root ++ le 4 1 ++ le 4 0 ++ le 8 bt ++ le 8 hp).
  assert (EE : E = v0_head base eof ++ le 8 root ++ (le 4 1 ++ le 4 0) ++ le 8 bt ++ le 8 hp)
    by (subst E; unfold v0_head; rewrite <- !app_assoc; reflexivity).
  assert (LE96 : blen E = 96)
    by (rewrite EE, !blen_app, blen_v0_head, !blen_le; reflexivity).
  unfold dec_superblock_gen. rewrite LE96. change (N.min 96 128) with 96. change (96 <? 48) with false. cbv iota.
  rewrite firstn_short by (unfold blen in LE96; blia).
  change (N.to_nat (128 - 96)) with 32%nat.
  set (Z := zeros 32).
  assert (LB : blen (E ++ Z) = 128) by (rewrite blen_app, LE96; reflexivity).
  destruct (v0_head_reads base eof (le 8 root ++ (le 4 1 ++ le 4 0) ++ le 8 bt ++ le 8 hp ++ Z))
    as (R0 & R8 & R13 & R14).
  assert (EB : E ++ Z = v0_head base eof ++ le 8 root ++ (le 4 1 ++ le 4 0) ++ le 8 bt ++ le 8 hp ++ Z)
    by (rewrite EE, <- !app_assoc; reflexivity).
  rewrite EB in *. rewrite R0. cbn [obind]. change (bytes_eqb signature signature) with true. cbn [negb].
  rewrite R8. cbn [obind]. change (0 =? 0) with true. cbn [orb negb]. rewrite R13, R14. cbn [obind].
  change (8 =? 0) with false. cbv iota. change (valid_size 8) with true. cbn [andb negb].
  replace (if rep then 24 + 4 * 8 + 8 else 64) with 64 by (destruct rep; reflexivity).
  replace (if rep then 24 + 4 * 8 + 2 * 8 + 8 else 80) with 80 by (destruct rep; reflexivity).
  replace (if rep then 24 + 4 * 8 + 2 * 8 + 8 + 8 else 88) with 88 by (destruct rep; reflexivity).
  (* root at 64 *)
  rewrite (read_value_le (v0_head base eof) root) by (auto; rewrite ?blen_v0_head, ?LB; auto; blia).
  cbn [obind].
  (* b-tree at 80 *)
  assert (A1 : v0_head base eof ++ le 8 root ++ (le 4 1 ++ le 4 0) ++ le 8 bt ++ le 8 hp ++ Z
             = (v0_head base eof ++ le 8 root ++ le 4 1 ++ le 4 0) ++ le 8 bt ++ le 8 hp ++ Z)
    by (rewrite <- !app_assoc; reflexivity).
  rewrite A1 in *.
  rewrite (read_value_le (v0_head base eof ++ le 8 root ++ le 4 1 ++ le 4 0) bt)
    by (auto; rewrite ?LB, ?blen_app, ?blen_v0_head, ?blen_le; auto; blia).
  cbn [obind].
  (* heap at 88 *)
  assert (A2 : (v0_head base eof ++ le 8 root ++ le 4 1 ++ le 4 0) ++ le 8 bt ++ le 8 hp ++ Z
             = ((v0_head base eof ++ le 8 root ++ le 4 1 ++ le 4 0) ++ le 8 bt) ++ le 8 hp ++ Z)
    by (rewrite <- !app_assoc; reflexivity).
  rewrite A2 in *.
  rewrite (read_value_le ((v0_head base eof ++ le 8 root ++ le 4 1 ++ le 4 0) ++ le 8 bt) hp)
    by (auto; rewrite ?LB, ?blen_app, ?blen_v0_head, ?blen_le; auto; blia).
  cbn [obind]. reflexivity.
Qed.

(* ---- version 2 / 3 ---- *)

Lemma v2_head_reads ver (X : list N) :
  let buf := signature ++ [ver; 8; 8; 0] ++ X in
  slice buf 0 8 = Ok signature /\ index buf 8 = Ok ver /\ index buf 9 = Ok 8 /\ index buf 10 = Ok 8.
Proof.
  intros buf. subst buf. split; [|split; [|split]].
  - apply (slice_app' [] signature); reflexivity.
  - reflexivity.
  - reflexivity.
  - reflexivity.
Qed.

Lemma superblock_v2_roundtrip_gen rep x : wf_superblock x = true -> sp_version x <> 0 ->
  dec_superblock_gen rep (enc_superblock x) = Ok (proj_superblock x).
Proof.
  unfold wf_superblock. intros H Hv.
  apply andb_true_iff in H as [H Heof]. apply andb_true_iff in H as [H Hhp].
  apply andb_true_iff in H as [H Hbt]. apply andb_true_iff in H as [H Hext].
  apply andb_true_iff in H as [H Hroot]. apply andb_true_iff in H as [Hok Hbase].
  apply u64_lt in Heof, Hhp, Hbt, Hext, Hroot, Hbase.
  unfold encok_superblock in Hok. apply andb_true_iff in Hok as [Hok _]. apply andb_true_iff in Hok as [Hver _].
  destruct x as [ver os ls base root ext bt hp eof]; cbn [sp_version sp_offsize sp_lensize sp_base sp_root
    sp_superext sp_rootbtree sp_rootheap sp_eof] in *.
  unfold enc_superblock, proj_superblock. cbn [sp_version sp_offsize sp_lensize sp_base sp_root
    sp_superext sp_rootbtree sp_rootheap sp_eof].
  replace (ver =? 0) with false by (symmetry; apply N.eqb_neq; exact Hv). cbv iota.
  set (ext' := if ext =? 0 then UNDEF else ext).
  assert (Hext' : ext' < 256 ^ 8) by (subst ext'; destruct (ext =? 0); [reflexivity | exact Hext]).
  set (body := signature ++ [ver; 8; 8; 0] ++ le 8 base ++ le 8 ext' ++ le 8 eof ++ le 8 root).
  set (crc := le 4 (crc32_ieee body)).
  assert (LBody : blen body = 44) by (subst body; unfold signature; rewrite !blen_app, !blen_le; reflexivity).
  assert (LE48 : blen (body ++ crc) = 48) by (subst crc; rewrite blen_app, LBody, blen_le; reflexivity).
  unfold dec_superblock_gen. rewrite LE48. change (N.min 48 128) with 48. change (48 <? 48) with false. cbv iota.
  rewrite firstn_short by (unfold blen in LE48; blia).
  change (N.to_nat (128 - 48)) with 80%nat.
  set (Z := zeros 80).
  assert (LB : blen ((body ++ crc) ++ Z) = 128) by (rewrite blen_app, LE48; reflexivity).
  assert (EB : (body ++ crc) ++ Z
             = signature ++ [ver; 8; 8; 0] ++ le 8 base ++ le 8 ext' ++ le 8 eof ++ le 8 root ++ crc ++ Z)
    by (subst body; rewrite <- !app_assoc; reflexivity).
  destruct (v2_head_reads ver (le 8 base ++ le 8 ext' ++ le 8 eof ++ le 8 root ++ crc ++ Z))
    as (R0 & R8 & R9 & R10).
  rewrite EB in *. rewrite R0. cbn [obind]. change (bytes_eqb signature signature) with true. cbn [negb].
  rewrite R8. cbn [obind].
  assert (Hv0 : (ver =? 0) = false) by (apply N.eqb_neq; exact Hv).
  rewrite Hv0 in Hver |- *.
  cbn [orb] in Hver |- *. rewrite Hver. cbn [negb]. rewrite R9, R10. cbn [obind].
  change (N.testbit 8 0) with false. change (valid_size 8) with true. change (spec_size 8) with true. cbv iota.
  match goal with |- context [if ?c then ?a else ?b] =>
    match c with context [rep] => replace (if c then a else b) with b by (destruct rep; reflexivity) end end.
  cbn [obind]. cbv beta iota.
  change (8 =? 0) with false. cbv iota. change (valid_size 8) with true. cbn [andb negb].
  change (12 + 8) with 20. change (12 + 3 * 8) with 36.
  set (H12 := signature ++ [ver; 8; 8; 0]).
  assert (L12 : blen H12 = 12) by reflexivity.
  assert (A0 : signature ++ [ver; 8; 8; 0] ++ le 8 base ++ le 8 ext' ++ le 8 eof ++ le 8 root ++ crc ++ Z
             = H12 ++ le 8 base ++ le 8 ext' ++ le 8 eof ++ le 8 root ++ crc ++ Z)
    by (subst H12; rewrite <- !app_assoc; reflexivity).
  rewrite A0 in *.
  rewrite (read_value_le H12 base) by (auto; rewrite ?LB; auto; blia). cbn [obind].
  assert (A1 : H12 ++ le 8 base ++ le 8 ext' ++ le 8 eof ++ le 8 root ++ crc ++ Z
             = (H12 ++ le 8 base) ++ le 8 ext' ++ le 8 eof ++ le 8 root ++ crc ++ Z)
    by (rewrite <- !app_assoc; reflexivity).
  rewrite A1 in *.
  rewrite (read_value_le (H12 ++ le 8 base) ext')
    by (auto; rewrite ?LB, ?blen_app, ?L12, ?blen_le; auto; blia). cbn [obind].
  assert (A2 : (H12 ++ le 8 base) ++ le 8 ext' ++ le 8 eof ++ le 8 root ++ crc ++ Z
             = ((H12 ++ le 8 base) ++ le 8 ext' ++ le 8 eof) ++ le 8 root ++ crc ++ Z)
    by (rewrite <- !app_assoc; reflexivity).
  rewrite A2 in *.
  rewrite (read_value_le ((H12 ++ le 8 base) ++ le 8 ext' ++ le 8 eof) root)
    by (auto; rewrite ?LB, ?blen_app, ?L12, ?blen_le; auto; blia). cbn [obind].
  reflexivity.
Qed.

Lemma superblock_roundtrip_gen rep x : wf_superblock x = true ->
  dec_superblock_gen rep (enc_superblock x) = Ok (proj_superblock x).
Proof.
  intros H. destruct (N.eq_dec (sp_version x) 0).
  - now apply superblock_v0_roundtrip_gen.
  - now apply superblock_v2_roundtrip_gen.
Qed.

Lemma superblock_roundtrip x : wf_superblock x = true ->
  dec_superblock (enc_superblock x) = Ok (proj_superblock x).
Proof. apply superblock_roundtrip_gen. Qed.

Lemma superblock_blen x : blen (enc_superblock x) = size_superblock x.
Proof.
  unfold enc_superblock, size_superblock, signature. destruct (sp_version x =? 0);
    rewrite !blen_app, !blen_le; reflexivity.
Qed.
