(* C03 end to end: every step of Model/TreeImage.v preserves the layout invariant Placed (Proofs/TreeImagePlaced.v), refused
   calls included (they leave the state as it is, or - only in the branches that are unreachable after checkLinkable - an
   allocated, unlinked item). *)
From HV Require Import Base.Prelude Base.Outcome Base.Bytes Model.RobustAlloc Model.RobustGroup Model.GroupWire.
From HV Require Import Model.CodecSuper Model.CodecOhdr Model.CodecLink.
From HV Require Import Proofs.GroupWireHeap Proofs.GroupWireSnod.
From HV Require Import Model.FileImage Model.TreeImage Proofs.FileImage Proofs.TreeImageLink Proofs.TreeImagePlaced.
From HV Require Model.GroupNS.

Local Open Scope N_scope.

Lemma link_step st lay1 parent nm oa f2 :
  t_file st = image lay1 -> Forall item_ok lay1 -> 48 + lsize lay1 < LIM -> oa < 18446744073709551616 ->
  (forall ha sa, parent_addrs st parent = Some (ha, sa) -> sa = ha + 288 /\ GroupIn lay1 ha) ->
  link_to_parent st parent nm oa = Ok f2 ->
  exists lay2, f2 = image lay2 /\ Forall item_ok lay2 /\ same_shape lay1 lay2.
Proof.
  intros Hf Hok Hb Hoa Hreg H. unfold link_to_parent in H.
  destruct (prepare_link st parent nm oa) as [[ha sa]| |] eqn:EP; try discriminate. cbn [obind] in H.
  apply prepare_link_addrs in EP. destruct (Hreg _ _ EP) as [-> (l1 & seg & s & hb & l2 & -> & ->)].
  change (link_both (t_file st) (48 + lsize l1) (48 + lsize l1 + 288) nm oa = Ok f2) in H. rewrite Hf in H.
  destruct (link_image l1 seg s hb l2 nm oa f2 Hok Hb Hoa H) as (seg' & s1 & Hok' & ->).
  exists (l1 ++ IGroup seg' s1 hb :: l2). split; [reflexivity|]. split.
  - apply Forall_app in Hok as [H1 H2]. apply Forall_cons_iff in H2 as [_ H2]. apply Forall_app. split; [exact H1|]. now constructor.
  - apply same_shape_upd; [reflexivity | auto].
Qed.

Section Step.
Variable st : tstate.
Variable lay : list item.
Hypothesis Hf : t_file st = image lay.
Hypothesis Hok : Forall item_ok lay.
Hypothesis Hroot : GroupIn lay 48.
Hypothesis Hreg : forall p ha sa, NS.plookup p (t_groups st) = Some (ha, sa) -> sa = ha + 288 /\ GroupIn lay ha.

Lemma placed_here : Placed st.
Proof. exists lay. auto. Qed.

Lemma parent_reg lay1 f1 parent : (forall ha, GroupIn lay ha -> GroupIn lay1 ha) ->
  forall ha sa, parent_addrs (with_file st f1) parent = Some (ha, sa) -> sa = ha + 288 /\ GroupIn lay1 ha.
Proof.
  intros Hmono ha sa H. unfold parent_addrs in H. cbn [with_file t_groups] in H.
  destruct (NS.is_root_parent parent).
  - inversion H; subst. split; [reflexivity|]. apply Hmono. exact Hroot.
  - destruct (Hreg _ _ _ H) as [E G]. split; [exact E | now apply Hmono].
Qed.

(* an appended item followed by linkToParent *)
Lemma append_fail it : item_ok it -> Placed (with_file st (image (lay ++ [it]))).
Proof.
  intros Hit. exists (lay ++ [it]). split; [reflexivity|].
  split; [apply Forall_app; split; [exact Hok | now constructor]|]. split; [now apply GroupIn_app|].
  cbn [with_file t_groups]. intros p ha sa H. destruct (Hreg _ _ _ H). split; auto. now apply GroupIn_app.
Qed.
Lemma append_link_ok it parent nm oa f2 (groups' : list (bytes * (N * N))) :
  item_ok it -> 48 + lsize (lay ++ [it]) < LIM -> oa < 18446744073709551616 ->
  (forall lay2, same_shape (lay ++ [it]) lay2 ->
     forall p ha sa, NS.plookup p groups' = Some (ha, sa) -> sa = ha + 288 /\ GroupIn lay2 ha) ->
  link_to_parent (with_file st (image (lay ++ [it]))) parent nm oa = Ok f2 ->
  Placed {| t_file := f2; t_groups := groups' |}.
Proof.
  intros Hit Hb Hoa Hg' EL.
  assert (Hok1 : Forall item_ok (lay ++ [it])) by (apply Forall_app; split; [exact Hok | now constructor]).
  assert (Hmono : forall ha, GroupIn lay ha -> GroupIn (lay ++ [it]) ha) by (intros; now apply GroupIn_app).
  destruct (link_step (with_file st (image (lay ++ [it]))) (lay ++ [it]) parent nm oa f2 eq_refl Hok1 Hb Hoa
             (parent_reg _ _ parent Hmono) EL) as (lay2 & -> & Hok2 & HS).
  exists lay2. split; [reflexivity|]. split; [exact Hok2|]. split.
  - apply (same_shape_group _ _ 48 HS). now apply Hmono.
  - cbn [t_groups]. now apply Hg'.
Qed.

Lemma blen_file : blen (t_file st) = 48 + lsize lay.
Proof. rewrite Hf. now apply blen_image. Qed.

Theorem create_group_preserves p : blen (t_file st) + 3000 < LIM -> Placed (fst (t_create_group st p)).
Proof.
  intros Hb. rewrite blen_file in Hb. pose proof placed_here as P. unfold t_create_group.
  destruct (negb (NS.validate_group_path p)); [exact P|].
  destruct (NS.parse_path (NS.trim_suffix_slash p)) as [parent nm].
  destruct (negb (parent_registered st parent)); [exact P|].
  destruct (prepare_link st parent nm 0); [|exact P|exact P].
  rewrite Hf. pose proof (alloc_group_image lay Hok Hb) as EA. cbv zeta in EA. rewrite EA. clear EA.
  set (ha := 48 + lsize lay).
  destruct (link_to_parent (with_file st (image (lay ++ [new_group_item ha]))) parent nm (ha + 2120)) as [f2| |] eqn:EL; cbn [fst];
    [| apply append_fail, new_group_item_ok | apply append_fail, new_group_item_ok].
  apply (append_link_ok (new_group_item ha) parent nm (ha + 2120) f2); [apply new_group_item_ok | | | | exact EL].
  - rewrite lsize_app. cbn [lsize]. rewrite new_group_item_size. blia.
  - unfold LIM in Hb. subst ha. blia.
  - intros lay2 HS q ha' sa' H. rewrite plookup_pset in H.
    assert (Hmono : forall a0, GroupIn lay a0 -> GroupIn lay2 a0).
    { intros a0 G. apply (same_shape_group _ _ a0 HS). now apply GroupIn_app. }
    destruct (bytes_eqb (NS.trim_suffix_slash p) q).
    + inversion H; subst. split; [reflexivity|]. apply (same_shape_group _ _ ha HS).
      exists lay, (zeros 256), (new_snode 32), (ohdr_block (group_ohdr (ha + 1576) ha)), []. split; reflexivity.
    + destruct (Hreg _ _ _ H) as [E G]. split; [exact E | now apply Hmono].
Qed.

Theorem create_dataset_preserves p code dims data :
  blen (fst (alloc_dataset (t_file st) code dims data)) < LIM -> Placed (fst (t_create_dataset st p code dims data)).
Proof.
  intros Hb. pose proof placed_here as P. unfold t_create_dataset.
  destruct (negb (NS.validate_dataset_name p)); [exact P|].
  destruct (NS.parse_path p) as [parent nm].
  destruct (prepare_link st parent nm 0); [|exact P|exact P].
  rewrite Hf in *. pose proof (alloc_dataset_image lay code dims data Hok) as EA. cbv zeta in EA. rewrite EA in *. clear EA.
  cbn [fst] in Hb. set (da := 48 + lsize lay) in *. set (it := new_dset_item code dims data da) in *.
  assert (Hit : item_ok it) by (subst it; unfold new_dset_item; destruct (dtype_of_code code) as [[c s] b]; exact I).
  assert (Hok1 : Forall item_ok (lay ++ [it])) by (apply Forall_app; split; [exact Hok | now constructor]).
  rewrite (blen_image _ Hok1) in Hb.
  destruct (link_to_parent (with_file st (image (lay ++ [it]))) parent nm (da + blen data)) as [f2| |] eqn:EL; cbn [fst];
    [| now apply append_fail | now apply append_fail].
  unfold with_file at 1. cbn [t_groups].
  apply (append_link_ok it parent nm (da + blen data) f2); [exact Hit | exact Hb | | | exact EL].
  - rewrite lsize_app in Hb. cbn [lsize] in Hb. subst it. unfold new_dset_item in Hb. destruct (dtype_of_code code) as [[c s] b].
    cbn [item_size] in Hb. unfold LIM in Hb. subst da. blia.
  - intros lay2 HS q ha' sa' H. destruct (Hreg _ _ _ H) as [E G]. split; [exact E|].
    apply (same_shape_group _ _ ha' HS). now apply GroupIn_app.
Qed.
End Step.

Theorem step_group_preserves st p : Placed st -> blen (t_file st) + 3000 < LIM -> Placed (fst (t_step st (TGroup p))).
Proof. intros (lay & Hf & Hok & Hroot & Hreg) Hb. exact (create_group_preserves st lay Hf Hok Hroot Hreg p Hb). Qed.

Theorem step_dataset_preserves st p code dims data : Placed st ->
  blen (fst (alloc_dataset (t_file st) code dims data)) < LIM -> Placed (fst (t_step st (TDataset p code dims data))).
Proof. intros (lay & Hf & Hok & Hroot & Hreg) Hb. exact (create_dataset_preserves st lay Hf Hok Hroot Hreg p code dims data Hb). Qed.

(* the image a closed file has: Close replaces the first 48 bytes *)
Lemma close_image lay : Forall item_ok lay -> t_close (image lay) = enc_superblock (sb_eof (48 + lsize lay)) ++ layout 48 lay.
Proof.
  intros H. unfold t_close. rewrite blen_image by exact H. f_equal.
Qed.
