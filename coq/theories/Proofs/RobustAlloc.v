(* C07: every allocation request of the size computations in Model/RobustAlloc.v is bounded by k * |file| + c,
   for ALL inputs (uint64 field values, any file), and none of them panics. *)
From HV Require Import Base.Prelude Base.Outcome Base.Bytes Model.RobustAlloc.

Ltac dif := match goal with |- context [if ?c then _ else _] => let E := fresh "E" in destruct c eqn:E end.
Ltac dmatch := match goal with |- context [match ?c with _ => _ end] => let E := fresh "E" in destruct c eqn:E end.

Definition u64 (x : N) : Prop := x < 18446744073709551616.

Lemma ab_nil k c f : alloc_bounded k c f [].
Proof. constructor. Qed.
Lemma ab_cons k c f n l : n <= k * blen f + c -> alloc_bounded k c f l -> alloc_bounded k c f (n :: l).
Proof. intros; constructor; auto. Qed.
Lemma ab_app k c f a b : alloc_bounded k c f a -> alloc_bounded k c f b -> alloc_bounded k c f (a ++ b).
Proof. unfold alloc_bounded. intros. apply Forall_app; auto. Qed.
Lemma ab_weaken k c k' c' f l : k <= k' -> c <= c' -> alloc_bounded k c f l -> alloc_bounded k' c' f l.
Proof.
  unfold alloc_bounded. intros Hk Hc H. eapply Forall_impl; [|exact H].
  cbv beta. intros a Ha. assert (k * blen f <= k' * blen f) by (apply N.mul_le_mono_r; auto). lia.
Qed.
Lemma alloc_bounded_b_spec k c f l : alloc_bounded_b k c f l = true <-> alloc_bounded k c f l.
Proof.
  unfold alloc_bounded_b, alloc_bounded. rewrite forallb_forall, Forall_forall.
  split; intros H x Hx; specialize (H x Hx); lia.
Qed.

(* ---- SafeMultiply: an Ok result is the exact product ---- *)
Lemma safe_multiply_exact a b v : u64 a -> u64 b -> safe_multiply a b = Ok v -> v = a * b.
Proof.
  unfold safe_multiply, u64, MaxUint64, wrap64. intros Ha Hb.
  dif; [intros [= <-]; lia|]. dif; [discriminate|]. intros [= <-].
  assert (b <> 0) by lia. assert (a * b <= 18446744073709551615) by nia. lia.
Qed.
Lemma safe_multiply_no_panic a b : safe_multiply a b <> Panic.
Proof. unfold safe_multiply. repeat dif; discriminate. Qed.

(* ---- slice inside the range never panics, and has the requested length ---- *)
Lemma slice_in_range (bs : bytes) a b : a <= b -> b <= blen bs -> exists s, slice bs a b = Ok s /\ blen s = b - a.
Proof.
  intros H1 H2. unfold slice.
  replace ((a <=? b) && (b <=? blen bs)) with true by lia.
  eexists; split; [reflexivity|]. unfold blen in *. rewrite firstn_length, skipn_length. blia.
Qed.

(* ---- ReadBytesAt ---- *)
Lemma read_bytes_at_spec file off size :
  u64 off -> u64 size ->
  fst (read_bytes_at file off size) <> Panic /\
  alloc_bounded 1 0 file (snd (read_bytes_at file off size)) /\
  (forall s, fst (read_bytes_at file off size) = Ok s -> blen s = size /\ size <= blen file).
Proof.
  unfold read_bytes_at, u64, MaxInt64, wrap64. intros Ho Hs.
  dif. { cbn [fst snd]. split; [discriminate|split; [apply ab_nil|]]. intros s [= <-]. unfold blen at 1. cbn [length]. lia. }
  dif. { cbn [fst snd]. split; [discriminate|split; [apply ab_nil|discriminate]]. }
  dif. { cbn [fst snd]. split; [discriminate|split; [apply ab_nil|discriminate]]. }
  assert (Hend : off + size <= blen file) by lia.
  destruct (slice_in_range file off (off + size)) as (s & Hsl & Hlen); [lia|lia|].
  rewrite Hsl. cbn [fst snd]. split; [discriminate|split].
  - apply ab_cons; [lia|apply ab_nil].
  - intros s' [= <-]. lia.
Qed.
Lemma read_bytes_at_no_panic file off size : u64 off -> u64 size -> fst (read_bytes_at file off size) <> Panic.
Proof. intros. now apply read_bytes_at_spec. Qed.
Lemma read_bytes_at_bounded file off size : u64 off -> u64 size -> alloc_bounded 1 0 file (snd (read_bytes_at file off size)).
Proof. intros. now apply read_bytes_at_spec. Qed.

(* ---- convertToFloat64: the result slice is at most 8 bytes per byte of data ---- *)
Lemma convert_to_float64_bounded raw es n : Forall (fun r => r <= 8 * blen raw) (snd (convert_to_float64 raw es n)).
Proof.
  unfold convert_to_float64. dif; cbn [snd]; [constructor|].
  assert (n <= blen raw) by lia.
  repeat dif; cbn [snd]; repeat constructor; lia.
Qed.
Lemma convert_to_float64_no_panic raw es n : fst (convert_to_float64 raw es n) <> Panic.
Proof. unfold convert_to_float64. repeat dif; cbn [fst]; discriminate. Qed.

(* ---- contiguous dataset read: buffer <= |file|, result <= 8 |file| ---- *)
Lemma total_elements_u64 dims : u64 (total_elements dims).
Proof.
  unfold total_elements. assert (G : forall l t, u64 t -> u64 (fold_left (fun t d => wrap64 (t * d)) l t)).
  { induction l; intros t Ht; cbn [fold_left]; auto. apply IHl. unfold u64, wrap64. lia. }
  apply G. unfold u64. lia.
Qed.

Lemma safe_multiply_ok a b v : u64 a -> u64 b -> safe_multiply a b = Ok v -> v = a * b /\ u64 v.
Proof.
  intros Ha Hb H. pose proof (safe_multiply_exact a b v Ha Hb H) as E. split; auto.
  unfold safe_multiply, wrap64, u64 in *. revert H. repeat dif; try discriminate; intros [= <-]; lia.
Qed.

Lemma contiguous_read_spec file dims es addr :
  u64 es -> u64 addr ->
  fst (contiguous_read file dims es addr) <> Panic /\ alloc_bounded 8 0 file (snd (contiguous_read file dims es addr)).
Proof.
  intros Hes Ha. unfold contiguous_read.
  pose proof (total_elements_u64 dims) as Ht.
  dif; [cbn; split; [discriminate|apply ab_nil]|].
  destruct (safe_multiply (total_elements dims) es) as [ds| |] eqn:Esm.
  - apply safe_multiply_ok in Esm as [Eds Hds]; auto.
    destruct (read_bytes_at_spec file addr ds Ha Hds) as (Hnp & Hb & Hok).
    destruct (read_bytes_at file addr ds) as [[raw| |] l1] eqn:Er; cbn [fst snd] in *.
    + destruct (Hok raw eq_refl) as [Hl Hle].
      pose proof (convert_to_float64_bounded raw es (total_elements dims)) as Hc.
      pose proof (convert_to_float64_no_panic raw es (total_elements dims)) as Hcn.
      destruct (convert_to_float64 raw es (total_elements dims)) as [r l2]. cbn [fst snd] in *.
      split; auto. apply ab_app.
      * eapply ab_weaken; [| |exact Hb]; lia.
      * unfold alloc_bounded. eapply Forall_impl; [|exact Hc]. cbv beta. intros x Hx. lia.
    + split; [discriminate|]. eapply ab_weaken; [| |exact Hb]; lia.
    + congruence.
  - cbn; split; [discriminate|apply ab_nil].
  - exfalso. eapply safe_multiply_no_panic; eauto.
Qed.

(* ---- readChunkedData: the request is the declared extent; NOT bounded by the file (refuted for every k, c below 2^40) ---- *)
Lemma chunked_extent_unbounded k c file :
  k * blen file + c < 1099511627776 ->
  exists dims es, u64 es /\ Forall u64 dims /\ ~ alloc_bounded k c file (snd (chunked_total_bytes dims es)).
Proof.
  intros H. exists [1099511627776], 1. split; [unfold u64; lia|]. split; [repeat constructor; unfold u64; lia|].
  assert (E : chunked_total_bytes [1099511627776] 1 = (Ok 1099511627776, [1099511627776])) by (vm_compute; reflexivity).
  rewrite E. cbn [snd]. intros Hb. inversion Hb; subst. lia.
Qed.
(* what does hold: the constant limit 2^40 *)
Lemma chunked_total_bytes_limit dims es : Forall (fun n => n <= 1099511627776) (snd (chunked_total_bytes dims es)).
Proof.
  unfold chunked_total_bytes, validate_buffer_size, MaxChunkSize.
  destruct (safe_multiply (total_elements dims) es); cbn [snd]; try constructor.
  repeat dif; cbn [snd]; repeat constructor. lia.
Qed.

(* ---- one chunk ---- *)
Lemma chunk_read_spec file addr nbytes :
  u64 addr -> u64 nbytes ->
  fst (chunk_read file addr nbytes) <> Panic /\ alloc_bounded 1 0 file (snd (chunk_read file addr nbytes)).
Proof.
  intros Ha Hn. unfold chunk_read, validate_buffer_size.
  repeat dif; cbn [fst snd]; try (split; [discriminate|apply ab_nil]).
  split; [apply read_bytes_at_no_panic|apply read_bytes_at_bounded]; auto.
Qed.

(* ---- chunk B-tree node: header constant, body <= |file|, decoded keys <= 4 |file| ---- *)
Lemma btree_node_sizes_spec file addr O nd entries :
  u64 addr -> O <= 8 -> nd <= 255 -> entries <= 65535 ->
  fst (btree_node_sizes file addr O nd entries) <> Panic /\ alloc_bounded 4 24 file (snd (btree_node_sizes file addr O nd entries)).
Proof.
  intros Ha HO Hnd He. unfold btree_node_sizes.
  dif; [cbn; split; [discriminate|apply ab_cons; [lia|apply ab_nil]]|].
  dif; [cbn; split; [discriminate|apply ab_cons; [lia|apply ab_nil]]|].
  set (ds := entries * (8 + nd * 8 + O) + (8 + nd * 8)).
  assert (Hds : u64 ds) by (unfold u64, ds; nia).
  assert (Hoff : u64 (wrap64 (addr + (8 + 2 * O)))) by (unfold u64, wrap64; lia).
  destruct (read_bytes_at_spec file (wrap64 (addr + (8 + 2 * O))) ds Hoff Hds) as (Hnp & Hb & Hok).
  destruct (read_bytes_at file (wrap64 (addr + (8 + 2 * O))) ds) as [[raw| |] l] eqn:Er; cbn [fst snd] in *.
  - destruct (Hok raw eq_refl) as [Hl Hle]. split; [discriminate|].
    apply ab_cons; [lia|]. apply ab_app; [eapply ab_weaken; [| |exact Hb]; lia|].
    apply ab_cons; [unfold ds in Hle; nia|]. apply ab_cons; [unfold ds in Hle; nia|apply ab_nil].
  - split; [discriminate|]. apply ab_cons; [lia|]. eapply ab_weaken; [| |exact Hb]; lia.
  - congruence.
Qed.

(* ---- values decoded from a byte string are below 256^width ---- *)
Lemma bytes_ok_Forall (l : bytes) : bytes_ok l = true <-> Forall (fun b => b < 256) l.
Proof.
  unfold bytes_ok. rewrite forallb_forall, Forall_forall. split; intros H x Hx; specialize (H x Hx); lia.
Qed.
Lemma unle_lt (l : bytes) : bytes_ok l = true -> unle l < 256 ^ blen l.
Proof.
  rewrite bytes_ok_Forall. induction l; intros F; cbn [unle].
  - unfold blen. cbn [length]. change (N.of_nat 0) with 0. rewrite N.pow_0_r. lia.
  - inversion F; subst. specialize (IHl H2). unfold blen in *. cbn [length].
    rewrite Nat2N.inj_succ, N.pow_succ_r'. nia.
Qed.
Lemma In_skipn' {A} (x : A) n l : In x (skipn n l) -> In x l.
Proof. intros H. rewrite <- (firstn_skipn n l). apply in_or_app. now right. Qed.
Lemma In_firstn' {A} (x : A) n l : In x (firstn n l) -> In x l.
Proof. intros H. rewrite <- (firstn_skipn n l). apply in_or_app. now left. Qed.
Lemma bytes_ok_slice (bs : bytes) a b s : bytes_ok bs = true -> slice bs a b = Ok s -> bytes_ok s = true.
Proof.
  rewrite !bytes_ok_Forall. unfold slice. dif; [|discriminate]. intros F [= <-].
  rewrite Forall_forall in *. intros x Hx. apply F. apply In_firstn' in Hx. eapply In_skipn'; eauto.
Qed.
Lemma rd_le_spec (bs : bytes) off w :
  bytes_ok bs = true -> off + w <= blen bs -> w <= 8 -> exists v, rd_le bs off w = Ok v /\ u64 v.
Proof.
  intros Hb H Hw. unfold rd_le.
  destruct (slice_in_range bs off (off + w)) as (s & Hs & Hl); [lia|lia|]. rewrite Hs. cbn [obind].
  eexists; split; [reflexivity|].
  pose proof (unle_lt s (bytes_ok_slice _ _ _ _ Hb Hs)) as Hu.
  unfold u64. assert (256 ^ blen s <= 256 ^ 8) by (apply N.pow_le_mono_r; lia).
  change (256 ^ 8) with 18446744073709551616 in *. lia.
Qed.
Lemma rd_field_spec (buf : bytes) pos w :
  bytes_ok buf = true -> pos + w <= blen buf -> w <= 8 -> exists v, rd_field buf pos w = Ok v /\ u64 v.
Proof.
  intros. unfold rd_field. dif; [apply rd_le_spec; auto|]. eexists; split; [reflexivity|unfold u64; lia].
Qed.

Lemma read_bytes_at_bytes_ok file off size s :
  bytes_ok file = true -> fst (read_bytes_at file off size) = Ok s -> bytes_ok s = true.
Proof.
  intros Hb. unfold read_bytes_at.
  dif; [cbn [fst]; intros [= <-]; reflexivity|].
  dif; [cbn [fst]; discriminate|]. dif; [cbn [fst]; discriminate|].
  destruct (slice file off (off + size)) eqn:Es; cbn [fst]; try discriminate.
  intros [= <-]. eapply bytes_ok_slice; eauto.
Qed.

(* ---- local heap: header buffer constant (<= 64), data segment <= |file| ---- *)
Lemma local_heap_load_spec file addr O L :
  bytes_ok file = true -> O <= 8 -> L <= 8 ->
  fst (local_heap_load file addr O L) <> Panic /\ alloc_bounded 1 64 file (snd (local_heap_load file addr O L)).
Proof.
  intros Hb HO HL. unfold local_heap_load.
  assert (B0 : alloc_bounded 1 64 file [2 * (8 + 2 * L + O)]) by (apply ab_cons; [lia|apply ab_nil]).
  dif; [cbn; split; [discriminate|auto]|].
  destruct (slice_in_range file addr (addr + (8 + 2 * L + O))) as (hb & Hs & Hl); [lia|lia|]. rewrite Hs.
  pose proof (bytes_ok_slice _ _ _ _ Hb Hs) as Hhb.
  dif; [cbn; split; [discriminate|auto]|].
  destruct (rd_field_spec hb 8 L Hhb) as (ds & E1 & U1); [lia|lia|]. rewrite E1.
  destruct (rd_field_spec hb (8 + 2 * L) O Hhb) as (da & E2 & U2); [lia|lia|]. rewrite E2.
  destruct (read_bytes_at_spec file da ds U2 U1) as (Hnp & Hbd & _).
  destruct (read_bytes_at file da ds) as [[d| |] l]; cbn [fst snd] in *;
    (split; [congruence|apply ab_app; [auto|eapply ab_weaken; [| |exact Hbd]; lia]]).
Qed.

Lemma heap_get_string_no_panic data off : heap_get_string data off <> Panic.
Proof.
  unfold heap_get_string. dif; [discriminate|]. dif; [discriminate|].
  assert (G : forall l p, p <= find0_aux l p) by (induction l; intros p; cbn [find0_aux]; [lia|dif; [lia|specialize (IHl (p + 1)); lia]]).
  pose proof (G (skipn (N.to_nat off) data) off) as Hge. fold (find0 data off) in Hge.
  destruct (slice_in_range data off (find0 data off)) as (s & Hs & _); [lia|lia|]. rewrite Hs. discriminate.
Qed.

(* ---- global heap collection: every object buffer <= |collection| <= |file|; the object loop ends within its fuel ---- *)
Lemma gcol_objects_spec fuel (cd : bytes) os offset :
  bytes_ok cd = true -> os <= 8 ->
  fst (gcol_objects fuel cd os offset) <> Panic /\ Forall (fun n => n <= blen cd) (snd (gcol_objects fuel cd os offset)).
Proof.
  intros Hb Hos. revert offset. induction fuel as [|fuel IH]; intros offset; cbn [gcol_objects].
  - cbn; split; [discriminate|constructor].
  - dif; [cbn; split; [discriminate|constructor]|].
    dif; [cbn; split; [discriminate|constructor]|].
    destruct (rd_le_spec cd offset 2 Hb) as (id & E1 & _); [lia|lia|]. rewrite E1.
    destruct (rd_le_spec cd (offset + 8) os Hb) as (sz & E2 & _); [lia|lia|]. rewrite E2.
    dif; [dif; cbn; split; try discriminate; constructor|].
    dif; [apply IH|].
    specialize (IH (offset + (8 + os) + (if sz mod 8 =? 0 then sz else sz + (8 - sz mod 8)))).
    destruct (gcol_objects fuel cd os _) as [r l]. cbn [fst snd] in *. destruct IH as [I1 I2].
    split; [destruct r; congruence|]. constructor; [lia|auto].
Qed.

(* with fuel = S (length cd) the loop is never cut short: it advances by at least 8 + os >= 8 per iteration *)
Lemma gcol_objects_fuel fuel (cd : bytes) os offset :
  (N.to_nat (blen cd - offset) < fuel)%nat ->
  forall fuel', (fuel <= fuel')%nat -> gcol_objects fuel cd os offset = gcol_objects fuel' cd os offset.
Proof.
  revert offset. induction fuel as [|fuel IH]; intros offset Hm fuel' Hf; [lia|].
  destruct fuel' as [|fuel']; [lia|]. cbn [gcol_objects].
  dif; [reflexivity|]. dif; [reflexivity|].
  destruct (rd_le cd offset 2); try reflexivity. destruct (rd_le cd (offset + 8) os); try reflexivity.
  dif; [reflexivity|].
  set (nx := offset + (8 + os) + (if a0 mod 8 =? 0 then a0 else a0 + (8 - a0 mod 8))).
  assert (Hn : (N.to_nat (blen cd - nx) < fuel)%nat) by (unfold nx; dif; lia).
  rewrite (IH nx Hn fuel') by lia. reflexivity.
Qed.

Lemma gcol_read_spec file addr os :
  bytes_ok file = true -> u64 addr ->
  fst (gcol_read file addr os) <> Panic /\ alloc_bounded 1 16 file (snd (gcol_read file addr os)).
Proof.
  intros Hb Ua. unfold gcol_read. dif; [cbn; split; [discriminate|apply ab_nil]|].
  assert (Hos : os <= 8) by lia.
  assert (B0 : alloc_bounded 1 16 file [8 + os]) by (apply ab_cons; [lia|apply ab_nil]).
  dif; [cbn; split; [discriminate|auto]|].
  destruct (slice_in_range file addr (addr + (8 + os))) as (hb & Hs & Hl); [lia|lia|]. rewrite Hs.
  pose proof (bytes_ok_slice _ _ _ _ Hb Hs) as Hhb.
  dif; [cbn; split; [discriminate|auto]|].
  assert (Hi : exists v, index hb 4 = Ok v).
  { unfold index. destruct (nth_error hb (N.to_nat 4)) eqn:En; [eauto|]. apply nth_error_None in En. unfold blen in Hl. blia. }
  destruct Hi as (ver & Ev). rewrite Ev.
  destruct (rd_le_spec hb 8 os Hhb) as (cs & E2 & U2); [lia|lia|]. rewrite E2.
  dif; [cbn; split; [discriminate|auto]|]. dif; [cbn; split; [discriminate|auto]|].
  destruct (read_bytes_at_spec file addr cs Ua U2) as (Hnp & Hbd & Hok).
  destruct (read_bytes_at file addr cs) as [[cd| |] l] eqn:Er; cbn [fst snd] in *.
  - destruct (Hok cd eq_refl) as [Hlen Hle].
    assert (Hcd : bytes_ok cd = true) by (eapply read_bytes_at_bytes_ok; [exact Hb|rewrite Er; reflexivity]).
    pose proof (gcol_objects_spec (S (length cd)) cd os (if (8 + os) mod 8 =? 0 then 8 + os else 8 + os + (8 - (8 + os) mod 8)) Hcd Hos) as [G1 G2].
    destruct (gcol_objects _ cd os _) as [r l2]. cbn [fst snd] in *.
    split; auto. apply ab_app; auto. apply ab_app; [eapply ab_weaken; [| |exact Hbd]; lia|].
    unfold alloc_bounded. eapply Forall_impl; [|exact G2]. cbv beta. intros x Hx. lia.
  - split; [discriminate|]. apply ab_app; auto. eapply ab_weaken; [| |exact Hbd]; lia.
  - congruence.
Qed.

(* ---- constant-size requests ---- *)
Lemma msg_buffer_request_bounded file sz : alloc_bounded 0 65535 file (msg_buffer_request sz).
Proof. unfold msg_buffer_request, wrap16. apply ab_cons; [lia|apply ab_nil]. Qed.
(* repaired: the buffers of n one-byte messages total n bytes <= the 5 n bytes they occupy in the file *)
Lemma storm_repaired_bounded n : storm_requests false n <= storm_file_bytes n.
Proof. unfold storm_requests, storm_file_bytes. lia. Qed.
(* pooled buffers: for every k < 819 and every c some header exceeds k * (its bytes in the file) + c *)
Lemma storm_pooled_unbounded k c : k < 819 -> exists n, k * storm_file_bytes n + c < storm_requests true n.
Proof. intros Hk. exists (c + 1). unfold storm_requests, storm_file_bytes. nia. Qed.
Lemma inflate_requests_bounded file claimed : alloc_bounded 0 2147484162 file (inflate_requests claimed).
Proof. unfold inflate_requests, inflate_limit, MaxChunkSize. apply ab_cons; [lia|apply ab_nil]. Qed.
