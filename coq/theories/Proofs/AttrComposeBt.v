(* C02 composition, part 4: the B-tree side of one attribute call: the well-formedness invariant of Proofs/BT2.v
   (winv) for the configuration of the attribute code is kept by the in-memory operations, and WriteToFile / WriteAt
   followed by LoadFromFile into a fresh object gives back the same records (BT2.load_after_store = C14_persist). *)
From HV Require Import Base.Prelude Model.Attr Model.AttrCompose Proofs.AttrComposeIdx.
From HV Require Model.BT2 Proofs.BT2.

(* NewWritableBTreeV2(4096), 8-byte offsets, DeleteRecord / DeleteRecordWithRebalancing *)
Definition ccfg : BT2.cfg := BT2.mkCfg BT2.MOff OSZ NODE.

Lemma ccfg_ok : BT2.cfg_ok ccfg.
Proof.
  split.
  - right. right. right. reflexivity.
  - change (BT2.ns_of ccfg) with 4096. unfold BT2.cap_ok. change (BT2.max_records 4096) with 371. lia.
Qed.

Definition WInv (bf : BT2.file) (bn : N) (s : BT2.bt2) : Prop := BT2.winv ccfg (BT2.mkW s bf bn).

Lemma WInv_node bf bn s : WInv bf bn s -> BT2.node_size s = NODE.
Proof. intros (_ & Hn & _). exact Hn. Qed.

Lemma WInv_lazy bf bn s : WInv bf bn s -> BT2.is_lazy_enabled s = false.
Proof. intros (_ & _ & _ & Hl & _). unfold BT2.is_lazy_enabled. cbn [BT2.bt] in Hl. rewrite Hl. reflexivity. Qed.

Lemma WInv_new : WInv [] 64 (BT2.new_bt NODE).
Proof. apply (BT2.init_winv ccfg ccfg_ok eq_refl). Qed.

Lemma winv_insert bf bn s n v : WInv bf bn s ->
  WInv bf bn (fst (BT2.insert_record s n v)) /\
  BT2.loaded_hdr (fst (BT2.insert_record s n v)) = BT2.loaded_hdr s.
Proof.
  intro H. split.
  - pose proof (BT2.step_winv ccfg (BT2.mkW s bf bn) (BT2.OInsert n v) ccfg_ok eq_refl H) as S.
    cbn [BT2.step BT2.bt BT2.is_store] in S. destruct (BT2.insert_record s n v) as [s0 ok].
    apply S. discriminate.
  - unfold BT2.insert_record. destruct (BT2.find_index _ _ _); [reflexivity|]. destruct (_ <=? _); reflexivity.
Qed.

Lemma winv_update bf bn s n v : WInv bf bn s ->
  WInv bf bn (fst (BT2.update_record s n v)) /\
  BT2.loaded_hdr (fst (BT2.update_record s n v)) = BT2.loaded_hdr s.
Proof.
  intro H. split.
  - pose proof (BT2.step_winv ccfg (BT2.mkW s bf bn) (BT2.OUpdate n v) ccfg_ok eq_refl H) as S.
    cbn [BT2.step BT2.bt BT2.is_store] in S. destruct (BT2.update_record s n v) as [s0 ok].
    apply S. discriminate.
  - unfold BT2.update_record. destruct (BT2.find_index _ _ _); reflexivity.
Qed.

Lemma winv_delete bf bn s n : WInv bf bn s ->
  WInv bf bn (fst (BT2.delete_with_rebalancing s n)) /\
  BT2.loaded_hdr (fst (BT2.delete_with_rebalancing s n)) = BT2.loaded_hdr s.
Proof.
  intro H. split.
  - pose proof (BT2.step_winv ccfg (BT2.mkW s bf bn) (BT2.ODelete n) ccfg_ok eq_refl H) as S.
    cbn [BT2.step BT2.bt BT2.is_store BT2.c_mode ccfg BT2.delete_by_mode] in S. unfold BT2.delete_record in S.
    destruct (BT2.delete_with_rebalancing s n) as [s0 ok]. apply S. discriminate.
  - unfold BT2.delete_with_rebalancing, BT2.remove_record, BT2.handle_root_depth_decrease.
    destruct (BT2.find_index _ _ _); [|reflexivity]. destruct (_ && _); reflexivity.
Qed.

(* btree.WriteAt on a loaded index, then LoadFromFile into a fresh object *)
Lemma bt_store bf bn ba s : WInv bf bn s -> BT2.loaded_hdr s = ba -> ba <> 0 ->
  exists f', BT2.write_in_place OSZ (BT2.mkW s bf bn) = Some (BT2.mkW (BT2.with_root s (BT2.loaded_leaf s)) f' bn) /\
    exists s', BT2.load_from OSZ (BT2.new_bt NODE) f' ba = BT2.LOk s' /\ BT2.recs s' = BT2.recs s /\
               WInv f' bn s' /\ BT2.loaded_hdr s' = ba.
Proof.
  intros H Hb Hz. subst ba.
  pose proof (BT2.step_winv ccfg (BT2.mkW s bf bn) BT2.ORewrite ccfg_ok eq_refl H) as S.
  rewrite (BT2.rewrite_ok ccfg (BT2.mkW s bf bn) ccfg_ok eq_refl H Hz) in S. cbn [fst BT2.bt BT2.fil BT2.next] in S.
  specialize (S ltac:(discriminate)).
  pose proof H as (W & Hn & _ & _ & _ & Hld). cbn [BT2.bt] in *. destruct (Hld Hz) as [Hd Hlt].
  unfold BT2.write_in_place. cbn [BT2.bt BT2.fil BT2.next].
  replace (BT2.loaded_hdr s =? 0) with false by (symmetry; apply N.eqb_neq; exact Hz).
  eexists. split; [reflexivity|]. cbn [BT2.with_root BT2.loaded_hdr BT2.loaded_leaf].
  eexists. split.
  - apply BT2.load_after_store.
    + right. right. right. reflexivity.
    + exact W.
    + exact Hlt.
    + rewrite Hn. exact Hd.
  - cbn [BT2.recs BT2.loaded_hdr]. split; [reflexivity|]. split; [|reflexivity].
    unfold WInv. rewrite Hn. exact S.
Qed.

(* btree.WriteToFile of the index built by the DenseAttributeWriter (fresh region), then LoadFromFile *)
Lemma bt_store_fresh s : WInv [] 64 s ->
  exists f' nx ba, BT2.write_to_file OSZ (BT2.mkW s [] 64) = (BT2.mkW (BT2.with_root s 64) f' nx, ba) /\ ba <> 0 /\
    exists s', BT2.load_from OSZ (BT2.new_bt NODE) f' ba = BT2.LOk s' /\ BT2.recs s' = BT2.recs s /\
               WInv f' nx s' /\ BT2.loaded_hdr s' = ba.
Proof.
  intros H.
  assert (Hlim : BT2.next (BT2.mkW s [] 64) < BT2.lim ccfg) by (change (BT2.lim ccfg) with 18446744073709551616; cbn [BT2.next]; lia).
  pose proof (BT2.step_winv ccfg (BT2.mkW s [] 64) BT2.OStoreLoad ccfg_ok eq_refl H (fun _ => Hlim)) as S.
  rewrite (BT2.storeload_ok ccfg (BT2.mkW s [] 64) ccfg_ok eq_refl H Hlim) in S. cbn [fst BT2.bt BT2.fil BT2.next] in S.
  pose proof H as (W & Hn & _). cbn [BT2.bt] in *.
  unfold BT2.write_to_file. cbn [BT2.bt BT2.fil BT2.next].
  eexists _, _, _. split; [reflexivity|]. split.
  - rewrite Hn. change (BT2.ns_of ccfg) with 4096. lia.
  - eexists. split.
    + apply BT2.load_after_store.
      * right. right. right. reflexivity.
      * exact W.
      * change (256 ^ N.of_nat OSZ) with 18446744073709551616. lia.
      * lia.
    + cbn [BT2.recs BT2.loaded_hdr]. split; [reflexivity|]. split; [|reflexivity].
      unfold WInv. rewrite Hn. exact S.
Qed.
