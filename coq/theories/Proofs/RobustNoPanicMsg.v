(* C07: the flat message decoders never panic (superblock, dataspace, data layout, symbol table,
   link, link info, attribute info).  All statements are for every byte string and every parameter. *)
From HV Require Import Base.Prelude Base.Outcome Base.Bytes.
From HV Require Import Model.CodecSuper Model.CodecMsg Model.CodecLink.
From HV Require Import Proofs.RobustNoPanicBase.

(* ------------------------------------------------------------------ shared readers *)

(* readUint64 clamps the size to the data it is given *)
Lemma read_uint_np data size bigendian : np (read_uint data size bigendian).
Proof.
  unfold read_uint. cbv zeta.
  set (sz := if blen data <? size then blen data else size).
  assert (Hsz : sz <= blen data) by (subst sz; destruct (blen data <? size) eqn:E; blia).
  clearbody sz. np_go.
Qed.
#[export] Hint Resolve read_uint_np : np.

(* the extent loop checks the remaining length before every read *)
Lemma read_dims_np n : forall data dimSize offset, np (read_dims data dimSize n offset).
Proof. induction n as [|n IH]; intros; cbn [read_dims]; np_go. Qed.
#[export] Hint Resolve read_dims_np : np.

(* ------------------------------------------------------------------ symbol table *)

Lemma dec_symtab_np bigendian data : np (dec_symtab bigendian data).
Proof. unfold dec_symtab. np_go. Qed.

(* ------------------------------------------------------------------ superblock *)

Lemma read_value_np buf offset size bigendian : np (read_value buf offset size bigendian).
Proof. unfold read_value. np_go. Qed.
#[export] Hint Resolve read_value_np : np.

Lemma superblock_buf_len (file : list N) :
  blen (firstn 128 file ++ zeros (N.to_nat (128 - N.min (blen file) 128))) = 128.
Proof. unfold blen. rewrite app_length, firstn_length, length_zeros. blia. Qed.

(* both variants of the superblock sizes switch *)
Lemma dec_superblock_gen_np rep file : np (dec_superblock_gen rep file).
Proof.
  unfold dec_superblock_gen. cbv zeta.
  pose proof (superblock_buf_len file) as Hb. bnorm.
  set (buf := firstn 128 file ++ _) in *. clearbody buf.
  destruct rep; np_go.
Qed.

Lemma dec_superblock_np file : np (dec_superblock file).
Proof. apply dec_superblock_gen_np. Qed.

(* ------------------------------------------------------------------ dataspace *)

Lemma dec_dataspace_np data : np (dec_dataspace data).
Proof. unfold dec_dataspace. np_go. Qed.
#[export] Hint Resolve dec_dataspace_np : np.

(* ------------------------------------------------------------------ data layout: any superblock parameters *)

Lemma dec_layout_np sb data : np (dec_layout sb data).
Proof. unfold dec_layout. np_go. Qed.

(* ------------------------------------------------------------------ link info / attribute info *)

Lemma dec_linkinfo_np sb data : np (dec_linkinfo sb data).
Proof. unfold dec_linkinfo. np_go. Qed.

Lemma read_addr_np data offset os : offset + os <= blen data -> np (read_addr data offset os).
Proof. intros H. unfold read_addr. np_go. Qed.

Lemma dec_attrinfo_np sb data : np (dec_attrinfo sb data).
Proof. unfold dec_attrinfo. np_go; apply read_addr_np; np_side. Qed.

(* ------------------------------------------------------------------ link message *)

Lemma dec_link_header_np data : np (dec_link_header data).
Proof. unfold dec_link_header. np_go. Qed.

Lemma dec_link_namelen_np data offset flags : np (dec_link_namelen data offset flags).
Proof. unfold dec_link_namelen. np_go. Qed.

Lemma dec_link_name_np data offset nameLength : np (dec_link_name data offset nameLength).
Proof. unfold dec_link_name. np_go. Qed.

Lemma dec_link_value_np offsize data offset ty : np (dec_link_value offsize data offset ty).
Proof. unfold dec_link_value. np_go. Qed.
#[export] Hint Resolve dec_link_header_np dec_link_namelen_np dec_link_name_np dec_link_value_np : np.

Lemma dec_link_np offsize data : np (dec_link offsize data).
Proof. unfold dec_link. np_go. Qed.

(* ------------------------------------------------------------------ statements *)

Lemma read_uint_no_panic : forall data size bigendian, read_uint data size bigendian <> Panic.
Proof. exact read_uint_np. Qed.
Lemma read_dims_no_panic : forall data dimSize n offset, read_dims data dimSize n offset <> Panic.
Proof. intros. apply read_dims_np. Qed.
Lemma dec_symtab_no_panic : forall be data, dec_symtab be data <> Panic.
Proof. exact dec_symtab_np. Qed.
Lemma dec_superblock_no_panic : forall file, dec_superblock file <> Panic.
Proof. exact dec_superblock_np. Qed.
Lemma dec_dataspace_no_panic : forall data, dec_dataspace data <> Panic.
Proof. exact dec_dataspace_np. Qed.
Lemma dec_layout_no_panic : forall sb data, dec_layout sb data <> Panic.
Proof. exact dec_layout_np. Qed.
Lemma dec_linkinfo_no_panic : forall sb data, dec_linkinfo sb data <> Panic.
Proof. exact dec_linkinfo_np. Qed.
Lemma dec_attrinfo_no_panic : forall sb data, dec_attrinfo sb data <> Panic.
Proof. exact dec_attrinfo_np. Qed.
Lemma dec_link_no_panic : forall offsize data, dec_link offsize data <> Panic.
Proof. exact dec_link_np. Qed.
