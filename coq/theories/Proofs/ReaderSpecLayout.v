(* C06, reader against specification: the data layout message (0x0008) version 3, classes compact / contiguous /
   chunked, and the symbol table message (0x0011).
   For every byte string the strict specification decoder accepts (with the superblock's size of offsets / lengths),
   the reader (Model/CodecMsg.v dec_layout = ParseDataLayoutMessage, Model/CodecLink.v dec_symtab = the inline reader of
   group.go; both tied to the Go code by C11/C07) returns an error or the same class, address, size, compact data and
   chunk dimensions, and never panics. *)
From HV Require Import Base.Prelude Base.Outcome Base.Bytes Spec.Parse Spec.FormatMsg Model.CodecMsg Model.CodecLink
  Proofs.ReaderSpecBase.

Definition ly_agree (L : layout_spec) (v : layout') : Prop :=
  ly_version v = 3 /\
  match L with
  | LyCompact d => ly_class v = 0 /\ ly_compact v = Some d /\ ly_size v = blen d /\ ly_chunk v = None
  | LyContiguous a s => ly_class v = 1 /\ ly_addr v = a /\ ly_size v = s /\ ly_compact v = None /\ ly_chunk v = None
  | LyChunked a dims => ly_class v = 2 /\ ly_addr v = a /\ ly_chunk v = Some dims /\ ly_compact v = None
  end.

(* the superblock parameters the reader is given: the file's sizes, little-endian metadata, superblock version < 4 *)
Definition sb_of (ver : N) (osz lsz : nat) : sbparams :=
  {| sb_version := ver; sb_offsize := N.of_nat osz; sb_lensize := N.of_nat lsz; sb_bigendian := false |}.

Definition size1248 (k : N) : Prop := k = 1 \/ k = 2 \/ k = 4 \/ k = 8.

Lemma size_ok_1248 k : size_ok k = true -> size1248 k.
Proof.
  unfold size_ok, size1248. intros H.
  apply orb_true_iff in H as [H|H]; [apply orb_true_iff in H as [H|H]|]; apply N.eqb_eq in H; auto.
Qed.

(* datalayout.go readUint64 on data[p:] reads what the specification's little-endian field at p holds *)
Lemma read_uint_at (bs : list N) p k v :
  rd_le bs p k = Ok v -> size1248 k ->
  exists d, slice_from bs p = Ok d /\ read_uint d k false = Ok v.
Proof.
  unfold rd_le, slice. intros H Hk.
  destruct ((p <=? p + k) && (p + k <=? blen bs)) eqn:E; cbn [obind] in H; [|discriminate].
  apply andb_true_iff in E as [_ E]. apply N.leb_le in E. injection H as <-.
  exists (skipn (N.to_nat p) bs). split.
  - unfold slice_from. rewrite (proj2 (N.leb_le _ _)) by blia. reflexivity.
  - unfold read_uint.
    assert (L : blen (skipn (N.to_nat p) bs) = blen bs - p) by (unfold blen; rewrite skipn_length; blia).
    rewrite L. rewrite ltb_false_of_le by blia.
    replace ((k =? 1) || (k =? 2) || (k =? 4) || (k =? 8)) with true
      by (destruct Hk as [-> | [-> | [-> | ->]]]; reflexivity).
    unfold rd_le, slice. rewrite L.
    replace ((0 <=? 0 + k) && (0 + k <=? blen bs - p)) with true
      by (symmetry; apply andb_true_iff; split; apply N.leb_le; blia).
    cbn [obind]. replace (0 + k - 0) with k by blia. replace (p + k - p) with k by blia. reflexivity.
Qed.

Lemma layout_reader_spec (osz lsz : nat) (sbver : N) (pad_ok : bool) (bs : bytes) (L : layout_spec) :
  size_ok (N.of_nat osz) = true -> size_ok (N.of_nat lsz) = true -> sbver < 4 ->
  spec_dec_layout osz lsz pad_ok bs = Ok L ->
  err_or (ly_agree L) (dec_layout (sb_of sbver osz lsz) bs).
Proof.
  intros HO HL HV H. unfold spec_dec_layout in H. rewrite (at_pos_0 bs) in H.
  assert (P0 : 0 <= blen bs) by blia.
  apply size_ok_1248 in HO. apply size_ok_1248 in HL.
  s_byte H ver B1 I0. s_guard H GV. apply N.eqb_eq in GV. subst ver.
  s_byte H cls B2 I1.
  change (0 + 1) with 1 in *. change (1 + 1) with 2 in *.
  assert (KS : chunk_key_size sbver = 4).
  { unfold chunk_key_size. rewrite (proj2 (N.leb_gt 4 sbver)) by blia. reflexivity. }
  unfold dec_layout, sb_of. cbn [sb_version sb_offsize sb_lensize sb_bigendian].
  rewrite (ltb_false_of_le (blen bs) 1) by blia. rewrite I0. cbn [obind].
  change ((3 <? 3) || (4 <? 3)) with false. cbn iota.
  rewrite (ltb_false_of_le (blen bs) 2) by blia. rewrite I1. cbn [obind].
  destruct (cls =? 0) eqn:C0.
  - (* compact *)
    s_u H sz B3 R. change (N.of_nat 2) with 2 in *. change (2 + 2) with 4 in *.
    s_take H d B4 SD Ld. rewrite N2Nat.id in *. s_end H PE PF ZZ. injection H as <-.
    rewrite (ltb_false_of_le (blen bs) 4) by blia. rewrite R. cbn [obind].
    rewrite (ltb_false_of_le (blen bs) (4 + sz)) by blia. rewrite SD. cbn [obind].
    split; [reflexivity|]. cbn [ly_class ly_compact ly_size ly_chunk]. repeat split; auto;
    unfold blen; blia.
  - destruct (cls =? 1) eqn:C1.
    + (* contiguous *)
      s_u H a B3 RA. s_u H sz B4 RS. s_end H PE PF ZZ. injection H as <-.
      rewrite ltb_false_of_le by blia.
      destruct (read_uint_at _ _ _ _ RA HO) as (d1 & Q1 & Q2). rewrite Q1. cbn [obind]. rewrite Q2. cbn [obind].
      destruct (read_uint_at _ _ _ _ RS HL) as (d2 & Q3 & Q4). rewrite Q3. cbn [obind]. rewrite Q4. cbn [obind].
      repeat split; cbn [ly_class ly_addr ly_size ly_compact ly_chunk ly_version]; auto; blia.
    + destruct (cls =? 2) eqn:C2; [|discriminate H].
      (* chunked *)
      s_byte H nd B3 I2. s_guard H G. change (2 + 1) with 3 in *.
      s_u H a B4 RA. s_us H dims B5 RD Ld. rewrite N2Nat.id in *. s_guard H G2. s_end H PE PF ZZ. injection H as <-.
      rewrite (ltb_false_of_le (blen bs) 3) by blia. rewrite I2. cbn [obind].
      rewrite ltb_false_of_le by blia.
      destruct (read_uint_at _ _ _ _ RA HO) as (d1 & Q1 & Q2). rewrite Q1. cbn [obind]. rewrite Q2. cbn [obind].
      rewrite KS. change (N.of_nat 4) with 4 in RD. rewrite RD. cbn [obind].
      repeat split; cbn [ly_class ly_addr ly_size ly_compact ly_chunk ly_version]; auto; blia.
Qed.

(* ------------------------------------------------------------------ symbol table message
   The reader takes two 8-byte addresses whatever the size of offsets is; with 8-byte offsets that is the
   specification's reading, with smaller offsets the message is shorter than 16 bytes and the reader reports an
   error. *)
Definition st_agree (s : N * N) (v : symtab) : Prop := st_btree v = fst s /\ st_heap v = snd s.

Lemma symtab_reader_spec (osz : nat) (pad_ok : bool) (bs : bytes) (s : N * N) :
  size_ok (N.of_nat osz) = true ->
  spec_dec_symtab osz pad_ok bs = Ok s ->
  err_or (st_agree s) (dec_symtab false bs).
Proof.
  intros HO H. unfold spec_dec_symtab in H. rewrite (at_pos_0 bs) in H.
  assert (P0 : 0 <= blen bs) by blia.
  apply size_ok_1248 in HO.
  s_u H bt B1 RB. s_u H hp B2 RH. s_end H PE PF ZZ. injection H as <-.
  unfold dec_symtab. destruct (blen bs <? 16) eqn:L16; [exact I|].
  apply N.ltb_ge in L16.
  destruct HO as [HO | [HO | [HO | HO]]]; rewrite HO in *; try (exfalso; blia).
  change (0 + 8) with 8 in *. rewrite RB. cbn [obind]. rewrite RH. cbn [obind]. split; reflexivity.
Qed.

(* the hypotheses are satisfiable: a chunked layout (two dataset dimensions and the element size), a contiguous one with
   4-byte offsets and lengths, and a symbol table message *)
Example layout_reader_spec_example_chunked :
  spec_dec_layout 8 8 false ([3; 2; 3] ++ le 8 1024 ++ le 4 10 ++ le 4 20 ++ le 4 4) = Ok (LyChunked 1024 [10; 20; 4]).
Proof. vm_compute. reflexivity. Qed.
Example layout_reader_spec_example_contiguous :
  spec_dec_layout 4 4 true ([3; 1] ++ le 4 2048 ++ le 4 800 ++ zeros 6) = Ok (LyContiguous 2048 800).
Proof. vm_compute. reflexivity. Qed.
Example symtab_reader_spec_example : spec_dec_symtab 8 false (le 8 136 ++ le 8 680) = Ok (136, 680).
Proof. vm_compute. reflexivity. Qed.
