(* C05 - the library's densely stored link message (Model/DenseLinkMsg.v) against the specification's link message decoder
   (Spec/FormatMsg.v spec_dec_link) and the walker's decoder of the private layout (Spec/Walk.v dec_link_private), for ALL link names
   of 1 .. 255 bytes and all addresses. *)
From HV Require Import Base.Prelude Base.Outcome Base.Bytes Spec.Parse Spec.FormatMsg Spec.Walk Model.DenseLinkMsg.

Lemma compact_size_small v : 0 < v -> v < 256 -> compact_size v = 1%nat.
Proof.
  intros H0 H. unfold compact_size. destruct (v =? 0) eqn:E; [apply N.eqb_eq in E; lia|].
  cbn [compact_loop]. rewrite E. rewrite (N.div_small v 256) by lia. reflexivity.
Qed.

Lemma p_u_1 x (r : list N) : p_u 1 (x :: r) = Ok (x, r).
Proof. unfold p_u, p_take. cbn [length Nat.leb firstn skipn obind unle]. f_equal. f_equal. lia. Qed.

Lemma le1 v : v < 256 -> le 1 v = [v].
Proof. intros H. cbn [le]. rewrite N.mod_small by lia. reflexivity. Qed.

Lemma enc_small name addr osz : 0 < blen name -> blen name < 256 ->
  enc_dense_link name addr osz = 1 :: 0 :: 4 :: 0 :: blen name :: name ++ le osz addr.
Proof.
  intros H0 H. unfold enc_dense_link. rewrite compact_size_small by assumption. rewrite le1 by assumption. reflexivity.
Qed.

(* ------------------------------------------------------------------ the walker's private-layout decoder inverts the encoder *)
Lemma nbytes_for_small v : 0 < v -> v < 256 -> nbytes_for v = 1.
Proof.
  intros H0 H. unfold nbytes_for. destruct (v =? 0) eqn:E; [apply N.eqb_eq in E; lia|].
  assert (L : N.log2 v < 8) by (apply N.log2_lt_pow2; [lia | exact H]).
  rewrite (N.div_small (N.log2 v) 8) by exact L. reflexivity.
Qed.

Lemma dec_private_enc c name addr : cO c = 8%nat -> 0 < blen name -> blen name < 256 -> addr < 256 ^ 8 ->
  dec_link_private c (enc_dense_link name addr 8) =
    Ok {| ls_flags := 0; ls_corder := None; ls_cset := 0; ls_name := name; ls_value := LHard addr |}.
Proof.
  intros HO H0 H HA. rewrite enc_small by assumption. unfold dec_link_private. rewrite HO.
  cbn [p_byte obind]. change (1 =? 1) with true. change (0 =? 0) with true. change (4 =? 4) with true. change (0 <? 2) with true.
  cbn [guard obind].
  assert (BL : blen (blen name :: name ++ le 8 addr) = 1 + blen name + 8).
  { rewrite blen_cons, blen_app, blen_le. change (N.of_nat 8) with 8. lia. }
  rewrite BL. change (N.of_nat 8) with 8.
  replace (1 + blen name + 8 <? 1 + 256 + 8) with true by (symmetry; apply N.ltb_lt; lia).
  rewrite p_u_1. cbn [obind].
  rewrite nbytes_for_small by assumption. change (N.of_nat 1 =? 1) with true.
  replace (0 <? blen name) with true by (symmetry; apply N.ltb_lt; lia). cbn [andb guard obind].
  rewrite p_take_app by (unfold blen; now rewrite Nat2N.id). cbn [obind].
  rewrite p_u_le_end by exact HA. cbn [obind p_end]. reflexivity.
Qed.

(* ------------------------------------------------------------------ read per specification the stored message is never the stored link *)
(* version 1 | flags := the link type byte 0 (1-byte name length, no optional field) | name length := the flags byte 4 |
   name := character set byte, length byte, first two name bytes | address := the next 8 bytes | nothing may follow *)
Lemma spec_dec_enc tol name addr : 0 < blen name -> blen name < 256 ->
  match spec_dec_link tol 8 false (enc_dense_link name addr 8) with
  | Ok (l, _) => blen name = 2 /\ ls_name l = 0 :: 2 :: name
  | _ => True
  end.
Proof.
  intros H0 H. rewrite enc_small by assumption. unfold spec_dec_link.
  cbn [p_byte obind]. change (1 =? 1) with true. change (0 <? 32) with true. cbn [guard obind].
  change (N.testbit 0 3) with false. change (N.testbit 0 2) with false. change (N.testbit 0 4) with false. cbv iota. cbn [obind].
  change (N.to_nat (N.shiftl 1 (N.land 0 3))) with 1%nat. rewrite p_u_1. cbn [obind].
  change (0 <? 4) with true. cbn [guard obind]. change (N.to_nat 4) with 4%nat.
  destruct name as [|n0 [|n1 rest]].
  - cbn in H0. lia.
  - (* one byte: 7 bytes are left for the 8-byte address *)
    cbn [app le]. unfold p_take at 1. cbn [length Nat.leb firstn skipn obind].
    change (0 =? 0) with true. cbv iota.
    unfold p_u, p_take. cbn [length Nat.leb obind]. exact I.
  - cbn [app]. unfold p_take at 1. cbn [length Nat.leb firstn skipn obind].
    change (0 =? 0) with true. cbv iota.
    destruct rest as [|r0 rest'].
    + cbn [app]. rewrite <- (app_nil_r (le 8 addr)). rewrite p_u_le_mod. cbn [obind p_end]. split; reflexivity.
    + unfold p_u, p_take. unfold byte in *.
      assert (E : (8 <=? length ((r0 :: rest') ++ le 8 addr))%nat = true).
      { apply Nat.leb_le. rewrite app_length, length_le. lia. }
      rewrite E. cbn [obind].
      destruct (skipn 8 ((r0 :: rest') ++ le 8 addr)) as [|x xs] eqn:S8.
      * exfalso. assert (L : length (skipn 8 ((r0 :: rest') ++ le 8 addr)) = S (length rest')).
        { rewrite skipn_length, app_length, length_le. cbn [length]. lia. }
        rewrite S8 in L. discriminate.
      * cbn [p_end guard andb obind]. exact I.
Qed.

Lemma spec_never_the_stored_link tol name addr l tg : 0 < blen name -> blen name < 256 ->
  spec_dec_link tol 8 false (enc_dense_link name addr 8) = Ok (l, tg) -> ls_name l <> name.
Proof.
  intros H0 H E. pose proof (spec_dec_enc tol name addr H0 H) as P. rewrite E in P. destruct P as [_ P]. rewrite P.
  intros C. apply (f_equal (@length N)) in C. cbn [length] in C. lia.
Qed.

(* and for every name whose length is not 2 the specification decoder rejects the message, whatever it tolerates *)
Lemma spec_rejects tol name addr : 0 < blen name -> blen name < 256 -> blen name <> 2 ->
  exists e, spec_dec_link tol 8 false (enc_dense_link name addr 8) = e /\ (forall r, e <> Ok r).
Proof.
  intros H0 H H2. eexists; split; [reflexivity|]. intros [l tg] E.
  pose proof (spec_dec_enc tol name addr H0 H) as P. rewrite E in P. destruct P as [P _]. contradiction.
Qed.

(* the hypotheses are satisfiable: the link "x" -> 2199 of the witness file *)
Example dense_link_example :
  enc_dense_link [120] 2199 8 = [1; 0; 4; 0; 1; 120; 151; 8; 0; 0; 0; 0; 0; 0] /\
  spec_dec_link strict 8 false (enc_dense_link [120] 2199 8) = Err.
Proof. split; vm_compute; reflexivity. Qed.
